/-
  Props/C15ShiftLines.lean — C15, shift invariance at the line level (law-dependent).

  Two lines are *shift-related* when they have the same comma-separated fields except for their time
  fields, and each pair of time fields parses (with the model's real number parser `floatParse` /
  `scalarParse`, not reasoned about here) to `t` and `t + k` — or is rejected in both:

  * timing-point line: field 0 (`TpLineShift`);
  * `[Events]` line: for a break, fields 1 and 2; for every other event type field 1 is free (the parser
    ignores it) and the rest is identical (`EvLineShift`);
  * hit-object line: field 2; for a spinner the end-time field 5; for a hold the end time in front of the
    first `:` of field 5 (`HoLineShift`).

  `tp_parse_line_shift`, `ev_parse_line_shift`, `ho_parse_line_shift` (**parse_line_shift**): a pair of
  shift-related lines takes a pair of related states (`TpRel` / `shEvents` / `HoRel`) to related states with the
  same accept / reject result. Durations are not shifted: the spinner and hold arms store `end − start`, and
  `(e + k) − (s + k) = e − s`. `step_shift` lifts this to `HitObjectsState.step`, `fold_shift` to a whole list of
  (section, line) pairs, and **shift_invariant_partial** combines it with `finish_rel`.

  `shift_invariant_statement` is the same statement without the law hypothesis; it is NOT proved (for the IEEE
  instance it needs `t + k` exact on all times involved, i.e. reasoning about rounding).
-/
import RosuModel.Props.C15Shift
namespace Rosu.C15
open Rosu Scalar

set_option linter.unusedSectionVars false

variable {F P : Type} [Scalar F] [Scalar P]

/-! ### timing-point lines -/

def shTpLine (k : F) (l : TpLine F) : TpLine F := { l with time := l.time + k }

theorem pushSlot_map {α : Type} (f : α → α) (slot : Option α) (p : α) (tc : Bool) :
    (pushSlot slot p tc).map f = pushSlot (slot.map f) (f p) tc := by
  cases tc <;> cases slot <;> rfl

/-- a flush of an empty pending group is the identity. -/
theorem flush_empty (st : TimingPointsState F P) (h : st.pending = Pending.empty) : flushPendingPoints st = st := by
  obtain ⟨g, pt, pd, cp⟩ := st
  simp only at h
  subst h
  rfl

/-- the first half of `add_control_point`. -/
theorem maybeFlush_rel {k : F} (L : ShiftLaws F k) (st st' : TimingPointsState F P) (h : TpRel k st st') (t : F) :
    TpRel k (maybeFlush st t) (maybeFlush st' (t + k)) ∧
      (maybeFlush st' (t + k)).pending = shPending k (maybeFlush st t).pending := by
  obtain ⟨hg, hc, hp, hpt⟩ := h
  rcases hpt with hpt | hemp
  · have hs : sameGroup (t + k) st'.pendingTime = sameGroup t st.pendingTime := by
      unfold sameGroup; rw [hpt, L.sub_shift]
    unfold maybeFlush
    rw [hs]
    split
    · exact ⟨⟨hg, hc, hp, Or.inl hpt⟩, hp⟩
    · refine ⟨⟨hg, ?_, rfl, Or.inr rfl⟩, rfl⟩
      show flushInto st'.controlPoints st'.pending = shCP k (flushInto st.controlPoints st.pending)
      rw [hc, hp, flushInto_shift L]
  · have hemp' : st'.pending = Pending.empty := by rw [hp, hemp]; rfl
    have e1 : maybeFlush st t = st := by unfold maybeFlush; split; rfl; exact flush_empty st hemp
    have e2 : maybeFlush st' (t + k) = st' := by unfold maybeFlush; split; rfl; exact flush_empty st' hemp'
    rw [e1, e2]
    exact ⟨⟨hg, hc, hp, Or.inr hemp⟩, hp⟩

theorem addTimingCP_rel {k : F} (L : ShiftLaws F k) (st st' : TimingPointsState F P) (h : TpRel k st st') (t : F)
    (p : TimingPoint F) (tc : Bool) : TpRel k (addTimingCP st t p tc) (addTimingCP st' (t + k) (shTP k p) tc) := by
  obtain ⟨⟨hg, hc, hp, _⟩, _⟩ := maybeFlush_rel L st st' h t
  refine ⟨hg, hc, ?_, Or.inl rfl⟩
  show ({ (maybeFlush st' (t + k)).pending with timing := _ } : Pending F) = shPending k { (maybeFlush st t).pending with timing := _ }
  rw [hp]
  simp only [shPending, pushSlot_map]

theorem addDifficultyCP_rel {k : F} (L : ShiftLaws F k) (st st' : TimingPointsState F P) (h : TpRel k st st') (t : F)
    (p : DifficultyPoint F) (tc : Bool) :
    TpRel k (addDifficultyCP st t p tc) (addDifficultyCP st' (t + k) (shDP k p) tc) := by
  obtain ⟨⟨hg, hc, hp, _⟩, _⟩ := maybeFlush_rel L st st' h t
  refine ⟨hg, hc, ?_, Or.inl rfl⟩
  show ({ (maybeFlush st' (t + k)).pending with difficulty := _ } : Pending F) = shPending k { (maybeFlush st t).pending with difficulty := _ }
  rw [hp]
  simp only [shPending, pushSlot_map]

theorem addSampleCP_rel {k : F} (L : ShiftLaws F k) (st st' : TimingPointsState F P) (h : TpRel k st st') (t : F)
    (p : SamplePoint F) (tc : Bool) :
    TpRel k (addSampleCP st t p tc) (addSampleCP st' (t + k) (shSP k p) tc) := by
  obtain ⟨⟨hg, hc, hp, _⟩, _⟩ := maybeFlush_rel L st st' h t
  refine ⟨hg, hc, ?_, Or.inl rfl⟩
  show ({ (maybeFlush st' (t + k)).pending with sample := _ } : Pending F) = shPending k { (maybeFlush st t).pending with sample := _ }
  rw [hp]
  simp only [shPending, pushSlot_map]

theorem addEffectCP_rel {k : F} (L : ShiftLaws F k) (st st' : TimingPointsState F P) (h : TpRel k st st') (t : F)
    (p : EffectPoint F) (tc : Bool) :
    TpRel k (addEffectCP st t p tc) (addEffectCP st' (t + k) (shEP k p) tc) := by
  obtain ⟨⟨hg, hc, hp, _⟩, _⟩ := maybeFlush_rel L st st' h t
  refine ⟨hg, hc, ?_, Or.inl rfl⟩
  show ({ (maybeFlush st' (t + k)).pending with effect := _ } : Pending F) = shPending k { (maybeFlush st t).pending with effect := _ }
  rw [hp]
  simp only [shPending, pushSlot_map]

theorem effectPoint_shift (k : F) (mode : GameMode) (l : TpLine F) :
    (shTpLine k l).effectPoint mode = shEP k (l.effectPoint mode) := by
  unfold TpLine.effectPoint
  split <;> rfl

/-- the mutating tail of `parse_timing_points` on related states, for a line `k` later. -/
theorem applyTpLine_rel {k : F} (L : ShiftLaws F k) (st st' : TimingPointsState F P) (h : TpRel k st st') (l : TpLine F) :
    TpRel k (applyTpLine st l) (applyTpLine st' (shTpLine k l)) := by
  have h1 : TpRel k (if l.timingChange then addTimingCP st l.time l.timingPoint l.timingChange else st)
      (if l.timingChange then addTimingCP st' (l.time + k) (shTP k l.timingPoint) l.timingChange else st') := by
    split
    · exact addTimingCP_rel L st st' h _ _ _
    · exact h
  have h2 := addDifficultyCP_rel L _ _ h1 l.time l.difficultyPoint l.timingChange
  have h3 := addSampleCP_rel L _ _ h2 l.time l.samplePoint l.timingChange
  generalize hs3 : addSampleCP (addDifficultyCP (if l.timingChange then addTimingCP st l.time l.timingPoint l.timingChange else st)
      l.time l.difficultyPoint l.timingChange) l.time l.samplePoint l.timingChange = s3 at h3
  generalize hs3' : addSampleCP (addDifficultyCP
      (if l.timingChange then addTimingCP st' (l.time + k) (shTP k l.timingPoint) l.timingChange else st')
      (l.time + k) (shDP k l.difficultyPoint) l.timingChange) (l.time + k) (shSP k l.samplePoint) l.timingChange = s3' at h3
  have g1 : applyTpLine st l =
      { addEffectCP s3 l.time (l.effectPoint s3.general.mode) l.timingChange with pendingTime := l.time } := by
    rw [← hs3]; rfl
  have g2 : applyTpLine st' (shTpLine k l) =
      { addEffectCP s3' (l.time + k) ((shTpLine k l).effectPoint s3'.general.mode) l.timingChange with
          pendingTime := l.time + k } := by
    rw [← hs3']; rfl
  rw [g1, g2, effectPoint_shift, h3.1]
  have h4 := addEffectCP_rel L s3 s3' h3 l.time (l.effectPoint s3.general.mode) l.timingChange
  exact ⟨h4.1, h4.2.1, h4.2.2.1, Or.inl rfl⟩

theorem checkNaN_shift (k : F) (l : TpLine F) : checkNaN (shTpLine k l) = (checkNaN l).map (shTpLine k) := by
  unfold checkNaN
  show (if (l.timingChange && isNaN l.beatLen) = true then _ else _) = _
  split <;> rfl

/-- `parse_timing_points` up to the NaN test, on two field lists that differ in the time field only. -/
theorem parseTpRaw_shift (k : F) (g : GeneralState F P) (timeS timeS' : Str) (tl : List Str) (t : F)
    (h : (scalarParse timeS : Except NumErr F) = .ok t) (h' : (scalarParse timeS' : Except NumErr F) = .ok (t + k)) :
    parseTpRaw g (timeS' :: tl) = (parseTpRaw g (timeS :: tl)).map (shTpLine k) := by
  cases tl with
  | nil => rfl
  | cons beatS rest =>
    unfold parseTpRaw
    simp only [h, h']
    cases (parseBeatLen beatS : Except TpErr F) with
    | error e => rfl
    | ok b =>
      simp only []
      cases parseTimeSignature rest[0]? with
      | error e => rfl
      | ok ts =>
        simp only []
        cases optI32 rest[1]? with
        | error e => rfl
        | ok a1 =>
          simp only []
          cases optI32 rest[2]? with
          | error e => rfl
          | ok a2 =>
            simp only []
            cases optI32 rest[3]? with
            | error e => rfl
            | ok a3 =>
              simp only []
              cases parseEffectFlags rest[5]? with
              | error e => rfl
              | ok fl => rfl

theorem parseTpRaw_error (g : GeneralState F P) (timeS : Str) (tl : List Str) (e : NumErr)
    (h : (scalarParse timeS : Except NumErr F) = .error e) :
    (parseTpRaw g (timeS :: tl) : Except TpErr (TpLine F)) = .error (if tl = [] then .invalidLine else .number e) := by
  cases tl with
  | nil => rfl
  | cons beatS rest =>
    unfold parseTpRaw
    simp only [h]
    rfl

/-- two timing-point lines with the same fields except the time, which parses to `t` resp. `t + k`, or is
rejected with the same error in both. -/
def TpLineShift (k : F) (line line' : Str) : Prop :=
  ∃ timeS timeS' tl,
    splitOn ',' (trimComment line) = timeS :: tl ∧ splitOn ',' (trimComment line') = timeS' :: tl ∧
    ((∃ t : F, (scalarParse timeS : Except NumErr F) = .ok t ∧ (scalarParse timeS' : Except NumErr F) = .ok (t + k)) ∨
     (∃ e : NumErr, (scalarParse timeS : Except NumErr F) = .error e ∧ (scalarParse timeS' : Except NumErr F) = .error e))

/-- **parse_line_shift**, timing-point lines: same result, related states. -/
theorem tp_parse_line_shift {k : F} (L : ShiftLaws F k) (st st' : TimingPointsState F P) (h : TpRel k st st')
    (line line' : Str) (hl : TpLineShift k line line') :
    (parseTimingPoints st' line').1 = (parseTimingPoints st line).1 ∧
      TpRel k (parseTimingPoints st line).2 (parseTimingPoints st' line').2 := by
  obtain ⟨timeS, timeS', tl, hs, hs', hp⟩ := hl
  unfold parseTimingPoints parseTpFields
  rw [hs, hs', h.1]
  rcases hp with ⟨t, ht, ht'⟩ | ⟨e, he, he'⟩
  · rw [parseTpRaw_shift k st.general timeS timeS' tl t ht ht']
    cases parseTpRaw st.general (timeS :: tl) with
    | error e => exact ⟨rfl, h⟩
    | ok l =>
      simp only [Except.map, checkNaN_shift]
      cases checkNaN l with
      | error e => exact ⟨rfl, h⟩
      | ok l2 => exact ⟨rfl, applyTpLine_rel L st st' h l2⟩
  · rw [parseTpRaw_error st.general timeS tl e he, parseTpRaw_error st.general timeS' tl e he']
    exact ⟨rfl, h⟩

/-! ### `[Events]` lines -/

/-- two time fields: they parse to `t` and `t + k`, or both are rejected. -/
def ParseShift (k : F) (s s' : Str) : Prop :=
  (∃ t : F, (floatParse s : Option F) = some t ∧ (floatParse s' : Option F) = some (t + k)) ∨
  ((floatParse s : Option F) = none ∧ (floatParse s' : Option F) = none)

/-- two `[Events]` lines: a break with both bounds shifted; any other event with an arbitrary second field
(its start time; `parse_events` does not read it) and otherwise identical; or one line too short to be an event. -/
def EvLineShift (k : F) (line line' : Str) : Prop :=
  (∃ ty sS sS' eS eS' rest,
    splitOn ',' (trimComment line) = ty :: sS :: eS :: rest ∧
    splitOn ',' (trimComment line') = ty :: sS' :: eS' :: rest ∧
    (if EventType.parse ty = some .break_ then ParseShift k sS sS' ∧ ParseShift k eS eS' else eS' = eS)) ∨
  (line' = line ∧ (splitOn ',' (trimComment line)).length < 3)

/-- **parse_line_shift**, `[Events]` lines. -/
theorem ev_parse_line_shift {k : F} (L : ShiftLaws F k) (st : Events F) (line line' : Str)
    (hl : EvLineShift k line line') :
    (parseEvents (shEvents k st) line').2 = (parseEvents st line).2 ∧
      (parseEvents (shEvents k st) line').1 = shEvents k (parseEvents st line).1 := by
  rcases hl with ⟨ty, sS, sS', eS, eS', rest, hs, hs', hc⟩ | ⟨hEq, hlen⟩
  · unfold parseEvents
    rw [hs, hs']
    simp only []
    cases hty : EventType.parse ty with
    | none => exact ⟨rfl, rfl⟩
    | some et =>
      cases et with
      | break_ =>
        simp only [hty, if_true] at hc
        obtain ⟨h1, h2⟩ := hc
        simp only []
        rcases h1 with ⟨s, hs1, hs2⟩ | ⟨hs1, hs2⟩
        · rw [hs1, hs2]
          rcases h2 with ⟨e, he1, he2⟩ | ⟨he1, he2⟩
          · rw [he1, he2]
            refine ⟨rfl, ?_⟩
            simp only [shEvents, List.map_append, List.map, shBreak, L.max_shift]
          · rw [he1, he2]; exact ⟨rfl, rfl⟩
        · rw [hs1, hs2]; exact ⟨rfl, rfl⟩
      | background =>
        have : eS' = eS := by simpa [hty] using hc
        rw [this]; exact ⟨rfl, rfl⟩
      | video =>
        have : eS' = eS := by simpa [hty] using hc
        rw [this]
        simp only []
        cases hasVideoExtension (cleanFilename eS) with
        | none => exact ⟨rfl, rfl⟩
        | some b => cases b <;> exact ⟨rfl, rfl⟩
      | sprite =>
        simp only []
        have hb : (shEvents k st).backgroundFile = st.backgroundFile := rfl
        rw [hb]
        cases st.backgroundFile.isEmpty with
        | false => exact ⟨rfl, rfl⟩
        | true => cases rest <;> exact ⟨rfl, rfl⟩
      | color => exact ⟨rfl, rfl⟩
      | sample => exact ⟨rfl, rfl⟩
      | animation => exact ⟨rfl, rfl⟩
  · rw [hEq]
    unfold parseEvents
    generalize splitOn ',' (trimComment line) = fs at hlen ⊢
    match fs, hlen with
    | [], _ => exact ⟨rfl, rfl⟩
    | [_], _ => exact ⟨rfl, rfl⟩
    | [_, _], _ => exact ⟨rfl, rfl⟩
    | _ :: _ :: _ :: _, h => simp at h; omega

/-! ### hit-object lines -/

variable [Cvt P F]

/-- the header of the line `k` later: same position, type and sound; possibly other trailing fields. -/
def shHeader (k : F) (hd : Header F P) (rest' : List Str) : Header F P :=
  { hd with startTime := hd.startTime + k, rest := rest' }

/-- the fields after the hit-sound field of two shift-related lines, by object class: a spinner's end time and a
hold's end time (in front of the first `:`) are time fields; circles and sliders have none. -/
def HoRestShift (k : F) (cls : Option ObjClass) (rest rest' : List Str) : Prop :=
  if cls = some .spinner then
    (rest = [] ∧ rest' = []) ∨ ∃ dS dS' r2, rest = dS :: r2 ∧ rest' = dS' :: r2 ∧ ParseShift k dS dS'
  else if cls = some .hold then
    (rest' = rest ∧ optNonEmpty rest.head? = none) ∨
    ∃ s s' tl e e' ss, rest = s :: tl ∧ rest' = s' :: tl ∧ s.isEmpty = false ∧ s'.isEmpty = false ∧
      splitOn ':' s = e :: ss ∧ splitOn ':' s' = e' :: ss ∧ ParseShift k e e'
  else rest' = rest

/-- two hit-object lines with the same fields except the start time and, for spinners and holds, the end
time; or one line with fewer than five fields. -/
def HoLineShift (k : F) (line line' : Str) : Prop :=
  (∃ xs ys tS tS' kindS soundS rest rest',
    splitOn ',' (trimComment line) = xs :: ys :: tS :: kindS :: soundS :: rest ∧
    splitOn ',' (trimComment line') = xs :: ys :: tS' :: kindS :: soundS :: rest' ∧
    ParseShift k tS tS' ∧
    HoRestShift k ((i32FromStr kindS).bind (fun ty0 => classify (maskedType ty0))) rest rest') ∨
  (line' = line ∧ (splitOn ',' (trimComment line)).length < 5)

theorem parseHeader_shift (k : F) (line line' : Str) (xs ys tS tS' kindS soundS : Str) (rest rest' : List Str)
    (hs : splitOn ',' (trimComment line) = xs :: ys :: tS :: kindS :: soundS :: rest)
    (hs' : splitOn ',' (trimComment line') = xs :: ys :: tS' :: kindS :: soundS :: rest')
    (ht : ParseShift k tS tS') :
    ((parseHeader line : Option (Header F P)) = none ∧ (parseHeader line' : Option (Header F P)) = none) ∨
    ∃ hd : Header F P, parseHeader line = some hd ∧ parseHeader line' = some (shHeader k hd rest') ∧
      hd.rest = rest ∧ i32FromStr kindS = some hd.ty0 := by
  unfold parseHeader
  rw [hs, hs']
  simp only []
  cases (floatParseWithLimits xs (Scalar.ofInt maxCoordinate) : Option P) with
  | none => exact Or.inl ⟨rfl, rfl⟩
  | some xv =>
    simp only []
    cases (floatParseWithLimits ys (Scalar.ofInt maxCoordinate) : Option P) with
    | none => exact Or.inl ⟨rfl, rfl⟩
    | some yv =>
      simp only []
      rcases ht with ⟨t, h1, h2⟩ | ⟨h1, h2⟩
      · rw [h1, h2]
        simp only []
        cases hk : i32FromStr kindS with
        | none => exact Or.inl ⟨rfl, rfl⟩
        | some ty0 =>
          simp only []
          cases HitSoundType.parse soundS with
          | none => exact Or.inl ⟨rfl, rfl⟩
          | some snd => exact Or.inr ⟨_, rfl, rfl, rfl, rfl⟩
      · rw [h1, h2]; exact Or.inl ⟨rfl, rfl⟩

theorem pushObject_rel (k : F) (c c' : HOCore F P) (hr : HoRel k c c') (hd : Header F P) (rest' : List Str)
    (kind : HitObjectKind F P) (b : SampleBankInfo) :
    HoRel k (pushObject c hd kind b) (pushObject c' (shHeader k hd rest') kind b) := by
  obtain ⟨h1, h2, h3, h4⟩ := hr
  refine ⟨rfl, h2, h3, ?_⟩
  show c'.hitObjects ++ _ = List.map (shObj k) (c.hitObjects ++ _)
  rw [h4, List.map_append]
  rfl

theorem buildCircle_shift (k : F) (c c' : HOCore F P) (hr : HoRel k c c') (hd : Header F P) :
    buildCircle c' (shHeader k hd hd.rest) = buildCircle c hd := by
  unfold buildCircle forcedNewCombo lastWasSpinner
  simp only [shHeader, hr.1]

theorem buildSlider_shift (k : F) (mode : GameMode) (c c' : HOCore F P) (hr : HoRel k c c') (hd : Header F P) :
    (buildSlider mode c' (shHeader k hd hd.rest)).2 = (buildSlider mode c hd).2 ∧
      HoRel k (buildSlider mode c hd).1 (buildSlider mode c' (shHeader k hd hd.rest)).1 := by
  obtain ⟨h1, h2, h3, h4⟩ := hr
  have hp : (sliderPrelude (shHeader k hd hd.rest) : Option (SliderPrelude F)) = sliderPrelude hd := rfl
  have hsc : c'.scratch = c.scratch := by unfold HOCore.scratch; rw [h2, h3]
  unfold buildSlider
  rw [hp]
  cases (sliderPrelude hd : Option (SliderPrelude F)) with
  | none => exact ⟨rfl, h1, h2, h3, h4⟩
  | some pre =>
    simp only [hsc, shHeader]
    cases hcv : convertPathStr F c.scratch pre.pointStr hd.pos with
    | mk sc ok =>
      cases ok with
      | false => exact ⟨rfl, h1, rfl, rfl, h4⟩
      | true =>
        refine ⟨?_, h1, rfl, rfl, h4⟩
        simp only [forcedNewCombo, lastWasSpinner, h1]

theorem buildSpinner_shift {k : F} (L : ShiftLaws F k) (hd : Header F P) (rest' : List Str)
    (h : HoRestShift k (some .spinner) hd.rest rest') :
    buildSpinner (shHeader k hd rest') = buildSpinner hd := by
  simp only [HoRestShift, if_true] at h
  unfold buildSpinner
  rcases h with ⟨h1, h2⟩ | ⟨dS, dS', r2, h1, h2, hp⟩
  · simp only [shHeader, h1, h2]
  · simp only [shHeader, h1, h2]
    rcases hp with ⟨d, hd1, hd2⟩ | ⟨hd1, hd2⟩
    · rw [hd1, hd2]
      simp only [L.sub_shift]
    · rw [hd1, hd2]

theorem buildHold_shift {k : F} (L : ShiftLaws F k) (hd : Header F P) (rest' : List Str)
    (h : HoRestShift k (some .hold) hd.rest rest') :
    buildHold (shHeader k hd rest') = buildHold hd := by
  have hne : (some ObjClass.hold = some ObjClass.spinner) = False := by simp
  simp only [HoRestShift, hne, if_false, if_true] at h
  unfold buildHold
  rcases h with ⟨h1, h2⟩ | ⟨s, s', tl, e, e', ss, h1, h2, hs, hs', hsp, hsp', hp⟩
  · simp only [shHeader, h1, h2, L.max_shift, L.sub_shift]
  · have o1 : optNonEmpty (s :: tl).head? = some s := by simp [optNonEmpty, hs]
    have o2 : optNonEmpty (s' :: tl).head? = some s' := by simp [optNonEmpty, hs']
    simp only [shHeader, h1, h2, o1, o2, hsp, hsp']
    rcases hp with ⟨d, hd1, hd2⟩ | ⟨hd1, hd2⟩
    · rw [hd1, hd2]
      simp only []
      cases (({} : SampleBankInfo).readCustomSampleBanks ss false) with
      | mk bi ok =>
        cases ok with
        | false => rfl
        | true => simp only [L.max_shift, L.sub_shift]
    · rw [hd1, hd2]

/-- **parse_line_shift**, hit-object lines: same accept / reject result, related states (the pushed object is
the same object `k` later; the path scratch and `last_object` agree). -/
theorem ho_parse_line_shift {k : F} (L : ShiftLaws F k) (mode : GameMode) (c c' : HOCore F P) (hr : HoRel k c c')
    (line line' : Str) (hl : HoLineShift k line line') :
    (parseHitObjectLine mode c' line').2 = (parseHitObjectLine mode c line).2 ∧
      HoRel k (parseHitObjectLine mode c line).1 (parseHitObjectLine mode c' line').1 := by
  rcases hl with ⟨xs, ys, tS, tS', kindS, soundS, rest, rest', hs, hs', ht, hrest⟩ | ⟨hEq, hlen⟩
  · rcases parseHeader_shift (P := P) k line line' xs ys tS tS' kindS soundS rest rest' hs hs' ht with
      ⟨hn, hn'⟩ | ⟨hd, hh, hh', hrst, hty⟩
    · unfold parseHitObjectLine
      rw [hn, hn']
      exact ⟨rfl, hr⟩
    · unfold parseHitObjectLine
      rw [hh, hh']
      simp only []
      have hty0 : (shHeader k hd rest').ty0 = hd.ty0 := rfl
      rw [hty0]
      rw [hty, ← hrst] at hrest
      simp only [Option.bind] at hrest
      cases hcl : classify (maskedType hd.ty0) with
      | none => exact ⟨rfl, hr⟩
      | some cls =>
        rw [hcl] at hrest
        cases cls with
        | circle =>
          have hre : rest' = hd.rest := by simpa [HoRestShift] using hrest
          subst hre
          simp only [buildCircle_shift k c c' hr hd]
          cases buildCircle c hd with
          | none => exact ⟨rfl, hr⟩
          | some kb => exact ⟨rfl, pushObject_rel k c c' hr hd _ kb.1 kb.2⟩
        | slider =>
          have hre : rest' = hd.rest := by simpa [HoRestShift] using hrest
          subst hre
          simp only []
          obtain ⟨e2, e1⟩ := buildSlider_shift k mode c c' hr hd
          revert e1 e2
          cases buildSlider mode c' (shHeader k hd hd.rest) with
          | mk s1' o' =>
            cases buildSlider mode c hd with
            | mk s1 o =>
              intro e2 e1
              simp only at e1 e2
              subst e2
              cases o' with
              | none => exact ⟨rfl, e1⟩
              | some kb => exact ⟨rfl, pushObject_rel k s1 s1' e1 hd _ kb.1 kb.2⟩
        | spinner =>
          simp only [buildSpinner_shift L hd rest' hrest]
          cases buildSpinner hd with
          | none => exact ⟨rfl, hr⟩
          | some kb => exact ⟨rfl, pushObject_rel k c c' hr hd _ kb.1 kb.2⟩
        | hold =>
          simp only [buildHold_shift L hd rest' hrest]
          cases buildHold hd with
          | none => exact ⟨rfl, hr⟩
          | some kb => exact ⟨rfl, pushObject_rel k c c' hr hd _ kb.1 kb.2⟩
  · rw [hEq]
    have hn : (parseHeader line : Option (Header F P)) = none := by
      unfold parseHeader
      generalize splitOn ',' (trimComment line) = fs at hlen
      match fs, hlen with
      | [], _ => rfl
      | [_], _ => rfl
      | [_, _], _ => rfl
      | [_, _, _], _ => rfl
      | [_, _, _, _], _ => rfl
      | _ :: _ :: _ :: _ :: _ :: _, h => simp at h; omega
    unfold parseHitObjectLine
    rw [hn]
    exact ⟨rfl, hr⟩

/-! ### whole sections: the fold over lines -/

/-- shift-related lines of a section: `[TimingPoints]`, `[Events]` and `[HitObjects]` lines as above; the lines of
every other section (which carry no object / control-point / break time) are identical. -/
def SecLineShift (k : F) (sec : Section) (line line' : Str) : Prop :=
  match sec with
  | .timingPoints => TpLineShift k line line'
  | .events => EvLineShift k line line'
  | .hitObjects => HoLineShift k line line'
  | _ => line' = line

theorem parseGeneral_rel (k : F) (st st' : TimingPointsState F P) (h : TpRel k st st') (line : Str) :
    TpRel k (st.parseGeneral line).2 (st'.parseGeneral line).2 := by
  obtain ⟨hg, hc, hp, hpt⟩ := h
  unfold TimingPointsState.parseGeneral
  rw [hg]
  cases Rosu.parseGeneral st.general line with
  | mk r g =>
    cases r with
    | ok u => exact ⟨rfl, hc, hp, hpt⟩
    | error e => exact ⟨rfl, hc, hp, hpt⟩

/-- one line of any section through `<HitObjects as DecodeBeatmap>::parse_*`. -/
theorem step_shift {k : F} (L : ShiftLaws F k) (sec : Section) (st st' : HitObjectsState F P) (h : StateRel k st st')
    (line line' : Str) (hl : SecLineShift k sec line line') :
    StateRel k (st.step sec line) (st'.step sec line') := by
  obtain ⟨hco, hev, htp, hdf⟩ := h
  cases sec with
  | general =>
    have : line' = line := hl
    subst this
    exact ⟨hco, hev, parseGeneral_rel k _ _ htp line', hdf⟩
  | difficulty =>
    have : line' = line := hl
    subst this
    refine ⟨hco, hev, htp, ?_⟩
    show (parseDifficulty st'.difficulty line').1 = (parseDifficulty st.difficulty line').1
    rw [hdf]
  | events =>
    refine ⟨hco, ?_, htp, hdf⟩
    show (parseEvents st'.events line').1 = shEvents k (parseEvents st.events line).1
    rw [hev]
    exact (ev_parse_line_shift L st.events line line' hl).2
  | timingPoints =>
    exact ⟨hco, hev, (tp_parse_line_shift L _ _ htp line line' hl).2, hdf⟩
  | hitObjects =>
    refine ⟨?_, hev, htp, hdf⟩
    show HoRel k (parseHitObjectLine st.timingPoints.general.mode st.core line).1
      (parseHitObjectLine st'.timingPoints.general.mode st'.core line').1
    rw [htp.1]
    exact (ho_parse_line_shift L _ _ _ hco line line' hl).2
  | editor => exact ⟨hco, hev, htp, hdf⟩
  | metadata => exact ⟨hco, hev, htp, hdf⟩
  | colors => exact ⟨hco, hev, htp, hdf⟩
  | variables => exact ⟨hco, hev, htp, hdf⟩
  | catchTheBeat => exact ⟨hco, hev, htp, hdf⟩
  | mania => exact ⟨hco, hev, htp, hdf⟩

/-- **parse_line_shift** (all sections): the three line-level results in one statement. -/
theorem parse_line_shift {k : F} (L : ShiftLaws F k) :
    (∀ (st st' : TimingPointsState F P) (line line' : Str), TpRel k st st' → TpLineShift k line line' →
      (parseTimingPoints st' line').1 = (parseTimingPoints st line).1 ∧
        TpRel k (parseTimingPoints st line).2 (parseTimingPoints st' line').2) ∧
    (∀ (st : Events F) (line line' : Str), EvLineShift k line line' →
      (parseEvents (shEvents k st) line').2 = (parseEvents st line).2 ∧
        (parseEvents (shEvents k st) line').1 = shEvents k (parseEvents st line).1) ∧
    (∀ (mode : GameMode) (c c' : HOCore F P) (line line' : Str), HoRel k c c' → HoLineShift k line line' →
      (parseHitObjectLine mode c' line').2 = (parseHitObjectLine mode c line).2 ∧
        HoRel k (parseHitObjectLine mode c line).1 (parseHitObjectLine mode c' line').1) :=
  ⟨fun st st' line line' h hl => tp_parse_line_shift L st st' h line line' hl,
   fun st line line' hl => ev_parse_line_shift L st line line' hl,
   fun mode c c' line line' h hl => ho_parse_line_shift L mode c c' h line line' hl⟩

/-- the lines of a file body, each tagged with the section it stands in (what the framing loop dispatches). -/
abbrev SecLines := List (Section × Str)

/-- feed the lines to the `HitObjects` decoder state. -/
def runLines (ls : SecLines) (st : HitObjectsState F P) : HitObjectsState F P :=
  ls.foldl (fun st x => st.step x.1 x.2) st

/-- feed the lines to the `Beatmap` decoder state. -/
def runBeatmapLines (ls : SecLines) (st : BeatmapState F P) : BeatmapState F P :=
  ls.foldl (fun st x => st.step x.1 x.2) st

/-- two file bodies, line by line in the same sections and shift-related. -/
def LinesShift (k : F) (ls ls' : SecLines) : Prop :=
  Pointwise (fun a b => b.1 = a.1 ∧ SecLineShift k a.1 a.2 b.2) ls ls'

theorem fold_shift {k : F} (L : ShiftLaws F k) (ls ls' : SecLines) (h : LinesShift k ls ls')
    (st st' : HitObjectsState F P) (hst : StateRel k st st') :
    StateRel k (runLines ls st) (runLines ls' st') := by
  induction h generalizing st st' with
  | nil => exact hst
  | cons hab _ ih =>
    obtain ⟨hsec, hl⟩ := hab
    unfold runLines
    simp only [List.foldl]
    rw [hsec]
    exact ih _ _ (step_shift L _ st st' hst _ _ hl)

variable [Trig F] [Trig P]

/-- **shift_invariant_partial** (`HitObjects` decoder): decoding two bodies whose `[TimingPoints]`, `[Events]`
and `[HitObjects]` lines differ only in time fields parsing to `t` resp. `t + k` yields — under the shift laws —
the same result with every object, break and control-point time `k` later, and nothing else changed (same
error, if the finaliser fails on a slider path). -/
theorem shift_invariant_partial {k : F} (L : ShiftLaws F k) (ls ls' : SecLines) (h : LinesShift k ls ls') :
    (runLines ls' (HitObjectsState.create : HitObjectsState F P)).finish =
      ((runLines ls (HitObjectsState.create : HitObjectsState F P)).finish).map (shiftHitObjects k) :=
  finish_rel L _ _ (fold_shift L ls ls' h _ _ (stateRel_create k))

/-- related `BeatmapState`s: editor, metadata, colours and version equal. -/
def BmRel (k : F) (st st' : BeatmapState F P) : Prop :=
  st'.version = st.version ∧ st'.editor = st.editor ∧ st'.metadata = st.metadata ∧ st'.colors = st.colors ∧
  StateRel k st.hitObjects st'.hitObjects

omit [Trig F] [Trig P] in
theorem beatmap_step_shift {k : F} (L : ShiftLaws F k) (sec : Section) (st st' : BeatmapState F P) (h : BmRel k st st')
    (line line' : Str) (hl : SecLineShift k sec line line') :
    BmRel k (st.step sec line) (st'.step sec line') := by
  obtain ⟨hv, he, hm, hc, hh⟩ := h
  cases sec with
  | editor =>
    have : line' = line := hl
    subst this
    refine ⟨hv, ?_, hm, hc, hh⟩
    show (parseEditor st'.editor line').1 = (parseEditor st.editor line').1
    rw [he]
  | metadata =>
    have : line' = line := hl
    subst this
    refine ⟨hv, he, ?_, hc, hh⟩
    show (parseMetadata st'.metadata line').1 = (parseMetadata st.metadata line').1
    rw [hm]
  | colors =>
    have : line' = line := hl
    subst this
    refine ⟨hv, he, hm, ?_, hh⟩
    show (parseColors st'.colors line').1 = (parseColors st.colors line').1
    rw [hc]
  | general => exact ⟨hv, he, hm, hc, step_shift L _ _ _ hh _ _ hl⟩
  | difficulty => exact ⟨hv, he, hm, hc, step_shift L _ _ _ hh _ _ hl⟩
  | events => exact ⟨hv, he, hm, hc, step_shift L _ _ _ hh _ _ hl⟩
  | timingPoints => exact ⟨hv, he, hm, hc, step_shift L _ _ _ hh _ _ hl⟩
  | hitObjects => exact ⟨hv, he, hm, hc, step_shift L _ _ _ hh _ _ hl⟩
  | variables => exact ⟨hv, he, hm, hc, hh⟩
  | catchTheBeat => exact ⟨hv, he, hm, hc, hh⟩
  | mania => exact ⟨hv, he, hm, hc, hh⟩

omit [Trig F] [Trig P] in
theorem beatmap_fold_shift {k : F} (L : ShiftLaws F k) (ls ls' : SecLines) (h : LinesShift k ls ls')
    (st st' : BeatmapState F P) (hst : BmRel k st st') :
    BmRel k (runBeatmapLines ls st) (runBeatmapLines ls' st') := by
  induction h generalizing st st' with
  | nil => exact hst
  | cons hab _ ih =>
    obtain ⟨hsec, hl⟩ := hab
    unfold runBeatmapLines
    simp only [List.foldl]
    rw [hsec]
    exact ih _ _ (beatmap_step_shift L _ st st' hst _ _ hl)

/-- `From<BeatmapState>` on related states. -/
theorem beatmap_finish_rel {k : F} (L : ShiftLaws F k) (st st' : BeatmapState F P) (h : BmRel k st st') :
    st'.finish = (st.finish).map (shiftBeatmap k) := by
  obtain ⟨hv, he, hm, hc, hh⟩ := h
  unfold BeatmapState.finish
  simp only [finish_rel L _ _ hh, hv, he, hm, hc, bind, Except.bind]
  cases st.hitObjects.finish with
  | error e => rfl
  | ok ho => rfl

/-- the statement of the property's last clause at the level of section line lists, for a scalar type, with NO
law hypothesis: decoding the shifted body gives the shifted `Beatmap`. -/
def shift_invariant_statement (F P : Type) [Scalar F] [Scalar P] [Cvt P F] [Trig F] [Trig P] : Prop :=
  ∀ (k : F) (version : Int) (ls ls' : SecLines), LinesShift k ls ls' →
    (runBeatmapLines ls' (BeatmapState.create version : BeatmapState F P)).finish =
      ((runBeatmapLines ls (BeatmapState.create version : BeatmapState F P)).finish).map (shiftBeatmap k)

/-- **shift_invariant_partial** (`Beatmap` decoder): the statement for every shift that satisfies the laws. -/
theorem beatmap_shift_invariant_partial {k : F} (L : ShiftLaws F k) (version : Int) (ls ls' : SecLines)
    (h : LinesShift k ls ls') :
    (runBeatmapLines ls' (BeatmapState.create version : BeatmapState F P)).finish =
      ((runBeatmapLines ls (BeatmapState.create version : BeatmapState F P)).finish).map (shiftBeatmap k) :=
  beatmap_finish_rel L _ _ (beatmap_fold_shift L ls ls' h _ _ ⟨rfl, rfl, rfl, rfl, stateRel_create k⟩)

/-- on the exact integer scalar the full statement holds. -/
theorem shift_invariant_Z : shift_invariant_statement Z Z :=
  fun k version ls ls' h => beatmap_shift_invariant_partial (zShiftLaws k) version ls ls' h

/-! ### a worked instance on `Z` (whose `FromStr` is the integer parser): real lines, shifted by one second -/

omit [Scalar P] [Cvt P F] [Trig F] [Trig P] in
theorem hoRest_same (k : F) (cls : Option ObjClass) (rest : List Str) (h1 : cls ≠ some .spinner) (h2 : cls ≠ some .hold) :
    HoRestShift k cls rest rest := by
  simp [HoRestShift, h1, h2]

omit [Scalar P] [Cvt P F] [Trig F] [Trig P] in
theorem hoRest_spinner (k : F) (cls : Option ObjClass) (dS dS' : Str) (r2 : List Str) (h : cls = some .spinner)
    (hp : ParseShift k dS dS') : HoRestShift k cls (dS :: r2) (dS' :: r2) := by
  subst h
  simp only [HoRestShift, if_true]
  exact Or.inr ⟨dS, dS', r2, rfl, rfl, hp⟩

omit [Scalar P] [Cvt P F] [Trig F] [Trig P] in
theorem hoRest_hold (k : F) (cls : Option ObjClass) (s s' e e' : Str) (tl ss : List Str) (h : cls = some .hold)
    (hs : s.isEmpty = false) (hs' : s'.isEmpty = false) (hsp : splitOn ':' s = e :: ss) (hsp' : splitOn ':' s' = e' :: ss)
    (hp : ParseShift k e e') : HoRestShift k cls (s :: tl) (s' :: tl) := by
  subst h
  have hne : (some ObjClass.hold = some ObjClass.spinner) = False := by simp
  simp only [HoRestShift, hne, if_false, if_true]
  exact Or.inr ⟨s, s', tl, e, e', ss, rfl, rfl, hs, hs', hsp, hsp', hp⟩

def zBody : SecLines :=
  [(.general, str "Mode: 0"),
   (.timingPoints, str "100,500,4,2,0,60,1,0"), (.timingPoints, str "100,-50,4,2,0,40,0,0"),
   (.timingPoints, str "900,-200,4,3,0,0,0,1 // kiai"),
   (.events, str "2,500,600"), (.events, str "Sample,700,0,\"a.wav\""),
   (.hitObjects, str "256,192,1000,128,0,1200:0:0:0:0:"), (.hitObjects, str "256,192,300,1,0"),
   (.hitObjects, str "256,192,400,12,0,900"), (.hitObjects, str "100,100,650,2,0,L|200:100,1,100"),
   (.hitObjects, str "garbage")]

def zBody' : SecLines :=
  [(.general, str "Mode: 0"),
   (.timingPoints, str "1100,500,4,2,0,60,1,0"), (.timingPoints, str "1100,-50,4,2,0,40,0,0"),
   (.timingPoints, str "1900,-200,4,3,0,0,0,1 // kiai"),
   (.events, str "2,1500,1600"), (.events, str "Sample,1700,0,\"a.wav\""),
   (.hitObjects, str "256,192,2000,128,0,2200:0:0:0:0:"), (.hitObjects, str "256,192,1300,1,0"),
   (.hitObjects, str "256,192,1400,12,0,1900"), (.hitObjects, str "100,100,1650,2,0,L|200:100,1,100"),
   (.hitObjects, str "garbage")]

/-- every line of the first body is accepted except the last; four objects, one break, a pending group. -/
example : ((runLines zBody (HitObjectsState.create : HitObjectsState Z Z)).core.hitObjects.map (fun h => h.startTime.v),
           (runLines zBody (HitObjectsState.create : HitObjectsState Z Z)).events.breaks.map (fun b => (b.startTime.v, b.endTime.v)),
           (runLines zBody (HitObjectsState.create : HitObjectsState Z Z)).timingPoints.controlPoints.timingPoints.map (fun p => p.time.v))
    = ([1000, 300, 400, 650], [(500, 600)], [100]) := by decide

theorem zBody_shift : LinesShift (⟨1000⟩ : Z) zBody zBody' := by
  refine .cons ⟨rfl, rfl⟩ (.cons ⟨rfl, ?_⟩ (.cons ⟨rfl, ?_⟩ (.cons ⟨rfl, ?_⟩ (.cons ⟨rfl, ?_⟩ (.cons ⟨rfl, ?_⟩
    (.cons ⟨rfl, ?_⟩ (.cons ⟨rfl, ?_⟩ (.cons ⟨rfl, ?_⟩ (.cons ⟨rfl, ?_⟩ (.cons ⟨rfl, ?_⟩ .nil))))))))))
  · exact ⟨str "100", str "1100", _, rfl, rfl, Or.inl ⟨⟨100⟩, rfl, rfl⟩⟩
  · exact ⟨str "100", str "1100", _, rfl, rfl, Or.inl ⟨⟨100⟩, rfl, rfl⟩⟩
  · exact ⟨str "900", str "1900", _, rfl, rfl, Or.inl ⟨⟨900⟩, rfl, rfl⟩⟩
  · exact Or.inl ⟨str "2", str "500", str "1500", str "600", str "1600", [], rfl, rfl,
      by rw [if_pos (by decide)]; exact ⟨Or.inl ⟨⟨500⟩, rfl, rfl⟩, Or.inl ⟨⟨600⟩, rfl, rfl⟩⟩⟩
  · exact Or.inl ⟨str "Sample", str "700", str "1700", str "0", str "0", _, rfl, rfl, by rw [if_neg (by decide)]⟩
  · exact Or.inl ⟨_, _, str "1000", str "2000", _, _, _, _, rfl, rfl, Or.inl ⟨⟨1000⟩, rfl, rfl⟩,
      hoRest_hold _ _ (str "1200:0:0:0:0:") (str "2200:0:0:0:0:") (str "1200") (str "2200") [] _ (by decide) rfl rfl rfl rfl
        (Or.inl ⟨⟨1200⟩, rfl, rfl⟩)⟩
  · exact Or.inl ⟨_, _, str "300", str "1300", _, _, _, _, rfl, rfl, Or.inl ⟨⟨300⟩, rfl, rfl⟩,
      hoRest_same _ _ _ (by decide) (by decide)⟩
  · exact Or.inl ⟨_, _, str "400", str "1400", _, _, _, _, rfl, rfl, Or.inl ⟨⟨400⟩, rfl, rfl⟩,
      hoRest_spinner _ _ (str "900") (str "1900") [] (by decide) (Or.inl ⟨⟨900⟩, rfl, rfl⟩)⟩
  · exact Or.inl ⟨_, _, str "650", str "1650", _, _, _, _, rfl, rfl, Or.inl ⟨⟨650⟩, rfl, rfl⟩,
      hoRest_same _ _ _ (by decide) (by decide)⟩
  · exact Or.inr ⟨rfl, by decide⟩

/-- **shift_invariant_partial** applied: the second body decodes to the first one's result, one second later. -/
example : (runLines zBody' (HitObjectsState.create : HitObjectsState Z Z)).finish =
    ((runLines zBody (HitObjectsState.create : HitObjectsState Z Z)).finish).map (shiftHitObjects ⟨1000⟩) :=
  shift_invariant_partial (zShiftLaws _) zBody zBody' zBody_shift

end Rosu.C15
