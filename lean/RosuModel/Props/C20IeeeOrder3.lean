/-
  Props/C20IeeeOrder3.lean — C20 on IEEE doubles: "every repeat of the stream (`s + 2 ≤ n`) is `≤` the tail" for a
  NON-NEGATIVE start and a MODERATE span count (`n ≤ 2²⁰`; the decoder's maximum is `9002`), with NO lower bound on the
  span duration. Props/C20IeeeOrder2.lean refuted the statement for negative starts and for `n ≥ 2²⁹`.

  Times as the code computes them (`fl` one rounding): `x = fl(A + fl(s·D))` (span start), repeat `r = fl(x + D)`,
  tail `T = fl(A + fl(n·D))`.

  STATUS: `repeat_le_tail_nonneg_small_statement` is **OPEN** — neither proved nor refuted; PROVED outside a sliver of
  span durations of relative width `2⁻³¹` at half an ulp of the span start (`repeat_le_tail_nonneg_small_outside_sliver`).
  * SEARCH (C, binary64 with `-ffp-contract=off`, `≈ 10⁹` cases, none failing): `A = 0`, integer `A < 2³¹`, `A` with a
    fractional part, `A` next to powers of two, random bit patterns; `D` = half an ulp of `A` plus `0 … 2²⁴` ulps of `D`,
    just below half an ulp, random multiples of the ulp, subnormal, random; `A` comparable to `n·D` (`A = k·D`, `A`
    next to `fl(s·D)`); `n ≤ 9002`, `n ≤ 2²⁰` (also near powers of two), `s = n − 2`, the last `40` repeats, random `s`.
    (The same search with `n ≤ 2³⁰` does not find the witness `wPos` of Order2 either: random search is weak evidence.)
  * MECHANISM. Let the span start be `x = m·2^e` (`2^e` the spacing of the doubles at `x`, `h = 2^e / 2`).
      (ii) `D < h`: `x + D` is below the midpoint, `fl(x + D) ≤ x ≤ T` — PROVED (`add_absorb_le_float_exp`,
           Lemmas/FloatAddAbsorb.lean);
      (i)  `D ≥ h·(1 + 2⁻³¹) + 2⁻¹⁰⁷³`: `x + D ≤ A + fl(n·D)` EXACTLY (`|x − (A + fl(s·D))| ≤ h`, `add_half_ulp_float`; the
           errors of the two products are `≤ 2⁻³²·D`), and a rounded sum is monotone in the exact sum
           (`add_le_add_of_toRat_le`, Lemmas/FloatAddSumMono.lean) — PROVED;
      (iii) the sliver `D = h·(1 + δ)`, `0 ≤ δ < 2⁻³¹`: pencil argument, NOT formalised: `r = x + 2h`, and `T = x` would need
           `A + fl(s·D)` within `γ = 2h − (fl(n·D) − fl(s·D)) > 0` above a midpoint. `A` is a multiple of `h`;
           `fl(s·D) = h·(s + ρ_s)` with `ρ_s` = `s·δ` rounded to the grid of `s`; while `s·δ < 1` the fractional part of
           `fl(s·D)/h` is `ρ_s ≥ ulp(s)`, and `ρ_s < γ = ρ_s − ρ_n` is impossible. A failure therefore needs `s·δ ≥ 1` with
           `δ < n·2⁻⁵²`, i.e. `s·n ≳ 2⁵²`, `n ≳ 2²⁶` — consistent with `wPos` (`n = 2²⁹ + 1`, `δ = 2⁻²⁷`, `s·δ = 4`) and with
           the empty search.
    What is missing for a proof: the grid argument of (iii) (the residues of the two rounded products modulo `h`), and the
    start `A = 0` with a span duration below `2⁻¹⁰⁷¹` (the error bound of a rounded product has the absolute term `2⁻¹⁰⁷⁵`).

  PROVED here (all: finite times, `0 ≤ D`, `0 ≤ s`, `s + 2 ≤ n`):
  * **`repeat_le_tail_nonneg_small_outside_sliver`** — `0 < A`, `n ≤ 2²⁰`, span start `x = m·2^e`:
    `D < 2^e / 2` or `2^e / 2·(1 + 2⁻³¹) + 2⁻¹⁰⁷³ ≤ D` ⟹ repeat `≤` tail. NO lower bound on `D`.
  * `repeat_le_tail_nonneg_small_outside_band` — the same relative to the start only:
    `D ≤ 2⁻⁵⁴·A` (`repeat_le_tail_nonneg_tiny_float`, every `n < 2³¹`) or `2⁻⁵³·(1 + 2⁻³⁰)·A + 2⁻¹⁰⁷² ≤ D`
    (`repeat_le_tail_nonneg_small_sharp`).
  * `repeat_le_tail_nonneg_small_partial` (`2⁻⁴⁹·A + 2⁻¹⁰⁷¹ ≤ D`, from the three error bounds of Order2; superseded by the
    sharp form), `…_limit` (`A ≤ 2³¹` and `D ≥ 2⁻¹⁸` ms).
  * `repeat_le_tail_zero_start_float` — start `±0`, `n < 2³¹`, `D ≥ 2⁻¹⁰⁷¹`.
  * `repeat_le_tail_of_absorbed_float` — regime (ii) with the absorption as a hypothesis, no magnitude hypothesis.
  * `repeat_le_tail_band_instances` — kernel-evaluated instances INSIDE the sliver (`D` = half an ulp of the span start
    plus one ulp of `D`; `D` = exactly half an ulp, the tie; `n = 9002`, `n = 2²⁰`): the order holds on each.
-/
import RosuModel.Props.C20IeeeOrder2
import RosuModel.Lemmas.FloatAddSumMono
import RosuModel.Lemmas.FloatAddAbsorb
namespace Rosu.C20
open Rosu Rosu.SliderEvents Rosu.FErr
open Float.Model Float.Model.UnpackedFloat Rosu.FMR Rosu.FAM

local notation "u₅₃" => ((2 : ℚ) ^ (-53 : Int))
local notation "η₆₄" => ((2 : ℚ) ^ (-1075 : Int))

/-! ## 1. the open statement -/

/-- the statement for a non-negative start and at most `2²⁰` spans, no lower bound on the span duration. **OPEN**: no
counterexample in `≈ 10⁹` structured cases; proved below outside the sliver `2^e/2 ≤ D < 2^e/2·(1 + 2⁻³¹) + 2⁻¹⁰⁷³`
(`2^e` the spacing of the doubles at the span start) for `0 < A`. -/
def repeat_le_tail_nonneg_small_statement : Prop :=
  ∀ (p : Params Float) (s : Int), 0 ≤ s → s + 2 ≤ p.spanCount → p.spanCount ≤ 2 ^ 20 →
    Scalar.le (0 : Float) p.startTime = true →
    Scalar.le (0 : Float) p.spanDuration = true → (repeatEvent p s).time.isFinite = true →
    (tailEvent p).time.isFinite = true → Scalar.le (repeatEvent p s).time (tailEvent p).time = true

/-- the same with the decoder's maximal span count `9002` (implied by the former). -/
def repeat_le_tail_nonneg_decoded_statement : Prop :=
  ∀ (p : Params Float) (s : Int), 0 ≤ s → s + 2 ≤ p.spanCount → p.spanCount ≤ 9002 →
    Scalar.le (0 : Float) p.startTime = true →
    Scalar.le (0 : Float) p.spanDuration = true → (repeatEvent p s).time.isFinite = true →
    (tailEvent p).time.isFinite = true → Scalar.le (repeatEvent p s).time (tailEvent p).time = true

theorem decoded_of_small (h : repeat_le_tail_nonneg_small_statement) : repeat_le_tail_nonneg_decoded_statement :=
  fun p s h0 h1 h2 => h p s h0 h1 (by omega)

/-! ## 2. regime (i): the span duration dominates the rounding errors, relative to the start only -/

theorem startTime_finite_of_repeat (p : Params Float) (s : Int) (hfr : (repeatEvent p s).time.isFinite = true) :
    p.startTime.isFinite = true ∧ p.spanDuration.isFinite = true := by
  rw [repeatEvent_time] at hfr
  obtain ⟨fS, fD⟩ := finite_of_add_finite _ _ hfr
  rw [spanStart_eq] at fS
  exact ⟨(finite_of_add_finite _ _ fS).1, fD⟩

/-- **repeat_le_tail_nonneg_small_partial**: `0 ≤ A`, `n ≤ 2²⁰`, finite times, and `2⁻⁴⁹·A + 2⁻¹⁰⁷¹ ≤ D` (the span
duration is at least `≈ 16` ulps of the start) ⟹ every repeat of the stream is `≤` the tail. Missing for
`repeat_le_tail_nonneg_small_statement`: `D < 2⁻⁴⁹·A + 2⁻¹⁰⁷¹`. -/
theorem repeat_le_tail_nonneg_small_partial (p : Params Float) (s : Int) (hs0 : 0 ≤ s) (hsn : s + 2 ≤ p.spanCount)
    (hn : p.spanCount ≤ 2 ^ 20) (hA : Scalar.le (0 : Float) p.startTime = true)
    (hdur : Scalar.le (0 : Float) p.spanDuration = true)
    (hfr : (repeatEvent p s).time.isFinite = true) (hf : (tailEvent p).time.isFinite = true)
    (hD : (2 : ℚ) ^ (-49 : Int) * toRat p.startTime + (2 : ℚ) ^ (-1071 : Int) ≤ toRat p.spanDuration) :
    Scalar.le (repeatEvent p s).time (tailEvent p).time = true := by
  obtain ⟨fA, fD⟩ := startTime_finite_of_repeat p s hfr
  have ha := toRat_nonneg _ hA fA
  have hd := toRat_nonneg _ hdur fD
  refine repeat_le_tail_of_span_ge p s hs0 hsn (by omega) hdur hfr hf ?_
  rw [abs_of_nonneg ha]
  have hN : (p.spanCount : ℚ) ≤ 1048576 := by exact_mod_cast hn
  have hNd : (p.spanCount : ℚ) * toRat p.spanDuration ≤ 1048576 * toRat p.spanDuration :=
    mul_le_mul_of_nonneg_right hN hd
  have h71 : (2 : ℚ) ^ (-1071 : Int) = 2 * (2 : ℚ) ^ (-1072 : Int) := by
    rw [show (-1071 : Int) = -1072 + 1 by norm_num, zpow_add₀ (two_ne_zero)]; ring
  have hu : 8 * u₅₃ = (2 : ℚ) ^ (-50 : Int) := by norm_num
  have h49 : (2 : ℚ) ^ (-49 : Int) = 2 * (2 : ℚ) ^ (-50 : Int) := by norm_num
  have h50 : (2 : ℚ) ^ (-50 : Int) = 1 / 1125899906842624 := by norm_num
  rw [h71, h49] at hD
  rw [hu]
  generalize (2 : ℚ) ^ (-1072 : Int) = t at *
  rw [h50] at hD ⊢
  linarith

/-- … for decoded magnitudes: `0 ≤ A ≤ 2³¹` and `D ≥ 2⁻¹⁸` ms. -/
theorem repeat_le_tail_nonneg_small_limit (p : Params Float) (s : Int) (hs0 : 0 ≤ s) (hsn : s + 2 ≤ p.spanCount)
    (hn : p.spanCount ≤ 2 ^ 20) (hA : Scalar.le (0 : Float) p.startTime = true)
    (hdur : Scalar.le (0 : Float) p.spanDuration = true)
    (hfr : (repeatEvent p s).time.isFinite = true) (hf : (tailEvent p).time.isFinite = true)
    (hM : toRat p.startTime ≤ (2 : ℚ) ^ (31 : Int))
    (hD : (2 : ℚ) ^ (-18 : Int) + (2 : ℚ) ^ (-1071 : Int) ≤ toRat p.spanDuration) :
    Scalar.le (repeatEvent p s).time (tailEvent p).time = true := by
  refine repeat_le_tail_nonneg_small_partial p s hs0 hsn hn hA hdur hfr hf (le_trans ?_ hD)
  have h : (2 : ℚ) ^ (-49 : Int) * (2 : ℚ) ^ (31 : Int) = (2 : ℚ) ^ (-18 : Int) := by
    rw [← zpow_add₀ (two_ne_zero)]; norm_num
  have := mul_le_mul_of_nonneg_left hM (two_zpow_pos (-49 : Int)).le
  rw [h] at this
  linarith

/-- **repeat_le_tail_zero_start_float**: a start of value `0` (`+0` or `−0`), `n < 2³¹`, `D ≥ 2⁻¹⁰⁷¹` ⟹ every repeat of the
stream is `≤` the tail. -/
theorem repeat_le_tail_zero_start_float (p : Params Float) (s : Int) (hs0 : 0 ≤ s) (hsn : s + 2 ≤ p.spanCount)
    (hn : p.spanCount < 2 ^ 31) (hA : toRat p.startTime = 0)
    (hdur : Scalar.le (0 : Float) p.spanDuration = true)
    (hfr : (repeatEvent p s).time.isFinite = true) (hf : (tailEvent p).time.isFinite = true)
    (hD : (2 : ℚ) ^ (-1071 : Int) ≤ toRat p.spanDuration) :
    Scalar.le (repeatEvent p s).time (tailEvent p).time = true := by
  obtain ⟨_, fD⟩ := startTime_finite_of_repeat p s hfr
  have hd := toRat_nonneg _ hdur fD
  refine repeat_le_tail_of_span_ge p s hs0 hsn hn hdur hfr hf ?_
  rw [hA, abs_zero, zero_add]
  have hN : (p.spanCount : ℚ) ≤ 2147483648 := by
    have : p.spanCount ≤ 2147483648 := by omega
    exact_mod_cast this
  have hNd : (p.spanCount : ℚ) * toRat p.spanDuration ≤ 2147483648 * toRat p.spanDuration :=
    mul_le_mul_of_nonneg_right hN hd
  have h71 : (2 : ℚ) ^ (-1071 : Int) = 2 * (2 : ℚ) ^ (-1072 : Int) := by
    rw [show (-1071 : Int) = -1072 + 1 by norm_num, zpow_add₀ (two_ne_zero)]; ring
  have hu : 8 * u₅₃ = 1 / 1125899906842624 := by norm_num
  rw [h71] at hD
  rw [hu]
  generalize (2 : ℚ) ^ (-1072 : Int) = t at *
  linarith

/-! ## 2b. regime (i), sharp: monotonicity of the rounded sum in the exact sum -/

/-- rational core: `x = (a + ps)(1 + δ)`, products `ps ≈ S·d`, `pn ≈ N·d` with relative error `u = 2⁻⁵³` and absolute
error `t`, `N ≥ S + 2`, `S ≤ 2²⁰`, and `u(1 + 2⁻³⁰)·a + 8t ≤ d` ⟹ `x + d ≤ a + pn`. -/
theorem sharp_rat (a d ps pn x δ S N t : ℚ) (ha : 0 ≤ a) (hd : 0 ≤ d) (hS0 : 0 ≤ S) (hS : S ≤ 1048576)
    (hN : S + 2 ≤ N) (ht : 0 ≤ t) (hps0 : 0 ≤ ps)
    (hx : x = (a + ps) * (1 + δ)) (hδ : |δ| ≤ 1 / 9007199254740992)
    (h2 : |ps - S * d| ≤ 1 / 9007199254740992 * |S * d| + t)
    (h3 : |pn - N * d| ≤ 1 / 9007199254740992 * |N * d| + t)
    (hD : 1 / 9007199254740992 * (1 + 1 / 1073741824) * a + 8 * t ≤ d) :
    x + d ≤ a + pn := by
  have hV : 0 ≤ S * d := mul_nonneg hS0 hd
  have hW : 0 ≤ N * d := mul_nonneg (by linarith) hd
  rw [abs_of_nonneg hV] at h2
  rw [abs_of_nonneg hW] at h3
  have f1 : x ≤ (a + ps) + (a + ps) * (1 / 9007199254740992) := by
    have := mul_le_mul_of_nonneg_left (abs_le.mp hδ).2 (by linarith : 0 ≤ a + ps)
    rw [hx]; linarith
  have f2 := (abs_le.mp h2).2
  have f3 := (abs_le.mp h3).1
  have f4 : S * d + 2 * d ≤ N * d := by
    have := mul_le_mul_of_nonneg_right hN hd
    linarith
  have f5 : S * d ≤ 1048576 * d := mul_le_mul_of_nonneg_right hS hd
  generalize S * d = V at *
  generalize N * d = W at *
  linarith

/-- **repeat_le_tail_nonneg_small_sharp**: `0 < A`, `n ≤ 2²⁰`, finite times and
`2⁻⁵³·(1 + 2⁻³⁰)·A + 2⁻¹⁰⁷² ≤ D` (the span duration is at least the unit roundoff times the start: between half an ulp and
one ulp of the start) ⟹ every repeat of the stream is `≤` the tail. Proof: `x + D ≤ A + fl(n·D)` holds EXACTLY, and the
rounded sum is monotone in the exact sum (`add_le_add_of_toRat_le`) — the third rounding costs nothing. -/
theorem repeat_le_tail_nonneg_small_sharp (p : Params Float) (s : Int) (hs0 : 0 ≤ s) (hsn : s + 2 ≤ p.spanCount)
    (hn : p.spanCount ≤ 2 ^ 20) (hA : 0 < toRat p.startTime)
    (hdur : Scalar.le (0 : Float) p.spanDuration = true)
    (hfr : (repeatEvent p s).time.isFinite = true) (hf : (tailEvent p).time.isFinite = true)
    (hD : u₅₃ * (1 + (2 : ℚ) ^ (-30 : Int)) * toRat p.startTime + (2 : ℚ) ^ (-1072 : Int) ≤ toRat p.spanDuration) :
    Scalar.le (repeatEvent p s).time (tailEvent p).time = true := by
  obtain ⟨fA, fD⟩ := startTime_finite_of_repeat p s hfr
  have hd := toRat_nonneg _ hdur fD
  have fS : (spanStart p s).isFinite = true := by
    rw [repeatEvent_time] at hfr; exact (finite_of_add_finite _ _ hfr).1
  have hsl : s < 2 ^ 31 := by omega
  have hnl : p.spanCount < 2 ^ 31 := by omega
  -- the span start is `≥ A > 0`
  have hAx : toRat p.startTime ≤ toRat (spanStart p s) :=
    toRat_le_of_le _ _ fA fS (head_le_span_start_float p s hs0 hsl hdur fS)
  have hf' := hf
  rw [tailEvent_time, spanStart_eq] at hf'
  have fPn := (finite_of_add_finite _ _ hf').2
  have fS' := fS
  rw [spanStart_eq] at fS'
  have fPs := (finite_of_add_finite _ _ fS').2
  obtain ⟨fzs, _⟩ := finite_of_mul_finite _ _ fPs
  obtain ⟨fzn, _⟩ := finite_of_mul_finite _ _ fPn
  rw [repeatEvent_time, tailEvent_time, spanStart_eq p p.spanCount]
  refine add_le_add_of_toRat_le _ _ _ _ (by linarith) hA.ne' fD fPn ?_
  -- the exact inequality
  obtain ⟨δ, hδ, hx⟩ := add_err_float _ _ fA fPs fS'
  have h2 := (mul_rnd_float _ _ fzs fD fPs).abs_add
  have h3 := (mul_rnd_float _ _ fzn fD fPn).abs_add
  rw [toRat_ofInt s (natAbs_lt_of_range s hs0 hsl)] at h2
  rw [toRat_ofInt p.spanCount (natAbs_lt_of_range _ (by omega) hnl)] at h3
  have hps0 : 0 ≤ toRat (Float.ofInt s * p.spanDuration) :=
    toRat_nonneg _ (span_offset_nonneg_float p s hs0 hsl hdur fS) fPs
  have hu : u₅₃ = 1 / 9007199254740992 := by norm_num
  have h30 : (2 : ℚ) ^ (-30 : Int) = 1 / 1073741824 := by norm_num
  rw [← eight_eta, hu, h30] at hD
  rw [hu] at hδ h2 h3
  rw [spanStart_eq]
  have hSq : (0 : ℚ) ≤ (s : ℚ) := by exact_mod_cast hs0
  have hSle : (s : ℚ) ≤ 1048576 := by
    have : s ≤ 1048576 := by omega
    exact_mod_cast this
  have hNq : (s : ℚ) + 2 ≤ (p.spanCount : ℚ) := by exact_mod_cast hsn
  exact sharp_rat _ _ _ _ _ δ (s : ℚ) (p.spanCount : ℚ) _ hA.le hd hSq hSle hNq eta_pos.le hps0 hx hδ h2 h3 hD

/-! ## 3. regime (ii): the span duration is absorbed by the span start -/

/-- **repeat_le_tail_of_absorbed_float**: if adding the span duration does not move the span start
(`fl(x + D) = x`: `D` below half the spacing of the doubles above `x`, or the tie resolved downwards), the repeat is `≤` the
tail — monotonicity only, no magnitude hypothesis, every `0 ≤ s ≤ n < 2³¹`. -/
theorem repeat_le_tail_of_absorbed_float (p : Params Float) (s : Int) (hs0 : 0 ≤ s) (hsn : s ≤ p.spanCount)
    (hn : p.spanCount < 2 ^ 31) (hdur : Scalar.le (0 : Float) p.spanDuration = true)
    (habs : (repeatEvent p s).time = spanStart p s)
    (hfr : (repeatEvent p s).time.isFinite = true) (hf : (tailEvent p).time.isFinite = true) :
    Scalar.le (repeatEvent p s).time (tailEvent p).time = true := by
  rw [habs] at hfr ⊢
  exact span_start_le_tail_float p s hs0 hsn hn hdur hfr hf

/-- **repeat_le_tail_nonneg_tiny_float** — regime (ii) PROVED for `D ≤ 2⁻⁵⁴·A`: `0 < A`, `0 ≤ s ≤ n < 2³¹`, `0 ≤ D ≤ 2⁻⁵⁴·A`
(less than half the spacing of the doubles above the span start), finite times ⟹ the repeat is `≤` the tail. The span
duration is absorbed (`add_absorb_le_float`: `fl(x + D) ≤ x`), and `x ≤ tail` by monotonicity. -/
theorem repeat_le_tail_nonneg_tiny_float (p : Params Float) (s : Int) (hs0 : 0 ≤ s) (hsn : s ≤ p.spanCount)
    (hn : p.spanCount < 2 ^ 31) (hA : 0 < toRat p.startTime)
    (hdur : Scalar.le (0 : Float) p.spanDuration = true)
    (hfr : (repeatEvent p s).time.isFinite = true) (hf : (tailEvent p).time.isFinite = true)
    (hD : toRat p.spanDuration ≤ (2 : ℚ) ^ (-54 : Int) * toRat p.startTime) :
    Scalar.le (repeatEvent p s).time (tailEvent p).time = true := by
  obtain ⟨fA, fD⟩ := startTime_finite_of_repeat p s hfr
  have hd := toRat_nonneg _ hdur fD
  have hfr' := hfr
  rw [repeatEvent_time] at hfr'
  have fS : (spanStart p s).isFinite = true := (finite_of_add_finite _ _ hfr').1
  have hAx : toRat p.startTime ≤ toRat (spanStart p s) :=
    toRat_le_of_le _ _ fA fS (head_le_span_start_float p s hs0 (by omega) hdur fS)
  have h54 := mul_le_mul_of_nonneg_left hAx (two_zpow_pos (-54 : Int)).le
  have habs := add_absorb_le_float (spanStart p s) p.spanDuration (by linarith) fD hd (by linarith) hfr'
  have h1 : Scalar.le (repeatEvent p s).time (spanStart p s) = true := by
    rw [repeatEvent_time]; exact le_of_toRat_le _ _ hfr' fS habs
  exact FMO.le_trans _ _ _ h1 (span_start_le_tail_float p s hs0 hsn hn hdur fS hf)

/-- **repeat_le_tail_nonneg_small_outside_band** — the two regimes together: `0 < A`, `n ≤ 2²⁰`, finite times, and the span
duration OUTSIDE the band `2⁻⁵⁴·A < D < 2⁻⁵³·(1 + 2⁻³⁰)·A + 2⁻¹⁰⁷²` ⟹ every repeat of the stream is `≤` the tail. What is
missing for `repeat_le_tail_nonneg_small_statement`: the band (a factor `2` in `D/A`, around half an ulp of the start; it
contains the sliver (iii) of the header), and the start `A = 0` with `D < 2⁻¹⁰⁷¹`. -/
theorem repeat_le_tail_nonneg_small_outside_band (p : Params Float) (s : Int) (hs0 : 0 ≤ s)
    (hsn : s + 2 ≤ p.spanCount) (hn : p.spanCount ≤ 2 ^ 20) (hA : 0 < toRat p.startTime)
    (hdur : Scalar.le (0 : Float) p.spanDuration = true)
    (hfr : (repeatEvent p s).time.isFinite = true) (hf : (tailEvent p).time.isFinite = true)
    (hD : toRat p.spanDuration ≤ (2 : ℚ) ^ (-54 : Int) * toRat p.startTime ∨
      u₅₃ * (1 + (2 : ℚ) ^ (-30 : Int)) * toRat p.startTime + (2 : ℚ) ^ (-1072 : Int) ≤ toRat p.spanDuration) :
    Scalar.le (repeatEvent p s).time (tailEvent p).time = true := by
  rcases hD with hD | hD
  · exact repeat_le_tail_nonneg_tiny_float p s hs0 (by omega) (by omega) hA hdur hfr hf hD
  · exact repeat_le_tail_nonneg_small_sharp p s hs0 hsn hn hA hdur hfr hf hD

/-! ## 3b. both regimes at the level of the span start's own grid: only the sliver (iii) remains -/

/-- rational core of the sharp regime with the half-ulp error `h` of the span start. -/
theorem sharp_rat_exp (a d ps pn x S N t h : ℚ) (hd : 0 ≤ d) (hS0 : 0 ≤ S) (hS : S ≤ 1048576)
    (hN : S + 2 ≤ N) (ht : 0 ≤ t) (_hh : 0 ≤ h)
    (hx : |x - (a + ps)| ≤ h)
    (h2 : |ps - S * d| ≤ 1 / 9007199254740992 * |S * d| + t)
    (h3 : |pn - N * d| ≤ 1 / 9007199254740992 * |N * d| + t)
    (hD : h * (1 + 1 / 2147483648) + 4 * t ≤ d) :
    x + d ≤ a + pn := by
  have hV : 0 ≤ S * d := mul_nonneg hS0 hd
  have hW : 0 ≤ N * d := mul_nonneg (by linarith) hd
  rw [abs_of_nonneg hV] at h2
  rw [abs_of_nonneg hW] at h3
  have f1 := (abs_le.mp hx).2
  have f2 := (abs_le.mp h2).2
  have f3 := (abs_le.mp h3).1
  have f4 : S * d + 2 * d ≤ N * d := by
    have := mul_le_mul_of_nonneg_right hN hd
    linarith
  have f5 : S * d ≤ 1048576 * d := mul_le_mul_of_nonneg_right hS hd
  generalize S * d = V at *
  generalize N * d = W at *
  linarith

/-- **repeat_le_tail_nonneg_small_outside_sliver** — `0 < A`, `n ≤ 2²⁰`, finite times; let the span start
`x = fl(A + fl(s·D))` be `m·2^e` (so `2^e` is the spacing of the doubles at `x`, `2^e / 2` half an ulp). If
`D < 2^e / 2` (absorbed: `fl(x + D) ≤ x ≤ tail`) **or** `2^e / 2 · (1 + 2⁻³¹) + 2⁻¹⁰⁷³ ≤ D` (`x + D ≤ A + fl(n·D)` exactly, and
the rounded sum is monotone in the exact sum), the repeat is `≤` the tail. What is missing for
`repeat_le_tail_nonneg_small_statement`: exactly the sliver `2^e / 2 ≤ D < 2^e / 2 · (1 + 2⁻³¹) + 2⁻¹⁰⁷³` ((iii) of the header)
— and the start `A = 0`. -/
theorem repeat_le_tail_nonneg_small_outside_sliver (p : Params Float) (s : Int) (hs0 : 0 ≤ s)
    (hsn : s + 2 ≤ p.spanCount) (hn : p.spanCount ≤ 2 ^ 20) (hA : 0 < toRat p.startTime)
    (hdur : Scalar.le (0 : Float) p.spanDuration = true)
    (hfr : (repeatEvent p s).time.isFinite = true) (hf : (tailEvent p).time.isFinite = true)
    (m : Nat) (e : Int) (hm : 0 < m) (hu : (spanStart p s).toModel.unpack = .finite .positive m e hm)
    (hD : toRat p.spanDuration < (2 : ℚ) ^ e / 2 ∨
      (2 : ℚ) ^ e / 2 * (1 + (2 : ℚ) ^ (-31 : Int)) + (2 : ℚ) ^ (-1073 : Int) ≤ toRat p.spanDuration) :
    Scalar.le (repeatEvent p s).time (tailEvent p).time = true := by
  obtain ⟨fA, fD⟩ := startTime_finite_of_repeat p s hfr
  have hd := toRat_nonneg _ hdur fD
  have hfr' := hfr
  rw [repeatEvent_time] at hfr'
  have fS : (spanStart p s).isFinite = true := (finite_of_add_finite _ _ hfr').1
  have hsl : s < 2 ^ 31 := by omega
  have hnl : p.spanCount < 2 ^ 31 := by omega
  rcases hD with hD | hD
  · have habs := add_absorb_le_float_exp (spanStart p s) p.spanDuration m e hm hu fD hd hD hfr'
    have h1 : Scalar.le (repeatEvent p s).time (spanStart p s) = true := by
      rw [repeatEvent_time]; exact le_of_toRat_le _ _ hfr' fS habs
    exact FMO.le_trans _ _ _ h1 (span_start_le_tail_float p s hs0 (by omega) hnl hdur fS hf)
  · have hAx : toRat p.startTime ≤ toRat (spanStart p s) :=
      toRat_le_of_le _ _ fA fS (head_le_span_start_float p s hs0 hsl hdur fS)
    have hf' := hf
    rw [tailEvent_time, spanStart_eq] at hf'
    have fPn := (finite_of_add_finite _ _ hf').2
    have fS' := fS
    rw [spanStart_eq] at fS' hu
    have fPs := (finite_of_add_finite _ _ fS').2
    obtain ⟨fzs, _⟩ := finite_of_mul_finite _ _ fPs
    obtain ⟨fzn, _⟩ := finite_of_mul_finite _ _ fPn
    have hps0 : 0 ≤ toRat (Float.ofInt s * p.spanDuration) :=
      toRat_nonneg _ (span_offset_nonneg_float p s hs0 hsl hdur fS) fPs
    have hx := add_half_ulp_float _ _ hA fPs hps0 m e hm hu
    rw [repeatEvent_time, tailEvent_time, spanStart_eq p p.spanCount]
    refine add_le_add_of_toRat_le _ _ _ _ (by linarith) hA.ne' fD fPn ?_
    have h2 := (mul_rnd_float _ _ fzs fD fPs).abs_add
    have h3 := (mul_rnd_float _ _ fzn fD fPn).abs_add
    rw [toRat_ofInt s (natAbs_lt_of_range s hs0 hsl)] at h2
    rw [toRat_ofInt p.spanCount (natAbs_lt_of_range _ (by omega) hnl)] at h3
    have hu53 : u₅₃ = 1 / 9007199254740992 := by norm_num
    have h31 : (2 : ℚ) ^ (-31 : Int) = 1 / 2147483648 := by norm_num
    rw [← four_eta, h31] at hD
    rw [hu53] at h2 h3
    rw [spanStart_eq]
    have hSq : (0 : ℚ) ≤ (s : ℚ) := by exact_mod_cast hs0
    have hSle : (s : ℚ) ≤ 1048576 := by
      have : s ≤ 1048576 := by omega
      exact_mod_cast this
    have hNq : (s : ℚ) + 2 ≤ (p.spanCount : ℚ) := by exact_mod_cast hsn
    exact sharp_rat_exp _ _ _ _ _ (s : ℚ) (p.spanCount : ℚ) _ _ hd hSq hSle hNq eta_pos.le
      (div_pos (two_zpow_pos e) (by norm_num)).le hx h2 h3 hD

/-! ## 4. instances, non-vacuity -/

section Examples

/-- start `1000`, span duration `2⁻⁶⁰` (far below the ulp `2⁻⁴³` of the start), `4` spans: absorbed. -/
def wAbs : Params Float :=
  { exG with startTime := 1000, spanDuration := Float.ofBits 0x3C30000000000000, spanCount := 4 }

/-- start `2147483000.5` (ulp `2⁻²²`), span duration `2⁻²³·(1 + 2⁻⁵²)` (half an ulp of the start plus one ulp of `D`),
`9002` spans: the sliver (iii). -/
def wBand1 : Params Float :=
  { exG with startTime := Float.ofBits 0x41DFFFFF5E200000, spanDuration := Float.ofBits 0x3E80000000000001,
             spanCount := 9002 }

/-- the same start, span duration exactly half an ulp `2⁻²³` (ties), `9002` spans. -/
def wBand2 : Params Float :=
  { exG with startTime := Float.ofBits 0x41DFFFFF5E200000, spanDuration := Float.ofBits 0x3E80000000000000,
             spanCount := 9002 }

/-- start `2147483000.5 + 2⁻²²` (odd mantissa), span duration `2⁻²³·(1 + 2⁻⁴⁰)`, `2²⁰` spans. -/
def wBand3 : Params Float :=
  { exG with startTime := Float.ofBits 0x41DFFFFF5E200001, spanDuration := Float.ofBits 0x3E80000000001000,
             spanCount := 1048576 }

/-- the hypotheses of `repeat_le_tail_of_absorbed_float` hold on `wAbs` (and `2⁻⁴⁹·A ≤ D` fails there). -/
example : Scalar.le (repeatEvent wAbs 2).time (tailEvent wAbs).time = true :=
  repeat_le_tail_of_absorbed_float wAbs 2 (by decide) (by decide) (by decide) (by decide +kernel) (by decide +kernel)
    (by decide +kernel) (by decide +kernel)

/-- **instances inside the open sliver** (`D` at half an ulp of the span start, `0 ≤ A`, `s = n − 2`, `n = 9002` resp. `2²⁰`): the repeat is
`≤` the tail on each (kernel evaluation); on `wBand1`, `wBand3` the repeat is NOT absorbed. -/
theorem repeat_le_tail_band_instances :
    Scalar.le (repeatEvent wBand1 9000).time (tailEvent wBand1).time = true ∧
    Scalar.le (repeatEvent wBand2 9000).time (tailEvent wBand2).time = true ∧
    Scalar.le (repeatEvent wBand3 1048574).time (tailEvent wBand3).time = true ∧
    Scalar.lt (spanStart wBand1 9000) (repeatEvent wBand1 9000).time = true ∧
    Scalar.lt (spanStart wBand3 1048574) (repeatEvent wBand3 1048574).time = true ∧
    Scalar.le (0 : Float) wBand1.startTime = true ∧ Scalar.le (0 : Float) wBand3.startTime = true ∧
    (repeatEvent wBand1 9000).time.isFinite = true ∧ (tailEvent wBand3).time.isFinite = true := by
  refine ⟨?_, ?_, ?_, ?_, ?_, ?_, ?_, ?_, ?_⟩ <;> decide +kernel

/-- the hypotheses of `repeat_le_tail_nonneg_small_partial` / `…_limit` hold on `exH` (`A = 0.1`, `D = 333.3`, `n = 3`). -/
example : Scalar.le (repeatEvent exH 1).time (tailEvent exH).time = true := by
  have b : exH.startTime.toModel.unpack = .finite .positive 7205759403792794 (-56) (by decide) := by
    have : exH.startTime = Float.ofBits 0x3FB999999999999A := by decide +kernel
    rw [this, FM.float_unpack_ofBits _ (by decide)]; rfl
  have c : exH.spanDuration.toModel.unpack = .finite .positive 5863475608603853 (-44) (by decide) := by
    have : exH.spanDuration = Float.ofBits 0x4074D4CCCCCCCCCD := by decide +kernel
    rw [this, FM.float_unpack_ofBits _ (by decide)]; rfl
  have h71 : (2 : ℚ) ^ (-1071 : Int) ≤ (2 : ℚ) ^ (-18 : Int) := zpow_le_zpow_right₀ (by norm_num) (by norm_num)
  refine repeat_le_tail_nonneg_small_limit exH 1 (by decide) (by decide) (by decide) (by decide +kernel)
    exH_forms_hyps.2.2.2.2.2.2.2 exH_forms_hyps.2.1 exH_forms_hyps.2.2.1 ?_ ?_
  · rw [toRat_of_unpack b]; norm_num [sgnQ]
  · refine le_trans (add_le_add (le_refl _) h71) ?_
    rw [toRat_of_unpack c]; norm_num [sgnQ]

/-- the hypotheses of `repeat_le_tail_nonneg_small_outside_sliver` (second alternative) hold on `exH`, `s = 1`: the span
start is `5865234827208295·2⁻⁴⁴`, half an ulp `2⁻⁴⁵`, `D = 333.3`. -/
example : Scalar.le (repeatEvent exH 1).time (tailEvent exH).time = true := by
  have b : exH.startTime.toModel.unpack = .finite .positive 7205759403792794 (-56) (by decide) := by
    have : exH.startTime = Float.ofBits 0x3FB999999999999A := by decide +kernel
    rw [this, FM.float_unpack_ofBits _ (by decide)]; rfl
  have c : exH.spanDuration.toModel.unpack = .finite .positive 5863475608603853 (-44) (by decide) := by
    have : exH.spanDuration = Float.ofBits 0x4074D4CCCCCCCCCD := by decide +kernel
    rw [this, FM.float_unpack_ofBits _ (by decide)]; rfl
  have x : (spanStart exH 1).toModel.unpack = .finite .positive 5865234827208295 (-44) (by decide) := by
    have : spanStart exH 1 = Float.ofBits 0x4074D66666666667 := by decide +kernel
    rw [this, FM.float_unpack_ofBits _ (by decide)]; rfl
  have h73 : (2 : ℚ) ^ (-1073 : Int) ≤ (2 : ℚ) ^ (0 : Int) := zpow_le_zpow_right₀ (by norm_num) (by norm_num)
  refine repeat_le_tail_nonneg_small_outside_sliver exH 1 (by decide) (by decide) (by decide) ?_
    exH_forms_hyps.2.2.2.2.2.2.2 exH_forms_hyps.2.1 exH_forms_hyps.2.2.1 _ _ _ x (Or.inr ?_)
  · rw [toRat_of_unpack b]; norm_num [sgnQ]
  · refine le_trans (add_le_add (le_refl _) h73) ?_
    rw [toRat_of_unpack c]; norm_num [sgnQ]

/-- the hypotheses of `repeat_le_tail_nonneg_tiny_float` (and the first alternative of the two combined theorems) hold on
`wAbs`: `A = 1000 = 8796093022208000·2⁻⁴³`, `D = 2⁻⁶⁰`. -/
example : Scalar.le (repeatEvent wAbs 2).time (tailEvent wAbs).time = true := by
  have b : wAbs.startTime.toModel.unpack = .finite .positive 8796093022208000 (-43) (by decide) := by
    have : wAbs.startTime = Float.ofBits 0x408F400000000000 := by decide +kernel
    rw [this, FM.float_unpack_ofBits _ (by decide)]; rfl
  have c : wAbs.spanDuration.toModel.unpack = .finite .positive 4503599627370496 (-112) (by decide) := by
    have : wAbs.spanDuration = Float.ofBits 0x3C30000000000000 := by decide +kernel
    rw [this, FM.float_unpack_ofBits _ (by decide)]; rfl
  refine repeat_le_tail_nonneg_small_outside_band wAbs 2 (by decide) (by decide) (by decide) ?_ (by decide +kernel)
    (by decide +kernel) (by decide +kernel) (Or.inl ?_)
  · rw [toRat_of_unpack b]; norm_num [sgnQ]
  · rw [toRat_of_unpack b, toRat_of_unpack c]; norm_num [sgnQ]

/-- the hypotheses of `repeat_le_tail_zero_start_float` are satisfiable: start `0`, `D = 333.3`, `n = 3`. -/
def wZero : Params Float := { exH with startTime := 0 }

example : Scalar.le (repeatEvent wZero 1).time (tailEvent wZero).time = true := by
  have c : wZero.spanDuration.toModel.unpack = .finite .positive 5863475608603853 (-44) (by decide) := by
    have : wZero.spanDuration = Float.ofBits 0x4074D4CCCCCCCCCD := by decide +kernel
    rw [this, FM.float_unpack_ofBits _ (by decide)]; rfl
  have h71 : (2 : ℚ) ^ (-1071 : Int) ≤ (2 : ℚ) ^ (0 : Int) := zpow_le_zpow_right₀ (by norm_num) (by norm_num)
  refine repeat_le_tail_zero_start_float wZero 1 (by decide) (by decide) (by decide) rfl (by decide +kernel)
    (by decide +kernel) (by decide +kernel) (le_trans h71 ?_)
  rw [toRat_of_unpack c]; norm_num [sgnQ]

end Examples

end Rosu.C20
