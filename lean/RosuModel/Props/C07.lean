/-
  Props/C07.lean — specialised decoders agree with the full decoder.

  For every list of lines (hence, with the reader of C05/C08, for every input) the state of each
  specialised decoder is the corresponding projection of the full `Beatmap` decoder's state. The
  finalisers of the Rust (`From<…State>`) are applied to exactly these projections
  (`From<BeatmapState> for Beatmap` calls the four sub-finalisers and copies their fields), so the
  decoded values agree on every shared field.
-/
import RosuModel.Model.Decoders
import RosuModel.Props.C05
namespace Rosu.C07
open Rosu

variable {F P : Type} [Scalar F] [Scalar P] [Cvt P F]

/-- a projection `π` from the big decoder's state to the small one's commutes with creation and
with every step ⇒ it commutes with the whole framing driver. -/
theorem frame_proj {σ τ : Type} (D : LineDecoder σ) (E : LineDecoder τ) (π : σ → τ)
    (hcreate : ∀ v, π (D.create v) = E.create v)
    (hstep : ∀ sec st l, π (D.step sec st l) = E.step sec (π st) l)
    (ls : List Str) : π (frame D ls) = frame E ls := by
  have hfeed : ∀ (ls : List Str) (acc : Option Section × σ),
      (C05.feedAll E (acc.1, π acc.2) ls) = ((C05.feedAll D acc ls).1, π (C05.feedAll D acc ls).2) := by
    intro ls
    induction ls with
    | nil => intro acc; rfl
    | cons l rest ih =>
      intro acc
      simp only [C05.feedAll_cons]
      have : C05.feedStep E (acc.1, π acc.2) l = ((C05.feedStep D acc l).1, π (C05.feedStep D acc l).2) := by
        unfold C05.feedStep
        cases Section.tryFromLine l with
        | some s => rfl
        | none =>
          dsimp only
          split
          · rfl
          · cases h : acc.1 with
            | none => simp [h]
            | some s => simp [h, hstep]
      rw [this]
      exact ih _
  rw [C05.frame_eq_spec, C05.frame_eq_spec]
  unfold C05.spec
  cases C05.dropBlank ls with
  | nil => exact hcreate _
  | cons l rest =>
    dsimp only
    cases C05.versionOf l with
    | some v =>
      dsimp only [C05.feed]
      have := hfeed rest (none, D.create v)
      simp only [hcreate] at this
      rw [this]
    | none =>
      dsimp only [C05.feed]
      have := hfeed (l :: rest) (none, D.create latestVersion)
      simp only [hcreate] at this
      rw [this]

/-! ### the eight projections -/

theorem hitObjects_agree (ls : List Str) :
    (frame (beatmapDecoder (F := F) (P := P)) ls).hitObjects = frame hitObjectsDecoder ls :=
  frame_proj beatmapDecoder hitObjectsDecoder (·.hitObjects) (fun _ => rfl)
    (by intro sec st l; cases sec <;> rfl) ls

theorem editor_agree (ls : List Str) :
    (frame (beatmapDecoder (F := F) (P := P)) ls).editor = frame editorDecoder ls :=
  frame_proj beatmapDecoder editorDecoder (·.editor) (fun _ => rfl)
    (by intro sec st l; cases sec <;> rfl) ls

theorem metadata_agree (ls : List Str) :
    (frame (beatmapDecoder (F := F) (P := P)) ls).metadata = frame metadataDecoder ls :=
  frame_proj beatmapDecoder metadataDecoder (·.metadata) (fun _ => rfl)
    (by intro sec st l; cases sec <;> rfl) ls

theorem colors_agree (ls : List Str) :
    (frame (beatmapDecoder (F := F) (P := P)) ls).colors = frame colorsDecoder ls :=
  frame_proj beatmapDecoder colorsDecoder (·.colors) (fun _ => rfl)
    (by intro sec st l; cases sec <;> rfl) ls

theorem timingPoints_agree (ls : List Str) :
    (frame (hitObjectsDecoder (F := F) (P := P)) ls).timingPoints = frame timingPointsDecoder ls :=
  frame_proj hitObjectsDecoder timingPointsDecoder (·.timingPoints) (fun _ => rfl)
    (by intro sec st l; cases sec <;> rfl) ls

theorem difficulty_agree (ls : List Str) :
    (frame (hitObjectsDecoder (F := F) (P := P)) ls).difficulty = frame difficultyDecoder ls :=
  frame_proj hitObjectsDecoder difficultyDecoder (·.difficulty) (fun _ => rfl)
    (by intro sec st l; cases sec <;> rfl) ls

theorem events_agree (ls : List Str) :
    (frame (hitObjectsDecoder (F := F) (P := P)) ls).events = frame eventsDecoder ls :=
  frame_proj hitObjectsDecoder eventsDecoder (·.events) (fun _ => rfl)
    (by intro sec st l; cases sec <;> rfl) ls

theorem maybeFlush_general (st : TimingPointsState F P) (t : F) : (maybeFlush st t).general = st.general := by
  unfold maybeFlush flushPendingPoints; split <;> rfl

theorem applyTpLine_general (st : TimingPointsState F P) (l : TpLine F) : (applyTpLine st l).general = st.general := by
  unfold applyTpLine
  simp only [addTimingCP, addDifficultyCP, addSampleCP, addEffectCP, maybeFlush_general]
  split <;> simp [maybeFlush_general]

theorem general_agree (ls : List Str) :
    (frame (timingPointsDecoder (F := F) (P := P)) ls).general = frame generalDecoder ls :=
  frame_proj timingPointsDecoder generalDecoder (·.general) (fun _ => rfl)
    (by
      intro sec st l
      cases sec <;> try rfl
      · show (st.parseGeneral l).2.general = (parseGeneral st.general l).2
        unfold TimingPointsState.parseGeneral
        cases h : parseGeneral st.general l with
        | mk r g => cases r <;> rfl
      · show (parseTimingPoints st l).2.general = st.general
        unfold parseTimingPoints
        split
        · rfl
        · exact applyTpLine_general st _) ls

/-- **decoders_agree**, for every input: the bytes are read once by the same reader, so the
agreement on line lists lifts to `from_bytes` (and to every delivery schedule). -/
theorem decoders_agree_bytes {σ τ : Type} (D : LineDecoder σ) (E : LineDecoder τ) (π : σ → τ)
    (hcreate : ∀ v, π (D.create v) = E.create v)
    (hstep : ∀ sec st l, π (D.step sec st l) = E.step sec (π st) l) (s : Sched) :
    (decodeSched D s).map π = decodeSched E s := by
  unfold decodeSched
  cases readBom s with
  | mk r s1 =>
    cases r with
    | error k => rfl
    | ok ep =>
      obtain ⟨enc, pfx⟩ := ep
      dsimp only
      cases readAll enc (pushRest pfx s1) with
      | mk ls e =>
        cases e with
        | some k => rfl
        | none => simp [Except.map, frame_proj D E π hcreate hstep ls]

/-- the whole chain: the general section read by `General` is the one inside `Beatmap`. -/
theorem general_in_beatmap (ls : List Str) :
    (frame (beatmapDecoder (F := F) (P := P)) ls).hitObjects.timingPoints.general = frame generalDecoder ls := by
  rw [hitObjects_agree, timingPoints_agree, general_agree]

end Rosu.C07
