/-
  Props/C02FinalScrollExact.lean — `ScrollClampLaws` (Props/C02FinalScroll.lean) is an ordered-field fact: it holds of every
  scalar whose arithmetic is exact (`ExactScalar φ`, Lemmas/ExactArith.lean — e.g. core `Rat`, the reals), because
  `0.01 ≤ 0.1 ≤ 1 ≤ 10`. (The other two laws `decoded_scroll_timeline` takes, `EpsLaws` / `GroupLaws`, need a discrete
  scalar with `ε > 0`: instance `ZC`.)
-/
import RosuModel.Props.C02FinalScroll
import RosuModel.Lemmas.ExactArith
set_option linter.unusedSectionVars false
namespace Rosu.C02
open Rosu Scalar

variable {α K : Type} [Scalar α] [Field K] [LinearOrder K] [IsStrictOrderedRing K] {φ : α → K}

/-- `f64::clamp(x, lo, hi)` with `lo ≤ hi` is `max lo (min hi x)`. -/
theorem clamp_exact (E : ExactScalar φ) (x lo hi : α) (h : φ lo ≤ φ hi) :
    φ (clamp x lo hi) = max (φ lo) (min (φ hi) (φ x)) := by
  unfold Scalar.clamp
  simp only [E.lt]
  by_cases h0 : φ x < φ lo
  · have h1 : ¬ φ hi < φ lo := not_lt.mpr h
    simp only [h0, decide_true, if_true, h1, decide_false, Bool.false_eq_true, if_false]
    rw [min_eq_right (by linarith), max_eq_left (le_of_lt h0)]
  · simp only [h0, decide_false, Bool.false_eq_true, if_false]
    by_cases h1 : φ hi < φ x
    · simp only [h1, decide_true, if_true]
      rw [min_eq_left (le_of_lt h1), max_eq_right h]
    · simp only [h1, decide_false, Bool.false_eq_true, if_false]
      rw [min_eq_right (not_lt.mp h1), max_eq_right (not_lt.mp h0)]

/-- **`ScrollClampLaws` holds in exact arithmetic.** -/
theorem scrollClampLaws_of_exact (E : ExactScalar φ) : ScrollClampLaws α := by
  have ha : φ (0.01 : α) = 1 / 100 := by rw [E.sci]; norm_num
  have hb : φ (0.1 : α) = 1 / 10 := by rw [E.sci]; norm_num
  have hc : φ (10 : α) = 10 := by rw [E.lit]; norm_num
  have hac : φ (0.01 : α) ≤ φ (10 : α) := by rw [ha, hc]; norm_num
  have hbc : φ (0.1 : α) ≤ φ (10 : α) := by rw [hb, hc]; norm_num
  constructor
  · apply E.inj
    rw [clamp_exact E _ _ _ hbc, hb, hc, E.one]
    rw [min_eq_right (by norm_num), max_eq_right (by norm_num)]
  · intro x
    apply E.inj
    rw [clamp_exact E _ _ _ hbc, clamp_exact E _ _ _ hac, clamp_exact E _ _ _ hbc, ha, hb, hc]
    simp only [max_def, min_def]
    split_ifs <;> linarith

/-- instance: core `Rat`. -/
example : ScrollClampLaws Rat := scrollClampLaws_of_exact exactScalar_rat

end Rosu.C02
