/-
  Props/C17CatmullChord.lean — C17, Catmull-Rom clause, the mathematics of ONE chord (exact real arithmetic; imported by
  Props/C17Catmull.lean, which holds the headline `catmull_within_bound_real`).

  * structural (every arithmetic, hence the IEEE instance): `catmullCtl` — the four control points `approximate_catmull`
    hands to `catmull_subpath` for span `j` (`v1 = points[j-1]`, `points[0]` for the first span; `v4 = points[j+2]` or
    `v3 * 2.0 - v2` behind the end) — and `approximate_catmull_spans`: for `n ≥ 2` control points the call succeeds and
    emits `catmull_subpath(catmullCtl pts j)` for `j = 0 … n − 2`, in this order.
  * `catmullExact v1 v2 v3 v4 : ℝ → ℝ × ℝ`, the cubic the code evaluates, per coordinate
    `0.5·(2 v2 + (−v1 + v3) t + (2v1 − 5v2 + 4v3 − v4) t² + (−v1 + 3v2 − 3v3 + v4) t³)` (`catmullCoord_std`: = the standard
    basis form `catmullRomStd` of the rational theorem); `catmull_points_on_spline_real`: at the real instance
    (Lemmas/RealScalar.lean) `catmull_subpath` emits exactly `catmullExact` at `c/50` and `(c+1)/50`, `c = 0..49`.
  * interpolation error of a real cubic `q = c0 + c1 t + c2 t² + c3 t³` against its chord on `[a, b]` (pure algebra):
    `cubic_chord_error`: `q(t) − chord(t) = (t − a)(t − b)(c2 + c3 (t + a + b))`; `cubic_chord_error_le` (`≤ (b−a)²/4 · K`);
    `cubic_chord_error_le_second_deriv`: `≤ (b − a)²/8 · sup_{[a,b]} |q''|` (the classical form; `half_second_deriv`:
    `c2 + c3 (t + a + b) = q''((t + a + b)/3)/2`); `cubic_chord_error_sharp`: equality for quadratics at the midpoint.
  * the bound: `catmullAcc` = `q''` (`catmullCoord_hasDerivAt`, `catmullVelCoord_hasDerivAt`), affine in `t`;
    `catmullM = max ‖q''(0)‖ ‖q''(1)‖` is `sup_{[0,1]} ‖q''‖` in the Euclidean norm `eNorm = √(x² + y²)` (`catmullAcc_le_M`,
    `catmullM_attained`), `catmullM ≤ ‖2v1 − 5v2 + 4v3 − v4‖ + 3‖−v1 + 3v2 − 3v3 + v4‖` (`catmullM_le_coeff`);
    `catmullBound = (1/50)²/8 · catmullM = catmullM / 20000`.
  * `catmull_chord_sqDist` / `catmull_chord_within`: on chord `c` with weight `l` the exact point `q((c + l)/50)` and the chord
    point `(1 − l) q(c/50) + l q((c+1)/50)` are within `catmullBound` (Euclidean distance `eDist`, Lemmas/ArcSagitta.lean);
    `catmull_chord_error_sharp`: for spans with vanishing cubic coefficient the same-parameter distance at the middle of
    every chord EQUALS `catmullBound`.
  * `catmullBound_example`: for `(0,0), (100,0), (100,100), (0,100)` the bound is `√100000 / 20000 ∈ (0.0158, 0.016)` px.
-/
import RosuModel.Props.C17ArcTol
import RosuModel.Lemmas.Outcome
set_option linter.unusedSectionVars false
set_option linter.unusedVariables false
namespace Rosu.C17
open Rosu Rosu.Curve Rosu.RealInst Rosu.ArcSagitta

/-! ### which control points each span uses (structural, every arithmetic) -/

section Structural
variable {P : Type} [Scalar P]

/-- the four control points `approximate_catmull` hands to `catmull_subpath` for span `j` (the piece from `points[j]` to
`points[j+1]`, `j + 1 < points.len()`): `v1 = points[j-1]` (`points[0]` for the first span: `v1 = v2`), `v2 = points[j]`,
`v3 = points[j+1]`, `v4 = points[j+2]`, or `v3 * 2.0 - v2` behind the last control point. -/
def catmullCtl (pts : List (Pos P)) (j : Nat) : Pos P × Pos P × Pos P × Pos P :=
  let v2 := pts[j]?.getD Pos.zero
  let v3 := pts[j + 1]?.getD Pos.zero
  (pts[j - 1]?.getD Pos.zero, v2, v3, match pts[j + 2]? with | some v => v | none => extrapolate v3 v2)

/-- the 100 points emitted for span `j`. -/
def catmullSpanPts (pts : List (Pos P)) (j : Nat) : List (Pos P) :=
  catmullSubpath (catmullCtl pts j).1 (catmullCtl pts j).2.1 (catmullCtl pts j).2.2.1 (catmullCtl pts j).2.2.2

theorem catmullRest_flatMap (pts : List (Pos P)) : ∀ L : List (Nat × (Pos P × Pos P)),
    catmullRest pts L = L.flatMap fun e =>
      catmullSubpath e.2.1 e.2.2
        (match pts[e.1]? with | some v => v | none => extrapolate e.2.2 e.2.1)
        (match pts[e.1 + 1]? with
          | some v => v
          | none => extrapolate (match pts[e.1]? with | some v => v | none => extrapolate e.2.2 e.2.1) e.2.2)
  | [] => rfl
  | (i, (v1, v2)) :: rest => by
    rw [catmullRest, List.flatMap_cons, catmullRest_flatMap pts rest]
    rfl

theorem catmull_zip_eq (pts : List (Pos P)) :
    (List.range' 2 (pts.length - 2)).zip (pts.zip (pts.drop 1)) =
      (List.range (pts.length - 2)).map fun k =>
        (k + 2, (pts[k]?.getD Pos.zero, pts[k + 1]?.getD Pos.zero)) := by
  apply List.ext_getElem?
  intro k
  by_cases hk : k < pts.length - 2
  · have h1 : (List.range' 2 (pts.length - 2))[k]? = some (2 + k) := by
      rw [List.getElem?_range' hk]; simp
    have h2 : (pts.zip (pts.drop 1))[k]? = some (pts[k]'(by omega), pts[k + 1]'(by omega)) := by
      rw [List.getElem?_zip_eq_some]
      refine ⟨List.getElem?_eq_getElem (by omega), ?_⟩
      rw [List.getElem?_drop, Nat.add_comm 1 k]
      exact List.getElem?_eq_getElem (by omega)
    have h3 : ((List.range' 2 (pts.length - 2)).zip (pts.zip (pts.drop 1)))[k]? =
        some (2 + k, (pts[k]'(by omega), pts[k + 1]'(by omega))) := by
      rw [List.getElem?_zip_eq_some]; exact ⟨h1, h2⟩
    rw [h3, List.getElem?_map, List.getElem?_range hk]
    simp only [Option.map_some, List.getElem?_eq_getElem (show k < pts.length by omega),
      List.getElem?_eq_getElem (show k + 1 < pts.length by omega), Option.getD_some, Nat.add_comm 2 k]
  · have hl : ((List.range' 2 (pts.length - 2)).zip (pts.zip (pts.drop 1))).length ≤ k := by
      simp only [List.length_zip, List.length_range', List.length_drop]; omega
    rw [List.getElem?_eq_none hl, List.getElem?_eq_none (by simp; omega)]

/-- **`approximate_catmull_spans`** (structural, every arithmetic): for two or more control points `approximate_catmull`
succeeds and emits, span after span (`j = 0 … len − 2`), `catmull_subpath` of the control points `catmullCtl pts j`. -/
theorem approximate_catmull_spans (pts : List (Pos P)) (h2 : 2 ≤ pts.length) :
    approximateCatmull pts = .ok ((List.range (pts.length - 1)).flatMap (catmullSpanPts pts)) := by
  unfold approximateCatmull
  rw [if_neg (by omega), usub_eq _ _ (by omega), Outcome.ok_bind, getI_eq pts 0 (by omega), Outcome.ok_bind]
  simp only [Outcome.pure_eq_ok]
  congr 1
  have hr : pts.length - 1 = (pts.length - 2) + 1 := by omega
  rw [hr, List.range_succ_eq_map, List.flatMap_cons, List.flatMap_map, catmull_zip_eq, catmullRest_flatMap,
    List.flatMap_map]
  have e0 : pts[0]? = some (pts[0]'(by omega)) := List.getElem?_eq_getElem (by omega)
  have e1 : pts[1]? = some (pts[1]'(by omega)) := List.getElem?_eq_getElem (by omega)
  congr 1
  · simp only [catmullSpanPts, catmullCtl, e0, e1, Option.getD_some, Nat.zero_sub, Nat.zero_add]
    rfl
  · apply List.flatMap_congr
    intro k hk
    rw [List.mem_range] at hk
    have ek : pts[k + 2]? = some (pts[k + 2]'(by omega)) := List.getElem?_eq_getElem (by omega)
    simp only [catmullSpanPts, catmullCtl, ek, Nat.succ_eq_add_one, Nat.add_sub_cancel, Option.getD_some,
      show k + 1 + 1 = k + 2 from rfl, show k + 1 + 2 = k + 2 + 1 from rfl]

end Structural

-- numerals below are Mathlib's real numerals; the model's literals are translated by `rLit` / `rHalf`
attribute [-instance] Scalar.instOfNat Scalar.instOfScientific

/-! ### the model's arithmetic at the real instance is the arithmetic of `ℝ` -/

theorem rAdd (a b : ℝ) : @HAdd.hAdd ℝ ℝ ℝ (@instHAdd ℝ (@Scalar.toAdd ℝ scalarReal)) a b = a + b := rfl
theorem rSub (a b : ℝ) : @HSub.hSub ℝ ℝ ℝ (@instHSub ℝ (@Scalar.toSub ℝ scalarReal)) a b = a - b := rfl
theorem rMul (a b : ℝ) : @HMul.hMul ℝ ℝ ℝ (@instHMul ℝ (@Scalar.toMul ℝ scalarReal)) a b = a * b := rfl
theorem rDiv (a b : ℝ) : @HDiv.hDiv ℝ ℝ ℝ (@instHDiv ℝ (@Scalar.toDiv ℝ scalarReal)) a b = a / b := rfl
theorem rNeg (a : ℝ) : @Neg.neg ℝ (@Scalar.toNeg ℝ scalarReal) a = -a := rfl
theorem rLit (n : Nat) : @OfNat.ofNat ℝ n (@Scalar.instOfNat ℝ scalarReal n) = ((n : ℕ) : ℝ) := rfl
theorem rOfNat (n : Nat) : (@Scalar.ofNat ℝ scalarReal n) = ((n : ℕ) : ℝ) := rfl
/-- the literal `0.5` of `catmull_subpath` is `1/2`. -/
theorem rHalf : @OfScientific.ofScientific ℝ (@Scalar.instOfScientific ℝ scalarReal) 5 true 1 = (1 / 2 : ℝ) := by
  show ((5 : ℕ) : ℝ) / (10 : ℝ) ^ 1 = 1 / 2; norm_num

/-! ### the exact span curve -/

/-- one coordinate of the uniform Catmull-Rom cubic, the polynomial `catmull_subpath` evaluates:
`0.5 · (2 b + (−a + c) t + (2a − 5b + 4c − d) t² + (−a + 3b − 3c + d) t³)`. -/
noncomputable def catmullCoord (a b c d t : ℝ) : ℝ :=
  1 / 2 * (2 * b + (-a + c) * t + (2 * a - 5 * b + 4 * c - d) * t ^ 2 + (-a + 3 * b - 3 * c + d) * t ^ 3)

/-- the exact curve of a span as a `Pos`. -/
noncomputable def catmullExactPos (v1 v2 v3 v4 : Pos ℝ) (t : ℝ) : Pos ℝ :=
  ⟨catmullCoord v1.x v2.x v3.x v4.x t, catmullCoord v1.y v2.y v3.y v4.y t⟩

/-- **the exact curve of a span**, `t ∈ [0, 1]`, as a point of the plane. -/
noncomputable def catmullExact (v1 v2 v3 v4 : Pos ℝ) (t : ℝ) : ℝ × ℝ :=
  (catmullCoord v1.x v2.x v3.x v4.x t, catmullCoord v1.y v2.y v3.y v4.y t)

theorem toPair_catmullExactPos (v1 v2 v3 v4 : Pos ℝ) (t : ℝ) :
    toPair (catmullExactPos v1 v2 v3 v4 t) = catmullExact v1 v2 v3 v4 t := rfl

/-- the cubic in the standard basis form of the rational theorem (`catmullRomStd`, Lemmas/CatmullRing.lean). -/
theorem catmullCoord_std (a b c d t : ℝ) :
    catmullCoord a b c d t =
      ((-t ^ 3 + 2 * t ^ 2 - t) * a + (3 * t ^ 3 - 5 * t ^ 2 + 2) * b + (-3 * t ^ 3 + 4 * t ^ 2 + t) * c +
        (t ^ 3 - t ^ 2) * d) / 2 := by
  unfold catmullCoord; ring

/-- the span curve runs from `v2` to `v3`. -/
theorem catmullExact_zero (v1 v2 v3 v4 : Pos ℝ) : catmullExact v1 v2 v3 v4 0 = toPair v2 := by
  unfold catmullExact catmullCoord toPair; ext <;> simp
theorem catmullExact_one (v1 v2 v3 v4 : Pos ℝ) : catmullExact v1 v2 v3 v4 1 = toPair v3 := by
  unfold catmullExact catmullCoord toPair; ext <;> simp only <;> ring

/-- **`catmull_points_on_spline_real`** (real version of `catmull_points_on_spline`): over ℝ `catmull_subpath` emits, for
`c = 0..49`, exactly the points `catmullExact` at `t = c/50` and at `t = (c+1)/50`. -/
theorem catmull_points_on_spline_real (v1 v2 v3 v4 : Pos ℝ) :
    catmullSubpath v1 v2 v3 v4 =
      (List.range 50).flatMap fun (c : Nat) =>
        [catmullExactPos v1 v2 v3 v4 ((c : ℝ) / 50), catmullExactPos v1 v2 v3 v4 (((c : ℝ) + 1) / 50)] := by
  unfold catmullSubpath catmullPoint catmullExactPos catmullCoord
  simp only [rAdd, rSub, rMul, rDiv, rNeg, rLit, rOfNat, rHalf]
  congr 1
  funext c
  congr 1
  · congr 1 <;> (push_cast; ring)
  · congr 1
    congr 1 <;> (push_cast; ring)

/-! ### interpolation error of a cubic against its chord (pure algebra) -/

/-- the real cubic `c0 + c1 t + c2 t² + c3 t³`. -/
def cubicPoly (c0 c1 c2 c3 t : ℝ) : ℝ := c0 + c1 * t + c2 * t ^ 2 + c3 * t ^ 3

/-- the chord through `(a, qa)`, `(b, qb)` at `t`: `lerp(qa, qb)` with weight `(t − a)/(b − a)`. -/
noncomputable def chordAt (a b qa qb t : ℝ) : ℝ := qa + (t - a) / (b - a) * (qb - qa)

/-- **interpolation-error identity**: `q(t) − chord(t) = (t − a)(t − b)·(c2 + c3·(t + a + b))`. -/
theorem cubic_chord_error (c0 c1 c2 c3 a b t : ℝ) (hab : a ≠ b) :
    cubicPoly c0 c1 c2 c3 t - chordAt a b (cubicPoly c0 c1 c2 c3 a) (cubicPoly c0 c1 c2 c3 b) t =
      (t - a) * (t - b) * (c2 + c3 * (t + a + b)) := by
  have h : b - a ≠ 0 := sub_ne_zero.mpr (Ne.symm hab)
  unfold cubicPoly chordAt
  field_simp
  ring

/-- the same identity with the chord written as `(1 − l)·q(a) + l·q(b)`, `t = a + l (b − a)` (no division). -/
theorem cubic_chord_error_lerp (c0 c1 c2 c3 a b l : ℝ) :
    cubicPoly c0 c1 c2 c3 (a + l * (b - a)) -
        ((1 - l) * cubicPoly c0 c1 c2 c3 a + l * cubicPoly c0 c1 c2 c3 b) =
      -(l * (1 - l) * (b - a) ^ 2) * (c2 + c3 * ((a + l * (b - a)) + a + b)) := by
  unfold cubicPoly; ring

/-- `|(t − a)(t − b)| ≤ (b − a)²/4` on `[a, b]`. -/
theorem abs_node_le {a b t : ℝ} (hat : a ≤ t) (htb : t ≤ b) : |(t - a) * (t - b)| ≤ (b - a) ^ 2 / 4 := by
  rw [abs_le]
  constructor <;> nlinarith [sq_nonneg (t - a + (t - b)), mul_nonneg (sub_nonneg.2 hat) (sub_nonneg.2 htb)]

/-- **chord error, first form**: `|q(t) − chord(t)| ≤ (b − a)²/4 · K` if `|c2 + c3 (s + a + b)| ≤ K` on `[a, b]`. -/
theorem cubic_chord_error_le (c0 c1 c2 c3 a b t K : ℝ) (hab : a < b) (hat : a ≤ t) (htb : t ≤ b)
    (hK : ∀ s, a ≤ s → s ≤ b → |c2 + c3 * (s + a + b)| ≤ K) :
    |cubicPoly c0 c1 c2 c3 t - chordAt a b (cubicPoly c0 c1 c2 c3 a) (cubicPoly c0 c1 c2 c3 b) t| ≤
      (b - a) ^ 2 / 4 * K := by
  rw [cubic_chord_error _ _ _ _ _ _ _ (ne_of_lt hab), abs_mul]
  exact mul_le_mul (abs_node_le hat htb) (hK t hat htb) (abs_nonneg _) (by positivity)

/-- `c2 + c3 (t + a + b)` is half the second derivative `q''(ξ) = 2 c2 + 6 c3 ξ` at `ξ = (t + a + b)/3 ∈ [a, b]`. -/
theorem half_second_deriv (c2 c3 a b t : ℝ) :
    c2 + c3 * (t + a + b) = (2 * c2 + 6 * c3 * ((t + a + b) / 3)) / 2 := by ring

/-- **chord error, classical form**: `|q(t) − chord(t)| ≤ (b − a)²/8 · sup_{[a,b]} |q''|`, `q''(ξ) = 2 c2 + 6 c3 ξ`. -/
theorem cubic_chord_error_le_second_deriv (c0 c1 c2 c3 a b t M : ℝ) (hab : a < b) (hat : a ≤ t) (htb : t ≤ b)
    (hM : ∀ ξ, a ≤ ξ → ξ ≤ b → |2 * c2 + 6 * c3 * ξ| ≤ M) :
    |cubicPoly c0 c1 c2 c3 t - chordAt a b (cubicPoly c0 c1 c2 c3 a) (cubicPoly c0 c1 c2 c3 b) t| ≤
      (b - a) ^ 2 / 8 * M := by
  have h := cubic_chord_error_le c0 c1 c2 c3 a b t (M / 2) hab hat htb (by
    intro s hs1 hs2
    rw [half_second_deriv, abs_div, abs_of_pos (by norm_num : (0 : ℝ) < 2)]
    exact div_le_div_of_nonneg_right (hM _ (by linarith) (by linarith)) (by norm_num))
  calc _ ≤ (b - a) ^ 2 / 4 * (M / 2) := h
    _ = (b - a) ^ 2 / 8 * M := by ring

/-- the classical bound is attained by quadratics at the midpoint: it cannot be improved. -/
theorem cubic_chord_error_sharp (c0 c1 c2 a b : ℝ) (hab : a ≠ b) :
    |cubicPoly c0 c1 c2 0 ((a + b) / 2) -
        chordAt a b (cubicPoly c0 c1 c2 0 a) (cubicPoly c0 c1 c2 0 b) ((a + b) / 2)| =
      (b - a) ^ 2 / 8 * |2 * c2| := by
  rw [cubic_chord_error _ _ _ _ _ _ _ hab]
  have : ((a + b) / 2 - a) * ((a + b) / 2 - b) * (c2 + 0 * ((a + b) / 2 + a + b)) = -((b - a) ^ 2 / 8) * (2 * c2) := by
    ring
  rw [this, abs_mul, abs_neg, abs_of_nonneg (by positivity)]

/-- hypotheses of the error lemmas are satisfiable: `q = t³` on `[0, 1/50]`, `|q''| = 6ξ ≤ 3/25`. -/
example : |cubicPoly 0 0 0 1 (1 / 100) - chordAt 0 (1 / 50) (cubicPoly 0 0 0 1 0) (cubicPoly 0 0 0 1 (1 / 50)) (1 / 100)| ≤
    (1 / 50 - 0) ^ 2 / 8 * (3 / 25) :=
  cubic_chord_error_le_second_deriv 0 0 0 1 0 (1 / 50) (1 / 100) (3 / 25) (by norm_num) (by norm_num) (by norm_num)
    (by intro ξ h0 h1; rw [abs_of_nonneg (by linarith)]; linarith)

/-! ### the bound: `h²/8 · sup ‖q''‖`, Euclidean norm -/

/-- the Euclidean norm of the plane, `√(x² + y²)` (so `eDist p q = eNorm (p − q)`). -/
noncomputable def eNorm (p : ℝ × ℝ) : ℝ := √(p.1 ^ 2 + p.2 ^ 2)

theorem eNorm_nonneg (p : ℝ × ℝ) : 0 ≤ eNorm p := Real.sqrt_nonneg _

theorem eNorm_sq (p : ℝ × ℝ) : eNorm p ^ 2 = p.1 ^ 2 + p.2 ^ 2 := Real.sq_sqrt (by positivity)

theorem eDist_eq_eNorm (p q : ℝ × ℝ) : eDist p q = eNorm (p.1 - q.1, p.2 - q.2) := rfl

theorem eNorm_eq_norm (p : ℝ × ℝ) : eNorm p = ‖(⟨p.1, p.2⟩ : ℂ)‖ := by
  unfold eNorm; rw [Complex.norm_def, Complex.normSq_apply]; congr 1; ring

/-- one coordinate of the second derivative of the span curve: `q''(t) = (2a − 5b + 4c − d) + 3 (−a + 3b − 3c + d) t`. -/
def catmullAccCoord (a b c d t : ℝ) : ℝ := (2 * a - 5 * b + 4 * c - d) + 3 * (-a + 3 * b - 3 * c + d) * t

/-- the second derivative `q''(t)` of the span curve `q = catmullExact v1 v2 v3 v4` (`catmullCoord_hasDerivAt`,
`catmullVelCoord_hasDerivAt` below). -/
def catmullAcc (v1 v2 v3 v4 : Pos ℝ) (t : ℝ) : ℝ × ℝ :=
  (catmullAccCoord v1.x v2.x v3.x v4.x t, catmullAccCoord v1.y v2.y v3.y v4.y t)

/-- **`M = sup_{t ∈ [0,1]} ‖q''(t)‖`**: `q''` is affine in `t`, so the supremum of its norm is taken at an end,
`M = max ‖q''(0)‖ ‖q''(1)‖ = max ‖2v1 − 5v2 + 4v3 − v4‖ ‖−v1 + 4v2 − 5v3 + 2v4‖`. -/
noncomputable def catmullM (v1 v2 v3 v4 : Pos ℝ) : ℝ :=
  max (eNorm (catmullAcc v1 v2 v3 v4 0)) (eNorm (catmullAcc v1 v2 v3 v4 1))

/-- **the bound**: `h²/8 · M` with `h = 1/CATMULL_DETAIL = 1/50`, i.e. `M / 20000`. -/
noncomputable def catmullBound (v1 v2 v3 v4 : Pos ℝ) : ℝ := (1 / 50) ^ 2 / 8 * catmullM v1 v2 v3 v4

theorem catmullM_nonneg (v1 v2 v3 v4 : Pos ℝ) : 0 ≤ catmullM v1 v2 v3 v4 :=
  le_trans (eNorm_nonneg _) (le_max_left _ _)

theorem catmullBound_nonneg (v1 v2 v3 v4 : Pos ℝ) : 0 ≤ catmullBound v1 v2 v3 v4 :=
  mul_nonneg (by norm_num) (catmullM_nonneg _ _ _ _)

theorem catmullBound_eq (v1 v2 v3 v4 : Pos ℝ) : catmullBound v1 v2 v3 v4 = catmullM v1 v2 v3 v4 / 20000 := by
  unfold catmullBound; ring

/-- `‖q''(ξ)‖ ≤ M` on `[0, 1]` (squared form): the norm of an affine function is convex. -/
theorem catmullAcc_sq_le (v1 v2 v3 v4 : Pos ℝ) (ξ : ℝ) (h0 : 0 ≤ ξ) (h1 : ξ ≤ 1) :
    (catmullAcc v1 v2 v3 v4 ξ).1 ^ 2 + (catmullAcc v1 v2 v3 v4 ξ).2 ^ 2 ≤ catmullM v1 v2 v3 v4 ^ 2 := by
  have hu : (catmullAcc v1 v2 v3 v4 0).1 ^ 2 + (catmullAcc v1 v2 v3 v4 0).2 ^ 2 ≤ catmullM v1 v2 v3 v4 ^ 2 := by
    rw [← eNorm_sq]; exact pow_le_pow_left₀ (eNorm_nonneg _) (le_max_left _ _) 2
  have hv : (catmullAcc v1 v2 v3 v4 1).1 ^ 2 + (catmullAcc v1 v2 v3 v4 1).2 ^ 2 ≤ catmullM v1 v2 v3 v4 ^ 2 := by
    rw [← eNorm_sq]; exact pow_le_pow_left₀ (eNorm_nonneg _) (le_max_right _ _) 2
  have ex : (catmullAcc v1 v2 v3 v4 ξ).1 =
      (1 - ξ) * (catmullAcc v1 v2 v3 v4 0).1 + ξ * (catmullAcc v1 v2 v3 v4 1).1 := by
    simp only [catmullAcc, catmullAccCoord]; ring
  have ey : (catmullAcc v1 v2 v3 v4 ξ).2 =
      (1 - ξ) * (catmullAcc v1 v2 v3 v4 0).2 + ξ * (catmullAcc v1 v2 v3 v4 1).2 := by
    simp only [catmullAcc, catmullAccCoord]; ring
  rw [ex, ey]
  generalize (catmullAcc v1 v2 v3 v4 0).1 = ux at *
  generalize (catmullAcc v1 v2 v3 v4 0).2 = uy at *
  generalize (catmullAcc v1 v2 v3 v4 1).1 = wx at *
  generalize (catmullAcc v1 v2 v3 v4 1).2 = wy at *
  generalize catmullM v1 v2 v3 v4 = M at *
  have hconv : ((1 - ξ) * ux + ξ * wx) ^ 2 + ((1 - ξ) * uy + ξ * wy) ^ 2 =
      (1 - ξ) * (ux ^ 2 + uy ^ 2) + ξ * (wx ^ 2 + wy ^ 2) - ξ * (1 - ξ) * ((ux - wx) ^ 2 + (uy - wy) ^ 2) := by ring
  have h3 : 0 ≤ ξ * (1 - ξ) * ((ux - wx) ^ 2 + (uy - wy) ^ 2) :=
    mul_nonneg (mul_nonneg h0 (by linarith)) (by positivity)
  have h4 : (1 - ξ) * (ux ^ 2 + uy ^ 2) ≤ (1 - ξ) * M ^ 2 := mul_le_mul_of_nonneg_left hu (by linarith)
  have h5 : ξ * (wx ^ 2 + wy ^ 2) ≤ ξ * M ^ 2 := mul_le_mul_of_nonneg_left hv h0
  nlinarith [hconv, h3, h4, h5]

/-- `‖q''(ξ)‖ ≤ M` on `[0, 1]`, and `M` is attained at `ξ = 0` or `ξ = 1`: `M` is the supremum. -/
theorem catmullAcc_le_M (v1 v2 v3 v4 : Pos ℝ) (ξ : ℝ) (h0 : 0 ≤ ξ) (h1 : ξ ≤ 1) :
    eNorm (catmullAcc v1 v2 v3 v4 ξ) ≤ catmullM v1 v2 v3 v4 :=
  (Real.sqrt_le_left (catmullM_nonneg _ _ _ _)).2 (catmullAcc_sq_le v1 v2 v3 v4 ξ h0 h1)

theorem catmullM_attained (v1 v2 v3 v4 : Pos ℝ) :
    catmullM v1 v2 v3 v4 = eNorm (catmullAcc v1 v2 v3 v4 0) ∨ catmullM v1 v2 v3 v4 = eNorm (catmullAcc v1 v2 v3 v4 1) := by
  unfold catmullM
  rcases le_total (eNorm (catmullAcc v1 v2 v3 v4 0)) (eNorm (catmullAcc v1 v2 v3 v4 1)) with h | h
  · exact Or.inr (max_eq_right h)
  · exact Or.inl (max_eq_left h)

/-- the coefficient vectors `C2 = 2v1 − 5v2 + 4v3 − v4`, `C3 = −v1 + 3v2 − 3v3 + v4` of `t²`, `t³` (before the factor 0.5). -/
def catmullC2 (v1 v2 v3 v4 : Pos ℝ) : ℝ × ℝ :=
  (2 * v1.x - 5 * v2.x + 4 * v3.x - v4.x, 2 * v1.y - 5 * v2.y + 4 * v3.y - v4.y)
def catmullC3 (v1 v2 v3 v4 : Pos ℝ) : ℝ × ℝ :=
  (-v1.x + 3 * v2.x - 3 * v3.x + v4.x, -v1.y + 3 * v2.y - 3 * v3.y + v4.y)

/-- the coarser explicit bound `M ≤ ‖2v1 − 5v2 + 4v3 − v4‖ + 3 ‖−v1 + 3v2 − 3v3 + v4‖`. -/
theorem catmullM_le_coeff (v1 v2 v3 v4 : Pos ℝ) :
    catmullM v1 v2 v3 v4 ≤ eNorm (catmullC2 v1 v2 v3 v4) + 3 * eNorm (catmullC3 v1 v2 v3 v4) := by
  have h3 : 0 ≤ 3 * eNorm (catmullC3 v1 v2 v3 v4) := mul_nonneg (by norm_num) (eNorm_nonneg _)
  unfold catmullM
  apply max_le
  · have : catmullAcc v1 v2 v3 v4 0 = catmullC2 v1 v2 v3 v4 := by
      simp only [catmullAcc, catmullAccCoord, catmullC2]; ext <;> simp
    rw [this]; linarith
  · rw [eNorm_eq_norm, eNorm_eq_norm, eNorm_eq_norm]
    have : (⟨(catmullAcc v1 v2 v3 v4 1).1, (catmullAcc v1 v2 v3 v4 1).2⟩ : ℂ) =
        ⟨(catmullC2 v1 v2 v3 v4).1, (catmullC2 v1 v2 v3 v4).2⟩ +
          (3 : ℂ) * ⟨(catmullC3 v1 v2 v3 v4).1, (catmullC3 v1 v2 v3 v4).2⟩ := by
      apply Complex.ext <;> simp [catmullAcc, catmullAccCoord, catmullC2, catmullC3]
    rw [this]
    refine le_trans (norm_add_le _ _) ?_
    rw [norm_mul]
    simp

/-! ### one chord of one span -/

/-- the interpolation-error identity for one coordinate of the span curve on `[a, a + h]`, chord weight `l`:
`q(a + l h) − ((1 − l) q(a) + l q(a + h)) = −l (1 − l) h² · q''(ξ)/2`, `ξ = a + (1 + l) h / 3`. -/
theorem catmullCoord_chord_error (p q r s a h l : ℝ) :
    catmullCoord p q r s (a + l * h) - ((1 - l) * catmullCoord p q r s a + l * catmullCoord p q r s (a + h)) =
      -(l * (1 - l) * h ^ 2) * (catmullAccCoord p q r s (a + (1 + l) * h / 3) / 2) := by
  unfold catmullCoord catmullAccCoord; ring

/-- **one chord, squared form**: on a parameter interval `[a, a + h] ⊆ [0, 1]` the point of the exact curve at
`a + l h` and the point of the chord with weight `l` are within `h²/8 · M` (same parameter). -/
theorem catmull_chord_sqDist (v1 v2 v3 v4 : Pos ℝ) (a h l : ℝ) (ha : 0 ≤ a) (hh : 0 ≤ h) (hb : a + h ≤ 1)
    (hl0 : 0 ≤ l) (hl1 : l ≤ 1) :
    sqDist (catmullExact v1 v2 v3 v4 (a + l * h))
        (segPt (catmullExact v1 v2 v3 v4 a) (catmullExact v1 v2 v3 v4 (a + h)) l) ≤
      (h ^ 2 / 8 * catmullM v1 v2 v3 v4) ^ 2 := by
  have hξ0 : 0 ≤ a + (1 + l) * h / 3 := by positivity
  have hξ1 : a + (1 + l) * h / 3 ≤ 1 := by nlinarith
  have hacc := catmullAcc_sq_le v1 v2 v3 v4 (a + (1 + l) * h / 3) hξ0 hξ1
  have hM := catmullM_nonneg v1 v2 v3 v4
  simp only [sqDist, segPt, catmullExact, catmullCoord_chord_error]
  simp only [catmullAcc] at hacc
  generalize catmullAccCoord v1.x v2.x v3.x v4.x (a + (1 + l) * h / 3) = wx at *
  generalize catmullAccCoord v1.y v2.y v3.y v4.y (a + (1 + l) * h / 3) = wy at *
  generalize catmullM v1 v2 v3 v4 = M at *
  have hk : l * (1 - l) ≤ 1 / 4 := by nlinarith [sq_nonneg (l - 1 / 2)]
  have hk0 : 0 ≤ l * (1 - l) := mul_nonneg hl0 (by linarith)
  have hk2 : (l * (1 - l) * h ^ 2) ^ 2 ≤ (h ^ 2 / 4) ^ 2 := by
    apply pow_le_pow_left₀ (by positivity)
    nlinarith [sq_nonneg h]
  calc (-(l * (1 - l) * h ^ 2) * (wx / 2)) ^ 2 + (-(l * (1 - l) * h ^ 2) * (wy / 2)) ^ 2
      = (l * (1 - l) * h ^ 2) ^ 2 * ((wx ^ 2 + wy ^ 2) / 4) := by ring
    _ ≤ (h ^ 2 / 4) ^ 2 * (M ^ 2 / 4) :=
        mul_le_mul hk2 (by linarith) (by positivity) (by positivity)
    _ = (h ^ 2 / 8 * M) ^ 2 := by ring

/-- **one chord**: the same with the Euclidean distance, for the chord `c` (`c < 50`) of the emitted polyline, between the
emitted points `q(c/50)` and `q((c+1)/50)`: `‖q((c + l)/50) − ((1 − l) q(c/50) + l q((c+1)/50))‖ ≤ h²/8 · M`. -/
theorem catmull_chord_within (v1 v2 v3 v4 : Pos ℝ) (c : Nat) (hc : c < 50) (l : ℝ) (hl0 : 0 ≤ l) (hl1 : l ≤ 1) :
    eDist (catmullExact v1 v2 v3 v4 (((c : ℝ) + l) / 50))
        (segPt (catmullExact v1 v2 v3 v4 ((c : ℝ) / 50)) (catmullExact v1 v2 v3 v4 (((c : ℝ) + 1) / 50)) l) ≤
      catmullBound v1 v2 v3 v4 := by
  have hc' : (c : ℝ) + 1 ≤ 50 := by
    have : ((c + 1 : ℕ) : ℝ) ≤ ((50 : ℕ) : ℝ) := Nat.cast_le.mpr hc
    push_cast at this; linarith
  have hc0 : (0 : ℝ) ≤ c := Nat.cast_nonneg c
  have h := catmull_chord_sqDist v1 v2 v3 v4 ((c : ℝ) / 50) (1 / 50) l (by positivity) (by norm_num)
    (by linarith) hl0 hl1
  rw [show (c : ℝ) / 50 + l * (1 / 50) = ((c : ℝ) + l) / 50 by ring,
    show (c : ℝ) / 50 + 1 / 50 = ((c : ℝ) + 1) / 50 by ring] at h
  exact eDist_le_of_sqDist_le (catmullBound_nonneg _ _ _ _) h

/-! ### `catmullAcc` is the second derivative; sharpness; a concrete span -/

noncomputable def catmullVelCoord (a b c d t : ℝ) : ℝ :=
  1 / 2 * ((-a + c) + 2 * (2 * a - 5 * b + 4 * c - d) * t + 3 * (-a + 3 * b - 3 * c + d) * t ^ 2)

theorem catmullCoord_hasDerivAt (a b c d t : ℝ) :
    HasDerivAt (catmullCoord a b c d) (catmullVelCoord a b c d t) t := by
  have h1 : HasDerivAt (fun t : ℝ => t) 1 t := hasDerivAt_id' t
  have h2 : HasDerivAt (fun t : ℝ => t ^ 2) (2 * t) t := by simpa using hasDerivAt_pow 2 t
  have h3 : HasDerivAt (fun t : ℝ => t ^ 3) (3 * t ^ 2) t := by simpa using hasDerivAt_pow 3 t
  have := ((((hasDerivAt_const t (2 * b)).add (h1.const_mul (-a + c))).add
    (h2.const_mul (2 * a - 5 * b + 4 * c - d))).add (h3.const_mul (-a + 3 * b - 3 * c + d))).const_mul (1 / 2)
  have e : catmullVelCoord a b c d t = 1 / 2 * (0 + (-a + c) * 1 + (2 * a - 5 * b + 4 * c - d) * (2 * t) +
      (-a + 3 * b - 3 * c + d) * (3 * t ^ 2)) := by unfold catmullVelCoord; ring
  rw [e]
  exact this

theorem catmullVelCoord_hasDerivAt (a b c d t : ℝ) :
    HasDerivAt (catmullVelCoord a b c d) (catmullAccCoord a b c d t) t := by
  have h1 : HasDerivAt (fun t : ℝ => t) 1 t := hasDerivAt_id' t
  have h2 : HasDerivAt (fun t : ℝ => t ^ 2) (2 * t) t := by simpa using hasDerivAt_pow 2 t
  have := (((hasDerivAt_const t (-a + c)).add (h1.const_mul (2 * (2 * a - 5 * b + 4 * c - d)))).add
    (h2.const_mul (3 * (-a + 3 * b - 3 * c + d)))).const_mul (1 / 2)
  have e : catmullAccCoord a b c d t = 1 / 2 * (0 + 2 * (2 * a - 5 * b + 4 * c - d) * 1 +
      3 * (-a + 3 * b - 3 * c + d) * (2 * t)) := by unfold catmullAccCoord; ring
  rw [e]
  exact this

theorem catmullBound_example :
    catmullBound ⟨0, 0⟩ ⟨100, 0⟩ ⟨100, 100⟩ ⟨0, 100⟩ < 16 / 1000 ∧
    158 / 10000 < catmullBound ⟨0, 0⟩ ⟨100, 0⟩ ⟨100, 100⟩ ⟨0, 100⟩ := by
  have h0 : eNorm (catmullAcc ⟨0, 0⟩ ⟨100, 0⟩ ⟨100, 100⟩ ⟨0, 100⟩ 0) = √100000 := by
    unfold eNorm catmullAcc catmullAccCoord; norm_num
  have h1 : eNorm (catmullAcc ⟨0, 0⟩ ⟨100, 0⟩ ⟨100, 100⟩ ⟨0, 100⟩ 1) = √100000 := by
    unfold eNorm catmullAcc catmullAccCoord; norm_num
  have hM : catmullM ⟨0, 0⟩ ⟨100, 0⟩ ⟨100, 100⟩ ⟨0, 100⟩ = √100000 := by
    unfold catmullM; rw [h0, h1, max_self]
  rw [catmullBound_eq, hM]
  constructor
  · rw [div_lt_iff₀ (by norm_num), Real.sqrt_lt' (by norm_num)]; norm_num
  · rw [lt_div_iff₀ (by norm_num)]; apply Real.lt_sqrt_of_sq_lt; norm_num

/-- **the bound cannot be improved** (same-parameter distance): -/
theorem catmull_chord_error_sharp (v1 v2 v3 v4 : Pos ℝ) (h3 : catmullC3 v1 v2 v3 v4 = (0, 0)) (c : Nat) :
    eDist (catmullExact v1 v2 v3 v4 (((c : ℝ) + 1 / 2) / 50))
        (segPt (catmullExact v1 v2 v3 v4 ((c : ℝ) / 50)) (catmullExact v1 v2 v3 v4 (((c : ℝ) + 1) / 50)) (1 / 2)) =
      catmullBound v1 v2 v3 v4 := by
  have hx : -v1.x + 3 * v2.x - 3 * v3.x + v4.x = 0 := congrArg Prod.fst h3
  have hy : -v1.y + 3 * v2.y - 3 * v3.y + v4.y = 0 := congrArg Prod.snd h3
  have hacc : ∀ t, catmullAcc v1 v2 v3 v4 t = catmullC2 v1 v2 v3 v4 := by
    intro t
    simp only [catmullAcc, catmullAccCoord, catmullC2, hx, hy]
    ext <;> simp
  have hM : catmullM v1 v2 v3 v4 = eNorm (catmullC2 v1 v2 v3 v4) := by
    unfold catmullM; rw [hacc, hacc, max_self]
  have hsq : sqDist (catmullExact v1 v2 v3 v4 (((c : ℝ) + 1 / 2) / 50))
      (segPt (catmullExact v1 v2 v3 v4 ((c : ℝ) / 50)) (catmullExact v1 v2 v3 v4 (((c : ℝ) + 1) / 50)) (1 / 2)) =
      (catmullBound v1 v2 v3 v4) ^ 2 := by
    have e := eNorm_sq (catmullC2 v1 v2 v3 v4)
    unfold catmullBound
    rw [hM, mul_pow, e]
    have k1 := catmullCoord_chord_error v1.x v2.x v3.x v4.x ((c : ℝ) / 50) (1 / 50) (1 / 2)
    have k2 := catmullCoord_chord_error v1.y v2.y v3.y v4.y ((c : ℝ) / 50) (1 / 50) (1 / 2)
    rw [show (c : ℝ) / 50 + 1 / 2 * (1 / 50) = ((c : ℝ) + 1 / 2) / 50 by ring,
      show (c : ℝ) / 50 + 1 / 50 = ((c : ℝ) + 1) / 50 by ring] at k1 k2
    simp only [sqDist, segPt, catmullExact, k1, k2, catmullAccCoord, hx, hy, catmullC2]
    ring
  unfold eDist
  rw [hsq, Real.sqrt_sq (catmullBound_nonneg _ _ _ _)]

/-- a span with `C3 = 0`: four samples of a parabola. -/
example : catmullC3 ⟨0, 0⟩ ⟨1, 1⟩ ⟨2, 4⟩ ⟨3, 9⟩ = (0, 0) := by
  unfold catmullC3; ext <;> norm_num

end Rosu.C17
