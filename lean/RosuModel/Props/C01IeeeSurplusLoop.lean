/-
  Props/C01IeeeSurplusLoop.lean — the decomposition of `optimized_len` used informally in Props/C01IeeeSurplus.lean, for
  the simplification loop of `calculate_subpath` (any arithmetic): `simplifyTerms` lists what the loop books — the
  removed length `L`, the pending start `ls` and the kept point `curr` of every booking — and
  **`simplifyLoop_optLen`**: the loop's `optimized_len` is the left fold `o ↦ o + (L − f64(distance(ls, curr)))` over them,
  **`catmullSimplify_optLen`** for `catmullSimplify`. For `Float`: every booked `L` is a NaN or `≥ 0`
  (`simplifyTerms_len_notNeg`), hence every booked term owes at most its own chord (`simplifyTerms_geNeg`).
  NOT proved here: that each chord `distance(ls, curr)` is the length of a segment of the final path of `calculate_path`
  (the joint de-duplication `dedupJoint` may replace `ls` by an equal earlier point, and `distance(a, b)` is
  `length(a − b)` while `calculate_length` uses `length(b − a)`).
-/
import RosuModel.Props.C01IeeeSurplus
namespace Rosu.C01
open Rosu Rosu.Curve Rosu.FDL Rosu.FDebt
set_option linter.unusedSectionVars false

section Loop
variable {P F : Type} [Scalar P] [Scalar F] [Cvt P F]

/-- the bookings of `simplifyLoop`: `(len_removed_since_start, last_start, curr)` at every kept end point. -/
def simplifyTerms (n : Nat) : SimpState P F → Nat → Pos P → List (Pos P) → List (F × Pos P × Pos P)
  | _, _, _, [] => []
  | st, i, prev, curr :: rest =>
    let tail := simplifyTerms n (simplifyStep n st i prev curr) (i + 1) curr rest
    match st.lastStart with
    | none => tail
    | some ls =>
      if Scalar.lt (6 : F) (Cvt.up (Pos.distance F ls curr)) || (i + 1) % 100 == 0 || i == n - 1 then
        (st.lenRemoved + Cvt.up (Pos.distance F prev curr), ls, curr) :: tail
      else tail

/-- `*optimized_len += len_removed_since_start - dist_from_start`. -/
def bookTerm (o : F) (t : F × Pos P × Pos P) : F := o + (t.1 - Cvt.up (Pos.distance F t.2.1 t.2.2))

/-- **`optimized_len` after the loop is the left fold of the booked terms.** -/
theorem simplifyLoop_optLen (n : Nat) : ∀ (rest : List (Pos P)) (st : SimpState P F) (i : Nat) (prev : Pos P),
    (simplifyLoop n st i prev rest).optLen = (simplifyTerms n st i prev rest).foldl bookTerm st.optLen := by
  intro rest
  induction rest with
  | nil => intro st i prev; rfl
  | cons c rest ih =>
    intro st i prev
    simp only [simplifyLoop, simplifyTerms]
    rw [ih]
    cases hls : st.lastStart with
    | none => simp only [simplifyStep, hls]
    | some ls =>
      simp only []
      cases hc : (Scalar.lt (6 : F) (Cvt.up (Pos.distance F ls c)) || (i + 1) % 100 == 0 || i == n - 1)
      · simp only [simplifyStep, hls, hc, Bool.false_eq_true, if_false]
      · simp only [simplifyStep, hls, hc, if_true, List.foldl_cons, bookTerm]

theorem catmullSimplify_optLen (sub : List (Pos P)) (o : F) :
    (catmullSimplify sub o).2 =
      (simplifyTerms sub.length ({ out := [], lastStart := none, lenRemoved := 0, optLen := o } : SimpState P F)
        0 Pos.zero sub).foldl bookTerm o := by
  unfold catmullSimplify
  exact simplifyLoop_optLen _ _ _ _ _

end Loop

/-- **binary64: every booked removed length is a NaN or `≥ 0`** when the pending one is. -/
theorem simplifyTerms_len_notNeg (n : Nat) : ∀ (rest : List (Pos Float32)) (st : SimpState Float32 Float) (i : Nat)
    (prev : Pos Float32), NotNeg st.lenRemoved →
      ∀ t ∈ simplifyTerms n st i prev rest, NotNeg t.1 := by
  intro rest
  induction rest with
  | nil => intro st i prev _ t ht; cases ht
  | cons c rest ih =>
    intro st i prev hst t ht
    simp only [simplifyTerms] at ht
    have hadd : NotNeg (st.lenRemoved + Cvt.up (Pos.distance Float prev c)) :=
      add_notNeg_float _ _ hst (len_notNeg_float (prev - c))
    cases hls : st.lastStart with
    | none =>
      rw [hls] at ht
      simp only [] at ht
      refine ih _ _ _ ?_ t ht
      simp only [simplifyStep, hls]
      exact hst
    | some ls =>
      rw [hls] at ht
      simp only [] at ht
      cases hc : (Scalar.lt (6 : Float) (Cvt.up (Pos.distance Float ls c)) || (i + 1) % 100 == 0 || i == n - 1)
      · rw [hc] at ht
        simp only [Bool.false_eq_true, if_false] at ht
        refine ih _ _ _ ?_ t ht
        simp only [simplifyStep, hls, hc, Bool.false_eq_true, if_false]
        exact hadd
      · rw [hc] at ht
        simp only [if_true, List.mem_cons] at ht
        rcases ht with rfl | ht
        · exact hadd
        · refine ih _ _ _ ?_ t ht
          simp only [simplifyStep, hls, hc, if_true]
          exact notNeg_zero_float

/-- the initial state of the loop in `catmullSimplify`. -/
def simpInit (o : Float) : SimpState Float32 Float := { out := [], lastStart := none, lenRemoved := 0, optLen := o }

/-- **every booked surplus term owes at most its own chord** (or is a NaN): `L − D ≥ −D`. -/
theorem simplifyTerms_geNeg (sub : List (Pos Float32)) (o : Float) (t : Float × Pos Float32 × Pos Float32)
    (ht : t ∈ simplifyTerms sub.length (simpInit o) 0 Pos.zero sub) :
    GeNeg (Cvt.up (Pos.distance Float t.2.1 t.2.2) : Float) (t.1 - (Cvt.up (Pos.distance Float t.2.1 t.2.2) : Float)) := by
  have hL : NotNeg t.1 :=
    simplifyTerms_len_notNeg sub.length sub (simpInit o) 0 Pos.zero (show NotNeg (0 : Float) from notNeg_zero_float) t ht
  have hDn : NotNeg (Cvt.up (Pos.distance Float t.2.1 t.2.2) : Float) := len_notNeg_float (t.2.1 - t.2.2)
  revert hL hDn
  generalize (Cvt.up (Pos.distance Float t.2.1 t.2.2) : Float) = D
  generalize t.1 = L
  intro hL hDn
  rcases isNaN_cases (L - D) with h | h
  · exact Or.inl h
  · have hn := FAM.not_nan_of_sub_float L D h
    rcases hDn with hD | hD
    · rw [hn.2] at hD; cases hD
    · rcases hL with hL | hL
      · rw [hn.1] at hL; cases hL
      · exact sub_geNeg_float L D hL hn.2

/-- **a Catmull sub-path simplified to a single span** (one booking, e.g. two control points less than 6 px apart):
`optimized_len`, started at `0.0`, owes at most the chord of that span. -/
theorem catmullSimplify_single_span (sub : List (Pos Float32)) (t : Float × Pos Float32 × Pos Float32)
    (h : simplifyTerms sub.length (simpInit 0) 0 Pos.zero sub = [t]) :
    GeNeg (Cvt.up (Pos.distance Float t.2.1 t.2.2) : Float) (catmullSimplify sub (0 : Float)).2 := by
  have hg := simplifyTerms_geNeg sub 0 t (by rw [h]; exact List.mem_singleton.mpr rfl)
  have he : (catmullSimplify sub (0 : Float)).2 = (simplifyTerms sub.length (simpInit 0) 0 Pos.zero sub).foldl bookTerm 0 :=
    catmullSimplify_optLen sub 0
  rw [he, h]
  simp only [List.foldl_cons, List.foldl_nil, bookTerm]
  rw [add_comm_float]
  exact add_geNeg_float _ _ 0 hg notNeg_zero_float

end Rosu.C01
