/-
  Props/C04DecodedObjectsToy.lean — non-vacuity of Props/C04DecodedObjects.lean on the toy codec `ZC` (integers):
  the three law bundles hold (`ZC.objLaws`, `ZC.durLaws`, `ZC.ctrlLaws`), and a concrete file — a circle with a custom
  sample file, a spinner and a hold note — is decoded, finalised (kernel evaluation), every
  object satisfies its residual, hence is `RepObject`, and its `[HitObjects]` block is accepted again
  (`objSample_block_accepted`). A second file shows the F21 residual is needed: its circle's file name ends in a blank
  (`objF21_not_residual`, `objF21_not_repCircle`).
-/
import RosuModel.Props.C04DecodedObjects
import RosuModel.Lemmas.SliderEx
set_option linter.unusedSectionVars false
namespace Rosu.C04
open Rosu Scalar RtObjects SliderRt DecodedObj EncodeLines Encode DecodedInv

/-! ### the laws hold of the toy codec -/

theorem ZC.inCoord_iff (a : ZC) : InCoord a ↔ -131072 ≤ a.v ∧ a.v ≤ 131072 := by
  unfold InCoord
  show (decide (a.v < -131072) = false ∧ decide (131072 < a.v) = false ∧ false = false) ↔ _
  simp only [decide_eq_false_iff_not, Int.not_lt, and_true]

theorem ZC.rep_of_inCoord (a : ZC) (h : InCoord a) : ZC.Rep a := by
  have := (ZC.inCoord_iff a).mp h
  unfold ZC.Rep i32Min i32Max
  omega

theorem ZC.repCoord_of_inCoord (a : ZC) (h : InCoord a) : RepCoord ZC.Rep a := ⟨ZC.rep_of_inCoord a h, h, rfl⟩

theorem ZC.objLaws : ObjLaws ZC ZC ZC.Rep ZC.Rep where
  time := ZC.limitRep
  coordF := ZC.rep_of_inCoord
  zeroF := ⟨by decide, by decide⟩
  trunc := fun xv h => ZC.repCoord_of_inCoord xv h
  spinnerX := ⟨by decide, by decide, rfl⟩
  spinnerY := ⟨by decide, by decide, rfl⟩
  holdY := ⟨by decide, by decide, rfl⟩

theorem ZC.max_eq (a b : ZC) : Scalar.max a b = if a.v < b.v then b else a := by
  unfold Scalar.max
  show (if decide (a.v < b.v) = true then b else if false = true then b else a) = _
  by_cases h : a.v < b.v <;> simp [h]

theorem ZC.ext {a b : ZC} (h : a.v = b.v) : a = b := by cases a; cases b; simp_all

theorem ZC.durLaws : DurLaws ZC ZC.Rep where
  spinnerStop := by
    intro t d ht hd
    have h1 := (ZC.inLimit_iff t).mp ht
    have h2 := (ZC.inLimit_iff d).mp hd
    rw [ZC.max_eq]
    rw [ZC.inLimit_iff]
    unfold ZC.Rep i32Min
    unfold i32Max at h1 h2 ⊢
    split
    · show (_ ≤ t.v + 0 ∧ t.v + 0 ≤ _) ∧ _ ≤ t.v + 0 ∧ t.v + 0 ≤ _
      omega
    · show (_ ≤ t.v + (d.v - t.v) ∧ t.v + (d.v - t.v) ≤ _) ∧ _ ≤ t.v + (d.v - t.v) ∧ t.v + (d.v - t.v) ≤ _
      omega
  spinnerBack := by
    intro t d _ _
    rw [ZC.max_eq (d - t) 0]
    split
    · rename_i h
      rw [ZC.max_eq]
      apply ZC.ext
      have h' : d.v - t.v < 0 := h
      split
      · rfl
      · rename_i h2
        have : ¬ (t.v + 0 - t.v < 0) := h2
        show t.v + 0 - t.v = 0
        omega
    · rename_i h
      rw [ZC.max_eq]
      apply ZC.ext
      have h' : ¬ (d.v - t.v < 0) := h
      split
      · rename_i h2
        have : t.v + (d.v - t.v) - t.v < 0 := h2
        omega
      · show t.v + (d.v - t.v) - t.v = d.v - t.v
        omega
  holdStop := by
    intro t e ht he
    have h1 := (ZC.inLimit_iff t).mp ht
    have h2 := (ZC.inLimit_iff e).mp he
    rw [ZC.max_eq]
    rw [ZC.inLimit_iff]
    unfold ZC.Rep i32Min
    unfold i32Max at h1 h2 ⊢
    split
    · show (_ ≤ t.v + (e.v - t.v) ∧ t.v + (e.v - t.v) ≤ _) ∧ _ ≤ t.v + (e.v - t.v) ∧ t.v + (e.v - t.v) ≤ _
      omega
    · show (_ ≤ t.v + (t.v - t.v) ∧ t.v + (t.v - t.v) ≤ _) ∧ _ ≤ t.v + (t.v - t.v) ∧ t.v + (t.v - t.v) ≤ _
      omega
  holdBack := by
    intro t e _ _
    rw [ZC.max_eq t e]
    split
    · rename_i h
      rw [ZC.max_eq]
      apply ZC.ext
      split
      · show t.v + (e.v - t.v) - t.v = e.v - t.v
        omega
      · rename_i h2
        have : ¬ (t.v < t.v + (e.v - t.v)) := h2
        omega
    · rename_i h
      rw [ZC.max_eq]
      apply ZC.ext
      split
      · rename_i h2
        have : t.v < t.v + (t.v - t.v) := h2
        omega
      · rfl

theorem ZC.ctrlLaws : CtrlLaws ZC ZC ZC.Rep where
  truncF := fun x h => ZC.repCoord_of_inCoord x h
  addSub := fun a b _ _ => ZC.ext (show a.v + (b.v - a.v) = b.v by omega)
  addZero := fun a _ => ⟨ZC.ext (show a.v + 0 = a.v by omega), ZC.ext (show a.v - a.v = 0 by omega)⟩

/-- all law hypotheses of `hitobjects_block_accepted_decoded` are satisfiable together. -/
theorem decoded_object_hypotheses_satisfiable :
    CodecLaws ZC ZC.Rep ∧ SliderRt.CoordLaws ZC ZC ZC.Rep ∧ ObjLaws ZC ZC ZC.Rep ZC.Rep ∧ DurLaws ZC ZC.Rep ∧
      CtrlLaws ZC ZC ZC.Rep :=
  ⟨ZC.laws, SliderRt.ZC.coordLaws, ZC.objLaws, ZC.durLaws, ZC.ctrlLaws⟩

/-! ### a decoded file -/

set_option maxRecDepth 100000

/-- a decoded mania file with one `[HitObjects]` line `l` after a rejected line. (One object per sample: the finaliser's
stable sort `List.mergeSort` is defined by well-founded recursion and does not reduce in the kernel on longer lists; a
slider cannot be kernel-evaluated either — `Curve.new` — see `exSlider_residual` below.) -/
def objLinesOf (l : Str) : List Str :=
  [str "osu file format v14", str "", str "[General]", str "Mode: 3", str "[HitObjects]", str "1,2,3", l]

def objStateOf (l : Str) : BeatmapState ZC ZC := frame beatmapDecoder (objLinesOf l)
def objMapOf (l : Str) : Beatmap ZC ZC :=
  match (objStateOf l).finish with | .ok m => m | .error _ => noObjectsMap (objStateOf l)

theorem objMapOf_finishes (l : Str) (hok : (objStateOf l).finish.toOption.isSome = true) :
    (objStateOf l).finish = .ok (objMapOf l) := by
  unfold objMapOf
  cases h : (objStateOf l).finish with
  | error e => rw [h] at hok; cases hok
  | ok m => rfl

/-- a circle with a custom sample file, a spinner, a hold note. -/
def objCircleLine : Str := str "256,192,1000,5,2,2:3:7:60:hit.wav"
def objSpinnerLine : Str := str "256,192,3000,12,0,3500,1:0:0:0:"
def objHoldLine : Str := str "64,192,4000,128,4,4500:1:2:0:0:"

theorem objCircle_decodes : decodeBytes (beatmapDecoder : LineDecoder (BeatmapState ZC ZC))
    (utf8Encode (unlines (objLinesOf objCircleLine))) = .ok (objStateOf objCircleLine) := by
  rw [RtFile.decodeBytes_utf8_text _ _ (by decide), lines_of_unlines _ (by decide)]
  rfl
theorem objSpinner_decodes : decodeBytes (beatmapDecoder : LineDecoder (BeatmapState ZC ZC))
    (utf8Encode (unlines (objLinesOf objSpinnerLine))) = .ok (objStateOf objSpinnerLine) := by
  rw [RtFile.decodeBytes_utf8_text _ _ (by decide), lines_of_unlines _ (by decide)]
  rfl
theorem objHold_decodes : decodeBytes (beatmapDecoder : LineDecoder (BeatmapState ZC ZC))
    (utf8Encode (unlines (objLinesOf objHoldLine))) = .ok (objStateOf objHoldLine) := by
  rw [RtFile.decodeBytes_utf8_text _ _ (by decide), lines_of_unlines _ (by decide)]
  rfl

theorem objCircle_finishes : (objStateOf objCircleLine).finish = .ok (objMapOf objCircleLine) :=
  objMapOf_finishes _ (by decide +kernel)
theorem objSpinner_finishes : (objStateOf objSpinnerLine).finish = .ok (objMapOf objSpinnerLine) :=
  objMapOf_finishes _ (by decide +kernel)
theorem objHold_finishes : (objStateOf objHoldLine).finish = .ok (objMapOf objHoldLine) :=
  objMapOf_finishes _ (by decide +kernel)

/-- what was decoded. -/
theorem objSample_kinds :
    (objMapOf objCircleLine).hitObjects.map (fun h => (h.startTime, kindTag h.kind, fileNameOf h.samples)) =
      [(⟨1000⟩, .circle, str "hit.wav")] ∧
    (objMapOf objSpinnerLine).hitObjects.map (fun h => (h.startTime, kindTag h.kind, fileNameOf h.samples)) =
      [(⟨3000⟩, .spinner, [])] ∧
    (objMapOf objHoldLine).hitObjects.map (fun h => (h.startTime, kindTag h.kind, fileNameOf h.samples)) =
      [(⟨4000⟩, .hold, [])] := by
  refine ⟨?_, ?_, ?_⟩ <;> with_unfolding_all rfl

instance decPathShapeOk : ∀ cps : List (PathControlPoint ZC), Decidable (PathShapeOk cps)
  | [] => isFalse (fun h => h)
  | p0 :: rest =>
    match h0 : p0.pathType with
    | none => isFalse (fun h => by have := h.2; rw [h0] at this; exact this)
    | some t0 =>
      decidable_of_iff (p0.pos = Pos.zero ∧ (WfType t0 ∧ PShape t0 p0.pos rest ∧ ChainOK t0 p0 rest))
        (by unfold PathShapeOk; simp only [h0])

/-- the residual of an object as a check (sliders: with a requested length). -/
def objResidualB (h : HitObject ZC ZC) : Bool :=
  match h.kind with
  | .slider s => decide (PathShapeOk s.path.controlPoints) && s.path.expectedDist.isSome
  | _ => decide (trimEnd (fileNameOf h.samples) = fileNameOf h.samples) && decide ('|' ∉ fileNameOf h.samples)

theorem objResidual_of_check (h : HitObject ZC ZC) (hb : objResidualB h = true) : ObjResidual ZC.Rep h := by
  unfold objResidualB at hb
  unfold ObjResidual
  cases hk : h.kind with
  | slider s =>
    rw [hk] at hb
    simp only [Bool.and_eq_true, decide_eq_true_eq] at hb
    exact ⟨hb.1, fun hn => by rw [hn] at hb; cases hb.2⟩
  | circle c => rw [hk] at hb; simp only [Bool.and_eq_true, decide_eq_true_eq] at hb; exact ⟨hb.1, hb.2⟩
  | spinner c => rw [hk] at hb; simp only [Bool.and_eq_true, decide_eq_true_eq] at hb; exact ⟨hb.1, hb.2⟩
  | hold c => rw [hk] at hb; simp only [Bool.and_eq_true, decide_eq_true_eq] at hb; exact ⟨hb.1, hb.2⟩

/-- every object of the three decoded samples satisfies its residual (kernel evaluation). -/
theorem objSample_residuals : ∀ l ∈ [objCircleLine, objSpinnerLine, objHoldLine],
    ∀ h ∈ (objMapOf l).hitObjects, ObjResidual ZC.Rep h := by
  have key : ∀ l ∈ [objCircleLine, objSpinnerLine, objHoldLine], (objMapOf l).hitObjects.all objResidualB = true := by
    decide +kernel
  intro l hl h hh
  exact objResidual_of_check h (List.all_eq_true.mp (key l hl) h hh)

/-- **the theorems apply**: the circle of the first sample is `RepObject` in the map's mode, and the `[HitObjects]` block
of that map is one record line which `parse_hit_objects` accepts in any state (likewise for the other two samples). -/
theorem objCircle_rep : ∀ h ∈ (objMapOf objCircleLine).hitObjects,
    RepObject ZC.Rep ZC.Rep (objMapOf objCircleLine).general.mode h :=
  fun h hh => decoded_objects_representable_partial ZC.objLaws ZC.durLaws ZC.ctrlLaws _ _ _ objCircle_decodes
    objCircle_finishes _ h hh (objSample_residuals _ (by simp) h hh)

theorem objSpinner_rep : ∀ h ∈ (objMapOf objSpinnerLine).hitObjects,
    RepObject ZC.Rep ZC.Rep (objMapOf objSpinnerLine).general.mode h :=
  fun h hh => decoded_objects_representable_partial ZC.objLaws ZC.durLaws ZC.ctrlLaws _ _ _ objSpinner_decodes
    objSpinner_finishes _ h hh (objSample_residuals _ (by simp) h hh)

theorem objHold_rep : ∀ h ∈ (objMapOf objHoldLine).hitObjects,
    RepObject ZC.Rep ZC.Rep (objMapOf objHoldLine).general.mode h :=
  fun h hh => decoded_objects_representable_partial ZC.objLaws ZC.durLaws ZC.ctrlLaws _ _ _ objHold_decodes
    objHold_finishes _ h hh (objSample_residuals _ (by simp) h hh)

theorem objCircle_block_accepted :
    ∃ H : List Str, encodeHitObjects (objMapOf objCircleLine) = .ok (unlines (str "[HitObjects]" :: H)) ∧
      RtFile.ListBlockShape H ∧ H.length = 1 ∧
      ∀ st' : HOCore ZC ZC, Accepts (parseHitObjectLine (objMapOf objCircleLine).general.mode) st' (H.map trimEnd) := by
  obtain ⟨H, h1, h2, h3, h4⟩ := hitobjects_block_accepted_decoded ZC.laws ZC.laws SliderRt.ZC.coordLaws ZC.objLaws ZC.durLaws
    ZC.ctrlLaws _ _ _ objCircle_decodes objCircle_finishes (objSample_residuals _ (by simp))
  refine ⟨H, h1, h2, ?_, h4⟩
  rw [h3]
  have := congrArg List.length objSample_kinds.1
  simpa using this

/-- the slider residual is satisfiable: the multi-segment slider of Lemmas/SliderEx.lean (whose line `parse_hit_objects`
reads back to exactly these control points: `SliderRt.path_roundtrip`). -/
theorem exSlider_residual : SliderResidual ZC.Rep SliderRt.exSlider :=
  ⟨by decide, fun h => by cases h⟩

/-! ### the F21 residual is needed -/

/-- a circle whose bank field is followed by another field: the file name `"a "` keeps its trailing blank. -/
def objF21Lines : List Str :=
  [str "osu file format v14", str "", str "[HitObjects]", str "256,192,1000,1,0,0:0:0:0:a ,x"]

def objF21State : BeatmapState ZC ZC := frame beatmapDecoder objF21Lines
def objF21Map : Beatmap ZC ZC :=
  match objF21State.finish with | .ok m => m | .error _ => noObjectsMap objF21State

theorem objF21_decodes :
    decodeBytes (beatmapDecoder : LineDecoder (BeatmapState ZC ZC)) (utf8Encode (unlines objF21Lines)) = .ok objF21State := by
  rw [RtFile.decodeBytes_utf8_text _ _ (by decide), lines_of_unlines _ (by decide)]
  rfl

theorem objF21_finishes : objF21State.finish = .ok objF21Map := by
  have hok : objF21State.finish.toOption.isSome = true := by decide +kernel
  unfold objF21Map
  cases h : objF21State.finish with
  | error e => rw [h] at hok; cases hok
  | ok m => rfl

theorem objF21_names : objF21Map.hitObjects.map (fun h => fileNameOf h.samples) = [str "a "] := by
  with_unfolding_all rfl

/-- the decoded circle violates the F21 clause of the residual … -/
theorem objF21_not_residual : ∃ h ∈ objF21Map.hitObjects, ¬ FileNameResidual h.samples := by
  have key : objF21Map.hitObjects.any (fun h => decide (trimEnd (fileNameOf h.samples) ≠ fileNameOf h.samples)) = true := by
    decide +kernel
  obtain ⟨h, hh, hb⟩ := List.any_eq_true.mp key
  exact ⟨h, hh, fun hr => (of_decide_eq_true hb) hr.trimmed⟩

/-- … and is indeed not representable: `decoded_objects_representable_statement` is FALSE of the model (finding F21). -/
theorem objF21_not_repObject : ¬ decoded_objects_representable_statement ZC ZC ZC.Rep ZC.Rep := by
  intro hst
  obtain ⟨h, hh, hn⟩ := objF21_not_residual
  have hr := hst _ _ _ objF21_decodes objF21_finishes h hh
  apply hn
  cases hr with
  | circle c hk hr => exact ⟨hr.samples.file.trimmed, hr.samples.file.noBar⟩
  | slider s dist hk hr => exact ⟨hr.samples.file.trimmed, hr.samples.file.noBar⟩
  | spinner sp hk hr => exact ⟨hr.samples.file.trimmed, hr.samples.file.noBar⟩
  | hold ho hk hr => exact ⟨hr.samples.file.trimmed, hr.samples.file.noBar⟩

/-! ### the `|` clause of the residual is an artefact of `RepSampleFile`, not a defect -/

/-- a circle whose custom sample file name contains `|`. -/
def objBarLine : Str := str "256,192,1000,1,0,0:0:0:0:a|b"

/-- the decoded circle violates `FileNameResidual.noBar` (so it is not `RepCircle`), yet the line the encoder writes for it
is accepted when read back: the clause is needed for slider lines only (kernel evaluation, toy codec). -/
theorem objBar_accepted_anyway :
    ((objMapOf objBarLine).hitObjects.map (fun h => fileNameOf h.samples) = [str "a|b"]) ∧
    (objMapOf objBarLine).hitObjects.all (fun h =>
      match encodeObject GameMode.mania h with
      | .ok t => (parseHitObjectLine GameMode.mania ({} : HOCore ZC ZC) (trimEnd t)).2
      | .error _ => false) = true := by
  constructor
  · with_unfolding_all rfl
  · decide +kernel

end Rosu.C04
