/-
  Props/C04Timing.lean — C04 for the `[TimingPoints]` block (continues Props/C04.lean, same namespace).

  * `timing_block_lines` (no law): the text `encode_timing_points` produces is the header line plus a list of
    LF-terminated lines, each of the form `time,beat,signature,bank,custom,volume,0|1,flags`; a `1`-line carries the time
    and beat length of a timing point of the map, a `0`-line the time of a group and the beat length `-100 / velocity`.
  * `timing_block_shape`, `timing_lines_accepted` (codec laws, `RtTiming.RepTimingMap`): every line is LF-free, is neither a
    header nor a skipped line, and is accepted by `parse_timing_points` in ANY decoder state, being applied as exactly the
    values written.
  * `record_and_timing_blocks_accepted`: the file-level statement of Props/C04.lean extended by the timing block — the block
    no longer enters as an assumption; the re-decode hands exactly its lines to `parse_timing_points` and all are accepted.
  Helper lemmas: Lemmas/RtTimingLine.lean (one line), Lemmas/RtTiming.lean (group loop), Lemmas/RtTimingFile.lean (map, file).
  Still only a statement: slider lines of `[HitObjects]` (`hitobject_block_lines_accepted_statement`).
-/
import RosuModel.Props.C04
import RosuModel.Lemmas.RtTimingFile
import RosuModel.Lemmas.RtTimingDecoded
namespace Rosu.C04
open Rosu Encode EncodeLines C11 RtTiming

variable {F P : Type} [Scalar F] [Scalar P] [Cvt P F] [Trig F] [Trig P]

/-- **timing_block_lines** (shape; no number law). If `encode_timing_points` succeeds its text is the header and the lines
of `mapEntries` over the collected control points, each followed by a line feed; every line is
`time,beat,signature,bank,custom,volume,0|1,flags`; every entry belongs to a group of the collection — a timing point
(time, beat length; flag `1`) or a group time with beat length `-100 / velocity` (flag `0`) — and its six properties are
`ControlPointProperties::new` at that group's time. -/
theorem timing_block_lines (m : Beatmap F P) (t : Str) (h : encodeTimingPoints m = .ok t) :
    ∃ cp, collectSamples m = .ok cp ∧
      t = unlines (str "[TimingPoints]" :: (mapEntries m cp).map Entry.line) ∧
      (∀ e ∈ mapEntries m cp,
        e.line = showF e.time ++ [','] ++ showF e.beat ++ [','] ++ showNat e.props.timingSignature ++ [','] ++
          showNat e.props.sampleBank ++ [','] ++ showInt e.props.customSampleBank ++ [','] ++ showInt e.props.sampleVolume ++
          [','] ++ b01 e.timing ++ [','] ++ showNat e.props.effectFlags) ∧
      (∀ e ∈ mapEntries m cp, ∃ g ∈ timingGroups cp,
        (∃ last, e.props = Props.new g.time cp last g.timing.isSome m.general.mode) ∧
        ((e.timing = true ∧ ∃ tp ∈ cp.timingPoints, g.timing = some tp ∧ e.time = tp.time ∧ e.beat = tp.beatLen) ∨
         (e.timing = false ∧ e.time = g.time ∧ e.beat = (-100 : F) / e.props.sliderVelocity))) := by
  obtain ⟨cp, hc, ht⟩ := encodeTimingPoints_eq m t h
  refine ⟨cp, hc, ht, fun e _ => entry_line_fields e, fun e he => ?_⟩
  obtain ⟨g, hg, hp, hk⟩ := groupEntries_form _ cp _ _ e he
  refine ⟨g, hg, hp, ?_⟩
  rcases hk with ⟨h1, tp, h2, h3, h4⟩ | hk
  · refine Or.inl ⟨h1, tp, ?_, h2, h3, h4⟩
    rcases timingGroups_mem cp g hg with ⟨u, hu, rfl⟩ | ⟨hn, _⟩
    · simp only [Option.some.injEq] at h2
      rw [← h2]; exact hu
    · rw [hn] at h2; cases h2
  · exact Or.inr hk

/-- **decoded_control_points_in_limits** (no law — holds of the IEEE instance). Which clauses of `RepTimingMap` a DECODED
map satisfies by construction: whatever lines were decoded, the map's own control points are strictly sorted, every time is
within the parse limit ±(2³¹−1) and not NaN, every signature numerator is in `1 … 2³¹−1`, every custom bank within
±(2³¹−1). (Beat lengths and velocities inside their clamps: `C12.clamps`, under the clamp laws.) What this does not cover —
and what a decoded map can violate — are the sample points `collect_samples` adds at computed times, and representability by
the number codec (`R`), which is the codec's law. -/
theorem decoded_control_points_in_limits (x : List Str) (m : Beatmap F P)
    (h : (frame (beatmapDecoder : LineDecoder (BeatmapState F P)) x).finish = .ok m) :
    C13.Sorted m.controlPoints ∧
    (∀ t ∈ m.controlPoints.timingPoints,
      InLimit t.time ∧ 1 ≤ t.timeSignature.numerator ∧ (t.timeSignature.numerator : Int) ≤ i32Max) ∧
    (∀ p ∈ m.controlPoints.difficultyPoints, InLimit p.time) ∧
    (∀ p ∈ m.controlPoints.effectPoints, InLimit p.time) ∧
    (∀ s ∈ m.controlPoints.samplePoints, InLimit s.time ∧ -i32Max ≤ s.customSampleBank ∧ s.customSampleBank ≤ i32Max) := by
  obtain ⟨h1, h2⟩ := decoded_points_in_limits x m h
  exact ⟨h1, h2.t, h2.d, h2.e, h2.s⟩

section
variable {RF : F → Prop} {RP : P → Prop}

/-- **timing_block_shape** (codec laws): for a representable map the block's lines are LF-free and, end-trimmed, neither
section headers nor skipped (comment / blank) lines — the shape `record_blocks_accepted_and_recovered` had to assume. -/
theorem timing_block_shape (LF : CodecLaws F RF) (m : Beatmap F P) (hm : RepTimingMap RF m) (t : Str)
    (h : encodeTimingPoints m = .ok t) :
    ∃ T, t = unlines (str "[TimingPoints]" :: T) ∧ RtFile.ListBlockShape T := by
  obtain ⟨cp, _, ht, hall⟩ := timing_block_spec LF m hm t h
  refine ⟨_, ht, fun l hl => ?_⟩
  obtain ⟨e, he, rfl⟩ := List.mem_map.mp hl
  exact ⟨(hall e he).2.1, (hall e he).2.2.1⟩

/-- **timing_lines_accepted** (codec laws): for a representable map (`RtTiming.RepTimingMap`: times / beat lengths /
`-100 / velocity` that the codec round-trips and that lie within the decoder's parse limits, signature numerators in
`1 … 2³¹−1`, custom banks within `i32`) every line of the `[TimingPoints]` block is accepted by `parse_timing_points` in
any decoder state — no error — and changes the state exactly as the values written (`Entry.read`) do. -/
theorem timing_lines_accepted (LF : CodecLaws F RF) (m : Beatmap F P) (hm : RepTimingMap RF m) (t : Str)
    (h : encodeTimingPoints m = .ok t) :
    ∃ cp, collectSamples m = .ok cp ∧ t = unlines (str "[TimingPoints]" :: (mapEntries m cp).map Entry.line) ∧
      (∀ e ∈ mapEntries m cp, ∀ st : TimingPointsState F P,
        parseTimingPoints st (trimEnd e.line) = (.ok (), applyTpLine st (e.read st.general.defaultSampleBank))) ∧
      ∀ st : TimingPointsState F P,
        Accepts (fun s l => ((parseTimingPoints s l).2, (parseTimingPoints s l).1.isOk)) st
          (((mapEntries m cp).map Entry.line).map trimEnd) := by
  obtain ⟨cp, hc, ht, hall⟩ := timing_block_spec LF m hm t h
  refine ⟨cp, hc, ht, fun e he => (hall e he).2.2.2, fun st => ?_⟩
  apply accepts_of_forall
  intro l hl s
  simp only [List.map_map, List.mem_map, Function.comp] at hl
  obtain ⟨e, he, rfl⟩ := hl
  show (parseTimingPoints s (trimEnd e.line)).1.isOk = true
  rw [(hall e he).2.2.2 s]
  rfl

/-- **record_and_timing_blocks_accepted** — `record_blocks_accepted_and_recovered` with the `[TimingPoints]` block proved
instead of assumed. For a map whose record sections and control points are representable, under the codec laws, and whose
`[HitObjects]` block consists of LF-terminated record lines: the `[TimingPoints]` block is its header plus the lines `T` of
`mapEntries` over the collected control points, all LF-free record lines; the encoded text is the version line and the eight blocks as lines; reading it back from its UTF-8
bytes through the reader and the framing driver with the `Beatmap` decoder succeeds, leaves exactly the map's record
fields (preserved view), hands exactly the lines `T` — in order, nothing else — to `parse_timing_points`
(`C12.runStrs` from the fresh state with the re-decoded `[General]` values), and every one of them is accepted. -/
theorem record_and_timing_blocks_accepted (LF : CodecLaws F RF) (LP : CodecLaws P RP) (LI : IntPrintLaw F)
    (m : Beatmap F P) (hm : RtFile.RepRecords RF RP m) (hmt : RepTimingMap RF m) (t : Str) (H : List Str)
    (h : encode m = .ok t) (hH : encodeHitObjects m = .ok (unlines (str "[HitObjects]" :: H)))
    (sH : RtFile.ListBlockShape H) :
    ∃ cp T, collectSamples m = .ok cp ∧ T = (mapEntries m cp).map Entry.line ∧
      encodeTimingPoints m = .ok (unlines (str "[TimingPoints]" :: T)) ∧ RtFile.ListBlockShape T ∧
      t = unlines (RtFile.fileLines m.formatVersion (RtGeneral.generalLines m.general (RtGeneral.sampleSetOf m.controlPoints))
        (RtEditor.editorLines m.editor) (RtMetadata.metadataLines m.metadata) (RtDifficulty.difficultyLines m.difficulty)
        (RtEvents.eventLines m.events) T (RtColours.colourLines m.colors) H) ∧
      ∃ st : BeatmapState F P, decodeBytes beatmapDecoder (utf8Encode t) = .ok st ∧
        RtFile.recView st = RtFile.preservedRecords m ∧
        st.hitObjects.timingPoints = C12.runStrs { (TimingPointsState.create : TimingPointsState F P) with
          general := RtGeneral.preservedGeneral m.general (RtGeneral.sampleSetOf m.controlPoints) } (T.map trimEnd) ∧
        ∀ s0 : TimingPointsState F P,
          Accepts (fun s l => ((parseTimingPoints s l).2, (parseTimingPoints s l).1.isOk)) s0 (T.map trimEnd) := by
  obtain ⟨timing, objects, htim, _, _⟩ := encode_shape m t h
  obtain ⟨cp, hc, ht, hall⟩ := timing_block_spec LF m hmt timing htim
  have sT : RtFile.ListBlockShape ((mapEntries m cp).map Entry.line) := by
    intro l hl
    obtain ⟨e, he, rfl⟩ := List.mem_map.mp hl
    exact ⟨(hall e he).2.1, (hall e he).2.2.1⟩
  have hacc : ∀ s0 : TimingPointsState F P,
      Accepts (fun s l => ((parseTimingPoints s l).2, (parseTimingPoints s l).1.isOk)) s0
        (((mapEntries m cp).map Entry.line).map trimEnd) := by
    intro s0
    apply accepts_of_forall
    intro l hl s
    simp only [List.map_map, List.mem_map, Function.comp] at hl
    obtain ⟨e, he, rfl⟩ := hl
    show (parseTimingPoints s (trimEnd e.line)).1.isOk = true
    rw [(hall e he).2.2.2 s]
    rfl
  rw [ht] at htim
  obtain ⟨st, hst, hv, htp⟩ := file_timing_state LF LP LI m hm t _ H h htim hH sT sH
  exact ⟨cp, _, hc, rfl, htim, sT, RtFile.encode_eq_unlines m t _ H h htim hH, st, hst, hv, htp, hacc⟩

end

/-! ### non-vacuity (toy codec): a mania map with two timing points, a difficulty point, two effect points (scroll speeds
2 and 4, kiai), a sample point and one object whose sample is collected -/

def sampleCp : ControlPoints ZC :=
  { timingPoints := [⟨⟨0⟩, ⟨500⟩, false, ⟨4⟩⟩, ⟨⟨1000⟩, ⟨400⟩, true, ⟨3⟩⟩],
    difficultyPoints := [⟨⟨500⟩, ⟨2⟩, true⟩],
    effectPoints := [⟨⟨500⟩, true, ⟨2⟩⟩, ⟨⟨1500⟩, false, ⟨4⟩⟩],
    samplePoints := [⟨⟨0⟩, .soft, 70, 2⟩] }

def sampleMap : Beatmap ZC ZC :=
  { formatVersion := 14, general := RtGeneral.sample, editor := RtEditor.sample, metadata := RtMetadata.sample,
    difficulty := RtDifficulty.sample, events := RtEvents.sample, controlPoints := sampleCp, colors := RtColours.sample,
    hitObjects := [RtObjects.sampleCircleObj] }

/-- the collection after `collect_samples`: the circle's sample became a sample point at its start time. -/
def sampleCollected : ControlPoints ZC :=
  { sampleCp with samplePoints := [⟨⟨0⟩, .soft, 70, 2⟩, ⟨⟨1000⟩, .normal, 0, 0⟩] }

theorem sample_collect : collectSamples sampleMap = .ok sampleCollected := by
  simp [collectSamples, collectAll, collectObject, sampleMap, RtObjects.sampleCircleObj, bind, Except.bind, pure,
    Except.pure, collectSample, RtObjects.sampleSamples]
  rfl

theorem sample_groups : timingGroups sampleCollected =
    [⟨⟨0⟩, some ⟨⟨0⟩, ⟨500⟩, false, ⟨4⟩⟩⟩, ⟨⟨500⟩, none⟩, ⟨⟨1000⟩, some ⟨⟨1000⟩, ⟨400⟩, true, ⟨3⟩⟩⟩, ⟨⟨1500⟩, none⟩] := by
  unfold timingGroups
  rw [List.mergeSort_of_pairwise (by decide)]
  rfl

/-- the lines of the sample block: the inherited line of the first group is suppressed as redundant. -/
theorem sample_lines : (mapEntries sampleMap sampleCollected).map Entry.line =
    [str "0,500,4,2,2,70,1,0", str "500,-50,4,2,2,70,0,1", str "1000,400,3,1,0,0,1,9", str "1000,-50,3,1,0,0,0,9",
      str "1500,-25,3,1,0,0,0,8"] := by
  unfold mapEntries
  rw [sample_groups]
  decide

instance (b : ZC) : Decidable (BeatLimit b) := by unfold BeatLimit; infer_instance
instance (v : ZC) : Decidable (SvOk ZC.Rep v) := by unfold SvOk; infer_instance

theorem sample_timing_rep : RepTimingMap ZC.Rep sampleMap where
  sig := by decide
  sv := by decide
  timing := by decide
  difficulty := by decide
  effect := by decide
  samples := by
    intro cp hc
    rw [sample_collect] at hc
    cases hc
    decide

theorem sample_records_rep : RtFile.RepRecords ZC.Rep ZC.Rep sampleMap where
  version := by decide
  general := RtGeneral.sample_rep
  editor := RtEditor.sample_rep
  metadata := by
    refine ⟨?_, ?_, ?_, ?_, ?_, ?_, ?_, ?_, ?_, ?_⟩ <;> first | decide | (constructor <;> decide)
  difficulty := RtDifficulty.sample_rep
  events := RtEvents.sample_rep
  colors := by
    refine ⟨by decide, ?_, by decide⟩
    intro x hx
    simp only [sampleMap, RtColours.sample, List.mem_cons, List.not_mem_nil, or_false] at hx
    rcases hx with rfl | rfl | rfl <;> exact ⟨by decide, by decide, by decide, by decide, by decide, by decide⟩

theorem sample_timing_text : encodeTimingPoints sampleMap = .ok (unlines (str "[TimingPoints]" ::
    [str "0,500,4,2,2,70,1,0", str "500,-50,4,2,2,70,0,1", str "1000,400,3,1,0,0,1,9", str "1000,-50,3,1,0,0,0,9",
      str "1500,-25,3,1,0,0,0,8"])) := by
  cases h : encodeTimingPoints sampleMap with
  | error e =>
    unfold encodeTimingPoints at h
    simp [sample_collect, bind, Except.bind, pure, Except.pure] at h
  | ok t =>
    obtain ⟨cp, hc, ht⟩ := encodeTimingPoints_eq sampleMap t h
    rw [sample_collect] at hc
    cases hc
    rw [ht]
    exact congrArg (fun x => Except.ok (unlines (str "[TimingPoints]" :: x))) sample_lines

/-- the hypotheses of `timing_lines_accepted` hold of the sample map: all five lines are accepted in any state. -/
example := timing_lines_accepted ZC.laws sampleMap sample_timing_rep _ sample_timing_text

theorem sample_objects_text :
    encodeHitObjects sampleMap = .ok (unlines [str "[HitObjects]", str "256,-192,1000,53,2,2:3:0:0:"]) := by rfl

theorem sample_objects_shape : RtFile.ListBlockShape [str "256,-192,1000,53,2,2:3:0:0:"] := by
  intro l hl
  rw [List.mem_singleton] at hl
  subst hl
  exact ⟨by decide, recordLine_of_alnum '2' _ (by decide)⟩

/-- the sample map encodes … -/
theorem sample_encodes : ∃ t, encode sampleMap = .ok t := by
  unfold encode
  rw [sample_timing_text, sample_objects_text]
  exact ⟨_, rfl⟩

/-- … and every hypothesis of the file-level theorem holds of it. -/
example (t : Str) (h : encode sampleMap = .ok t) :=
  record_and_timing_blocks_accepted ZC.laws ZC.laws ZC.intPrintLaw sampleMap sample_records_rep sample_timing_rep t _ h
    sample_objects_text sample_objects_shape

/-- the remainder of C04, not yet a theorem: for a decoded map (and lawful codecs) the `[HitObjects]` block — slider lines
included — consists of LF-terminated record lines, each accepted by `parse_hit_objects` in the state the preceding lines
leave; and a decoded map whose collected sample points sit at representable times satisfies `RepTimingMap`. -/
def hitobject_block_lines_accepted_statement : Prop :=
  ∀ (F P : Type) [Scalar F] [Scalar P] [Cvt P F] [Trig F] [Trig P] (RF : F → Prop) (RP : P → Prop),
    CodecLaws F RF → CodecLaws P RP →
    ∀ (x : List Str) (st : BeatmapState F P) (m : Beatmap F P) (objects : Str),
      frame beatmapDecoder x = st → st.finish = .ok m → encodeHitObjects m = .ok objects →
      ∃ H, objects = unlines (str "[HitObjects]" :: H) ∧ RtFile.ListBlockShape H ∧
        Accepts (parseHitObjectLine m.general.mode) ({} : HOCore F P) (H.map trimEnd)

end Rosu.C04
