/-
  Props/C20.lean — slider event stream (DESIGN.md 5.20). The model is Model/SliderEvents.lean.

  Part 1 (structural): for every `[Scalar F]`, no arithmetic law — these hold for the IEEE instance.
  Part 2 (law-dependent): under `OrderedFieldLaws F` (explicit hypothesis, instantiated for `Rat`
  in Lemmas/RatScalar.lean).
-/
import RosuModel.Model.SliderEvents
import RosuModel.Lemmas.EventLaws
namespace Rosu.C20
open Rosu Rosu.SliderEvents

variable {F : Type} [Scalar F]

/-! ## Part 1 — structural -/

/-! ### the tick loop pushes the tick distances, last first -/

theorem tickLoop_eq (p : Params F) (span : Int) (rev : Bool) (sst : F) :
    ∀ (fuel : Nat) (d : F) (buf : List (SliderEvent F)),
      tickLoop p span rev sst fuel d buf =
        (tickDists p fuel d).map (fun ds => (ds.map (mkTick p span rev sst)).reverse ++ buf)
  | 0, _, _ => rfl
  | fuel + 1, d, buf => by
    simp only [tickLoop, tickDists]
    split
    · split
      · simp
      · rw [tickLoop_eq p span rev sst fuel]
        cases tickDists p fuel (d + p.tickDist) <;> simp
    · simp

/-- `generate_ticks` on an empty buffer leaves exactly the events of the span, next-to-pop first,
i.e. in chronological order. -/
theorem generateTicksBuf_nil (fuel : Nat) (p : Params F) (span : Int) :
    generateTicksBuf fuel p span [] = (spanTickDists p fuel).map (fun ds => spanEvents p ds span) := by
  unfold generateTicksBuf spanTickDists spanEvents tickEvent repeatEvent
  by_cases hg : Scalar.gt p.tickDist (0 : F) = true
  · simp only [hg, if_true, tickLoop_eq]
    cases tickDists p fuel p.tickDist with
    | none => simp
    | some ds =>
      by_cases hr : isReversed span = true <;> by_cases hw : span < p.spanCount - 1 <;>
        simp [hr, hw, List.map_reverse]
  · simp only [hg, Bool.false_eq_true, if_false]
    by_cases hr : isReversed span = true <;> by_cases hw : span < p.spanCount - 1 <;>
      simp [hr, hw]

/-! ### one call of `next` -/

theorem next_head (fuel : Nat) (p : Params F) (buf : List (SliderEvent F)) :
    Iter.next fuel ⟨p, buf, .head⟩ = some (some (headEvent p), ⟨p, buf, .ticks 0⟩) := rfl

/-- a pending event is popped. -/
theorem next_pop (fuel : Nat) (p : Params F) (ev : SliderEvent F) (rest : List (SliderEvent F)) (s : Int) :
    Iter.next fuel ⟨p, ev :: rest, .ticks s⟩ = some (some ev, ⟨p, rest, .ticks s⟩) := by
  simp [Iter.next, loopBound, nextLoop]

/-- empty buffer, spans left: generate span `s`, advance, and go round the `loop` again. -/
theorem next_generate (fuel : Nat) (p : Params F) (s : Int) (h : s < p.spanCount) :
    Iter.next fuel ⟨p, [], .ticks s⟩ =
      match spanTickDists p fuel with
      | none => none
      | some ds => Iter.next fuel ⟨p, spanEvents p ds s, .ticks (s + 1)⟩ := by
  have hb : (p.spanCount - s).toNat + 3 = ((p.spanCount - (s + 1)).toNat + 3) + 1 := by omega
  have hne : ¬ s = p.spanCount := by omega
  simp only [Iter.next, loopBound, hb]
  rw [nextLoop]
  simp only [hne, if_false, generateTicks, generateTicksBuf_nil]
  cases spanTickDists p fuel <;> rfl

/-- empty buffer, no span left: the last tick. -/
theorem next_lastTick (fuel : Nat) (p : Params F) :
    Iter.next fuel ⟨p, [], .ticks p.spanCount⟩ = some (some (lastTickEvent p), ⟨p, [], .tail⟩) := by
  simp [Iter.next, loopBound, nextLoop]

theorem next_tail (fuel : Nat) (p : Params F) (buf : List (SliderEvent F)) :
    Iter.next fuel ⟨p, buf, .tail⟩ = some (some (tailEvent p), ⟨p, buf, .done⟩) := rfl

theorem next_done (fuel : Nat) (p : Params F) (buf : List (SliderEvent F)) :
    Iter.next fuel ⟨p, buf, .done⟩ = some (none, ⟨p, buf, .done⟩) := rfl

/-! ### `collect` -/

theorem collect_succ (fuel n : Nat) (it : Iter F) :
    collect fuel (n + 1) it =
      match it.next fuel with
      | none => none
      | some (none, _) => some []
      | some (some ev, it') => (collect fuel n it').map (ev :: ·) := rfl

theorem collect_congr (fuel n : Nat) {it it' : Iter F} (h : it.next fuel = it'.next fuel) :
    collect fuel (n + 1) it = collect fuel (n + 1) it' := by
  simp only [collect_succ, h]

/-- pending events come out first, in buffer order. -/
theorem collect_drain (fuel : Nat) (p : Params F) (s : Int) (rest : List (SliderEvent F)) :
    ∀ (evs : List (SliderEvent F)) (m : Nat),
      collect fuel (m + evs.length) ⟨p, evs ++ rest, .ticks s⟩ =
        (collect fuel m ⟨p, rest, .ticks s⟩).map (evs ++ ·)
  | [], m => by simp
  | ev :: evs, m => by
    have : m + (ev :: evs).length = (m + evs.length) + 1 := by simp; omega
    rw [this, List.cons_append, collect_succ, next_pop]
    simp only [collect_drain fuel p s rest evs m, Option.map_map]
    rfl

/-- from an empty buffer in state `Ticks{s}` the remaining `k = span_count − s` spans come out one
after the other, then the last tick and the tail. -/
theorem collect_spans (fuel : Nat) (p : Params F) (ds : List F)
    (hds : spanTickDists p fuel = some ds) :
    ∀ (k : Nat) (s : Int), s + k = p.spanCount → ∀ n : Nat, (spansFrom p ds s k).length + 3 ≤ n →
      collect fuel n ⟨p, [], .ticks s⟩ =
        some (spansFrom p ds s k ++ [lastTickEvent p, tailEvent p])
  | 0, s, hs, n, hn => by
    have hs' : s = p.spanCount := by omega
    subst hs'
    obtain ⟨n', rfl⟩ : ∃ n', n = n' + 3 := ⟨n - 3, by simp [spansFrom] at hn; omega⟩
    rw [collect_succ, next_lastTick]
    simp only []
    rw [collect_succ, next_tail]
    simp only []
    rw [collect_succ, next_done]
    simp [spansFrom]
  | k + 1, s, hs, n, hn => by
    have hlt : s < p.spanCount := by omega
    simp only [spansFrom, List.length_append] at hn
    obtain ⟨m, rfl⟩ : ∃ m, n = (m + (spanEvents p ds s).length) := ⟨n - (spanEvents p ds s).length, by omega⟩
    obtain ⟨m', hm'⟩ : ∃ m', m + (spanEvents p ds s).length = m' + 1 := ⟨m + (spanEvents p ds s).length - 1, by omega⟩
    have hnext := next_generate fuel p s hlt
    rw [hds] at hnext
    simp only [] at hnext
    have hc := collect_congr fuel m' hnext
    rw [← hm'] at hc
    rw [hc]
    have hd := collect_drain fuel p (s + 1) [] (spanEvents p ds s) m
    rw [List.append_nil] at hd
    rw [hd, collect_spans fuel p ds hds k (s + 1) (by omega) m (by omega)]
    simp [spansFrom]

/-! ### the stream -/

theorem new_spanCount {start dur vel td total : F} {n : Int} {p : Params F}
    (hp : Params.new start dur vel td total n = some p) : p.spanCount = n := by
  simp only [Params.new] at hp
  split at hp
  · cases hp; rfl
  · cases hp

/-- **stream_shape.** For a non-negative span count (in particular ≥ 1), once the fuel suffices for the
tick distances `ds` of a span, the lazy state machine with its reversed stack yields exactly the eager
list `head :: spans ++ [lastTick, tail]`, whatever the buffer contained. -/
theorem stream_shape (start dur vel td total : F) (n : Int) (buf : List (SliderEvent F))
    (fuel N : Nat) (it : Iter F) (ds : List F)
    (hnew : Iter.new start dur vel td total n buf = some it)
    (hn : 0 ≤ n)
    (hfuel : spanTickDists it.toParams fuel = some ds)
    (hN : (eventsOf it.toParams ds).length < N) :
    collect fuel N it = some (eventsOf it.toParams ds) := by
  unfold Iter.new at hnew
  cases hp : Params.new start dur vel td total n with
  | none => simp [hp] at hnew
  | some p =>
    have hpn : p.spanCount = n := new_spanCount hp
    simp only [hp, Option.map_some, Option.some.injEq] at hnew
    subst hnew
    simp only [eventsOf, List.length_cons, List.length_append, List.length_nil] at hN
    obtain ⟨N', rfl⟩ : ∃ N', N = N' + 1 := ⟨N - 1, by omega⟩
    rw [collect_succ, next_head]
    simp only []
    rw [collect_spans fuel p ds hfuel p.spanCount.toNat 0 (by omega) N' (by omega)]
    simp [eventsOf]

/-- the same, against `eventsSpec` (both sides `none` exactly when the fuel is exhausted, see
`stream_fuel_exhausted`). -/
theorem stream_shape_spec (start dur vel td total : F) (n : Int) (buf : List (SliderEvent F))
    (fuel N : Nat) (it : Iter F) (evs : List (SliderEvent F))
    (hnew : Iter.new start dur vel td total n buf = some it)
    (hn : 1 ≤ n)
    (hspec : eventsSpec it.toParams fuel = some evs)
    (hN : evs.length < N) :
    collect fuel N it = eventsSpec it.toParams fuel := by
  rw [hspec]
  unfold eventsSpec at hspec
  cases hds : spanTickDists it.toParams fuel with
  | none => simp [hds] at hspec
  | some ds =>
    simp only [hds, Option.map_some, Option.some.injEq] at hspec
    subst hspec
    exact stream_shape start dur vel td total n buf fuel N it ds hnew (by omega) hds hN

theorem new_eq {start dur vel td total : F} {n : Int} {buf : List (SliderEvent F)} {it : Iter F}
    (hnew : Iter.new start dur vel td total n buf = some it) : it = ⟨it.toParams, [], .head⟩ := by
  unfold Iter.new at hnew
  cases hp : Params.new start dur vel td total n with
  | none => simp [hp] at hnew
  | some p =>
    simp only [hp, Option.map_some, Option.some.injEq] at hnew
    subst hnew; rfl

/-- with too little fuel for the tick loop the model says so (`none`) instead of inventing a stream:
the driver's `fuel-exhausted`. -/
theorem stream_fuel_exhausted (start dur vel td total : F) (n : Int) (buf : List (SliderEvent F))
    (fuel N : Nat) (it : Iter F)
    (hnew : Iter.new start dur vel td total n buf = some it)
    (hn : 1 ≤ n)
    (hfuel : spanTickDists it.toParams fuel = none) :
    collect fuel N it = none := by
  have hpn : it.spanCount = n := by
    unfold Iter.new at hnew
    cases hp : Params.new start dur vel td total n with
    | none => simp [hp] at hnew
    | some p =>
      simp only [hp, Option.map_some, Option.some.injEq] at hnew
      subst hnew; exact new_spanCount hp
  rw [new_eq hnew]
  cases N with
  | zero => rfl
  | succ N =>
    rw [collect_succ, next_head]
    simp only []
    cases N with
    | zero => rfl
    | succ N =>
      rw [collect_succ, next_generate fuel it.toParams 0 (by omega), hfuel]
      rfl

/-! ### event count -/

theorem spanEvents_length (p : Params F) (ds : List F) (s : Int) :
    (spanEvents p ds s).length = ds.length + (if s < p.spanCount - 1 then 1 else 0) := by
  unfold spanEvents
  by_cases hr : isReversed s = true <;> by_cases hw : s < p.spanCount - 1 <;> simp [hr, hw]

theorem spansFrom_length (p : Params F) (ds : List F) :
    ∀ (k : Nat) (s : Int), s + (k + 1 : Nat) = p.spanCount →
      (spansFrom p ds s (k + 1)).length + 1 = (k + 1) * (ds.length + 1)
  | 0, s, hs => by
    have : ¬ s < p.spanCount - 1 := by omega
    simp [spansFrom, spanEvents_length, this]
  | k + 1, s, hs => by
    have hw : s < p.spanCount - 1 := by omega
    have ih := spansFrom_length p ds k (s + 1) (by omega)
    rw [spansFrom, List.length_append, spanEvents_length]
    simp only [hw, if_true]
    rw [Nat.succ_mul (k + 1)]
    omega

/-- **event count**: one head, per span its ticks, a repeat between consecutive spans, last tick, tail. -/
theorem event_count (p : Params F) (ds : List F) (hn : 1 ≤ p.spanCount) :
    (eventsOf p ds).length = p.spanCount.toNat * (ds.length + 1) + 2 := by
  obtain ⟨k, hk⟩ : ∃ k : Nat, p.spanCount.toNat = k + 1 := ⟨p.spanCount.toNat - 1, by omega⟩
  have h := spansFrom_length p ds k 0 (by omega)
  simp only [eventsOf, List.length_cons, List.length_append, List.length_nil, hk]
  omega

/-! ### the buffer does not matter -/

/-- **buffer_irrelevant** (construction): `new` clears the buffer, so the iterator — and with it every
event it will ever yield — is the same for any previous contents. -/
theorem buffer_irrelevant (start dur vel td total : F) (n : Int) (buf buf' : List (SliderEvent F)) :
    Iter.new start dur vel td total n buf = Iter.new start dur vel td total n buf' := rfl

theorem runUse_buffer (fuel : Nat) (u : Use F) (buf : List (SliderEvent F)) :
    (runUse fuel u buf).1 = (runUse fuel u []).1 := by
  unfold runUse
  rw [buffer_irrelevant u.startTime u.spanDuration u.velocity u.tickDist u.totalDist u.spanCount buf []]
  cases Iter.new u.startTime u.spanDuration u.velocity u.tickDist u.totalDist u.spanCount [] <;> rfl

/-- **buffer_irrelevant** (histories): a sequence of iterators run one after the other on one shared
buffer, each consumed completely or abandoned after any number of events (leaving its pending events
in the buffer), shows every caller exactly what it would have seen with a fresh empty buffer. -/
theorem runSeq_buffer_irrelevant (fuel : Nat) :
    ∀ (us : List (Use F)) (buf : List (SliderEvent F)),
      (runSeq fuel us buf).1 = us.map (fun u => (runUse fuel u []).1)
  | [], _ => rfl
  | u :: us, buf => by
    simp only [runSeq, List.map_cons]
    rw [runSeq_buffer_irrelevant fuel us (runUse fuel u buf).2, runUse_buffer fuel u buf]

/-- the tail-recursive collector the driver runs is `collect`. -/
theorem collectAcc_eq_collect (fuel : Nat) :
    ∀ (n : Nat) (it : Iter F) (acc : List (SliderEvent F)),
      (collectAcc fuel n it acc).map (·.1) = (collect fuel n it).map (acc.reverse ++ ·)
  | 0, _, _ => rfl
  | n + 1, it, acc => by
    rw [collectAcc, collect_succ]
    cases h : it.next fuel with
    | none => rfl
    | some r =>
      obtain ⟨o, it'⟩ := r
      cases o with
      | none => simp
      | some ev =>
        simp only []
        rw [collectAcc_eq_collect fuel n it' (ev :: acc)]
        cases collect fuel n it' <;> simp

/-- consuming only `k` events (`Iterator::take(k)`, or dropping the iterator half-way) yields the first `k`
events of the full stream. -/
theorem takeAcc_prefix (fuel : Nat) :
    ∀ (k : Nat) (it : Iter F) (acc evs : List (SliderEvent F)) (N : Nat),
      collect fuel N it = some evs →
      (takeAcc fuel k it acc).map (·.1) = some (acc.reverse ++ evs.take k)
  | 0, _, _, _, _, _ => by simp [takeAcc]
  | k + 1, it, acc, evs, 0, h => by simp [collect] at h
  | k + 1, it, acc, evs, N + 1, h => by
    rw [collect_succ] at h
    rw [takeAcc]
    cases hn : it.next fuel with
    | none => simp [hn] at h
    | some r =>
      obtain ⟨o, it'⟩ := r
      cases o with
      | none =>
        simp only [hn, Option.some.injEq] at h
        subst h; simp
      | some ev =>
        simp only [hn] at h
        cases hc : collect fuel N it' with
        | none => simp [hc] at h
        | some evs' =>
          simp only [hc, Option.map_some, Option.some.injEq] at h
          subst h
          simp only []
          rw [takeAcc_prefix fuel k it' (ev :: acc) evs' N hc]
          simp

/-! ### spans as a concatenation, repeats -/

/-- `spansFrom` is the concatenation of the per-span lists. -/
theorem spansFrom_eq_flatMap (p : Params F) (ds : List F) :
    ∀ (k : Nat) (s : Int),
      spansFrom p ds s k = (List.range k).flatMap (fun i => spanEvents p ds (s + (i : Nat)))
  | 0, _ => rfl
  | k + 1, s => by
    rw [spansFrom, spansFrom_eq_flatMap p ds k (s + 1), List.range_succ_eq_map, List.flatMap_cons,
      List.flatMap_map]
    simp only [Int.natCast_zero, Int.add_zero, List.append_cancel_left_eq]
    congr 1
    funext i
    simp only [Nat.succ_eq_add_one, Int.natCast_add, Int.natCast_one]
    congr 1
    omega

/-- the stream in the form of the property text:
`head :: concat (spans.map (ticks ++ repeat?)) ++ [lastTick, tail]`. -/
theorem eventsOf_eq_concat (p : Params F) (ds : List F) :
    eventsOf p ds =
      headEvent p :: ((List.range p.spanCount.toNat).flatMap (fun i => spanEvents p ds (i : Nat)) ++
        [lastTickEvent p, tailEvent p]) := by
  simp [eventsOf, spansFrom_eq_flatMap]

theorem flatMap_if_singleton {α β : Type} (l : List α) (c : α → Prop) [DecidablePred c] (f : α → β)
    (h : ∀ a ∈ l, c a) : l.flatMap (fun a => if c a then [f a] else []) = l.map f := by
  induction l with
  | nil => rfl
  | cons a l ih =>
    have ha : c a := h a (by simp)
    simp only [List.flatMap_cons, List.map_cons, ha, if_true, List.singleton_append]
    rw [ih (fun b hb => h b (by simp [hb]))]

/-- with no tick distances, span `s` is just its repeat (if it has one). -/
theorem spanEvents_nil (p : Params F) (s : Int) :
    spanEvents p [] s = if s < p.spanCount - 1 then [repeatEvent p s] else [] := by
  unfold spanEvents
  by_cases hr : isReversed s = true <;> simp [hr]

theorem spanTickDists_of_not_pos (p : Params F) (fuel : Nat) (h : Scalar.lt (0 : F) p.tickDist = false) :
    spanTickDists p fuel = some [] := by
  simp [spanTickDists, Scalar.gt, h]

/-- **repeats_all_present**: when the `tick_dist > 0.0` test fails (tick distance zero after the clamp,
negative before it, or NaN) no fuel is needed, there is no tick, and the stream is the head, the
`span_count − 1` repeats in order, the last tick and the tail. -/
theorem repeats_all_present (start dur vel td total : F) (n : Int) (buf : List (SliderEvent F))
    (fuel N : Nat) (it : Iter F)
    (hnew : Iter.new start dur vel td total n buf = some it)
    (hn : 1 ≤ n)
    (htd : Scalar.lt (0 : F) it.tickDist = false)
    (hN : n.toNat + 2 < N) :
    collect fuel N it =
      some (headEvent it.toParams ::
        ((List.range (n.toNat - 1)).map (fun i => repeatEvent it.toParams (i : Nat)) ++
          [lastTickEvent it.toParams, tailEvent it.toParams])) := by
  have hpn : it.spanCount = n := by
    unfold Iter.new at hnew
    cases hp : Params.new start dur vel td total n with
    | none => simp [hp] at hnew
    | some p =>
      simp only [hp, Option.map_some, Option.some.injEq] at hnew
      subst hnew; exact new_spanCount hp
  have hds := spanTickDists_of_not_pos it.toParams fuel htd
  have hcount := event_count it.toParams [] (by omega)
  rw [stream_shape start dur vel td total n buf fuel N it [] hnew (by omega) hds
    (by rw [hcount, hpn]; simp; omega), eventsOf_eq_concat]
  congr 2
  obtain ⟨k, hk⟩ : ∃ k : Nat, n.toNat = k + 1 := ⟨n.toNat - 1, by omega⟩
  have hpn' : it.toParams.spanCount = n := hpn
  rw [hpn', hk, List.range_succ, List.flatMap_append]
  simp only [spanEvents_nil, hpn', List.flatMap_cons, List.flatMap_nil, List.append_nil]
  have hlast : ¬ ((k : Nat) : Int) < n - 1 := by omega
  simp only [hlast, if_false, List.append_nil, Nat.add_sub_cancel]
  congr 1
  apply flatMap_if_singleton
  intro i hi
  have := List.mem_range.mp hi
  omega

/-! ### closed forms of head, repeat, last tick, tail -/

/-- **head_form**: the stream starts with the head at the start time, progress 0. -/
theorem head_form (p : Params F) (ds : List F) :
    (eventsOf p ds).head? =
      some { kind := .head, spanIdx := 0, spanStartTime := p.startTime, time := p.startTime,
             pathProgress := (0 : F) } := rfl

/-- **repeat_form**: every span `s` with `0 ≤ s < span_count − 1` contributes, after its ticks, the repeat
at the end of the span, `start + s·dur + dur`, with progress 1 after an even span and 0 after an odd one. -/
theorem repeat_form (p : Params F) (ds : List F) (s : Nat) (hs : (s : Int) < p.spanCount - 1) :
    (∃ pre post, eventsOf p ds = pre ++ spanEvents p ds s ++ post) ∧
    (∃ ticks, spanEvents p ds s = ticks ++ [repeatEvent p s] ∧ ∀ e ∈ ticks, e.kind = .tick) ∧
    repeatEvent p (s : Nat) =
      { kind := .repeatPt, spanIdx := s,
        spanStartTime := p.startTime + Scalar.ofInt s * p.spanDuration,
        time := (p.startTime + Scalar.ofInt s * p.spanDuration) + p.spanDuration,
        pathProgress := Scalar.ofInt (Int.tmod ((s : Int) + 1) 2) } := by
  refine ⟨?_, ?_, rfl⟩
  · have hlt : s < p.spanCount.toNat := by omega
    obtain ⟨m, hm⟩ : ∃ m, p.spanCount.toNat = s + (m + 1) := ⟨p.spanCount.toNat - s - 1, by omega⟩
    rw [eventsOf_eq_concat, hm, List.range_add, List.flatMap_append, List.range_succ_eq_map,
      List.map_cons, List.flatMap_cons]
    refine ⟨headEvent p :: (List.range s).flatMap (fun i => spanEvents p ds (i : Nat)), ?_, ?_⟩
    rotate_left
    · simp only [Nat.add_zero, List.cons_append, List.append_assoc]
      rfl
  · refine ⟨(if isReversed s then ds.reverse else ds).map (tickEvent p s), ?_, ?_⟩
    · simp [spanEvents, hs]
    · intro e he
      obtain ⟨d, _, rfl⟩ := List.mem_map.mp he
      rfl

/-- **last_tick_form**: the last-but-one event is the legacy last tick of the final span, at the later of
the half-way time and 36 ms before the end; its progress is its time within the final span, mirrored when
the span count is even. -/
theorem last_tick_form (p : Params F) (ds : List F) :
    (eventsOf p ds).dropLast.getLast? =
      some (
        let finalStart := p.startTime + Scalar.ofInt (p.spanCount - 1) * p.spanDuration
        let time := Scalar.max (p.startTime + Scalar.ofInt p.spanCount * p.spanDuration / (2 : F))
                      ((finalStart + p.spanDuration) + -(36 : F))
        let inSpan := (time - finalStart) / p.spanDuration
        { kind := .lastTick, spanIdx := p.spanCount - 1, spanStartTime := finalStart, time := time,
          pathProgress := if Int.tmod p.spanCount 2 == 0 then (1 : F) - inSpan else inSpan }) := by
  have : eventsOf p ds = (headEvent p :: spansFrom p ds 0 p.spanCount.toNat ++ [lastTickEvent p]) ++ [tailEvent p] := by
    simp [eventsOf]
  rw [this, List.dropLast_concat, List.getLast?_concat]
  rfl

/-- **tail_form**: the stream ends with the tail at `start + span_count·dur`, at the far end of the path
iff the span count is odd. -/
theorem tail_form (p : Params F) (ds : List F) :
    (eventsOf p ds).getLast? =
      some { kind := .tail, spanIdx := p.spanCount - 1,
             spanStartTime := p.startTime + Scalar.ofInt (p.spanCount - 1) * p.spanDuration,
             time := p.startTime + Scalar.ofInt p.spanCount * p.spanDuration,
             pathProgress := Scalar.ofInt (Int.tmod p.spanCount 2) } := by
  have : eventsOf p ds = (headEvent p :: spansFrom p ds 0 p.spanCount.toNat ++ [lastTickEvent p]) ++ [tailEvent p] := by
    simp [eventsOf]
  rw [this, List.getLast?_concat]
  rfl

/-! ### ticks -/

/-- the tick events of a span. -/
def spanTicks (p : Params F) (ds : List F) (s : Int) : List (SliderEvent F) :=
  (spanEvents p ds s).filter (fun e => e.kind == .tick)

theorem spanTicks_eq (p : Params F) (ds : List F) (s : Int) :
    spanTicks p ds s = (if isReversed s then ds.reverse else ds).map (tickEvent p s) := by
  unfold spanTicks spanEvents
  rw [List.filter_append]
  have h1 : ∀ l : List F, (l.map (tickEvent p s)).filter (fun e => e.kind == .tick) = l.map (tickEvent p s) := by
    intro l
    apply List.filter_eq_self.mpr
    intro e he
    obtain ⟨d, _, rfl⟩ := List.mem_map.mp he
    rfl
  rw [h1]
  by_cases hw : s < p.spanCount - 1 <;> simp [hw, repeatEvent, newRepeatPoint]

/-- a list read in the direction of the path: reversed on odd spans. -/
def pathOrder {α : Type} (s : Int) (l : List α) : List α := if isReversed s then l.reverse else l

/-- **same_ticks_every_span**: read along the path, the tick progress values of any span are the same list
`ds.map (· / len)` — identical placement on every span (structural: the same arithmetic loop runs for each span). -/
theorem same_ticks_every_span (p : Params F) (ds : List F) (s : Int) :
    pathOrder s ((spanTicks p ds s).map (·.pathProgress)) = ds.map (· / p.len) := by
  rw [spanTicks_eq]
  unfold pathOrder
  by_cases hr : isReversed s = true <;>
    simp [hr, tickEvent, mkTick, List.map_reverse, Function.comp_def]

/-- **ticks_mirrored_on_odd_spans**: a tick's time is its span's start plus (progress × span duration) on even
spans and plus ((1 − progress) × span duration) on odd spans; it carries the index and start time of its span. -/
theorem ticks_mirrored_on_odd_spans (p : Params F) (ds : List F) (s : Int) (e : SliderEvent F)
    (he : e ∈ spanTicks p ds s) :
    e.spanIdx = s ∧ e.spanStartTime = p.startTime + Scalar.ofInt s * p.spanDuration ∧
    e.time = e.spanStartTime +
      (if Int.tmod s 2 == 1 then (1 : F) - e.pathProgress else e.pathProgress) * p.spanDuration := by
  rw [spanTicks_eq] at he
  obtain ⟨d, _, rfl⟩ := List.mem_map.mp he
  exact ⟨rfl, rfl, rfl⟩

theorem tickDists_guard (p : Params F) :
    ∀ (fuel : Nat) (d : F) (ds : List F), tickDists p fuel d = some ds →
      ∀ x ∈ ds, Scalar.le x p.len = true ∧ Scalar.ge x (p.len - p.minDistFromEnd) = false
  | 0, _, _, h => by simp [tickDists] at h
  | fuel + 1, d, ds, h => by
    simp only [tickDists] at h
    split at h
    · rename_i hle
      split at h
      · cases h; simp
      · rename_i hge
        cases hrec : tickDists p fuel (d + p.tickDist) with
        | none => simp [hrec] at h
        | some ds' =>
          simp only [hrec, Option.map_some, Option.some.injEq] at h
          subst h
          intro x hx
          rcases List.mem_cons.mp hx with rfl | hx
          · exact ⟨hle, by simpa using hge⟩
          · exact tickDists_guard p fuel _ ds' hrec x hx
    · cases h; simp

/-- **ticks_respect_min_distance** (as the code tests it): every tick distance passed both guards of the loop,
`d <= len` and not `d >= len − 10·velocity`. -/
theorem ticks_respect_min_distance (p : Params F) (fuel : Nat) (ds : List F)
    (h : spanTickDists p fuel = some ds) :
    ∀ d ∈ ds, Scalar.le d p.len = true ∧ Scalar.ge d (p.len - p.minDistFromEnd) = false := by
  unfold spanTickDists at h
  split at h
  · exact tickDists_guard p fuel _ ds h
  · cases h; simp

/-! ## Part 2 — law-dependent (exact arithmetic; see Lemmas/EventLaws.lean) -/

/-- `d`, `d + t`, `(d + t) + t`, …: what the loop variable holds in turn `i` (structural). -/
def iterAdd (t : F) : Nat → F → F
  | 0, d => d
  | i + 1, d => iterAdd t i (d + t)

/-- structural: the `i`-th tick distance is the start value plus `i` additions of `tick_dist`. -/
theorem tickDists_getElem (p : Params F) :
    ∀ (fuel : Nat) (d : F) (ds : List F), tickDists p fuel d = some ds →
      ∀ (i : Nat) (h : i < ds.length), ds[i] = iterAdd p.tickDist i d
  | 0, _, _, h => by simp [tickDists] at h
  | fuel + 1, d, ds, h => by
    simp only [tickDists] at h
    split at h
    · split at h
      · cases h; intro i hi; simp at hi
      · cases hrec : tickDists p fuel (d + p.tickDist) with
        | none => simp [hrec] at h
        | some ds' =>
          simp only [hrec, Option.map_some, Option.some.injEq] at h
          subst h
          intro i hi
          cases i with
          | zero => rfl
          | succ i =>
            simp only [List.getElem_cons_succ, iterAdd]
            exact tickDists_getElem p fuel _ ds' hrec i (by simpa using hi)
    · cases h; intro i hi; simp at hi

theorem iterAdd_multiple (L : OrderedFieldLaws F) (t : F) :
    ∀ (i k : Nat), iterAdd t i (Scalar.ofNat k * t) = Scalar.ofNat (k + i) * t
  | 0, _ => rfl
  | i + 1, k => by
    have hstep : (Scalar.ofNat k * t + t : F) = Scalar.ofNat (k + 1) * t := by
      rw [L.ofNat_succ, L.add_mul, L.one_mul]
    rw [iterAdd, hstep, iterAdd_multiple L t i (k + 1)]
    congr 2
    omega

/-- **ticks_at_multiples** (exact arithmetic): the `i`-th tick distance of a span is `(i+1)·tick_dist`,
hence (by `same_ticks_every_span`) its path progress is `(i+1)·tick_dist / len` on every span. -/
theorem ticks_at_multiples (L : OrderedFieldLaws F) (p : Params F) (fuel : Nat) (ds : List F)
    (h : spanTickDists p fuel = some ds) (i : Nat) (hi : i < ds.length) :
    ds[i] = Scalar.ofNat (i + 1) * p.tickDist ∧
    ∀ s : Int, ∃ hi' : i < (pathOrder s ((spanTicks p ds s).map (·.pathProgress))).length,
      (pathOrder s ((spanTicks p ds s).map (·.pathProgress)))[i] =
        Scalar.ofNat (i + 1) * p.tickDist / p.len := by
  have hd : ds[i] = Scalar.ofNat (i + 1) * p.tickDist := by
    unfold spanTickDists at h
    split at h
    · rw [tickDists_getElem p fuel _ ds h i hi]
      have h1 : Scalar.ofNat 1 * p.tickDist = p.tickDist := L.one_mul _
      have := iterAdd_multiple L p.tickDist i 1
      rw [h1, Nat.add_comm] at this
      exact this
    · cases h; simp at hi
  refine ⟨hd, fun s => ?_⟩
  have hs := same_ticks_every_span p ds s
  refine ⟨by rw [hs]; simpa using hi, ?_⟩
  simp only [hs, List.getElem_map, hd]

/-- **ticks_respect_min_distance_strict** (needs a total order, i.e. no NaN): every tick distance is
strictly less than `len − 10·velocity`. -/
theorem ticks_respect_min_distance_strict (L : OrderedFieldLaws F) (p : Params F) (fuel : Nat)
    (ds : List F) (h : spanTickDists p fuel = some ds) :
    ∀ d ∈ ds, Scalar.lt d (p.len - p.minDistFromEnd) = true := by
  intro d hd
  have := (ticks_respect_min_distance p fuel ds h d hd).2
  exact L.lt_of_not_le _ _ this

theorem tickDists_fuel (L : OrderedFieldLaws F) (p : Params F) (m : Nat)
    (hm : Scalar.lt p.len (Scalar.ofNat m * p.tickDist) = true) :
    ∀ (fuel k : Nat), k + fuel = m + 1 → 1 ≤ fuel →
      ∃ ds, tickDists p fuel (Scalar.ofNat k * p.tickDist) = some ds
  | 0, _, _, h1 => by omega
  | fuel + 1, k, hk, _ => by
    rw [tickDists]
    split
    · rename_i hle
      split
      · exact ⟨[], rfl⟩
      · have hstep : (Scalar.ofNat k * p.tickDist + p.tickDist : F) = Scalar.ofNat (k + 1) * p.tickDist := by
          rw [L.ofNat_succ, L.add_mul, L.one_mul]
        rw [hstep]
        by_cases hf : fuel = 0
        · have : k = m := by omega
          subst this
          rw [L.not_le_of_lt _ _ hm] at hle
          cases hle
        · obtain ⟨ds, hds⟩ := tickDists_fuel L p m hm fuel (k + 1) (by omega) (by omega)
          exact ⟨_, by rw [hds]; rfl⟩
    · exact ⟨[], rfl⟩

/-- **ticks_fuel_suffices** (exact arithmetic): if `len < n·tick_dist` for some `n ≥ 1`, fuel `n` is enough
for the `while` loop — the model then yields a stream (`stream_shape`), never `fuel-exhausted`. -/
theorem ticks_fuel_suffices (L : OrderedFieldLaws F) (p : Params F) (n : Nat) (hn : 1 ≤ n)
    (hlen : Scalar.lt p.len (Scalar.ofNat n * p.tickDist) = true) :
    ∃ ds, spanTickDists p n = some ds := by
  unfold spanTickDists
  split
  · have h1 : p.tickDist = Scalar.ofNat 1 * p.tickDist := (L.one_mul _).symm
    have := tickDists_fuel L p n hlen n 1 (by omega) hn
    rw [← h1] at this
    exact this
  · exact ⟨[], rfl⟩

theorem tickDists_lower (L : OrderedFieldLaws F) (p : Params F) (ht : Scalar.lt (0 : F) p.tickDist = true) :
    ∀ (fuel : Nat) (d : F) (ds : List F), tickDists p fuel d = some ds →
      ∀ x ∈ ds, x = d ∨ Scalar.lt d x = true
  | 0, _, _, h => by simp [tickDists] at h
  | fuel + 1, d, ds, h => by
    rw [tickDists] at h
    split at h
    · split at h
      · cases h; simp
      · cases hrec : tickDists p fuel (d + p.tickDist) with
        | none => simp [hrec] at h
        | some ds' =>
          simp only [hrec, Option.map_some, Option.some.injEq] at h
          subst h
          intro x hx
          rcases List.mem_cons.mp hx with rfl | hx
          · exact Or.inl rfl
          · right
            rcases tickDists_lower L p ht fuel _ ds' hrec x hx with rfl | hlt
            · exact L.lt_add_pos d _ ht
            · exact L.lt_trans _ _ _ (L.lt_add_pos d _ ht) hlt
    · cases h; simp

theorem tickDists_increasing (L : OrderedFieldLaws F) (p : Params F) (ht : Scalar.lt (0 : F) p.tickDist = true) :
    ∀ (fuel : Nat) (d : F) (ds : List F), tickDists p fuel d = some ds →
      ds.Pairwise (fun a b => Scalar.lt a b = true)
  | 0, _, _, h => by simp [tickDists] at h
  | fuel + 1, d, ds, h => by
    rw [tickDists] at h
    split at h
    · split at h
      · cases h; exact List.Pairwise.nil
      · cases hrec : tickDists p fuel (d + p.tickDist) with
        | none => simp [hrec] at h
        | some ds' =>
          simp only [hrec, Option.map_some, Option.some.injEq] at h
          subst h
          refine List.Pairwise.cons ?_ (tickDists_increasing L p ht fuel _ ds' hrec)
          intro x hx
          rcases tickDists_lower L p ht fuel _ ds' hrec x hx with rfl | hlt
          · exact L.lt_add_pos d _ ht
          · exact L.lt_trans _ _ _ (L.lt_add_pos d _ ht) hlt
    · cases h; exact List.Pairwise.nil

/-- **ticks_chronological** (exact arithmetic, positive length and span duration): inside every span the
ticks come in strictly increasing time — by increasing distance on even spans, by decreasing distance on
odd ones. -/
theorem ticks_chronological (L : OrderedFieldLaws F) (p : Params F) (fuel : Nat) (ds : List F)
    (h : spanTickDists p fuel = some ds)
    (hlen : Scalar.lt (0 : F) p.len = true) (hdur : Scalar.lt (0 : F) p.spanDuration = true) (s : Int) :
    (spanTicks p ds s).Pairwise (fun a b => Scalar.lt a.time b.time = true) := by
  have hinc : ds.Pairwise (fun a b => Scalar.lt a b = true) := by
    unfold spanTickDists at h
    split at h
    · rename_i hg
      exact tickDists_increasing L p hg fuel _ ds h
    · cases h; exact List.Pairwise.nil
  rw [spanTicks_eq]
  by_cases hr : isReversed s = true
  · simp only [hr, if_true]
    have hrev : ds.reverse.Pairwise (fun a b => Scalar.lt b a = true) := List.pairwise_reverse.mpr hinc
    refine List.Pairwise.map _ ?_ hrev
    intro a b hba
    have h1 := L.div_lt_div_right _ _ _ hlen hba
    have h2 := L.sub_lt_sub_left _ _ (1 : F) h1
    have h3 := L.mul_lt_mul_right _ _ _ hdur h2
    have h4 := L.add_lt_add_left _ _ (spanStart p s) h3
    simpa [tickEvent, mkTick, hr] using h4
  · simp only [hr, Bool.false_eq_true, if_false]
    refine List.Pairwise.map _ ?_ hinc
    intro a b hab
    have h1 := L.div_lt_div_right _ _ _ hlen hab
    have h3 := L.mul_lt_mul_right _ _ _ hdur h1
    have h4 := L.add_lt_add_left _ _ (spanStart p s) h3
    simpa [tickEvent, mkTick, hr] using h4

/-- **last_tick_formula** (exact arithmetic): the final span ends at `start + span_count·dur` — the tail's time —
and the last tick lies at the later of the half-way time and 36 ms before that end. -/
theorem last_tick_formula (L : OrderedFieldLaws F) (p : Params F) :
    (tailEvent p).time = p.startTime + Scalar.ofInt p.spanCount * p.spanDuration ∧
    (lastTickEvent p).time =
      Scalar.max (p.startTime + Scalar.ofInt p.spanCount * p.spanDuration / (2 : F))
        ((tailEvent p).time + -(36 : F)) := by
  refine ⟨rfl, ?_⟩
  have hend : (p.startTime + Scalar.ofInt (p.spanCount - 1) * p.spanDuration) + p.spanDuration =
      p.startTime + Scalar.ofInt p.spanCount * p.spanDuration := by
    have h1 : (Scalar.ofInt p.spanCount : F) = Scalar.ofInt (p.spanCount - 1) + 1 := by
      rw [← L.ofInt_succ]; congr 1; omega
    rw [L.add_assoc, h1, L.add_mul, L.one_mul]
  simp only [lastTickEvent, tailEvent, tailLeniency, hend]

/-! ## Non-vacuity: the hypotheses are satisfiable, on exact rationals (`ratScalar`) -/

section Examples
attribute [local instance] ratScalar

/-- the `non_even_ticks` unit test of event.rs: start 0, span 1000 ms, velocity 1, tick distance 300,
length 1000, two spans, junk in the buffer. -/
def exIter : Option (Iter Rat) := Iter.new (0 : Rat) 1000 1 300 1000 2 [headEvent ⟨7, 7, 7, 7, 7, 7⟩]

def exParams : Params Rat :=
  { startTime := 0, spanDuration := 1000, minDistFromEnd := 10, tickDist := 300, len := 1000, spanCount := 2 }

example : exIter = some ⟨exParams, [], .head⟩ := by decide +kernel

example : spanTickDists exParams 5 = some [300, 600, 900] := by decide +kernel

/-- hypotheses of `stream_shape` hold and its conclusion is the expected 10-event stream
(ticks at 300/600/900 ms, repeat at 1000, mirrored ticks at 1100/1400/1700, last tick 1964, tail 2000). -/
example : (collect 5 11 ⟨exParams, [], .head⟩).map (·.map fun e => (e.kind, e.spanIdx, e.time, e.pathProgress)) =
    some [(.head, 0, 0, 0), (.tick, 0, 300, 3/10), (.tick, 0, 600, 6/10), (.tick, 0, 900, 9/10),
          (.repeatPt, 0, 1000, 1), (.tick, 1, 1100, 9/10), (.tick, 1, 1400, 6/10), (.tick, 1, 1700, 3/10),
          (.lastTick, 1, 1964, 36/1000), (.tail, 1, 2000, 0)] := by decide +kernel

example : collect 5 11 ⟨exParams, [], .head⟩ = eventsSpec exParams 5 := by decide +kernel

/-- too little fuel: reported, not defaulted. -/
example : collect 3 100 ⟨exParams, [], .head⟩ = none := by decide +kernel

/-- `ticks_fuel_suffices` applies with `n = 4`: 1000 < 4·300. -/
example : ∃ ds, spanTickDists exParams 4 = some ds :=
  ticks_fuel_suffices rat_laws exParams 4 (by omega) (by decide +kernel)

/-- `repeats_all_present`: tick distance 0, three spans → head, two repeats, last tick, tail. -/
example : (collect 0 6 ⟨{ exParams with tickDist := 0, spanCount := 3 }, [], .head⟩).map (·.map (·.kind)) =
    some [.head, .repeatPt, .repeatPt, .lastTick, .tail] := by decide +kernel

/-- a negative length: `new` panics (`none`). -/
example : Iter.new (0 : Rat) 1000 1 300 (-5) 2 [] = none := by decide +kernel

/-- a half-consumed iterator leaves pending events behind; the next one is unaffected. -/
example :
    let u1 : Use Rat := ⟨0, 1000, 1, 300, 1000, 2, some 2⟩
    let u2 : Use Rat := ⟨0, 1000, 1, 0, 1000, 1, none⟩
    (runUse 5 u1 []).2.length = 3 ∧
    ((runSeq 5 [u1, u2] []).1.map fun o => match o with | .events evs => evs.length | _ => 0) = [2, 3] := by
  decide +kernel

end Examples

end Rosu.C20
