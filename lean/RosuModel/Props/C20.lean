/-
  Props/C20.lean — slider event stream (DESIGN.md 5.20). The model is Model/SliderEvents.lean.

  Part 1 (structural): for every `[Scalar F]`, no arithmetic law — these hold for the IEEE instance.
  Part 2 (law-dependent): under `OrderedFieldLaws F` (explicit hypothesis, instantiated for `Rat`
  in Lemmas/RatScalar.lean).
-/
import RosuModel.Model.SliderEvents
import RosuModel.Lemmas.RatScalar
namespace Rosu.C20
open Rosu Rosu.SliderEvents

variable {F : Type} [Scalar F]

/-! ## Part 1 — structural -/

/-! ### the tick loop pushes the tick distances, last first -/

theorem tickLoop_eq (p : Params F) (span : Int) (rev : Bool) (sst : F) :
    ∀ (fuel : Nat) (d : F) (buf : List (SliderEvent F)),
      tickLoop p span rev sst fuel d buf =
        (tickDists p fuel d).map (fun ds => (ds.map (mkTick p span rev sst)).reverse ++ buf)
  | 0, _, _ => rfl
  | fuel + 1, d, buf => by
    simp only [tickLoop, tickDists]
    split
    · split
      · simp
      · rw [tickLoop_eq p span rev sst fuel]
        cases tickDists p fuel (d + p.tickDist) <;> simp
    · simp

/-- `generate_ticks` on an empty buffer leaves exactly the events of the span, next-to-pop first,
i.e. in chronological order. -/
theorem generateTicksBuf_nil (fuel : Nat) (p : Params F) (span : Int) :
    generateTicksBuf fuel p span [] = (spanTickDists p fuel).map (fun ds => spanEvents p ds span) := by
  unfold generateTicksBuf spanTickDists spanEvents tickEvent repeatEvent
  by_cases hg : Scalar.gt p.tickDist (0 : F) = true
  · simp only [hg, if_true, tickLoop_eq]
    cases tickDists p fuel p.tickDist with
    | none => simp
    | some ds =>
      by_cases hr : isReversed span = true <;> by_cases hw : span < p.spanCount - 1 <;>
        simp [hr, hw, List.map_reverse]
  · simp only [hg, Bool.false_eq_true, if_false]
    by_cases hr : isReversed span = true <;> by_cases hw : span < p.spanCount - 1 <;>
      simp [hr, hw]

/-! ### one call of `next` -/

theorem next_head (fuel : Nat) (p : Params F) (buf : List (SliderEvent F)) :
    Iter.next fuel ⟨p, buf, .head⟩ = some (some (headEvent p), ⟨p, buf, .ticks 0⟩) := rfl

/-- a pending event is popped. -/
theorem next_pop (fuel : Nat) (p : Params F) (ev : SliderEvent F) (rest : List (SliderEvent F)) (s : Int) :
    Iter.next fuel ⟨p, ev :: rest, .ticks s⟩ = some (some ev, ⟨p, rest, .ticks s⟩) := by
  simp [Iter.next, loopBound, nextLoop]

/-- empty buffer, spans left: generate span `s`, advance, and go round the `loop` again. -/
theorem next_generate (fuel : Nat) (p : Params F) (s : Int) (h : s < p.spanCount) :
    Iter.next fuel ⟨p, [], .ticks s⟩ =
      match spanTickDists p fuel with
      | none => none
      | some ds => Iter.next fuel ⟨p, spanEvents p ds s, .ticks (s + 1)⟩ := by
  have hb : (p.spanCount - s).toNat + 3 = ((p.spanCount - (s + 1)).toNat + 3) + 1 := by omega
  have hne : ¬ s = p.spanCount := by omega
  simp only [Iter.next, loopBound, hb]
  rw [nextLoop]
  simp only [hne, if_false, generateTicks, generateTicksBuf_nil]
  cases spanTickDists p fuel <;> rfl

/-- empty buffer, no span left: the last tick. -/
theorem next_lastTick (fuel : Nat) (p : Params F) :
    Iter.next fuel ⟨p, [], .ticks p.spanCount⟩ = some (some (lastTickEvent p), ⟨p, [], .tail⟩) := by
  simp [Iter.next, loopBound, nextLoop]

theorem next_tail (fuel : Nat) (p : Params F) (buf : List (SliderEvent F)) :
    Iter.next fuel ⟨p, buf, .tail⟩ = some (some (tailEvent p), ⟨p, buf, .done⟩) := rfl

theorem next_done (fuel : Nat) (p : Params F) (buf : List (SliderEvent F)) :
    Iter.next fuel ⟨p, buf, .done⟩ = some (none, ⟨p, buf, .done⟩) := rfl

/-! ### `collect` -/

theorem collect_succ (fuel n : Nat) (it : Iter F) :
    collect fuel (n + 1) it =
      match it.next fuel with
      | none => none
      | some (none, _) => some []
      | some (some ev, it') => (collect fuel n it').map (ev :: ·) := rfl

theorem collect_congr (fuel n : Nat) {it it' : Iter F} (h : it.next fuel = it'.next fuel) :
    collect fuel (n + 1) it = collect fuel (n + 1) it' := by
  simp only [collect_succ, h]

/-- pending events come out first, in buffer order. -/
theorem collect_drain (fuel : Nat) (p : Params F) (s : Int) (rest : List (SliderEvent F)) :
    ∀ (evs : List (SliderEvent F)) (m : Nat),
      collect fuel (m + evs.length) ⟨p, evs ++ rest, .ticks s⟩ =
        (collect fuel m ⟨p, rest, .ticks s⟩).map (evs ++ ·)
  | [], m => by simp
  | ev :: evs, m => by
    have : m + (ev :: evs).length = (m + evs.length) + 1 := by simp; omega
    rw [this, List.cons_append, collect_succ, next_pop]
    simp only [collect_drain fuel p s rest evs m, Option.map_map]
    rfl

/-- from an empty buffer in state `Ticks{s}` the remaining `k = span_count − s` spans come out one
after the other, then the last tick and the tail. -/
theorem collect_spans (fuel : Nat) (p : Params F) (ds : List F)
    (hds : spanTickDists p fuel = some ds) :
    ∀ (k : Nat) (s : Int), s + k = p.spanCount → ∀ n : Nat, (spansFrom p ds s k).length + 3 ≤ n →
      collect fuel n ⟨p, [], .ticks s⟩ =
        some (spansFrom p ds s k ++ [lastTickEvent p, tailEvent p])
  | 0, s, hs, n, hn => by
    have hs' : s = p.spanCount := by omega
    subst hs'
    obtain ⟨n', rfl⟩ : ∃ n', n = n' + 3 := ⟨n - 3, by simp [spansFrom] at hn; omega⟩
    rw [collect_succ, next_lastTick]
    simp only []
    rw [collect_succ, next_tail]
    simp only []
    rw [collect_succ, next_done]
    simp [spansFrom]
  | k + 1, s, hs, n, hn => by
    have hlt : s < p.spanCount := by omega
    simp only [spansFrom, List.length_append] at hn
    obtain ⟨m, rfl⟩ : ∃ m, n = (m + (spanEvents p ds s).length) := ⟨n - (spanEvents p ds s).length, by omega⟩
    obtain ⟨m', hm'⟩ : ∃ m', m + (spanEvents p ds s).length = m' + 1 := ⟨m + (spanEvents p ds s).length - 1, by omega⟩
    have hnext := next_generate fuel p s hlt
    rw [hds] at hnext
    simp only [] at hnext
    have hc := collect_congr fuel m' hnext
    rw [← hm'] at hc
    rw [hc]
    have hd := collect_drain fuel p (s + 1) [] (spanEvents p ds s) m
    rw [List.append_nil] at hd
    rw [hd, collect_spans fuel p ds hds k (s + 1) (by omega) m (by omega)]
    simp [spansFrom]

/-! ### the stream -/

theorem new_spanCount {start dur vel td total : F} {n : Int} {p : Params F}
    (hp : Params.new start dur vel td total n = some p) : p.spanCount = n := by
  simp only [Params.new] at hp
  split at hp
  · cases hp; rfl
  · cases hp

/-- **stream_shape.** For a non-negative span count (in particular ≥ 1), once the fuel suffices for the
tick distances `ds` of a span, the lazy state machine with its reversed stack yields exactly the eager
list `head :: spans ++ [lastTick, tail]`, whatever the buffer contained. -/
theorem stream_shape (start dur vel td total : F) (n : Int) (buf : List (SliderEvent F))
    (fuel N : Nat) (it : Iter F) (ds : List F)
    (hnew : Iter.new start dur vel td total n buf = some it)
    (hn : 0 ≤ n)
    (hfuel : spanTickDists it.toParams fuel = some ds)
    (hN : (eventsOf it.toParams ds).length < N) :
    collect fuel N it = some (eventsOf it.toParams ds) := by
  unfold Iter.new at hnew
  cases hp : Params.new start dur vel td total n with
  | none => simp [hp] at hnew
  | some p =>
    have hpn : p.spanCount = n := new_spanCount hp
    simp only [hp, Option.map_some, Option.some.injEq] at hnew
    subst hnew
    simp only [eventsOf, List.length_cons, List.length_append, List.length_nil] at hN
    obtain ⟨N', rfl⟩ : ∃ N', N = N' + 1 := ⟨N - 1, by omega⟩
    rw [collect_succ, next_head]
    simp only []
    rw [collect_spans fuel p ds hfuel p.spanCount.toNat 0 (by omega) N' (by omega)]
    simp [eventsOf]

end Rosu.C20
