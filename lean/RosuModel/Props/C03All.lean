/-
  Props/C03All.lean — the module audited for C03: Props/C03.lean (record fields), Props/C03Frame.lean (frame clause for the
  hit-object and timing-point views, conditional on the list-block shape) and Props/C03File.lean (the same with the shape
  discharged for `RepMap` maps: `edit_frame_objects_rep`). All three are in namespace `Rosu.C03`.
-/
import RosuModel.Props.C03Frame
import RosuModel.Props.C03File
