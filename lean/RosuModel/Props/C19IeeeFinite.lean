/-
  Props/C19IeeeFinite.lean — C19 on IEEE floats: the NO-OVERFLOW side conditions (`SegFinite`, Props/C19IeeeSearch.lean) of
  the interpolation `p0 + (p1 − p0) * (((d − d0) / (d1 − d0)) as f32)` are DERIVED, so that the theorems of
  Props/C19IeeeSearch.lean no longer take them as a hypothesis.

  * **`segFinite_statement_false`**: the statement recorded in Props/C19IeeeSearch.lean (`segFinite_statement`) is FALSE as
    written: `Bounded19` bounds the VALUE `toRat32` of a coordinate, which is `0` by convention for `±∞` / NaN, so it does not
    exclude an infinite coordinate. Witness: `p0 = (+∞, 0)`, `p1 = (0, 0)`, `d0 = 0`, `d = 10`, `d1 = 25`: every hypothesis
    holds and the `x` coordinate of the result is a NaN.
  * `segFinite_corrected_statement` = the same with finite end point coordinates (`C16.FinitePos`) in addition, and
    **`segFinite_of_bounded : segFinite_corrected_statement`** — full strength otherwise: ANY finite `d1` (`f64::MAX`
    included; this needs the sharp `sub_finite_of_nonneg_le`), `0 <= d0 <= d <= d1` in the IEEE order, non-degenerate segment.
    Route: `d0`, `d` are finite (between `0` and `d1`); `d ⊖ d0`, `d1 ⊖ d0` are finite (exact value in `[0, d1]`);
    `d1 ⊖ d0 ≠ 0` (else `d0 ⊖ d1 = ±0`, against `|d0 − d1| > EPSILON`); the exact quotient of the two rounded differences is
    `≤ 2`, so `⊘` is finite and `≤ 3` (`weight_finite`); its cast is finite and `≤ 4`; `|x1 ⊖ x0| ≤ 2²¹`, the product is
    `≤ 2²⁴`, the sum `≤ 2¹⁹ + 2²⁴` — all far below `2¹²⁷` (`coordInterp_finite`, on Lemmas/FloatErrRange32.lean).
  * `segFinite_of_curve`: the hypothesis `hfin` of `positionAt_dist_err_float32`, from the curve facts;
    **`positionAt_dist_err_float32_nofin`**, **`positionAt_dist_on_polyline_float32_nofin`**,
    **`positionAt_progress_err_float32_nofin`**: the theorems of Props/C19IeeeSearch.lean with `hfin` discharged, for curves
    with finite vertices, `0 <= lengths[0]` and a finite last length.
  Kernel-evaluated non-vacuity on the demo curve of Props/C19IeeeSearch.lean.
-/
import RosuModel.Props.C19IeeeSearch
import RosuModel.Lemmas.FloatErrRange32
namespace Rosu.C19
open Rosu Rosu.Curve Rosu.FErr
open Float.Model Float.Model.UnpackedFloat

/-! ## the recorded statement is false: `Bounded19` does not exclude `±∞` -/

/-- the witness: an end point with an infinite `x` coordinate. -/
def infP : Pos Float32 := ⟨Float32.ofBits 0x7F800000, 0⟩
def zeroP : Pos Float32 := ⟨0, 0⟩

theorem toRat32_inf : toRat32 (Float32.ofBits 0x7F800000) = 0 := by
  have h : (Float32.ofBits 0x7F800000).toModel.unpack = .infinity .positive := by
    rw [FM.float32_unpack_ofBits _ (by decide)]; rfl
  unfold toRat32; rw [h]; rfl

/-- `Bounded19` holds for the point `(+∞, 0)`: the value of `+∞` is `0` by convention. -/
theorem infP_bounded : C16.Bounded19 infP := by
  constructor
  · show |toRat32 (Float32.ofBits 0x7F800000)| ≤ 524288
    rw [toRat32_inf]; norm_num
  · show |toRat32 (0 : Float32)| ≤ 524288
    rw [toRat32_zero]; norm_num

theorem zeroP_bounded : C16.Bounded19 zeroP := by
  constructor <;> (show |toRat32 (0 : Float32)| ≤ 524288) <;> (rw [toRat32_zero]; norm_num)

/-- **`segFinite_statement` (Props/C19IeeeSearch.lean) is false as recorded**: `p0 = (+∞, 0)`, `p1 = (0, 0)`, `d0 = 0`,
`d = 10`, `d1 = 25` satisfy every hypothesis, and `(+∞) + (0 − (+∞)) * 0.4` is a NaN. -/
theorem segFinite_statement_false : ¬ segFinite_statement := by
  intro h
  have hs := h infP zeroP 10 0 25 infP_bounded zeroP_bounded (by decide +kernel) (by decide +kernel)
    (by decide +kernel) (by decide +kernel) (by decide +kernel)
  have : (interpPos infP zeroP (10 : Float) 0 25).x.isFinite = false := by decide +kernel
  rw [hs.1] at this
  cases this

/-! ## the pieces -/

/-- a finite double of value `0` is `±0`, whose absolute value is `<= EPSILON`. -/
theorem abs_le_eps_of_toRat_zero (z : Float) (fz : z.isFinite = true) (h : toRat z = 0) :
    Scalar.le (Scalar.abs z) (Scalar.eps : Float) = true := by
  have fz' : z.toModel.unpack.isFinite = true := fz
  rw [FMO.abs_float]
  unfold toRat at h
  generalize z.toModel.unpack = u at *
  match u, fz', h with
  | .zero s, _, _ => cases s <;> decide +kernel
  | .finite s m e hm, _, h =>
    exfalso
    simp only [uval] at h
    exact mul_ne_zero (mul_ne_zero (sgnQ_ne_zero s) (Nat.cast_ne_zero.mpr (by omega))) (two_zpow_pos e).ne' h

theorem lt127_of_le (x : ℚ) (h : x ≤ 1099511627776) : x < (2 : ℚ) ^ (127 : Int) := by
  have h1 : (2 : ℚ) ^ (40 : Int) < (2 : ℚ) ^ (127 : Int) := zpow_lt_zpow_right₀ (by norm_num) (by norm_num)
  have h2 : (2 : ℚ) ^ (40 : Int) = 1099511627776 := by norm_num
  linarith

theorem abs_le_add_of_sub (r v e : ℚ) (h : |r - v| ≤ e) : |r| ≤ |v| + e := by
  have := abs_add_le v (r - v)
  rw [add_sub_cancel] at this
  linarith

/-- **the `f64` part**: for `0 <= d0 <= d <= d1` (IEEE order), `d1` finite and a non-degenerate segment, the denominator
`d1 ⊖ d0` and the weight `(d ⊖ d0) ⊘ (d1 ⊖ d0)` are finite, and the weight is at most `3` in absolute value (it is in fact
`≤ 1 + 3·2⁻⁵³`; `3` is all the cast needs). -/
theorem weight_finite (d d0 d1 : Float)
    (h00 : Scalar.le (0 : Float) d0 = true) (h0 : Scalar.le d0 d = true) (h1 : Scalar.le d d1 = true)
    (fd1 : d1.isFinite = true)
    (hdeg : Scalar.le (Scalar.abs (d0 - d1)) (Scalar.eps : Float) = false) :
    (d1 - d0).isFinite = true ∧ ((d - d0) / (d1 - d0)).isFinite = true ∧ |toRat ((d - d0) / (d1 - d0))| ≤ 3 := by
  have fd0 : d0.isFinite = true := finite_of_between 0 d0 d1 rfl fd1 h00 (FMO.le_trans _ _ _ h0 h1)
  have fd : d.isFinite = true := finite_of_between 0 d d1 rfl fd1 (FMO.le_trans _ _ _ h00 h0) h1
  have l00 := toRat_nonneg d0 h00 fd0
  have l0 := toRat_le_of_le d0 d fd0 fd h0
  have l1 := toRat_le_of_le d d1 fd fd1 h1
  have fn := sub_finite_of_nonneg_le d d0 fd fd0 l00 l0
  have fm := sub_finite_of_nonneg_le d1 d0 fd1 fd0 l00 (l0.trans l1)
  obtain ⟨ε1, he1, hn⟩ := sub_err_float d d0 fd fd0 fn
  obtain ⟨ε2, he2, hm⟩ := sub_err_float d1 d0 fd1 fd0 fm
  have l01 : toRat d0 < toRat d1 := by
    refine lt_of_le_of_ne (l0.trans l1) (fun h => ?_)
    have fz : (d0 - d1).isFinite = true := by
      refine sub_finite_float_max d0 d1 fd0 fd1 ?_
      rw [h, sub_self, abs_zero]
      exact mul_nonneg (by norm_num) (two_zpow_pos _).le
    obtain ⟨δ, _, hz⟩ := sub_err_float d0 d1 fd0 fd1 fz
    have := abs_le_eps_of_toRat_zero (d0 - d1) fz (by rw [hz, h, sub_self, zero_mul])
    rw [this] at hdeg; cases hdeg
  have hu : (2 : ℚ) ^ (-53 : Int) ≤ 1 / 4 := by norm_num
  have hu4 : 4 * (2 : ℚ) ^ (-53 : Int) ≤ 1 := by norm_num
  obtain ⟨a1, a2⟩ := abs_le.mp he1
  obtain ⟨b1, b2⟩ := abs_le.mp he2
  have hg : 0 < toRat d1 - toRat d0 := by linarith
  have ha : 0 ≤ toRat d - toRat d0 := by linarith
  have hag : toRat d - toRat d0 ≤ toRat d1 - toRat d0 := by linarith
  have hmpos : 0 < toRat (d1 - d0) := by rw [hm]; exact mul_pos hg (by linarith)
  have hn0 : 0 ≤ toRat (d - d0) := by rw [hn]; exact mul_nonneg ha (by linarith)
  have h2 : |toRat (d - d0) / toRat (d1 - d0)| ≤ 2 := by
    rw [abs_of_nonneg (div_nonneg hn0 hmpos.le), div_le_iff₀ hmpos, hn, hm]
    generalize toRat d - toRat d0 = a at *
    generalize toRat d1 - toRat d0 = g at *
    have p1 : a * (1 + ε1) ≤ a * (5 / 4) := mul_le_mul_of_nonneg_left (by linarith) ha
    have p2 : g * (3 / 4) ≤ g * (1 + ε2) := mul_le_mul_of_nonneg_left (by linarith) hg.le
    linarith
  have hhuge : (2 : ℚ) < (2 : ℚ) ^ (1023 : Int) := by
    have : (2 : ℚ) ^ (1 : Int) < (2 : ℚ) ^ (1023 : Int) := zpow_lt_zpow_right₀ (by norm_num) (by norm_num)
    simpa using this
  have fq := div_finite_float _ _ fn fm hmpos.ne' (lt_of_le_of_lt h2 hhuge)
  refine ⟨fm, fq, ?_⟩
  have hq := (div_rnd_float _ _ fn fm fq).abs_add
  have htiny : (2 : ℚ) ^ (-1075 : Int) ≤ 1 / 2 := by
    have : (2 : ℚ) ^ (-1075 : Int) ≤ (2 : ℚ) ^ (-1 : Int) := zpow_le_zpow_right₀ (by norm_num) (by norm_num)
    simpa using this
  have hp : (2 : ℚ) ^ (-53 : Int) * |toRat (d - d0) / toRat (d1 - d0)| ≤ 1 / 4 * 2 :=
    mul_le_mul hu h2 (abs_nonneg _) (by norm_num)
  have := abs_le_add_of_sub _ _ _ hq
  generalize (2 : ℚ) ^ (-1075 : Int) = t at *
  linarith

/-- **the `f32` part**: one coordinate `x0 ⊕ (x1 ⊖ x0) ⊗ (q as f32)` is finite for finite `x0`, `x1` bounded by `2¹⁹` and a
finite weight `|q| ≤ 3`. -/
theorem coordInterp_finite (x0 x1 : Float32) (q : Float) (fx0 : x0.isFinite = true) (fx1 : x1.isFinite = true)
    (hx0 : |toRat32 x0| ≤ 524288) (hx1 : |toRat32 x1| ≤ 524288) (fq : q.isFinite = true) (hq : |toRat q| ≤ 3) :
    (x0 + (x1 - x0) * (Cvt.down q : Float32)).isFinite = true := by
  have u24 : (2 : ℚ) ^ (-24 : Int) ≤ 1 / 1000000 := by norm_num
  have u24' : (0 : ℚ) ≤ (2 : ℚ) ^ (-24 : Int) := (two_zpow_pos _).le
  have u150 : (2 : ℚ) ^ (-150 : Int) ≤ 1 / 2 := by
    have : (2 : ℚ) ^ (-150 : Int) ≤ (2 : ℚ) ^ (-1 : Int) := zpow_le_zpow_right₀ (by norm_num) (by norm_num)
    simpa using this
  -- the weight as `f32`
  have fwf := down_finite_of_lt q fq (lt127_of_le _ (by linarith))
  have hwf := (down_rnd q fq fwf).abs_add
  have hwfa : |toRat32 (Cvt.down q : Float32)| ≤ 4 := by
    have := abs_le_add_of_sub _ _ _ hwf
    have hp : (2 : ℚ) ^ (-24 : Int) * |toRat q| ≤ 1 / 1000000 * 3 := mul_le_mul u24 hq (abs_nonneg _) (by norm_num)
    generalize (2 : ℚ) ^ (-150 : Int) = t at *
    generalize (2 : ℚ) ^ (-24 : Int) = u at *
    linarith
  -- the difference
  have hG : |toRat32 x1 - toRat32 x0| ≤ 1048576 := by have := abs_sub (toRat32 x1) (toRat32 x0); linarith
  have fdx := sub_finite_float32 x1 x0 fx1 fx0 (lt127_of_le _ (by linarith))
  obtain ⟨δ1, hd1, hdx⟩ := sub_err_float32 x1 x0 fx1 fx0 fdx
  have hdxa : |toRat32 (x1 - x0)| ≤ 2097152 := by
    rw [hdx, abs_mul]
    have h1 : |1 + δ1| ≤ 2 := by
      have hδ : |δ1| ≤ 1 := hd1.trans (by norm_num)
      have := abs_add_le 1 δ1; rw [abs_one] at this; linarith
    calc |toRat32 x1 - toRat32 x0| * |1 + δ1| ≤ 1048576 * 2 := mul_le_mul hG h1 (abs_nonneg _) (by norm_num)
      _ = 2097152 := by norm_num
  -- the product
  have hPa : |toRat32 (x1 - x0) * toRat32 (Cvt.down q : Float32)| ≤ 8388608 := by
    rw [abs_mul]
    calc _ ≤ (2097152 : ℚ) * 4 := mul_le_mul hdxa hwfa (abs_nonneg _) (by norm_num)
      _ = 8388608 := by norm_num
  have fpv := mul_finite_float32 _ _ fdx fwf (lt127_of_le _ (by linarith))
  have hpv := mul_err_abs_float32 _ _ fdx fwf fpv
  have hpva : |toRat32 ((x1 - x0) * (Cvt.down q : Float32))| ≤ 16777216 := by
    have := abs_le_add_of_sub _ _ _ hpv
    have hp : (2 : ℚ) ^ (-24 : Int) * |toRat32 (x1 - x0) * toRat32 (Cvt.down q : Float32)| ≤ 1 / 1000000 * 8388608 :=
      mul_le_mul u24 hPa (abs_nonneg _) (by norm_num)
    generalize (2 : ℚ) ^ (-150 : Int) = t at *
    generalize (2 : ℚ) ^ (-24 : Int) = u at *
    linarith
  -- the sum
  refine add_finite_float32 _ _ fx0 fpv (lt127_of_le _ ?_)
  have := abs_add_le (toRat32 x0) (toRat32 ((x1 - x0) * (Cvt.down q : Float32)))
  linarith

/-! ## the no-overflow conditions, derived -/

/-- the corrected form of `segFinite_statement`: the end point coordinates are finite `f32`s (what `Bounded19`, a bound on the
value, does not say). -/
def segFinite_corrected_statement : Prop :=
  ∀ (p0 p1 : Pos Float32) (d d0 d1 : Float), C16.Bounded19 p0 → C16.Bounded19 p1 →
    C16.FinitePos p0 → C16.FinitePos p1 →
    Scalar.le (0 : Float) d0 = true → Scalar.le d0 d = true → Scalar.le d d1 = true → d1.isFinite = true →
    Scalar.le (Scalar.abs (d0 - d1)) (Scalar.eps : Float) = false → SegFinite p0 p1 d d0 d1

/-- **C19 on IEEE floats: the interpolation does not overflow.** For end points with finite coordinates bounded by `2¹⁹`,
doubles `0 <= d0 <= d <= d1` (IEEE order) with `d1` finite (any finite value) and a non-degenerate segment
(`|d0 − d1| > EPSILON`), the denominator `d1 ⊖ d0`, the weight `(d ⊖ d0) ⊘ (d1 ⊖ d0)` and both coordinates of
`p0 + (p1 − p0) * (w as f32)` are finite. -/
theorem segFinite_of_bounded : segFinite_corrected_statement := by
  intro p0 p1 d d0 d1 hb0 hb1 hf0 hf1 h00 h0 h1 fd1 hdeg
  obtain ⟨fm, fq, hq⟩ := weight_finite d d0 d1 h00 h0 h1 fd1 hdeg
  refine ⟨?_, ?_, fq, fm⟩
  · exact coordInterp_finite p0.x p1.x _ hf0.1 hf1.1 hb0.1 hb1.1 fq hq
  · exact coordInterp_finite p0.y p1.y _ hf0.2 hf1.2 hb0.2 hb1.2 fq hq

/-! ## the theorems of Props/C19IeeeSearch.lean without the no-overflow hypothesis -/

/-- **the hypothesis `hfin` of `positionAt_dist_err_float32`, from the curve**: vertices finite and bounded by `2¹⁹`, lengths
weakly sorted numbers with `0 <= lengths[0]` and a finite last length, `lengths[0] <= d <= last`. -/
theorem segFinite_of_curve (path : List (Pos Float32)) (lengths : List Float) (d a b : Float)
    (hlen : path.length = lengths.length) (hs : Sorted lengths) (hbd : ∀ p ∈ path, C16.Bounded19 p)
    (hfp : ∀ p ∈ path, C16.FinitePos p)
    (ha : lengths[0]? = some a) (hb : lengths.getLast? = some b)
    (ha0 : Scalar.le (0 : Float) a = true) (hbf : b.isFinite = true)
    (hlo : Scalar.le a d = true) (hhi : Scalar.le d b = true) :
    ∀ (p0 p1 : Pos Float32) (d0 d1 : Float), path[idxOfDist lengths d - 1]? = some p0 →
      path[idxOfDist lengths d]? = some p1 → lengths[idxOfDist lengths d - 1]? = some d0 →
      lengths[idxOfDist lengths d]? = some d1 →
      Scalar.le (Scalar.abs (d0 - d1)) (Scalar.eps : Float) = false → SegFinite p0 p1 d d0 d1 := by
  intro p0 p1 d0 d1 hp0 hp1 hd0 hd1 hdeg
  obtain ⟨hil, d1', hd1', hle1, _, _, hpos⟩ := idxOfDist_bracket_float lengths hs d a b ha hb hlo hhi
  have hb' : lengths[lengths.length - 1]? = some b := by
    rw [List.getLast?_eq_getElem?] at hb; exact hb
  generalize idxOfDist lengths d = i at *
  rw [hd1] at hd1'; cases hd1'
  rcases Nat.eq_zero_or_pos i with hi | hi
  · -- `i = 0`: `d0 = d1 = lengths[0]` is finite, so `|d0 − d1| = +0 <= EPSILON`
    subst hi
    rw [ha] at hd0 hd1; cases hd0; cases hd1
    have fa : a.isFinite = true :=
      finite_of_between 0 a b rfl hbf ha0 (FMO.le_trans _ _ _ hlo hhi)
    have := FMO.le_of_lt _ _ (FMO.abs_sub_self_lt_eps_float a fa)
    rw [this] at hdeg; cases hdeg
  · obtain ⟨d0', hd0', hle0, _⟩ := hpos hi
    rw [hd0] at hd0'; cases hd0'
    have h00 : Scalar.le (0 : Float) d0 = true :=
      FMO.le_trans _ _ _ ha0 (hs 0 (i - 1) a d0 (Nat.zero_le _) ha hd0)
    have h0d1 : Scalar.le (0 : Float) d1 = true := FMO.le_trans _ _ _ h00 (FMO.le_trans _ _ _ hle0 hle1)
    have fd1 : d1.isFinite = true :=
      finite_of_between 0 d1 b rfl hbf h0d1 (hs i (lengths.length - 1) d1 b (by omega) hd1 hb')
    exact segFinite_of_bounded p0 p1 d d0 d1 (hbd _ (List.mem_of_getElem? hp0)) (hbd _ (List.mem_of_getElem? hp1))
      (hfp _ (List.mem_of_getElem? hp0)) (hfp _ (List.mem_of_getElem? hp1)) h00 hle0 hle1 fd1 hdeg

/-- **C19 on IEEE floats: the position `interpolate_vertices path lengths (idx_of_dist lengths d) d`, NO no-overflow
hypothesis** (`positionAt_dist_err_float32` with `hfin` discharged by `segFinite_of_curve`): curve of equal lengths, `lengths`
weakly sorted numbers with `0 <= lengths[0]` and a finite last length, vertices finite and bounded by `2¹⁹`,
`lengths[0] <= d <= last`. -/
theorem positionAt_dist_err_float32_nofin (path : List (Pos Float32)) (lengths : List Float) (d a b : Float)
    (hlen : path.length = lengths.length) (hs : Sorted lengths) (hbd : ∀ p ∈ path, C16.Bounded19 p)
    (hfp : ∀ p ∈ path, C16.FinitePos p)
    (ha : lengths[0]? = some a) (hb : lengths.getLast? = some b)
    (ha0 : Scalar.le (0 : Float) a = true) (hbf : b.isFinite = true)
    (hlo : Scalar.le a d = true) (hhi : Scalar.le d b = true) :
    ∃ p, interpolateVertices path lengths (idxOfDist lengths d) d = .ok p ∧
      ((idxOfDist lengths d = 0 ∧ path[0]? = some p) ∨
       (0 < idxOfDist lengths d ∧ path[idxOfDist lengths d - 1]? = some p ∧
         ∃ d0 d1, lengths[idxOfDist lengths d - 1]? = some d0 ∧ lengths[idxOfDist lengths d]? = some d1 ∧
           Scalar.le (Scalar.abs (d0 - d1)) (Scalar.eps : Float) = true) ∨
       (0 < idxOfDist lengths d ∧ ∃ p0 p1 d0 d1, path[idxOfDist lengths d - 1]? = some p0 ∧
         path[idxOfDist lengths d]? = some p1 ∧ lengths[idxOfDist lengths d - 1]? = some d0 ∧
         lengths[idxOfDist lengths d]? = some d1 ∧
         Scalar.le d0 d = true ∧ Scalar.le d d1 = true ∧ toRat d0 < toRat d1 ∧
         p = interpPos p0 p1 d d0 d1 ∧
         (0 ≤ (toRat d - toRat d0) / (toRat d1 - toRat d0) ∧ (toRat d - toRat d0) / (toRat d1 - toRat d0) ≤ 1) ∧
         |toRat32 p.x - (toRat32 p0.x + (toRat d - toRat d0) / (toRat d1 - toRat d0) * (toRat32 p1.x - toRat32 p0.x))|
           ≤ interpBound ∧
         |toRat32 p.y - (toRat32 p0.y + (toRat d - toRat d0) / (toRat d1 - toRat d0) * (toRat32 p1.y - toRat32 p0.y))|
           ≤ interpBound)) :=
  positionAt_dist_err_float32 path lengths d a b hlen hs hbd ha hb hlo hhi
    (segFinite_of_curve path lengths d a b hlen hs hbd hfp ha hb ha0 hbf hlo hhi)

/-- … hence within `1/4` px per coordinate of the polyline, no no-overflow hypothesis. -/
theorem positionAt_dist_on_polyline_float32_nofin (path : List (Pos Float32)) (lengths : List Float) (d a b : Float)
    (hlen : path.length = lengths.length) (hs : Sorted lengths) (hbd : ∀ p ∈ path, C16.Bounded19 p)
    (hfp : ∀ p ∈ path, C16.FinitePos p)
    (ha : lengths[0]? = some a) (hb : lengths.getLast? = some b)
    (ha0 : Scalar.le (0 : Float) a = true) (hbf : b.isFinite = true)
    (hlo : Scalar.le a d = true) (hhi : Scalar.le d b = true) :
    ∃ (p : Pos Float32) (k : Nat) (p0 p1 : Pos Float32) (w : ℚ),
      interpolateVertices path lengths (idxOfDist lengths d) d = .ok p ∧
      path[k]? = some p0 ∧ (path[k + 1]? = some p1 ∨ p1 = p0) ∧ 0 ≤ w ∧ w ≤ 1 ∧
      |toRat32 p.x - (toRat32 p0.x + w * (toRat32 p1.x - toRat32 p0.x))| < 1 / 4 ∧
      |toRat32 p.y - (toRat32 p0.y + w * (toRat32 p1.y - toRat32 p0.y))| < 1 / 4 :=
  positionAt_dist_on_polyline_float32 path lengths d a b hlen hs hbd ha hb hlo hhi
    (segFinite_of_curve path lengths d a b hlen hs hbd hfp ha hb ha0 hbf hlo hhi)

/-- **C19 on IEEE floats: `position_at(progress)`, NO no-overflow hypothesis** (`positionAt_progress_err_float32` with `hfin`
discharged): lengths that start at a zero (`lengths[0] <= 0 <= lengths[0]`: `±0`), weakly sorted numbers with a finite last
length, vertices finite and bounded by `2¹⁹`, any progress that is a number. -/
theorem positionAt_progress_err_float32_nofin (path : List (Pos Float32)) (lengths : List Float) (q a b : Float)
    (hq : Scalar.isNaN q = false)
    (hlen : path.length = lengths.length) (hs : Sorted lengths) (hbd : ∀ p ∈ path, C16.Bounded19 p)
    (hfp : ∀ p ∈ path, C16.FinitePos p)
    (ha : lengths[0]? = some a) (hb : lengths.getLast? = some b)
    (ha0 : Scalar.le a (0 : Float) = true) (ha1 : Scalar.le (0 : Float) a = true) (hbf : FX.Finite64 b) :
    Scalar.le (0 : Float) (progressToDist lengths q) = true ∧ Scalar.le (progressToDist lengths q) b = true ∧
    ∃ (p : Pos Float32) (k : Nat) (p0 p1 : Pos Float32) (w : ℚ),
      positionAt path lengths q = .ok p ∧
      path[k]? = some p0 ∧ (path[k + 1]? = some p1 ∨ p1 = p0) ∧ 0 ≤ w ∧ w ≤ 1 ∧
      |toRat32 p.x - (toRat32 p0.x + w * (toRat32 p1.x - toRat32 p0.x))| < 1 / 4 ∧
      |toRat32 p.y - (toRat32 p0.y + w * (toRat32 p1.y - toRat32 p0.y))| < 1 / 4 := by
  have hb0 : Scalar.le (0 : Float) b = true := by
    have hb' : lengths[lengths.length - 1]? = some b := by
      rw [List.getLast?_eq_getElem?] at hb; exact hb
    exact FMO.le_trans _ _ _ ha1 (hs 0 (lengths.length - 1) a b (Nat.zero_le _) ha hb')
  have hdist : dist lengths = b := by unfold dist; rw [hb]
  obtain ⟨h0, h1, _⟩ := progress_to_dist_bounds_float lengths q hq (by rw [hdist]; exact hbf) (by rw [hdist]; exact hb0)
  rw [hdist] at h1
  exact positionAt_progress_err_float32 path lengths q a b hq hlen hs hbd ha hb ha0 hb0 hbf
    (segFinite_of_curve path lengths _ a b hlen hs hbd hfp ha hb ha1 hbf (FMO.le_trans _ _ _ ha0 h0) h1)

/-! ## non-vacuity: the demo curve `(100,200) → (107,224) → (100,200)`, lengths `[0, 25, 50]`, kernel-evaluated -/

section Examples
open Rosu.C16

theorem demo_finitePos : ∀ p ∈ demoPath, FinitePos p := by
  intro p hp
  simp only [demoPath, List.mem_cons, List.not_mem_nil, or_false] at hp
  rcases hp with rfl | rfl | rfl <;> exact ⟨by decide +kernel, by decide +kernel⟩

/-- **every hypothesis of `segFinite_of_bounded` holds on the demo segment** (`d0 = 0`, `d = 10`, `d1 = 25`), and its
conclusion is what `demo_fin10` evaluated. -/
example : SegFinite demoPP demoPE 10 0 25 :=
  segFinite_of_bounded demoPP demoPE 10 0 25 demo_b0 demo_b1 (demo_finitePos _ (by simp [demoPath]))
    (demo_finitePos _ (by simp [demoPath])) (by decide +kernel) (by decide +kernel) (by decide +kernel)
    (by decide +kernel) (by decide +kernel)

/-- the extreme the sharp range lemma is for: `d1 = f64::MAX`, `d0 = 0`, `d = 1`. -/
example : SegFinite demoPP demoPE 1 0 (Float.ofBits 0x7FEFFFFFFFFFFFFF) :=
  segFinite_of_bounded demoPP demoPE 1 0 _ demo_b0 demo_b1 (demo_finitePos _ (by simp [demoPath]))
    (demo_finitePos _ (by simp [demoPath])) (by decide +kernel) (by decide +kernel) (by decide +kernel)
    (by decide +kernel) (by decide +kernel)

/-- `positionAt_dist_on_polyline_float32_nofin` on the demo curve at `d = 30` — no `SegFinite` evaluation needed any more. -/
example : ∃ (p : Pos Float32) (k : Nat) (p0 p1 : Pos Float32) (w : ℚ),
    interpolateVertices demoPath demoLens (idxOfDist demoLens 30) 30 = .ok p ∧
    demoPath[k]? = some p0 ∧ (demoPath[k + 1]? = some p1 ∨ p1 = p0) ∧ 0 ≤ w ∧ w ≤ 1 ∧
    |toRat32 p.x - (toRat32 p0.x + w * (toRat32 p1.x - toRat32 p0.x))| < 1 / 4 ∧
    |toRat32 p.y - (toRat32 p0.y + w * (toRat32 p1.y - toRat32 p0.y))| < 1 / 4 :=
  positionAt_dist_on_polyline_float32_nofin demoPath demoLens 30 0 50 rfl demo_sorted demo_bounded demo_finitePos rfl rfl
    (by decide +kernel) (by decide +kernel) (by decide +kernel) (by decide +kernel)

/-- `positionAt_dist_err_float32_nofin` at `d = 10`: the third alternative (a genuinely interpolated position) holds. -/
example : ∃ p, interpolateVertices demoPath demoLens (idxOfDist demoLens 10) 10 = .ok p ∧
    p = interpPos demoPP demoPE 10 0 25 ∧
    |toRat32 p.x - (toRat32 demoPP.x + (toRat (10 : Float) - toRat (0 : Float)) / (toRat (25 : Float) - toRat (0 : Float)) *
      (toRat32 demoPE.x - toRat32 demoPP.x))| ≤ interpBound := by
  obtain ⟨p, he, h | h | h⟩ := positionAt_dist_err_float32_nofin demoPath demoLens 10 0 50 rfl demo_sorted demo_bounded
    demo_finitePos rfl rfl (by decide +kernel) (by decide +kernel) (by decide +kernel) (by decide +kernel)
  · rw [demo_idx.1] at h; omega
  · obtain ⟨_, _, d0, d1, h2, h3, hdeg⟩ := h
    rw [demo_idx.1] at h2 h3
    cases h2; cases h3
    exact absurd hdeg (by decide +kernel)
  · obtain ⟨_, p0, p1, d0, d1, h0, h1, h2, h3, _, _, _, hp, _, hx, _⟩ := h
    rw [demo_idx.1] at h0 h1 h2 h3
    cases h0; cases h1; cases h2; cases h3
    exact ⟨p, he, hp, hx⟩

/-- `positionAt_progress_err_float32_nofin` on the demo curve at progress `0.2`. -/
example : ∃ (p : Pos Float32) (k : Nat) (p0 p1 : Pos Float32) (w : ℚ),
    positionAt demoPath demoLens 0.2 = .ok p ∧
    demoPath[k]? = some p0 ∧ (demoPath[k + 1]? = some p1 ∨ p1 = p0) ∧ 0 ≤ w ∧ w ≤ 1 ∧
    |toRat32 p.x - (toRat32 p0.x + w * (toRat32 p1.x - toRat32 p0.x))| < 1 / 4 ∧
    |toRat32 p.y - (toRat32 p0.y + w * (toRat32 p1.y - toRat32 p0.y))| < 1 / 4 :=
  (positionAt_progress_err_float32_nofin demoPath demoLens 0.2 0 50 (by decide +kernel) rfl demo_sorted demo_bounded
    demo_finitePos rfl rfl (by decide +kernel) (by decide +kernel) (by decide +kernel)).2.2

end Examples

end Rosu.C19
