/-
  Props/C02Slider.lean — C02, layer 3 completed: slider lines (helper lemmas in Lemmas/Slider*.lean).

  * `path_string_roundtrip`: for every control-point list in the decidable class `SliderRt.RepPath` (decision procedure:
    `SliderRt.decRepPath`, given decidable equality on the scalar and a decidable representability predicate; first point the
    origin and typed; the other points with representable integral absolute coordinates within ±131072; no repeated
    position where the decoder would split — in particular **not** a typed point that could be written implicitly
    repeating its predecessor, finding F17; no implicitly written Catmull segment; perfect curves of exactly three
    non-collinear points; well-formed B-spline degrees), the path string `add_path_data` writes, run through
    `convert_path_str` at the object's position from any scratch state, succeeds and appends exactly those control points.
  * `slider_rt`: the whole slider line against `parse_hit_objects` in any decoder state: start time, position, combo data,
    control points, repeat count, length (as the decoder stores what was written), one node sample list per node.
  * `slider_rt_exact`: in a state with empty `curve_points` (every reachable state) and with an expected length that is
    its own `max(·, 0)` and at least `f64::EPSILON`, the fields come back exactly.
  * `node_samples_rt`: names and banks of a node sample list in the decoder's own shape come back.
  * `hitobjects_block_rt`: for a map all of whose objects are representable, the `[HitObjects]` block read back from any
    decoder state appends one object per written line, of the same kinds at the same start times, in order.
  Findings named by the hypotheses: **F17** (a typed point — the first one included — whose position is repeated at a
  segment start: excluded by `RepPath` through `ChainOK`, with `example`s in Lemmas/SliderEx.lean that those shapes are
  outside the class), **F18** (a node's custom sample file name is never written), **F20** (`RepSlider.distRep`: the written
  length must be within ±131072; a computed curve length above that is written and rejected on re-read).
  Law-dependent: `CodecLaws` for both float types plus `SliderRt.CoordLaws` (an `f32` coordinate printed with `Display`
  and read with `f64`'s `FromStr` truncates to the same integer and does not start with a letter); satisfiable
  (`slider_laws_satisfiable`), with worked instances in Lemmas/SliderEx.lean.
-/
import RosuModel.Props.C02
import RosuModel.Lemmas.SliderEx
import RosuModel.Lemmas.HitObjectBlock
set_option linter.unusedSectionVars false
namespace Rosu.C02
open Rosu Encode EncodeLines C11 Scalar

section
variable {F P : Type} [Scalar F] [Scalar P] [Cvt P F] [Trig F] [Trig P] {RF : F → Prop} {RP : P → Prop}

/-- **path_string_roundtrip**: decoding the encoded path string at the object's position gives back exactly the same
control points — positions relative to the object, and path types. `st` is any state of the decoder's two path buffers;
`convert_path_str` appends to `curve_points` (empty whenever a line is parsed, see `path_string_roundtrip_fresh`). -/
theorem path_string_roundtrip (LP : CodecLaws P RP) (LC : SliderRt.CoordLaws F P RP) (pos : Pos P)
    (cps : List (PathControlPoint P)) (h : SliderRt.RepPath RP pos cps) (st : PathScratch P) :
    pathPointsLoop pos cps cps.length 0 none cps = SliderRt.pathText pos cps ++ [','] ∧
    (convertPathStr F st (SliderRt.pathText pos cps) pos).2 = true ∧
    (convertPathStr F st (SliderRt.pathText pos cps) pos).1.curvePoints = st.curvePoints ++ cps :=
  ⟨(SliderRt.path_roundtrip (F := F) LP LC pos cps h st).1, (SliderRt.path_roundtrip (F := F) LP LC pos cps h st).2.2.2.1,
   (SliderRt.path_roundtrip (F := F) LP LC pos cps h st).2.2.2.2⟩

theorem path_string_roundtrip_fresh (LP : CodecLaws P RP) (LC : SliderRt.CoordLaws F P RP) (pos : Pos P)
    (cps : List (PathControlPoint P)) (h : SliderRt.RepPath RP pos cps) (vs : List (PathControlPoint P)) :
    (convertPathStr F ⟨[], vs⟩ (SliderRt.pathText pos cps) pos).2 = true ∧
    (convertPathStr F ⟨[], vs⟩ (SliderRt.pathText pos cps) pos).1.curvePoints = cps := by
  have := path_string_roundtrip (F := F) LP LC pos cps h ⟨[], vs⟩
  exact ⟨this.2.1, by simpa using this.2.2⟩

/-- **slider_rt**: the line written for a representable slider decodes, in any state, to a slider at the same start
time and position, with the same combo offset when it starts a combo, `new_combo` or-ed with the decoder's forcing rule,
the same control points (appended to the state's `curve_points`), the same repeat count, the written length as the
decoder stores it (`lenOf`: `max(len, 0)`, absent below `f64::EPSILON`; `dist` is the expected length, or the length of
the computed curve when there is none), `repeat_count + 2` node sample lists (`decodedNodes`: `convert_sound_type` of
each node's hit-sound byte and two banks), velocity 1 (set later from the timing points), and the object's samples from
its hit-sound byte and two banks. -/
theorem slider_rt (LF : CodecLaws F RF) (LP : CodecLaws P RP) (LC : SliderRt.CoordLaws F P RP) (mode : GameMode)
    (h : HitObject F P) (s : HitObjectSlider F P) (dist : F) (hk : h.kind = .slider s)
    (hr : SliderRt.RepSlider RF RP mode h s dist) (st : HOCore F P) :
    encodeObject mode h = .ok (SliderRt.sliderLine mode h s dist ++ EncodeLines.nl) ∧
    ∃ vs, parseHitObjectLine mode st (trimEnd (SliderRt.sliderLine mode h s dist)) =
      (SliderRt.sliderPushed st vs h.startTime (.slider (SliderRt.decodedSlider mode st h s dist))
        ((SliderRt.objInfo h.samples).convertSoundType (soundTypeOf h.samples : Nat)), true) :=
  ⟨(SliderRt.slider_line_roundtrip LF LP LC mode h s dist hk hr st).1,
   (SliderRt.slider_line_roundtrip LF LP LC mode h s dist hk hr st).2.2.2⟩

/-- **slider_rt_exact**: what comes back, field by field, in a state whose `curve_points` is empty (as it is whenever
`parse_hit_objects` is entered) for a slider with an expected length `d` that the decoder's own normalisation leaves
alone (`max(d, 0) = d`, `|d| ≥ f64::EPSILON` — true of every decoded expected length in exact arithmetic; a hypothesis
on the value here). -/
theorem slider_rt_exact (mode : GameMode) (h : HitObject F P) (s : HitObjectSlider F P) (d : F) (st : HOCore F P)
    (hst : st.curvePoints = []) (hmax : Scalar.max d 0 = d) (heps : le (Scalar.eps : F) (Scalar.abs d) = true)
    (hexp : s.path.expectedDist = some d) :
    let k := SliderRt.decodedSlider mode st h s d
    k.pos = s.pos ∧ k.path.controlPoints = s.path.controlPoints ∧ k.path.expectedDist = s.path.expectedDist ∧
    k.repeatCount = s.repeatCount ∧ k.nodeSamples.length = (s.repeatCount + 1).toNat + 1 ∧
    k.comboOffset = (if s.newCombo then s.comboOffset else 0) ∧
    k.newCombo = (st.lastObject.isNone || lastWasSpinner st || s.newCombo) := by
  simp only [SliderRt.decodedSlider, hst, List.nil_append, SliderRt.lenOf, hmax, heps, if_true, hexp,
    SliderRt.decodedNodes, List.length_map, List.length_range, SliderRt.nodeCount, and_self]

/-- the node sample list decoded for node `i`. -/
theorem decodedNodes_get (s : HitObjectSlider F P) (samples : List HitSampleInfo) (i : Nat) (ns : List HitSampleInfo)
    (hi : s.nodeSamples[i]? = some ns) (hlt : i < SliderRt.nodeCount s) :
    (SliderRt.decodedNodes s samples)[i]? =
      some ((SliderRt.nodeInfo (SliderRt.objInfo samples) (RtObjects.normalBankOf ns) (RtObjects.addBankOf ns)).convertSoundType
        (soundTypeOf ns : Nat)) := by
  simp only [SliderRt.decodedNodes, List.getElem?_map, List.getElem?_range hlt, Option.map_some, SliderRt.nodeBanks,
    SliderRt.nodeSound, hi]

end

/-- names and banks of one node sample list in the decoder's own shape. -/
theorem node_names_banks (base : SampleBankInfo) (first sF sW sC : HitSampleInfo) (fi wh cl : Bool) (nb ab : SampleBank)
    (h1 : first.name = .default .normal) (h1b : first.bank = nb) (hnb : nb ≠ .none) (hab : ab ≠ .none)
    (hF : sF.name = .default .finish) (hFb : sF.bank = ab) (hW : sW.name = .default .whistle) (hWb : sW.bank = ab)
    (hC : sC.name = .default .clap) (hCb : sC.bank = ab) :
    ((SliderRt.nodeInfo base (RtObjects.normalBankOf (first :: (RtObjects.optS fi sF ++ RtObjects.optS wh sW ++ RtObjects.optS cl sC)))
        (RtObjects.addBankOf (first :: (RtObjects.optS fi sF ++ RtObjects.optS wh sW ++ RtObjects.optS cl sC)))).convertSoundType
      (soundTypeOf (first :: (RtObjects.optS fi sF ++ RtObjects.optS wh sW ++ RtObjects.optS cl sC)) : Nat)).map RtObjects.nameBank =
      (first :: (RtObjects.optS fi sF ++ RtObjects.optS wh sW ++ RtObjects.optS cl sC)).map RtObjects.nameBank := by
  have hnb' : (nb == SampleBank.none) = false := by simpa using hnb
  have hab' : (ab == SampleBank.none) = false := by simpa using hab
  cases fi <;> cases wh <;> cases cl <;>
    simp (decide := true) [SliderRt.nodeInfo, RtObjects.normalBankOf, RtObjects.addBankOf, soundTypeOf, RtObjects.optS,
      List.find?, h1, hF, hW, hC, h1b, hFb, hWb, hCb, SampleBankInfo.convertSoundType, HitSampleInfo.new, RtObjects.nameBank,
      someUnlessNone, hnb', hab', testBit, sndFinish, sndWhistle, sndClap, sndNormal]

section
variable {F P : Type} [Scalar F] [Scalar P] [Cvt P F] [Trig F] [Trig P]

/-- **node_samples_rt**: for a node whose sample list has the decoder's own shape — a `Normal` sample with a specified
bank, then any subset of finish / whistle / clap (in this order) sharing a specified addition bank — the list decoded
for that node has the same names and banks in the same order. (A custom file name on a node is not written at all:
finding F18; volume, custom index, suffix and layering flag are outside the preserved view.) -/
theorem node_samples_rt (s : HitObjectSlider F P) (samples : List HitSampleInfo) (i : Nat) (first sF sW sC : HitSampleInfo)
    (fi wh cl : Bool) (ab : SampleBank)
    (hi : s.nodeSamples[i]? = some (first :: (RtObjects.optS fi sF ++ RtObjects.optS wh sW ++ RtObjects.optS cl sC)))
    (hlt : i < SliderRt.nodeCount s) (h1 : first.name = .default .normal) (hnb : first.bank ≠ .none) (hab : ab ≠ .none)
    (hF : sF.name = .default .finish) (hFb : sF.bank = ab) (hW : sW.name = .default .whistle) (hWb : sW.bank = ab)
    (hC : sC.name = .default .clap) (hCb : sC.bank = ab) :
    ((SliderRt.decodedNodes s samples)[i]?).map (fun l => l.map RtObjects.nameBank) =
      some ((first :: (RtObjects.optS fi sF ++ RtObjects.optS wh sW ++ RtObjects.optS cl sC)).map RtObjects.nameBank) := by
  rw [decodedNodes_get s samples i _ hi hlt, Option.map_some,
    node_names_banks _ first sF sW sC fi wh cl first.bank ab h1 rfl hnb hab hF hFb hW hWb hC hCb]

end

/-- the three law structures the slider theorems need are satisfiable together (toy codec). -/
theorem slider_laws_satisfiable : CodecLaws ZC ZC.Rep ∧ SliderRt.CoordLaws ZC ZC ZC.Rep := ⟨ZC.laws, SliderRt.ZC.coordLaws⟩

/-- non-vacuity: a ten-point, four-segment path (implicit and explicit segment starts, a repeated point before a typed
one, a perfect curve) is representable and comes back. -/
example : (convertPathStr ZC ⟨[], []⟩ (SliderRt.pathText SliderRt.exPos SliderRt.exPath) SliderRt.exPos).1.curvePoints = SliderRt.exPath :=
  (path_string_roundtrip_fresh ZC.laws SliderRt.ZC.coordLaws SliderRt.exPos SliderRt.exPath SliderRt.exPath_rep []).2

example (st : HOCore ZC ZC) := slider_rt ZC.laws ZC.laws SliderRt.ZC.coordLaws GameMode.osu SliderRt.exSliderObj SliderRt.exSlider
  ⟨420⟩ rfl SliderRt.exSlider_rep st

example (st : HOCore ZC ZC) (hst : st.curvePoints = []) :=
  slider_rt_exact GameMode.osu SliderRt.exSliderObj SliderRt.exSlider ⟨420⟩ st hst (by decide) (by decide) rfl

section
variable {F P : Type} [Scalar F] [Scalar P] [Cvt P F] [Trig F] [Trig P] {RF : F → Prop} {RP : P → Prop}

/-- **hitobjects_block_rt** — the `[HitObjects]` block of a map whose objects are all representable
(`SliderRt.RepObject`): the lines `encode_hit_objects` writes, read back through `parse_hit_objects` from any decoder
state, are all accepted and append exactly one object per line — the same number of objects, of the same kinds, at the
same start times, in the same order — and leave the path buffer empty. (Per object, `circle_rt` / `slider_rt` /
`spinner_rt` / `hold_rt` say what else comes back.) -/
theorem hitobjects_block_rt (LF : CodecLaws F RF) (LP : CodecLaws P RP) (LC : SliderRt.CoordLaws F P RP) (m : Beatmap F P)
    (hm : ∀ h ∈ m.hitObjects, SliderRt.RepObject RF RP m.general.mode h) :
    ∃ H : List Str, encodeHitObjects m = .ok (unlines (str "[HitObjects]" :: H)) ∧
      ∀ st : HOCore F P, Accepts (parseHitObjectLine m.general.mode) st (H.map trimEnd) ∧
        ∃ os, (runSection (parseHitObjectLine m.general.mode) st (H.map trimEnd)).hitObjects = st.hitObjects ++ os ∧
          os.map SliderRt.timeKind = m.hitObjects.map SliderRt.timeKind ∧
          (st.curvePoints = [] → (runSection (parseHitObjectLine m.general.mode) st (H.map trimEnd)).curvePoints = []) := by
  obtain ⟨H, h1, _, _, h4⟩ := SliderRt.block_lines LF LP LC m.general.mode m.hitObjects hm
  refine ⟨H, ?_, h4⟩
  unfold encodeHitObjects
  simp only [h1, bind, Except.bind, pure, Except.pure, unlines_cons]
  rfl

/-- non-vacuity: a two-object block (the sample circle and the sample slider) on the toy codec. -/
example : ∀ h ∈ [RtObjects.sampleCircleObj, SliderRt.exSliderObj], SliderRt.RepObject ZC.Rep ZC.Rep GameMode.osu h := by
  intro h hh
  simp only [List.mem_cons, List.not_mem_nil, or_false] at hh
  rcases hh with hh | hh <;> subst hh
  · exact .circle _ rfl RtObjects.sampleCircle_rep
  · exact .slider _ ⟨420⟩ rfl SliderRt.exSlider_rep

end

/-- what is still missing for the hit-object half of `roundtrip_statement`: that every
object of a *decoded* map is representable in the sense of `SliderRt.RepObject` (outside the documented findings F17,
F18, F20) — with that, `hitobjects_block_rt` gives the statement below — and the map-level processing after the lines. -/
def hitobjects_roundtrip_statement : Prop :=
  ∀ (F P : Type) [Scalar F] [Scalar P] [Cvt P F] [Trig F] [Trig P] (RF : F → Prop) (RP : P → Prop),
    CodecLaws F RF → CodecLaws P RP → SliderRt.CoordLaws F P RP →
    ∀ (x : List Str) (m : Beatmap F P) (objects : Str),
      (frame beatmapDecoder x : BeatmapState F P).finish = .ok m → encodeHitObjects m = .ok objects →
      ∃ H, objects = unlines (str "[HitObjects]" :: H) ∧
        Accepts (parseHitObjectLine m.general.mode) ({} : HOCore F P) (H.map trimEnd) ∧
        (runSection (parseHitObjectLine m.general.mode) ({} : HOCore F P) (H.map trimEnd)).hitObjects.length = m.hitObjects.length

end Rosu.C02
