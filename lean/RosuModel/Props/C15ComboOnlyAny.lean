/-
  Props/C15ComboOnlyAny.lean — C15, `only_first_after_break_forced` WITHOUT the hypothesis that the breaks are listed in
  end-time order: the break under the cursor when a flag is forced has not been "seen" by any earlier object, for ANY listing
  of the breaks and ANY order of the objects, from one NaN-free order law (`a < x`, `¬ y < x`, `y < z` ⟹ `a < z`; a chain
  `b_c < s_j ≤ b_{c_j} < s_k ≤ … ≤ b_c` would close). The law holds of IEEE `<` on ALL doubles, NaN included
  (`chain_ieee`), so for the driver's `Float` the clause is unconditional (`only_first_after_break_forced_float`).
-/
import RosuModel.Props.C15ComboOnly
import RosuModel.Props.C15Ieee
set_option linter.unusedSectionVars false
namespace Rosu.C15
open Rosu Scalar

section
variable {F P : Type} [Scalar F] [Scalar P]

/-- the order law used: `a < x ≤ y < z → a < z`, with `≤` read as `¬ >` (vacuous when a NaN makes a premise false). -/
def ChainLaw (F : Type) [Scalar F] : Prop :=
  ∀ a x y z : F, lt a x = true → lt y x = false → lt y z = true → lt a z = true

/-- an object at time `t` whose walk stopped at `cur`: whatever break the cursor is at after `k` more objects, it does not
end before `t`. -/
theorem cursor_not_before (hch : ChainLaw F) (breaks : List (BreakPeriod F)) :
    ∀ (hs : List (HitObject F P)) (cur k : Nat) (b : BreakPeriod F) (t : F),
      breaks[cursorAt breaks hs cur k]? = some b →
      (∀ b', breaks[cur]? = some b' → lt b'.endTime t = false) → lt b.endTime t = false := by
  intro hs
  induction hs with
  | nil => intro cur k b t hb hstop; exact hstop b (by simpa [cursorAt] using hb)
  | cons x rest ih =>
    intro cur k b t hb hstop
    cases k with
    | zero => exact hstop b (by simpa [cursorAt] using hb)
    | succ k' =>
      simp only [cursorAt] at hb
      obtain ⟨s1, _, s3⟩ := skipBreaks_spec breaks x.startTime (breaks.length + 1) cur false
      have hstopx := skipBreaks_stops breaks x.startTime (breaks.length + 1) cur false (by omega)
      by_cases heq : (skipBreaks breaks x.startTime (breaks.length + 1) cur false).1 = cur
      · rw [heq] at hb; exact ih cur k' b t hb hstop
      · -- `x` passed the break at `cur`
        obtain ⟨b0, hb0, hlt0⟩ := s3 cur (Nat.le_refl _) (by omega)
        have h0t := hstop b0 hb0
        have hbx := ih _ k' b x.startTime hb hstopx
        cases hbt : lt b.endTime t with
        | false => rfl
        | true => rw [hch _ _ _ _ hbt h0t hlt0] at hbx; cases hbx

/-- the cursor break at `i` does not end before any earlier object — for any listing of the breaks. -/
theorem cursor_break_first_any (hch : ChainLaw F) (breaks : List (BreakPeriod F)) :
    ∀ (hs : List (HitObject F P)) (cur i : Nat) (b : BreakPeriod F),
      breaks[cursorAt breaks hs cur i]? = some b →
      ∀ j hj, j < i → hs[j]? = some hj → lt b.endTime hj.startTime = false := by
  intro hs
  induction hs with
  | nil => intro cur i b _ j hj _ e; simp at e
  | cons x rest ih =>
    intro cur i b hb j hj hji e
    cases i with
    | zero => omega
    | succ k =>
      simp only [cursorAt] at hb
      cases j with
      | succ j' =>
        simp only [List.getElem?_cons_succ] at e
        exact ih _ k b hb j' hj (by omega) e
      | zero =>
        simp only [List.getElem?_cons_zero, Option.some.injEq] at e
        subst e
        exact cursor_not_before hch breaks rest _ k b x.startTime hb
          (skipBreaks_stops breaks x.startTime (breaks.length + 1) cur false (by omega))

/-- **only_first_after_break_forced** — if `post_process_breaks` changed the flag of object `i`, the flag was `false`, is
`true`, the object is no hold, and there is a break `b` (the one under the cursor) with `b.end_time < hs[i].start_time` that
no earlier object `j < i` starts after. No hypothesis on the order of breaks or objects; one order law. -/
theorem only_first_after_break_forced (hch : ChainLaw F)
    (breaks : List (BreakPeriod F)) (hs : List (HitObject F P))
    (i : Nat) (h h' : HitObject F P) (hi : hs[i]? = some h) (hi' : (postProcessBreaks breaks hs 0)[i]? = some h')
    (hne : kindNewCombo h'.kind ≠ kindNewCombo h.kind) :
    kindNewCombo h.kind = false ∧ kindNewCombo h'.kind = true ∧ isHold h.kind = false ∧
      ∃ b ∈ breaks, lt b.endTime h.startTime = true ∧
        ∀ j hj, j < i → hs[j]? = some hj → lt b.endTime hj.startTime = false := by
  obtain ⟨a1, a2, a3, b, hb, hlt⟩ := changed_flag_cursor breaks hs 0 i h h' hi hi' hne
  exact ⟨a1, a2, a3, b, List.mem_of_getElem? hb, hlt, cursor_break_first_any hch breaks hs 0 i b hb⟩

/-- the full statement `only_first_after_break_forced_statement` (Props/C15ComboOnly.lean) follows from the law. -/
theorem only_first_after_break_forced_statement_of_chain (hch : ChainLaw F) :
    only_first_after_break_forced_statement F P := by
  intro breaks hs i h h' hi hi' hne
  obtain ⟨a1, a2, _, r⟩ := only_first_after_break_forced hch breaks hs i h h' hi hi' hne
  exact ⟨a1, a2, r⟩

end

/-- the law on the toy integers. -/
theorem chain_Z : ChainLaw Z := by
  intro a x y z h1 h2 h3
  simp only [Scalar.lt, decide_eq_false_iff_not, decide_eq_true_eq] at *
  omega

/-- the law for IEEE `<` — all values, NaN included (a true `<` has numbers on both sides). -/
theorem chain_ieee {α : Type} [Scalar α] [FMO.IeeeOrd α] : ChainLaw α := by
  intro a x y z h1 h2 h3
  exact FMO.lt_trans a x z h1 (FMO.lt_of_not_lt_of_lt x y z (FMO.not_nan_of_lt h1).2 h2 h3)

/-- **only_first_after_break_forced** for IEEE doubles: unconditional. -/
theorem only_first_after_break_forced_float : only_first_after_break_forced_statement Float Float32 :=
  only_first_after_break_forced_statement_of_chain chain_ieee

-- non-vacuity: breaks listed OUT of order, objects 20, 60: the circle at 60 is forced by the cursor break (0,50)
example : kindNewCombo (zCircle 60).kind = false ∧
    kindNewCombo ({ zCircle 60 with kind := (zCircle 60).kind.orNewCombo true } : HitObject Z Z).kind = true ∧ isHold (zCircle 60).kind = false ∧
    ∃ b ∈ [zBreak 0 50, zBreak 0 10], lt b.endTime (zCircle 60).startTime = true ∧
      ∀ j hj, j < 1 → [zCircle 20, zCircle 60][j]? = some hj → lt b.endTime hj.startTime = false :=
  only_first_after_break_forced chain_Z [zBreak 0 50, zBreak 0 10] [zCircle 20, zCircle 60] 1 (zCircle 60)
    { zCircle 60 with kind := (zCircle 60).kind.orNewCombo true } rfl rfl (by decide)

#print axioms only_first_after_break_forced
#print axioms only_first_after_break_forced_float

end Rosu.C15
