/-
  Props/C14Grammar.lean — C14: the model parser of `[HitObjects]` lines computes the declarative
  reference grammar `HoSpec` (Lemmas/HoGrammarSpec.lean): `parse_eq_reference`, for every line, every
  decoder state, every `Scalar` instance (no arithmetic law is used; the number parser is abstract).
  Then the clauses of the property text as corollaries of the grammar, and worked lines of every kind
  and every rejection rule on the toy scalar `Z`.
-/
import RosuModel.Props.C14Split
import RosuModel.Lemmas.HoGrammarSlider
import RosuModel.Lemmas.HoGrammarClauses
namespace Rosu.C14
open Rosu Scalar HoSpec

set_option linter.unusedSectionVars false

variable {F P : Type} [Scalar F] [Scalar P] [Cvt P F]

/-- what pushing an object does, in the spec's words. -/
theorem view_push (st : HOCore F P) (h : Header F P) (fs : List Str) (k : HitObjectKind F P) (b : SampleBankInfo) :
    viewOf (pushObject st h k b) =
      { lastObject := some (accept (toHead h fs) k b).remembered
        curvePoints := st.curvePoints
        hitObjects := st.hitObjects ++ [(accept (toHead h fs) k b).obj] } := by
  simp only [viewOf, pushObject, accept, toHead, samplesOf_eq, maskedType_eq]

/-- **parse_eq_reference.** For every game mode, every decoder state and every line, the model of
`parse_hit_objects` and the reference grammar agree: the same verdict, and the same state afterwards
(everything except the scratch buffer `vertices`, which no line reads) — so the same object on
acceptance, and on rejection no change except an emptied path buffer after a slider line whose only
malformation is its path. In particular the result does not depend on `vertices`. -/
theorem parse_eq_reference (mode : GameMode) (st : HOCore F P) (line : Str) :
    (viewOf (parseHitObjectLine mode st line).1, (parseHitObjectLine mode st line).2) = step mode (viewOf st) line := by
  have hh := head_eq (F := F) (P := P) line
  unfold parseHitObjectLine step specLine
  cases hph : (parseHeader line : Option (Header F P)) with
  | none =>
    rw [hph] at hh
    obtain ⟨r, hr, hne⟩ := hh
    simp only [hr, hne, if_false]
  | some h =>
    rw [hph] at hh
    obtain ⟨⟨a, b, c, d, e, hfs⟩, hhead⟩ := hh
    simp only [hhead, body]
    rw [hfs]
    have hk : kindOf (toHead h (a :: b :: c :: d :: e :: h.rest)).ty = classify (maskedType h.ty0) := (classify_masked h.ty0).symm
    rw [hk]
    cases hc : classify (maskedType h.ty0) with
    | none => simp
    | some cls =>
      cases cls with
      | circle =>
        have hm := circle_eq_reference a b c d e mode st h
        simp only
        cases hb : buildCircle st h with
        | none =>
          rw [hb] at hm
          obtain ⟨rj, hr, hne⟩ := hm
          simp only [hr, hne, if_false]
        | some kb =>
          obtain ⟨k, bi⟩ := kb
          rw [hb] at hm
          have hkind := circle_fields st h k bi hb
          simp only [Matches] at hm
          simp only [hm, view_push st h (a :: b :: c :: d :: e :: h.rest)]
          subst hkind
          rfl
      | slider =>
        have hm := slider_eq_reference a b c d e mode st h
        simp only
        cases hb : buildSlider mode st h with
        | mk st' r =>
          rw [hb] at hm
          cases r with
          | none =>
            simp only at hm
            rcases hm with ⟨rj, hr, hne, hv⟩ | ⟨hr, hv⟩
            · simp only [hr, hne, if_false, hv]
            · simp only [hr, if_true, hv]
          | some kb =>
            obtain ⟨k, bi⟩ := kb
            simp only at hm
            obtain ⟨hr, ⟨s, hs⟩, hv⟩ := hm
            subst hs
            have hvp := view_push st' h (a :: b :: c :: d :: e :: h.rest) (.slider s) bi
            have h1 : st'.curvePoints = [] := by
              have := congrArg View.curvePoints hv; simpa [viewOf] using this
            have h2 : st'.hitObjects = st.hitObjects := by
              have := congrArg View.hitObjects hv; simpa [viewOf] using this
            simp only [hr, hvp, h1, h2]
            rfl
      | spinner =>
        have hm := spinner_eq_reference a b c d e h
        simp only
        cases hb : buildSpinner h with
        | none =>
          rw [hb] at hm
          obtain ⟨rj, hr, hne⟩ := hm
          simp only [hr, hne, if_false]
        | some kb =>
          obtain ⟨k, bi⟩ := kb
          rw [hb] at hm
          obtain ⟨dv, hkind⟩ := spinner_fields h k bi hb
          simp only [Matches] at hm
          simp only [hm, view_push st h (a :: b :: c :: d :: e :: h.rest)]
          subst hkind
          rfl
      | hold =>
        have hm := hold_eq_reference a b c d e h
        simp only
        cases hb : buildHold h with
        | none =>
          rw [hb] at hm
          obtain ⟨rj, hr, hne⟩ := hm
          simp only [hr, hne, if_false]
        | some kb =>
          obtain ⟨k, bi⟩ := kb
          rw [hb] at hm
          have hkind := buildHold_class h k bi hb
          simp only [Matches] at hm
          simp only [hm, view_push st h (a :: b :: c :: d :: e :: h.rest)]
          cases k with
          | hold hh => rfl
          | circle _ => cases hkind
          | slider _ => cases hkind
          | spinner _ => cases hkind

/-! ### consequences for the parser -/

/-- the verdicts agree. -/
theorem accepts_iff_reference (mode : GameMode) (st : HOCore F P) (line : Str) :
    (parseHitObjectLine mode st line).2 = true ↔
      ∃ a, (specLine (ctxOf mode (viewOf st)) line : Except Reject (Accepted F P)) = .ok a := by
  have h := congrArg Prod.snd (parse_eq_reference mode st line)
  simp only [step] at h
  rw [h]
  cases (specLine (ctxOf mode (viewOf st)) line : Except Reject (Accepted F P)) <;> simp

/-- **the exact list of rejecting malformations**: a line is rejected iff the grammar names one of the
sixteen reasons of `HoSpec.Reject`. -/
theorem rejects_iff_reference (mode : GameMode) (st : HOCore F P) (line : Str) :
    (parseHitObjectLine mode st line).2 = false ↔
      ∃ r, (specLine (ctxOf mode (viewOf st)) line : Except Reject (Accepted F P)) = .error r := by
  have h := congrArg Prod.snd (parse_eq_reference mode st line)
  simp only [step] at h
  rw [h]
  cases (specLine (ctxOf mode (viewOf st)) line : Except Reject (Accepted F P)) <;> simp

/-- an accepted line: the object of the grammar is appended and its masked type remembered. -/
theorem accepted_by_reference (mode : GameMode) (st : HOCore F P) (line : Str) (a : Accepted F P)
    (h : (specLine (ctxOf mode (viewOf st)) line : Except Reject (Accepted F P)) = .ok a) :
    (parseHitObjectLine mode st line).2 = true ∧
    (parseHitObjectLine mode st line).1.hitObjects = st.hitObjects ++ [a.obj] ∧
    (parseHitObjectLine mode st line).1.lastObject = some a.remembered ∧
    (parseHitObjectLine mode st line).1.curvePoints = if isSliderObj a.obj then [] else st.curvePoints := by
  have hp := parse_eq_reference mode st line
  simp only [step, h, Prod.mk.injEq] at hp
  obtain ⟨hv, hok⟩ := hp
  exact ⟨hok, congrArg View.hitObjects hv, congrArg View.lastObject hv, congrArg View.curvePoints hv⟩

/-- a rejected line: objects and remembered type untouched; the path buffer is emptied exactly when the
reason is the path. -/
theorem rejected_by_reference (mode : GameMode) (st : HOCore F P) (line : Str) (r : Reject)
    (h : (specLine (ctxOf mode (viewOf st)) line : Except Reject (Accepted F P)) = .error r) :
    (parseHitObjectLine mode st line).2 = false ∧
    (parseHitObjectLine mode st line).1.hitObjects = st.hitObjects ∧
    (parseHitObjectLine mode st line).1.lastObject = st.lastObject ∧
    (parseHitObjectLine mode st line).1.curvePoints = if r = .badPath then [] else st.curvePoints := by
  have hp := parse_eq_reference mode st line
  simp only [step, h, Prod.mk.injEq] at hp
  obtain ⟨hv, hok⟩ := hp
  exact ⟨hok, congrArg View.hitObjects hv, congrArg View.lastObject hv, congrArg View.curvePoints hv⟩

/-- the path buffer is empty between lines: the `leftover` of the grammar's context is `[]` in every
state the decoder reaches. -/
theorem leftover_stays_empty (mode : GameMode) (st : HOCore F P) (line : Str) (h : st.curvePoints = []) :
    (parseHitObjectLine mode st line).1.curvePoints = [] := by
  have hp := congrArg (fun x => x.1.curvePoints) (parse_eq_reference mode st line)
  simp only at hp
  show (viewOf (parseHitObjectLine mode st line).1).curvePoints = []
  rw [hp]
  unfold step
  cases (specLine (ctxOf mode (viewOf st)) line : Except Reject (Accepted F P)) with
  | ok a => simp only; split <;> first | rfl | exact h
  | error r => simp only; split <;> first | rfl | exact h

/-- a whole block of lines (fixed game mode). -/
def parseLines (mode : GameMode) (st : HOCore F P) (lines : List Str) : HOCore F P :=
  lines.foldl (fun s l => (parseHitObjectLine mode s l).1) st

def stepLines (mode : GameMode) (v : View F P) (lines : List Str) : View F P :=
  lines.foldl (fun s l => (step mode s l).1) v

/-- **parse_eq_reference, for a block of lines.** -/
theorem parseLines_eq_reference (mode : GameMode) (lines : List Str) :
    ∀ st : HOCore F P, viewOf (parseLines mode st lines) = stepLines mode (viewOf st) lines := by
  induction lines with
  | nil => intro st; rfl
  | cons l ls ih =>
    intro st
    simp only [parseLines, stepLines, List.foldl_cons]
    have := ih (parseHitObjectLine mode st l).1
    simp only [parseLines, stepLines] at this
    have e : viewOf (parseHitObjectLine mode st l).1 = (step mode (viewOf st) l).1 :=
      congrArg Prod.fst (parse_eq_reference mode st l)
    rw [this, e]

/-! ### the clauses of the property, for the parser, from the grammar -/

/-- an accepted line is a header and a kind-specific part of the grammar; its object is appended and
the type with the combo bits cleared is remembered. -/
theorem accepted_line (mode : GameMode) (st : HOCore F P) (line : Str)
    (hok : (parseHitObjectLine mode st line).2 = true) :
    ∃ (hd : Head F P) (a : Accepted F P), head line = .ok hd ∧ body (ctxOf mode (viewOf st)) hd = .ok a ∧
      (parseHitObjectLine mode st line).1.hitObjects = st.hitObjects ++ [a.obj] ∧
      (parseHitObjectLine mode st line).1.lastObject = some (rememberedType hd.ty) := by
  obtain ⟨a, ha⟩ := (accepts_iff_reference mode st line).mp hok
  obtain ⟨hd, hh, hb⟩ := (specLine_ok_iff _ line a).mp ha
  obtain ⟨_, h1, h2, _⟩ := accepted_by_reference mode st line a ha
  refine ⟨hd, a, hh, hb, h1, ?_⟩
  rw [h2, (body_common _ hd a hb).2.1]

/-- **a combo offset counts only together with the new-combo flag** (parser). -/
theorem line_combo_offset_needs_new_combo (mode : GameMode) (st : HOCore F P) (line : Str)
    (hok : (parseHitObjectLine mode st line).2 = true) :
    ∃ (hd : Head F P) (o : HitObject F P), head line = .ok hd ∧
      (parseHitObjectLine mode st line).1.hitObjects = st.hitObjects ++ [o] ∧
      (testBit hd.ty 2 = false → ∀ off, objComboOffset o = some off → off = 0) ∧
      (testBit hd.ty 2 = true → ∀ off, objComboOffset o = some off → off = comboOffsetBits hd.ty) := by
  obtain ⟨hd, a, hh, hb, ho, _⟩ := accepted_line mode st line hok
  have hc := body_combo_offset _ hd a hb
  refine ⟨hd, a.obj, hh, ho, ?_, ?_⟩
  · intro hbit off hoff
    rw [hc] at hoff
    split at hoff <;> simp_all
  · intro hbit off hoff
    rw [hc] at hoff
    split at hoff <;> simp_all

/-- **the first object and the object after a line with the spinner bit start a new combo** when they
are circles or sliders (parser). -/
theorem line_forced_new_combo (mode : GameMode) (st : HOCore F P) (line : Str)
    (hok : (parseHitObjectLine mode st line).2 = true)
    (hf : st.lastObject = none ∨ ∃ t, st.lastObject = some t ∧ testBit t 3 = true) :
    ∃ (hd : Head F P) (o : HitObject F P), head line = .ok hd ∧
      (parseHitObjectLine mode st line).1.hitObjects = st.hitObjects ++ [o] ∧
      (kindOf hd.ty = some .circle ∨ kindOf hd.ty = some .slider → objNewCombo o = some true) := by
  obtain ⟨hd, a, hh, hb, ho, _⟩ := accepted_line mode st line hok
  exact ⟨hd, a.obj, hh, ho, fun hk => body_forced_new_combo _ hd a hb hk hf⟩

/-- **a repeat count above 9000 rejects the line**, and nothing changes (parser). -/
theorem line_repeat_cap (mode : GameMode) (st : HOCore F P) (line : Str) (hd : Head F P) (pathS repS : Str) (r : Int)
    (hh : head line = .ok hd) (hk : kindOf hd.ty = some .slider)
    (h5 : hd.fields[5]? = some pathS) (h6 : hd.fields[6]? = some repS) (hr : i32Parse repS = some r) (hbig : r > 9000) :
    (parseHitObjectLine mode st line).2 = false ∧ viewOf (parseHitObjectLine mode st line).1 = viewOf st := by
  have hs : (specLine (ctxOf mode (viewOf st)) line : Except Reject (Accepted F P)) = .error .repeatTooLarge := by
    simp only [specLine, hh, body, hk]
    exact slider_repeat_cap _ hd pathS repS r h5 h6 hr hbig
  have hp := parse_eq_reference mode st line
  simp only [step, hs, Prod.mk.injEq] at hp
  exact ⟨hp.2, by rw [hp.1]; simp⟩

/-- a slider has `repeats + 2` node sample sets (parser, through the grammar). -/
theorem line_node_count (mode : GameMode) (st : HOCore F P) (line : Str)
    (hok : (parseHitObjectLine mode st line).2 = true) :
    ∃ o : HitObject F P, (parseHitObjectLine mode st line).1.hitObjects = st.hitObjects ++ [o] ∧
      ∀ s, o.kind = .slider s → 0 ≤ s.repeatCount ∧ s.nodeSamples.length = s.repeatCount.toNat + 2 := by
  obtain ⟨hd, a, hh, hb, ho, _⟩ := accepted_line mode st line hok
  refine ⟨a.obj, ho, fun s hs => ?_⟩
  rcases body_ok_cases _ hd a hb with ⟨_, h⟩ | ⟨_, h⟩ | ⟨_, h⟩ | ⟨_, h⟩
  · obtain ⟨info, _, rfl⟩ := (circle_ok_iff _ hd a).mp h
    cases hs
  · obtain ⟨_, _, _, _, r, _, _, _, _, info, _, nodes, hn, _, _, rfl⟩ := (slider_ok_iff _ hd a).mp h
    cases hs
    have := nodeSamples_length _ _ _ _ _ _ hn
    simp only [repeatsOf, nodeCountOf] at this ⊢
    exact ⟨by omega, this⟩
  · obtain ⟨_, _, _, _, info, _, rfl⟩ := (spinner_ok_iff hd a).mp h
    cases hs
  · obtain ⟨r, _, rfl⟩ := (hold_ok_iff hd a).mp h
    cases hs

/-- **the exact list of rejecting malformations** (parser): a rejected line has a header malformation,
or no kind bit, or one of the malformations of the kind its flags select — and nothing else rejects. -/
theorem rejected_line_reasons (mode : GameMode) (st : HOCore F P) (line : Str)
    (hrej : (parseHitObjectLine mode st line).2 = false) :
    ∃ r, (specLine (ctxOf mode (viewOf st)) line : Except Reject (Accepted F P)) = .error r ∧
      ((r = .tooFewFields ∨ r = .badX ∨ r = .badY ∨ r = .badTime ∨ r = .badType ∨ r = .badSound) ∨
       ∃ hd : Head F P, head line = .ok hd ∧
        match kindOf hd.ty with
        | none => r = .noKind
        | some .circle => r = .badSampleTail
        | some .slider => r = .sliderTooFewFields ∨ r = .badRepeat ∨ r = .repeatTooLarge ∨ r = .badLength ∨
            r = .badSampleTail ∨ r = .badEdgeSet ∨ r = .badPath
        | some .spinner => r = .spinnerNoEnd ∨ r = .badEndTime ∨ r = .badSampleTail
        | some .hold => r = .badEndTime ∨ r = .badSampleTail) := by
  obtain ⟨r, hr⟩ := (rejects_iff_reference mode st line).mp hrej
  exact ⟨r, hr, specLine_error_cases _ line r hr⟩

/-! ### non-vacuity: the grammar and the parser evaluated on concrete lines (toy scalar `Z`)

`Z` is the integers with `parse = i32 literal`, `eps = 1`, no NaN (Lemmas/ToyScalar.lean); `spec ctx l`
is the grammar's reading of `l`, `run st l` what the model parser does from state `st`. -/

section Examples

def spec (ctx : Ctx Z) (l : String) : Except Reject (Accepted Z Z) := specLine ctx (str l)
def run (st : HOCore Z Z) (l : String) : HOCore Z Z × Bool := parseHitObjectLine .osu st (str l)
/-- what `run` is compared on: verdict, objects, remembered type, path buffer. -/
def seen (r : HOCore Z Z × Bool) : Bool × List (HitObject Z Z) × Option Int × List (PathControlPoint Z) :=
  (r.2, r.1.hitObjects, r.1.lastObject, r.1.curvePoints)
def rejectOf (ctx : Ctx Z) (l : String) : Option Reject :=
  match spec ctx l with
  | .ok _ => none
  | .error r => some r

def smp (n : HitSampleDefaultName) (bank : Option SampleBank) (custom vol : Int) (layered : Bool := false) : HitSampleInfo :=
  { HitSampleInfo.new (.default n) bank custom vol with isLayered := layered }

/-- circle, type 5 = circle + new combo, sound 2 = whistle (NORMAL bit clear ⇒ layered normal), full sample field. -/
def exCircle : HitObject Z Z :=
  { startTime := ⟨300⟩, kind := .circle { pos := ⟨⟨10⟩, ⟨20⟩⟩, newCombo := true, comboOffset := 0 }
    samples := [smp .normal (some .normal) 3 40 true, smp .whistle (some .soft) 3 40] }
example : spec { mode := .osu } "10,20,300,5,2,1:2:3:40:" = .ok ⟨exCircle, 1⟩ := rfl
example : seen (run {} "10,20,300,5,2,1:2:3:40:") = (true, [exCircle], some 1, []) := rfl

/-- slider, type 38 = slider + new combo + offset bit 32 (offset 2); two segments — `120:60` is handed
to the first as its end point (not emitted there), opens the second, and its repetition inside the second
segment is a split: the duplicate is dropped; repeats 2 ⇒ 3 nodes; edge sounds `2|x|8|4`: unreadable ⇒ 0, fourth ignored; edge sets for
two nodes, the third falls back to the object's banks `3:1` (custom/volume/file of a slider tail are not read). -/
def exSlider : HitObject Z Z :=
  { startTime := ⟨1000⟩
    kind := .slider
      { pos := ⟨⟨100⟩, ⟨50⟩⟩, newCombo := true, comboOffset := 2
        path := { mode := .osu, expectedDist := some ⟨75⟩
                  controlPoints := [zp 0 0 (some PathType.bezier), zp 10 10, zp 20 10 (some PathType.linear), zp 30 20] }
        nodeSamples := [[smp .normal (some .normal) 0 0 true, smp .whistle (some .soft) 0 0],
                        [smp .normal none 5 0],
                        [smp .normal (some .drum) 0 0 true, smp .clap (some .normal) 0 0]]
        repeatCount := 1, velocity := ⟨1⟩ }
    samples := [smp .normal (some .drum) 0 0] }
example : spec { mode := .osu } "100,50,1000,38,0,B|110:60|L|120:60|120:60|130:70,2,75,2|x|8|4,1:2|0:0:5,3:1:9:9:f" = .ok ⟨exSlider, 2⟩ := rfl
example : seen (run {} "100,50,1000,38,0,B|110:60|L|120:60|120:60|130:70,2,75,2|x|8|4,1:2|0:0:5,3:1:9:9:f") = (true, [exSlider], some 2, []) := rfl

/-- spinner, type 12 = spinner + new combo: centre of the playfield, end before start ⇒ duration 0. -/
def exSpinner : HitObject Z Z :=
  { startTime := ⟨1000⟩, kind := .spinner { pos := ⟨⟨256⟩, ⟨192⟩⟩, duration := ⟨0⟩, newCombo := true }
    samples := [smp .normal none 0 0 true, smp .finish (some .drum) 0 0] }
example : spec { mode := .osu, lastType := some 1 } "1,2,1000,12,4,900,0:3" = .ok ⟨exSpinner, 8⟩ := rfl
example : seen (run { lastObject := some 1 } "1,2,1000,12,4,900,0:3") = (true, [exSpinner], some 8, []) := rfl

/-- hold: `end:sampleField` in one field; a file name replaces the base sample. -/
def exHold : HitObject Z Z :=
  { startTime := ⟨1000⟩, kind := .hold { posX := ⟨64⟩, duration := ⟨500⟩ }
    samples := [{ name := .file (str "hit.wav"), bank := .normal, suffix := none, volume := 70, customSampleBank := 1,
                  bankSpecified := false, isLayered := false }] }
example : spec { mode := .mania } "64,7,1000,128,0,1500:2:0:0:70:hit.wav" = .ok ⟨exHold, 128⟩ := rfl
example : seen (run {} "64,7,1000,128,0,1500:2:0:0:70:hit.wav") = (true, [exHold], some 128, []) := rfl
-- hold without its field: ends where it starts
example : (spec { mode := .mania } "64,7,1000,128,0").toOption.map (·.obj.kind) = some (.hold { posX := ⟨64⟩, duration := ⟨0⟩ }) := rfl

def plain (nc : Bool) (co : Int) : HitObject Z Z :=
  { startTime := ⟨10⟩, kind := .circle { pos := ⟨⟨1⟩, ⟨1⟩⟩, newCombo := nc, comboOffset := co }, samples := [smp .normal none 0 0] }
-- combo offset bits without the new-combo flag (17 = 1 + 16) count for nothing …
example : spec { mode := .osu, lastType := some 1 } "1,1,10,17,0" = .ok ⟨plain false 0, 1⟩ := rfl
-- … with it (21 = 1 + 4 + 16) the offset is 1; a `//` comment is cut
example : spec { mode := .osu, lastType := some 1 } "1,1,10,21,0 // c" = .ok ⟨plain true 1, 1⟩ := rfl
-- first object: forced new combo
example : spec { mode := .osu } "1,1,10,1,0" = .ok ⟨plain true 0, 1⟩ := rfl
-- after a line with the spinner bit — here type 9, which is a CIRCLE by precedence — forced new combo too
example : spec { mode := .osu, lastType := some 9 } "1,1,10,1,0" = .ok ⟨plain true 0, 1⟩ := rfl
example : (seen (run (run {} "1,1,5,9,0").1 "1,1,10,1,0")).2.1.map (objNewCombo ·) = [some true, some true] := rfl
-- kind precedence: 139 = 1 + 2 + 8 + 128 is a circle, 138 a slider (rejected here: no path), 136 a spinner
example : (spec { mode := .osu } "1,1,10,139,0").toOption.map (kindClass ·.obj.kind) = some .circle := rfl
example : rejectOf { mode := .osu } "1,1,10,138,0" = some .sliderTooFewFields := rfl
example : (spec { mode := .osu } "1,1,10,136,0,20").toOption.map (kindClass ·.obj.kind) = some .spinner := rfl
-- positions are truncated: the toy scalar has integers only, so this shows the ±131072 limit
example : rejectOf { mode := .osu } "131072,-131072,10,1,0" = none := rfl

/-! one rejected line per rule, the grammar's reason and the parser's verdict -/

example : rejectOf { mode := .osu } "1,2,3,1" = some .tooFewFields ∧ (run {} "1,2,3,1").2 = false := ⟨rfl, rfl⟩
example : rejectOf { mode := .osu } "x,2,3,1,0" = some .badX ∧ (run {} "x,2,3,1,0").2 = false := ⟨rfl, rfl⟩
example : rejectOf { mode := .osu } "131073,2,3,1,0" = some .badX ∧ (run {} "131073,2,3,1,0").2 = false := ⟨rfl, rfl⟩
example : rejectOf { mode := .osu } "1,-131073,3,1,0" = some .badY ∧ (run {} "1,-131073,3,1,0").2 = false := ⟨rfl, rfl⟩
example : rejectOf { mode := .osu } "1,2,2147483648,1,0" = some .badTime ∧ (run {} "1,2,2147483648,1,0").2 = false := ⟨rfl, rfl⟩
-- the type and sound fields are not trimmed, the others are
example : rejectOf { mode := .osu } "1,2,3, 1,0" = some .badType ∧ (run {} "1,2,3, 1,0").2 = false := ⟨rfl, rfl⟩
example : rejectOf { mode := .osu } " 1 , 2 , 3 ,1,0" = none ∧ (run {} " 1 , 2 , 3 ,1,0").2 = true := ⟨rfl, rfl⟩
example : rejectOf { mode := .osu } "1,2,3,1,x" = some .badSound ∧ (run {} "1,2,3,1,x").2 = false := ⟨rfl, rfl⟩
-- 116 = 4 + 16 + 32 + 64: only combo bits
example : rejectOf { mode := .osu } "1,2,3,116,0" = some .noKind ∧ (run {} "1,2,3,116,0").2 = false := ⟨rfl, rfl⟩
-- sample field: addition bank missing / custom index unreadable
example : rejectOf { mode := .osu } "1,2,3,1,0,1" = some .badSampleTail ∧ (run {} "1,2,3,1,0,1").2 = false := ⟨rfl, rfl⟩
example : rejectOf { mode := .osu } "1,2,3,8,0,9,1:1:x" = some .badSampleTail ∧ (run {} "1,2,3,8,0,9,1:1:x").2 = false := ⟨rfl, rfl⟩
example : rejectOf { mode := .osu } "1,2,3,128,0,9:1" = some .badSampleTail ∧ (run {} "1,2,3,128,0,9:1").2 = false := ⟨rfl, rfl⟩
-- … but a slider's tail is read for its banks only, and an empty first piece means "all defaults"
example : rejectOf { mode := .osu } "1,2,3,2,0,L|5:5,1,9,,,1:1:x" = none ∧ (run {} "1,2,3,2,0,L|5:5,1,9,,,1:1:x").2 = true := ⟨rfl, rfl⟩
example : rejectOf { mode := .osu } "1,2,3,1,0,:x:y" = none ∧ (run {} "1,2,3,1,0,:x:y").2 = true := ⟨rfl, rfl⟩
example : rejectOf { mode := .osu } "1,2,3,2,0,L|5:5" = some .sliderTooFewFields ∧ (run {} "1,2,3,2,0,L|5:5").2 = false := ⟨rfl, rfl⟩
example : rejectOf { mode := .osu } "1,2,3,2,0,L|5:5,x" = some .badRepeat ∧ (run {} "1,2,3,2,0,L|5:5,x").2 = false := ⟨rfl, rfl⟩
example : rejectOf { mode := .osu } "1,2,3,2,0,L|5:5,9001" = some .repeatTooLarge ∧ (run {} "1,2,3,2,0,L|5:5,9001").2 = false := ⟨rfl, rfl⟩
-- 9000 itself passes the guard (9001 node sets; too deep to evaluate by `rfl` as a whole line)
example : check (decide ((9000 : Int) ≤ 9000)) .repeatTooLarge = .ok () ∧ nodeCountOf 9000 = 9001 := ⟨rfl, rfl⟩
example : rejectOf { mode := .osu } "1,2,3,2,0,L|5:5,1,x" = some .badLength ∧ (run {} "1,2,3,2,0,L|5:5,1,x").2 = false := ⟨rfl, rfl⟩
example : rejectOf { mode := .osu } "1,2,3,2,0,L|5:5,1,9,,0:0|1" = some .badEdgeSet ∧ (run {} "1,2,3,2,0,L|5:5,1,9,,0:0|1").2 = false := ⟨rfl, rfl⟩
-- a malformed edge set beyond the node count is never looked at; an unreadable edge sound is 0
example : rejectOf { mode := .osu } "1,2,3,2,0,L|5:5,1,9,x|y,0:0|0:0|1" = none := rfl
example : rejectOf { mode := .osu } "1,2,3,8,0" = some .spinnerNoEnd ∧ (run {} "1,2,3,8,0").2 = false := ⟨rfl, rfl⟩
example : rejectOf { mode := .osu } "1,2,3,8,0,x" = some .badEndTime ∧ (run {} "1,2,3,8,0,x").2 = false := ⟨rfl, rfl⟩
example : rejectOf { mode := .osu } "1,2,3,128,0,x:0:0" = some .badEndTime ∧ (run {} "1,2,3,128,0,x:0:0").2 = false := ⟨rfl, rfl⟩
-- the path: empty piece, unreadable point, later segment without a vertex. Only this rejection is
-- visible in the state: what was in the path buffer is gone.
def dirty : HOCore Z Z := { lastObject := some 1, curvePoints := [zp 7 7] }
example : rejectOf { mode := .osu } "1,2,3,2,0,B|1:1||2:2,1" = some .badPath := rfl
example : rejectOf { mode := .osu } "1,2,3,2,0,B|1:1|L|2:2|x:y,1" = some .badPath := rfl
example : rejectOf { mode := .osu } "1,2,3,2,0,B|1:1|L,1" = some .badPath := rfl
example : seen (run dirty "1,2,3,2,0,B|1:1|L|2:2|x:y,1") = (false, [], some 1, []) := rfl
example : seen (run dirty "1,2,3,2,0,B|1:1|L|2:2|x:y,9001") = (false, [], some 1, [zp 7 7]) := rfl
-- the hypotheses of `line_repeat_cap` are satisfiable
example : ∃ hd : Head Z Z, head (str "1,2,3,2,0,L|5:5,9001") = .ok hd ∧ kindOf hd.ty = some .slider ∧
    hd.fields[5]? = some (str "L|5:5") ∧ hd.fields[6]? = some (str "9001") ∧ i32Parse (str "9001") = some 9001 :=
  ⟨_, rfl, rfl, rfl, rfl, rfl⟩

end Examples

end Rosu.C14
