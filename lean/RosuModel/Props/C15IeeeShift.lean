import RosuModel.Props.C15ShiftOn
import RosuModel.Lemmas.FloatIntExact
namespace Rosu.C15
open Rosu Scalar

/-- the doubles that are integers of magnitude below `2^51` (`Float.ofInt 0` is `+0.0`; `−0.0` is not such a value). -/
def IntTime (x : Float) : Prop := ∃ z : Int, z.natAbs < 2 ^ 51 ∧ x = Float.ofInt z

theorem intTime_ofInt (z : Int) (hz : z.natAbs < 2 ^ 51) : IntTime (Float.ofInt z) := ⟨z, hz, rfl⟩

/-- adding two such values is exact. -/
theorem intTime_add (x y : Int) (hx : x.natAbs < 2 ^ 51) (hy : y.natAbs < 2 ^ 51) :
    Float.ofInt x + Float.ofInt y = Float.ofInt (x + y) :=
  FIE.add_int_exact_float x y (by omega) (by omega) (by omega)

/-- **the shift laws are theorems of IEEE doubles on integer times**: for an integer shift `|k| < 2^51` all five laws of
`ShiftLaws` hold on the doubles that are integers below `2^51` (sums and differences of such values are below `2^53`, hence
exact), and `5.0` is such a value. -/
theorem shiftLawsOn_float_int (k : Int) (hk : k.natAbs < 2 ^ 51) :
    ShiftLawsOn (fun x : Float => ∃ z : Int, z.natAbs < 2 ^ 51 ∧ x = Float.ofInt z) (Float.ofInt k) where
  key_lt := by
    rintro a b ⟨x, hx, rfl⟩ ⟨y, hy, rfl⟩
    rw [intTime_add x k hx hk, intTime_add y k hy hk, FIE.totalKey_lt_ofInt _ _ (by omega) (by omega),
      FIE.totalKey_lt_ofInt _ _ (by omega) (by omega)]
    omega
  lt_shift := by
    rintro a b ⟨x, hx, rfl⟩ ⟨y, hy, rfl⟩
    rw [intTime_add x k hx hk, intTime_add y k hy hk, FIE.lt_ofInt _ _ (by omega) (by omega),
      FIE.lt_ofInt _ _ (by omega) (by omega)]
    exact decide_eq_decide.mpr (by omega)
  isNaN_shift := by
    rintro a ⟨x, hx, rfl⟩
    rw [intTime_add x k hx hk, FIE.isNaN_ofInt_scalar _ (by omega), FIE.isNaN_ofInt_scalar _ (by omega)]
  sub_shift := by
    rintro a b ⟨x, hx, rfl⟩ ⟨y, hy, rfl⟩
    rw [intTime_add x k hx hk, intTime_add y k hy hk, FIE.sub_int_exact_float _ _ (by omega) (by omega) (by omega),
      FIE.sub_int_exact_float _ _ (by omega) (by omega) (by omega)]
    congr 1
    omega
  add_right_comm := by
    rintro a d ⟨x, hx, rfl⟩ ⟨y, hy, rfl⟩
    rw [intTime_add x k hx hk, intTime_add x y hx hy, FIE.add_int_exact_float _ _ (by omega) (by omega) (by omega),
      FIE.add_int_exact_float _ _ (by omega) (by omega) (by omega)]
    congr 1
    omega
  five_mem := ⟨5, by decide, rfl⟩

theorem shiftLawsOn_intTime (k : Int) (hk : k.natAbs < 2 ^ 51) : ShiftLawsOn IntTime (Float.ofInt k) :=
  shiftLawsOn_float_int k hk

end Rosu.C15
