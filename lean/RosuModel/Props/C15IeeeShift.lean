/-
  Props/C15IeeeShift.lean — C15 last sentence ("shifting every time by the same whole number of milliseconds shifts all object
  and control-point times by that amount and changes nothing else") FOR IEEE DOUBLES on integer times. No law hypothesis.

  * `shiftLawsOn_float_int`: `ShiftLawsOn (integer doubles below 2^51) (Float.ofInt k)` for `|k| < 2^51` (Lemmas/FloatIntExact.lean).
  * state level: `shift_invariant_float_int_finish` (no sliders, full equality), `shift_invariant_float_int_finish_erased`
    (sliders allowed, slider samples not compared), `objIn_of_small` (sufficient condition for the derived-time hypothesis).
  * line level: `shift_invariant_float_int`, `shift_invariant_float_int_erased`, `beatmap_shift_invariant_float_int`; worked
    instance on text lines parsed by the model's decimal parser (`sfBody_shift`).
  * FINDING `slider_samples_shift_false` (witness `sxState`, both sides evaluated by the kernel): with a slider the un-erased
    statement is false of doubles even though every stored time is an integer below 2000 and the shift is −1000.
-/
import RosuModel.Props.C15ShiftOn
import RosuModel.Props.C15ShiftLinesOn
import RosuModel.Lemmas.FloatIntExact
import RosuModel.Model.Cmds.Curve
namespace Rosu.C15
open Rosu Scalar

/-- the doubles that are integers of magnitude below `2^51` (`Float.ofInt 0` is `+0.0`; `−0.0` is not such a value). -/
def IntTime (x : Float) : Prop := ∃ z : Int, z.natAbs < 2 ^ 51 ∧ x = Float.ofInt z

theorem intTime_ofInt (z : Int) (hz : z.natAbs < 2 ^ 51) : IntTime (Float.ofInt z) := ⟨z, hz, rfl⟩

/-- adding two such values is exact. -/
theorem intTime_add (x y : Int) (hx : x.natAbs < 2 ^ 51) (hy : y.natAbs < 2 ^ 51) :
    Float.ofInt x + Float.ofInt y = Float.ofInt (x + y) :=
  FIE.add_int_exact_float x y (by omega) (by omega) (by omega)

/-- **the shift laws are theorems of IEEE doubles on integer times**: for an integer shift `|k| < 2^51` all five laws of
`ShiftLaws` hold on the doubles that are integers below `2^51` (sums and differences of such values are below `2^53`, hence
exact), and `5.0` is such a value. -/
theorem shiftLawsOn_float_int (k : Int) (hk : k.natAbs < 2 ^ 51) :
    ShiftLawsOn (fun x : Float => ∃ z : Int, z.natAbs < 2 ^ 51 ∧ x = Float.ofInt z) (Float.ofInt k) where
  key_lt := by
    rintro a b ⟨x, hx, rfl⟩ ⟨y, hy, rfl⟩
    rw [intTime_add x k hx hk, intTime_add y k hy hk, FIE.totalKey_lt_ofInt _ _ (by omega) (by omega),
      FIE.totalKey_lt_ofInt _ _ (by omega) (by omega)]
    omega
  lt_shift := by
    rintro a b ⟨x, hx, rfl⟩ ⟨y, hy, rfl⟩
    rw [intTime_add x k hx hk, intTime_add y k hy hk, FIE.lt_ofInt _ _ (by omega) (by omega),
      FIE.lt_ofInt _ _ (by omega) (by omega)]
    exact decide_eq_decide.mpr (by omega)
  isNaN_shift := by
    rintro a ⟨x, hx, rfl⟩
    rw [intTime_add x k hx hk, FIE.isNaN_ofInt_scalar _ (by omega), FIE.isNaN_ofInt_scalar _ (by omega)]
  sub_shift := by
    rintro a b ⟨x, hx, rfl⟩ ⟨y, hy, rfl⟩
    rw [intTime_add x k hx hk, intTime_add y k hy hk, FIE.sub_int_exact_float _ _ (by omega) (by omega) (by omega),
      FIE.sub_int_exact_float _ _ (by omega) (by omega) (by omega)]
    congr 1
    omega
  add_right_comm := by
    rintro a d ⟨x, hx, rfl⟩ ⟨y, hy, rfl⟩
    rw [intTime_add x k hx hk, intTime_add x y hx hy, FIE.add_int_exact_float _ _ (by omega) (by omega) (by omega),
      FIE.add_int_exact_float _ _ (by omega) (by omega) (by omega)]
    congr 1
    omega
  five_mem := ⟨5, by decide, rfl⟩

theorem shiftLawsOn_intTime (k : Int) (hk : k.natAbs < 2 ^ 51) : ShiftLawsOn IntTime (Float.ofInt k) :=
  shiftLawsOn_float_int k hk


/-! ## headline, state level: the finaliser on integer times -/

/-- **shift invariance of the finaliser for IEEE doubles, integer times, no sliders**: for every unfinalised state whose stored
times (object starts, spinner / hold durations and the end / lookup times `start + duration`, `… + 5` formed from them, break
ends, control-point and pending-group times) are doubles that are integers below `2^51`, and every integer shift `|k| < 2^51`:
finalising the state with every time `k` later gives the finalised state with every object, break and control-point time `k`
later, and nothing else changed. No law hypothesis: this is a statement about the driver's `Float` / `Float32`. -/
theorem shift_invariant_float_int_finish (k : Int) (hk : k.natAbs < 2 ^ 51) (st : HitObjectsState Float Float32)
    (hin : StateIn IntTime st) (hns : ∀ o ∈ st.core.hitObjects, isSlider o = false) :
    (shiftState (Float.ofInt k) st).finish = (st.finish).map (shiftHitObjects (Float.ofInt k)) :=
  finish_shift_on (shiftLawsOn_intTime k hk) st hin hns

/-- … **sliders included**: everything but the samples resolved for a slider at its non-integer node / end times
(`eraseSliderSamples`): order, new-combo flags, start times, slider velocity, curve errors, breaks, control points, and every
circle / spinner / hold in full. -/
theorem shift_invariant_float_int_finish_erased (k : Int) (hk : k.natAbs < 2 ^ 51) (st : HitObjectsState Float Float32)
    (hin : StateIn IntTime st) :
    ((shiftState (Float.ofInt k) st).finish).map eraseHO =
      (st.finish).map (fun ho => eraseHO (shiftHitObjects (Float.ofInt k) ho)) :=
  finish_shift_on_erased (shiftLawsOn_intTime k hk) st hin

/-- relational forms (what the line-level fold produces). -/
theorem shift_invariant_float_int_rel (k : Int) (hk : k.natAbs < 2 ^ 51) (st st' : HitObjectsState Float Float32)
    (h : StateRel (Float.ofInt k) st st') (hin : StateIn IntTime st) (hns : ∀ o ∈ st.core.hitObjects, isSlider o = false) :
    st'.finish = (st.finish).map (shiftHitObjects (Float.ofInt k)) :=
  finish_rel_on (shiftLawsOn_intTime k hk) st st' h hin hns

/-- a sufficient condition for `ObjIn IntTime`: start and duration are integers below `2^49`. -/
theorem objIn_of_small (h : HitObject Float Float32) (s d : Int) (hs : s.natAbs < 2 ^ 49) (hd : d.natAbs < 2 ^ 49)
    (e1 : h.startTime = Float.ofInt s)
    (e2 : match h.kind with
      | .spinner c => c.duration = Float.ofInt d
      | .hold c => c.duration = Float.ofInt d
      | _ => True) : ObjIn IntTime h := by
  have a5 : ∀ x : Int, x.natAbs < 2 ^ 50 → Float.ofInt x + (5 : Float) = Float.ofInt (x + 5) := fun x hx =>
    FIE.add_int_exact_float x 5 (by omega) (by decide) (by omega)
  refine ⟨⟨s, by omega, e1⟩, ?_⟩
  cases hk : h.kind with
  | circle c => exact ⟨s + 5, by omega, by rw [e1]; exact a5 s (by omega)⟩
  | slider c => trivial
  | spinner c =>
    rw [hk] at e2
    simp only at e2
    have e3 : h.startTime + c.duration = Float.ofInt (s + d) := by
      rw [e1, e2]; exact FIE.add_int_exact_float s d (by omega) (by omega) (by omega)
    exact ⟨⟨d, by omega, e2⟩, ⟨s + d, by omega, e3⟩, ⟨s + d + 5, by omega, by rw [e3]; exact a5 _ (by omega)⟩⟩
  | hold c =>
    rw [hk] at e2
    simp only at e2
    have e3 : h.startTime + c.duration = Float.ofInt (s + d) := by
      rw [e1, e2]; exact FIE.add_int_exact_float s d (by omega) (by omega) (by omega)
    exact ⟨⟨d, by omega, e2⟩, ⟨s + d, by omega, e3⟩, ⟨s + d + 5, by omega, by rw [e3]; exact a5 _ (by omega)⟩⟩

/-! ### non-vacuity: a concrete state with integer times (doubles), unsorted objects, a break, control points, a pending group -/

def sfSmp : HitSampleInfo := HitSampleInfo.new (.default .normal) none 0 0
def sfCircle (t : Int) : HitObject Float Float32 :=
  { startTime := Float.ofInt t, kind := .circle { pos := { x := 0, y := 0 }, newCombo := false, comboOffset := 0 }, samples := [sfSmp] }
def sfSpinner (t d : Int) : HitObject Float Float32 :=
  { startTime := Float.ofInt t, kind := .spinner { pos := { x := 256, y := 192 }, duration := Float.ofInt d, newCombo := false },
    samples := [sfSmp] }
def sfHold (t d : Int) : HitObject Float Float32 :=
  { startTime := Float.ofInt t, kind := .hold { posX := 0, duration := Float.ofInt d }, samples := [] }

def sfState : HitObjectsState Float Float32 :=
  { core := { hitObjects := [sfCircle 500, sfSpinner 100 50, sfHold 300 10, sfCircle 260], lastObject := some 1 },
    events := { backgroundFile := [], breaks := [{ startTime := Float.ofInt 200, endTime := Float.ofInt 250 }] },
    timingPoints :=
      { general := GeneralState.default, pendingTime := Float.ofInt 400,
        pending := { sample := some ⟨Float.ofInt 400, .soft, 30, 2⟩ },
        controlPoints := { timingPoints := [⟨Float.ofInt 0, 500, false, ⟨4⟩⟩],
                           samplePoints := [⟨Float.ofInt 90, .drum, 60, 0⟩] } },
    difficulty := DifficultyState.create }

theorem sfState_in : StateIn IntTime sfState := by
  refine ⟨?_, ?_, ⟨?_, ?_, ?_, ?_⟩, ⟨?_, ?_, ?_, ?_⟩⟩
  · intro h hh
    simp only [sfState, List.mem_cons, List.mem_nil_iff, or_false] at hh
    rcases hh with rfl | rfl | rfl | rfl
    · exact objIn_of_small _ 500 0 (by decide) (by decide) rfl trivial
    · exact objIn_of_small _ 100 50 (by decide) (by decide) rfl rfl
    · exact objIn_of_small _ 300 10 (by decide) (by decide) rfl rfl
    · exact objIn_of_small _ 260 0 (by decide) (by decide) rfl trivial
  · intro b hb
    simp only [sfState, List.mem_singleton] at hb
    subst hb
    exact intTime_ofInt 250 (by decide)
  · intro p hp
    simp only [sfState, List.mem_singleton] at hp
    subst hp
    exact intTime_ofInt 0 (by decide)
  · intro p hp; cases hp
  · intro p hp; cases hp
  · intro p hp
    simp only [sfState, List.mem_singleton] at hp
    subst hp
    exact intTime_ofInt 90 (by decide)
  · intro p hp; cases hp
  · intro p hp; cases hp
  · intro p hp; cases hp
  · intro p hp
    simp only [sfState, Option.some.injEq] at hp
    subst hp
    exact intTime_ofInt 400 (by decide)

/-- `shift_invariant_float_int_finish` applied: one second later (all hypotheses hold of `sfState`). -/
example : (shiftState (Float.ofInt 1000) sfState).finish = (sfState.finish).map (shiftHitObjects (Float.ofInt 1000)) :=
  shift_invariant_float_int_finish 1000 (by decide) sfState sfState_in (by
    intro o ho
    simp only [sfState, List.mem_cons, List.mem_nil_iff, or_false] at ho
    rcases ho with rfl | rfl | rfl | rfl <;> rfl)

/-- what the finaliser loop does on it, evaluated by the kernel on IEEE doubles (objects listed in start-time order, the
pending sample point at 400 flushed): the circle after the break is forced to a new combo, the spinner sample is resolved at
`100 + 50 + 5` against the point at 90 (volume 60), the last circle's at 505 against the point at 400 (volume 30). -/
example : ((finalizeObjects GameMode.osu (1.4 : Float) sfState.timingPoints.finish.2
      (postProcessBreaks sfState.events.breaks [sfSpinner 100 50, sfCircle 260, sfHold 300 10, sfCircle 500] 0)
      emptyBuffers).toOption.map (fun hs => hs.map (fun h => (kindNewCombo h.kind, h.samples.map (·.volume))))) =
    some [(false, [60]), (true, [60]), (false, []), (false, [30])] := by decide +kernel

/-! ## headline, line level: decoding two bodies whose integer time fields differ by `k` -/

/-- **shift invariance of the `HitObjects` decoder for IEEE doubles, integer times, no sliders**: two bodies whose
`[TimingPoints]`, `[Events]`, `[HitObjects]` lines have identical fields except time fields that parse (model parser) to an
integer double `t`, `|t| < 2^51`, resp. to `t + k` (`k` an integer, `|k| < 2^51`; or are rejected in both), decode to the same
`HitObjects` with every object, break and control-point time `k` later — provided the times the finaliser derives from the
parsed objects (`start + 5`, `start + duration (+ 5)`) are such integers too. No law hypothesis. -/
theorem shift_invariant_float_int (k : Int) (hk : k.natAbs < 2 ^ 51) (ls ls' : SecLines)
    (h : LinesShiftOn IntTime (Float.ofInt k) ls ls')
    (hobj : ∀ o ∈ (runLines ls (HitObjectsState.create : HitObjectsState Float Float32)).core.hitObjects, ObjIn IntTime o)
    (hns : ∀ o ∈ (runLines ls (HitObjectsState.create : HitObjectsState Float Float32)).core.hitObjects, isSlider o = false) :
    (runLines ls' (HitObjectsState.create : HitObjectsState Float Float32)).finish =
      ((runLines ls (HitObjectsState.create : HitObjectsState Float Float32)).finish).map (shiftHitObjects (Float.ofInt k)) :=
  shift_invariant_on (shiftLawsOn_intTime k hk) ls ls' h hobj hns

/-- … **sliders included**, slider samples left out of the comparison. -/
theorem shift_invariant_float_int_erased (k : Int) (hk : k.natAbs < 2 ^ 51) (ls ls' : SecLines)
    (h : LinesShiftOn IntTime (Float.ofInt k) ls ls')
    (hobj : ∀ o ∈ (runLines ls (HitObjectsState.create : HitObjectsState Float Float32)).core.hitObjects, ObjIn IntTime o) :
    ((runLines ls' (HitObjectsState.create : HitObjectsState Float Float32)).finish).map eraseHO =
      ((runLines ls (HitObjectsState.create : HitObjectsState Float Float32)).finish).map
        (fun ho => eraseHO (shiftHitObjects (Float.ofInt k) ho)) :=
  shift_invariant_on_erased (shiftLawsOn_intTime k hk) ls ls' h hobj

/-- the `Beatmap` decoder. -/
theorem beatmap_shift_invariant_float_int (k : Int) (hk : k.natAbs < 2 ^ 51) (version : Int) (ls ls' : SecLines)
    (h : LinesShiftOn IntTime (Float.ofInt k) ls ls')
    (hobj : ∀ o ∈ (runBeatmapLines ls (BeatmapState.create version : BeatmapState Float Float32)).hitObjects.core.hitObjects,
      ObjIn IntTime o)
    (hns : ∀ o ∈ (runBeatmapLines ls (BeatmapState.create version : BeatmapState Float Float32)).hitObjects.core.hitObjects,
      isSlider o = false) :
    (runBeatmapLines ls' (BeatmapState.create version : BeatmapState Float Float32)).finish =
      ((runBeatmapLines ls (BeatmapState.create version : BeatmapState Float Float32)).finish).map
        (shiftBeatmap (Float.ofInt k)) :=
  beatmap_shift_invariant_on (shiftLawsOn_intTime k hk) version ls ls' h hobj hns

/-! ### a decidable sufficient condition for `ObjIn IntTime`, and a worked instance on real text lines -/

/-- `x` is the double of its own truncation (an `i32`, so far below `2^49`). -/
def smallIntB (x : Float) : Bool :=
  decide ((Scalar.toI32 x : Int).natAbs < 2 ^ 49) && decide (x = Float.ofInt (Scalar.toI32 x))

def objSmallB (h : HitObject Float Float32) : Bool :=
  smallIntB h.startTime &&
    match h.kind with
    | .spinner c => smallIntB c.duration
    | .hold c => smallIntB c.duration
    | _ => true

theorem objIn_of_smallB (h : HitObject Float Float32) (hb : objSmallB h = true) : ObjIn IntTime h := by
  unfold objSmallB smallIntB at hb
  simp only [Bool.and_eq_true, decide_eq_true_eq] at hb
  obtain ⟨⟨s1, s2⟩, hk⟩ := hb
  cases hkind : h.kind with
  | circle c => exact objIn_of_small h _ 0 s1 (by decide) s2 (by rw [hkind]; trivial)
  | slider c => exact objIn_of_small h _ 0 s1 (by decide) s2 (by rw [hkind]; trivial)
  | spinner c =>
    rw [hkind] at hk
    simp only [Bool.and_eq_true, decide_eq_true_eq] at hk
    exact objIn_of_small h _ _ s1 hk.1 s2 (by rw [hkind]; exact hk.2)
  | hold c =>
    rw [hkind] at hk
    simp only [Bool.and_eq_true, decide_eq_true_eq] at hk
    exact objIn_of_small h _ _ s1 hk.1 s2 (by rw [hkind]; exact hk.2)

theorem scalarParse_of_floatParse (s : Str) (x : Float) (h : (floatParse s : Option Float) = some x) :
    (scalarParse s : Except NumErr Float) = .ok x := by
  have e : (scalarParse s : Except NumErr Float).toOption = floatParse s := scalarParseWithLimits_toOption s _
  rw [h] at e
  cases hs : (scalarParse s : Except NumErr Float) with
  | error err => rw [hs] at e; cases e
  | ok y => rw [hs] at e; injection e with e; rw [e]

theorem hoRestOn_same (S : Float → Prop) (k : Float) (cls : Option ObjClass) (rest : List Str) (h1 : cls ≠ some .spinner)
    (h2 : cls ≠ some .hold) : HoRestShiftOn S k cls rest rest := by
  simp [HoRestShiftOn, h1, h2]

theorem hoRestOn_spinner (S : Float → Prop) (k : Float) (cls : Option ObjClass) (dS dS' : Str) (r2 : List Str)
    (h : cls = some .spinner) (hp : ParseShiftOn S k dS dS') : HoRestShiftOn S k cls (dS :: r2) (dS' :: r2) := by
  subst h
  simp only [HoRestShiftOn, if_true]
  exact Or.inr ⟨dS, dS', r2, rfl, rfl, hp⟩

theorem hoRestOn_hold (S : Float → Prop) (k : Float) (cls : Option ObjClass) (s s' e e' : Str) (tl ss : List Str)
    (h : cls = some .hold) (hs : s.isEmpty = false) (hs' : s'.isEmpty = false) (hsp : splitOn ':' s = e :: ss)
    (hsp' : splitOn ':' s' = e' :: ss) (hp : ParseShiftOn S k e e') : HoRestShiftOn S k cls (s :: tl) (s' :: tl) := by
  subst h
  have hne : (some ObjClass.hold = some ObjClass.spinner) = False := by simp
  simp only [HoRestShiftOn, hne, if_false, if_true]
  exact Or.inr ⟨s, s', tl, e, e', ss, rfl, rfl, hs, hs', hsp, hsp', hp⟩

def sfBody : SecLines :=
  [(.general, str "Mode: 0"),
   (.timingPoints, str "100,500,4,2,0,60,1,0"), (.timingPoints, str "100,-50,4,2,0,40,0,0"),
   (.timingPoints, str "900,-200,4,3,0,0,0,1 // kiai"),
   (.events, str "2,500,600"), (.events, str "Sample,700,0,\"a.wav\""),
   (.hitObjects, str "256,192,1000,128,0,1200:0:0:0:0:"), (.hitObjects, str "256,192,300,1,0"),
   (.hitObjects, str "256,192,400,12,0,900"),
   (.hitObjects, str "garbage")]

def sfBody' : SecLines :=
  [(.general, str "Mode: 0"),
   (.timingPoints, str "1100,500,4,2,0,60,1,0"), (.timingPoints, str "1100,-50,4,2,0,40,0,0"),
   (.timingPoints, str "1900,-200,4,3,0,0,0,1 // kiai"),
   (.events, str "2,1500,1600"), (.events, str "Sample,1700,0,\"a.wav\""),
   (.hitObjects, str "256,192,2000,128,0,2200:0:0:0:0:"), (.hitObjects, str "256,192,1300,1,0"),
   (.hitObjects, str "256,192,1400,12,0,1900"),
   (.hitObjects, str "garbage")]

/-- a time field that the model's `f64` parser reads as the integer `t`, and its partner as `t + 1000`. -/
theorem sfParse (s s' : Str) (t : Int) (ht : t.natAbs < 2 ^ 51)
    (h1 : (floatParse s : Option Float) = some (Float.ofInt t))
    (h2 : (floatParse s' : Option Float) = some (Float.ofInt t + Float.ofInt 1000)) :
    ParseShiftOn IntTime (Float.ofInt 1000) s s' :=
  Or.inl ⟨Float.ofInt t, h1, h2, intTime_ofInt t ht⟩

theorem sfTp (line line' timeS timeS' : Str) (tl : List Str) (t : Int) (ht : t.natAbs < 2 ^ 51)
    (hs : splitOn ',' (trimComment line) = timeS :: tl) (hs' : splitOn ',' (trimComment line') = timeS' :: tl)
    (h1 : (floatParse timeS : Option Float) = some (Float.ofInt t))
    (h2 : (floatParse timeS' : Option Float) = some (Float.ofInt t + Float.ofInt 1000)) :
    TpLineShiftOn IntTime (Float.ofInt 1000) line line' :=
  ⟨timeS, timeS', tl, hs, hs', Or.inl ⟨Float.ofInt t, scalarParse_of_floatParse _ _ h1, scalarParse_of_floatParse _ _ h2,
    intTime_ofInt t ht⟩⟩

theorem sfBody_shift : LinesShiftOn IntTime (Float.ofInt 1000) sfBody sfBody' := by
  refine .cons ⟨rfl, rfl⟩ (.cons ⟨rfl, ?_⟩ (.cons ⟨rfl, ?_⟩ (.cons ⟨rfl, ?_⟩ (.cons ⟨rfl, ?_⟩ (.cons ⟨rfl, ?_⟩
    (.cons ⟨rfl, ?_⟩ (.cons ⟨rfl, ?_⟩ (.cons ⟨rfl, ?_⟩ (.cons ⟨rfl, ?_⟩ .nil)))))))))
  · exact sfTp _ _ (str "100") (str "1100") _ 100 (by decide) rfl rfl (by decide +kernel) (by decide +kernel)
  · exact sfTp _ _ (str "100") (str "1100") _ 100 (by decide) rfl rfl (by decide +kernel) (by decide +kernel)
  · exact sfTp _ _ (str "900") (str "1900") _ 900 (by decide) rfl rfl (by decide +kernel) (by decide +kernel)
  · exact Or.inl ⟨str "2", str "500", str "1500", str "600", str "1600", [], rfl, rfl,
      by rw [if_pos (by decide)]; exact ⟨sfParse _ _ 500 (by decide) (by decide +kernel) (by decide +kernel),
        sfParse _ _ 600 (by decide) (by decide +kernel) (by decide +kernel)⟩⟩
  · exact Or.inl ⟨str "Sample", str "700", str "1700", str "0", str "0", _, rfl, rfl, by rw [if_neg (by decide)]⟩
  · exact Or.inl ⟨_, _, str "1000", str "2000", _, _, _, _, rfl, rfl,
      sfParse _ _ 1000 (by decide) (by decide +kernel) (by decide +kernel),
      hoRestOn_hold _ _ _ (str "1200:0:0:0:0:") (str "2200:0:0:0:0:") (str "1200") (str "2200") [] _ (by decide) rfl rfl rfl rfl
        (sfParse _ _ 1200 (by decide) (by decide +kernel) (by decide +kernel))⟩
  · exact Or.inl ⟨_, _, str "300", str "1300", _, _, _, _, rfl, rfl,
      sfParse _ _ 300 (by decide) (by decide +kernel) (by decide +kernel), hoRestOn_same _ _ _ _ (by decide) (by decide)⟩
  · exact Or.inl ⟨_, _, str "400", str "1400", _, _, _, _, rfl, rfl,
      sfParse _ _ 400 (by decide) (by decide +kernel) (by decide +kernel),
      hoRestOn_spinner _ _ _ (str "900") (str "1900") [] (by decide)
        (sfParse _ _ 900 (by decide) (by decide +kernel) (by decide +kernel))⟩
  · exact Or.inr ⟨rfl, by decide⟩

/-- **`shift_invariant_float_int` applied to text lines** (IEEE doubles, the model's decimal parser): the second body decodes to
the first one's result, one second later. The object hypotheses are checked by the kernel on the parsed state. -/
example : (runLines sfBody' (HitObjectsState.create : HitObjectsState Float Float32)).finish =
    ((runLines sfBody (HitObjectsState.create : HitObjectsState Float Float32)).finish).map
      (shiftHitObjects (Float.ofInt 1000)) := by
  have hall : ((runLines sfBody (HitObjectsState.create : HitObjectsState Float Float32)).core.hitObjects.all
      (fun o => objSmallB o && !isSlider o)) = true ∧
      (runLines sfBody (HitObjectsState.create : HitObjectsState Float Float32)).core.hitObjects.length = 3 := by
    decide +kernel
  have h := List.all_eq_true.mp hall.1
  refine shift_invariant_float_int 1000 (by decide) sfBody sfBody' sfBody_shift ?_ ?_
  · intro o ho
    have := h o ho
    simp only [Bool.and_eq_true] at this
    exact objIn_of_smallB o this.1
  · intro o ho
    have := h o ho
    simp only [Bool.and_eq_true, Bool.not_eq_true'] at this
    exact this.2

/-! ## the slider clause is FALSE of IEEE doubles, on integer times and a small integer shift

A slider at `t = 1000` whose duration is `1 − 2^-45` ms (one span of length `1 − 2^-45` px at 1 px/ms; `0.99999999999995` in a file
behaves the same) ends, in double arithmetic, at `fl(1000 + (1 − 2^-45)) = 1001` (the spacing of doubles near 1000 is `2^-43`), so
its end-time sample lookup happens at `1001 + 5 = 1006` and finds the sample point AT `1006` (volume 30). The same map 1000 ms
earlier: `fl(0 + (1 − 2^-45)) = 1 − 2^-45` exactly, the lookup happens at `6 − 2^-45 < 6` and finds the point before the one at
`6` (volume 100). Every stored time is an integer below 2000 and the shift is `−1000`. -/

def sxDur : Float := Float.ofBits 0x3FEFFFFFFFFFFF00  -- 1 - 2^-45

def sxPath : SliderPathData Float Float32 :=
  { mode := .osu
    controlPoints := [{ pos := { x := 0, y := 0 }, pathType := some PathType.linear }, { pos := { x := 100, y := 0 }, pathType := none }]
    expectedDist := some sxDur }

def sxSmp : HitSampleInfo := HitSampleInfo.new (.default .normal) none 0 0

def sxKind : HitObjectSlider Float Float32 :=
  { pos := { x := 100, y := 100 }
    newCombo := false
    comboOffset := 0
    path := sxPath
    nodeSamples := [[sxSmp], [sxSmp]]
    repeatCount := 0
    velocity := 1 }

def sxSlider : HitObject Float Float32 :=
  { startTime := Float.ofInt 1000, kind := .slider sxKind, samples := [sxSmp] }

def sxState : HitObjectsState Float Float32 :=
  { core := { hitObjects := [sxSlider] },
    events := { backgroundFile := [], breaks := [] },
    timingPoints :=
      { general := GeneralState.default, pendingTime := Float.ofInt 1006, pending := Pending.empty,
        controlPoints := { timingPoints := [⟨Float.ofInt 0, 100, false, ⟨4⟩⟩],
                           samplePoints := [⟨Float.ofInt 0, .normal, 100, 0⟩, ⟨Float.ofInt 1006, .soft, 30, 2⟩] } },
    difficulty := { (DifficultyState.create : DifficultyState Float Float32) with difficulty := { (Difficulty.default : Difficulty Float Float32) with sliderMultiplier := 1 } } }

/-- what is observed: per object its start-time bits, the volumes of its samples and of its node samples. -/
def sxObs (ho : HitObjects Float Float32) : List (UInt64 × List Int × List (List Int)) :=
  ho.hitObjects.map fun h => (h.startTime.toBits, h.samples.map (·.volume),
    match h.kind with
    | .slider s => s.nodeSamples.map (fun ns => ns.map (·.volume))
    | _ => [])


theorem sxState_in : StateIn IntTime sxState := by
  refine ⟨?_, ?_, ⟨?_, ?_, ?_, ?_⟩, pendingIn_empty⟩
  · intro h hh
    simp only [sxState, List.mem_singleton] at hh
    subst hh
    exact ⟨intTime_ofInt 1000 (by decide), trivial⟩
  · intro b hb; cases hb
  · intro p hp
    simp only [sxState, List.mem_singleton] at hp
    subst hp
    exact intTime_ofInt 0 (by decide)
  · intro p hp; cases hp
  · intro p hp; cases hp
  · intro p hp
    simp only [sxState, List.mem_cons, List.mem_nil_iff, or_false] at hp
    rcases hp with rfl | rfl
    · exact intTime_ofInt 0 (by decide)
    · exact intTime_ofInt 1006 (by decide)

/-- the two sides of `finish_shift` on the witness, evaluated by the kernel: the finaliser on the shifted state gives the slider
(and its end node) volume 100, the shift of the finalised state has volume 30. -/
theorem slider_samples_shift_witness :
    ((shiftState (Float.ofInt (-1000)) sxState).finish).toOption.map sxObs = some [(0, [100], [[100], [100]])] ∧
    ((sxState.finish).map (shiftHitObjects (Float.ofInt (-1000)))).toOption.map sxObs = some [(0, [30], [[100], [30]])] := by
  constructor <;> decide +kernel

/-- **finding**: `finish_shift` restricted to integer times is NOT a theorem of IEEE doubles once a slider is present — the
hypothesis "no slider" of `shift_invariant_float_int_finish` (equivalently the erasure of slider samples in
`shift_invariant_float_int_finish_erased`) cannot be dropped. -/
theorem slider_samples_shift_false :
    ¬ (∀ st : HitObjectsState Float Float32, StateIn IntTime st →
        (shiftState (Float.ofInt (-1000)) st).finish = (st.finish).map (shiftHitObjects (Float.ofInt (-1000)))) := by
  intro h
  have e := congrArg (fun r => r.toOption.map sxObs) (h sxState sxState_in)
  simp only [slider_samples_shift_witness.1, slider_samples_shift_witness.2] at e
  revert e
  decide

/-- the FULL statement of the clause for IEEE doubles on integer times (sliders included, nothing erased), state level. -/
def shift_invariant_float_int_statement : Prop :=
  ∀ (k : Int), k.natAbs < 2 ^ 51 → ∀ st : HitObjectsState Float Float32, StateIn IntTime st →
    (shiftState (Float.ofInt k) st).finish = (st.finish).map (shiftHitObjects (Float.ofInt k))

/-- **it is false** (witness `k = −1000`, `sxState`). What holds is `shift_invariant_float_int_finish` (no sliders) and the
`_partial` theorems below (sliders allowed, their resolved samples not compared). -/
theorem shift_invariant_float_int_statement_false : ¬ shift_invariant_float_int_statement :=
  fun h => slider_samples_shift_false (h (-1000) (by decide))

/-- the provable part with sliders, under the `_partial` naming convention (state level / line level). -/
theorem shift_invariant_float_int_finish_partial (k : Int) (hk : k.natAbs < 2 ^ 51) (st : HitObjectsState Float Float32)
    (hin : StateIn IntTime st) :
    ((shiftState (Float.ofInt k) st).finish).map eraseHO =
      (st.finish).map (fun ho => eraseHO (shiftHitObjects (Float.ofInt k) ho)) :=
  shift_invariant_float_int_finish_erased k hk st hin

theorem shift_invariant_float_int_partial (k : Int) (hk : k.natAbs < 2 ^ 51) (ls ls' : SecLines)
    (h : LinesShiftOn IntTime (Float.ofInt k) ls ls')
    (hobj : ∀ o ∈ (runLines ls (HitObjectsState.create : HitObjectsState Float Float32)).core.hitObjects, ObjIn IntTime o) :
    ((runLines ls' (HitObjectsState.create : HitObjectsState Float Float32)).finish).map eraseHO =
      ((runLines ls (HitObjectsState.create : HitObjectsState Float Float32)).finish).map
        (fun ho => eraseHO (shiftHitObjects (Float.ofInt k) ho)) :=
  shift_invariant_float_int_erased k hk ls ls' h hobj

/-- the law behind it: `(a + k) + d = (a + d) + k` fails for integers `a`, `k` and a non-integer `d`. -/
theorem add_right_comm_nonint_false :
    (Float.ofInt 1000 + Float.ofInt (-1000)) + sxDur ≠ (Float.ofInt 1000 + sxDur) + Float.ofInt (-1000) := by decide +kernel

end Rosu.C15
