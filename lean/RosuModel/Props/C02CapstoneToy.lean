/-
  Props/C02CapstoneToy.lean — non-vacuity of `roundtrip_decoded_capstone` (Props/C02Capstone.lean) on the toy codec `ZC`:
  a concrete taiko FILE, given as bytes (`utf8Encode (unlines capLines)`), is decoded and finished in the kernel, EVERY field
  of `DecodedDomain` is evaluated in the kernel on the decoded state / map (`cap_domain`); that the map encodes, the theorem
  applies and the re-decoded state finishes is in Props/C02CapstoneToyRt.lean (`cap_roundtrip`, `cap_roundtrip_total`). Taiko, so the scroll-speed branch (`LogGood`, `decoded_scroll_timeline`) is the
  one exercised. One hit object only: `List.mergeSort` and `Curve.new` do not reduce in the kernel beyond tiny inputs.
-/
import RosuModel.Props.C02Capstone
set_option linter.unusedSectionVars false
set_option maxRecDepth 100000
namespace Rosu.C02
open Rosu Encode EncodeLines C11 RtTiming Scalar FileRt SliderRt DecodedObj RtObjects

/-! ### the file -/

/-- a taiko file: title and a POSITIVE beatmap id, a break, a combo colour, a timing line (beat length 6), an inherited line
in the same group, an inherited line with scroll speed `100 / 50 = 2` and kiai, a rejected line, and a linear slider of
requested length 100 at time 1000 (after the break). -/
def capLines : List Str :=
  [str "osu file format v14", str "", str "[General]", str "AudioFilename: a/b.mp3", str "Mode: 1",
   str "[Metadata]", str "Title:Re:Zero", str "BeatmapID:123",
   str "[Events]", str "2,100,200",
   str "[TimingPoints]", str "0,6,4,2,0,100,1,0", str "0,-100,4,2,0,100,0,0", str "500,-50,4,1,3,70,0,1", str "x,y",
   str "[Colours]", str "Combo1 : 1,2,3",
   str "[HitObjects]", str "0,0,1000,2,0,L|100:0,1,100"]

def capBytes : List UInt8 := utf8Encode (unlines capLines)
def capState : BeatmapState ZC ZC := frame beatmapDecoder capLines
def capMap : Beatmap ZC ZC :=
  match capState.finish with | .ok m => m | .error _ => C04.noObjectsMap capState

theorem cap_lines : (textLines (unlines capLines)).map trimEnd = capLines := by
  rw [lines_of_unlines _ (by decide)]
  decide

theorem cap_head : (unlines capLines).head? ≠ some (Char.ofNat 0xFEFF) := by decide

theorem cap_decodes : decodeBytes (beatmapDecoder : LineDecoder (BeatmapState ZC ZC)) capBytes = .ok capState := by
  unfold capBytes
  rw [RtFile.decodeBytes_utf8_text _ _ cap_head, cap_lines]
  rfl

theorem cap_finishes : capState.finish = .ok capMap := by
  have hok : capState.finish.toOption.isSome = true := by decide +kernel
  unfold capMap
  cases h : capState.finish with
  | error e => rw [h] at hok; cases hok
  | ok m => rfl

/-- what was decoded. -/
theorem cap_content :
    capMap.general.mode = .taiko ∧ capMap.metadata.beatmapId = 123 ∧ capMap.events.breaks.length = 1 ∧
    capMap.controlPoints.timingPoints.map (fun p => (p.time, p.beatLen)) = [(⟨0⟩, ⟨6⟩)] ∧
    capMap.controlPoints.effectPoints.map (fun p => (p.time, p.scrollSpeed, p.kiai)) = [(⟨500⟩, ⟨2⟩, true)] ∧
    capMap.hitObjects.map (fun h => (h.startTime, SliderRt.kindTag h.kind)) = [(⟨1000⟩, ObjClass.slider)] := by
  decide +kernel

theorem cap_mode : capMap.general.mode = .taiko := cap_content.1

/-! ### the fields of `DecodedDomain`, each evaluated in the kernel -/

/-- a list of at most one object is chronological. -/
theorem chronological_of_length_le_one (l : List (HitObject ZC ZC)) (h : l.length ≤ 1) : Chronological l := by
  unfold Chronological
  match l, h with
  | [], _ => exact List.Pairwise.nil
  | [a], _ => exact List.pairwise_singleton _ a
  | _ :: _ :: _, h => simp at h

theorem cap_chronological : Chronological capState.hitObjects.core.hitObjects :=
  chronological_of_length_le_one _ (by decide +kernel)

/-- the ghost log: three accepted `[TimingPoints]` lines, all applied in taiko, at times 0, 0, 500. -/
theorem cap_log :
    (tpLog ZC ZC capLines).map (fun p => (p.1, p.2.time, p.2.speedMultiplier)) =
      [(.taiko, ⟨0⟩, ⟨1⟩), (.taiko, ⟨0⟩, ⟨1⟩), (.taiko, ⟨500⟩, ⟨2⟩)] := by
  rw [tpLog, C05.frame_eq_spec]
  decide

theorem cap_timingLines : LogGood capMap.general.mode (tpLogBytes ZC ZC capBytes) := by
  rw [cap_mode]
  unfold tpLogBytes capBytes
  rw [fileLines_utf8_text _ cap_head, cap_lines, tpLog, C05.frame_eq_spec]
  decide

theorem cap_noDoubleSlash : DecodedInv.NoDoubleSlash capMap := by
  have key : hasDS capMap.general.audioFile = false ∧ hasDS capMap.events.backgroundFile = false := by decide +kernel
  exact ⟨key.1, key.2⟩

/-- the object residual as a check (sliders: `F17Free` and a requested length, so F20 cannot occur). -/
def objResidualF17B (h : HitObject ZC ZC) : Bool :=
  match h.kind with
  | .slider s => decide (C04.F17Free s.path.controlPoints) && s.path.expectedDist.isSome
  | _ => decide (trimEnd (fileNameOf h.samples) = fileNameOf h.samples) && decide ('|' ∉ fileNameOf h.samples)

theorem objResidualF17_of_check (h : HitObject ZC ZC) (hb : objResidualF17B h = true) : C04.ObjResidualF17 ZC.Rep h := by
  unfold objResidualF17B at hb
  unfold C04.ObjResidualF17
  cases hk : h.kind with
  | slider s =>
    rw [hk] at hb
    simp only [Bool.and_eq_true, decide_eq_true_eq] at hb
    exact ⟨hb.1, fun hn => by rw [hn] at hb; cases hb.2⟩
  | circle c => rw [hk] at hb; simp only [Bool.and_eq_true, decide_eq_true_eq] at hb; exact ⟨hb.1, hb.2⟩
  | spinner c => rw [hk] at hb; simp only [Bool.and_eq_true, decide_eq_true_eq] at hb; exact ⟨hb.1, hb.2⟩
  | hold c => rw [hk] at hb; simp only [Bool.and_eq_true, decide_eq_true_eq] at hb; exact ⟨hb.1, hb.2⟩

theorem cap_objects : ∀ h ∈ capMap.hitObjects, C04.ObjResidualF17 ZC.Rep h := by
  have key : capMap.hitObjects.all objResidualF17B = true := by decide +kernel
  exact fun h hh => objResidualF17_of_check h (List.all_eq_true.mp key h hh)

/-- kernel evaluation of `collect_samples`' object loop: the slider's curve, its end time. -/
theorem cap_collectedTimes : C04.CollectedTimesInLimit capMap := by
  have key : (match collectAll capMap capMap.hitObjects [] with
      | .ok pts => pts.all (fun p => decide (InLimit p.time)) | .error _ => true) = true := by decide +kernel
  intro pts hp p hpm
  rw [hp] at key
  exact of_decide_eq_true (List.all_eq_true.mp key p hpm)

/-- `PathStable` as a check. -/
def pathStableB (mode : GameMode) (h : HitObject ZC ZC) : Bool :=
  match h.kind with
  | .slider s => decide (s.path.mode = mode) &&
      (match s.path.expectedDist with
       | some d => decide (lenOf d = some d)
       | none => true)
  | _ => true

theorem cap_pathStable : PathStable capMap := by
  have key : capMap.hitObjects.all (pathStableB .taiko) = true := by decide +kernel
  intro h hh s hk
  have := List.all_eq_true.mp key h hh
  unfold pathStableB at this
  rw [hk] at this
  simp only [Bool.and_eq_true, decide_eq_true_eq] at this
  rw [cap_mode]
  constructor
  · exact this.1
  · intro d hd
    have h2 := this.2
    rw [hd] at h2
    exact of_decide_eq_true h2



open C13 in
/-- one kernel evaluation of the decoded control points for all four clauses. -/
theorem cap_timeline : TimelineHyps capMap.general.mode capMap.controlPoints := by
  rw [cap_mode]
  have key : (SortedBy TimingPoint.key capMap.controlPoints.timingPoints ∧
      SortedBy DifficultyPoint.key capMap.controlPoints.difficultyPoints ∧
      SortedBy EffectPoint.key capMap.controlPoints.effectPoints ∧
      SortedBy SamplePoint.key capMap.controlPoints.samplePoints) ∧
      (∀ t ∈ capMap.controlPoints.timingPoints, 1 ≤ t.timeSignature.numerator) ∧
      (∀ t ∈ capMap.controlPoints.timingPoints,
        clamp t.beatLen (6 : ZC) (60000 : ZC) = t.beatLen ∧ lt t.beatLen (0 : ZC) = false) ∧
      ((1 : ZC) :: svSource .taiko capMap.controlPoints).all
          (fun v => decide (SvInverse v) && decide (clamp v (0.01 : ZC) (10 : ZC) = v)) = true := by decide +kernel
  obtain ⟨⟨s1, s2, s3, s4⟩, hsig, hbeat, hsv⟩ := key
  refine ⟨⟨s1, s2, s3, s4⟩, hsig, hbeat, fun v hv => ?_⟩
  have := List.all_eq_true.mp hsv v hv
  simp only [Bool.and_eq_true, decide_eq_true_eq] at this
  exact this

/-- **the decoded toy file lies in the domain** — every field evaluated in the kernel. -/
theorem cap_domain : DecodedDomain ZC.Rep capBytes capState capMap where
  chronological := cap_chronological
  timingLines := cap_timingLines
  noDoubleSlash := cap_noDoubleSlash
  objects := cap_objects
  collectedTimes := cap_collectedTimes
  pathStable := cap_pathStable
  timeline := cap_timeline

end Rosu.C02
