/-
  Props/C15IeeeVelocity.lean — C15, the velocity clause **in IEEE doubles**, with a proved error bound.

  Props/C15Velocity.lean shows, in exact rational arithmetic, that the expression the finaliser evaluates,

      velocity = (100 · SM) / (beat_len · (clamp(−(−100 / sv), 10, hi) / 100)),        hi = 10000 | 1000 per mode,

  *is* the worded formula `100 · SM · sv' / beat_len` (`velocity_worded`, `sv'` = the multiplier clamped per mode).
  Here the same expression is evaluated on the driver's instance (`F := Float`, `P := Float32`), where every operation
  rounds, and compared with the worded formula evaluated exactly on the values of the three doubles:

  **`velocity_worded_err_float`**: for `SM ∈ [0.4, 3.6]`, `beat_len ∈ [6, 60000]`, `sv ∈ [0.1, 10]` (the ranges
  the decoder clamps these three numbers to; IEEE `<=` against the double literals — finiteness follows) the stored
  velocity `v` is finite and

      |toRat v − 100 · SM · sv' / beat_len| ≤ 6 · 2⁻⁵³ · (100 · SM · sv' / beat_len).

  The roundings: `−100 / sv` (1), negation (exact, `toRat_neg`), `clamp` (never increases the relative error,
  `clamp_rel_float`), `/ 100` (2), `beat_len · …` (3), `100 · SM` (4; `f64::from(100f32)` is exactly `100`), the final
  division (5). Five factors `(1 + δᵢ)`, two above and three below the fraction bar: `(1+u)²/(1−u)³ − 1 ≤ 6u`
  (`ratio_bound`; the first-order term is `5u`). No operation overflows or leaves the normal range on these inputs
  (`mul_ok`, `div_ok` of Lemmas/FloatErrRange.lean), which is part of the proof, not a hypothesis.
  `velocity_worded_ulps_float` restates the bound as `toRat v = W (1 + ε)`, `|ε| ≤ 6 · 2⁻⁵³`.
-/
import RosuModel.Props.C15Velocity
import RosuModel.Lemmas.FloatErrRange
namespace Rosu.C15
open Rosu Scalar Rosu.FErr

/-! ### the double literals involved -/

theorem unpack_100 : (100 : Float).toModel.unpack = .finite .positive 7036874417766400 (-46) (by decide) := by
  have : (100 : Float) = Float.ofBits 0x4059000000000000 := by decide +kernel
  rw [this, FM.float_unpack_ofBits _ (by decide)]; rfl
theorem unpack_neg100 : (-100 : Float).toModel.unpack = .finite .negative 7036874417766400 (-46) (by decide) := by
  have : (-100 : Float) = Float.ofBits 0xC059000000000000 := by decide +kernel
  rw [this, FM.float_unpack_ofBits _ (by decide)]; rfl
theorem unpack_10 : (10 : Float).toModel.unpack = .finite .positive 5629499534213120 (-49) (by decide) := by
  have : (10 : Float) = Float.ofBits 0x4024000000000000 := by decide +kernel
  rw [this, FM.float_unpack_ofBits _ (by decide)]; rfl
theorem unpack_1000 : (1000 : Float).toModel.unpack = .finite .positive 8796093022208000 (-43) (by decide) := by
  have : (1000 : Float) = Float.ofBits 0x408F400000000000 := by decide +kernel
  rw [this, FM.float_unpack_ofBits _ (by decide)]; rfl
theorem unpack_10000 : (10000 : Float).toModel.unpack = .finite .positive 5497558138880000 (-39) (by decide) := by
  have : (10000 : Float) = Float.ofBits 0x40C3880000000000 := by decide +kernel
  rw [this, FM.float_unpack_ofBits _ (by decide)]; rfl
theorem unpack_0_4 : (0.4 : Float).toModel.unpack = .finite .positive 7205759403792794 (-54) (by decide) := by
  have : (0.4 : Float) = Float.ofBits 0x3FD999999999999A := by decide +kernel
  rw [this, FM.float_unpack_ofBits _ (by decide)]; rfl
theorem unpack_3_6 : (3.6 : Float).toModel.unpack = .finite .positive 8106479329266893 (-51) (by decide) := by
  have : (3.6 : Float) = Float.ofBits 0x400CCCCCCCCCCCCD := by decide +kernel
  rw [this, FM.float_unpack_ofBits _ (by decide)]; rfl
theorem unpack_6 : (6 : Float).toModel.unpack = .finite .positive 6755399441055744 (-50) (by decide) := by
  have : (6 : Float) = Float.ofBits 0x4018000000000000 := by decide +kernel
  rw [this, FM.float_unpack_ofBits _ (by decide)]; rfl
theorem unpack_60000 : (60000 : Float).toModel.unpack = .finite .positive 8246337208320000 (-37) (by decide) := by
  have : (60000 : Float) = Float.ofBits 0x40ED4C0000000000 := by decide +kernel
  rw [this, FM.float_unpack_ofBits _ (by decide)]; rfl
theorem unpack_0_1' : (0.1 : Float).toModel.unpack = .finite .positive 7205759403792794 (-56) (by decide) := by
  have : (0.1 : Float) = Float.ofBits 0x3FB999999999999A := by decide +kernel
  rw [this, FM.float_unpack_ofBits _ (by decide)]; rfl

theorem toRat_100 : toRat (100 : Float) = 100 := by rw [toRat_of_unpack unpack_100]; norm_num [sgnQ]
theorem toRat_neg100 : toRat (-100 : Float) = -100 := by rw [toRat_of_unpack unpack_neg100]; norm_num [sgnQ]
theorem toRat_10 : toRat (10 : Float) = 10 := by rw [toRat_of_unpack unpack_10]; norm_num [sgnQ]
theorem toRat_1000 : toRat (1000 : Float) = 1000 := by rw [toRat_of_unpack unpack_1000]; norm_num [sgnQ]
theorem toRat_10000 : toRat (10000 : Float) = 10000 := by rw [toRat_of_unpack unpack_10000]; norm_num [sgnQ]
theorem toRat_6 : toRat (6 : Float) = 6 := by rw [toRat_of_unpack unpack_6]; norm_num [sgnQ]
theorem toRat_60000 : toRat (60000 : Float) = 60000 := by rw [toRat_of_unpack unpack_60000]; norm_num [sgnQ]
/-- the double `0.4` is slightly above `2/5`, `3.6` slightly above `18/5` (below `4`), `0.1` slightly above `1/10`. -/
theorem toRat_0_4 : toRat (0.4 : Float) = 3602879701896397 / 9007199254740992 := by
  rw [toRat_of_unpack unpack_0_4]; norm_num [sgnQ]
theorem toRat_3_6 : toRat (3.6 : Float) = 8106479329266893 / 2251799813685248 := by
  rw [toRat_of_unpack unpack_3_6]; norm_num [sgnQ]
theorem toRat_0_1 : toRat (0.1 : Float) = 3602879701896397 / 36028797018963968 := by
  rw [toRat_of_unpack unpack_0_1']; norm_num [sgnQ]

/-- `f64::from(100_f32)` is the double `100`. -/
theorem up100 : (Cvt.up (100 : Float32) : Float) = (100 : Float) := by decide +kernel

/-! ### `clamp` and the accumulated relative error -/

/-- **`clamp` never increases a relative error**: if `y` carries `x(1+δ)` and the exact `x` lies within the bounds, the
clamped double carries `x(1+δ')` with `|δ'| ≤ u` too (it is `y`, or a bound squeezed between `x` and `y`). -/
theorem clamp_rel_float (y lo hi : Float) (x δ u : ℚ) (fy : y.isFinite = true) (flo : lo.isFinite = true)
    (fhi : hi.isFinite = true) (hlohi : Scalar.lt hi lo = false) (ey : toRat y = x * (1 + δ)) (hx0 : 0 < x)
    (hlo : toRat lo ≤ x) (hhi : x ≤ toRat hi) (hδ : |δ| ≤ u) :
    (Scalar.clamp y lo hi).isFinite = true ∧ ∃ δ' : ℚ, |δ'| ≤ u ∧ toRat (Scalar.clamp y lo hi) = x * (1 + δ') := by
  unfold Scalar.clamp
  simp only []
  cases h1 : Scalar.lt y lo
  · simp only [Bool.false_eq_true, if_false]
    cases h2 : Scalar.lt hi y
    · simp only [Bool.false_eq_true, if_false]
      exact ⟨fy, δ, hδ, ey⟩
    · simp only [if_true]
      have := toRat_le_of_lt hi y fhi fy h2
      exact ⟨fhi, squeeze_rel x u δ _ hx0 hδ (Or.inr ⟨hhi, by rw [← ey]; exact this⟩)⟩
  · simp only [if_true, hlohi, Bool.false_eq_true, if_false]
    have := toRat_le_of_lt y lo fy flo h1
    exact ⟨flo, squeeze_rel x u δ _ hx0 hδ (Or.inl ⟨by rw [← ey]; exact this, hlo⟩)⟩

/-- two rounding factors above, three below the bar: `|(1+d)(1+e) / ((1+a)(1+b)(1+c)) − 1| ≤ 6u` for `u ≤ 1/100`
(the first-order term is `5u`). -/
theorem ratio_bound (u a b c d e : ℚ) (hu0 : 0 ≤ u) (hu : u ≤ 1 / 100)
    (ha : |a| ≤ u) (hb : |b| ≤ u) (hc : |c| ≤ u) (hd : |d| ≤ u) (he : |e| ≤ u) :
    |(1 + d) * (1 + e) / ((1 + a) * (1 + b) * (1 + c)) - 1| ≤ 6 * u := by
  rw [abs_le] at ha hb hc hd he
  have l1 : (0 : ℚ) ≤ 1 - u := by linarith
  have ab1 : (1 - u) * (1 - u) ≤ (1 + a) * (1 + b) := mul_le_mul (by linarith) (by linarith) l1 (by linarith)
  have ab2 : (1 + a) * (1 + b) ≤ (1 + u) * (1 + u) := mul_le_mul (by linarith) (by linarith) (by linarith) (by linarith)
  have D1 : (1 - u) * (1 - u) * (1 - u) ≤ (1 + a) * (1 + b) * (1 + c) :=
    mul_le_mul ab1 (by linarith) l1 (le_trans (mul_nonneg l1 l1) ab1)
  have D2 : (1 + a) * (1 + b) * (1 + c) ≤ (1 + u) * (1 + u) * (1 + u) :=
    mul_le_mul ab2 (by linarith) (by linarith) (by nlinarith)
  have N1 : (1 - u) * (1 - u) ≤ (1 + d) * (1 + e) := mul_le_mul (by linarith) (by linarith) l1 (by linarith)
  have N2 : (1 + d) * (1 + e) ≤ (1 + u) * (1 + u) := mul_le_mul (by linarith) (by linarith) (by linarith) (by linarith)
  have hDpos : 0 < (1 + a) * (1 + b) * (1 + c) :=
    lt_of_lt_of_le (by have : (0 : ℚ) < 1 - u := by linarith
                       positivity) D1
  have u2 : 0 ≤ u * u := mul_nonneg hu0 hu0
  have u3 : 0 ≤ u * u * u := mul_nonneg u2 hu0
  have u4 : 0 ≤ u * u * u * u := mul_nonneg u3 hu0
  have p1 : (1 + u) * (1 + u) ≤ (1 + 6 * u) * ((1 - u) * (1 - u) * (1 - u)) := by
    have k : 0 ≤ u * (1 - 100 * u) := mul_nonneg hu0 (by linarith)
    have k3 : u * u * u * u ≤ u * u * u * (1 / 100) := mul_le_mul_of_nonneg_left hu u3
    nlinarith
  have p2 : (1 - 6 * u) * ((1 + u) * (1 + u) * (1 + u)) ≤ (1 - u) * (1 - u) := by nlinarith
  have h6 : (0 : ℚ) ≤ 1 - 6 * u := by linarith
  rw [abs_le]
  constructor
  · rw [le_sub_iff_add_le, le_div_iff₀ hDpos]
    calc (-(6 * u) + 1) * ((1 + a) * (1 + b) * (1 + c)) ≤ (1 - 6 * u) * ((1 + u) * (1 + u) * (1 + u)) := by
          rw [show -(6 * u) + 1 = 1 - 6 * u by ring]; exact mul_le_mul_of_nonneg_left D2 h6
      _ ≤ (1 - u) * (1 - u) := p2
      _ ≤ _ := N1
  · rw [sub_le_iff_le_add, div_le_iff₀ hDpos]
    calc (1 + d) * (1 + e) ≤ (1 + u) * (1 + u) := N2
      _ ≤ (1 + 6 * u) * ((1 - u) * (1 - u) * (1 - u)) := p1
      _ ≤ (6 * u + 1) * ((1 + a) * (1 + b) * (1 + c)) := by
          rw [show 6 * u + 1 = 1 + 6 * u by ring]; exact mul_le_mul_of_nonneg_left D1 (by linarith)

/-! ### the finaliser's expression on doubles -/

/-- the upper clamp bound of `get_precision_adjusted_beat_len`, per mode. -/
def hiOf (mode : GameMode) : Float := match mode with
  | .osu | .catch => 10000
  | .taiko | .mania => 1000

/-- `get_precision_adjusted_beat_len` on doubles, for a multiplier with `−100 / sv < 0`. -/
theorem pabl_float (sv bl : Float) (mode : GameMode) (h : Scalar.lt ((-100 : Float) / sv) 0 = true) :
    precisionAdjustedBeatLen sv bl mode = bl * (Scalar.clamp (-((-100 : Float) / sv)) 10 (hiOf mode) / 100) := by
  unfold precisionAdjustedBeatLen
  simp only [h, if_true]
  cases mode <;> rfl

theorem hiOf_facts (mode : GameMode) :
    (hiOf mode).isFinite = true ∧ Scalar.lt (hiOf mode) (10 : Float) = false ∧ (1000 : ℚ) ≤ toRat (hiOf mode) := by
  cases mode
  · exact ⟨by decide +kernel, by decide +kernel, by show _ ≤ toRat (10000 : Float); rw [toRat_10000]; norm_num⟩
  · exact ⟨by decide +kernel, by decide +kernel, by show _ ≤ toRat (1000 : Float); rw [toRat_1000]⟩
  · exact ⟨by decide +kernel, by decide +kernel, by show _ ≤ toRat (10000 : Float); rw [toRat_10000]; norm_num⟩
  · exact ⟨by decide +kernel, by decide +kernel, by show _ ≤ toRat (1000 : Float); rw [toRat_1000]⟩

/-- `|δ| ≤ 2⁻⁵³` gives the crude `−1/2 ≤ δ ≤ 1/2`. -/
theorem dhalf {δ : ℚ} (h : |δ| ≤ (2 : ℚ) ^ (-53 : Int)) : -(1 / 2) ≤ δ ∧ δ ≤ 1 / 2 := by
  have := u53_le
  rw [abs_le] at h
  generalize (2 : ℚ) ^ (-53 : Int) = u at *
  constructor <;> linarith [h.1, h.2]

/-- the stored velocity on doubles, as the finaliser computes it (`finalizeObject`, `F := Float`, `P := Float32`). -/
def velocityF (mode : GameMode) (sm bl sv : Float) : Float :=
  (Cvt.up (100 : Float32) : Float) * sm / precisionAdjustedBeatLen sv bl mode

/-- **the computation, step by step**: in the decoded ranges every intermediate double is finite and normal, and the
stored velocity is `W · (1+δ₄)(1+δ₅) / ((1+δ₁)(1+δ₂)(1+δ₃))` with `W = 100 · SM · sv / beat_len` and five
`|δᵢ| ≤ 2⁻⁵³`. -/
theorem velocity_factors_float (mode : GameMode) (sm bl sv : Float)
    (hsm1 : Scalar.le (0.4 : Float) sm = true) (hsm2 : Scalar.le sm (3.6 : Float) = true)
    (hb1 : Scalar.le (6 : Float) bl = true) (hb2 : Scalar.le bl (60000 : Float) = true)
    (hs1 : Scalar.le (0.1 : Float) sv = true) (hs2 : Scalar.le sv (10 : Float) = true) :
    (velocityF mode sm bl sv).isFinite = true ∧
    ∃ δ₁ δ₂ δ₃ δ₄ δ₅ : ℚ, |δ₁| ≤ (2 : ℚ) ^ (-53 : Int) ∧ |δ₂| ≤ (2 : ℚ) ^ (-53 : Int) ∧ |δ₃| ≤ (2 : ℚ) ^ (-53 : Int) ∧
      |δ₄| ≤ (2 : ℚ) ^ (-53 : Int) ∧ |δ₅| ≤ (2 : ℚ) ^ (-53 : Int) ∧
      toRat (velocityF mode sm bl sv) = 100 * toRat sm * toRat sv / toRat bl *
        ((1 + δ₄) * (1 + δ₅) / ((1 + δ₁) * (1 + δ₂) * (1 + δ₃))) := by
  have fsm := finite_of_between _ sm _ (by decide +kernel) (by decide +kernel) hsm1 hsm2
  have fbl := finite_of_between _ bl _ (by decide +kernel) (by decide +kernel) hb1 hb2
  have fsv := finite_of_between _ sv _ (by decide +kernel) (by decide +kernel) hs1 hs2
  have S1 : 2 / 5 ≤ toRat sm :=
    le_trans (by rw [toRat_0_4]; norm_num) (toRat_le_of_le _ _ (by decide +kernel) fsm hsm1)
  have S2 : toRat sm ≤ 4 :=
    le_trans (toRat_le_of_le _ _ fsm (by decide +kernel) hsm2) (by rw [toRat_3_6]; norm_num)
  have B1 : 6 ≤ toRat bl := by
    have := toRat_le_of_le _ _ (by decide +kernel) fbl hb1; rwa [toRat_6] at this
  have B2 : toRat bl ≤ 60000 := by
    have := toRat_le_of_le _ _ fbl (by decide +kernel) hb2; rwa [toRat_60000] at this
  have V1 : 1 / 10 ≤ toRat sv :=
    le_trans (by rw [toRat_0_1]; norm_num) (toRat_le_of_le _ _ (by decide +kernel) fsv hs1)
  have V2 : toRat sv ≤ 10 := by
    have := toRat_le_of_le _ _ fsv (by decide +kernel) hs2; rwa [toRat_10] at this
  have hs0 : 0 < toRat sv := by linarith
  have hB0 : 0 < toRat bl := by linarith
  have hS0 : 0 < toRat sm := by linarith
  -- x = 100 / sv ∈ [10, 1000]
  have hx1 : 10 ≤ 100 / toRat sv := by rw [le_div_iff₀ hs0]; linarith
  have hx2 : 100 / toRat sv ≤ 1000 := by rw [div_le_iff₀ hs0]; linarith
  have hx0 : 0 < 100 / toRat sv := by linarith
  -- (1) −100 / sv
  have habs : |toRat (-100 : Float) / toRat sv| = 100 / toRat sv := by
    rw [toRat_neg100, neg_div, abs_neg, abs_of_pos hx0]
  obtain ⟨f1, δ₁, hδ₁, e1⟩ := div_ok (-100 : Float) sv (by decide +kernel) fsv hs0.ne'
    (by rw [habs]; exact tiny_le _ (le_trans (by norm_num) hx1))
    (by rw [habs]; exact lt_huge _ (le_trans hx2 (by norm_num)))
  rw [toRat_neg100] at e1
  obtain ⟨d1a, d1b⟩ := dhalf hδ₁
  have hlt : Scalar.lt ((-100 : Float) / sv) 0 = true := by
    refine lt_zero_of_toRat_neg _ f1 ?_
    rw [e1, neg_div, neg_mul]
    have : 0 < 100 / toRat sv * (1 + δ₁) := mul_pos hx0 (by linarith)
    linarith
  -- negation, exact
  have fy : (-((-100 : Float) / sv)).isFinite = true := by rw [neg_isFinite]; exact f1
  have ey : toRat (-((-100 : Float) / sv)) = 100 / toRat sv * (1 + δ₁) := by rw [toRat_neg, e1]; ring
  -- clamp
  obtain ⟨fhi, hhl, hhi⟩ := hiOf_facts mode
  obtain ⟨fC, δ₁', hδ₁', eC⟩ := clamp_rel_float (-((-100 : Float) / sv)) 10 (hiOf mode) (100 / toRat sv) δ₁
    ((2 : ℚ) ^ (-53 : Int)) fy (by decide +kernel) fhi hhl ey hx0 (by rw [toRat_10]; exact hx1)
    (le_trans hx2 hhi) hδ₁
  obtain ⟨C1, C2⟩ := rel_bounds _ δ₁' 10 1000 (by norm_num) hx1 hx2 hδ₁'
  rw [← eC] at C1 C2
  have hv : velocityF mode sm bl sv =
      (100 : Float) * sm / (bl * (Scalar.clamp (-((-100 : Float) / sv)) 10 (hiOf mode) / (100 : Float))) := by
    unfold velocityF; rw [up100, pabl_float sv bl mode hlt]
  generalize Scalar.clamp (-((-100 : Float) / sv)) 10 (hiOf mode) = C at *
  have hC0 : 0 < toRat C := by linarith
  -- (2) / 100
  have hm1 : (1 : ℚ) / 20 ≤ toRat C / toRat (100 : Float) := by rw [toRat_100, le_div_iff₀ (by norm_num)]; linarith
  have hm2 : toRat C / toRat (100 : Float) ≤ 20 := by rw [toRat_100, div_le_iff₀ (by norm_num)]; linarith
  have hm0 : 0 < toRat C / toRat (100 : Float) := by linarith
  obtain ⟨f2, δ₂, hδ₂, e2⟩ := div_ok C (100 : Float) fC (by decide +kernel) (by rw [toRat_100]; norm_num)
    (by rw [abs_of_pos hm0]; exact tiny_le _ (le_trans (by norm_num) hm1))
    (by rw [abs_of_pos hm0]; exact lt_huge _ (le_trans hm2 (by norm_num)))
  obtain ⟨M1, M2⟩ := rel_bounds _ δ₂ (1 / 20) 20 (by norm_num) hm1 hm2 hδ₂
  rw [← e2] at M1 M2
  -- (3) beat_len · …
  have hp1 : (6 : ℚ) * (1 / 20 / 2) ≤ toRat bl * toRat (C / (100 : Float)) :=
    mul_le_mul B1 M1 (by norm_num) (by linarith)
  have hp2 : toRat bl * toRat (C / (100 : Float)) ≤ 60000 * (2 * 20) :=
    mul_le_mul B2 M2 (by linarith) (by norm_num)
  have hp0 : 0 < toRat bl * toRat (C / (100 : Float)) := by linarith
  obtain ⟨f3, δ₃, hδ₃, e3⟩ := mul_ok bl (C / (100 : Float)) fbl f2
    (by rw [abs_of_pos hp0]; exact tiny_le _ (le_trans (by norm_num) hp1))
    (by rw [abs_of_pos hp0]; exact lt_huge _ (le_trans hp2 (by norm_num)))
  obtain ⟨P1, P2⟩ := rel_bounds _ δ₃ _ _ (by norm_num) hp1 hp2 hδ₃
  rw [← e3] at P1 P2
  have hP0 : 0 < toRat (bl * (C / (100 : Float))) := by linarith
  -- (4) 100 · SM
  have hn1 : (40 : ℚ) ≤ toRat (100 : Float) * toRat sm := by rw [toRat_100]; linarith
  have hn2 : toRat (100 : Float) * toRat sm ≤ 400 := by rw [toRat_100]; linarith
  have hn0 : 0 < toRat (100 : Float) * toRat sm := by linarith
  obtain ⟨f4, δ₄, hδ₄, e4⟩ := mul_ok (100 : Float) sm (by decide +kernel) fsm
    (by rw [abs_of_pos hn0]; exact tiny_le _ (le_trans (by norm_num) hn1))
    (by rw [abs_of_pos hn0]; exact lt_huge _ (le_trans hn2 (by norm_num)))
  obtain ⟨N1, N2⟩ := rel_bounds _ δ₄ 40 400 (by norm_num) hn1 hn2 hδ₄
  rw [← e4] at N1 N2
  have hN0 : 0 < toRat ((100 : Float) * sm) := by linarith
  -- (5) the final division
  have hq0 : 0 < toRat ((100 : Float) * sm) / toRat (bl * (C / (100 : Float))) := div_pos hN0 hP0
  have hq1 : (1 : ℚ) / 1000000 ≤ toRat ((100 : Float) * sm) / toRat (bl * (C / (100 : Float))) := by
    rw [le_div_iff₀ hP0]; linarith
  have hq2 : toRat ((100 : Float) * sm) / toRat (bl * (C / (100 : Float))) ≤ 1000000 := by
    rw [div_le_iff₀ hP0]; linarith
  obtain ⟨f5, δ₅, hδ₅, e5⟩ := div_ok ((100 : Float) * sm) (bl * (C / (100 : Float))) f4 f3 hP0.ne'
    (by rw [abs_of_pos hq0]; exact tiny_le _ (le_trans (by norm_num) hq1))
    (by rw [abs_of_pos hq0]; exact lt_huge _ (le_trans hq2 (by norm_num)))
  -- assemble
  rw [hv]
  refine ⟨f5, δ₁', δ₂, δ₃, δ₄, δ₅, hδ₁', hδ₂, hδ₃, hδ₄, hδ₅, ?_⟩
  obtain ⟨a1, a2⟩ := dhalf hδ₁'
  obtain ⟨b1, b2⟩ := dhalf hδ₂
  obtain ⟨c1, c2⟩ := dhalf hδ₃
  have n1 : (1 + δ₁') ≠ 0 := by linarith
  have n2 : (1 + δ₂) ≠ 0 := by linarith
  have n3 : (1 + δ₃) ≠ 0 := by linarith
  rw [e5, e4, e3, e2, eC, toRat_100]
  have hs' := hs0.ne'
  have hB' := hB0.ne'
  field_simp

/-- **velocity_worded_err_float** — "velocity equals 100 × slider multiplier / beat length × the active multiplier",
**in IEEE doubles up to 6 units of `2⁻⁵³`**: for `SM ∈ [0.4, 3.6]`, `beat_len ∈ [6, 60000]`, `sv ∈ [0.1, 10]` (doubles,
IEEE `<=`) the velocity the finaliser stores is finite and within `6 · 2⁻⁵³` (relative) of the worded formula
evaluated exactly (`wordedVelocity`, Props/C15Velocity.lean) on the values of the three doubles. -/
theorem velocity_worded_err_float (mode : GameMode) (sm bl sv : Float)
    (hsm1 : Scalar.le (0.4 : Float) sm = true) (hsm2 : Scalar.le sm (3.6 : Float) = true)
    (hb1 : Scalar.le (6 : Float) bl = true) (hb2 : Scalar.le bl (60000 : Float) = true)
    (hs1 : Scalar.le (0.1 : Float) sv = true) (hs2 : Scalar.le sv (10 : Float) = true) :
    (velocityF mode sm bl sv).isFinite = true ∧
    |toRat (velocityF mode sm bl sv) - wordedVelocity mode (toRat sm) (toRat bl) (toRat sv)| ≤
      6 * (2 : ℚ) ^ (-53 : Int) * wordedVelocity mode (toRat sm) (toRat bl) (toRat sv) := by
  obtain ⟨hf, δ₁, δ₂, δ₃, δ₄, δ₅, h1, h2, h3, h4, h5, hv⟩ :=
    velocity_factors_float mode sm bl sv hsm1 hsm2 hb1 hb2 hs1 hs2
  refine ⟨hf, ?_⟩
  have fsm := finite_of_between _ sm _ (by decide +kernel) (by decide +kernel) hsm1 hsm2
  have fbl := finite_of_between _ bl _ (by decide +kernel) (by decide +kernel) hb1 hb2
  have fsv := finite_of_between _ sv _ (by decide +kernel) (by decide +kernel) hs1 hs2
  have S1 : 0 < toRat sm :=
    lt_of_lt_of_le (by rw [toRat_0_4]; norm_num) (toRat_le_of_le _ _ (by decide +kernel) fsm hsm1)
  have B1 : 0 < toRat bl :=
    lt_of_lt_of_le (by rw [toRat_6]; norm_num) (toRat_le_of_le _ _ (by decide +kernel) fbl hb1)
  have V1 : 1 / 10 ≤ toRat sv :=
    le_trans (by rw [toRat_0_1]; norm_num) (toRat_le_of_le _ _ (by decide +kernel) fsv hs1)
  have V2 : toRat sv ≤ 10 := by
    have := toRat_le_of_le _ _ fsv (by decide +kernel) hs2; rwa [toRat_10] at this
  have hw : wordedVelocity mode (toRat sm) (toRat bl) (toRat sv) = 100 * toRat sm * toRat sv / toRat bl := by
    show 100 * toRat sm * clampedSV mode (toRat sv) / toRat bl = _
    rw [clampedSV_of_range mode (toRat sv) V1 V2]
  rw [hw, hv]
  have hW : 0 ≤ 100 * toRat sm * toRat sv / toRat bl := by
    have : 0 < toRat sv := by linarith
    positivity
  have hr := ratio_bound ((2 : ℚ) ^ (-53 : Int)) δ₁ δ₂ δ₃ δ₄ δ₅ u53_pos.le (le_trans u53_le (by norm_num)) h1 h2 h3 h4 h5
  generalize (1 + δ₄) * (1 + δ₅) / ((1 + δ₁) * (1 + δ₂) * (1 + δ₃)) = ρ at hr ⊢
  generalize 100 * toRat sm * toRat sv / toRat bl = W at hW ⊢
  rw [show W * ρ - W = W * (ρ - 1) by ring, abs_mul, abs_of_nonneg hW]
  calc W * |ρ - 1| ≤ W * (6 * (2 : ℚ) ^ (-53 : Int)) := mul_le_mul_of_nonneg_left hr hW
    _ = 6 * (2 : ℚ) ^ (-53 : Int) * W := by ring

/-- the same as a relative statement: `toRat v = W · (1 + ε)`, `|ε| ≤ 6 · 2⁻⁵³` (about 6 ulps of the result at most;
`W` the worded velocity, positive). -/
theorem velocity_worded_ulps_float (mode : GameMode) (sm bl sv : Float)
    (hsm1 : Scalar.le (0.4 : Float) sm = true) (hsm2 : Scalar.le sm (3.6 : Float) = true)
    (hb1 : Scalar.le (6 : Float) bl = true) (hb2 : Scalar.le bl (60000 : Float) = true)
    (hs1 : Scalar.le (0.1 : Float) sv = true) (hs2 : Scalar.le sv (10 : Float) = true) :
    ∃ ε : ℚ, |ε| ≤ 6 * (2 : ℚ) ^ (-53 : Int) ∧
      toRat (velocityF mode sm bl sv) = wordedVelocity mode (toRat sm) (toRat bl) (toRat sv) * (1 + ε) := by
  obtain ⟨hf, δ₁, δ₂, δ₃, δ₄, δ₅, h1, h2, h3, h4, h5, hv⟩ :=
    velocity_factors_float mode sm bl sv hsm1 hsm2 hb1 hb2 hs1 hs2
  have fsv := finite_of_between _ sv _ (by decide +kernel) (by decide +kernel) hs1 hs2
  have V1 : 1 / 10 ≤ toRat sv :=
    le_trans (by rw [toRat_0_1]; norm_num) (toRat_le_of_le _ _ (by decide +kernel) fsv hs1)
  have V2 : toRat sv ≤ 10 := by
    have := toRat_le_of_le _ _ fsv (by decide +kernel) hs2; rwa [toRat_10] at this
  have hw : wordedVelocity mode (toRat sm) (toRat bl) (toRat sv) = 100 * toRat sm * toRat sv / toRat bl := by
    show 100 * toRat sm * clampedSV mode (toRat sv) / toRat bl = _
    rw [clampedSV_of_range mode (toRat sv) V1 V2]
  refine ⟨(1 + δ₄) * (1 + δ₅) / ((1 + δ₁) * (1 + δ₂) * (1 + δ₃)) - 1,
    ratio_bound _ δ₁ δ₂ δ₃ δ₄ δ₅ u53_pos.le (le_trans u53_le (by norm_num)) h1 h2 h3 h4 h5, ?_⟩
  rw [hw, hv]; ring

/-- the stored velocity of a finalised slider *is* `velocityF` (definitional: `finalizeObject` on the driver's
instance), so the bound applies to the `velocity` field `slider_finalized` (Props/C15.lean) describes. -/
theorem velocityF_eq (mode : GameMode) (sm bl sv : Float) :
    velocityF mode sm bl sv = (Cvt.up (100 : Float32) : Float) * sm / precisionAdjustedBeatLen sv bl mode := rfl

/-! ### non-vacuity -/

/-- the hypotheses hold on osu!, `SM = 1.4`, 500 ms beats, `sv = 2` … -/
example : Scalar.le (0.4 : Float) (1.4 : Float) = true ∧ Scalar.le (1.4 : Float) (3.6 : Float) = true ∧
    Scalar.le (6 : Float) (500 : Float) = true ∧ Scalar.le (500 : Float) (60000 : Float) = true ∧
    Scalar.le (0.1 : Float) (2 : Float) = true ∧ Scalar.le (2 : Float) (10 : Float) = true := by decide +kernel

/-- … and the instance of the theorem there (exact worded value `100 · toRat 1.4 · 2 / 500`, about `0.56`). -/
example : (velocityF .osu 1.4 500 2).isFinite = true ∧
    |toRat (velocityF .osu 1.4 500 2) - wordedVelocity .osu (toRat (1.4 : Float)) (toRat (500 : Float)) (toRat (2 : Float))| ≤
      6 * (2 : ℚ) ^ (-53 : Int) * wordedVelocity .osu (toRat (1.4 : Float)) (toRat (500 : Float)) (toRat (2 : Float)) :=
  velocity_worded_err_float .osu 1.4 500 2 (by decide +kernel) (by decide +kernel) (by decide +kernel)
    (by decide +kernel) (by decide +kernel) (by decide +kernel)

/-- there the kernel evaluates the stored double to the double nearest to `0.56` (`0x3FE1EB851EB851EC`). -/
example : velocityF .osu 1.4 500 2 = Float.ofBits 0x3FE1EB851EB851EC := by decide +kernel

/-- **the roundings do show**: osu!, `SM = 2.7`, `beat_len = 333.33`, `sv = 1.5` satisfy the hypotheses, the kernel
evaluates the stored velocity to `0x3FF370B094903B59`, and that double is *more than* `2 · 2⁻⁵³` (relative; it is
`≈ 2.70 · 2⁻⁵³`, two ulps below the correctly rounded `…B5B`) away from the worded value — so the constant of
`velocity_worded_err_float` cannot be lowered below `2.7`, and "equals" is false in IEEE arithmetic. -/
theorem velocity_not_exact_float :
    velocityF .osu 2.7 333.33 1.5 = Float.ofBits 0x3FF370B094903B59 ∧
    2 * (2 : ℚ) ^ (-53 : Int) * wordedVelocity .osu (toRat (2.7 : Float)) (toRat (333.33 : Float)) (toRat (1.5 : Float)) <
      |toRat (velocityF .osu 2.7 333.33 1.5) -
        wordedVelocity .osu (toRat (2.7 : Float)) (toRat (333.33 : Float)) (toRat (1.5 : Float))| := by
  have hv : velocityF .osu 2.7 333.33 1.5 = Float.ofBits 0x3FF370B094903B59 := by decide +kernel
  have u1 : (2.7 : Float).toModel.unpack = .finite .positive 6079859496950170 (-51) (by decide) := by
    have : (2.7 : Float) = Float.ofBits 0x400599999999999A := by decide +kernel
    rw [this, FM.float_unpack_ofBits _ (by decide)]; rfl
  have u2 : (333.33 : Float).toModel.unpack = .finite .positive 5864003374185185 (-44) (by decide) := by
    have : (333.33 : Float) = Float.ofBits 0x4074D547AE147AE1 := by decide +kernel
    rw [this, FM.float_unpack_ofBits _ (by decide)]; rfl
  have u3 : (1.5 : Float).toModel.unpack = .finite .positive 6755399441055744 (-52) (by decide) := by
    have : (1.5 : Float) = Float.ofBits 0x3FF8000000000000 := by decide +kernel
    rw [this, FM.float_unpack_ofBits _ (by decide)]; rfl
  have u4 : (Float.ofBits 0x3FF370B094903B59).toModel.unpack =
      .finite .positive 5471928266537817 (-52) (by decide) := by
    rw [FM.float_unpack_ofBits _ (by decide)]; rfl
  refine ⟨hv, ?_⟩
  rw [hv, toRat_of_unpack u1, toRat_of_unpack u2, toRat_of_unpack u3, toRat_of_unpack u4]
  have hc : clampedSV .osu (sgnQ .positive * ((6755399441055744 : Nat) : ℚ) * (2 : ℚ) ^ (-52 : Int)) =
      sgnQ .positive * ((6755399441055744 : Nat) : ℚ) * (2 : ℚ) ^ (-52 : Int) :=
    clampedSV_of_range _ _ (by norm_num [sgnQ]) (by norm_num [sgnQ])
  show _ < |_ - 100 * _ * clampedSV .osu _ / _|
  rw [show wordedVelocity .osu (sgnQ .positive * ((6079859496950170 : Nat) : ℚ) * (2 : ℚ) ^ (-51 : Int))
      (sgnQ .positive * ((5864003374185185 : Nat) : ℚ) * (2 : ℚ) ^ (-44 : Int))
      (sgnQ .positive * ((6755399441055744 : Nat) : ℚ) * (2 : ℚ) ^ (-52 : Int)) =
    100 * (sgnQ .positive * ((6079859496950170 : Nat) : ℚ) * (2 : ℚ) ^ (-51 : Int)) *
      clampedSV .osu (sgnQ .positive * ((6755399441055744 : Nat) : ℚ) * (2 : ℚ) ^ (-52 : Int)) /
      (sgnQ .positive * ((5864003374185185 : Nat) : ℚ) * (2 : ℚ) ^ (-44 : Int)) from rfl, hc]
  norm_num [sgnQ, abs_lt, lt_abs]

/-- the boundary values are covered (clamp bounds hit exactly: `sv = 10` gives `100/sv = 10`). -/
example : Scalar.le (0.1 : Float) (10 : Float) = true ∧ Scalar.le (10 : Float) (10 : Float) = true ∧
    Scalar.le (0.1 : Float) (0.1 : Float) = true := by decide +kernel

end Rosu.C15
