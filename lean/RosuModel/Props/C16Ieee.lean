/-
  Props/C16Ieee.lean — C16 `lengths_monotone` for the arithmetic the driver actually runs.

  Props/C16.lean proves `lengths_monotone` under `MonoLaws` (`0 ≤ x → a ≤ a + x` for *all* `a x`), which is false in
  IEEE arithmetic (NaN operands; `-∞ + +∞`) and was instantiated on ℤ/ℚ/ℝ only. Since Lean 4.33 `Float`/`Float32`
  are not opaque: `+`, `≤`, `isNaN` are defined through `Float.Model` (Init/Data/Float/Model/**), so the IEEE law can
  be *proved* (Lemmas/FloatModelValue.lean, FloatModelRound.lean, FloatModelAdd.lean; generic in the format):

  * `le_add_float`, `le_add_float32`: `a` not a NaN, `0 ≤ x`, `a + x` not a NaN ⟹ `a ≤ a + x`
    (round-to-nearest-even addition of a non-negative number never decreases, including overflow to `+∞`,
    subnormals, signed zeros, negative `a`);
  * `add_isNaN_float`/`32`: under the first two hypotheses the sum is a NaN only for `-∞ + +∞`;
  * `add_nonneg_float`/`32`, `le_add_float_nonneg`/`32`: for `0 ≤ a`, `0 ≤ x` no side condition is left;
  * `MonoLawsIeee` (the corrected law structure), `monoLawsIeee_float`, `monoLawsIeee_float32`;
  * `lengths_monotone_ieee` / `lengths_monotone_float`: the natural cumulative lengths `cumLens c path` computed in
    `Float` from `Float32` points never decrease — exactly, not up to a tolerance — if no entry is a NaN and every
    segment length satisfies `0 ≤ ·`; `lengths_monotone_float_nonneg`, `natLens_monotone_float`: for a start value
    `0 ≤ c` the NaN hypothesis is not needed (the sums are then `≥ 0`, possibly `+∞`).
  The hypothesis on the segment lengths `Cvt.up (Pos.length F v)` stays a hypothesis: `Float32.toFloat` and
  `Float.toFloat32` are still opaque in Lean 4.33.
-/
import RosuModel.Props.C16
import RosuModel.Lemmas.FloatModelAdd
namespace Rosu.C16
open Rosu Rosu.Curve Float.Model Float.Model.UnpackedFloat

/-! ### bridges: the `Scalar` instances of `Float`/`Float32` in terms of the unpacked model -/

theorem scalar_le_float (a b : Float) : Scalar.le a b = a.toModel.unpack.le b.toModel.unpack := by
  show decide (decide (a.toModel.unpack.le b.toModel.unpack = true) = true) = _
  simp

theorem scalar_le_float32 (a b : Float32) : Scalar.le a b = a.toModel.unpack.le b.toModel.unpack := by
  show decide (decide (a.toModel.unpack.le b.toModel.unpack = true) = true) = _
  simp

theorem float_add_unpack (a x : Float) :
    (a + x).toModel.unpack =
      FMR.repack Format.binary64 (UnpackedFloat.add Format.binary64 a.toModel.unpack x.toModel.unpack) := rfl

theorem float32_add_unpack (a x : Float32) :
    (a + x).toModel.unpack =
      FMR.repack Format.binary32 (UnpackedFloat.add Format.binary32 a.toModel.unpack x.toModel.unpack) := rfl

theorem float_zero_unpack : (0 : Float).toModel.unpack = .zero .positive := rfl
theorem float32_zero_unpack : (0 : Float32).toModel.unpack = .zero .positive := rfl

/-! ### IEEE monotonicity of `a ↦ a + x`, `x ≥ 0` -/

/-- **binary64 addition of a non-negative number never decreases**: the only ways `a ≤ a + x` can fail for
`0 ≤ x` are a NaN `a` or a NaN sum (`add_isNaN_float`: only `-∞ + +∞`). -/
theorem le_add_float (a x : Float) (ha : a.isNaN = false) (hx : Scalar.le (0 : Float) x = true)
    (hs : (a + x).isNaN = false) : Scalar.le a (a + x) = true := by
  rw [scalar_le_float] at hx ⊢
  rw [float_add_unpack]
  exact FMR.le_add_unpacked Format.binary64 (by decide) a.toModel.toBits.toBitVec x.toModel.toBits.toBitVec ha hx hs

/-- **binary32 addition of a non-negative number never decreases.** -/
theorem le_add_float32 (a x : Float32) (ha : a.isNaN = false) (hx : Scalar.le (0 : Float32) x = true)
    (hs : (a + x).isNaN = false) : Scalar.le a (a + x) = true := by
  rw [scalar_le_float32] at hx ⊢
  rw [float32_add_unpack]
  exact FMR.le_add_unpacked Format.binary32 (by decide) a.toModel.toBits.toBitVec x.toModel.toBits.toBitVec ha hx hs

/-- for `a` not a NaN and `0 ≤ x` the sum is a NaN only for `a = -∞`, `x = +∞`. -/
theorem add_isNaN_float (a x : Float) (ha : a.isNaN = false) (hx : Scalar.le (0 : Float) x = true)
    (hs : (a + x).isNaN = true) :
    a.toModel.unpack = .infinity .negative ∧ x.toModel.unpack = .infinity .positive := by
  rw [scalar_le_float] at hx
  exact FMR.add_nan_unpacked Format.binary64 (by decide) a.toModel.toBits.toBitVec x.toModel.toBits.toBitVec ha hx hs

theorem add_isNaN_float32 (a x : Float32) (ha : a.isNaN = false) (hx : Scalar.le (0 : Float32) x = true)
    (hs : (a + x).isNaN = true) :
    a.toModel.unpack = .infinity .negative ∧ x.toModel.unpack = .infinity .positive := by
  rw [scalar_le_float32] at hx
  exact FMR.add_nan_unpacked Format.binary32 (by decide) a.toModel.toBits.toBitVec x.toModel.toBits.toBitVec ha hx hs

/-- `0 ≤ a` excludes the NaN. -/
theorem nonneg_not_nan_float (a : Float) (h : Scalar.le (0 : Float) a = true) : a.isNaN = false := by
  rw [scalar_le_float] at h; exact FMR.isNaN_le_false _ _ h

theorem nonneg_not_nan_float32 (a : Float32) (h : Scalar.le (0 : Float32) a = true) : a.isNaN = false := by
  rw [scalar_le_float32] at h; exact FMR.isNaN_le_false _ _ h

/-- the sum of two non-negative floats is non-negative (in particular not a NaN; it may be `+∞`). -/
theorem add_nonneg_float (a x : Float) (ha : Scalar.le (0 : Float) a = true) (hx : Scalar.le (0 : Float) x = true) :
    Scalar.le (0 : Float) (a + x) = true := by
  rw [scalar_le_float] at ha hx ⊢
  rw [float_add_unpack]
  exact FMR.add_nonneg_unpacked Format.binary64 (by decide) a.toModel.toBits.toBitVec x.toModel.toBits.toBitVec ha hx

theorem add_nonneg_float32 (a x : Float32) (ha : Scalar.le (0 : Float32) a = true)
    (hx : Scalar.le (0 : Float32) x = true) : Scalar.le (0 : Float32) (a + x) = true := by
  rw [scalar_le_float32] at ha hx ⊢
  rw [float32_add_unpack]
  exact FMR.add_nonneg_unpacked Format.binary32 (by decide) a.toModel.toBits.toBitVec x.toModel.toBits.toBitVec ha hx

/-- for non-negative operands no side condition is left. -/
theorem le_add_float_nonneg (a x : Float) (ha : Scalar.le (0 : Float) a = true)
    (hx : Scalar.le (0 : Float) x = true) : Scalar.le a (a + x) = true :=
  le_add_float a x (nonneg_not_nan_float a ha) hx (nonneg_not_nan_float _ (add_nonneg_float a x ha hx))

theorem le_add_float32_nonneg (a x : Float32) (ha : Scalar.le (0 : Float32) a = true)
    (hx : Scalar.le (0 : Float32) x = true) : Scalar.le a (a + x) = true :=
  le_add_float32 a x (nonneg_not_nan_float32 a ha) hx (nonneg_not_nan_float32 _ (add_nonneg_float32 a x ha hx))

/-! ### the corrected law structure -/

/-- the order facts monotonicity of the cumulative lengths needs, with the IEEE side conditions. Unlike `MonoLaws`
they are **theorems** of the driver's `Float` and `Float32` instances. -/
structure MonoLawsIeee (F : Type) [Scalar F] : Prop where
  le_add : ∀ a x : F, Scalar.isNaN a = false → Scalar.le (0 : F) x = true → Scalar.isNaN (a + x) = false →
    Scalar.le a (a + x) = true
  add_nonneg : ∀ a x : F, Scalar.le (0 : F) a = true → Scalar.le (0 : F) x = true → Scalar.le (0 : F) (a + x) = true
  nonneg_not_nan : ∀ a : F, Scalar.le (0 : F) a = true → Scalar.isNaN a = false

theorem monoLawsIeee_float : MonoLawsIeee Float where
  le_add := le_add_float
  add_nonneg := add_nonneg_float
  nonneg_not_nan := nonneg_not_nan_float

theorem monoLawsIeee_float32 : MonoLawsIeee Float32 where
  le_add := le_add_float32
  add_nonneg := add_nonneg_float32
  nonneg_not_nan := nonneg_not_nan_float32

/-- the exact laws imply the IEEE ones wherever no value is a NaN-like outlier of `≤` (`0 ≤ a → ¬NaN a`):
`MonoLawsIeee` is the weaker structure. -/
theorem monoLawsIeee_of_exact {P F : Type} [Scalar P] [Scalar F] [Cvt P F] (laws : MonoLaws P F)
    (hadd : ∀ a x : F, Scalar.le (0 : F) a = true → Scalar.le (0 : F) x = true → Scalar.le (0 : F) (a + x) = true)
    (hnan : ∀ a : F, Scalar.le (0 : F) a = true → Scalar.isNaN a = false) : MonoLawsIeee F where
  le_add a x _ hx _ := laws.le_add a x hx
  add_nonneg := hadd
  nonneg_not_nan := hnan

/-! ### cumulative lengths as running sums of the segment lengths -/

variable {P F : Type} [Scalar P] [Scalar F] [Cvt P F]

/-- the segment lengths `f64::from(dist(p_i, p_{i+1}))` that `calculate_length` accumulates. -/
def segLens (F : Type) [Scalar F] [Cvt P F] : List (Pos P) → List F
  | [] => []
  | [_] => []
  | a :: b :: t => Cvt.up (Pos.length F (b - a)) :: segLens F (b :: t)

/-- running sums `c + s₁, c + s₁ + s₂, …` (left-associated, as the loop computes them). -/
def runSums (c : F) : List F → List F
  | [] => []
  | s :: t => (c + s) :: runSums (c + s) t

theorem cumLens_eq_runSums (c : F) (path : List (Pos P)) : (cumLens c path).1 = runSums c (segLens F path) := by
  induction path generalizing c with
  | nil => rfl
  | cons a t ih =>
    cases t with
    | nil => rfl
    | cons b t' =>
      rw [cumLens_cons2]
      show _ :: _ = (c + Cvt.up (Pos.length F (b - a))) :: runSums _ (segLens F (b :: t'))
      rw [ih]

/-- running sums of non-negative IEEE numbers never decrease, as long as no NaN appears. -/
theorem runSums_mono (laws : MonoLawsIeee F) (c : F) (segs : List F)
    (hseg : ∀ s ∈ segs, Scalar.le (0 : F) s = true)
    (hnan : ∀ v ∈ c :: runSums c segs, Scalar.isNaN v = false) : Mono (c :: runSums c segs) := by
  induction segs generalizing c with
  | nil => trivial
  | cons s t ih =>
    refine ⟨laws.le_add c s (hnan c (by simp)) (hseg s (by simp)) (hnan (c + s) (by simp [runSums])), ?_⟩
    exact ih (c + s) (fun s' hs' => hseg s' (by simp [hs'])) (fun v hv => hnan v (by
      simp only [runSums, List.mem_cons] at hv ⊢; exact Or.inr hv))

/-- from a non-negative start, running sums of non-negative IEEE numbers never decrease and stay non-negative
(no NaN can appear; `+∞` can). -/
theorem runSums_mono_nonneg (laws : MonoLawsIeee F) (c : F) (segs : List F)
    (hc : Scalar.le (0 : F) c = true) (hseg : ∀ s ∈ segs, Scalar.le (0 : F) s = true) :
    Mono (c :: runSums c segs) ∧ ∀ v ∈ c :: runSums c segs, Scalar.le (0 : F) v = true := by
  have hpos : ∀ (segs : List F) (c : F), Scalar.le (0 : F) c = true → (∀ s ∈ segs, Scalar.le (0 : F) s = true) →
      ∀ v ∈ c :: runSums c segs, Scalar.le (0 : F) v = true := by
    intro segs
    induction segs with
    | nil => intro c hc _ v hv; simp [runSums] at hv; subst hv; exact hc
    | cons s t ih =>
      intro c hc hseg v hv
      simp only [runSums, List.mem_cons] at hv
      rcases hv with rfl | hv
      · exact hc
      · exact ih (c + s) (laws.add_nonneg c s hc (hseg s (by simp))) (fun s' hs' => hseg s' (by simp [hs'])) v
          (by simp only [List.mem_cons]; exact hv)
  have hall := hpos segs c hc hseg
  exact ⟨runSums_mono laws c segs hseg (fun v hv => laws.nonneg_not_nan v (hall v hv)), hall⟩

/-! ### `lengths_monotone` for IEEE arithmetic -/

/-- **`lengths_monotone`, IEEE version** (any scalar satisfying `MonoLawsIeee`): the natural cumulative lengths,
starting from `optimized_len = c`, never decrease if no entry is a NaN and every segment length is `≥ 0`. -/
theorem lengths_monotone_ieee (laws : MonoLawsIeee F) (c : F) (path : List (Pos P))
    (hseg : ∀ s ∈ segLens F path, Scalar.le (0 : F) s = true)
    (hnan : ∀ v ∈ c :: (cumLens c path).1, Scalar.isNaN v = false) : Mono (c :: (cumLens c path).1) := by
  rw [cumLens_eq_runSums] at hnan ⊢
  exact runSums_mono laws c _ hseg hnan

/-- **`lengths_monotone` for the driver's arithmetic** (`f32` points, `f64` lengths): consecutive entries never
decrease — exactly, not merely up to `1e-5`. -/
theorem lengths_monotone_float (c : Float) (path : List (Pos Float32))
    (hseg : ∀ s ∈ segLens Float path, Scalar.le (0 : Float) s = true)
    (hnan : ∀ v ∈ c :: (cumLens c path).1, Float.isNaN v = false) : Mono (c :: (cumLens c path).1) :=
  lengths_monotone_ieee monoLawsIeee_float c path hseg hnan

/-- with a non-negative start (`optimized_len ≥ 0`) no NaN hypothesis is needed, and all entries are `≥ 0`. -/
theorem lengths_monotone_float_nonneg (c : Float) (path : List (Pos Float32))
    (hc : Scalar.le (0 : Float) c = true)
    (hseg : ∀ s ∈ segLens Float path, Scalar.le (0 : Float) s = true) :
    Mono (c :: (cumLens c path).1) ∧ ∀ v ∈ c :: (cumLens c path).1, Scalar.le (0 : Float) v = true := by
  rw [cumLens_eq_runSums]
  exact runSums_mono_nonneg monoLawsIeee_float c _ hc hseg

/-- the complete natural length list `0.0 :: running sums` (`natLens`, what `calculate_length` returns without a
requested length) never decreases, for `optimized_len ≥ 0` and segment lengths `≥ 0`. -/
theorem natLens_monotone_ieee (laws : MonoLawsIeee F) (opt : F) (path : List (Pos P))
    (hopt : Scalar.le (0 : F) opt = true) (hseg : ∀ s ∈ segLens F path, Scalar.le (0 : F) s = true) :
    Mono (natLens opt path) := by
  unfold natLens
  rw [cumLens_eq_runSums]
  obtain ⟨hm, hall⟩ := runSums_mono_nonneg laws opt _ hopt hseg
  cases hr : runSums opt (segLens F path) with
  | nil => trivial
  | cons v t =>
    rw [hr] at hm hall
    exact ⟨hall v (by simp), hm.2⟩

theorem natLens_monotone_float (opt : Float) (path : List (Pos Float32))
    (hopt : Scalar.le (0 : Float) opt = true) (hseg : ∀ s ∈ segLens Float path, Scalar.le (0 : Float) s = true) :
    Mono (natLens opt path) :=
  natLens_monotone_ieee monoLawsIeee_float opt path hopt hseg

/-! ### non-vacuity (closed instances evaluated by the kernel) -/

section NonVacuity

/-- hypotheses of `le_add_float` on closed instances: ordinary, negative `a`, overflow to `+∞`, subnormal. -/
example : (0.1 : Float).isNaN = false ∧ Scalar.le (0 : Float) (0.2 : Float) = true ∧
    ((0.1 : Float) + 0.2).isNaN = false := by decide +kernel
example : (-1.5 : Float).isNaN = false ∧ Scalar.le (0 : Float) (1e-30 : Float) = true ∧
    ((-1.5 : Float) + 1e-30).isNaN = false := by decide +kernel
example : (Float.ofBits 0x7FEFFFFFFFFFFFFF).isNaN = false ∧
    Scalar.le (0 : Float) (Float.ofBits 0x7FEFFFFFFFFFFFFF) = true ∧
    (Float.ofBits 0x7FEFFFFFFFFFFFFF + Float.ofBits 0x7FEFFFFFFFFFFFFF).isNaN = false := by decide +kernel
example : (Float.ofBits 0x8000000000000003).isNaN = false ∧ Scalar.le (0 : Float) (Float.ofBits 1) = true ∧
    (Float.ofBits 0x8000000000000003 + Float.ofBits 1).isNaN = false := by decide +kernel
/-- the side condition on the sum is needed: `-∞ + +∞`. -/
example : (Float.ofBits 0xFFF0000000000000).isNaN = false ∧
    Scalar.le (0 : Float) (Float.ofBits 0x7FF0000000000000) = true ∧
    Scalar.le (Float.ofBits 0xFFF0000000000000) (Float.ofBits 0xFFF0000000000000 + Float.ofBits 0x7FF0000000000000)
      = false := by decide +kernel
/-- ... and so is the one on `a`: `MonoLaws.le_add` is false for `Float`. -/
example : Scalar.le (0 : Float) (1 : Float) = true ∧
    Scalar.le (Float.ofBits 0x7FF8000000000000) (Float.ofBits 0x7FF8000000000000 + 1) = false := by decide +kernel
example : (0.1 : Float32).isNaN = false ∧ Scalar.le (0 : Float32) (0.2 : Float32) = true ∧
    ((0.1 : Float32) + 0.2).isNaN = false := by decide +kernel

/-- `runSums_mono` on a closed `Float` instance that overflows: the sums are `0.1, 0.3, 1e308, +∞, +∞`. -/
example : (∀ s ∈ [(0.2 : Float), 1e308, 1e308, 1e308], Scalar.le (0 : Float) s = true) ∧
    (∀ v ∈ (0.1 : Float) :: runSums (0.1 : Float) [(0.2 : Float), 1e308, 1e308, 1e308], Scalar.isNaN v = false) := by
  decide +kernel

/-- `lengths_monotone_ieee` with `Float` on both sides (identity conversions; `Float32.toFloat` is opaque):
the path `(0,0), (3,4), (6,8)` has segment lengths `5, 5`. -/
example :
    letI : Cvt Float Float := ⟨id, id⟩
    (∀ s ∈ segLens Float [(⟨0, 0⟩ : Pos Float), ⟨3, 4⟩, ⟨6, 8⟩], Scalar.le (0 : Float) s = true) ∧
    (∀ v ∈ (0 : Float) :: (cumLens (0 : Float) [(⟨0, 0⟩ : Pos Float), ⟨3, 4⟩, ⟨6, 8⟩]).1,
      Scalar.isNaN v = false) := by
  decide +kernel

example :
    letI : Cvt Float Float := ⟨id, id⟩
    (cumLens (0 : Float) [(⟨0, 0⟩ : Pos Float), ⟨3, 4⟩, ⟨6, 8⟩]).1 = [5, 10] := by
  decide +kernel

end NonVacuity

end Rosu.C16
