/-
  Props/C15Shift.lean — C15, shift invariance of the finalisers (law-dependent, DESIGN.md 3.3 / 5.15).

  `shiftState k` adds `k` to every time stored in a parsed-but-unfinalised `HitObjectsState`: object start
  times, break start / end times, the times of the control points already in the collection, of the pending
  group, and `pending_control_points_time`. Durations (spinner / hold), beat lengths, slider velocities,
  expected distances, volumes, … are NOT touched (the line parsers store spinner and hold ends as
  `end − start`, see Props/C15ShiftLines.lean). Under `ShiftLaws F k` (Lemmas/ShiftLaws.lean)

      (shiftState k st).finish = (st.finish).map (shiftHitObjects k)            -- `finish_shift`

  i.e. the stable sort, `post_process_breaks`, the timing / difficulty / sample point lookups of the slider
  velocity and of the node / object sample defaults all commute with the shift, and nothing but the times
  changes. The statement is proved in the relational form `finish_rel` (for any two states related by
  `StateRel k`), which is what the line-level fold of Props/C15ShiftLines.lean produces.

  The laws are instantiated on the exact integer toy scalar `Z` (`zShiftLaws`), with a concrete example.
-/
import RosuModel.Props.C15Map
import RosuModel.Lemmas.ShiftLaws
namespace Rosu.C15
open Rosu Scalar

variable {F P : Type} [Scalar F] [Scalar P]

/-! ### the shift on objects, events and states -/

/-- an object `k` later. Its kind holds no absolute time (spinner / hold store a duration, a slider its
repeat count, path and velocity), so only `start_time` moves. -/
def shObj (k : F) (h : HitObject F P) : HitObject F P := { h with startTime := h.startTime + k }

def shBreak (k : F) (b : BreakPeriod F) : BreakPeriod F :=
  { startTime := b.startTime + k, endTime := b.endTime + k }

def shEvents (k : F) (e : Events F) : Events F := { e with breaks := e.breaks.map (shBreak k) }

def shTpState (k : F) (st : TimingPointsState F P) : TimingPointsState F P :=
  { st with pendingTime := st.pendingTime + k, pending := shPending k st.pending,
            controlPoints := shCP k st.controlPoints }

def shCore (k : F) (c : HOCore F P) : HOCore F P := { c with hitObjects := c.hitObjects.map (shObj k) }

/-- every time stored in the unfinalised state `+ k`. -/
def shiftState (k : F) (st : HitObjectsState F P) : HitObjectsState F P :=
  { st with core := shCore k st.core, events := shEvents k st.events, timingPoints := shTpState k st.timingPoints }

/-- every time of the decoded `HitObjects` `+ k`. -/
def shiftHitObjects (k : F) (ho : HitObjects F P) : HitObjects F P :=
  { ho with events := shEvents k ho.events, controlPoints := shCP k ho.controlPoints,
            hitObjects := ho.hitObjects.map (shObj k) }

def shiftBeatmapState (k : F) (st : BeatmapState F P) : BeatmapState F P :=
  { st with hitObjects := shiftState k st.hitObjects }

/-- every object, break and control-point time of the decoded `Beatmap` `+ k`. -/
def shiftBeatmap (k : F) (bm : Beatmap F P) : Beatmap F P :=
  { bm with events := shEvents k bm.events, controlPoints := shCP k bm.controlPoints,
            hitObjects := bm.hitObjects.map (shObj k) }

/-! ### relations between an unshifted and a shifted state

The parsers do not produce `shiftState k st` on the nose: `pending_control_points_time` starts at `0` in both
files. While the pending group is empty its value is never observed (a flush of an empty group is the
identity), which is what the last disjunct of `TpRel` records. -/

def TpRel (k : F) (st st' : TimingPointsState F P) : Prop :=
  st'.general = st.general ∧ st'.controlPoints = shCP k st.controlPoints ∧
  st'.pending = shPending k st.pending ∧
  (st'.pendingTime = st.pendingTime + k ∨ st.pending = Pending.empty)

def HoRel (k : F) (c c' : HOCore F P) : Prop :=
  c'.lastObject = c.lastObject ∧ c'.curvePoints = c.curvePoints ∧ c'.vertices = c.vertices ∧
  c'.hitObjects = c.hitObjects.map (shObj k)

def StateRel (k : F) (st st' : HitObjectsState F P) : Prop :=
  HoRel k st.core st'.core ∧ st'.events = shEvents k st.events ∧ TpRel k st.timingPoints st'.timingPoints ∧
  st'.difficulty = st.difficulty

omit [Scalar P] in
theorem tpRel_shift (k : F) (st : TimingPointsState F P) : TpRel k st (shTpState k st) :=
  ⟨rfl, rfl, rfl, Or.inl rfl⟩

omit [Scalar P] in
theorem stateRel_shift (k : F) (st : HitObjectsState F P) : StateRel k st (shiftState k st) :=
  ⟨⟨rfl, rfl, rfl, rfl⟩, rfl, tpRel_shift k st.timingPoints, rfl⟩

theorem tpRel_create (k : F) : TpRel k (TimingPointsState.create : TimingPointsState F P) TimingPointsState.create :=
  ⟨rfl, rfl, rfl, Or.inr rfl⟩

theorem stateRel_create (k : F) : StateRel k (HitObjectsState.create : HitObjectsState F P) HitObjectsState.create :=
  ⟨⟨rfl, rfl, rfl, rfl⟩, rfl, tpRel_create k, rfl⟩

/-! ### sort -/

variable [Cvt P F]

omit [Scalar P] [Cvt P F] in
/-- the stable sort by `total_cmp` of the start time commutes with the shift. -/
theorem sort_shift {k : F} (L : ShiftLaws F k) (hs : List (HitObject F P)) :
    sortByStartTime (hs.map (shObj k)) = (sortByStartTime hs).map (shObj k) := by
  unfold sortByStartTime
  refine (List.map_mergeSort (f := shObj k) ?_).symm
  intro a _ b _
  exact decide_eq_decide.mpr (L.key_le a.startTime b.startTime).symm

/-! ### breaks -/

omit [Scalar P] [Cvt P F] in
theorem skipBreaks_shift {k : F} (L : ShiftLaws F k) (bs : List (BreakPeriod F)) (t : F) (fuel cur : Nat) (force : Bool) :
    skipBreaks (bs.map (shBreak k)) (t + k) fuel cur force = skipBreaks bs t fuel cur force := by
  induction fuel generalizing cur force with
  | zero => rfl
  | succ n ih =>
    simp only [skipBreaks, List.getElem?_map]
    cases bs[cur]? with
    | none => rfl
    | some b => simp only [Option.map, shBreak, L.lt_shift, ih]

omit [Scalar P] [Cvt P F] in
theorem orNewCombo_shift (k : F) (h : HitObject F P) (force : Bool) :
    ({ shObj k h with kind := (shObj k h).kind.orNewCombo force } : HitObject F P) =
      shObj k { h with kind := h.kind.orNewCombo force } := rfl

omit [Scalar P] [Cvt P F] in
/-- `post_process_breaks` on shifted breaks and objects forces the same new combos. -/
theorem postProcessBreaks_shift {k : F} (L : ShiftLaws F k) (bs : List (BreakPeriod F)) (hs : List (HitObject F P))
    (cur : Nat) :
    postProcessBreaks (bs.map (shBreak k)) (hs.map (shObj k)) cur = (postProcessBreaks bs hs cur).map (shObj k) := by
  induction hs generalizing cur with
  | nil => rfl
  | cons h rest ih =>
    simp only [List.map, postProcessBreaks, List.length_map]
    have hs : skipBreaks (bs.map (shBreak k)) (shObj k h).startTime (bs.length + 1) cur false =
        skipBreaks bs h.startTime (bs.length + 1) cur false := skipBreaks_shift L bs h.startTime _ _ _
    rw [hs, ih]
    rfl

/-! ### sample points -/

omit [Scalar P] [Cvt P F] in
/-- `SamplePoint::apply` does not read the point's time. -/
theorem apply_shSP (k : F) (sp : SamplePoint F) : (shSP k sp).apply = sp.apply := rfl

omit [Scalar P] [Cvt P F] in
theorem getD_apply_shSP (k : F) (o : Option (SamplePoint F)) :
    ((o.map (shSP k)).getD SamplePoint.default).apply = (o.getD SamplePoint.default).apply := by
  cases o <;> rfl

omit [Scalar P] [Cvt P F] in
/-- the sample point active at `t + k` in the shifted collection resolves samples like the one active at `t`. -/
theorem samplePointAt_apply_shift {k : F} (L : ShiftLaws F k) (cp : ControlPoints F) (t : F) :
    (((shCP k cp).samplePointAt (t + k)).getD SamplePoint.default).apply =
      ((cp.samplePointAt t).getD SamplePoint.default).apply := by
  rw [samplePointAt_shift L, getD_apply_shSP]

omit [Scalar P] [Cvt P F] in
/-- node sample defaults: node times are `start + i·duration/spans + 5`, all shifted by `k`. -/
theorem applyNodeSamples_shift {k : F} (L : ShiftLaws F k) (cp : ControlPoints F) (s d sc : F)
    (ns : List (List HitSampleInfo)) (i : Nat) :
    applyNodeSamples (shCP k cp) (s + k) d sc ns i = applyNodeSamples cp s d sc ns i := by
  induction ns generalizing i with
  | nil => rfl
  | cons n rest ih =>
    simp only [applyNodeSamples]
    rw [L.add_right_comm s, L.add_right_comm, samplePointAt_apply_shift L, ih]

/-! ### the per-object loop -/

variable [Trig F] [Trig P]

/-- one iteration of the finaliser loop on the shifted object against the shifted collection: the same
velocity, node samples and sample defaults; the same curve and buffers; the object `k` later. -/
theorem finalizeObject_shift {k : F} (L : ShiftLaws F k) (mode : GameMode) (sm : F) (cp : ControlPoints F)
    (h : HitObject F P) (bufs : CurveBuffers P F) :
    finalizeObject mode sm (shCP k cp) (shObj k h) bufs =
      (finalizeObject mode sm cp h bufs).map (fun r => (shObj k r.1, r.2)) := by
  unfold finalizeObject
  cases hk : h.kind with
  | circle c =>
    simp only [shObj, hk, samplePointAt_apply_shift L, L.add_right_comm h.startTime]
    rfl
  | spinner c =>
    simp only [shObj, hk, samplePointAt_apply_shift L, L.add_right_comm h.startTime, L.add_right_comm (h.startTime + c.duration)]
    rfl
  | hold c =>
    simp only [shObj, hk, samplePointAt_apply_shift L, L.add_right_comm h.startTime, L.add_right_comm (h.startTime + c.duration)]
    rfl
  | slider s =>
    simp only [shObj, hk, timingPointAt_shift L, difficultyPointAt_shift L, Option.map_map]
    have e1 : ((fun x : TimingPoint F => x.beatLen) ∘ shTP k) = (fun x => x.beatLen) := rfl
    have e2 : ((fun x : DifficultyPoint F => x.sliderVelocity) ∘ shDP k) = (fun x => x.sliderVelocity) := rfl
    rw [e1, e2]
    cases hc : Curve.new curveFuel s.path.mode s.path.controlPoints s.path.expectedDist bufs with
    | error e => rfl
    | ok r =>
      obtain ⟨curve, b2⟩ := r
      simp only [bind, Except.bind, pure, Except.pure, Except.map, applyNodeSamples_shift L,
        L.add_right_comm h.startTime, L.add_right_comm (h.startTime + _), samplePointAt_apply_shift L]

theorem finalizeObjects_shift {k : F} (L : ShiftLaws F k) (mode : GameMode) (sm : F) (cp : ControlPoints F)
    (hs : List (HitObject F P)) (bufs : CurveBuffers P F) :
    finalizeObjects mode sm (shCP k cp) (hs.map (shObj k)) bufs =
      (finalizeObjects mode sm cp hs bufs).map (List.map (shObj k)) := by
  induction hs generalizing bufs with
  | nil => rfl
  | cons h rest ih =>
    simp only [List.map, finalizeObjects, bind, Except.bind]
    rw [finalizeObject_shift L]
    cases finalizeObject mode sm cp h bufs with
    | error e => rfl
    | ok r =>
      obtain ⟨h', b'⟩ := r
      simp only [Except.map]
      rw [ih]
      cases finalizeObjects mode sm cp rest b' with
      | error e => rfl
      | ok rest' => rfl

/-! ### the finalisers -/

omit [Scalar P] [Cvt P F] [Trig F] [Trig P] in
/-- `From<TimingPointsState>`: the flush of the pending group commutes with the shift;
`pending_control_points_time` is not read. -/
theorem tp_finish_rel {k : F} (L : ShiftLaws F k) (st st' : TimingPointsState F P) (h : TpRel k st st') :
    st'.finish = (st.finish.1, shCP k st.finish.2) := by
  obtain ⟨hg, hc, hp, _⟩ := h
  unfold TimingPointsState.finish flushPendingPoints
  simp only [hg, hc, hp, flushInto_shift L]

omit [Scalar P] [Cvt P F] [Trig F] [Trig P] in
theorem tp_finish_shift {k : F} (L : ShiftLaws F k) (st : TimingPointsState F P) :
    (shTpState k st).finish = (st.finish.1, shCP k st.finish.2) :=
  tp_finish_rel L st _ (tpRel_shift k st)

/-- **shift invariance of `From<HitObjectsState> for HitObjects`, relational form**: two unfinalised states
whose stored times differ by `k` (and agree on everything else) finalise to results whose times differ by
`k` (and agree on everything else: order, new-combo flags, velocities, node / object samples, errors). -/
theorem finish_rel {k : F} (L : ShiftLaws F k) (st st' : HitObjectsState F P) (h : StateRel k st st') :
    st'.finish = (st.finish).map (shiftHitObjects k) := by
  obtain ⟨⟨_, _, _, ho⟩, he, htp, hd⟩ := h
  unfold HitObjectsState.finish
  simp only [tp_finish_rel L _ _ htp, ho, he, hd, shEvents, sort_shift L, postProcessBreaks_shift L,
    finalizeObjects_shift L, bind, Except.bind]
  cases finalizeObjects st.timingPoints.finish.1.mode st.difficulty.difficulty.sliderMultiplier
      st.timingPoints.finish.2 (postProcessBreaks st.events.breaks (sortByStartTime st.core.hitObjects) 0)
      emptyBuffers with
  | error e => rfl
  | ok objs => rfl

/-- **finish_shift** (TASK 1): the finaliser commutes with the shift of every stored time. -/
theorem finish_shift {k : F} (L : ShiftLaws F k) (st : HitObjectsState F P) :
    (shiftState k st).finish = (st.finish).map (shiftHitObjects k) :=
  finish_rel L st _ (stateRel_shift k st)

/-- the same for `From<BeatmapState> for Beatmap` (editor, metadata, colours and the format version are
carried through unchanged). -/
theorem beatmap_finish_shift {k : F} (L : ShiftLaws F k) (st : BeatmapState F P) :
    (shiftBeatmapState k st).finish = (st.finish).map (shiftBeatmap k) := by
  unfold BeatmapState.finish shiftBeatmapState
  simp only [finish_shift L, bind, Except.bind]
  cases st.hitObjects.finish with
  | error e => rfl
  | ok ho => rfl

/-! ### the laws hold on the integer toy scalar, for every shift -/

instance zCvt : Cvt Z Z := ⟨id, id⟩
instance zTrig : Trig Z := ⟨fun _ => ⟨0⟩, fun _ => ⟨1⟩, fun _ => ⟨0⟩, fun _ _ => ⟨0⟩, ⟨3⟩⟩

theorem zShiftLaws (k : Z) : ShiftLaws Z k where
  key_lt a b := by
    show a.v + k.v < b.v + k.v ↔ a.v < b.v
    omega
  lt_shift a b := by
    show decide (a.v + k.v < b.v + k.v) = decide (a.v < b.v)
    exact decide_eq_decide.mpr (by omega)
  isNaN_shift _ := rfl
  sub_shift a b := by
    show Z.mk (a.v + k.v - (b.v + k.v)) = Z.mk (a.v - b.v)
    congr 1; omega
  add_right_comm a d := by
    show Z.mk (a.v + k.v + d.v) = Z.mk (a.v + d.v + k.v)
    congr 1; omega

/-! a concrete state: unsorted objects (spinner, hold, circles), a break between them, a timing and a sample
point in the collection and a sample point still pending (it is flushed by the finaliser) -/

def zSpinner (t d : Int) : HitObject Z Z :=
  { startTime := ⟨t⟩, kind := .spinner { pos := ⟨⟨256⟩, ⟨192⟩⟩, duration := ⟨d⟩, newCombo := false },
    samples := [HitSampleInfo.new (.default .normal) none 0 0] }
def zCircleS (t : Int) : HitObject Z Z :=
  { zCircle t with samples := [HitSampleInfo.new (.default .normal) none 0 0] }

def zState : HitObjectsState Z Z :=
  { core := { hitObjects := [zCircleS 500, zSpinner 100 50, zHold 300, zCircle 260], lastObject := some 1 },
    events := { backgroundFile := [], breaks := [zBreak 200 250] },
    timingPoints :=
      { general := GeneralState.default, pendingTime := ⟨400⟩,
        pending := { sample := some ⟨⟨400⟩, .soft, 30, 2⟩ },
        controlPoints := { timingPoints := [⟨⟨0⟩, ⟨500⟩, false, ⟨4⟩⟩], samplePoints := [⟨⟨90⟩, .drum, 60, 0⟩] } },
    difficulty := DifficultyState.create }

theorem zSorted : sortByStartTime zState.core.hitObjects = [zSpinner 100 50, zCircle 260, zHold 300, zCircleS 500] := by
  simp [sortByStartTime, zState, List.mergeSort, zCircle, zCircleS, zSpinner, zHold, Scalar.totalKey]

/-- what the unshifted state finalises to: sorted, the circle after the break forced to a new combo, the spinner
sample resolved at 100 + 50 + 5 against the point at 90, the last circle's at 505 against the flushed point at 400. -/
example : ((zState.finish).toOption.map (fun ho =>
      (ho.hitObjects.map (fun h => (h.startTime.v, kindNewCombo h.kind, h.samples.map (·.volume))),
       ho.controlPoints.samplePoints.map (fun p => p.time.v))))
    = some ([(100, false, [60]), (260, true, []), (300, false, []), (500, false, [30])], [90, 400]) := by
  unfold HitObjectsState.finish
  simp only [zSorted]
  decide

/-- `finish_shift` on it, for a shift by one second (the hypotheses are satisfiable: `zShiftLaws`). -/
example : (shiftState ⟨1000⟩ zState).finish = (zState.finish).map (shiftHitObjects ⟨1000⟩) :=
  finish_shift (zShiftLaws _) zState

end Rosu.C15
