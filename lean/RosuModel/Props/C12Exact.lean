/-
  Props/C12Exact.lean — C12 (timing-point lines), the parts that Props/C12.lean left open:

  1. **No stored value is NaN, so the clamp ranges hold in the ordinary sense** (`lo ≤ y ∧ y ≤ hi` with the `<=` of the
     scalar, not merely `¬ y < lo ∧ ¬ hi < y`). Law-free: accepted times are within ±(2³¹−1) and not NaN
     (`accepted_line_numbers`, from the parser's own range / NaN test) and a timing-change line has a non-NaN beat length
     (`checkNaN`). The rest needs the minimal hypothesis structure `NanLaws` (the six literals are numbers; `100 / −b` is a
     number for `b < 0`; a NaN is not `< 0`; on numbers `¬ a < b → b ≤ a`; `1` lies inside the two velocity ranges), which
     IEEE satisfies (not kernel-checkable: `Float` is opaque) and which is instantiated on the toy scalar `ZN` that has a NaN.
  2. `nan_inherited_line`: a NaN beat length on an inherited line ⇒ line accepted, velocity exactly 1, scroll speed 1, ticks off.
  3. `pending_eq_groups` without the ad-hoc `sameGroup t t` assumption: the parser's range check makes accepted times finite
     (`accepted_time_inRange`), and finite times are in their own group under `FiniteSelfGroup` — which follows from
     `ExactScalar φ` with `0 < φ eps` (`finiteSelfGroup_of_exact`; instance ℝ; also the toy `Z`).
  4. `lists_strictly_sorted_time`: "every list is strictly increasing in TIME" (and one point per time), from C13's
     `TimeKeyOn S` (Props/C13Exact.lean) for the set `S` of accepted times — the ±0 / F8 caveat made precise.
-/
import RosuModel.Props.C12
import RosuModel.Props.C13Exact
import RosuModel.Lemmas.ToyNaN
import RosuModel.Lemmas.ExactArith
import RosuModel.Lemmas.RealScalar
set_option linter.unusedSectionVars false
namespace Rosu.C12
open Rosu

variable {F P : Type} [Scalar F]

/-! ## 1. what acceptance of a line says about its numbers (law-free) -/

/-- within the decoder's limit ±(2³¹−1) and not NaN — exactly the three tests of `parse_with_limits`. -/
def InRange (x : F) : Prop :=
  Scalar.lt x (-(maxParseValue : F)) = false ∧ Scalar.lt (maxParseValue : F) x = false ∧ Scalar.isNaN x = false

theorem scalarParse_inRange {s : Str} {x : F} (h : (scalarParse s : Except NumErr F) = .ok x) : InRange x := by
  unfold scalarParse scalarParseWithLimits at h
  cases hp : (Scalar.parse (trim s) : Option F) with
  | none => simp [hp] at h
  | some n =>
    simp only [hp] at h
    split at h
    · cases h
    · split at h
      · cases h
      · split at h
        · cases h
        · cases h
          rename_i h1 h2 h3
          exact ⟨by simpa using h1, by simpa using h2, by simpa using h3⟩

theorem parseBeatLen_range {s : Str} {b : F} (h : (parseBeatLen s : Except TpErr F) = .ok b) :
    Scalar.lt b (Scalar.ofInt (-i32Max) : F) = false ∧ Scalar.lt (Scalar.ofInt i32Max : F) b = false := by
  unfold parseBeatLen at h
  cases hp : (Scalar.parse (trim s) : Option F) with
  | none => simp [hp] at h
  | some n =>
    simp only [hp] at h
    split at h
    · cases h
    · split at h
      · cases h
      · cases h
        rename_i h1 h2
        exact ⟨by simpa using h1, by simpa using h2⟩

/-- **accepted lines carry finite times, and timing changes carry a non-NaN beat length** (no law): if
`parse_timing_points` gets past its last `?`, the time passed `parse_num`'s range and NaN tests, the beat length passed
the two range tests, a timing-change line's beat length is not NaN, and the speed multiplier is `100 / −beat_len` for a
negative beat length and `1` otherwise. -/
theorem accepted_line_numbers {g : GeneralState F P} {line : Str} {l : TpLine F}
    (h : parseTpFields g line = .ok l) :
    InRange l.time ∧ (l.timingChange = true → Scalar.isNaN l.beatLen = false) ∧
    Scalar.lt l.beatLen (Scalar.ofInt (-i32Max) : F) = false ∧ Scalar.lt (Scalar.ofInt i32Max : F) l.beatLen = false ∧
    l.speedMultiplier = (if Scalar.lt l.beatLen (0 : F) then (100 : F) / (-l.beatLen) else 1) := by
  unfold parseTpFields at h
  cases hr : parseTpRaw g (splitOn ',' (trimComment line)) with
  | error e => simp [hr] at h
  | ok r =>
    simp only [hr] at h
    have hl : r = l ∧ ¬ (r.timingChange = true ∧ Scalar.isNaN r.beatLen = true) := by
      unfold checkNaN at h
      split at h
      · cases h
      · rename_i hc
        cases h
        exact ⟨rfl, by simpa using hc⟩
    obtain ⟨rfl, hnan⟩ := hl
    match hf : splitOn ',' (trimComment line), hr with
    | [], hr => simp [parseTpRaw] at hr
    | [_], hr => simp [parseTpRaw] at hr
    | a :: b :: rest, hr =>
      obtain ⟨time, beatLen, ts, ssn, cn, vn, flags, h1, h2, _, _, _, _, _, rfl⟩ := parseTpRaw_ok hr
      refine ⟨scalarParse_inRange h1, ?_, (parseBeatLen_range h2).1, (parseBeatLen_range h2).2, rfl⟩
      intro htc
      cases hn : Scalar.isNaN beatLen with
      | false => rfl
      | true => exact absurd ⟨htc, hn⟩ hnan

theorem mem_acceptedLines [Scalar P] {g : GeneralState F P} {strs : List Str} {l : TpLine F}
    (h : l ∈ acceptedLines g strs) : ∃ s ∈ strs, parseTpFields g s = .ok l := by
  unfold acceptedLines at h
  obtain ⟨s, hs, hl⟩ := List.mem_filterMap.mp h
  refine ⟨s, hs, ?_⟩
  cases hp : parseTpFields g s with
  | error e => simp [hp, Except.toOption] at hl
  | ok l' => simp [hp, Except.toOption] at hl; rw [hl]

/-- the time of every accepted line passed the parser's range and NaN tests. -/
theorem accepted_time_inRange [Scalar P] {g : GeneralState F P} {strs : List Str} {l : TpLine F}
    (h : l ∈ acceptedLines g strs) : InRange l.time := by
  obtain ⟨s, _, hp⟩ := mem_acceptedLines h
  exact (accepted_line_numbers hp).1

/-! ## 2. no stored value is NaN; the clamp ranges in the ordinary sense -/

/-- the minimal facts about NaN and `<` / `<=` that the timing-point code relies on. All hold for IEEE `f64`
(`6.0`, `60000.0`, `0.1`, `10.0`, `0.01`, `1.0` are numbers; for `b < 0` the quotient `100 / −b` lies in `[0, +∞]`;
a comparison with NaN is false; two numbers are comparable; `0.1 ≤ 1 ≤ 10`, `0.01 ≤ 1`) — a statement about IEEE that the
kernel cannot check (`Float` is opaque); instance on the toy scalar with a NaN: `nanLaws_zn`. -/
structure NanLaws (F : Type) [Scalar F] : Prop where
  nan_lt_zero : ∀ x : F, Scalar.isNaN x = true → Scalar.lt x (0 : F) = false
  lit6 : Scalar.isNaN (6 : F) = false
  lit60000 : Scalar.isNaN (60000 : F) = false
  lit01 : Scalar.isNaN (0.1 : F) = false
  lit10 : Scalar.isNaN (10 : F) = false
  lit001 : Scalar.isNaN (0.01 : F) = false
  lit1 : Scalar.isNaN (1 : F) = false
  div_neg : ∀ b : F, Scalar.lt b (0 : F) = true → Scalar.isNaN ((100 : F) / (-b)) = false
  total : ∀ a b : F, Scalar.isNaN a = false → Scalar.isNaN b = false → Scalar.lt a b = false → Scalar.le b a = true
  one_ge_01 : Scalar.lt (1 : F) (0.1 : F) = false
  one_le_10 : Scalar.lt (10 : F) (1 : F) = false
  one_ge_001 : Scalar.lt (1 : F) (0.01 : F) = false

/-- `f64::clamp` returns its argument or one of the bounds: numbers in, number out (no law). -/
theorem clamp_not_nan {x lo hi : F} (hx : Scalar.isNaN x = false) (hlo : Scalar.isNaN lo = false)
    (hhi : Scalar.isNaN hi = false) : Scalar.isNaN (Scalar.clamp x lo hi) = false := by
  unfold Scalar.clamp
  simp only []
  split <;> split <;> assumption

/-- … and a NaN goes through `clamp` unchanged when comparisons with NaN are false (why the non-NaN hypothesis is needed). -/
theorem clamp_nan_stays {x lo hi : F} (h1 : Scalar.lt x lo = false) (h2 : Scalar.lt hi x = false) :
    Scalar.clamp x lo hi = x := by
  unfold Scalar.clamp; simp [h1, h2]

/-- the speed multiplier of a line is a number, NaN beat length included. -/
theorem speedMultiplier_not_nan (N : NanLaws F) (b : F) :
    Scalar.isNaN (if Scalar.lt b (0 : F) then (100 : F) / (-b) else (1 : F)) = false := by
  split
  · rename_i h; exact N.div_neg b h
  · exact N.lit1

/-- the ordinary range: `lo ≤ y ≤ hi` with the scalar's own `<=`, and `y` is a number. -/
def Between (lo hi y : F) : Prop :=
  Scalar.isNaN y = false ∧ Scalar.le lo y = true ∧ Scalar.le y hi = true

theorem between_of_within (N : NanLaws F) {lo hi y : F} (hlo : Scalar.isNaN lo = false) (hhi : Scalar.isNaN hi = false)
    (hy : Scalar.isNaN y = false) (h : Within lo hi y) : Between lo hi y :=
  ⟨hy, N.total y lo hy hlo h.1, N.total hi y hhi hy h.2⟩

/-- every stored number is a number and lies in its range in the ordinary sense: times are not NaN; beat length in
`[6, 60000]`, slider velocity in `[0.1, 10]`, scroll speed in `[0.01, 10]` in taiko / mania and exactly `1` elsewhere,
volume in `[0, 100]`. -/
def ordPred (mode : GameMode) : PointPred F :=
  { t := fun p => Scalar.isNaN p.time = false ∧ Between (6 : F) (60000 : F) p.beatLen,
    d := fun p => Scalar.isNaN p.time = false ∧ Between (0.1 : F) (10 : F) p.sliderVelocity,
    e := fun p => Scalar.isNaN p.time = false ∧ Scalar.isNaN p.scrollSpeed = false ∧
                  (if mode == GameMode.taiko || mode == GameMode.mania
                   then Between (0.01 : F) (10 : F) p.scrollSpeed else p.scrollSpeed = 1),
    s := fun p => Scalar.isNaN p.time = false ∧ 0 ≤ p.sampleVolume ∧ p.sampleVolume ≤ 100 }

theorem effectPoint_time (mode : GameMode) (l : TpLine F) : (l.effectPoint mode).time = l.time := by
  unfold TpLine.effectPoint; split <;> rfl

/-- the four points of a line whose time is a number, whose beat length is a number if it is a timing change, and whose
speed multiplier is the decoder's, satisfy `ordPred`. -/
theorem line_ordinary (N : NanLaws F) (C : TpClampLaws F) (mode : GameMode) (l : TpLine F)
    (ht : Scalar.isNaN l.time = false) (hb : l.timingChange = true → Scalar.isNaN l.beatLen = false)
    (hs : l.speedMultiplier = (if Scalar.lt l.beatLen (0 : F) then (100 : F) / (-l.beatLen) else 1)) :
    LineAll (ordPred mode) mode l := by
  have hsm : Scalar.isNaN l.speedMultiplier = false := by rw [hs]; exact speedMultiplier_not_nan N _
  refine ⟨fun htc => ⟨ht, ?_⟩, ⟨ht, ?_⟩, ⟨by rw [effectPoint_time]; exact ht, ?_, ?_⟩, ⟨ht, clampVolume_range _⟩⟩
  · exact between_of_within N N.lit6 N.lit60000 (clamp_not_nan (hb htc) N.lit6 N.lit60000) (clamp_within C.beat _).1
  · exact between_of_within N N.lit01 N.lit10 (clamp_not_nan hsm N.lit01 N.lit10) (clamp_within C.sv _).1
  · show Scalar.isNaN (l.effectPoint mode).scrollSpeed = false
    unfold TpLine.effectPoint
    split
    · exact clamp_not_nan hsm N.lit001 N.lit10
    · exact N.lit1
  · show if mode == GameMode.taiko || mode == GameMode.mania
         then Between (0.01 : F) (10 : F) (l.effectPoint mode).scrollSpeed else (l.effectPoint mode).scrollSpeed = 1
    unfold TpLine.effectPoint
    split
    · exact between_of_within N N.lit001 N.lit10 (clamp_not_nan hsm N.lit001 N.lit10) (clamp_within C.scroll _).1
    · rfl

section
variable [Scalar P]

/-- **clamps, in the ordinary sense** (`clamps` of Props/C12.lean without its NaN caveat): from any state whose stored and
pending points satisfy `ordPred` — in particular a fresh one, possibly after `[General]` lines (`inv_create`,
`inv_parseGeneral`) — and for any sequence of lines, accepted or rejected, every stored time, beat length, slider
velocity and scroll speed is a number and every value lies in its range with the scalar's own `<=`. -/
theorem clamps_ordinary (N : NanLaws F) (C : TpClampLaws F) (st0 : TimingPointsState F P)
    (h0 : Inv (ordPred st0.general.mode) st0) (strs : List Str) :
    CpAll (ordPred st0.general.mode) (runStrs st0 strs).finish.2 := by
  rw [runStrs_eq_runTpLines]
  refine (inv_finish (inv_runTpLines h0 _ (fun l hl => ?_))).2
  obtain ⟨s, _, hp⟩ := mem_acceptedLines hl
  obtain ⟨ht, hb, _, _, hs⟩ := accepted_line_numbers hp
  exact line_ordinary N C _ l ht.2.2 hb hs

/-- … for a decode that starts from the fresh state. -/
theorem clamps_ordinary_fresh (N : NanLaws F) (C : TpClampLaws F) (strs : List Str) :
    CpAll (ordPred (TimingPointsState.create : TimingPointsState F P).general.mode)
      (runStrs (TimingPointsState.create : TimingPointsState F P) strs).finish.2 :=
  clamps_ordinary N C _ (inv_create _) strs

/-- **no stored value is NaN** (the corollary in words): after decoding any lines from a fresh state, the time of every
point of the four lists, every beat length, every slider velocity and every scroll speed is not NaN. -/
theorem stored_not_nan (N : NanLaws F) (C : TpClampLaws F) (strs : List Str) :
    let cp := (runStrs (TimingPointsState.create : TimingPointsState F P) strs).finish.2
    (∀ p ∈ cp.timingPoints, Scalar.isNaN p.time = false ∧ Scalar.isNaN p.beatLen = false) ∧
    (∀ p ∈ cp.difficultyPoints, Scalar.isNaN p.time = false ∧ Scalar.isNaN p.sliderVelocity = false) ∧
    (∀ p ∈ cp.effectPoints, Scalar.isNaN p.time = false ∧ Scalar.isNaN p.scrollSpeed = false) ∧
    (∀ p ∈ cp.samplePoints, Scalar.isNaN p.time = false) := by
  have h := clamps_ordinary_fresh (P := P) N C strs
  exact ⟨fun p hp => ⟨(h.t p hp).1, (h.t p hp).2.1⟩, fun p hp => ⟨(h.d p hp).1, (h.d p hp).2.1⟩,
    fun p hp => ⟨(h.e p hp).1, (h.e p hp).2.1⟩, fun p hp => (h.s p hp).1⟩

end

/-! ## 3. a NaN beat length on an inherited line -/

theorem nanLaw_of (N : NanLaws F) : NaNLaw F := N.nan_lt_zero

/-- `nan_inherited_point` with the velocity evaluated: under the one law "NaN is not `< 0`" plus the two literal comparisons
`¬ 1 < 0.1`, `¬ 10 < 1`, the slider velocity of a line with a NaN beat length is exactly `1` and ticks are off. -/
theorem nan_inherited_point_one (law : NaNLaw F) (h1 : Scalar.lt (1 : F) (0.1 : F) = false)
    (h2 : Scalar.lt (10 : F) (1 : F) = false) {g : GeneralState F P} {fields : List Str} {r : TpLine F}
    (h : parseTpRaw g fields = .ok r) (hn : Scalar.isNaN r.beatLen = true) :
    r.difficultyPoint.generateTicks = false ∧ r.difficultyPoint.sliderVelocity = 1 ∧ r.speedMultiplier = 1 := by
  obtain ⟨a, b, c⟩ := nan_inherited_point law h hn
  exact ⟨a, by rw [b]; exact clamp_nan_stays h1 h2, c⟩

/-- **a NaN beat length on an inherited line**: the line is accepted (a timing change would be rejected:
`nan_only_inherited`), tick generation is switched off, slider velocity and scroll speed are exactly `1` in every mode,
and no timing point is contributed. -/
theorem nan_inherited_line (N : NanLaws F) {g : GeneralState F P} {line : Str} {r : TpLine F}
    (h : parseTpRaw g (splitOn ',' (trimComment line)) = .ok r) (hn : Scalar.isNaN r.beatLen = true)
    (htc : r.timingChange = false) :
    parseTpFields g line = .ok r ∧
    r.difficultyPoint.generateTicks = false ∧ r.difficultyPoint.sliderVelocity = 1 ∧
    (∀ mode, (r.effectPoint mode).scrollSpeed = 1) := by
  obtain ⟨a, b, c⟩ := nan_inherited_point_one (nanLaw_of N) N.one_ge_01 N.one_le_10 h hn
  refine ⟨(nan_only_inherited h hn).1 htc, a, b, fun mode => ?_⟩
  unfold TpLine.effectPoint
  split
  · show Scalar.clamp r.speedMultiplier (0.01 : F) (10 : F) = 1
    rw [c]; exact clamp_nan_stays N.one_ge_001 N.one_le_10
  · rfl

/-! ## 4. `pending_eq_groups` from the parser's range check -/

/-- a finite time is in its own group: `|t − t| < ε` for every `t` within ±(2³¹−1) and not NaN. True for IEEE (`t − t = +0`
for finite `t`; false for ±∞ and NaN, which the range check excludes); follows from exact arithmetic with `ε > 0`. -/
def FiniteSelfGroup (F : Type) [Scalar F] : Prop := ∀ t : F, InRange t → sameGroup t t = true

section
variable [Scalar P]

/-- **pending_eq_groups** with the reflexivity assumption discharged: the accepted times are finite by the parser's own
range check (`accepted_time_inRange`, no law), so the only hypothesis left is `FiniteSelfGroup`. -/
theorem pending_eq_groups_finite (L : FiniteSelfGroup F) (st0 : TimingPointsState F P)
    (h0 : st0.pending = Pending.empty) (strs : List Str) :
    (runStrs st0 strs).finish.2 =
      (groupsOf st0.pendingTime (acceptedLines st0.general strs)).foldl
        (addGroup st0.general.mode) st0.controlPoints :=
  pending_eq_groups st0 h0 strs (fun _ hl => L _ (accepted_time_inRange hl))

end

section Exact
variable {K : Type} [Field K] [LinearOrder K] [IsStrictOrderedRing K] {φ : F → K}

/-- in exact arithmetic the group test is `|a − b| < ε`. -/
theorem sameGroup_exact (E : ExactScalar φ) (a b : F) :
    sameGroup a b = true ↔ |φ a - φ b| < φ (Scalar.eps : F) := by
  unfold sameGroup Scalar.ge
  rw [E.le, E.abs, E.sub]
  simp

/-- `ExactScalar` with a positive `ε` gives `FiniteSelfGroup` (for every time, finite or not: there are no infinities). -/
theorem finiteSelfGroup_of_exact (E : ExactScalar φ) (heps : 0 < φ (Scalar.eps : F)) : FiniteSelfGroup F := by
  intro t _
  rw [sameGroup_exact E]
  simpa using heps

/-- **pending_eq_groups in exact arithmetic**: under `ExactScalar φ` and `ε > 0`, for every sequence of lines. -/
theorem pending_eq_groups_exact [Scalar P] (E : ExactScalar φ) (heps : 0 < φ (Scalar.eps : F))
    (st0 : TimingPointsState F P) (h0 : st0.pending = Pending.empty) (strs : List Str) :
    (runStrs st0 strs).finish.2 =
      (groupsOf st0.pendingTime (acceptedLines st0.general strs)).foldl
        (addGroup st0.general.mode) st0.controlPoints :=
  pending_eq_groups_finite (finiteSelfGroup_of_exact E heps) st0 h0 strs

end Exact

/-! ## 4b. strictly increasing in TIME (C13's `TimeKeyOn`) -/

section TimeSorted
variable [Scalar P] {S : F → Prop}

/-- "the time of the point lies in `S`", per kind. -/
def timePred (S : F → Prop) : PointPred F :=
  { t := fun p => S p.time, d := fun p => S p.time, e := fun p => S p.time, s := fun p => S p.time }

/-- **lists_strictly_sorted, in times**: when the key order is the time order on a set `S` containing the times of the accepted
lines (`C13.TimeKeyOn S`; for IEEE: no NaN — guaranteed by the parser — and not both `+0.0` and `−0.0`), decoding any lines from
the fresh state gives four lists that are strictly increasing in TIME with at most one point per time. So F8 (both zeros among
the accepted times) is the only way this clause of the property fails. -/
theorem lists_strictly_sorted_time (T : C13.TimeKeyOn S) (strs : List Str)
    (hS : ∀ l ∈ acceptedLines (TimingPointsState.create : TimingPointsState F P).general strs, S l.time) :
    C13.TimeSorted (runStrs (TimingPointsState.create : TimingPointsState F P) strs).finish.2 ∧
    C13.OnePerTime (runStrs (TimingPointsState.create : TimingPointsState F P) strs).finish.2 := by
  have hinv : Inv (timePred S) (TimingPointsState.create : TimingPointsState F P) := inv_create _
  have hfin := inv_finish (inv_runTpLines hinv (acceptedLines _ strs) (fun l hl => by
    refine ⟨fun _ => hS l hl, hS l hl, ?_, hS l hl⟩
    show S (l.effectPoint _).time
    rw [effectPoint_time]; exact hS l hl))
  rw [← runStrs_eq_runTpLines] at hfin
  have hr : C13.Reach S (runStrs (TimingPointsState.create : TimingPointsState F P) strs).finish.2 :=
    ⟨hfin.1, ⟨hfin.2.t, hfin.2.d, hfin.2.e, hfin.2.s⟩⟩
  exact ⟨C13.times_strictly_sorted T hr, C13.one_point_per_time T hr⟩

end TimeSorted

/-! ## 5. the hypotheses are satisfiable -/

section Examples

/-- the toy scalar with a NaN satisfies `NanLaws` … -/
theorem nanLaws_zn : NanLaws ZN where
  nan_lt_zero x h := by
    obtain ⟨v⟩ := x
    cases v with
    | none => rfl
    | some n => cases h
  lit6 := rfl
  lit60000 := rfl
  lit01 := rfl
  lit10 := rfl
  lit001 := rfl
  lit1 := rfl
  div_neg b h := by
    obtain ⟨v⟩ := b
    cases v with
    | none => cases h
    | some n =>
      have hn : n < 0 := by
        have : decide (n < 0) = true := h
        simpa using this
      show (ZN.map₂ _ (ZN.num 100) ⟨some (-n)⟩).v.isNone = false
      have : (-n = 0) = False := by simp; omega
      simp [ZN.map₂, ZN.num, this]
  total a b ha hb h := by
    obtain ⟨va⟩ := a
    obtain ⟨vb⟩ := b
    cases va with
    | none => cases ha
    | some x =>
      cases vb with
      | none => cases hb
      | some y =>
        have : decide (x < y) = false := h
        show decide (y ≤ x) = true
        simp at this ⊢; omega
  one_ge_01 := by decide
  one_le_10 := by decide
  one_ge_001 := by decide

/-- … and the clamp laws. -/
theorem clampLaws_zn : TpClampLaws ZN := by
  refine ⟨⟨?_, ?_, ?_⟩, ⟨?_, ?_, ?_⟩, ⟨?_, ?_, ?_⟩⟩ <;> decide

/-- a line with a NaN beat length on the toy scalar. -/
def znNanLine (tc : Bool) : TpLine ZN :=
  { time := ZN.num 10, beatLen := ZN.nan, speedMultiplier := ZN.num 1,
    timeSignature := TimeSignature.simpleQuadruple, sampleSet := .normal, customSampleBank := 0,
    sampleVolume := 100, timingChange := tc, kiai := false, omitFirstBarLine := false }

/-- the NaN line is rejected as a timing change and accepted as an inherited line, where it stores velocity 1 without ticks;
its `clamp`ed beat length would still be NaN (why timing points need `checkNaN`). -/
example :
    (match checkNaN (znNanLine true) with | .error .timingControlPointNaN => true | _ => false) = true ∧
    (match checkNaN (znNanLine false) with | .ok _ => true | _ => false) = true ∧
    (znNanLine false).difficultyPoint = ⟨ZN.num 10, ZN.num 1, false⟩ ∧
    (znNanLine true).timingPoint.beatLen = ZN.nan := by decide

/-- the same through the real field parser: the texts `10,nan,4,1,0,100,0,0` (inherited) and `10,nan,4,1,0,100,1,0`
(timing change) on the toy scalar, whose `parse` reads `nan`. -/
def nanInheritedText : Str := ['1','0',',','n','a','n',',','4',',','1',',','0',',','1','0','0',',','0',',','0']
def nanTimingText : Str := ['1','0',',','n','a','n',',','4',',','1',',','0',',','1','0','0',',','1',',','0']

example :
    (match parseTpFields (GeneralState.default : GeneralState ZN ZN) nanInheritedText with
      | .ok l => some (l.time, l.beatLen, l.timingChange, l.difficultyPoint.generateTicks, l.difficultyPoint.sliderVelocity)
      | .error _ => none) = some (ZN.num 10, ZN.nan, false, false, ZN.num 1) := by decide +kernel

example :
    (match parseTpFields (GeneralState.default : GeneralState ZN ZN) nanTimingText with
      | .ok _ => none
      | .error e => some e) = some .timingControlPointNaN := by decide +kernel

/-- decoding both lines from the fresh state: the timing change is dropped, the inherited line stores a difficulty point
(velocity 1, no ticks) — and `stored_not_nan` applies: nothing stored is NaN. -/
example :
    let cp := (runStrs (TimingPointsState.create : TimingPointsState ZN ZN) [nanTimingText, nanInheritedText]).finish.2
    cp.timingPoints.length = 0 ∧ cp.difficultyPoints = [⟨ZN.num 10, ZN.num 1, false⟩] := by decide +kernel

example (strs : List Str) := stored_not_nan (P := ZN) nanLaws_zn clampLaws_zn strs

/-- `lists_strictly_sorted_time` on the toy `Z` (`C13.timeKeyOn_z`): the example lines of Props/C12.lean. -/
example (strs : List Str) :=
  lists_strictly_sorted_time (F := Z) (P := Z) C13.timeKeyOn_z strs (fun _ _ => trivial)

/-- `FiniteSelfGroup` on the toy `Z` (ε = 1) … -/
example : FiniteSelfGroup Z := fun t _ => z_sameGroup_refl t

end Examples

section RealExample
open RealInst
attribute [-instance] Scalar.instOfNat Scalar.instOfScientific

/-- … and from `ExactScalar` on ℝ, whose `ε = 2⁻⁵²` is positive. -/
theorem finiteSelfGroup_real : FiniteSelfGroup ℝ :=
  finiteSelfGroup_of_exact exactScalar_real (by show (0 : ℝ) < (2 : ℝ)⁻¹ ^ 52; positivity)

end RealExample

end Rosu.C12
