/-
  Props/C02Timing.lean — C02, layer 5 (timing points) as far as proved (continues Props/C02.lean, same namespace).

  * `timing_line_rt`: the uninherited line of a timing group re-decodes — in any decoder state — to a timing change whose
    `TimingPoint` is the stored point itself: same time, beat length, signature, omit-first-bar-line flag.
  * `inherited_line_rt`: an inherited line re-decodes to the slider velocity (scroll speed in taiko / mania) in effect at the
    group's time — through the arithmetic inverse `100 / -(-100 / v) = v`, a hypothesis —, the kiai flag in effect, and the
    sample fields written (bank number, clamped volume, custom bank).
  * `redundant_group_no_effect`: under exact arithmetic (`RtTiming.EpsLaws`), from a group's time up to the next control
    point the true properties equal `last_props` after that group's iteration — whether its inherited line was written or
    suppressed as redundant.
  * `timing_block_redecoded` (file level): re-decoding the encoded file leaves, as control points of the new map, exactly what
    the decoder's state machine (`applyTpLine`, C12) builds from the VALUES WRITTEN, line by line.
  * `timing_rt` (exact arithmetic: `EpsLaws`, `GroupLaws`, `TimelineHyps`): that state machine, run over those values,
    rebuilds the same timing points and, at every time, the same effective slider velocity (scroll speed in taiko / mania)
    and kiai flag — the decoder's pending-group and redundancy logic against the encoder's group loop and its suppression.
  * `timing_roundtrip_file`: both together — encode, bytes, reader, framing, `Beatmap` decoder, finalisation: the new map has
    the old map's timing points and effective velocity / kiai timelines.
  Helper lemmas: Lemmas/RtTimingRt.lean, RtTimelineAdd / Run / Groups / Step / Main / File.lean.
-/
import RosuModel.Props.C02
import RosuModel.Props.C04Timing
import RosuModel.Lemmas.RtTimingRt
import RosuModel.Lemmas.RtTimelineFile
namespace Rosu.C02
open Rosu Encode EncodeLines C11 RtTiming Scalar

variable {F P : Type} [Scalar F] [Scalar P] {RF : F → Prop} {RP : P → Prop}

/-- **timing_line_rt.** Let `g` be the group of a stored timing point `t` (as `encode_timing_points` builds it:
`g.time = t.time`), in a sorted collection, `t.beatLen` inside the decoder's clamp `[6, 60000]`. The first line the group
loop writes for `g` is the timing line; if it is representable, `parse_timing_points` accepts it in any state and applies a
line `l` that is a timing change with `l.timingPoint = t` — time, beat length, signature numerator and
omit-first-bar-line flag all come back — and whose kiai flag is the one in effect at `t.time`. -/
theorem timing_line_rt (LF : CodecLaws F RF) (mode : GameMode) {cp : ControlPoints F} (hs : C13.Sorted cp) (g : Group F)
    {t : TimingPoint F} (hg : g.timing = some t) (hgt : g.time = t.time) (ht : t ∈ cp.timingPoints)
    (hclamp : clamp t.beatLen (6 : F) (60000 : F) = t.beatLen) (last : Props F) :
    ∃ e rest, (groupStep mode cp g last).1 = e :: rest ∧ e.timing = true ∧
      (RepEntry RF e → ∀ st : TimingPointsState F P, ∃ l : TpLine F,
        parseTimingPoints st (trimEnd e.line) = (.ok (), applyTpLine st l) ∧
        l.timingChange = true ∧ l.timingPoint = t ∧ l.kiai = ((cp.effectPointAt t.time).map (·.kiai)).getD false) := by
  have key := fun d => timing_entry_rt mode hs ht hclamp last d
  have hstep : ∃ rest, (groupStep mode cp g last).1 =
      (⟨t.time, t.beatLen, Props.new t.time cp last true mode, true⟩ : Entry F) :: rest := by
    unfold groupStep
    simp only [hg, Option.isSome_some, hgt]
    split
    · exact ⟨[], rfl⟩
    · exact ⟨_, rfl⟩
  obtain ⟨rest, hr⟩ := hstep
  refine ⟨⟨t.time, t.beatLen, Props.new t.time cp last true mode, true⟩, rest, hr, rfl, fun he st => ?_⟩
  obtain ⟨h1, h2, h3⟩ := key st.general.defaultSampleBank
  exact ⟨_, entry_accepted LF _ he st, h1, h2, h3⟩

/-- **inherited_line_rt.** Every inherited (`0`-) line the group loop writes for a group `g`: if it is representable and
its velocity `v` satisfies the arithmetic inverse (`-100 / v < 0`, `100 / -(-100 / v) = v`), `parse_timing_points` accepts
it in any state and applies a non-timing line `l` at the group's time with: speed multiplier = the slider velocity (scroll
speed in taiko / mania) in effect at that time in the collection; kiai = the kiai flag in effect; sample point = the bank
numbered as written, the custom bank written, and the clamped volume of the sample point in effect. -/
theorem inherited_line_rt (LF : CodecLaws F RF) (mode : GameMode) (cp : ControlPoints F) (g : Group F) (last : Props F) :
    ∀ e ∈ (groupStep mode cp g last).1, e.timing = false → RepEntry RF e → SvInverse e.props.sliderVelocity →
      ∀ st : TimingPointsState F P, ∃ l : TpLine F,
        parseTimingPoints st (trimEnd e.line) = (.ok (), applyTpLine st l) ∧
        l.timingChange = false ∧ l.time = g.time ∧
        l.speedMultiplier = svFor mode cp g.time ∧
        l.difficultyPoint.sliderVelocity = clamp (svFor mode cp g.time) (0.1 : F) (10 : F) ∧
        (l.effectPoint mode).kiai = ((cp.effectPointAt g.time).map (·.kiai)).getD false ∧
        ((mode = .taiko ∨ mode = .mania) → (l.effectPoint mode).scrollSpeed = clamp (svFor mode cp g.time) (0.01 : F) (10 : F)) ∧
        l.samplePoint = { time := g.time, sampleBank := bankRead st.general.defaultSampleBank e.props.sampleBank,
                          sampleVolume := clampVolume (samplePointFor cp g.time).sampleVolume,
                          customSampleBank := e.props.customSampleBank } := by
  intro e he hf hr hv st
  obtain ⟨⟨last', hp⟩, hk⟩ := groupStep_form mode cp g last e he
  rcases hk with ⟨ht, _⟩ | ⟨_, htime, hbeat⟩
  · rw [hf] at ht; cases ht
  · obtain ⟨k1, k2, k3⟩ := inherited_props mode cp g.time last' g.timing.isSome
    rw [← hp] at k1 k2 k3
    obtain ⟨r1, r2, r3, r4, r5, r6, r7⟩ := inherited_entry_rt mode g.time e.props hv st.general.defaultSampleBank
    have he' : e = ⟨g.time, (-100 : F) / e.props.sliderVelocity, e.props, false⟩ := by
      cases e
      simp only at htime hbeat hf
      simp only [Entry.mk.injEq]
      exact ⟨htime, hbeat, trivial, hf⟩
    refine ⟨_, entry_accepted LF e hr st, ?_⟩
    rw [he']
    simp only [] at r1 r2 r3 r4 r5 r6 r7 ⊢
    refine ⟨r1, r2, by rw [r3, k2], by rw [r4, k2], by rw [r5, k1], fun hm => by rw [r6 hm, k2], ?_⟩
    rw [r7, k3]

/-- **redundant_group_no_effect** (exact arithmetic). On a sorted collection, let `u` be any time from the group's time on
such that no control point of any kind lies in `(g.time, u]`. Then the true properties at `u` are exactly `last_props` after
the group's iteration — the properties a reader of the lines written so far has in effect — whether the group's inherited
line was written or suppressed as redundant (after a timing line: the velocity was then `1`, to which the timing line resets
it). Suppression therefore changes no effective value at any time. -/
theorem redundant_group_no_effect (E : EpsLaws F) (mode : GameMode) {cp : ControlPoints F} (hs : C13.Sorted cp) (g : Group F)
    (last : Props F) (u : F)
    (h1 : ∀ p ∈ cp.timingPoints, (p.key ≤ totalKey g.time ↔ p.key ≤ totalKey u))
    (h2 : ∀ p ∈ cp.difficultyPoints, (p.key ≤ totalKey g.time ↔ p.key ≤ totalKey u))
    (h3 : ∀ p ∈ cp.effectPoints, (p.key ≤ totalKey g.time ↔ p.key ≤ totalKey u))
    (h4 : ∀ p ∈ cp.samplePoints, (p.key ≤ totalKey g.time ↔ p.key ≤ totalKey u)) :
    Props.new u cp last g.timing.isSome mode = (groupStep mode cp g last).2 ∧
    ((groupStep mode cp g last).1.all (·.timing) = true → g.timing.isSome = true →
      (groupStep mode cp g last).2.sliderVelocity = 1) := by
  refine ⟨by rw [groupStep_last E, props_const_between hs g.time u h1 h2 h3 h4], ?_⟩
  intro hall hsome
  unfold groupStep at hall ⊢
  simp only [] at hall ⊢
  cases ht : g.timing with
  | none => rw [ht] at hsome; cases hsome
  | some t =>
    rw [ht] at hall
    simp only [Option.isSome_some] at hall ⊢
    split
    · rfl
    · rename_i hn
      simp [hn] at hall

/-- the exact-arithmetic laws are satisfiable (toy scalar `ZC`: integers, `eps = 1`). -/
theorem timing_laws_satisfiable : EpsLaws ZC ∧ SvInverse (⟨2⟩ : ZC) ∧ SvInverse (⟨4⟩ : ZC) :=
  ⟨zc_epsLaws, ⟨by decide, by decide⟩, ⟨by decide, by decide⟩⟩

section
variable [Cvt P F] [Trig F] [Trig P]

/-- **timing_block_redecoded** (file level). Encode a map whose record sections and control points are representable
(`RtFile.RepRecords`, `RtTiming.RepTimingMap`; lawful codecs; `[HitObjects]` block of LF-terminated record lines), read the
UTF-8 bytes back with the `Beatmap` decoder: reading succeeds and the timing-point state is the decoder's state machine
(`C12.runTpLines` = successive `applyTpLine`) run, from the fresh state with the re-decoded `[General]` values, over the
values written for the entries of the block — and whenever finalisation succeeds the new map's control points are that
state, flushed. What is left for the round trip is a statement about `applyTpLine` sequences only. -/
theorem timing_block_redecoded (LF : CodecLaws F RF) (LP : CodecLaws P RP) (LI : IntPrintLaw F)
    (m : Beatmap F P) (hm : RtFile.RepRecords RF RP m) (hmt : RepTimingMap RF m) (t : Str) (H : List Str)
    (h : encode m = .ok t) (hH : encodeHitObjects m = .ok (unlines (str "[HitObjects]" :: H)))
    (sH : RtFile.ListBlockShape H) :
    ∃ (cp : ControlPoints F) (st : BeatmapState F P), collectSamples m = .ok cp ∧
      decodeBytes beatmapDecoder (utf8Encode t) = .ok st ∧
      st.hitObjects.timingPoints =
        C12.runTpLines { (TimingPointsState.create : TimingPointsState F P) with
            general := RtGeneral.preservedGeneral m.general (RtGeneral.sampleSetOf m.controlPoints) }
          ((mapEntries m cp).map (Entry.read (RtGeneral.sampleSetOf m.controlPoints))) ∧
      ∀ m2 : Beatmap F P, st.finish = .ok m2 → m2.controlPoints = st.hitObjects.timingPoints.finish.2 := by
  obtain ⟨cp, T, hc, hT, _, _, _, st, hst, _, htp, _⟩ :=
    C04.record_and_timing_blocks_accepted LF LP LI m hm hmt t H h hH sH
  obtain ⟨r1, r2⟩ := repTimingMap_cp m hmt cp hc
  have hes := entries_rep r1 (timingGroups cp) (timingGroups_rep cp r2) lastOk_default
  refine ⟨cp, st, hc, hst, ?_, fun m2 h2 => finish_controlPoints st m2 h2⟩
  rw [htp, hT]
  exact runStrs_entries LF _ hes _

/-- non-vacuity: the hypotheses hold of `C04.sampleMap` (toy codec). -/
example (t : Str) (h : encode C04.sampleMap = .ok t) :=
  timing_block_redecoded ZC.laws ZC.laws ZC.intPrintLaw C04.sampleMap C04.sample_records_rep C04.sample_timing_rep t _ h
    C04.sample_objects_text C04.sample_objects_shape

end

/-- the values written for the sample block (timing line at 0 with its inherited line suppressed; kiai and scroll speed 2
from 500; second timing point at 1000, 3/4, omit first bar line; scroll speed 4 from 1500), read back. -/
example : ((mapEntries C04.sampleMap C04.sampleCollected).map (Entry.read SampleBank.soft)).map
      (fun l => (l.time, l.beatLen, l.speedMultiplier, l.timeSignature.numerator, l.timingChange, l.kiai, l.omitFirstBarLine)) =
    [(⟨0⟩, ⟨500⟩, ⟨1⟩, 4, true, false, false), (⟨500⟩, ⟨-50⟩, ⟨2⟩, 4, false, true, false),
     (⟨1000⟩, ⟨400⟩, ⟨1⟩, 3, true, true, true), (⟨1000⟩, ⟨-50⟩, ⟨2⟩, 3, false, true, true),
     (⟨1500⟩, ⟨-25⟩, ⟨4⟩, 3, false, false, true)] := by
  unfold mapEntries
  rw [C04.sample_groups]
  rfl

/-- **timing_rt** (layer 5 of DESIGN 5.2, collection level; exact arithmetic). Let `cp` be a collection satisfying
`TimelineHyps` for the mode (sorted; numerators `≥ 1`; timing points with a non-negative beat length inside the clamp
`[6, 60000]`; every slider velocity — scroll speed in taiko / mania — and the default `1` invertible through `-100 / v` and
inside its clamp). Under `EpsLaws` (`|a − b| < ε ↔ a = b`) and `GroupLaws` (the decoder's grouping test likewise): run the
decoder's state machine from the fresh state (any `[General]` values of that mode) over the values written for the entries
of the `[TimingPoints]` block. The collection it flushes to has the SAME timing points (times, beat lengths, signatures,
omit-first-bar-line flags, in order), and at EVERY time the same effective slider velocity / scroll speed and the same kiai
flag — the encoder's group construction, property carry-over and redundancy suppression against the decoder's pending
groups, precedence rules and redundancy checks. -/
theorem timing_rt (E : EpsLaws F) (G : GroupLaws F) {mode : GameMode} {cp : ControlPoints F} (H : TimelineHyps mode cp)
    (g0 : GeneralState F P) (hm : g0.mode = mode) :
    let cp' := (C12.runTpLines { (TimingPointsState.create : TimingPointsState F P) with general := g0 }
      ((groupEntries mode cp (timingGroups cp) Props.default).map (Entry.read g0.defaultSampleBank))).finish.2
    cp'.timingPoints = cp.timingPoints ∧
    ∀ u : F, svFor mode cp' u = svFor mode cp u ∧ kiaiAt cp' u = kiaiAt cp u :=
  timing_roundtrip E G H g0 hm

/-- the laws of `timing_rt` are satisfiable (integer toy scalar `ZC`, `eps = 1`). -/
theorem timing_rt_laws_satisfiable : EpsLaws ZC ∧ GroupLaws ZC := ⟨zc_epsLaws, zc_groupLaws⟩

section
variable [Cvt P F] [Trig F] [Trig P]

/-- **timing_roundtrip_file** (file level; codec laws + exact arithmetic). Encode a map whose record sections and control
points are representable and whose own control points satisfy `TimelineHyps`; read the UTF-8 bytes back with the `Beatmap`
decoder: reading succeeds, and whenever finalisation succeeds the new map has the old map's timing points and, at every
time, the old map's effective slider velocity (scroll speed in taiko / mania: `effect_point_at`, otherwise
`difficulty_point_at`, default `1`) and kiai flag (`effect_point_at`, default off). -/
theorem timing_roundtrip_file (LF : CodecLaws F RF) (LP : CodecLaws P RP) (LI : IntPrintLaw F) (E : EpsLaws F)
    (G : GroupLaws F) (m : Beatmap F P) (hm : RtFile.RepRecords RF RP m) (hmt : RepTimingMap RF m)
    (hth : TimelineHyps m.general.mode m.controlPoints) (t : Str) (H : List Str)
    (h : encode m = .ok t) (hH : encodeHitObjects m = .ok (unlines (str "[HitObjects]" :: H)))
    (sH : RtFile.ListBlockShape H) :
    ∃ st : BeatmapState F P, decodeBytes beatmapDecoder (utf8Encode t) = .ok st ∧
      ∀ m2 : Beatmap F P, st.finish = .ok m2 →
        m2.controlPoints.timingPoints = m.controlPoints.timingPoints ∧
        ∀ u : F,
          (match m.general.mode with
           | .taiko | .mania =>
             ((m2.controlPoints.effectPointAt u).map (·.scrollSpeed)).getD (1 : F) =
               ((m.controlPoints.effectPointAt u).map (·.scrollSpeed)).getD (1 : F)
           | _ =>
             ((m2.controlPoints.difficultyPointAt u).map (·.sliderVelocity)).getD (1 : F) =
               ((m.controlPoints.difficultyPointAt u).map (·.sliderVelocity)).getD (1 : F)) ∧
          ((m2.controlPoints.effectPointAt u).map (·.kiai)).getD false =
            ((m.controlPoints.effectPointAt u).map (·.kiai)).getD false := by
  obtain ⟨cp, st, hc, hst, htp, hfin⟩ := timing_block_redecoded LF LP LI m hm hmt t H h hH sH
  refine ⟨st, hst, fun m2 h2 => ?_⟩
  have hcp := hfin m2 h2
  rw [htp] at hcp
  obtain ⟨r1, r2⟩ := timing_roundtrip E G (timelineHyps_collected m cp hc hth)
    (RtGeneral.preservedGeneral m.general (RtGeneral.sampleSetOf m.controlPoints)) rfl (P := P)
  have e : m2.controlPoints = (C12.runTpLines { (TimingPointsState.create : TimingPointsState F P) with
      general := RtGeneral.preservedGeneral m.general (RtGeneral.sampleSetOf m.controlPoints) }
      ((groupEntries m.general.mode cp (timingGroups cp) Props.default).map
        (Entry.read (RtGeneral.preservedGeneral m.general (RtGeneral.sampleSetOf m.controlPoints)).defaultSampleBank))).finish.2 := hcp
  rw [e]
  refine ⟨r1.trans (collectSamples_others m cp hc).1, fun u => ?_⟩
  obtain ⟨c1, c2⟩ := collected_values m cp hc u
  have hsv := (r2 u).1.trans c1
  refine ⟨?_, (r2 u).2.trans c2⟩
  revert hsv
  generalize m.general.mode = mode
  intro hsv
  cases mode <;> exact hsv

/-- non-vacuity: `C04.sampleMap` (toy codec; mania, two timing points, scroll speeds 2 and 4, kiai, a collected object sample, a
suppressed redundant group) satisfies every hypothesis. -/
theorem sample_timeline_hyps : TimelineHyps C04.sampleMap.general.mode C04.sampleMap.controlPoints where
  sorted := ⟨by unfold C13.SortedBy; decide, by unfold C13.SortedBy; decide, by unfold C13.SortedBy; decide,
    by unfold C13.SortedBy; decide⟩
  sig := by decide
  beat := by decide
  sv := by
    intro v hv
    have : v = 1 ∨ v = ⟨2⟩ ∨ v = ⟨4⟩ := by
      simpa [svSource, C04.sampleMap, C04.sampleCp, RtGeneral.sample] using hv
    rcases this with rfl | rfl | rfl <;>
      exact ⟨⟨by decide, by decide⟩, by show clamp _ (0.01 : ZC) (10 : ZC) = _; decide⟩

example (t : Str) (h : encode C04.sampleMap = .ok t) :=
  timing_roundtrip_file ZC.laws ZC.laws ZC.intPrintLaw zc_epsLaws zc_groupLaws C04.sampleMap C04.sample_records_rep
    C04.sample_timing_rep sample_timeline_hyps t _ h C04.sample_objects_text C04.sample_objects_shape

end

end Rosu.C02
