/-
  Props/C02FinalCurves.lean — C02 gap "(e)": the COMPUTED CURVES (`Curve::path()`, `Curve::lengths()`) of the re-decoded
  sliders are the original sliders' curves. Composes Props/C18.lean (purity of `Curve::new` in the buffers) with the
  finaliser's buffer threading (`finalizeObjects` hands ONE `CurveBuffers` from slider to slider).

  The model's `finalizeObject` computes the curve and keeps only its length (the Rust caches the curve in the `SliderPath`);
  `curveAt h bufs` below is that very `Curve::new` call (`curveAt_is_finaliser_call`), `finalizeCurves` lists the calls the
  loop makes, each on the buffers the previous objects left.

  * `same_fields_same_curve` — two sliders with the same path mode, control points and expected distance have the same
    curve (or the same panic / fuel outcome), whatever well-formed buffers computed them. No law.
  * `finalize_curves_fresh` — along `finalizeObjects` from well-formed buffers, the curve computed for the k-th object is the
    curve of the k-th OUTPUT object on fresh buffers: the threaded buffers are invisible. No law.
  * `finish_curves` — every decoded map: the curves its finaliser computed are `m.hitObjects.map sliderCurve`. No law.
  * `natural_length_same_curve` — a slider WITHOUT expected length is written with the length of its computed curve and comes
    back with `expected_dist = Some(that length)` (or `None` when below `EPSILON`): the curve is the same. One law, `NearLaw`:
    a length `d` that survives the decoder's normalisation (`max(d, 0)`, `|·| ≥ EPSILON`) is within `EPSILON` of itself
    (exact arithmetic: then `d > 0`, `max(d, 0) = d`, `|d − d| = 0`); instance `nearLaw_zc`.
  * `PathStable m` — what `RepMap` + `Finalized` do not say of a `Beatmap` VALUE and the curve depends on: every slider's
    path mode is the map's mode (a decoded slider carries the mode in force when ITS line was parsed: finding F15 can make it
    differ) and a stored expected length is its own normal form `lenOf d = some d` (true of every decoded length in exact
    arithmetic: the decoder stored `lenOf` of something).
  * `roundtrip_curves_partial` — under exactly the hypotheses of `roundtrip_rep_partial` + `Finalized m` (all four modes; the
    velocity is not involved) + `NearLaw` + `PathStable m`: the re-decoded map has as many objects and, object by object, the
    same curve: `m2.hitObjects.map sliderCurve = m.hitObjects.map sliderCurve`, and these ARE the curves the re-decoded map's
    finaliser computed on its threaded buffers (`finalizeCurves … = m2.hitObjects.map sliderCurve`).
  * `roundtrip_curves_decoded_partial` — the same with `m` itself decoded from bytes: the list of curves the second
    finaliser run computed equals the list the first run computed.
  "Partial": `RepMap`, `EpsLaws` / `GroupLaws` (inherited from `roundtrip_rep_partial`), `NearLaw` (exact arithmetic) and
  `PathStable` are assumed. Non-vacuity: `toyMapF` (`toyMapF_roundtrip_curves`).
-/
import RosuModel.Props.C02FinalDecoded
import RosuModel.Props.C02FinalToy
import RosuModel.Props.C18
import RosuModel.Props.C16
set_option linter.unusedSectionVars false
namespace Rosu.C02
open Rosu Encode EncodeLines C11 RtTiming Scalar FileRt SliderRt

section
variable {F P : Type} [Scalar F] [Scalar P] [Cvt P F] [Trig F] [Trig P] {RF : F → Prop} {RP : P → Prop}

/-! ### the curve of an object -/

/-- what `Curve::new` shows for the path fields of `h` when run on the buffers `bufs`: `none` for a non-slider, else the
path and the cumulative lengths, or the panic / fuel outcome. -/
def curveAt (h : HitObject F P) (bufs : CurveBuffers P F) : Option (Outcome (List (Pos P) × List F)) :=
  match h.kind with
  | .slider s => some (C18.observe (Curve.new curveFuel s.path.mode s.path.controlPoints s.path.expectedDist bufs))
  | _ => none

/-- the curve of an object, computed on fresh buffers (`CurveBuffers::default()`). -/
def sliderCurve (h : HitObject F P) : Option (Outcome (List (Pos P) × List F)) := curveAt h emptyBuffers

omit [Scalar F] [Scalar P] [Cvt P F] [Trig F] [Trig P] in
theorem emptyBuffers_wf : (emptyBuffers : CurveBuffers P F).bezier.WF := ⟨rfl, rfl, rfl⟩

/-- `curveAt h bufs` is the `Curve::new` call `finalizeObject` makes for a slider `h` on `bufs`; the buffers it hands on are
the ones that call returns. -/
theorem curveAt_is_finaliser_call (mode : GameMode) (sm : F) (cp : ControlPoints F) (h h' : HitObject F P)
    (s : HitObjectSlider F P) (hk : h.kind = .slider s) (bufs bufs' : CurveBuffers P F)
    (hf : finalizeObject mode sm cp h bufs = .ok (h', bufs')) :
    ∃ c : Curve P F, Curve.new curveFuel s.path.mode s.path.controlPoints s.path.expectedDist bufs = .ok (c, bufs') ∧
      curveAt h bufs = some (.ok (c.path, c.lengths)) := by
  unfold finalizeObject at hf
  rw [hk] at hf
  simp only [] at hf
  cases hc : Curve.new curveFuel s.path.mode s.path.controlPoints s.path.expectedDist bufs with
  | error e => simp [hc, bind, Except.bind] at hf
  | ok r =>
    obtain ⟨curve, b2⟩ := r
    simp only [hc, bind, Except.bind, pure, Except.pure] at hf
    injection hf with hf
    injection hf with e1 e2
    subst e2
    refine ⟨curve, rfl, ?_⟩
    unfold curveAt
    rw [hk]
    simp only [C18.observe, hc]
    rfl

/-- **same_fields_same_curve** — equal path mode, control points and expected distance: equal curve, whatever (well-formed)
buffers computed them. -/
theorem same_fields_same_curve (a b : HitObject F P) (s k : HitObjectSlider F P) (ha : a.kind = .slider s)
    (hb : b.kind = .slider k) (hm : k.path.mode = s.path.mode) (hc : k.path.controlPoints = s.path.controlPoints)
    (hd : k.path.expectedDist = s.path.expectedDist) (b₁ b₂ : CurveBuffers P F) (h₁ : b₁.bezier.WF) (h₂ : b₂.bezier.WF) :
    curveAt b b₂ = curveAt a b₁ := by
  unfold curveAt
  rw [ha, hb]
  simp only [hm, hc, hd]
  rw [C18.compute_ignores_buffers curveFuel s.path.mode s.path.controlPoints s.path.expectedDist b₂ b₁ h₂ h₁]

/-- the buffers do not matter for one object. -/
theorem curveAt_fresh (h : HitObject F P) (bufs : CurveBuffers P F) (hw : bufs.bezier.WF) : curveAt h bufs = sliderCurve h := by
  unfold sliderCurve curveAt
  cases hk : h.kind with
  | slider s =>
    simp only []
    rw [C18.compute_ignores_buffers curveFuel s.path.mode s.path.controlPoints s.path.expectedDist bufs emptyBuffers hw
      emptyBuffers_wf]
  | circle c => rfl
  | spinner c => rfl
  | hold c => rfl

/-! ### the finaliser's buffer threading -/

/-- one object keeps the buffers well-formed. -/
theorem finalizeObject_wf (mode : GameMode) (sm : F) (cp : ControlPoints F) (h h' : HitObject F P)
    (bufs bufs' : CurveBuffers P F) (hf : finalizeObject mode sm cp h bufs = .ok (h', bufs')) (hw : bufs.bezier.WF) :
    bufs'.bezier.WF := by
  cases hk : h.kind with
  | slider s =>
    obtain ⟨c, hc, _⟩ := curveAt_is_finaliser_call mode sm cp h h' s hk bufs bufs' hf
    exact C18.new_preserves_wf _ _ _ _ _ _ _ hw (Or.inl hc)
  | circle c =>
    unfold finalizeObject at hf
    simp only [hk, pure, Except.pure] at hf
    injection hf with hf
    injection hf with e1 e2
    subst e2
    exact hw
  | spinner c =>
    unfold finalizeObject at hf
    simp only [hk, pure, Except.pure] at hf
    injection hf with hf
    injection hf with e1 e2
    subst e2
    exact hw
  | hold c =>
    unfold finalizeObject at hf
    simp only [hk, pure, Except.pure] at hf
    injection hf with hf
    injection hf with e1 e2
    subst e2
    exact hw

/-- the `Curve::new` calls the loop of `From<HitObjectsState>` makes, in order: each object on the buffers the previous
objects left (`finalizeObject`'s own second component). -/
def finalizeCurves (mode : GameMode) (sm : F) (cp : ControlPoints F) :
    List (HitObject F P) → CurveBuffers P F → List (Option (Outcome (List (Pos P) × List F)))
  | [], _ => []
  | h :: rest, bufs =>
    curveAt h bufs ::
      (match finalizeObject mode sm cp h bufs with
       | .ok (_, bufs') => finalizeCurves mode sm cp rest bufs'
       | .error _ => [])

/-- the path fields survive the finaliser: an output object has the curve of its input object. -/
theorem curveAt_of_view (mode : GameMode) (sm : F) (cp : ControlPoints F) (a b : HitObject F P)
    (hv : objView a = velView mode sm cp b) (bufs : CurveBuffers P F) : curveAt a bufs = curveAt b bufs := by
  unfold objView velView at hv
  injection hv with _ hv
  unfold curveAt
  cases hb : b.kind with
  | slider s =>
    rw [hb] at hv
    simp only [] at hv
    obtain ⟨s2, e1, e2⟩ := stripKind_slider _ _ hv
    rw [e1]
    simp only []
    have := congrArg HitObjectSlider.path e2
    simp only [] at this
    rw [this]
  | circle c => rw [hb] at hv; simp only [] at hv; rw [stripKind_circle _ _ hv]
  | spinner c => rw [hb] at hv; simp only [] at hv; rw [stripKind_spinner _ _ hv]
  | hold c => rw [hb] at hv; simp only [] at hv; rw [stripKind_hold _ _ hv]

/-- **finalize_curves_fresh** — the curves computed along `finalizeObjects` from well-formed buffers are, object by object,
the curves of the finalised objects on FRESH buffers. -/
theorem finalize_curves_fresh (mode : GameMode) (sm : F) (cp : ControlPoints F) :
    ∀ (hs r : List (HitObject F P)) (bufs : CurveBuffers P F), bufs.bezier.WF →
      finalizeObjects mode sm cp hs bufs = .ok r → finalizeCurves mode sm cp hs bufs = r.map sliderCurve
  | [], r, bufs, _, h => by
    simp [finalizeObjects, pure, Except.pure] at h
    subst h
    rfl
  | x :: rest, r, bufs, hw, h => by
    simp only [finalizeObjects, bind, Except.bind] at h
    cases hx : finalizeObject mode sm cp x bufs with
    | error e => simp [hx] at h
    | ok p =>
      obtain ⟨x', b'⟩ := p
      simp only [hx] at h
      cases hr : finalizeObjects mode sm cp rest b' with
      | error e => simp [hr] at h
      | ok rest' =>
        simp only [hr, pure, Except.pure] at h
        cases h
        simp only [finalizeCurves, hx, List.map_cons]
        rw [finalize_curves_fresh mode sm cp rest rest' b' (finalizeObject_wf mode sm cp x x' bufs b' hx hw) hr,
          curveAt_fresh x bufs hw]
        unfold sliderCurve
        rw [curveAt_of_view mode sm cp x' x (finalizeObject_view mode sm cp x x' bufs b' hx)]

/-- **finish_curves** — every decoded map: the curves `From<HitObjectsState>` computed, slider after slider on one set of
buffers, are the curves of the map's objects on fresh buffers. -/
theorem finish_curves (st : BeatmapState F P) (m : Beatmap F P) (hf : st.finish = .ok m) :
    finalizeCurves m.general.mode m.difficulty.sliderMultiplier m.controlPoints
      (postProcessBreaks m.events.breaks (sortByStartTime st.hitObjects.core.hitObjects) 0) emptyBuffers =
        m.hitObjects.map sliderCurve :=
  finalize_curves_fresh _ _ _ _ _ _ emptyBuffers_wf (finish_objects st m hf).1

/-! ### an absent length is written as the computed one -/

/-- a length that survives the decoder's normalisation is within `EPSILON` of itself. Exact arithmetic: `ε ≤ |max(d, 0)|`
forces `d > 0`, so `max(d, 0) = d` and `|d − d| = 0 < ε`. -/
def NearLaw (F : Type) [Scalar F] : Prop :=
  ∀ d : F, le (eps : F) (abs (Scalar.max d 0)) = true → le (eps : F) (abs (d - Scalar.max d 0)) = false

omit [Scalar P] [Cvt P F] [Trig F] [Trig P] in
theorem lenOf_cases (d : F) : (lenOf d = none) ∨ (lenOf d = some (Scalar.max d 0) ∧ le (eps : F) (abs (Scalar.max d 0)) = true) := by
  unfold lenOf
  cases h : le (eps : F) (abs (Scalar.max d 0))
  · left; simp
  · right; simp

/-- `calculate_length` with the natural length requested is `calculate_length` without a request. -/
theorem calculateLength_natural (N : NearLaw F) (path : List (Pos P)) (opt : F) :
    Curve.calculateLength path (lenOf (Curve.dist (C16.natLens opt path))) opt = Curve.calculateLength path none opt := by
  rcases lenOf_cases (Curve.dist (C16.natLens opt path)) with h | ⟨h, hge⟩
  · rw [h]
  · rw [h]
    by_cases hlen : path.length ≤ 1
    · rw [C16.single_point_keeps path _ opt hlen, C16.dist_natural_when_none]
      have hc : C16.natLens opt path = [(0 : F)] := by
        have := C16.cumLens_length opt path
        unfold C16.natLens
        cases hl : (Curve.cumLens opt path).1 with
        | nil => rfl
        | cons a t => rw [hl] at this; simp at this; omega
      rw [hc]
    · have h2 : 2 ≤ path.length := by omega
      apply C16.dist_natural_when_near
      rw [C16.natural_dist path opt h2] at hge ⊢
      unfold C16.near
      show (!(le (eps : F) (abs (C16.natTotal opt path - Scalar.max (C16.natTotal opt path) 0)))) = true
      rw [N _ hge]
      rfl

/-- **natural_length_same_curve** — `d` = the length of the curve computed without an expected length (what the encoder
writes); requesting `lenOf d` (what the decoder stores of it) gives the same curve, on any buffers. -/
theorem natural_length_same_curve (N : NearLaw F) (fuel : Nat) (mode : GameMode) (pts : List (PathControlPoint P))
    (b : CurveBuffers P F) (c : Curve P F) (b' : CurveBuffers P F) (hc : Curve.new fuel mode pts none b = .ok (c, b')) :
    C18.observe (Curve.new fuel mode pts (lenOf (Curve.dist c.lengths)) b) = C18.observe (Curve.new fuel mode pts none b) := by
  obtain ⟨b1, opt, h1, h2⟩ := C16.new_is_calculateLength fuel mode pts none b b' c hc
  rw [C16.dist_natural_when_none] at h2
  injection h2 with h2
  injection h2 with _ hl
  rw [← hl]
  unfold C18.observe Curve.new Curve.compute
  rw [h1]
  simp only [Outcome.ok_bind]
  rw [calculateLength_natural N]

/-! ### the round trip -/

/-- what the curve depends on and `RepMap` / `Finalized` do not fix (see the head of this file). -/
def PathStable (m : Beatmap F P) : Prop :=
  ∀ h ∈ m.hitObjects, ∀ s, h.kind = .slider s →
    s.path.mode = m.general.mode ∧ ∀ d, s.path.expectedDist = some d → lenOf d = some d

/-- **one object**: `o'` is what the format carries of `h` (`ObjBack`), `k` is `o'` through the finaliser; then `k` has the
curve of `h`. -/
theorem obj_curve (N : NearLaw F) (mode : GameMode) (sm : F) (cp2 : ControlPoints F) (h o' k : HitObject F P)
    (forced : Bool) (hb : ObjBack mode forced h o') (hv : objView k = velView mode sm cp2 o')
    (hst : ∀ s, h.kind = .slider s → s.path.mode = mode ∧ ∀ d, s.path.expectedDist = some d → lenOf d = some d) :
    sliderCurve k = sliderCurve h := by
  unfold sliderCurve
  rw [curveAt_of_view mode sm cp2 k o' hv]
  obtain ⟨_, h2⟩ := hb
  unfold curveAt
  cases hk : h.kind with
  | circle c => rw [hk] at h2; simp only [] at h2; rw [h2.1]
  | spinner c => rw [hk] at h2; simp only [] at h2; rw [h2.1]
  | hold c => rw [hk] at h2; simp only [] at h2; rw [h2.1]
  | slider s =>
    rw [hk] at h2
    simp only [] at h2
    obtain ⟨dist, hd, h3, _⟩ := h2
    obtain ⟨hmode, hnorm⟩ := hst s hk
    rw [h3]
    simp only []
    rw [← hmode]
    rcases hd with hd | ⟨hd, hcd⟩
    · rw [hd, hnorm dist hd]
    · rw [hd]
      unfold curveDist at hcd
      rw [hd] at hcd
      cases hc : Curve.new curveFuel s.path.mode s.path.controlPoints (none : Option F) emptyBuffers with
      | error e => rw [hc] at hcd; simp [bind, Except.bind] at hcd
      | ok r =>
        obtain ⟨c, b'⟩ := r
        rw [hc] at hcd
        simp only [bind, Except.bind, pure, Except.pure] at hcd
        injection hcd with hcd
        rw [← hcd, natural_length_same_curve N curveFuel s.path.mode s.path.controlPoints emptyBuffers c b' hc, hc]

theorem objs_curve (N : NearLaw F) (mode : GameMode) (sm : F) (cp2 : ControlPoints F) :
    ∀ (hs os' ks : List (HitObject F P)), AllPairs (ObjBack mode false) hs os' →
      ks.map objView = os'.map (velView mode sm cp2) →
      (∀ h ∈ hs, ∀ s, h.kind = .slider s → s.path.mode = mode ∧ ∀ d, s.path.expectedDist = some d → lenOf d = some d) →
      ks.map sliderCurve = hs.map sliderCurve
  | [], [], [], _, _, _ => rfl
  | [], [], _ :: _, _, h, _ => by simp at h
  | [], _ :: _, _, h, _, _ => h.elim
  | _ :: _, [], _, h, _, _ => h.elim
  | _ :: _, _ :: _, [], _, h, _ => by simp at h
  | h :: hs, o :: os', k :: ks, hp, hv, hst => by
    simp only [List.map_cons, List.cons.injEq] at hv
    simp only [List.map_cons]
    rw [obj_curve N mode sm cp2 h o k false hp.1 hv.1 (hst h (by simp)),
      objs_curve N mode sm cp2 hs os' ks hp.2 hv.2 (fun x hx => hst x (by simp [hx]))]

/-- **roundtrip_curves_partial** — see the head of this file. All four modes. -/
theorem roundtrip_curves_partial (L : MapLaws F P RF RP) (E : EpsLaws F) (G : GroupLaws F) (N : NearLaw F) (m : Beatmap F P)
    (hm : RepMap RF RP m) (hth : TimelineHyps m.general.mode m.controlPoints) (t : Str) (h : encode m = .ok t)
    (hf : Finalized m) (hps : PathStable m) :
    ∃ st : BeatmapState F P, decodeBytes beatmapDecoder (utf8Encode t) = .ok st ∧
      ∀ m2 : Beatmap F P, st.finish = .ok m2 →
        m2.hitObjects.length = m.hitObjects.length ∧
        m2.hitObjects.map sliderCurve = m.hitObjects.map sliderCurve ∧
        finalizeCurves m2.general.mode m2.difficulty.sliderMultiplier m2.controlPoints
          (postProcessBreaks m2.events.breaks (sortByStartTime st.hitObjects.core.hitObjects) 0) emptyBuffers =
            m.hitObjects.map sliderCurve := by
  obtain ⟨st, h1, _, hback, _, _, h6⟩ := roundtrip_rep_partial L E G m hm hth t h
  refine ⟨st, h1, fun m2 h2 => ?_⟩
  obtain ⟨_, _, _, hfin⟩ := h6 m2 h2
  have htimes := objsBack_times m.general.mode true _ _ hback
  rw [sort_chronological_id _ (chronological_of_times _ _ htimes hf.chronological)] at hfin
  have hbr := breaks_back m.general.mode m.events.breaks true _ _ 0 hback hf.breaks hf.forced
  have hview := finalizeObjects_view _ _ _ _ _ _ hfin
  have hcur := objs_curve N m.general.mode m.difficulty.sliderMultiplier m2.controlPoints _ _ _ hbr hview hps
  have hlen : m2.hitObjects.length = m.hitObjects.length := by
    have := congrArg List.length hcur
    simpa using this
  exact ⟨hlen, hcur, (finish_curves st m2 h2).trans hcur⟩

/-- **roundtrip_curves_decoded_partial** — `m` itself decoded from bytes: the list of curves the finaliser of the re-decoded
map computed (on its own threaded buffers) is the list the finaliser of the first decode computed. -/
theorem roundtrip_curves_decoded_partial (L : MapLaws F P RF RP) (E : EpsLaws F) (G : GroupLaws F) (N : NearLaw F)
    (bs : List UInt8) (st0 : BeatmapState F P) (m : Beatmap F P)
    (h0 : decodeBytes beatmapDecoder bs = .ok st0) (hfin0 : st0.finish = .ok m)
    (hchron : Chronological st0.hitObjects.core.hitObjects)
    (hm : RepMap RF RP m) (hth : TimelineHyps m.general.mode m.controlPoints) (t : Str) (h : encode m = .ok t)
    (hps : PathStable m) :
    ∃ st : BeatmapState F P, decodeBytes beatmapDecoder (utf8Encode t) = .ok st ∧
      ∀ m2 : Beatmap F P, st.finish = .ok m2 →
        finalizeCurves m2.general.mode m2.difficulty.sliderMultiplier m2.controlPoints
          (postProcessBreaks m2.events.breaks (sortByStartTime st.hitObjects.core.hitObjects) 0) emptyBuffers =
        finalizeCurves m.general.mode m.difficulty.sliderMultiplier m.controlPoints
          (postProcessBreaks m.events.breaks (sortByStartTime st0.hitObjects.core.hitObjects) 0) emptyBuffers := by
  obtain ⟨st, h1, hall⟩ := roundtrip_curves_partial L E G N m hm hth t h (decoded_finalized bs st0 m h0 hfin0 hchron) hps
  exact ⟨st, h1, fun m2 h2 => ((hall m2 h2).2.2).trans (finish_curves st0 m hfin0).symm⟩

end

/-- the full clause, NOT a theorem of this development: the same for every decoded chronological map, with no
representability, stability or exact-arithmetic assumption. -/
def roundtrip_curves_statement : Prop :=
  ∀ (F P : Type) [Scalar F] [Scalar P] [Cvt P F] [Trig F] [Trig P] (RF : F → Prop) (RP : P → Prop),
    MapLaws F P RF RP →
    ∀ (bs : List UInt8) (st : BeatmapState F P) (m : Beatmap F P) (t : Str) (st2 : BeatmapState F P) (m2 : Beatmap F P),
      decodeBytes beatmapDecoder bs = .ok st → Chronological st.hitObjects.core.hitObjects → st.finish = .ok m →
      encode m = .ok t → decodeBytes beatmapDecoder (utf8Encode t) = .ok st2 → st2.finish = .ok m2 →
      m2.hitObjects.map sliderCurve = m.hitObjects.map sliderCurve

/-! ### non-vacuity on the toy codec -/

theorem nearLaw_zc : NearLaw ZC := by
  intro d h
  have h' : (1 : Int) ≤ ((Scalar.max d 0 : ZC).v.natAbs : Int) := by
    simpa using (show decide ((1 : Int) ≤ ((Scalar.max d 0 : ZC).v.natAbs : Int)) = true from h)
  show decide ((1 : Int) ≤ (((d - Scalar.max d 0 : ZC)).v.natAbs : Int)) = false
  have hmax : (Scalar.max d 0 : ZC) = if d.v < 0 then 0 else d := by
    show (if decide (d.v < (0 : ZC).v) then (0 : ZC) else if false then 0 else d) = _
    have : (0 : ZC).v = 0 := rfl
    rw [this]
    by_cases hd : d.v < 0 <;> simp [hd]
  rw [hmax] at h' ⊢
  by_cases hd : d.v < 0
  · simp only [hd, if_true] at h'
    have : (0 : ZC).v = 0 := rfl
    rw [this] at h'
    simp at h'
  · simp only [hd, if_false]
    have : (d - d : ZC).v = 0 := by show d.v - d.v = 0; omega
    rw [this]
    simp

theorem toyMapF_pathStable : PathStable toyMapF := by
  intro h hh s hk
  have hh' : h ∈ toyObjectsF := hh
  simp only [toyObjectsF, List.mem_cons, List.not_mem_nil, or_false] at hh'
  rcases hh' with rfl | rfl | rfl | rfl
  · cases hk
  · cases hk
    refine ⟨by decide, fun d hd => ?_⟩
    have : d = ⟨140⟩ := by
      have : toySliderF.path.expectedDist = some (⟨140⟩ : ZC) := by decide
      rw [this] at hd
      injection hd with hd
      exact hd.symm
    subst this
    decide
  · cases hk
  · cases hk

/-- **non-vacuity**: every hypothesis of `roundtrip_curves_partial` holds of `toyMapF`. -/
theorem toyMapF_roundtrip_curves :
    ∃ t, encode toyMapF = .ok t ∧
      ∃ st : BeatmapState ZC ZC, decodeBytes beatmapDecoder (utf8Encode t) = .ok st ∧
        ∀ m2 : Beatmap ZC ZC, st.finish = .ok m2 →
          m2.hitObjects.length = toyMapF.hitObjects.length ∧
          m2.hitObjects.map sliderCurve = toyMapF.hitObjects.map sliderCurve := by
  obtain ⟨t, ht⟩ := toyMapF_encodes
  obtain ⟨st, h1, hall⟩ := roundtrip_curves_partial ZC.mapLaws zc_epsLaws zc_groupLaws nearLaw_zc toyMapF toyMapF_rep
    toyMapF_timeline_hyps t ht toyMapF_finalized toyMapF_pathStable
  exact ⟨t, ht, st, h1, fun m2 h2 => ⟨(hall m2 h2).1, (hall m2 h2).2.1⟩⟩

end Rosu.C02
