/-
  Props/C11General.lean — C11 for the `[General]` section (`Model/General.lean`, `parseGeneral`) and the
  table form of one whole section (`[Metadata]`, DESIGN 5.11 `section_eq_table`).

  * `general_reject_no_effect`, `general_unknown_key_noop`
  * flag semantics for the five flag keys: an accepted record stores `true` iff the value parses
    (`i32Parse`, i.e. within ±(2³¹−1)) to exactly 1 and `false` for every other in-range integer
  * the admissible values of `Mode`, `Countdown`, `SampleSet`
  * `AudioFilename` is standardised (backslashes become slashes, nothing else changes),
    `AudioLeadIn` is parsed as an `i32` and then converted
  * last valid occurrence wins for `Mode` and `PreviewTime` (instances of `last_valid_wins_generic`)
  * `[Metadata]`: `parseMetadata st line = applyRule (metadataRule (kvSplit line)) st` for an explicit
    table `metadataTable`, and the frame property derived from it.
-/
import RosuModel.Model.General
import RosuModel.Props.C11
import RosuModel.Lemmas.ToyScalar
namespace Rosu.C11
open Rosu Scalar

variable {F P : Type} [Scalar F] [Scalar P]

/-! ### helper lemmas on chains of `if … then some _ else …` (the shape of every key table) -/

theorem ite_chain {α : Type} {c : Prop} [Decidable c] {a : α} {r : Option α} {x : α}
    (h : (if c then some a else r) = some x) : (c ∧ a = x) ∨ (¬ c ∧ r = some x) := by
  by_cases hc : c <;> simp_all

theorem or_beq {a x y : Str} (h : (a == x || a == y) = true) : a = x ∨ a = y := by
  rcases Bool.or_eq_true _ _ ▸ h with h | h
  · exact Or.inl (eq_of_beq h)
  · exact Or.inr (eq_of_beq h)

/-! ### the key table of `[General]` -/

/-- the key text of every `GeneralKey` (the variant names of `section_keys!`). -/
def generalKeyText : GeneralKey → Str
  | .audioFilename => str "AudioFilename" | .audioLeadIn => str "AudioLeadIn" | .previewTime => str "PreviewTime"
  | .sampleSet => str "SampleSet" | .sampleVolume => str "SampleVolume" | .stackLeniency => str "StackLeniency"
  | .mode => str "Mode" | .letterboxInBreaks => str "LetterboxInBreaks" | .specialStyle => str "SpecialStyle"
  | .widescreenStoryboard => str "WidescreenStoryboard" | .epilepsyWarning => str "EpilepsyWarning"
  | .samplesMatchPlaybackRate => str "SamplesMatchPlaybackRate" | .countdown => str "Countdown"
  | .countdownOffset => str "CountdownOffset"

theorem generalKey_parse_text (key : GeneralKey) : GeneralKey.parse (generalKeyText key) = some key := by
  cases key <;> decide

/-- a key text selects a key iff it is exactly (case-sensitively) that key's name. -/
theorem generalKey_parse_eq (k : Str) (key : GeneralKey) :
    GeneralKey.parse k = some key ↔ k = generalKeyText key := by
  constructor
  · intro h
    unfold GeneralKey.parse at h
    iterate 14 (rcases ite_chain h with ⟨hc, rfl⟩ | ⟨-, h⟩; · exact eq_of_beq hc)
    cases h
  · intro h; subst h; exact generalKey_parse_text key

theorem generalKey_parse_none (k : Str) : GeneralKey.parse k = none ↔ ∀ key : GeneralKey, k ≠ generalKeyText key := by
  constructor
  · intro h key e
    rw [(generalKey_parse_eq k key).mpr e] at h; cases h
  · intro h
    cases hk : GeneralKey.parse k with
    | none => rfl
    | some key => exact absurd ((generalKey_parse_eq k key).mp hk) (h key)

/-! ### rejected records and unknown keys -/

/-- **general_reject_no_effect**: a rejected `[General]` record leaves the state untouched
(the same statement is used at file level in `Props/C06File.lean`). -/
theorem general_reject_no_effect (st : GeneralState F P) (line : Str) (e : GeneralErr)
    (h : (parseGeneral st line).1 = .error e) : (parseGeneral st line).2 = st := by
  unfold parseGeneral withI32 at h ⊢
  dsimp only at h ⊢
  repeat' split at h
  all_goals first | (cases h; done) | skip
  all_goals (repeat' split) <;> first | rfl | (simp_all)

/-- **general_unknown_key_noop**: a line whose key text is not one of the fourteen key names
(this includes lines without a colon) is accepted and changes nothing. -/
theorem general_unknown_key_noop (st : GeneralState F P) (line : Str)
    (h : GeneralKey.parse (kvSplit (trimComment line)).1 = none) : parseGeneral st line = (.ok (), st) := by
  unfold parseGeneral
  simp only [h]

example : parseGeneral (GeneralState.default (F := Z) (P := Z)) (str "mode: 3") = (.ok (), GeneralState.default) := by
  apply general_unknown_key_noop; decide

/-! ### integer conversion facts -/

theorem i32ParseE_ok_iff (v : Str) (n : Int) : i32ParseE v = .ok n ↔ i32Parse v = some n := by
  rw [← i32ParseE_toOption]
  cases i32ParseE v <;> simp [Except.toOption]

theorem i32ParseE_error_iff (v : Str) : (∃ e, i32ParseE v = .error e) ↔ i32Parse v = none := by
  rw [← i32ParseE_toOption]
  cases i32ParseE v <;> simp [Except.toOption]

/-- "numbers must parse and lie within ±(2³¹−1)". -/
theorem i32Parse_range (v : Str) (n : Int) (h : i32Parse v = some n) : -i32Max ≤ n ∧ n ≤ i32Max := by
  unfold i32Parse i32ParseWithLimits at h
  split at h
  · split at h
    · cases h
    · split at h
      · cases h
      · cases h; omega
  · cases h

example : i32Parse (str " 12 ") = some 12 ∧ i32Parse (str "-2147483648") = none ∧ i32Parse (str "2147483648") = none
    ∧ i32Parse (str "1.5") = none ∧ i32Parse (str "+1") = some 1 ∧ i32Parse (str "01") = some 1 := by decide

/-! ### flags: true only for the value 1 -/

/-- the five flag records of `[General]`. -/
inductive Flag
  | letterboxInBreaks | specialStyle | widescreenStoryboard | epilepsyWarning | samplesMatchPlaybackRate
  deriving DecidableEq, Repr

def Flag.key : Flag → GeneralKey
  | .letterboxInBreaks => .letterboxInBreaks | .specialStyle => .specialStyle
  | .widescreenStoryboard => .widescreenStoryboard | .epilepsyWarning => .epilepsyWarning
  | .samplesMatchPlaybackRate => .samplesMatchPlaybackRate

def Flag.get (fl : Flag) (st : GeneralState F P) : Bool :=
  match fl with
  | .letterboxInBreaks => st.letterboxInBreaks | .specialStyle => st.specialStyle
  | .widescreenStoryboard => st.widescreenStoryboard | .epilepsyWarning => st.epilepsyWarning
  | .samplesMatchPlaybackRate => st.samplesMatchPlaybackRate

def Flag.set (fl : Flag) (b : Bool) (st : GeneralState F P) : GeneralState F P :=
  match fl with
  | .letterboxInBreaks => { st with letterboxInBreaks := b } | .specialStyle => { st with specialStyle := b }
  | .widescreenStoryboard => { st with widescreenStoryboard := b } | .epilepsyWarning => { st with epilepsyWarning := b }
  | .samplesMatchPlaybackRate => { st with samplesMatchPlaybackRate := b }

omit [Scalar F] [Scalar P] in
/-- setting a flag changes that flag only: every other flag keeps its value … -/
theorem flag_get_set (fl fl' : Flag) (b : Bool) (st : GeneralState F P) :
    fl'.get (fl.set b st) = if fl' = fl then b else fl'.get st := by
  cases fl <;> cases fl' <;> rfl

omit [Scalar F] [Scalar P] in
/-- … and so does every non-flag field. -/
theorem flag_set_frame (fl : Flag) (b : Bool) (st : GeneralState F P) :
    (fl.set b st).audioFile = st.audioFile ∧ (fl.set b st).audioLeadIn = st.audioLeadIn ∧
    (fl.set b st).previewTime = st.previewTime ∧ (fl.set b st).defaultSampleBank = st.defaultSampleBank ∧
    (fl.set b st).defaultSampleVolume = st.defaultSampleVolume ∧ (fl.set b st).stackLeniency = st.stackLeniency ∧
    (fl.set b st).mode = st.mode ∧ (fl.set b st).countdown = st.countdown ∧
    (fl.set b st).countdownOffset = st.countdownOffset := by
  cases fl <;> exact ⟨rfl, rfl, rfl, rfl, rfl, rfl, rfl, rfl, rfl⟩

/-- what a flag record does: the value is parsed as an `i32` within ±(2³¹−1); a valid value `n` stores
`n == 1`, an invalid one is rejected. -/
theorem flag_record (fl : Flag) (st : GeneralState F P) (line v : Str)
    (hk : kvSplit (trimComment line) = (generalKeyText fl.key, v)) :
    parseGeneral st line =
      match i32ParseE v with
      | .ok n => (.ok (), fl.set (n == 1) st)
      | .error e => (.error (.number e), st) := by
  unfold parseGeneral
  simp only [hk, generalKey_parse_text]
  cases fl <;> simp only [Flag.key, withI32, Flag.set] <;> cases i32ParseE v <;> rfl

/-- **flag semantics (1)**: a flag record whose value parses to the integer `n` is accepted and sets
the flag to `true` iff `n = 1` — so to `false` for *every other* in-range integer — leaving every
other flag alone. -/
theorem flag_value (fl : Flag) (st : GeneralState F P) (line v : Str) (n : Int)
    (hk : kvSplit (trimComment line) = (generalKeyText fl.key, v)) (hv : i32Parse v = some n) :
    (parseGeneral st line).1 = .ok () ∧
    (fl.get (parseGeneral st line).2 = true ↔ n = 1) ∧
    (n ≠ 1 → fl.get (parseGeneral st line).2 = false) ∧
    ∀ fl', fl' ≠ fl → fl'.get (parseGeneral st line).2 = fl'.get st := by
  rw [flag_record fl st line v hk, (i32ParseE_ok_iff v n).mpr hv]
  refine ⟨rfl, ?_, ?_, ?_⟩
  · simp [flag_get_set]
  · intro hn; simp [flag_get_set, hn]
  · intro fl' hne; simp [flag_get_set, hne]

/-- **flag semantics (2)**: after an *accepted* flag record the flag is `true` iff the value parses to
exactly 1. -/
theorem flag_true_iff (fl : Flag) (st : GeneralState F P) (line v : Str)
    (hk : kvSplit (trimComment line) = (generalKeyText fl.key, v))
    (hok : (parseGeneral st line).1 = .ok ()) :
    fl.get (parseGeneral st line).2 = true ↔ i32Parse v = some 1 := by
  cases hv : i32Parse v with
  | none =>
    obtain ⟨e, he⟩ := (i32ParseE_error_iff v).mpr hv
    rw [flag_record fl st line v hk, he] at hok
    cases hok
  | some n =>
    rw [(flag_value fl st line v n hk hv).2.1]
    constructor
    · intro h; rw [h]
    · intro h; cases h; rfl

/-- **flag semantics (3)**: a value that is not an in-range integer rejects the record; the flag (and
everything else) keeps its value. -/
theorem flag_invalid_rejected (fl : Flag) (st : GeneralState F P) (line v : Str)
    (hk : kvSplit (trimComment line) = (generalKeyText fl.key, v)) (hv : i32Parse v = none) :
    (∃ e, (parseGeneral st line).1 = .error e) ∧ (parseGeneral st line).2 = st := by
  obtain ⟨e, he⟩ := (i32ParseE_error_iff v).mpr hv
  rw [flag_record fl st line v hk, he]
  exact ⟨⟨_, rfl⟩, rfl⟩

-- non-vacuity: `1`, ` 1 `, `+1`, `01` set the flag; `0`, `2`, `-1`, `11` clear it; `true`, `1.0` are rejected.
example : (parseGeneral (GeneralState.default (F := Z) (P := Z)) (str "EpilepsyWarning: 1")).2.epilepsyWarning = true
    ∧ (parseGeneral (GeneralState.default (F := Z) (P := Z)) (str "EpilepsyWarning:+1 // c")).2.epilepsyWarning = true
    ∧ (parseGeneral (GeneralState.default (F := Z) (P := Z)) (str "EpilepsyWarning:01")).2.epilepsyWarning = true := by
  decide
example : ∀ v ∈ [str "0", str "2", str "-1", str "11", str "2147483647"],
    (parseGeneral ({ GeneralState.default (F := Z) (P := Z) with epilepsyWarning := true })
      (str "EpilepsyWarning:" ++ v)).2.epilepsyWarning = false := by decide
example : ∀ v ∈ [str "true", str "1.0", str "", str "2147483648"],
    (parseGeneral ({ GeneralState.default (F := Z) (P := Z) with epilepsyWarning := true })
      (str "EpilepsyWarning:" ++ v)).2.epilepsyWarning = true := by decide
example : kvSplit (trimComment (str "WidescreenStoryboard: 1 // sb")) = (generalKeyText Flag.widescreenStoryboard.key, str "1")
    ∧ i32Parse (str "1") = some 1 := by decide

/-! ### Mode, Countdown, SampleSet: the admissible values -/

/-- **mode_values**: only the texts `0`, `1`, `2`, `3` are game modes (no sign, no padding zero, no names). -/
theorem mode_values (v : Str) (m : GameMode) :
    GameMode.parse v = some m ↔
      (v = str "0" ∧ m = .osu) ∨ (v = str "1" ∧ m = .taiko) ∨ (v = str "2" ∧ m = .catch) ∨ (v = str "3" ∧ m = .mania) := by
  constructor
  · intro h
    unfold GameMode.parse at h
    rcases ite_chain h with ⟨hc, rfl⟩ | ⟨-, h⟩
    · exact Or.inl ⟨eq_of_beq hc, rfl⟩
    rcases ite_chain h with ⟨hc, rfl⟩ | ⟨-, h⟩
    · exact Or.inr (Or.inl ⟨eq_of_beq hc, rfl⟩)
    rcases ite_chain h with ⟨hc, rfl⟩ | ⟨-, h⟩
    · exact Or.inr (Or.inr (Or.inl ⟨eq_of_beq hc, rfl⟩))
    rcases ite_chain h with ⟨hc, rfl⟩ | ⟨-, h⟩
    · exact Or.inr (Or.inr (Or.inr ⟨eq_of_beq hc, rfl⟩))
    cases h
  · rintro (⟨rfl, rfl⟩ | ⟨rfl, rfl⟩ | ⟨rfl, rfl⟩ | ⟨rfl, rfl⟩) <;> decide

theorem mode_record (st : GeneralState F P) (line v : Str)
    (hk : kvSplit (trimComment line) = (str "Mode", v)) :
    parseGeneral st line =
      match GameMode.parse v with
      | some m => (.ok (), { st with mode := m })
      | none => (.error .mode, st) := by
  unfold parseGeneral
  simp only [hk, show GeneralKey.parse (str "Mode") = some .mode from by decide]
  cases GameMode.parse v <;> rfl

example : GameMode.parse (str "3") = some .mania ∧ GameMode.parse (str "4") = none ∧ GameMode.parse (str "03") = none
    ∧ GameMode.parse (str "+1") = none ∧ GameMode.parse (str "Taiko") = none := by decide

/-- **countdown_values**: the numbers `0`–`3` and the four variant names. -/
theorem countdown_values (v : Str) (c : CountdownType) :
    CountdownType.parse v = some c ↔
      (c = .none ∧ (v = str "0" ∨ v = str "None")) ∨ (c = .normal ∧ (v = str "1" ∨ v = str "Normal")) ∨
      (c = .halfSpeed ∧ (v = str "2" ∨ v = str "Half speed")) ∨
      (c = .doubleSpeed ∧ (v = str "3" ∨ v = str "Double speed")) := by
  constructor
  · intro h
    unfold CountdownType.parse at h
    rcases ite_chain h with ⟨hc, rfl⟩ | ⟨-, h⟩
    · exact Or.inl ⟨rfl, or_beq hc⟩
    rcases ite_chain h with ⟨hc, rfl⟩ | ⟨-, h⟩
    · exact Or.inr (Or.inl ⟨rfl, or_beq hc⟩)
    rcases ite_chain h with ⟨hc, rfl⟩ | ⟨-, h⟩
    · exact Or.inr (Or.inr (Or.inl ⟨rfl, or_beq hc⟩))
    rcases ite_chain h with ⟨hc, rfl⟩ | ⟨-, h⟩
    · exact Or.inr (Or.inr (Or.inr ⟨rfl, or_beq hc⟩))
    cases h
  · rintro (⟨rfl, rfl | rfl⟩ | ⟨rfl, rfl | rfl⟩ | ⟨rfl, rfl | rfl⟩ | ⟨rfl, rfl | rfl⟩) <;> decide

theorem countdown_record (st : GeneralState F P) (line v : Str)
    (hk : kvSplit (trimComment line) = (str "Countdown", v)) :
    parseGeneral st line =
      match CountdownType.parse v with
      | some c => (.ok (), { st with countdown := c })
      | none => (.error .countdownType, st) := by
  unfold parseGeneral
  simp only [hk, show GeneralKey.parse (str "Countdown") = some .countdown from by decide]
  cases CountdownType.parse v <;> rfl

/-- **sample_set_values**: the numbers `0`–`3` and the four variant names. -/
theorem sample_set_values (v : Str) (b : SampleBank) :
    SampleBank.parse v = some b ↔
      (b = .none ∧ (v = str "0" ∨ v = str "None")) ∨ (b = .normal ∧ (v = str "1" ∨ v = str "Normal")) ∨
      (b = .soft ∧ (v = str "2" ∨ v = str "Soft")) ∨ (b = .drum ∧ (v = str "3" ∨ v = str "Drum")) := by
  constructor
  · intro h
    unfold SampleBank.parse at h
    rcases ite_chain h with ⟨hc, rfl⟩ | ⟨-, h⟩
    · exact Or.inl ⟨rfl, or_beq hc⟩
    rcases ite_chain h with ⟨hc, rfl⟩ | ⟨-, h⟩
    · exact Or.inr (Or.inl ⟨rfl, or_beq hc⟩)
    rcases ite_chain h with ⟨hc, rfl⟩ | ⟨-, h⟩
    · exact Or.inr (Or.inr (Or.inl ⟨rfl, or_beq hc⟩))
    rcases ite_chain h with ⟨hc, rfl⟩ | ⟨-, h⟩
    · exact Or.inr (Or.inr (Or.inr ⟨rfl, or_beq hc⟩))
    cases h
  · rintro (⟨rfl, rfl | rfl⟩ | ⟨rfl, rfl | rfl⟩ | ⟨rfl, rfl | rfl⟩ | ⟨rfl, rfl | rfl⟩) <;> decide

theorem sample_set_record (st : GeneralState F P) (line v : Str)
    (hk : kvSplit (trimComment line) = (str "SampleSet", v)) :
    parseGeneral st line =
      match SampleBank.parse v with
      | some b => (.ok (), { st with defaultSampleBank := b })
      | none => (.error .sampleBank, st) := by
  unfold parseGeneral
  simp only [hk, show GeneralKey.parse (str "SampleSet") = some .sampleSet from by decide]
  cases SampleBank.parse v <;> rfl

example : CountdownType.parse (str "Half speed") = some .halfSpeed ∧ CountdownType.parse (str "half speed") = none
    ∧ SampleBank.parse (str "Soft") = some .soft ∧ SampleBank.parse (str "4") = none := by decide

/-! ### AudioFilename, AudioLeadIn -/

theorem audio_filename_record (st : GeneralState F P) (line v : Str)
    (hk : kvSplit (trimComment line) = (str "AudioFilename", v)) :
    parseGeneral st line = (.ok (), { st with audioFile := toStandardizedPath v }) := by
  unfold parseGeneral
  simp only [hk, show GeneralKey.parse (str "AudioFilename") = some .audioFilename from by decide]

/-- **audio_filename_standardised**: the stored name is the value with every backslash replaced by a
slash and nothing else changed (same length, position by position). -/
theorem audio_filename_standardised (s : Str) :
    (toStandardizedPath s).length = s.length ∧
    (∀ i (h : i < s.length), (toStandardizedPath s)[i]? = some (if s[i] = '\\' then '/' else s[i])) ∧
    '\\' ∉ toStandardizedPath s ∧
    ('\\' ∉ s → toStandardizedPath s = s) := by
  unfold toStandardizedPath replaceChar
  refine ⟨by simp, ?_, ?_, ?_⟩
  · intro i h
    simp [h]
  · intro hmem
    rcases List.mem_map.mp hmem with ⟨c, _, hc⟩
    by_cases hb : c = '\\'
    · subst hb; simp at hc
    · have : (c == '\\') = false := by simpa using hb
      simp only [this, Bool.false_eq_true, if_false] at hc
      exact hb hc
  · intro hno
    induction s with
    | nil => rfl
    | cons c cs ih =>
      have hc : c ≠ '\\' := by intro e; exact hno (by simp [e])
      have hcs : '\\' ∉ cs := by intro e; exact hno (by simp [e])
      have : (c == '\\') = false := by simpa using hc
      simp only [List.map_cons, this, Bool.false_eq_true, if_false, ih hcs]

example : toStandardizedPath (str "C:\\Music\\a b.mp3") = str "C:/Music/a b.mp3" := by decide

/-- **audio_lead_in_integral**: the value is parsed as an `i32` within ±(2³¹−1) (so `1.5` is rejected) and
then converted to the float field. -/
theorem audio_lead_in_integral (st : GeneralState F P) (line v : Str)
    (hk : kvSplit (trimComment line) = (str "AudioLeadIn", v)) :
    parseGeneral st line =
      match i32ParseE v with
      | .ok n => (.ok (), { st with audioLeadIn := Scalar.ofInt n })
      | .error e => (.error (.number e), st) := by
  unfold parseGeneral
  simp only [hk, show GeneralKey.parse (str "AudioLeadIn") = some .audioLeadIn from by decide, withI32]
  cases i32ParseE v <;> rfl

/-- an accepted `AudioLeadIn` record stores the image of an integer within ±(2³¹−1). -/
theorem audio_lead_in_accepted (st : GeneralState F P) (line v : Str)
    (hk : kvSplit (trimComment line) = (str "AudioLeadIn", v)) (hok : (parseGeneral st line).1 = .ok ()) :
    ∃ n : Int, i32Parse v = some n ∧ -i32Max ≤ n ∧ n ≤ i32Max ∧
      (parseGeneral st line).2.audioLeadIn = Scalar.ofInt n := by
  rw [audio_lead_in_integral st line v hk] at hok ⊢
  cases h : i32ParseE v with
  | error e => rw [h] at hok; cases hok
  | ok n =>
    have hn := (i32ParseE_ok_iff v n).mp h
    exact ⟨n, hn, (i32Parse_range v n hn).1, (i32Parse_range v n hn).2, rfl⟩

example : (parseGeneral (GeneralState.default (F := Z) (P := Z)) (str "AudioLeadIn: 1500")).2.audioLeadIn = ⟨1500⟩
    ∧ (parseGeneral (GeneralState.default (F := Z) (P := Z)) (str "AudioLeadIn: 1.5")).1 = .error (.number .invalidInteger) :=
  ⟨by decide, rfl⟩

/-! ### the last valid occurrence wins (instances of `last_valid_wins_generic`) -/

/-- `parseGeneral` in the `state × ok` shape of the other sections. -/
def generalStep (st : GeneralState F P) (l : Str) : GeneralState F P × Bool :=
  ((parseGeneral st l).2, match (parseGeneral st l).1 with | .ok _ => true | .error _ => false)

/-- what a `[General]` line says about the mode. -/
def modeOf (l : Str) : Option GameMode :=
  if (kvSplit (trimComment l)).1 == str "Mode" then GameMode.parse (kvSplit (trimComment l)).2 else none

/-- what a `[General]` line says about the preview time. -/
def previewTimeOf (l : Str) : Option Int :=
  if (kvSplit (trimComment l)).1 == str "PreviewTime" then i32Parse (kvSplit (trimComment l)).2 else none

theorem mode_step (s : GeneralState F P) (l : Str) : (parseGeneral s l).2.mode = (modeOf l).getD s.mode := by
  unfold parseGeneral modeOf
  generalize kvSplit (trimComment l) = kv
  obtain ⟨k, v⟩ := kv
  dsimp only
  by_cases hm : k = str "Mode"
  · subst hm
    simp only [show GeneralKey.parse (str "Mode") = some .mode from by decide, beq_self_eq_true, if_true]
    cases GameMode.parse v <;> rfl
  · have hb : (k == str "Mode") = false := by simpa using hm
    simp only [hb, Bool.false_eq_true, if_false, Option.getD_none]
    cases hk : GeneralKey.parse k with
    | none => rfl
    | some key =>
      cases key
      case mode => exact absurd ((generalKey_parse_eq k _).mp hk) hm
      all_goals first | rfl | (simp only [withI32]; split <;> rfl)

theorem preview_time_step (s : GeneralState F P) (l : Str) :
    (parseGeneral s l).2.previewTime = (previewTimeOf l).getD s.previewTime := by
  unfold parseGeneral previewTimeOf
  generalize kvSplit (trimComment l) = kv
  obtain ⟨k, v⟩ := kv
  dsimp only
  by_cases hm : k = str "PreviewTime"
  · subst hm
    simp only [show GeneralKey.parse (str "PreviewTime") = some .previewTime from by decide, beq_self_eq_true,
      if_true, withI32, ← i32ParseE_toOption]
    cases i32ParseE v <;> rfl
  · have hb : (k == str "PreviewTime") = false := by simpa using hm
    simp only [hb, Bool.false_eq_true, if_false, Option.getD_none]
    cases hk : GeneralKey.parse k with
    | none => rfl
    | some key =>
      cases key
      case previewTime => exact absurd ((generalKey_parse_eq k _).mp hk) hm
      all_goals first | rfl | (simp only [withI32]; split <;> rfl)

/-- **general_last_valid_wins (Mode)**: after any sequence of `[General]` lines the mode is the one of
the last `Mode` record with an admissible value, or the initial one. -/
theorem general_mode_last_valid_wins (st : GeneralState F P) (ls : List Str) :
    (runSection generalStep st ls).mode = lastValid modeOf st.mode ls :=
  last_valid_wins_generic generalStep (fun g => g.mode) modeOf (fun s l => mode_step s l) st ls

/-- **general_last_valid_wins (PreviewTime)**. -/
theorem general_preview_time_last_valid_wins (st : GeneralState F P) (ls : List Str) :
    (runSection generalStep st ls).previewTime = lastValid previewTimeOf st.previewTime ls :=
  last_valid_wins_generic generalStep (fun g => g.previewTime) previewTimeOf (fun s l => preview_time_step s l) st ls

example : lastValid modeOf GameMode.osu [str "Mode: 1", str "Mode: 7", str "PreviewTime: 3", str "Mode:2", str "Mode: x"]
    = GameMode.catch := by decide
example : lastValid previewTimeOf (-1) [str "PreviewTime: 10", str "PreviewTime: 1e3", str "PreviewTime : 20 // c"] = 20 := by
  decide

/-! ### `[Metadata]` as a table (DESIGN 5.11 `section_eq_table`) -/

/-- what the table says about one record. -/
inductive RuleOutcome (σ : Type)
  | unknown                     -- key not in the table: accepted, no effect
  | invalid                     -- key in the table, value does not convert: rejected, no effect
  | update (f : σ → σ)          -- key in the table, value converts: accepted, the field is set

/-- applying the outcome of a record to a section state (`state × ok`). -/
def applyRule {σ : Type} : RuleOutcome σ → σ → σ × Bool
  | .unknown, st => (st, true)
  | .invalid, st => (st, false)
  | .update f, st => (f st, true)

/-- conversion "text": the value as it stands (trimmed text after the first colon). -/
def textField {σ : Type} (set : Str → σ → σ) : Str → Option (σ → σ) := fun v => some (set v)
/-- conversion "integer": `i32` within ±(2³¹−1), anything else is invalid. -/
def intField {σ : Type} (set : Int → σ → σ) : Str → Option (σ → σ) := fun v => (i32Parse v).map set

/-- look a key text up in a table (exact, case-sensitive match; first entry wins). -/
def lookupKey {α : Type} (k : Str) : List (String × α) → Option α
  | [] => none
  | (name, a) :: rest => if k == str name then some a else lookupKey k rest

/-- a record `key : value` interpreted by a table. -/
def tableRule {σ : Type} (table : List (String × (Str → Option (σ → σ)))) (kv : Str × Str) : RuleOutcome σ :=
  match lookupKey kv.1 table with
  | none => .unknown
  | some conv =>
    match conv kv.2 with
    | none => .invalid
    | some f => .update f

/-- **the `[Metadata]` table**: key text ↦ conversion and field setter. -/
def metadataTable : List (String × (Str → Option (Metadata → Metadata))) :=
  [ ("Title",         textField fun v m => { m with title := v }),
    ("TitleUnicode",  textField fun v m => { m with titleUnicode := v }),
    ("Artist",        textField fun v m => { m with artist := v }),
    ("ArtistUnicode", textField fun v m => { m with artistUnicode := v }),
    ("Creator",       textField fun v m => { m with creator := v }),
    ("Version",       textField fun v m => { m with version := v }),
    ("Source",        textField fun v m => { m with source := v }),
    ("Tags",          textField fun v m => { m with tags := v }),
    ("BeatmapID",     intField fun n m => { m with beatmapId := n }),
    ("BeatmapSetID",  intField fun n m => { m with beatmapSetId := n }) ]

def metadataRule : Str × Str → RuleOutcome Metadata := tableRule metadataTable

def metadataKeyText : MetadataKey → Str
  | .title => str "Title" | .titleUnicode => str "TitleUnicode" | .artist => str "Artist"
  | .artistUnicode => str "ArtistUnicode" | .creator => str "Creator" | .version => str "Version"
  | .source => str "Source" | .tags => str "Tags" | .beatmapId => str "BeatmapID" | .beatmapSetId => str "BeatmapSetID"

theorem metadataKey_parse_text (key : MetadataKey) : MetadataKey.parse (metadataKeyText key) = some key := by
  cases key <;> decide

theorem metadataKey_parse_eq (k : Str) (key : MetadataKey) :
    MetadataKey.parse k = some key ↔ k = metadataKeyText key := by
  constructor
  · intro h
    unfold MetadataKey.parse at h
    iterate 10 (rcases ite_chain h with ⟨hc, rfl⟩ | ⟨-, h⟩; · exact eq_of_beq hc)
    cases h
  · intro h; subst h; exact metadataKey_parse_text key

theorem lookupKey_cons_ne {α : Type} (k : Str) (name : String) (a : α) (rest : List (String × α))
    (h : k ≠ str name) : lookupKey k ((name, a) :: rest) = lookupKey k rest := by
  have : (k == str name) = false := by simpa using h
  simp [lookupKey, this]

/-- a key text that `MetadataKey` does not know is not in the table. -/
theorem metadata_lookup_none (k : Str) (h : MetadataKey.parse k = none) : lookupKey k metadataTable = none := by
  have hne : ∀ key : MetadataKey, k ≠ metadataKeyText key := by
    intro key e; rw [(metadataKey_parse_eq k key).mpr e] at h; cases h
  unfold metadataTable
  rw [lookupKey_cons_ne k _ _ _ (hne .title), lookupKey_cons_ne k _ _ _ (hne .titleUnicode),
    lookupKey_cons_ne k _ _ _ (hne .artist), lookupKey_cons_ne k _ _ _ (hne .artistUnicode),
    lookupKey_cons_ne k _ _ _ (hne .creator), lookupKey_cons_ne k _ _ _ (hne .version),
    lookupKey_cons_ne k _ _ _ (hne .source), lookupKey_cons_ne k _ _ _ (hne .tags),
    lookupKey_cons_ne k _ _ _ (hne .beatmapId), lookupKey_cons_ne k _ _ _ (hne .beatmapSetId)]
  rfl

/-- **section_eq_table** for `[Metadata]`: the parser *is* the table — every line is split at the first
colon, the trimmed key text is looked up, the trimmed value converted as the table says, and the
one field of the entry is set; unknown keys are accepted no-ops, unconvertible values reject the
record without effect. -/
theorem metadata_eq_table (st : Metadata) (line : Str) :
    parseMetadata st line = applyRule (metadataRule (kvSplit line)) st := by
  unfold parseMetadata metadataRule tableRule
  generalize kvSplit line = kv
  obtain ⟨k, v⟩ := kv
  dsimp only
  cases hk : MetadataKey.parse k with
  | none => rw [metadata_lookup_none k hk]; rfl
  | some key =>
    have hkt := (metadataKey_parse_eq k key).mp hk
    subst hkt
    cases key
    case beatmapId =>
      rw [show lookupKey (metadataKeyText .beatmapId) metadataTable =
        some (intField fun n m => { m with beatmapId := n }) from rfl]
      simp only [intField]
      cases i32Parse v <;> rfl
    case beatmapSetId =>
      rw [show lookupKey (metadataKeyText .beatmapSetId) metadataTable =
        some (intField fun n m => { m with beatmapSetId := n }) from rfl]
      simp only [intField]
      cases i32Parse v <;> rfl
    all_goals rfl

example : parseMetadata Metadata.default (str "Title: Re:Zero") = ({ Metadata.default with title := str "Re:Zero" }, true)
    ∧ parseMetadata Metadata.default (str "BeatmapID: 2147483648") = (Metadata.default, false)
    ∧ parseMetadata Metadata.default (str "title: x") = (Metadata.default, true) := by decide

/-! ### consequences of the table: invalid values, frame -/

/-- **invalid_value_noop**, from the table: a known key whose value does not convert rejects the record
and leaves the state untouched. -/
theorem metadata_invalid_value_noop (st : Metadata) (line : Str) (conv : Str → Option (Metadata → Metadata))
    (hk : lookupKey (kvSplit line).1 metadataTable = some conv) (hv : conv (kvSplit line).2 = none) :
    parseMetadata st line = (st, false) := by
  rw [metadata_eq_table]
  unfold metadataRule tableRule
  simp only [hk, hv, applyRule]

/-- the ten fields of `Metadata`, named by their keys, as observations. -/
def fieldOf : MetadataKey → Metadata → Str ⊕ Int
  | .title, m => .inl m.title | .titleUnicode, m => .inl m.titleUnicode | .artist, m => .inl m.artist
  | .artistUnicode, m => .inl m.artistUnicode | .creator, m => .inl m.creator | .version, m => .inl m.version
  | .source, m => .inl m.source | .tags, m => .inl m.tags | .beatmapId, m => .inr m.beatmapId
  | .beatmapSetId, m => .inr m.beatmapSetId

theorem lookupKey_mem {α : Type} (k : Str) (t : List (String × α)) (a : α) (h : lookupKey k t = some a) :
    ∃ name, (name, a) ∈ t ∧ k = str name := by
  induction t with
  | nil => cases h
  | cons e rest ih =>
    obtain ⟨name, b⟩ := e
    unfold lookupKey at h
    by_cases hc : (k == str name) = true
    · rw [if_pos hc] at h
      cases h
      exact ⟨name, by simp, eq_of_beq hc⟩
    · rw [if_neg hc] at h
      obtain ⟨n, hn, hk⟩ := ih h
      exact ⟨n, by simp [hn], hk⟩

/-- every entry of the table only ever writes the field it is named after. -/
theorem metadataTable_frame : ∀ e ∈ metadataTable, ∀ (v : Str) (f : Metadata → Metadata), e.2 v = some f →
    ∀ key : MetadataKey, str e.1 ≠ metadataKeyText key → ∀ m, fieldOf key (f m) = fieldOf key m := by
  intro e he
  simp only [metadataTable, List.mem_cons, List.not_mem_nil, or_false] at he
  rcases he with rfl | rfl | rfl | rfl | rfl | rfl | rfl | rfl | rfl | rfl
  all_goals
    intro v f hf key hne m
    first
      | (simp only [textField, Option.some.injEq] at hf
         subst hf
         cases key <;> first | rfl | exact absurd rfl hne)
      | (simp only [intField] at hf
         cases hi : i32Parse v with
         | none => rw [hi] at hf; cases hf
         | some n =>
           rw [hi] at hf
           simp only [Option.map_some, Option.some.injEq] at hf
           subst hf
           cases key <;> first | rfl | exact absurd rfl hne)

/-- **metadata_frame**: a `[Metadata]` record changes at most its own field — every field whose key
name is not the record's key text keeps its value, whatever the record is (valid, invalid, unknown). -/
theorem metadata_frame (st : Metadata) (line : Str) (key : MetadataKey)
    (hne : (kvSplit line).1 ≠ metadataKeyText key) :
    fieldOf key (parseMetadata st line).1 = fieldOf key st := by
  rw [metadata_eq_table]
  unfold metadataRule tableRule
  cases hl : lookupKey (kvSplit line).1 metadataTable with
  | none => rfl
  | some conv =>
    obtain ⟨name, hmem, hname⟩ := lookupKey_mem _ _ _ hl
    dsimp only
    cases hc : conv (kvSplit line).2 with
    | none => rfl
    | some f =>
      exact metadataTable_frame (name, conv) hmem _ f hc key (by rw [← hname]; exact hne) st

example : (kvSplit (str "Artist: x")).1 ≠ metadataKeyText .title := by decide

/-- the own field *is* set: an accepted record stores the converted value in the field of its key. -/
theorem metadata_sets_own_field (st : Metadata) (line v : Str) (key : MetadataKey)
    (hk : kvSplit line = (metadataKeyText key, v)) :
    (parseMetadata st line).2 = true →
    fieldOf key (parseMetadata st line).1 =
      (match key with
       | .beatmapId | .beatmapSetId => .inr ((i32Parse v).getD 0)
       | _ => .inl v) := by
  unfold parseMetadata
  simp only [hk, metadataKey_parse_text]
  cases key
  case beatmapId => dsimp only; cases i32Parse v <;> (intro h; first | rfl | cases h)
  case beatmapSetId => dsimp only; cases i32Parse v <;> (intro h; first | rfl | cases h)
  all_goals (intro _; rfl)

/-! ### `[General]` as a table (all fourteen keys) -/

/-- applying a table entry whose conversion may fail with an error kind (`[General]` reports which
conversion failed); `none` = key not in the table. -/
def applyRuleE {σ ε : Type} : Option (Except ε (σ → σ)) → σ → Except ε Unit × σ
  | none, st => (.ok (), st)
  | some (.error e), st => (.error e, st)
  | some (.ok f), st => (.ok (), f st)

/-- conversion "text": the value as it stands. -/
def gText (set : Str → GeneralState F P → GeneralState F P) :
    Str → Except GeneralErr (GeneralState F P → GeneralState F P) := fun v => .ok (set v)
/-- conversion "integer": `i32` within ±(2³¹−1). -/
def gInt (set : Int → GeneralState F P → GeneralState F P) :
    Str → Except GeneralErr (GeneralState F P → GeneralState F P) :=
  fun v => match i32ParseE v with | .ok n => .ok (set n) | .error e => .error (.number e)
/-- conversion "flag": integer as above, then `== 1`. -/
def gFlag (set : Bool → GeneralState F P → GeneralState F P) :
    Str → Except GeneralErr (GeneralState F P → GeneralState F P) := gInt fun n => set (n == 1)
/-- conversion "f32": finite-range float (`|x| ≤ 2³¹−1`, not NaN). -/
def gFloat (set : P → GeneralState F P → GeneralState F P) :
    Str → Except GeneralErr (GeneralState F P → GeneralState F P) :=
  fun v => match (scalarParse v : Except NumErr P) with | .ok x => .ok (set x) | .error e => .error (.number e)
/-- conversion "enumeration": one of the admissible texts (`mode_values`, `countdown_values`, `sample_set_values`). -/
def gEnum {α : Type} (parse : Str → Option α) (err : GeneralErr) (set : α → GeneralState F P → GeneralState F P) :
    Str → Except GeneralErr (GeneralState F P → GeneralState F P) :=
  fun v => match parse v with | some a => .ok (set a) | none => .error err

/-- **the `[General]` table**: key text ↦ conversion and field setter. -/
def generalTable : List (String × (Str → Except GeneralErr (GeneralState F P → GeneralState F P))) :=
  [ ("AudioFilename",            gText fun v st => { st with audioFile := toStandardizedPath v }),
    ("AudioLeadIn",              gInt fun n st => { st with audioLeadIn := Scalar.ofInt n }),
    ("PreviewTime",              gInt fun n st => { st with previewTime := n }),
    ("SampleSet",                gEnum SampleBank.parse .sampleBank fun b st => { st with defaultSampleBank := b }),
    ("SampleVolume",             gInt fun n st => { st with defaultSampleVolume := n }),
    ("StackLeniency",            gFloat fun x st => { st with stackLeniency := x }),
    ("Mode",                     gEnum GameMode.parse .mode fun m st => { st with mode := m }),
    ("LetterboxInBreaks",        gFlag fun b st => { st with letterboxInBreaks := b }),
    ("SpecialStyle",             gFlag fun b st => { st with specialStyle := b }),
    ("WidescreenStoryboard",     gFlag fun b st => { st with widescreenStoryboard := b }),
    ("EpilepsyWarning",          gFlag fun b st => { st with epilepsyWarning := b }),
    ("SamplesMatchPlaybackRate", gFlag fun b st => { st with samplesMatchPlaybackRate := b }),
    ("Countdown",                gEnum CountdownType.parse .countdownType fun c st => { st with countdown := c }),
    ("CountdownOffset",          gInt fun n st => { st with countdownOffset := n }) ]

theorem lookupKey_cons_eq {α : Type} (name : String) (a : α) (rest : List (String × α)) :
    lookupKey (str name) ((name, a) :: rest) = some a := by
  simp [lookupKey]

theorem general_lookup_none (k : Str) (h : GeneralKey.parse k = none) :
    lookupKey k (generalTable (F := F) (P := P)) = none := by
  have hne := (generalKey_parse_none k).mp h
  unfold generalTable
  rw [lookupKey_cons_ne k _ _ _ (hne .audioFilename), lookupKey_cons_ne k _ _ _ (hne .audioLeadIn),
    lookupKey_cons_ne k _ _ _ (hne .previewTime), lookupKey_cons_ne k _ _ _ (hne .sampleSet),
    lookupKey_cons_ne k _ _ _ (hne .sampleVolume), lookupKey_cons_ne k _ _ _ (hne .stackLeniency),
    lookupKey_cons_ne k _ _ _ (hne .mode), lookupKey_cons_ne k _ _ _ (hne .letterboxInBreaks),
    lookupKey_cons_ne k _ _ _ (hne .specialStyle), lookupKey_cons_ne k _ _ _ (hne .widescreenStoryboard),
    lookupKey_cons_ne k _ _ _ (hne .epilepsyWarning), lookupKey_cons_ne k _ _ _ (hne .samplesMatchPlaybackRate),
    lookupKey_cons_ne k _ _ _ (hne .countdown), lookupKey_cons_ne k _ _ _ (hne .countdownOffset)]
  rfl

/-- **section_eq_table** for `[General]`: comment cut off, split at the first colon, key looked up
(exact match), value converted as the table says, the entry's field set; an unknown key is an accepted
no-op, a value that does not convert rejects the record with the conversion's error and no effect. -/
theorem general_eq_table (st : GeneralState F P) (line : Str) :
    parseGeneral st line =
      applyRuleE ((lookupKey (kvSplit (trimComment line)).1 generalTable).map (· (kvSplit (trimComment line)).2)) st := by
  unfold parseGeneral
  generalize kvSplit (trimComment line) = kv
  obtain ⟨k, v⟩ := kv
  dsimp only
  cases hk : GeneralKey.parse k with
  | none => rw [general_lookup_none k hk]; rfl
  | some key =>
    have hkt := (generalKey_parse_eq k key).mp hk
    subst hkt
    cases key <;> simp only [generalKeyText, generalTable] <;>
      (repeat (first | rw [lookupKey_cons_eq] | rw [lookupKey_cons_ne _ _ _ _ (by decide)])) <;>
      simp only [Option.map_some, gText, gInt, gFlag, gFloat, gEnum, withI32] <;>
      first
        | rfl
        | (cases i32ParseE v <;> rfl)
        | (cases SampleBank.parse v <;> rfl)
        | (cases GameMode.parse v <;> rfl)
        | (cases CountdownType.parse v <;> rfl)
        | (cases (scalarParse v : Except NumErr P) <;> rfl)

/-- from the table: whatever the record, a `[General]` line either leaves the state alone or applies
the one setter of its key's entry. -/
theorem general_step_cases (st : GeneralState F P) (line : Str) :
    (parseGeneral st line).2 = st ∨
    ∃ name conv f, (name, conv) ∈ generalTable (F := F) (P := P) ∧ (kvSplit (trimComment line)).1 = str name ∧
      conv (kvSplit (trimComment line)).2 = .ok f ∧ parseGeneral st line = (.ok (), f st) := by
  rw [general_eq_table]
  cases hl : lookupKey (kvSplit (trimComment line)).1 (generalTable (F := F) (P := P)) with
  | none => exact Or.inl rfl
  | some conv =>
    obtain ⟨name, hmem, hname⟩ := lookupKey_mem _ _ _ hl
    simp only [Option.map_some]
    cases hc : conv (kvSplit (trimComment line)).2 with
    | error e => exact Or.inl rfl
    | ok f => exact Or.inr ⟨name, conv, f, hmem, hname, hc, rfl⟩

example : (parseGeneral (GeneralState.default (F := Z) (P := Z)) (str "StackLeniency: 3")).2.stackLeniency = ⟨3⟩
    ∧ (parseGeneral (GeneralState.default (F := Z) (P := Z)) (str "SampleVolume: 40 // quiet")).2.defaultSampleVolume = 40
    ∧ (parseGeneral (GeneralState.default (F := Z) (P := Z)) (str "CountdownOffset: x")).1 = .error (.number .invalidInteger) :=
  ⟨by decide, by decide, rfl⟩

end Rosu.C11
