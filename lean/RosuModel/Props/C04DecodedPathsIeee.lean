/-
  Props/C04DecodedPathsIeee.lean — the laws of Props/C04DecodedPaths.lean (`PathLaws`) on the driver's IEEE instances
  `F = Float`, `P = Float32`, as far as established:

  * `letter_float` — `PathLaws.letter` is a THEOREM of `Float`: a piece that starts with an ASCII letter does not read as a
    number within ±131072. Rust's `f64::from_str` does read `nan`, `inf`, `infinity` (any case) — NaN fails the NaN test of
    `parse_with_limits`, the infinities its limit test; every other text starting with a letter is not a float literal.
  * `pathLaws_ieee_of_eq` — hence `PathLaws Float Float32` follows from its `eq` field alone (`EqLaws` on the positions
    `C14.CtrlPos`: integers of magnitude ≤ 2¹⁸ in `f32`, see `C14.ctrlPos_int`; `==` is equality there, and `is_linear` of a
    triple with a repeated point computes `|±0 − ±0| < ε`). That field is NOT proved here.
-/
import RosuModel.Props.C04DecodedPaths
import RosuModel.Model.FloatInst
set_option linter.unusedSectionVars false
namespace Rosu.C04
open Rosu Scalar RtObjects SliderRt DecodedObj EncodeLines Encode DecodedPath C14 C14.HoSpec DecodedInv

theorem parseDecimal_letter (c : Char) (r : Str) (h3 : digitVal c = none) (hdot : (c == '.') = false) :
    parseDecimal (c :: r) = none := by
  unfold parseDecimal
  simp only [spanDigits, h3, hdot, Bool.false_eq_true, if_false, List.isEmpty_nil, Bool.and_self, if_true]

theorem letter_float (s : Str) (hs : isLetterPiece s = true) :
    (number s (Scalar.ofInt 131072) : Option Float) = none := by
  cases s with
  | nil => simp [isLetterPiece, firstIsAsciiAlpha] at hs
  | cons c cs =>
    have ha : (('a' ≤ c && c ≤ 'z') || ('A' ≤ c && c ≤ 'Z')) = true := by
      simp only [isLetterPiece, firstIsAsciiAlpha] at hs
      split at hs
      · rename_i h; simpa using h
      · cases hs
    have hn := alpha_toNat c ha
    have hws : isWs c = false := by
      simp only [isWs, Bool.or_eq_false_iff, Bool.and_eq_false_iff, decide_eq_false_iff_not, beq_eq_false_iff_ne]
      omega
    have ht : trim (c :: cs) = c :: trimEnd cs := by
      unfold trim
      rw [trimStart_of_head hws, trimEnd_cons_of_not_ws cs hws]
    have h1 : (c == '-') = false := by
      simp only [beq_eq_false_iff_ne]; apply toNat_ne; have : '-'.toNat = 45 := rfl; omega
    have h2 : (c == '+') = false := by
      simp only [beq_eq_false_iff_ne]; apply toNat_ne; have : '+'.toNat = 43 := rfl; omega
    have hdot : (c == '.') = false := by
      simp only [beq_eq_false_iff_ne]; apply toNat_ne; have : '.'.toNat = 46 := rfl; omega
    have h3 : digitVal c = none := by
      unfold digitVal
      have h0 : '0'.toNat = 48 := rfl
      have h9 : '9'.toNat = 57 := rfl
      rw [h0, h9, if_neg (by omega)]
    have hnan : withinLimit (Float.ofBits (UInt64.ofNat fmt64.nanBits)) (Scalar.ofInt 131072 : Float) = false := by
      decide +kernel
    have hinf : withinLimit (Float.ofBits (UInt64.ofNat (0 + fmt64.infBits))) (Scalar.ofInt 131072 : Float) = false := by
      decide +kernel
    unfold number
    rw [ht]
    have hparse : (Scalar.parse (c :: trimEnd cs) : Option Float) =
        (parseBits fmt64 (c :: trimEnd cs)).map fun b => Float.ofBits (UInt64.ofNat b) := rfl
    rw [hparse]
    have hpb : parseBits fmt64 (c :: trimEnd cs) =
        (if (List.map lower (c :: trimEnd cs) == str "nan") = true then some fmt64.nanBits
         else if (List.map lower (c :: trimEnd cs) == str "inf" || List.map lower (c :: trimEnd cs) == str "infinity") = true
           then some (0 + fmt64.infBits) else none) := by
      unfold parseBits
      simp only [h1, h2, Bool.false_eq_true, if_false, parseDecimal_letter c _ h3 hdot]
    rw [hpb]
    by_cases hA : (List.map lower (c :: trimEnd cs) == str "nan") = true
    · rw [if_pos hA]
      simp only [Option.map_some, hnan, Bool.false_eq_true, if_false]
    · rw [if_neg hA]
      by_cases hB : (List.map lower (c :: trimEnd cs) == str "inf" || List.map lower (c :: trimEnd cs) == str "infinity") = true
      · rw [if_pos hB]
        simp only [Option.map_some, hinf, Bool.false_eq_true, if_false]
      · rw [if_neg hB]
        rfl


/-- `PathLaws` for the IEEE instances, from its `eq` field alone. -/
theorem pathLaws_ieee_of_eq
    (h : ∀ start : Pos Float32, CoordP start.x → CoordP start.y → EqLaws (CtrlPos Float start)) :
    PathLaws Float Float32 := ⟨h, letter_float⟩

/-- the letter law is not vacuous, and the three float words are what it is about. -/
example : (number (str "inf") (Scalar.ofInt 131072) : Option Float) = none ∧
    (number (str "NaN") (Scalar.ofInt 131072) : Option Float) = none ∧
    (number (str "Infinity") (Scalar.ofInt 131072) : Option Float) = none ∧
    (number (str "B9") (Scalar.ofInt 131072) : Option Float) = none :=
  ⟨letter_float _ (by decide), letter_float _ (by decide), letter_float _ (by decide), letter_float _ (by decide)⟩

end Rosu.C04
