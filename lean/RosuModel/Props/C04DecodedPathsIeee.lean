/-
  Props/C04DecodedPathsIeee.lean — the laws of Props/C04DecodedPaths.lean (`PathLaws`) are THEOREMS of the driver's IEEE
  instances `F = Float`, `P = Float32` (`pathLaws_ieee`), so for IEEE the shape half of `RepPath` of every decoded slider is
  exactly `F17Free`, with no law hypothesis (`decoded_path_shape_ieee`).

  * `letter_float` — a piece that starts with an ASCII letter does not read as a number within ±131072. Rust's
    `f64::from_str` does read `nan`, `inf`, `infinity` (any case) — NaN fails the NaN test of `parse_with_limits`, the
    infinities its limit test; every other text starting with a letter is not a float literal.
  * `eqLaws_float32` — on the positions `C14.CtrlPos` of a head with truncated coordinates (integer-valued `f32`s of
    magnitude ≤ 2¹⁸, `C14.ctrlPos_int`): `==` is equality of the integers (`eq_int32`, through `FMO.ubeq_iff` and the
    unpacked form `FTR.up_ofInt32`), and `is_linear` of a triple with a repeated point computes
    `|(+0)·k₁ − (+0)·k₂| = |±0 − ±0| < ε` (`dupLinear_int32`: exact differences `FTR.sub_int_exact_float32`,
    `x − x = +0`, zero times finite in Lean's float model, the four sign cases by kernel evaluation).
  * `f17_needed_ieee` — the three F17 witness lines, parsed on `Float` / `Float32` in the kernel, store control points that
    are not `F17Free`, hence not `PathShapeOk`.
  `CtrlLaws` (the NUMERIC half of `RepPath`) is still not instantiated for IEEE, so `decoded_sliders_representable_ieee`
  keeps it as a hypothesis.
-/
import RosuModel.Props.C04DecodedPaths
import RosuModel.Model.FloatInst
import RosuModel.Lemmas.FloatArithMono
import RosuModel.Lemmas.FloatTrunc
import RosuModel.Props.C04DecodedObjectsIeee
set_option linter.unusedSectionVars false
namespace Rosu.C04
open Rosu Scalar RtObjects SliderRt DecodedObj EncodeLines Encode DecodedPath C14 C14.HoSpec DecodedInv
open Float.Model Float.Model.UnpackedFloat FMO FTR FMR FAM

theorem parseDecimal_letter (c : Char) (r : Str) (h3 : digitVal c = none) (hdot : (c == '.') = false) :
    parseDecimal (c :: r) = none := by
  unfold parseDecimal
  simp only [spanDigits, h3, hdot, Bool.false_eq_true, if_false, List.isEmpty_nil, Bool.and_self, if_true]

theorem letter_float (s : Str) (hs : isLetterPiece s = true) :
    (number s (Scalar.ofInt 131072) : Option Float) = none := by
  cases s with
  | nil => simp [isLetterPiece, firstIsAsciiAlpha] at hs
  | cons c cs =>
    have ha : (('a' ≤ c && c ≤ 'z') || ('A' ≤ c && c ≤ 'Z')) = true := by
      simp only [isLetterPiece, firstIsAsciiAlpha] at hs
      split at hs
      · rename_i h; simpa using h
      · cases hs
    have hn := alpha_toNat c ha
    have hws : isWs c = false := by
      simp only [isWs, Bool.or_eq_false_iff, Bool.and_eq_false_iff, decide_eq_false_iff_not, beq_eq_false_iff_ne]
      omega
    have ht : trim (c :: cs) = c :: trimEnd cs := by
      unfold trim
      rw [trimStart_of_head hws, trimEnd_cons_of_not_ws cs hws]
    have h1 : (c == '-') = false := by
      simp only [beq_eq_false_iff_ne]; apply toNat_ne; have : '-'.toNat = 45 := rfl; omega
    have h2 : (c == '+') = false := by
      simp only [beq_eq_false_iff_ne]; apply toNat_ne; have : '+'.toNat = 43 := rfl; omega
    have hdot : (c == '.') = false := by
      simp only [beq_eq_false_iff_ne]; apply toNat_ne; have : '.'.toNat = 46 := rfl; omega
    have h3 : digitVal c = none := by
      unfold digitVal
      have h0 : '0'.toNat = 48 := rfl
      have h9 : '9'.toNat = 57 := rfl
      rw [h0, h9, if_neg (by omega)]
    have hnan : withinLimit (Float.ofBits (UInt64.ofNat fmt64.nanBits)) (Scalar.ofInt 131072 : Float) = false := by
      decide +kernel
    have hinf : withinLimit (Float.ofBits (UInt64.ofNat (0 + fmt64.infBits))) (Scalar.ofInt 131072 : Float) = false := by
      decide +kernel
    unfold number
    rw [ht]
    have hparse : (Scalar.parse (c :: trimEnd cs) : Option Float) =
        (parseBits fmt64 (c :: trimEnd cs)).map fun b => Float.ofBits (UInt64.ofNat b) := rfl
    rw [hparse]
    have hpb : parseBits fmt64 (c :: trimEnd cs) =
        (if (List.map lower (c :: trimEnd cs) == str "nan") = true then some fmt64.nanBits
         else if (List.map lower (c :: trimEnd cs) == str "inf" || List.map lower (c :: trimEnd cs) == str "infinity") = true
           then some (0 + fmt64.infBits) else none) := by
      unfold parseBits
      simp only [h1, h2, Bool.false_eq_true, if_false, parseDecimal_letter c _ h3 hdot]
    rw [hpb]
    by_cases hA : (List.map lower (c :: trimEnd cs) == str "nan") = true
    · rw [if_pos hA]
      simp only [Option.map_some, hnan, Bool.false_eq_true, if_false]
    · rw [if_neg hA]
      by_cases hB : (List.map lower (c :: trimEnd cs) == str "inf" || List.map lower (c :: trimEnd cs) == str "infinity") = true
      · rw [if_pos hB]
        simp only [Option.map_some, hinf, Bool.false_eq_true, if_false]
      · rw [if_neg hB]
        rfl


/-- the letter law is not vacuous, and the three float words are what it is about. -/
example : (number (str "inf") (Scalar.ofInt 131072) : Option Float) = none ∧
    (number (str "NaN") (Scalar.ofInt 131072) : Option Float) = none ∧
    (number (str "Infinity") (Scalar.ofInt 131072) : Option Float) = none ∧
    (number (str "B9") (Scalar.ofInt 131072) : Option Float) = none :=
  ⟨letter_float _ (by decide), letter_float _ (by decide), letter_float _ (by decide), letter_float _ (by decide)⟩


/-! ### the IEEE laws on positions -/

/-- the unpacked form of an integer-valued `f32`. -/
theorem up_int32 (z : Int) (hz : z.natAbs < 2 ^ 23) :
    (z = 0 ∧ (Float32.ofInt z).toModel.unpack = .zero .positive) ∨
    (z ≠ 0 ∧ IsFin (Float32.ofInt z).toModel.unpack (isign z) (z.natAbs * 2 ^ (23 - z.natAbs.log2)) ((z.natAbs.log2 : Int) - 23)) := by
  by_cases h0 : z = 0
  · subst h0; exact Or.inl ⟨rfl, up_ofInt32_zero⟩
  · exact Or.inr ⟨h0, up_ofInt32 z h0 hz⟩

theorem key_int32_inj (a b : Int) (ha : a.natAbs < 2 ^ 23) (hb : b.natAbs < 2 ^ 23)
    (h : key (Float32.ofInt a).toModel.unpack = key (Float32.ofInt b).toModel.unpack) : a = b := by
  rcases up_int32 a ha with ⟨a0, ua⟩ | ⟨a0, ha', ua⟩ <;> rcases up_int32 b hb with ⟨b0, ub⟩ | ⟨b0, hb', ub⟩
  · rw [a0, b0]
  · rw [ua, ub] at h
    unfold isign at h
    split at h <;> simp [key] at h
  · rw [ua, ub] at h
    unfold isign at h
    split at h <;> simp [key] at h
  · rw [ua, ub] at h
    have hla := Nat.log2_lt (n := a.natAbs) (k := 23) (by omega)
    have hlb := Nat.log2_lt (n := b.natAbs) (k := 23) (by omega)
    have hla' : a.natAbs.log2 < 23 := hla.mpr ha
    have hlb' : b.natAbs.log2 < 23 := hlb.mpr hb
    unfold isign at h
    split at h <;> split at h <;> simp only [key, Prod.mk.injEq] at h
    · obtain ⟨_, h2, h3⟩ := h
      have hl : a.natAbs.log2 = b.natAbs.log2 := by omega
      rw [hl] at h3
      have : a.natAbs = b.natAbs := by
        have h3' : (a.natAbs * 2 ^ (23 - b.natAbs.log2) : Int) = (b.natAbs * 2 ^ (23 - b.natAbs.log2) : Int) := by
          push_cast at h3 ⊢; omega
        have h4 : a.natAbs * 2 ^ (23 - b.natAbs.log2) = b.natAbs * 2 ^ (23 - b.natAbs.log2) := by exact_mod_cast h3'
        exact Nat.eq_of_mul_eq_mul_right (Nat.two_pow_pos _) h4
      omega
    · omega
    · omega
    · obtain ⟨_, h2, h3⟩ := h
      have hl : a.natAbs.log2 = b.natAbs.log2 := by omega
      rw [hl] at h3
      have : a.natAbs = b.natAbs := by
        have h4 : a.natAbs * 2 ^ (23 - b.natAbs.log2) = b.natAbs * 2 ^ (23 - b.natAbs.log2) := by exact_mod_cast h3
        exact Nat.eq_of_mul_eq_mul_right (Nat.two_pow_pos _) h4
      omega

theorem nan_int32 (z : Int) (hz : z.natAbs < 2 ^ 23) : (Float32.ofInt z).toModel.unpack.isNaN = false := by
  rcases up_int32 z hz with ⟨_, u⟩ | ⟨_, _, u⟩ <;> rw [u] <;> rfl

theorem fin_int32 (z : Int) (hz : z.natAbs < 2 ^ 23) : (Float32.ofInt z).toModel.unpack.isFinite = true := by
  rcases up_int32 z hz with ⟨_, u⟩ | ⟨_, _, u⟩ <;> rw [u] <;> rfl

/-- **IEEE `==` on integer-valued `f32`s below 2²³ is equality of the integers.** -/
theorem eq_int32 (a b : Int) (ha : a.natAbs < 2 ^ 23) (hb : b.natAbs < 2 ^ 23) :
    Scalar.eq (Float32.ofInt a) (Float32.ofInt b) = true ↔ a = b := by
  rw [eq_float32, ubeq_iff]
  constructor
  · rintro ⟨_, _, hk⟩
    exact key_int32_inj a b ha hb hk
  · rintro rfl
    exact ⟨nan_int32 a ha, nan_int32 a ha, rfl⟩

/-- a zero of either sign, as an `f32`. -/
def zero32 (s : Sign) : Float32 := Float32.ofModel (Float32.Model.pack (.zero s))

theorem zero32_unpack (s : Sign) : (zero32 s).toModel.unpack = .zero s := by
  cases s <;> rfl

theorem zero32_linear (s t : Sign) : Scalar.lt (Scalar.abs (zero32 s - zero32 t)) (Scalar.eps : Float32) = true := by
  cases s <;> cases t <;> decide +kernel

theorem sub_congr32 (x y x' y' : Float32) (hx : x.toModel.unpack = x'.toModel.unpack)
    (hy : y.toModel.unpack = y'.toModel.unpack) : x - y = x' - y' := by
  rw [sub_float32, sub_float32, hx, hy]

theorem pzero32_unpack : pzero32.toModel.unpack = .zero .positive := rfl

/-- `+0 · k` is a zero for every integer-valued `f32` below 2²³. -/
theorem mul_pzero_int32 (k : Int) (hk : k.natAbs < 2 ^ 23) :
    ∃ s, (pzero32 * Float32.ofInt k).toModel.unpack = .zero s := by
  rw [float32_mul_unpack, pzero32_unpack]
  rcases up_int32 k hk with ⟨_, u⟩ | ⟨_, h, u⟩
  · rw [u]; exact ⟨.positive, rfl⟩
  · rw [u]
    have hz : ∀ t : Sign, repack Format.binary32 (.zero t) = .zero t := fun t => by cases t <;> rfl
    cases isign k
    · refine ⟨Sign.positive * Sign.negative, ?_⟩
      simp only [UnpackedFloat.mul]
      exact hz _
    · refine ⟨Sign.positive * Sign.positive, ?_⟩
      simp only [UnpackedFloat.mul]
      exact hz _

/-- **a triple with a repeated point is collinear for `is_linear`**, on integer-valued `f32` positions of magnitude
≤ 2¹⁸. -/
theorem dupLinear_int32 (px py cx cy : Int) (h1 : px.natAbs ≤ 262144) (h2 : py.natAbs ≤ 262144)
    (h3 : cx.natAbs ≤ 262144) (h4 : cy.natAbs ≤ 262144) :
    isLinear (⟨Float32.ofInt px, Float32.ofInt py⟩ : Pos Float32) ⟨Float32.ofInt px, Float32.ofInt py⟩
      ⟨Float32.ofInt cx, Float32.ofInt cy⟩ = true := by
  unfold isLinear
  show Scalar.lt (Scalar.abs ((Float32.ofInt py - Float32.ofInt py) * (Float32.ofInt cx - Float32.ofInt px) -
    (Float32.ofInt px - Float32.ofInt px) * (Float32.ofInt cy - Float32.ofInt py))) (Scalar.eps : Float32) = true
  rw [sub_self_float32 _ (fin_int32 py (by omega)), sub_self_float32 _ (fin_int32 px (by omega)),
    sub_int_exact_float32 cx px (by omega) (by omega) (by omega),
    sub_int_exact_float32 cy py (by omega) (by omega) (by omega)]
  obtain ⟨s, hs⟩ := mul_pzero_int32 (cx - px) (by omega)
  obtain ⟨t, ht⟩ := mul_pzero_int32 (cy - py) (by omega)
  rw [sub_congr32 _ _ (zero32 s) (zero32 t) (by rw [hs, zero32_unpack]) (by rw [ht, zero32_unpack])]
  exact zero32_linear s t

/-- **`EqLaws` is a theorem of `Float32`** on the positions a path string can produce. -/
theorem eqLaws_float32 (start : Pos Float32) (hsx : CoordP start.x) (hsy : CoordP start.y) :
    EqLaws (CtrlPos Float start) where
  sound := by
    intro p q hp hq h
    obtain ⟨⟨a, a1, a2, ha⟩, ⟨b, b1, b2, hb⟩⟩ := ctrlPos_int start p hsx hsy hp
    obtain ⟨⟨c, c1, c2, hc⟩, ⟨d, d1, d2, hd⟩⟩ := ctrlPos_int start q hsx hsy hq
    obtain ⟨px, py⟩ := p
    obtain ⟨qx, qy⟩ := q
    simp only at ha hb hc hd
    subst ha; subst hb; subst hc; subst hd
    have h' : (Scalar.eq (Float32.ofInt a) (Float32.ofInt c) && Scalar.eq (Float32.ofInt b) (Float32.ofInt d)) = true := h
    simp only [Bool.and_eq_true] at h'
    have e1 := (eq_int32 a c (by omega) (by omega)).mp h'.1
    have e2 := (eq_int32 b d (by omega) (by omega)).mp h'.2
    subst e1; subst e2; rfl
  refl := by
    intro p hp
    obtain ⟨⟨a, a1, a2, ha⟩, ⟨b, b1, b2, hb⟩⟩ := ctrlPos_int start p hsx hsy hp
    obtain ⟨px, py⟩ := p
    simp only at ha hb
    subst ha; subst hb
    show (Scalar.eq (Float32.ofInt a) (Float32.ofInt a) && Scalar.eq (Float32.ofInt b) (Float32.ofInt b)) = true
    rw [(eq_int32 a a (by omega) (by omega)).mpr rfl, (eq_int32 b b (by omega) (by omega)).mpr rfl]
    rfl
  dupLinear := by
    intro p c hp hc
    obtain ⟨⟨a, a1, a2, ha⟩, ⟨b, b1, b2, hb⟩⟩ := ctrlPos_int start p hsx hsy hp
    obtain ⟨⟨c', c1, c2, hc'⟩, ⟨d, d1, d2, hd⟩⟩ := ctrlPos_int start c hsx hsy hc
    obtain ⟨px, py⟩ := p
    obtain ⟨cx, cy⟩ := c
    simp only at ha hb hc' hd
    subst ha; subst hb; subst hc'; subst hd
    exact dupLinear_int32 a b c' d (by omega) (by omega) (by omega) (by omega)

/-- **`PathLaws` is a theorem of the IEEE instances**: no law hypothesis is left in `decoded_path_shape`. -/
theorem pathLaws_ieee : PathLaws Float Float32 := ⟨eqLaws_float32, letter_float⟩


section
variable [Trig Float] [Trig Float32]

/-- **decoded_path_shape_ieee** — IEEE instance, no law hypothesis: for every slider of every decoded map (any bytes), the
type / shape half of `RepPath` holds exactly when the control points are `F17Free`. -/
theorem decoded_path_shape_ieee (bs : List UInt8) (st : BeatmapState Float Float32) (m : Beatmap Float Float32)
    (h1 : decodeBytes beatmapDecoder bs = .ok st) (h2 : st.finish = .ok m) :
    ∀ h ∈ m.hitObjects, ∀ s, h.kind = .slider s → (PathShapeOk s.path.controlPoints ↔ F17Free s.path.controlPoints) :=
  decoded_path_shape_iff pathLaws_ieee bs st m h1 h2

/-- sliders of decoded maps, IEEE instance: the laws left are `CtrlLaws` (numeric half of `RepPath`, not instantiated for
IEEE); the residuals are F17 (`F17Free`) and F20. -/
theorem decoded_sliders_representable_ieee (LC : CtrlLaws Float Float32 IeeeRep32) (bs : List UInt8)
    (st : BeatmapState Float Float32) (m : Beatmap Float Float32)
    (h1 : decodeBytes beatmapDecoder bs = .ok st) (h2 : st.finish = .ok m) (mode : GameMode) :
    ∀ h ∈ m.hitObjects, ∀ s, h.kind = .slider s → SliderResidualF17 IeeeRep64 s →
      ∃ dist, RepSlider IeeeRep64 IeeeRep32 mode h s dist :=
  decoded_sliders_representable objLaws_ieee LC pathLaws_ieee bs st m h1 h2 mode

end

/-! ### the exception is needed on the IEEE instances too -/

set_option maxRecDepth 100000

/-- finding F17 on the IEEE instances: the three witness lines push sliders whose control points are not `F17Free`
(kernel evaluation of the parser on `Float` / `Float32`), hence — `decoded_path_shape` — not `PathShapeOk`. -/
theorem f17_needed_ieee : ∀ l ∈ [f17CatmullLine, f17TypedLine, catmullRunLine],
    (parseHitObjectLine GameMode.osu ({} : HOCore Float Float32) l).2 = true ∧
    ∃ o s, (parseHitObjectLine GameMode.osu ({} : HOCore Float Float32) l).1.hitObjects = [] ++ [o] ∧ o.kind = .slider s ∧
      ¬ F17Free s.path.controlPoints ∧ ¬ PathShapeOk s.path.controlPoints := by
  have key : ∀ l ∈ [f17CatmullLine, f17TypedLine, catmullRunLine],
      (parseHitObjectLine GameMode.osu ({} : HOCore Float Float32) l).2 = true ∧
      (match (parseHitObjectLine GameMode.osu ({} : HOCore Float Float32) l).1.hitObjects with
       | [o] => (match o.kind with
          | .slider s => decide (¬ F17Free s.path.controlPoints)
          | _ => false)
       | _ => false) = true := by
    decide +kernel
  intro l hl
  obtain ⟨h1, h2⟩ := key l hl
  refine ⟨h1, ?_⟩
  split at h2
  · rename_i o ho
    split at h2
    · rename_i s hs
      have hn : ¬ F17Free s.path.controlPoints := of_decide_eq_true h2
      exact ⟨o, s, by rw [ho]; rfl, hs, hn, fun hp => hn (pathShapeOk_f17Free _ hp)⟩
    · cases h2
  · cases h2


end Rosu.C04
