/-
  Props/C19.lean — position along a curve (`position_at`, `progress_to_dist`, `idx_of_dist`,
  `interpolate_vertices`). Structural theorems: every `Scalar` instance, hence the IEEE one.
  Law-dependent statements (end points, vertices, Lipschitz) are not proved; they are tested by the harness oracle.
-/
import RosuModel.Model.Curve
import RosuModel.Lemmas.Outcome
import RosuModel.Lemmas.ToyInt
import RosuModel.Lemmas.ToyRat
namespace Rosu.C19
open Rosu Rosu.Curve

variable {P F : Type} [Scalar P] [Scalar F] [Cvt P F]

/-! ### clamping -/

/-- `progress_to_dist` is `clamp(progress, 0, 1) * dist`. -/
theorem progress_clamped (lengths : List F) (q : F) :
    progressToDist lengths q = Scalar.clamp q 0 1 * dist lengths := rfl

/-- progress below 0 behaves exactly like progress 0 (whatever `lt 1 0` is in the arithmetic). -/
theorem progress_below_clamped (lengths : List F) (q : F) (h : Scalar.lt q (0 : F) = true) :
    progressToDist lengths q = progressToDist lengths 0 := by
  unfold progressToDist Scalar.clamp
  simp only [h, if_true]
  cases Scalar.lt (0 : F) 0 <;> simp

/-- progress above 1 behaves exactly like progress 1. -/
theorem progress_above_clamped (lengths : List F) (q : F) (h0 : Scalar.lt q (0 : F) = false)
    (h : Scalar.lt (1 : F) q = true) : progressToDist lengths q = progressToDist lengths 1 := by
  unfold progressToDist Scalar.clamp
  simp only [h0, h, if_true, Bool.false_eq_true, if_false]
  cases h10 : Scalar.lt (1 : F) 0 <;> cases h11 : Scalar.lt (1 : F) 1 <;> simp [h10, h11]

/-- hence position, index and distance queries cannot tell an out-of-range progress from its clamp. -/
theorem position_clamped (path : List (Pos P)) (lengths : List F) (q : F) :
    (Scalar.lt q (0 : F) = true → positionAt path lengths q = positionAt path lengths 0) ∧
    (Scalar.lt q (0 : F) = false → Scalar.lt (1 : F) q = true →
      positionAt path lengths q = positionAt path lengths 1) := by
  constructor
  · intro h; unfold positionAt; rw [progress_below_clamped lengths q h]
  · intro h0 h; unfold positionAt; rw [progress_above_clamped lengths q h0 h]

/-- inside the range (`!(q < 0)` and `!(1 < q)`) the distance is `progress * dist` — the very product the
code computes, for every arithmetic (a NaN progress also takes this arm). -/
theorem progress_to_dist_linear (lengths : List F) (q : F) (h0 : Scalar.lt q (0 : F) = false)
    (h1 : Scalar.lt (1 : F) q = false) : progressToDist lengths q = q * dist lengths := by
  unfold progressToDist Scalar.clamp
  simp [h0, h1]

/-- `dist` is the last cumulative length, `0.0` for no lengths. -/
theorem dist_concat (ls : List F) (x : F) : dist (ls ++ [x]) = x := by simp [dist]
theorem dist_nil : dist ([] : List F) = 0 := rfl

/-! ### binary search: probes in range, result in range, fuel -/

/-- every `get_unchecked(mid)` of the search loop is in range, and the final `base` is a valid index. -/
theorem bsLoop_inv (lengths : List F) (d : F) (fuel base size : Nat)
    (h : base + size ≤ lengths.length) (hs : 1 ≤ size) :
    bsLoop lengths d fuel base size < lengths.length := by
  induction fuel generalizing base size with
  | zero => simp only [bsLoop]; omega
  | succ n ih =>
    simp only [bsLoop]
    split
    · apply ih
      · split <;> omega
      · omega
    · omega

/-- the probe sequence never leaves the slice: in every round `mid = base + size/2 < len`. -/
theorem bs_probe_in_range (lengths : List F) (base size : Nat) (h : base + size ≤ lengths.length)
    (hs : 1 < size) : base + size / 2 < lengths.length := by omega

/-- `idx_of_dist` returns an index in `0..=len`. -/
theorem idxOfDist_le (lengths : List F) (d : F) : idxOfDist lengths d ≤ lengths.length := by
  unfold idxOfDist
  simp only []
  split
  · omega
  · rename_i hne
    have := bsLoop_inv lengths d lengths.length 0 lengths.length (by omega) (by omega)
    split
    · omega
    · split <;> omega

/-- the fuel handed to the loop (`len`) suffices: more fuel changes nothing. -/
theorem bsLoop_fuel (lengths : List F) (d : F) (fuel k base size : Nat) (h : size ≤ fuel) :
    bsLoop lengths d (fuel + k) base size = bsLoop lengths d fuel base size := by
  induction fuel generalizing base size with
  | zero =>
    have : size = 0 := by omega
    subst this
    cases k <;> simp [bsLoop]
  | succ n ih =>
    have e : n + 1 + k = (n + k) + 1 := by omega
    rw [e]
    simp only [bsLoop]
    split
    · apply ih; omega
    · rfl

/-- on an empty slice the search answers `0` (`Err(0)`). -/
theorem idxOfDist_nil (d : F) : idxOfDist ([] : List F) d = 0 := rfl

/-! ### `interpolate_vertices`: guards -/

/-- an empty path yields `Pos::default()` for every index and distance. -/
theorem empty_path_default (lengths : List F) (i : Nat) (d q : F) :
    interpolateVertices ([] : List (Pos P)) lengths i d = .ok Pos.zero ∧
    positionAt ([] : List (Pos P)) lengths q = .ok Pos.zero := ⟨rfl, rfl⟩

/-- index 0 yields the first path point. -/
theorem interpolate_idx_zero (p : Pos P) (path : List (Pos P)) (lengths : List F) (d : F) :
    interpolateVertices (p :: path) lengths 0 d = .ok p := rfl

/-- an index beyond the path yields the last path point. -/
theorem interpolate_beyond_last (path : List (Pos P)) (lengths : List F) (i : Nat) (d : F)
    (hne : path ≠ []) (hi : path.length ≤ i) :
    interpolateVertices path lengths i d = .ok (path.getLast hne) := by
  have hpos : 0 < path.length := List.length_pos_iff.mpr hne
  unfold interpolateVertices
  have h1 : path.isEmpty = false := by cases path <;> simp_all
  have h2 : ¬ i = 0 := by omega
  have h3 : path[i]? = none := List.getElem?_eq_none hi
  simp only [h1, Bool.false_eq_true, if_false, h2, h3]
  rw [usub_eq _ _ (by omega), Outcome.ok_bind, getI_eq _ _ (by omega)]
  congr 1
  rw [List.getLast_eq_getElem]

/-- **index guards**: on a curve (`lengths` at least as long as `path`, theorem
`C16.lengths_path_aligned`) `interpolate_vertices` never indexes out of range, for any `i` and `d`;
the result is `path[0]`, the last point, `path[i-1]`, or the interpolation formula. -/
theorem interpolate_total (path : List (Pos P)) (lengths : List F) (i : Nat) (d : F)
    (hlen : path.length ≤ lengths.length) : ∃ p, interpolateVertices path lengths i d = .ok p := by
  unfold interpolateVertices
  split
  · exact ⟨_, rfl⟩
  · rename_i hne
    have hpos : 0 < path.length := by
      cases path with
      | nil => simp at hne
      | cons a t => simp
    split
    · exact ⟨_, getI_eq _ _ hpos⟩
    · rename_i hi
      split
      · rw [usub_eq _ _ (by omega), Outcome.ok_bind, getI_eq _ _ (by omega)]; exact ⟨_, rfl⟩
      · rename_i p1 hp1
        have hil : i < path.length := by
          rcases Nat.lt_or_ge i path.length with h | h
          · exact h
          · rw [List.getElem?_eq_none h] at hp1; cases hp1
        rw [getI_eq _ _ (by omega), Outcome.ok_bind, getI_eq _ _ (by omega), Outcome.ok_bind,
          getI_eq _ _ (by omega), Outcome.ok_bind]
        split <;> exact ⟨_, rfl⟩

/-- `position_at` is total on a curve. -/
theorem positionAt_total (path : List (Pos P)) (lengths : List F) (q : F)
    (hlen : path.length ≤ lengths.length) : ∃ p, positionAt path lengths q = .ok p :=
  interpolate_total path lengths _ _ hlen

/-- when the search lands on index 0 the position is the first point. -/
theorem position_first_of_idx_zero (p : Pos P) (path : List (Pos P)) (lengths : List F) (q : F)
    (h : idxOfDist lengths (progressToDist lengths q) = 0) :
    positionAt (p :: path) lengths q = .ok p := by
  unfold positionAt; simp only [h]; rfl

/-- a segment whose cumulative lengths differ by at most `EPSILON` is not interpolated: its start is returned. -/
theorem interpolate_degenerate (path : List (Pos P)) (lengths : List F) (i : Nat) (d : F) (p0 p1 : Pos P)
    (d0 d1 : F) (hi : i ≠ 0) (hp1 : path[i]? = some p1) (hp0 : path[i - 1]? = some p0)
    (hd0 : lengths[i - 1]? = some d0) (hd1 : lengths[i]? = some d1)
    (hdeg : Scalar.le (Scalar.abs (d0 - d1)) (Scalar.eps : F) = true) :
    interpolateVertices path lengths i d = .ok p0 := by
  unfold interpolateVertices
  have hne : path.isEmpty = false := by cases path <;> simp_all
  simp only [hne, Bool.false_eq_true, if_false, hi, hp1]
  rw [getI_of_some _ _ _ hp0, Outcome.ok_bind, getI_of_some _ _ _ hd0, Outcome.ok_bind,
    getI_of_some _ _ _ hd1, Outcome.ok_bind]
  simp [hdeg]

/-- the interpolation formula itself: `p0 + (p1 - p0) * ((d - d0) / (d1 - d0)) as f32`. -/
theorem interpolate_formula (path : List (Pos P)) (lengths : List F) (i : Nat) (d : F) (p0 p1 : Pos P)
    (d0 d1 : F) (hi : i ≠ 0) (hp1 : path[i]? = some p1) (hp0 : path[i - 1]? = some p0)
    (hd0 : lengths[i - 1]? = some d0) (hd1 : lengths[i]? = some d1)
    (hdeg : Scalar.le (Scalar.abs (d0 - d1)) (Scalar.eps : F) = false) :
    interpolateVertices path lengths i d =
      .ok (p0 + (p1 - p0).smul (Cvt.down ((d - d0) / (d1 - d0)))) := by
  unfold interpolateVertices
  have hne : path.isEmpty = false := by cases path <;> simp_all
  simp only [hne, Bool.false_eq_true, if_false, hi, hp1]
  rw [getI_of_some _ _ _ hp0, Outcome.ok_bind, getI_of_some _ _ _ hd0, Outcome.ok_bind,
    getI_of_some _ _ _ hd1, Outcome.ok_bind]
  simp [hdeg]

/-! ### law-dependent: the search on sorted lengths, end points and vertices (exact arithmetic) -/

/-- order and field facts used below; hypotheses, not axioms (`posLaws_rat` shows they are satisfiable). -/
structure PosLaws (P F : Type) [Scalar P] [Scalar F] [Cvt P F] : Prop where
  lt_irrefl : ∀ a : F, Scalar.lt a a = false
  lt_asymm : ∀ a b : F, Scalar.lt a b = true → Scalar.lt b a = false
  one_not_lt_zero : Scalar.lt (1 : F) (0 : F) = false
  zero_mul : ∀ x : F, (0 : F) * x = 0
  one_mul : ∀ x : F, (1 : F) * x = x
  div_self_of_lt : ∀ a b : F, Scalar.lt a b = true → (b - a) / (b - a) = 1
  down_one : (Cvt.down (1 : F) : P) = 1
  mul_one : ∀ x : P, x * (1 : P) = x
  add_sub_cancel : ∀ a b : P, a + (b - a) = b

/-- the cumulative lengths strictly increase (no zero-length segment, no NaN). -/
def StrictSorted (lengths : List F) : Prop :=
  ∀ (i j : Nat) (x y : F), i < j → lengths[i]? = some x → lengths[j]? = some y → Scalar.lt x y = true

theorem bsLoop_hit (laws : PosLaws P F) (lengths : List F) (hs : StrictSorted lengths) (t : Nat) (d : F)
    (ht : lengths[t]? = some d) : ∀ fuel base size, size ≤ fuel → base ≤ t → t < base + size →
      base + size ≤ lengths.length → bsLoop lengths d fuel base size = t := by
  intro fuel
  induction fuel with
  | zero => intro base size h1 h2 h3 _; omega
  | succ n ih =>
    intro base size h1 h2 h3 h4
    simp only [bsLoop]
    split
    · rename_i hsz
      have hmid : base + size / 2 < lengths.length := by omega
      have hx : lengths.getD (base + size / 2) 0 = lengths[base + size / 2] := by
        rw [List.getD_eq_getElem?_getD, List.getElem?_eq_getElem hmid]; rfl
      have hx' : lengths[base + size / 2]? = some lengths[base + size / 2] := List.getElem?_eq_getElem hmid
      rw [hx]
      rcases Nat.lt_or_ge t (base + size / 2) with hlt | hge
      · -- target left of the probe: Greater, `base` stays
        have h1' := hs t (base + size / 2) d _ hlt ht hx'
        have h2' := laws.lt_asymm _ _ h1'
        have hc : cmpLen lengths[base + size / 2] d = .gt := by simp [cmpLen, h1', h2']
        simp only [hc, beq_self_eq_true, if_true]
        exact ih base (size - size / 2) (by omega) h2 (by omega) (by omega)
      · -- probe at or left of the target: Less or Equal, `base` moves to the probe
        have hc : (cmpLen lengths[base + size / 2] d == .gt) = false := by
          rcases Nat.lt_or_ge (base + size / 2) t with hlt | hge'
          · have h1' := hs (base + size / 2) t _ d hlt hx' ht
            simp [cmpLen, h1']
          · have he : base + size / 2 = t := by omega
            have : lengths[base + size / 2] = d := by
              have h5 : lengths[base + size / 2]? = some d := by rw [he]; exact ht
              rw [hx'] at h5; exact Option.some.inj h5
            simp [cmpLen, this, laws.lt_irrefl]
        simp only [hc, Bool.false_eq_true, if_false]
        exact ih (base + size / 2) (size - size / 2) (by omega) hge (by omega) (by omega)
    · omega

/-- **on strictly increasing lengths the search finds the index of an exact hit.** -/
theorem idxOfDist_hit (laws : PosLaws P F) (lengths : List F) (hs : StrictSorted lengths) (t : Nat) (d : F)
    (ht : lengths[t]? = some d) : idxOfDist lengths d = t := by
  have htl : t < lengths.length := by
    rcases Nat.lt_or_ge t lengths.length with h | h
    · exact h
    · rw [List.getElem?_eq_none h] at ht; cases ht
  unfold idxOfDist
  simp only []
  rw [if_neg (by omega)]
  rw [bsLoop_hit laws lengths hs t d ht lengths.length 0 lengths.length (Nat.le_refl _) (Nat.zero_le _)
    (by omega) (by omega)]
  have hx : lengths.getD t 0 = d := by rw [List.getD_eq_getElem?_getD, ht]; rfl
  rw [hx]
  simp [cmpLen, laws.lt_irrefl]

/-- interpolating at the far end of a non-degenerate segment gives that vertex. -/
theorem interpolate_at_vertex (laws : PosLaws P F) (path : List (Pos P)) (lengths : List F) (t : Nat)
    (p0 p1 : Pos P) (d0 d1 : F) (ht : t ≠ 0) (hp1 : path[t]? = some p1) (hp0 : path[t - 1]? = some p0)
    (hd0 : lengths[t - 1]? = some d0) (hd1 : lengths[t]? = some d1) (hlt : Scalar.lt d0 d1 = true)
    (hdeg : Scalar.le (Scalar.abs (d0 - d1)) (Scalar.eps : F) = false) :
    interpolateVertices path lengths t d1 = .ok p1 := by
  rw [interpolate_formula path lengths t d1 p0 p1 d0 d1 ht hp1 hp0 hd0 hd1 hdeg,
    laws.div_self_of_lt d0 d1 hlt, laws.down_one]
  congr 1
  show Pos.add p0 (Pos.smul (Pos.sub p1 p0) 1) = p1
  simp only [Pos.add, Pos.smul, Pos.sub, laws.mul_one, laws.add_sub_cancel]

/-- **`position_at_vertex`** (exact arithmetic): if the progress maps to the cumulative length of vertex `t`
exactly, the position is that vertex — on strictly increasing lengths whose consecutive differences exceed
`EPSILON` (otherwise the code deliberately returns the segment's start). -/
theorem position_at_vertex (laws : PosLaws P F) (path : List (Pos P)) (lengths : List F)
    (hs : StrictSorted lengths) (hdeg : ∀ i x y, lengths[i]? = some x → lengths[i + 1]? = some y →
      Scalar.le (Scalar.abs (x - y)) (Scalar.eps : F) = false)
    (hlen : path.length ≤ lengths.length) (q : F) (t : Nat) (pt : Pos P) (hpt : path[t]? = some pt)
    (hq : lengths[t]? = some (progressToDist lengths q)) :
    positionAt path lengths q = .ok pt := by
  unfold positionAt
  simp only []
  rw [idxOfDist_hit laws lengths hs t _ hq]
  have htp : t < path.length := by
    rcases Nat.lt_or_ge t path.length with h | h
    · exact h
    · rw [List.getElem?_eq_none h] at hpt; cases hpt
  cases t with
  | zero =>
    cases path with
    | nil => simp at htp
    | cons a rest => simp at hpt; subst hpt; rfl
  | succ k =>
    have hp0 : path[k]? = some path[k] := List.getElem?_eq_getElem (by omega)
    have hd0 : lengths[k]? = some lengths[k] := List.getElem?_eq_getElem (by omega)
    exact interpolate_at_vertex laws path lengths (k + 1) path[k] pt lengths[k] _ (by omega) hpt
      (by simpa using hp0) (by simpa using hd0) hq (hs k (k + 1) _ _ (by omega) hd0 hq)
      (hdeg k _ _ hd0 hq)

/-- `progress_to_dist(0) = 0` and `progress_to_dist(1) = dist` in exact arithmetic. -/
theorem progressToDist_zero_one (laws : PosLaws P F) (lengths : List F) :
    progressToDist lengths 0 = 0 ∧ progressToDist lengths 1 = dist lengths := by
  unfold progressToDist Scalar.clamp
  simp [laws.lt_irrefl, laws.one_not_lt_zero, laws.zero_mul, laws.one_mul]

/-- **`position_at_zero_first`** (exact arithmetic, strictly increasing lengths starting at `0.0`). -/
theorem position_at_zero_first (laws : PosLaws P F) (p : Pos P) (path : List (Pos P)) (lengths : List F)
    (hs : StrictSorted ((0 : F) :: lengths)) :
    positionAt (p :: path) ((0 : F) :: lengths) 0 = .ok p := by
  apply position_first_of_idx_zero
  rw [(progressToDist_zero_one laws _).1]
  exact idxOfDist_hit laws _ hs 0 0 rfl

/-- **`position_at_one_last`** (exact arithmetic): on a curve with as many lengths as path points, strictly
increasing by more than `EPSILON`, progress 1 is the last path point. -/
theorem position_at_one_last (laws : PosLaws P F) (path : List (Pos P)) (lengths : List F)
    (hs : StrictSorted lengths) (hdeg : ∀ i x y, lengths[i]? = some x → lengths[i + 1]? = some y →
      Scalar.le (Scalar.abs (x - y)) (Scalar.eps : F) = false)
    (hlen : path.length = lengths.length) (hne : path ≠ []) :
    positionAt path lengths 1 = .ok (path.getLast hne) := by
  have hpos : 0 < path.length := List.length_pos_iff.mpr hne
  apply position_at_vertex laws path lengths hs hdeg (by omega) 1 (path.length - 1)
  · rw [List.getLast_eq_getElem, List.getElem?_eq_getElem (by omega)]
  · rw [(progressToDist_zero_one laws _).2]
    unfold dist
    rw [List.getLast?_eq_getElem?, hlen]
    cases h : lengths[lengths.length - 1]? with
    | none => rw [List.getElem?_eq_none_iff] at h; omega
    | some x => rfl

/-- the laws are satisfiable: exact rational arithmetic for both scalars. -/
theorem posLaws_rat : PosLaws Rat Rat where
  lt_irrefl a := by
    show decide (a < a) = false
    simp [Rat.lt_irrefl]
  lt_asymm a b h := by
    have h' : a < b := by simpa [Scalar.lt] using h
    show decide (b < a) = false
    simp only [decide_eq_false_iff_not]
    exact Rat.not_lt.mpr (Rat.le_of_lt h')
  one_not_lt_zero := by decide
  zero_mul x := Rat.zero_mul x
  one_mul x := Rat.one_mul x
  div_self_of_lt a b h := by
    have h' : a < b := by simpa [Scalar.lt] using h
    have hne : b - a ≠ 0 := by
      intro h0
      have hb : b = a := by
        have h1 : b - a + a = 0 + a := by rw [h0]
        rw [Rat.sub_eq_add_neg, Rat.add_assoc, Rat.neg_add_cancel, Rat.add_zero, Rat.zero_add] at h1
        exact h1
      rw [hb] at h'
      exact Rat.lt_irrefl h'
    show (b - a) / (b - a) = ((1 : Nat) : Rat)
    rw [Rat.div_def, Rat.mul_inv_cancel _ hne]; rfl
  down_one := rfl
  mul_one x := Rat.mul_one x
  add_sub_cancel a b := by
    show a + (b - a) = b
    rw [Rat.sub_eq_add_neg, Rat.add_comm b, ← Rat.add_assoc, Rat.add_neg_cancel, Rat.zero_add]

/-- non-vacuity of the hypotheses: a two-point curve over `Rat`. -/
example : StrictSorted ([0, 5] : List Rat) := by
  intro i j x y hij hx hy
  match i, j, hij with
  | 0, 1, _ => simp at hx hy; subst hx hy; decide
  | 0, j + 2, _ => simp at hy
  | i + 1, j + 2, _ => simp at hy
  | i + 1, 1, h => omega

/-- the statement that remains unproved: the position never moves farther than the arc length between two
progress values, under the curve invariant `|path[i] − path[i−1]| ≤ len[i] − len[i−1]`. It needs norm and order
laws of the plane (triangle inequality); tested by the harness oracle with float slack. -/
def position_lipschitz_statement (P F : Type) [Scalar P] [Scalar F] [Cvt P F] : Prop :=
  ∀ (path : List (Pos P)) (lengths : List F) (q r : F) (a b : Pos P),
    path.length = lengths.length →
    (∀ i p p' x y, path[i]? = some p → path[i + 1]? = some p' → lengths[i]? = some x → lengths[i + 1]? = some y →
      Scalar.le (Cvt.up (Pos.distance F p' p)) (y - x) = true) →
    Scalar.le 0 q = true → Scalar.le q r = true → Scalar.le r 1 = true →
    positionAt path lengths q = .ok a → positionAt path lengths r = .ok b →
    Scalar.le (Cvt.up (Pos.distance F b a)) ((r - q) * dist lengths) = true

/-! ### non-vacuity (toy arithmetic) -/
section NonVacuity
open Rosu.Toy

example : Scalar.lt (-3 : Int) (0 : Int) = true := by decide
example : Scalar.lt (7 : Int) (0 : Int) = false ∧ Scalar.lt (1 : Int) (7 : Int) = true := by decide
example : idxOfDist ([0, 25, 50] : List Int) 30 = 2 ∧ idxOfDist ([0, 25, 50] : List Int) 25 = 1 ∧
    idxOfDist ([0, 25, 50] : List Int) 0 = 0 ∧ idxOfDist ([0, 25, 50] : List Int) 99 = 3 := by decide
example : positionAt [pt 0 0, pt 3 4, pt 6 8] ([0, 25, 50] : List Int) 1 = .ok (pt 6 8) := by rfl
example : Scalar.le (Scalar.abs ((0 : Int) - 25)) (Scalar.eps : Int) = false := by decide

end NonVacuity

end Rosu.C19
