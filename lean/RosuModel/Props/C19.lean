/-
  Props/C19.lean — position along a curve (`position_at`, `progress_to_dist`, `idx_of_dist`,
  `interpolate_vertices`). Structural theorems: every `Scalar` instance, hence the IEEE one.
  Law-dependent statements (end points, vertices, Lipschitz) are not proved; they are tested by the harness oracle.
-/
import RosuModel.Model.Curve
import RosuModel.Lemmas.Outcome
import RosuModel.Lemmas.ToyInt
namespace Rosu.C19
open Rosu Rosu.Curve

variable {P F : Type} [Scalar P] [Scalar F] [Cvt P F]

/-! ### clamping -/

/-- `progress_to_dist` is `clamp(progress, 0, 1) * dist`. -/
theorem progress_clamped (lengths : List F) (q : F) :
    progressToDist lengths q = Scalar.clamp q 0 1 * dist lengths := rfl

/-- progress below 0 behaves exactly like progress 0 (whatever `lt 1 0` is in the arithmetic). -/
theorem progress_below_clamped (lengths : List F) (q : F) (h : Scalar.lt q (0 : F) = true) :
    progressToDist lengths q = progressToDist lengths 0 := by
  unfold progressToDist Scalar.clamp
  simp only [h, if_true]
  cases Scalar.lt (0 : F) 0 <;> simp

/-- progress above 1 behaves exactly like progress 1. -/
theorem progress_above_clamped (lengths : List F) (q : F) (h0 : Scalar.lt q (0 : F) = false)
    (h : Scalar.lt (1 : F) q = true) : progressToDist lengths q = progressToDist lengths 1 := by
  unfold progressToDist Scalar.clamp
  simp only [h0, h, if_true, Bool.false_eq_true, if_false]
  cases h10 : Scalar.lt (1 : F) 0 <;> cases h11 : Scalar.lt (1 : F) 1 <;> simp [h10, h11]

/-- hence position, index and distance queries cannot tell an out-of-range progress from its clamp. -/
theorem position_clamped (path : List (Pos P)) (lengths : List F) (q : F) :
    (Scalar.lt q (0 : F) = true → positionAt path lengths q = positionAt path lengths 0) ∧
    (Scalar.lt q (0 : F) = false → Scalar.lt (1 : F) q = true →
      positionAt path lengths q = positionAt path lengths 1) := by
  constructor
  · intro h; unfold positionAt; rw [progress_below_clamped lengths q h]
  · intro h0 h; unfold positionAt; rw [progress_above_clamped lengths q h0 h]

/-- inside the range (`!(q < 0)` and `!(1 < q)`) the distance is `progress * dist` — the very product the
code computes, for every arithmetic (a NaN progress also takes this arm). -/
theorem progress_to_dist_linear (lengths : List F) (q : F) (h0 : Scalar.lt q (0 : F) = false)
    (h1 : Scalar.lt (1 : F) q = false) : progressToDist lengths q = q * dist lengths := by
  unfold progressToDist Scalar.clamp
  simp [h0, h1]

/-- `dist` is the last cumulative length, `0.0` for no lengths. -/
theorem dist_concat (ls : List F) (x : F) : dist (ls ++ [x]) = x := by simp [dist]
theorem dist_nil : dist ([] : List F) = 0 := rfl

/-! ### binary search: probes in range, result in range, fuel -/

/-- every `get_unchecked(mid)` of the search loop is in range, and the final `base` is a valid index. -/
theorem bsLoop_inv (lengths : List F) (d : F) (fuel base size : Nat)
    (h : base + size ≤ lengths.length) (hs : 1 ≤ size) :
    bsLoop lengths d fuel base size < lengths.length := by
  induction fuel generalizing base size with
  | zero => simp only [bsLoop]; omega
  | succ n ih =>
    simp only [bsLoop]
    split
    · apply ih
      · split <;> omega
      · omega
    · omega

/-- the probe sequence never leaves the slice: in every round `mid = base + size/2 < len`. -/
theorem bs_probe_in_range (lengths : List F) (base size : Nat) (h : base + size ≤ lengths.length)
    (hs : 1 < size) : base + size / 2 < lengths.length := by omega

/-- `idx_of_dist` returns an index in `0..=len`. -/
theorem idxOfDist_le (lengths : List F) (d : F) : idxOfDist lengths d ≤ lengths.length := by
  unfold idxOfDist
  simp only []
  split
  · omega
  · rename_i hne
    have := bsLoop_inv lengths d lengths.length 0 lengths.length (by omega) (by omega)
    split
    · omega
    · split <;> omega

/-- the fuel handed to the loop (`len`) suffices: more fuel changes nothing. -/
theorem bsLoop_fuel (lengths : List F) (d : F) (fuel k base size : Nat) (h : size ≤ fuel) :
    bsLoop lengths d (fuel + k) base size = bsLoop lengths d fuel base size := by
  induction fuel generalizing base size with
  | zero =>
    have : size = 0 := by omega
    subst this
    cases k <;> simp [bsLoop]
  | succ n ih =>
    have e : n + 1 + k = (n + k) + 1 := by omega
    rw [e]
    simp only [bsLoop]
    split
    · apply ih; omega
    · rfl

/-- on an empty slice the search answers `0` (`Err(0)`). -/
theorem idxOfDist_nil (d : F) : idxOfDist ([] : List F) d = 0 := rfl

/-! ### `interpolate_vertices`: guards -/

/-- an empty path yields `Pos::default()` for every index and distance. -/
theorem empty_path_default (lengths : List F) (i : Nat) (d q : F) :
    interpolateVertices ([] : List (Pos P)) lengths i d = .ok Pos.zero ∧
    positionAt ([] : List (Pos P)) lengths q = .ok Pos.zero := ⟨rfl, rfl⟩

/-- index 0 yields the first path point. -/
theorem interpolate_idx_zero (p : Pos P) (path : List (Pos P)) (lengths : List F) (d : F) :
    interpolateVertices (p :: path) lengths 0 d = .ok p := rfl

/-- an index beyond the path yields the last path point. -/
theorem interpolate_beyond_last (path : List (Pos P)) (lengths : List F) (i : Nat) (d : F)
    (hne : path ≠ []) (hi : path.length ≤ i) :
    interpolateVertices path lengths i d = .ok (path.getLast hne) := by
  have hpos : 0 < path.length := List.length_pos_iff.mpr hne
  unfold interpolateVertices
  have h1 : path.isEmpty = false := by cases path <;> simp_all
  have h2 : ¬ i = 0 := by omega
  have h3 : path[i]? = none := List.getElem?_eq_none hi
  simp only [h1, Bool.false_eq_true, if_false, h2, h3]
  rw [usub_eq _ _ (by omega), Outcome.ok_bind, getI_eq _ _ (by omega)]
  congr 1
  rw [List.getLast_eq_getElem]

/-- **index guards**: on a curve (`lengths` at least as long as `path`, theorem
`C16.lengths_path_aligned`) `interpolate_vertices` never indexes out of range, for any `i` and `d`;
the result is `path[0]`, the last point, `path[i-1]`, or the interpolation formula. -/
theorem interpolate_total (path : List (Pos P)) (lengths : List F) (i : Nat) (d : F)
    (hlen : path.length ≤ lengths.length) : ∃ p, interpolateVertices path lengths i d = .ok p := by
  unfold interpolateVertices
  split
  · exact ⟨_, rfl⟩
  · rename_i hne
    have hpos : 0 < path.length := by
      cases path with
      | nil => simp at hne
      | cons a t => simp
    split
    · exact ⟨_, getI_eq _ _ hpos⟩
    · rename_i hi
      split
      · rw [usub_eq _ _ (by omega), Outcome.ok_bind, getI_eq _ _ (by omega)]; exact ⟨_, rfl⟩
      · rename_i p1 hp1
        have hil : i < path.length := by
          rcases Nat.lt_or_ge i path.length with h | h
          · exact h
          · rw [List.getElem?_eq_none h] at hp1; cases hp1
        rw [getI_eq _ _ (by omega), Outcome.ok_bind, getI_eq _ _ (by omega), Outcome.ok_bind,
          getI_eq _ _ (by omega), Outcome.ok_bind]
        split <;> exact ⟨_, rfl⟩

/-- `position_at` is total on a curve. -/
theorem positionAt_total (path : List (Pos P)) (lengths : List F) (q : F)
    (hlen : path.length ≤ lengths.length) : ∃ p, positionAt path lengths q = .ok p :=
  interpolate_total path lengths _ _ hlen

/-- when the search lands on index 0 the position is the first point. -/
theorem position_first_of_idx_zero (p : Pos P) (path : List (Pos P)) (lengths : List F) (q : F)
    (h : idxOfDist lengths (progressToDist lengths q) = 0) :
    positionAt (p :: path) lengths q = .ok p := by
  unfold positionAt; simp only [h]; rfl

/-- a segment whose cumulative lengths differ by at most `EPSILON` is not interpolated: its start is returned. -/
theorem interpolate_degenerate (path : List (Pos P)) (lengths : List F) (i : Nat) (d : F) (p0 p1 : Pos P)
    (d0 d1 : F) (hi : i ≠ 0) (hp1 : path[i]? = some p1) (hp0 : path[i - 1]? = some p0)
    (hd0 : lengths[i - 1]? = some d0) (hd1 : lengths[i]? = some d1)
    (hdeg : Scalar.le (Scalar.abs (d0 - d1)) (Scalar.eps : F) = true) :
    interpolateVertices path lengths i d = .ok p0 := by
  unfold interpolateVertices
  have hne : path.isEmpty = false := by cases path <;> simp_all
  simp only [hne, Bool.false_eq_true, if_false, hi, hp1]
  rw [getI_of_some _ _ _ hp0, Outcome.ok_bind, getI_of_some _ _ _ hd0, Outcome.ok_bind,
    getI_of_some _ _ _ hd1, Outcome.ok_bind]
  simp [hdeg]

/-- the interpolation formula itself: `p0 + (p1 - p0) * ((d - d0) / (d1 - d0)) as f32`. -/
theorem interpolate_formula (path : List (Pos P)) (lengths : List F) (i : Nat) (d : F) (p0 p1 : Pos P)
    (d0 d1 : F) (hi : i ≠ 0) (hp1 : path[i]? = some p1) (hp0 : path[i - 1]? = some p0)
    (hd0 : lengths[i - 1]? = some d0) (hd1 : lengths[i]? = some d1)
    (hdeg : Scalar.le (Scalar.abs (d0 - d1)) (Scalar.eps : F) = false) :
    interpolateVertices path lengths i d =
      .ok (p0 + (p1 - p0).smul (Cvt.down ((d - d0) / (d1 - d0)))) := by
  unfold interpolateVertices
  have hne : path.isEmpty = false := by cases path <;> simp_all
  simp only [hne, Bool.false_eq_true, if_false, hi, hp1]
  rw [getI_of_some _ _ _ hp0, Outcome.ok_bind, getI_of_some _ _ _ hd0, Outcome.ok_bind,
    getI_of_some _ _ _ hd1, Outcome.ok_bind]
  simp [hdeg]

/-! ### non-vacuity (toy arithmetic) -/
section NonVacuity
open Rosu.Toy

example : Scalar.lt (-3 : Int) (0 : Int) = true := by decide
example : Scalar.lt (7 : Int) (0 : Int) = false ∧ Scalar.lt (1 : Int) (7 : Int) = true := by decide
example : idxOfDist ([0, 25, 50] : List Int) 30 = 2 ∧ idxOfDist ([0, 25, 50] : List Int) 25 = 1 ∧
    idxOfDist ([0, 25, 50] : List Int) 0 = 0 ∧ idxOfDist ([0, 25, 50] : List Int) 99 = 3 := by decide
example : positionAt [pt 0 0, pt 3 4, pt 6 8] ([0, 25, 50] : List Int) 1 = .ok (pt 6 8) := by rfl
example : Scalar.le (Scalar.abs ((0 : Int) - 25)) (Scalar.eps : Int) = false := by decide

end NonVacuity

end Rosu.C19
