/-
  Props/IeeeFalse.lean — the hypothesis structures that are FALSE of the driver's IEEE instances (`Float` = f64, `Float32` =
  f32), each refuted in the kernel on a concrete witness (closed float terms evaluate in Lean 4.33: `decide +kernel`).

  A theorem that takes one of these structures says nothing about the running code; it is a statement about exact
  arithmetic (ℚ / ℝ / the toy scalars), as its file header says. This file turns "says" into "proved", with the witness:

  | structure                         | field refuted     | witness                                                        |
  |-----------------------------------|-------------------|----------------------------------------------------------------|
  | `RtTiming.EpsLaws Float`          | `eq_of_close`     | `+0.0`, `−0.0`: `|x − y| = 0 < ε`, different bit patterns      |
  | `RtTiming.EpsLaws Float`          | `refl`            | `+∞`: `|∞ − ∞|` is NaN                                         |
  | `RtTiming.GroupLaws Float`        | `same_eq`         | `+0.0`, `−0.0` (its `same_refl` is TRUE: `C12.sameGroup_self_float`) |
  | `C15.ShiftLaws Float 0`           | `key_lt`          | `−0.0 + 0 = +0.0`: the `total_cmp` keys of `−0`, `+0` collapse  |
  | `C16.SumLaws Float32 Float`       | `add_zero`        | `−0.0 + 0.0 = +0.0 ≠ −0.0`                                     |
  | `C16.OrdLaws Float`               | `sub_le`          | `a = 1`, `s = 2⁻⁵³(1+2⁻⁵²)`, `b = 1 + 2⁻⁵²`: `b ≤ a + s` (rounds up) but `b − a = 2⁻⁵² > s` |
  | `C16.RayLaws Float32`             | `mul_assoc`       | `(1e30 · 1e30) · 1e-30 = ∞`, `1e30 · (1e30 · 1e-30) = 1e30`    |
  | `C16.MonoLaws Float32 Float`      | `le_add`          | `a = NaN`                                                      |
  | `C19.PosLaws Float32 Float`       | `zero_mul`        | `0 · NaN` is NaN                                               |
  | `C20.OrderedFieldLaws Float`      | `lt_of_not_le`    | NaN (Props/C20Ieee.lean)                                       |
-/
import RosuModel.Props.C15Shift
import RosuModel.Props.C16
import RosuModel.Props.C19
import RosuModel.Props.C20Ieee
import RosuModel.Lemmas.RtTimingRt
import RosuModel.Lemmas.RtTimelineRun
import RosuModel.Lemmas.FloatModelCompare
namespace Rosu.IeeeFalse
open Rosu

/-- `+0.0`, `−0.0`, `+∞`, NaN as doubles. -/
def pz : Float := Float.ofBits 0x0000000000000000
def nz : Float := Float.ofBits 0x8000000000000000
def pinf : Float := Float.ofBits 0x7FF0000000000000
def nan : Float := Float.ofBits 0x7FF8000000000000

theorem pz_ne_nz : pz ≠ nz := by decide +kernel

/-! ### `EpsLaws`, `GroupLaws` (timing round trip, Lemmas/RtTimingRt.lean, RtTimelineRun.lean) -/

/-- both zeros are closer than `ε` and are different values. -/
theorem close_zeros : Scalar.lt (Scalar.abs (pz - nz)) (Scalar.eps : Float) = true := by decide +kernel

theorem epsLaws_float_false : ¬ RtTiming.EpsLaws Float :=
  fun E => pz_ne_nz (E.eq_of_close pz nz close_zeros)

/-- the other field fails too, at `+∞`. -/
theorem epsLaws_refl_float_false : ¬ (∀ x : Float, Scalar.lt (Scalar.abs (x - x)) (Scalar.eps : Float) = true) := by
  intro h
  have := h pinf
  revert this
  decide +kernel

theorem sameGroup_zeros : sameGroup pz nz = true := by decide +kernel

theorem groupLaws_float_false : ¬ RtTiming.GroupLaws Float :=
  fun G => pz_ne_nz (G.same_eq pz nz sameGroup_zeros)

/-! ### `ShiftLaws Float 0` (C15 shift invariance) -/

theorem shiftLaws_zero_float_false : ¬ C15.ShiftLaws Float (0 : Float) := by
  intro L
  have h := (L.key_lt nz pz).mpr (by decide +kernel)
  revert h
  decide +kernel

/-! ### `SumLaws`, `OrdLaws`, `RayLaws`, `MonoLaws` (C16) -/

theorem sumLaws_float_false : ¬ C16.SumLaws Float32 Float := by
  intro L
  have h := L.add_zero nz
  revert h
  decide +kernel

/-- `a = 1`, `s = 2⁻⁵³·(1+2⁻⁵²)`, `b = 1 + 2⁻⁵²`. -/
def oa : Float := 1
def os : Float := Float.ofBits 0x3CA0000000000001
def ob : Float := Float.ofBits 0x3FF0000000000001

theorem ordLaws_float_false : ¬ C16.OrdLaws Float := by
  intro L
  have h := L.sub_le oa ob os (by decide +kernel)
  revert h
  decide +kernel

theorem rayLaws_float32_false : ¬ C16.RayLaws Float32 := by
  intro L
  have h := L.mul_assoc (1e30 : Float32) (1e30 : Float32) (1e-30 : Float32)
  revert h
  decide +kernel

theorem monoLaws_float_false : ¬ C16.MonoLaws Float32 Float := by
  intro L
  have h := L.le_add nan (1 : Float) (by decide +kernel)
  revert h
  decide +kernel

/-! ### `PosLaws` (C19) -/

theorem posLaws_float_false : ¬ C19.PosLaws Float32 Float := by
  intro L
  have h := L.zero_mul nan
  revert h
  decide +kernel

/-! ### `OrderedFieldLaws` (C20) — Props/C20Ieee.lean -/

theorem orderedFieldLaws_float_false : ¬ C20.OrderedFieldLaws Float := C20.orderedFieldLaws_float_false

end Rosu.IeeeFalse
