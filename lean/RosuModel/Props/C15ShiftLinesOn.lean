/-
  Props/C15ShiftLinesOn.lean — C15, shift invariance at the line level RELATIVE TO A DOMAIN `S` of times
  (Props/C15ShiftLines.lean re-derived under `ShiftLawsOn S k`, Lemmas/ShiftLawsOn.lean).

  The shift relations on lines are those of Props/C15ShiftLines.lean with one more conjunct: every time field parses to a
  value `t ∈ S` (and to `t + k` in the other file). The fold over the lines carries, beside `StateRel`, the facts that
  every control-point / pending-group time, `pending_control_points_time` (while observed) and every break end of the
  UNSHIFTED state lie in `S`. The finaliser needs in addition the derived times of the objects (`ObjIn`: `start + 5`,
  `start + duration (+ 5)`); they are a hypothesis on the unshifted parse result (`S` is not closed under `+`).
-/
import RosuModel.Props.C15ShiftLines
import RosuModel.Props.C15ShiftOn
namespace Rosu.C15
open Rosu Scalar

set_option linter.unusedSectionVars false

variable {F P : Type} [Scalar F] [Scalar P] {S : F → Prop} {k : F}

/-! ### timing-point lines -/

/-- `TpRel` with the domain facts: the unshifted collection, pending group and (while the group is not empty)
`pending_control_points_time` have their times in `S`. -/
def TpRelOn (S : F → Prop) (k : F) (st st' : TimingPointsState F P) : Prop :=
  st'.general = st.general ∧ st'.controlPoints = shCP k st.controlPoints ∧
  st'.pending = shPending k st.pending ∧
  ((st'.pendingTime = st.pendingTime + k ∧ S st.pendingTime) ∨ st.pending = Pending.empty) ∧
  CPIn S st.controlPoints ∧ PendingIn S st.pending

theorem TpRelOn.toRel {st st' : TimingPointsState F P} (h : TpRelOn S k st st') : TpRel k st st' :=
  ⟨h.1, h.2.1, h.2.2.1, h.2.2.2.1.elim (fun x => Or.inl x.1) Or.inr⟩

theorem tpRelOn_create : TpRelOn S k (TimingPointsState.create : TimingPointsState F P) TimingPointsState.create :=
  ⟨rfl, rfl, rfl, Or.inr rfl, cpIn_empty, pendingIn_empty⟩

theorem maybeFlush_rel_on (L : ShiftLawsOn S k) (st st' : TimingPointsState F P) (h : TpRelOn S k st st') (t : F) (ht : S t) :
    TpRelOn S k (maybeFlush st t) (maybeFlush st' (t + k)) := by
  obtain ⟨hg, hc, hp, hpt, hcp, hpd⟩ := h
  rcases hpt with ⟨hpt, hS⟩ | hemp
  · have hs : sameGroup (t + k) st'.pendingTime = sameGroup t st.pendingTime := by
      unfold sameGroup; rw [hpt, L.sub_shift t st.pendingTime ht hS]
    unfold maybeFlush
    rw [hs]
    split
    · exact ⟨hg, hc, hp, Or.inl ⟨hpt, hS⟩, hcp, hpd⟩
    · obtain ⟨f1, f2⟩ := flushInto_shift_on L st.controlPoints hcp st.pending hpd
      refine ⟨hg, ?_, rfl, Or.inr rfl, f2, pendingIn_empty⟩
      show flushInto st'.controlPoints st'.pending = shCP k (flushInto st.controlPoints st.pending)
      rw [hc, hp, f1]
  · have hemp' : st'.pending = Pending.empty := by rw [hp, hemp]; rfl
    have e1 : maybeFlush st t = st := by unfold maybeFlush; split; rfl; exact flush_empty st hemp
    have e2 : maybeFlush st' (t + k) = st' := by unfold maybeFlush; split; rfl; exact flush_empty st' hemp'
    rw [e1, e2]
    exact ⟨hg, hc, hp, Or.inr hemp, hcp, hpd⟩

theorem pushSlot_some {α : Type} (slot : Option α) (p q : α) (tc : Bool) (h : pushSlot slot p tc = some q) :
    q = p ∨ slot = some q := by
  cases tc <;> cases slot <;> simp [pushSlot] at h <;> simp [h]

theorem addTimingCP_rel_on (L : ShiftLawsOn S k) (st st' : TimingPointsState F P) (h : TpRelOn S k st st') (t : F) (ht : S t)
    (p : TimingPoint F) (hp : S p.time) (tc : Bool) :
    TpRelOn S k (addTimingCP st t p tc) (addTimingCP st' (t + k) (shTP k p) tc) := by
  obtain ⟨hg, hc, hpe, _, hcp, hpd⟩ := maybeFlush_rel_on L st st' h t ht
  refine ⟨hg, hc, ?_, Or.inl ⟨rfl, ht⟩, hcp, ?_⟩
  · show ({ (maybeFlush st' (t + k)).pending with timing := _ } : Pending F) = shPending k { (maybeFlush st t).pending with timing := _ }
    rw [hpe]
    simp only [shPending, pushSlot_map]
  · refine ⟨?_, hpd.2.1, hpd.2.2.1, hpd.2.2.2⟩
    intro q hq
    rcases pushSlot_some _ _ _ _ hq with e | e
    · exact e ▸ hp
    · exact hpd.1 q e

theorem addDifficultyCP_rel_on (L : ShiftLawsOn S k) (st st' : TimingPointsState F P) (h : TpRelOn S k st st') (t : F) (ht : S t)
    (p : DifficultyPoint F) (hp : S p.time) (tc : Bool) :
    TpRelOn S k (addDifficultyCP st t p tc) (addDifficultyCP st' (t + k) (shDP k p) tc) := by
  obtain ⟨hg, hc, hpe, _, hcp, hpd⟩ := maybeFlush_rel_on L st st' h t ht
  refine ⟨hg, hc, ?_, Or.inl ⟨rfl, ht⟩, hcp, ?_⟩
  · show ({ (maybeFlush st' (t + k)).pending with difficulty := _ } : Pending F) = shPending k { (maybeFlush st t).pending with difficulty := _ }
    rw [hpe]
    simp only [shPending, pushSlot_map]
  · refine ⟨hpd.1, ?_, hpd.2.2.1, hpd.2.2.2⟩
    intro q hq
    rcases pushSlot_some _ _ _ _ hq with e | e
    · exact e ▸ hp
    · exact hpd.2.1 q e

theorem addSampleCP_rel_on (L : ShiftLawsOn S k) (st st' : TimingPointsState F P) (h : TpRelOn S k st st') (t : F) (ht : S t)
    (p : SamplePoint F) (hp : S p.time) (tc : Bool) :
    TpRelOn S k (addSampleCP st t p tc) (addSampleCP st' (t + k) (shSP k p) tc) := by
  obtain ⟨hg, hc, hpe, _, hcp, hpd⟩ := maybeFlush_rel_on L st st' h t ht
  refine ⟨hg, hc, ?_, Or.inl ⟨rfl, ht⟩, hcp, ?_⟩
  · show ({ (maybeFlush st' (t + k)).pending with sample := _ } : Pending F) = shPending k { (maybeFlush st t).pending with sample := _ }
    rw [hpe]
    simp only [shPending, pushSlot_map]
  · refine ⟨hpd.1, hpd.2.1, hpd.2.2.1, ?_⟩
    intro q hq
    rcases pushSlot_some _ _ _ _ hq with e | e
    · exact e ▸ hp
    · exact hpd.2.2.2 q e

theorem addEffectCP_rel_on (L : ShiftLawsOn S k) (st st' : TimingPointsState F P) (h : TpRelOn S k st st') (t : F) (ht : S t)
    (p : EffectPoint F) (hp : S p.time) (tc : Bool) :
    TpRelOn S k (addEffectCP st t p tc) (addEffectCP st' (t + k) (shEP k p) tc) := by
  obtain ⟨hg, hc, hpe, _, hcp, hpd⟩ := maybeFlush_rel_on L st st' h t ht
  refine ⟨hg, hc, ?_, Or.inl ⟨rfl, ht⟩, hcp, ?_⟩
  · show ({ (maybeFlush st' (t + k)).pending with effect := _ } : Pending F) = shPending k { (maybeFlush st t).pending with effect := _ }
    rw [hpe]
    simp only [shPending, pushSlot_map]
  · refine ⟨hpd.1, hpd.2.1, ?_, hpd.2.2.2⟩
    intro q hq
    rcases pushSlot_some _ _ _ _ hq with e | e
    · exact e ▸ hp
    · exact hpd.2.2.1 q e

theorem effectPoint_time (mode : GameMode) (l : TpLine F) : (l.effectPoint mode).time = l.time := by
  unfold TpLine.effectPoint
  split <;> rfl

/-- the mutating tail of `parse_timing_points` on related states, for a line `k` later whose time is in `S`. -/
theorem applyTpLine_rel_on (L : ShiftLawsOn S k) (st st' : TimingPointsState F P) (h : TpRelOn S k st st') (l : TpLine F)
    (hl : S l.time) : TpRelOn S k (applyTpLine st l) (applyTpLine st' (shTpLine k l)) := by
  have h1 : TpRelOn S k (if l.timingChange then addTimingCP st l.time l.timingPoint l.timingChange else st)
      (if l.timingChange then addTimingCP st' (l.time + k) (shTP k l.timingPoint) l.timingChange else st') := by
    split
    · exact addTimingCP_rel_on L st st' h _ hl _ hl _
    · exact h
  have h2 := addDifficultyCP_rel_on L _ _ h1 l.time hl l.difficultyPoint hl l.timingChange
  have h3 := addSampleCP_rel_on L _ _ h2 l.time hl l.samplePoint hl l.timingChange
  generalize hs3 : addSampleCP (addDifficultyCP (if l.timingChange then addTimingCP st l.time l.timingPoint l.timingChange else st)
      l.time l.difficultyPoint l.timingChange) l.time l.samplePoint l.timingChange = s3 at h3
  generalize hs3' : addSampleCP (addDifficultyCP
      (if l.timingChange then addTimingCP st' (l.time + k) (shTP k l.timingPoint) l.timingChange else st')
      (l.time + k) (shDP k l.difficultyPoint) l.timingChange) (l.time + k) (shSP k l.samplePoint) l.timingChange = s3' at h3
  have g1 : applyTpLine st l =
      { addEffectCP s3 l.time (l.effectPoint s3.general.mode) l.timingChange with pendingTime := l.time } := by
    rw [← hs3]; rfl
  have g2 : applyTpLine st' (shTpLine k l) =
      { addEffectCP s3' (l.time + k) ((shTpLine k l).effectPoint s3'.general.mode) l.timingChange with
          pendingTime := l.time + k } := by
    rw [← hs3']; rfl
  rw [g1, g2, effectPoint_shift, h3.1]
  have h4 := addEffectCP_rel_on L s3 s3' h3 l.time hl (l.effectPoint s3.general.mode)
    (by rw [effectPoint_time]; exact hl) l.timingChange
  exact ⟨h4.1, h4.2.1, h4.2.2.1, Or.inl ⟨rfl, hl⟩, h4.2.2.2.2.1, h4.2.2.2.2.2⟩

/-- two timing-point lines with the same fields except the time, which parses to `t ∈ S` resp. `t + k`, or is rejected with the
same error in both. -/
def TpLineShiftOn (S : F → Prop) (k : F) (line line' : Str) : Prop :=
  ∃ timeS timeS' tl,
    splitOn ',' (trimComment line) = timeS :: tl ∧ splitOn ',' (trimComment line') = timeS' :: tl ∧
    ((∃ t : F, (scalarParse timeS : Except NumErr F) = .ok t ∧ (scalarParse timeS' : Except NumErr F) = .ok (t + k) ∧ S t) ∨
     (∃ e : NumErr, (scalarParse timeS : Except NumErr F) = .error e ∧ (scalarParse timeS' : Except NumErr F) = .error e))

theorem parseTpRaw_time (g : GeneralState F P) (timeS : Str) (tl : List Str) (t : F)
    (h : (scalarParse timeS : Except NumErr F) = .ok t) (l : TpLine F) (hl : parseTpRaw g (timeS :: tl) = .ok l) :
    l.time = t := by
  cases tl with
  | nil => cases hl
  | cons beatS rest =>
    unfold parseTpRaw at hl
    simp only [h] at hl
    repeat' split at hl
    all_goals (cases hl; try rfl)

theorem checkNaN_time (l l2 : TpLine F) (h : checkNaN l = .ok l2) : l2 = l := by
  unfold checkNaN at h
  split at h
  · cases h
  · injection h with h; exact h.symm

/-- **parse_line_shift on `S`**, timing-point lines: same result, related states. -/
theorem tp_parse_line_shift_on (L : ShiftLawsOn S k) (st st' : TimingPointsState F P) (h : TpRelOn S k st st')
    (line line' : Str) (hl : TpLineShiftOn S k line line') :
    (parseTimingPoints st' line').1 = (parseTimingPoints st line).1 ∧
      TpRelOn S k (parseTimingPoints st line).2 (parseTimingPoints st' line').2 := by
  obtain ⟨timeS, timeS', tl, hs, hs', hp⟩ := hl
  unfold parseTimingPoints parseTpFields
  rw [hs, hs', h.1]
  rcases hp with ⟨t, ht, ht', hSt⟩ | ⟨e, he, he'⟩
  · rw [parseTpRaw_shift k st.general timeS timeS' tl t ht ht']
    cases hraw : parseTpRaw st.general (timeS :: tl) with
    | error e => exact ⟨rfl, h⟩
    | ok l =>
      simp only [Except.map, checkNaN_shift]
      cases hchk : checkNaN l with
      | error e => exact ⟨rfl, h⟩
      | ok l2 =>
        have e2 : l2 = l := checkNaN_time l l2 hchk
        have e3 : l.time = t := parseTpRaw_time st.general timeS tl t ht l hraw
        exact ⟨rfl, applyTpLine_rel_on L st st' h l2 (by rw [e2, e3]; exact hSt)⟩
  · rw [parseTpRaw_error st.general timeS tl e he, parseTpRaw_error st.general timeS' tl e he']
    exact ⟨rfl, h⟩

end Rosu.C15
