/-
  Props/C15ShiftLinesOn.lean — C15, shift invariance at the line level RELATIVE TO A DOMAIN `S` of times
  (Props/C15ShiftLines.lean re-derived under `ShiftLawsOn S k`, Lemmas/ShiftLawsOn.lean).

  The shift relations on lines are those of Props/C15ShiftLines.lean with one more conjunct: every time field parses to a
  value `t ∈ S` (and to `t + k` in the other file). The fold over the lines carries, beside `StateRel`, the facts that
  every control-point / pending-group time, `pending_control_points_time` (while observed) and every break end of the
  UNSHIFTED state lie in `S`. The finaliser needs in addition the derived times of the objects (`ObjIn`: `start + 5`,
  `start + duration (+ 5)`); they are a hypothesis on the unshifted parse result (`S` is not closed under `+`).
-/
import RosuModel.Props.C15ShiftLines
import RosuModel.Props.C15ShiftOn
namespace Rosu.C15
open Rosu Scalar

set_option linter.unusedSectionVars false

variable {F P : Type} [Scalar F] [Scalar P] {S : F → Prop} {k : F}

/-! ### timing-point lines -/

/-- `TpRel` with the domain facts: the unshifted collection, pending group and (while the group is not empty)
`pending_control_points_time` have their times in `S`. -/
def TpRelOn (S : F → Prop) (k : F) (st st' : TimingPointsState F P) : Prop :=
  st'.general = st.general ∧ st'.controlPoints = shCP k st.controlPoints ∧
  st'.pending = shPending k st.pending ∧
  ((st'.pendingTime = st.pendingTime + k ∧ S st.pendingTime) ∨ st.pending = Pending.empty) ∧
  CPIn S st.controlPoints ∧ PendingIn S st.pending

theorem TpRelOn.toRel {st st' : TimingPointsState F P} (h : TpRelOn S k st st') : TpRel k st st' :=
  ⟨h.1, h.2.1, h.2.2.1, h.2.2.2.1.elim (fun x => Or.inl x.1) Or.inr⟩

theorem tpRelOn_create : TpRelOn S k (TimingPointsState.create : TimingPointsState F P) TimingPointsState.create :=
  ⟨rfl, rfl, rfl, Or.inr rfl, cpIn_empty, pendingIn_empty⟩

theorem maybeFlush_rel_on (L : ShiftLawsOn S k) (st st' : TimingPointsState F P) (h : TpRelOn S k st st') (t : F) (ht : S t) :
    TpRelOn S k (maybeFlush st t) (maybeFlush st' (t + k)) := by
  obtain ⟨hg, hc, hp, hpt, hcp, hpd⟩ := h
  rcases hpt with ⟨hpt, hS⟩ | hemp
  · have hs : sameGroup (t + k) st'.pendingTime = sameGroup t st.pendingTime := by
      unfold sameGroup; rw [hpt, L.sub_shift t st.pendingTime ht hS]
    unfold maybeFlush
    rw [hs]
    split
    · exact ⟨hg, hc, hp, Or.inl ⟨hpt, hS⟩, hcp, hpd⟩
    · obtain ⟨f1, f2⟩ := flushInto_shift_on L st.controlPoints hcp st.pending hpd
      refine ⟨hg, ?_, rfl, Or.inr rfl, f2, pendingIn_empty⟩
      show flushInto st'.controlPoints st'.pending = shCP k (flushInto st.controlPoints st.pending)
      rw [hc, hp, f1]
  · have hemp' : st'.pending = Pending.empty := by rw [hp, hemp]; rfl
    have e1 : maybeFlush st t = st := by unfold maybeFlush; split; rfl; exact flush_empty st hemp
    have e2 : maybeFlush st' (t + k) = st' := by unfold maybeFlush; split; rfl; exact flush_empty st' hemp'
    rw [e1, e2]
    exact ⟨hg, hc, hp, Or.inr hemp, hcp, hpd⟩

theorem pushSlot_some {α : Type} (slot : Option α) (p q : α) (tc : Bool) (h : pushSlot slot p tc = some q) :
    q = p ∨ slot = some q := by
  cases tc <;> cases slot <;> simp [pushSlot] at h <;> simp [h]

theorem addTimingCP_rel_on (L : ShiftLawsOn S k) (st st' : TimingPointsState F P) (h : TpRelOn S k st st') (t : F) (ht : S t)
    (p : TimingPoint F) (hp : S p.time) (tc : Bool) :
    TpRelOn S k (addTimingCP st t p tc) (addTimingCP st' (t + k) (shTP k p) tc) := by
  obtain ⟨hg, hc, hpe, _, hcp, hpd⟩ := maybeFlush_rel_on L st st' h t ht
  refine ⟨hg, hc, ?_, Or.inl ⟨rfl, ht⟩, hcp, ?_⟩
  · show ({ (maybeFlush st' (t + k)).pending with timing := _ } : Pending F) = shPending k { (maybeFlush st t).pending with timing := _ }
    rw [hpe]
    simp only [shPending, pushSlot_map]
  · refine ⟨?_, hpd.2.1, hpd.2.2.1, hpd.2.2.2⟩
    intro q hq
    rcases pushSlot_some _ _ _ _ hq with e | e
    · exact e ▸ hp
    · exact hpd.1 q e

theorem addDifficultyCP_rel_on (L : ShiftLawsOn S k) (st st' : TimingPointsState F P) (h : TpRelOn S k st st') (t : F) (ht : S t)
    (p : DifficultyPoint F) (hp : S p.time) (tc : Bool) :
    TpRelOn S k (addDifficultyCP st t p tc) (addDifficultyCP st' (t + k) (shDP k p) tc) := by
  obtain ⟨hg, hc, hpe, _, hcp, hpd⟩ := maybeFlush_rel_on L st st' h t ht
  refine ⟨hg, hc, ?_, Or.inl ⟨rfl, ht⟩, hcp, ?_⟩
  · show ({ (maybeFlush st' (t + k)).pending with difficulty := _ } : Pending F) = shPending k { (maybeFlush st t).pending with difficulty := _ }
    rw [hpe]
    simp only [shPending, pushSlot_map]
  · refine ⟨hpd.1, ?_, hpd.2.2.1, hpd.2.2.2⟩
    intro q hq
    rcases pushSlot_some _ _ _ _ hq with e | e
    · exact e ▸ hp
    · exact hpd.2.1 q e

theorem addSampleCP_rel_on (L : ShiftLawsOn S k) (st st' : TimingPointsState F P) (h : TpRelOn S k st st') (t : F) (ht : S t)
    (p : SamplePoint F) (hp : S p.time) (tc : Bool) :
    TpRelOn S k (addSampleCP st t p tc) (addSampleCP st' (t + k) (shSP k p) tc) := by
  obtain ⟨hg, hc, hpe, _, hcp, hpd⟩ := maybeFlush_rel_on L st st' h t ht
  refine ⟨hg, hc, ?_, Or.inl ⟨rfl, ht⟩, hcp, ?_⟩
  · show ({ (maybeFlush st' (t + k)).pending with sample := _ } : Pending F) = shPending k { (maybeFlush st t).pending with sample := _ }
    rw [hpe]
    simp only [shPending, pushSlot_map]
  · refine ⟨hpd.1, hpd.2.1, hpd.2.2.1, ?_⟩
    intro q hq
    rcases pushSlot_some _ _ _ _ hq with e | e
    · exact e ▸ hp
    · exact hpd.2.2.2 q e

theorem addEffectCP_rel_on (L : ShiftLawsOn S k) (st st' : TimingPointsState F P) (h : TpRelOn S k st st') (t : F) (ht : S t)
    (p : EffectPoint F) (hp : S p.time) (tc : Bool) :
    TpRelOn S k (addEffectCP st t p tc) (addEffectCP st' (t + k) (shEP k p) tc) := by
  obtain ⟨hg, hc, hpe, _, hcp, hpd⟩ := maybeFlush_rel_on L st st' h t ht
  refine ⟨hg, hc, ?_, Or.inl ⟨rfl, ht⟩, hcp, ?_⟩
  · show ({ (maybeFlush st' (t + k)).pending with effect := _ } : Pending F) = shPending k { (maybeFlush st t).pending with effect := _ }
    rw [hpe]
    simp only [shPending, pushSlot_map]
  · refine ⟨hpd.1, hpd.2.1, ?_, hpd.2.2.2⟩
    intro q hq
    rcases pushSlot_some _ _ _ _ hq with e | e
    · exact e ▸ hp
    · exact hpd.2.2.1 q e

theorem effectPoint_time (mode : GameMode) (l : TpLine F) : (l.effectPoint mode).time = l.time := by
  unfold TpLine.effectPoint
  split <;> rfl

/-- the mutating tail of `parse_timing_points` on related states, for a line `k` later whose time is in `S`. -/
theorem applyTpLine_rel_on (L : ShiftLawsOn S k) (st st' : TimingPointsState F P) (h : TpRelOn S k st st') (l : TpLine F)
    (hl : S l.time) : TpRelOn S k (applyTpLine st l) (applyTpLine st' (shTpLine k l)) := by
  have h1 : TpRelOn S k (if l.timingChange then addTimingCP st l.time l.timingPoint l.timingChange else st)
      (if l.timingChange then addTimingCP st' (l.time + k) (shTP k l.timingPoint) l.timingChange else st') := by
    split
    · exact addTimingCP_rel_on L st st' h _ hl _ hl _
    · exact h
  have h2 := addDifficultyCP_rel_on L _ _ h1 l.time hl l.difficultyPoint hl l.timingChange
  have h3 := addSampleCP_rel_on L _ _ h2 l.time hl l.samplePoint hl l.timingChange
  generalize hs3 : addSampleCP (addDifficultyCP (if l.timingChange then addTimingCP st l.time l.timingPoint l.timingChange else st)
      l.time l.difficultyPoint l.timingChange) l.time l.samplePoint l.timingChange = s3 at h3
  generalize hs3' : addSampleCP (addDifficultyCP
      (if l.timingChange then addTimingCP st' (l.time + k) (shTP k l.timingPoint) l.timingChange else st')
      (l.time + k) (shDP k l.difficultyPoint) l.timingChange) (l.time + k) (shSP k l.samplePoint) l.timingChange = s3' at h3
  have g1 : applyTpLine st l =
      { addEffectCP s3 l.time (l.effectPoint s3.general.mode) l.timingChange with pendingTime := l.time } := by
    rw [← hs3]; rfl
  have g2 : applyTpLine st' (shTpLine k l) =
      { addEffectCP s3' (l.time + k) ((shTpLine k l).effectPoint s3'.general.mode) l.timingChange with
          pendingTime := l.time + k } := by
    rw [← hs3']; rfl
  rw [g1, g2, effectPoint_shift, h3.1]
  have h4 := addEffectCP_rel_on L s3 s3' h3 l.time hl (l.effectPoint s3.general.mode)
    (by rw [effectPoint_time]; exact hl) l.timingChange
  exact ⟨h4.1, h4.2.1, h4.2.2.1, Or.inl ⟨rfl, hl⟩, h4.2.2.2.2.1, h4.2.2.2.2.2⟩

/-- two timing-point lines with the same fields except the time, which parses to `t ∈ S` resp. `t + k`, or is rejected with the
same error in both. -/
def TpLineShiftOn (S : F → Prop) (k : F) (line line' : Str) : Prop :=
  ∃ timeS timeS' tl,
    splitOn ',' (trimComment line) = timeS :: tl ∧ splitOn ',' (trimComment line') = timeS' :: tl ∧
    ((∃ t : F, (scalarParse timeS : Except NumErr F) = .ok t ∧ (scalarParse timeS' : Except NumErr F) = .ok (t + k) ∧ S t) ∨
     (∃ e : NumErr, (scalarParse timeS : Except NumErr F) = .error e ∧ (scalarParse timeS' : Except NumErr F) = .error e))

theorem parseTpRaw_time (g : GeneralState F P) (timeS : Str) (tl : List Str) (t : F)
    (h : (scalarParse timeS : Except NumErr F) = .ok t) (l : TpLine F) (hl : parseTpRaw g (timeS :: tl) = .ok l) :
    l.time = t := by
  cases tl with
  | nil => cases hl
  | cons beatS rest =>
    unfold parseTpRaw at hl
    simp only [h] at hl
    repeat' split at hl
    all_goals (cases hl; try rfl)

theorem checkNaN_time (l l2 : TpLine F) (h : checkNaN l = .ok l2) : l2 = l := by
  unfold checkNaN at h
  split at h
  · cases h
  · injection h with h; exact h.symm

/-- **parse_line_shift on `S`**, timing-point lines: same result, related states. -/
theorem tp_parse_line_shift_on (L : ShiftLawsOn S k) (st st' : TimingPointsState F P) (h : TpRelOn S k st st')
    (line line' : Str) (hl : TpLineShiftOn S k line line') :
    (parseTimingPoints st' line').1 = (parseTimingPoints st line).1 ∧
      TpRelOn S k (parseTimingPoints st line).2 (parseTimingPoints st' line').2 := by
  obtain ⟨timeS, timeS', tl, hs, hs', hp⟩ := hl
  unfold parseTimingPoints parseTpFields
  rw [hs, hs', h.1]
  rcases hp with ⟨t, ht, ht', hSt⟩ | ⟨e, he, he'⟩
  · rw [parseTpRaw_shift k st.general timeS timeS' tl t ht ht']
    cases hraw : parseTpRaw st.general (timeS :: tl) with
    | error e => exact ⟨rfl, h⟩
    | ok l =>
      simp only [Except.map, checkNaN_shift]
      cases hchk : checkNaN l with
      | error e => exact ⟨rfl, h⟩
      | ok l2 =>
        have e2 : l2 = l := checkNaN_time l l2 hchk
        have e3 : l.time = t := parseTpRaw_time st.general timeS tl t ht l hraw
        exact ⟨rfl, applyTpLine_rel_on L st st' h l2 (by rw [e2, e3]; exact hSt)⟩
  · rw [parseTpRaw_error st.general timeS tl e he, parseTpRaw_error st.general timeS' tl e he']
    exact ⟨rfl, h⟩


/-! ### `[Events]` lines -/

/-- two time fields: they parse to `t ∈ S` and `t + k`, or both are rejected. -/
def ParseShiftOn (S : F → Prop) (k : F) (s s' : Str) : Prop :=
  (∃ t : F, (floatParse s : Option F) = some t ∧ (floatParse s' : Option F) = some (t + k) ∧ S t) ∨
  ((floatParse s : Option F) = none ∧ (floatParse s' : Option F) = none)

theorem ParseShiftOn.toShift {s s' : Str} (h : ParseShiftOn S k s s') : ParseShift k s s' :=
  h.elim (fun ⟨t, h1, h2, _⟩ => Or.inl ⟨t, h1, h2⟩) Or.inr

def EvLineShiftOn (S : F → Prop) (k : F) (line line' : Str) : Prop :=
  (∃ ty sS sS' eS eS' rest,
    splitOn ',' (trimComment line) = ty :: sS :: eS :: rest ∧
    splitOn ',' (trimComment line') = ty :: sS' :: eS' :: rest ∧
    (if EventType.parse ty = some .break_ then ParseShiftOn S k sS sS' ∧ ParseShiftOn S k eS eS' else eS' = eS)) ∨
  (line' = line ∧ (splitOn ',' (trimComment line)).length < 3)

/-- every break end lies in `S`. -/
def BreaksIn (S : F → Prop) (e : Events F) : Prop := ∀ b ∈ e.breaks, S b.endTime

/-- **parse_line_shift on `S`**, `[Events]` lines. -/
theorem ev_parse_line_shift_on (L : ShiftLawsOn S k) (st : Events F) (hst : BreaksIn S st) (line line' : Str)
    (hl : EvLineShiftOn S k line line') :
    (parseEvents (shEvents k st) line').2 = (parseEvents st line).2 ∧
      (parseEvents (shEvents k st) line').1 = shEvents k (parseEvents st line).1 ∧ BreaksIn S (parseEvents st line).1 := by
  rcases hl with ⟨ty, sS, sS', eS, eS', rest, hs, hs', hc⟩ | ⟨hEq, hlen⟩
  · unfold parseEvents
    rw [hs, hs']
    simp only []
    cases hty : EventType.parse ty with
    | none => exact ⟨rfl, rfl, hst⟩
    | some et =>
      cases et with
      | break_ =>
        simp only [hty, if_true] at hc
        obtain ⟨h1, h2⟩ := hc
        simp only []
        rcases h1 with ⟨s, hs1, hs2, hSs⟩ | ⟨hs1, hs2⟩
        · rw [hs1, hs2]
          rcases h2 with ⟨e, he1, he2, hSe⟩ | ⟨he1, he2⟩
          · rw [he1, he2]
            refine ⟨rfl, ?_, ?_⟩
            · simp only [shEvents, List.map_append, List.map, shBreak, L.max_shift s e hSs hSe]
            · intro b hb
              simp only [List.mem_append, List.mem_singleton] at hb
              rcases hb with hb | hb
              · exact hst b hb
              · rw [hb]; exact max_mem s e hSs hSe
          · rw [he1, he2]; exact ⟨rfl, rfl, hst⟩
        · rw [hs1, hs2]; exact ⟨rfl, rfl, hst⟩
      | background =>
        have : eS' = eS := by simpa [hty] using hc
        rw [this]; exact ⟨rfl, rfl, hst⟩
      | video =>
        have : eS' = eS := by simpa [hty] using hc
        rw [this]
        simp only []
        cases hasVideoExtension (cleanFilename eS) with
        | none => exact ⟨rfl, rfl, hst⟩
        | some b => cases b <;> exact ⟨rfl, rfl, hst⟩
      | sprite =>
        simp only []
        have hb : (shEvents k st).backgroundFile = st.backgroundFile := rfl
        rw [hb]
        cases st.backgroundFile.isEmpty with
        | false => exact ⟨rfl, rfl, hst⟩
        | true => cases rest <;> exact ⟨rfl, rfl, hst⟩
      | color => exact ⟨rfl, rfl, hst⟩
      | sample => exact ⟨rfl, rfl, hst⟩
      | animation => exact ⟨rfl, rfl, hst⟩
  · rw [hEq]
    unfold parseEvents
    generalize splitOn ',' (trimComment line) = fs at hlen ⊢
    match fs, hlen with
    | [], _ => exact ⟨rfl, rfl, hst⟩
    | [_], _ => exact ⟨rfl, rfl, hst⟩
    | [_, _], _ => exact ⟨rfl, rfl, hst⟩
    | _ :: _ :: _ :: _, h => simp at h; omega

/-! ### hit-object lines -/

variable [Cvt P F]

def HoRestShiftOn (S : F → Prop) (k : F) (cls : Option ObjClass) (rest rest' : List Str) : Prop :=
  if cls = some .spinner then
    (rest = [] ∧ rest' = []) ∨ ∃ dS dS' r2, rest = dS :: r2 ∧ rest' = dS' :: r2 ∧ ParseShiftOn S k dS dS'
  else if cls = some .hold then
    (rest' = rest ∧ optNonEmpty rest.head? = none) ∨
    ∃ s s' tl e e' ss, rest = s :: tl ∧ rest' = s' :: tl ∧ s.isEmpty = false ∧ s'.isEmpty = false ∧
      splitOn ':' s = e :: ss ∧ splitOn ':' s' = e' :: ss ∧ ParseShiftOn S k e e'
  else rest' = rest

def HoLineShiftOn (S : F → Prop) (k : F) (line line' : Str) : Prop :=
  (∃ xs ys tS tS' kindS soundS rest rest',
    splitOn ',' (trimComment line) = xs :: ys :: tS :: kindS :: soundS :: rest ∧
    splitOn ',' (trimComment line') = xs :: ys :: tS' :: kindS :: soundS :: rest' ∧
    ParseShiftOn S k tS tS' ∧
    HoRestShiftOn S k ((i32FromStr kindS).bind (fun ty0 => classify (maskedType ty0))) rest rest') ∨
  (line' = line ∧ (splitOn ',' (trimComment line)).length < 5)

/-- the header of an accepted line carries the parsed start time. -/
theorem parseHeader_shift_on (line line' : Str) (xs ys tS tS' kindS soundS : Str) (rest rest' : List Str)
    (hs : splitOn ',' (trimComment line) = xs :: ys :: tS :: kindS :: soundS :: rest)
    (hs' : splitOn ',' (trimComment line') = xs :: ys :: tS' :: kindS :: soundS :: rest')
    (ht : ParseShiftOn S k tS tS') :
    ((parseHeader line : Option (Header F P)) = none ∧ (parseHeader line' : Option (Header F P)) = none) ∨
    ∃ hd : Header F P, parseHeader line = some hd ∧ parseHeader line' = some (shHeader k hd rest') ∧
      hd.rest = rest ∧ i32FromStr kindS = some hd.ty0 ∧ S hd.startTime := by
  unfold parseHeader
  rw [hs, hs']
  simp only []
  cases (floatParseWithLimits xs (Scalar.ofInt maxCoordinate) : Option P) with
  | none => exact Or.inl ⟨rfl, rfl⟩
  | some xv =>
    simp only []
    cases (floatParseWithLimits ys (Scalar.ofInt maxCoordinate) : Option P) with
    | none => exact Or.inl ⟨rfl, rfl⟩
    | some yv =>
      simp only []
      rcases ht with ⟨t, h1, h2, hSt⟩ | ⟨h1, h2⟩
      · rw [h1, h2]
        simp only []
        cases hk : i32FromStr kindS with
        | none => exact Or.inl ⟨rfl, rfl⟩
        | some ty0 =>
          simp only []
          cases HitSoundType.parse soundS with
          | none => exact Or.inl ⟨rfl, rfl⟩
          | some snd => exact Or.inr ⟨_, rfl, rfl, rfl, rfl, hSt⟩
      · rw [h1, h2]; exact Or.inl ⟨rfl, rfl⟩

theorem buildSpinner_shift_on (L : ShiftLawsOn S k) (hd : Header F P) (hSs : S hd.startTime) (rest' : List Str)
    (h : HoRestShiftOn S k (some .spinner) hd.rest rest') :
    buildSpinner (shHeader k hd rest') = buildSpinner hd := by
  simp only [HoRestShiftOn, if_true] at h
  unfold buildSpinner
  rcases h with ⟨h1, h2⟩ | ⟨dS, dS', r2, h1, h2, hp⟩
  · simp only [shHeader, h1, h2]
  · simp only [shHeader, h1, h2]
    rcases hp with ⟨d, hd1, hd2, hSd⟩ | ⟨hd1, hd2⟩
    · rw [hd1, hd2]
      simp only [L.sub_shift d hd.startTime hSd hSs]
    · rw [hd1, hd2]

theorem buildHold_shift_on (L : ShiftLawsOn S k) (hd : Header F P) (hSs : S hd.startTime) (rest' : List Str)
    (h : HoRestShiftOn S k (some .hold) hd.rest rest') :
    buildHold (shHeader k hd rest') = buildHold hd := by
  have hne : (some ObjClass.hold = some ObjClass.spinner) = False := by simp
  simp only [HoRestShiftOn, hne, if_false, if_true] at h
  unfold buildHold
  rcases h with ⟨h1, h2⟩ | ⟨s, s', tl, e, e', ss, h1, h2, hs, hs', hsp, hsp', hp⟩
  · simp only [shHeader, h1, h2, L.max_shift _ _ hSs hSs, L.sub_shift _ _ (max_mem _ _ hSs hSs) hSs]
  · have o1 : optNonEmpty (s :: tl).head? = some s := by simp [optNonEmpty, hs]
    have o2 : optNonEmpty (s' :: tl).head? = some s' := by simp [optNonEmpty, hs']
    simp only [shHeader, h1, h2, o1, o2, hsp, hsp']
    rcases hp with ⟨d, hd1, hd2, hSd⟩ | ⟨hd1, hd2⟩
    · rw [hd1, hd2]
      simp only []
      cases (({} : SampleBankInfo).readCustomSampleBanks ss false) with
      | mk bi ok =>
        cases ok with
        | false => rfl
        | true => simp only [L.max_shift _ _ hSs hSd, L.sub_shift _ _ (max_mem _ _ hSs hSd) hSs]
    · rw [hd1, hd2]

/-- **parse_line_shift on `S`**, hit-object lines. -/
theorem ho_parse_line_shift_on (L : ShiftLawsOn S k) (mode : GameMode) (c c' : HOCore F P) (hr : HoRel k c c')
    (line line' : Str) (hl : HoLineShiftOn S k line line') :
    (parseHitObjectLine mode c' line').2 = (parseHitObjectLine mode c line).2 ∧
      HoRel k (parseHitObjectLine mode c line).1 (parseHitObjectLine mode c' line').1 := by
  rcases hl with ⟨xs, ys, tS, tS', kindS, soundS, rest, rest', hs, hs', ht, hrest⟩ | ⟨hEq, hlen⟩
  · rcases parseHeader_shift_on (P := P) line line' xs ys tS tS' kindS soundS rest rest' hs hs' ht with
      ⟨hn, hn'⟩ | ⟨hd, hh, hh', hrst, hty, hSs⟩
    · unfold parseHitObjectLine
      rw [hn, hn']
      exact ⟨rfl, hr⟩
    · unfold parseHitObjectLine
      rw [hh, hh']
      simp only []
      have hty0 : (shHeader k hd rest').ty0 = hd.ty0 := rfl
      rw [hty0]
      rw [hty, ← hrst] at hrest
      simp only [Option.bind] at hrest
      cases hcl : classify (maskedType hd.ty0) with
      | none => exact ⟨rfl, hr⟩
      | some cls =>
        rw [hcl] at hrest
        cases cls with
        | circle =>
          have hre : rest' = hd.rest := by simpa [HoRestShiftOn] using hrest
          subst hre
          simp only [buildCircle_shift k c c' hr hd]
          cases buildCircle c hd with
          | none => exact ⟨rfl, hr⟩
          | some kb => exact ⟨rfl, pushObject_rel k c c' hr hd _ kb.1 kb.2⟩
        | slider =>
          have hre : rest' = hd.rest := by simpa [HoRestShiftOn] using hrest
          subst hre
          simp only []
          obtain ⟨e2, e1⟩ := buildSlider_shift k mode c c' hr hd
          revert e1 e2
          cases buildSlider mode c' (shHeader k hd hd.rest) with
          | mk s1' o' =>
            cases buildSlider mode c hd with
            | mk s1 o =>
              intro e2 e1
              simp only at e1 e2
              subst e2
              cases o' with
              | none => exact ⟨rfl, e1⟩
              | some kb => exact ⟨rfl, pushObject_rel k s1 s1' e1 hd _ kb.1 kb.2⟩
        | spinner =>
          simp only [buildSpinner_shift_on L hd hSs rest' hrest]
          cases buildSpinner hd with
          | none => exact ⟨rfl, hr⟩
          | some kb => exact ⟨rfl, pushObject_rel k c c' hr hd _ kb.1 kb.2⟩
        | hold =>
          simp only [buildHold_shift_on L hd hSs rest' hrest]
          cases buildHold hd with
          | none => exact ⟨rfl, hr⟩
          | some kb => exact ⟨rfl, pushObject_rel k c c' hr hd _ kb.1 kb.2⟩
  · rw [hEq]
    have hn : (parseHeader line : Option (Header F P)) = none := by
      unfold parseHeader
      generalize splitOn ',' (trimComment line) = fs at hlen
      match fs, hlen with
      | [], _ => rfl
      | [_], _ => rfl
      | [_, _], _ => rfl
      | [_, _, _], _ => rfl
      | [_, _, _, _], _ => rfl
      | _ :: _ :: _ :: _ :: _ :: _, h => simp at h; omega
    unfold parseHitObjectLine
    rw [hn]
    exact ⟨rfl, hr⟩


/-! ### whole sections: the fold over lines -/

def SecLineShiftOn (S : F → Prop) (k : F) (sec : Section) (line line' : Str) : Prop :=
  match sec with
  | .timingPoints => TpLineShiftOn S k line line'
  | .events => EvLineShiftOn S k line line'
  | .hitObjects => HoLineShiftOn S k line line'
  | _ => line' = line

theorem parseGeneral_rel_on (st st' : TimingPointsState F P) (h : TpRelOn S k st st') (line : Str) :
    TpRelOn S k (st.parseGeneral line).2 (st'.parseGeneral line).2 := by
  obtain ⟨hg, hc, hp, hpt, hcp, hpd⟩ := h
  unfold TimingPointsState.parseGeneral
  rw [hg]
  cases Rosu.parseGeneral st.general line with
  | mk r g =>
    cases r with
    | ok u => exact ⟨rfl, hc, hp, hpt, hcp, hpd⟩
    | error e => exact ⟨rfl, hc, hp, hpt, hcp, hpd⟩

/-- `StateRel` with the domain facts the fold carries: control-point, pending-group and break-end times of the unshifted state
in `S`. -/
def StateRelOn (S : F → Prop) (k : F) (st st' : HitObjectsState F P) : Prop :=
  HoRel k st.core st'.core ∧ st'.events = shEvents k st.events ∧ TpRelOn S k st.timingPoints st'.timingPoints ∧
  st'.difficulty = st.difficulty ∧ BreaksIn S st.events

theorem StateRelOn.toRel {st st' : HitObjectsState F P} (h : StateRelOn S k st st') : StateRel k st st' :=
  ⟨h.1, h.2.1, h.2.2.1.toRel, h.2.2.2.1⟩

theorem stateRelOn_create : StateRelOn S k (HitObjectsState.create : HitObjectsState F P) HitObjectsState.create :=
  ⟨⟨rfl, rfl, rfl, rfl⟩, rfl, tpRelOn_create, rfl, fun _ h => by cases h⟩

/-- one line of any section through `<HitObjects as DecodeBeatmap>::parse_*`. -/
theorem step_shift_on (L : ShiftLawsOn S k) (sec : Section) (st st' : HitObjectsState F P) (h : StateRelOn S k st st')
    (line line' : Str) (hl : SecLineShiftOn S k sec line line') :
    StateRelOn S k (st.step sec line) (st'.step sec line') := by
  obtain ⟨hco, hev, htp, hdf, hbr⟩ := h
  cases sec with
  | general =>
    have : line' = line := hl
    subst this
    exact ⟨hco, hev, parseGeneral_rel_on _ _ htp line', hdf, hbr⟩
  | difficulty =>
    have : line' = line := hl
    subst this
    refine ⟨hco, hev, htp, ?_, hbr⟩
    show (parseDifficulty st'.difficulty line').1 = (parseDifficulty st.difficulty line').1
    rw [hdf]
  | events =>
    have e := ev_parse_line_shift_on L st.events hbr line line' hl
    refine ⟨hco, ?_, htp, hdf, e.2.2⟩
    show (parseEvents st'.events line').1 = shEvents k (parseEvents st.events line).1
    rw [hev]
    exact e.2.1
  | timingPoints =>
    exact ⟨hco, hev, (tp_parse_line_shift_on L _ _ htp line line' hl).2, hdf, hbr⟩
  | hitObjects =>
    refine ⟨?_, hev, htp, hdf, hbr⟩
    show HoRel k (parseHitObjectLine st.timingPoints.general.mode st.core line).1
      (parseHitObjectLine st'.timingPoints.general.mode st'.core line').1
    rw [htp.1]
    exact (ho_parse_line_shift_on L _ _ _ hco line line' hl).2
  | editor => exact ⟨hco, hev, htp, hdf, hbr⟩
  | metadata => exact ⟨hco, hev, htp, hdf, hbr⟩
  | colors => exact ⟨hco, hev, htp, hdf, hbr⟩
  | variables => exact ⟨hco, hev, htp, hdf, hbr⟩
  | catchTheBeat => exact ⟨hco, hev, htp, hdf, hbr⟩
  | mania => exact ⟨hco, hev, htp, hdf, hbr⟩

/-- two file bodies, line by line in the same sections and shift-related with all time fields in `S`. -/
def LinesShiftOn (S : F → Prop) (k : F) (ls ls' : SecLines) : Prop :=
  Pointwise (fun a b => b.1 = a.1 ∧ SecLineShiftOn S k a.1 a.2 b.2) ls ls'

theorem fold_shift_on (L : ShiftLawsOn S k) (ls ls' : SecLines) (h : LinesShiftOn S k ls ls')
    (st st' : HitObjectsState F P) (hst : StateRelOn S k st st') :
    StateRelOn S k (runLines ls st) (runLines ls' st') := by
  induction h generalizing st st' with
  | nil => exact hst
  | cons hab _ ih =>
    obtain ⟨hsec, hl⟩ := hab
    unfold runLines
    simp only [List.foldl]
    rw [hsec]
    exact ih _ _ (step_shift_on L _ st st' hst _ _ hl)

variable [Trig F] [Trig P]

theorem stateIn_of_relOn {st st' : HitObjectsState F P} (h : StateRelOn S k st st')
    (hobj : ∀ o ∈ st.core.hitObjects, ObjIn S o) : StateIn S st :=
  ⟨hobj, h.2.2.2.2, h.2.2.1.2.2.2.2.1, h.2.2.1.2.2.2.2.2⟩

/-- **shift_invariant on a domain `S`** (`HitObjects` decoder, no sliders): decoding two bodies whose `[TimingPoints]`,
`[Events]` and `[HitObjects]` lines differ only in time fields parsing to `t ∈ S` resp. `t + k` yields — under the laws on `S`,
when the times the finaliser derives from the parsed objects lie in `S` too — the same result with every object, break and
control-point time `k` later, and nothing else changed. -/
theorem shift_invariant_on (L : ShiftLawsOn S k) (ls ls' : SecLines) (h : LinesShiftOn S k ls ls')
    (hobj : ∀ o ∈ (runLines ls (HitObjectsState.create : HitObjectsState F P)).core.hitObjects, ObjIn S o)
    (hns : ∀ o ∈ (runLines ls (HitObjectsState.create : HitObjectsState F P)).core.hitObjects, isSlider o = false) :
    (runLines ls' (HitObjectsState.create : HitObjectsState F P)).finish =
      ((runLines ls (HitObjectsState.create : HitObjectsState F P)).finish).map (shiftHitObjects k) := by
  have hr := fold_shift_on L ls ls' h _ _ (stateRelOn_create (P := P))
  exact finish_rel_on L _ _ hr.toRel (stateIn_of_relOn hr hobj) hns

/-- … **sliders included**, the samples resolved for sliders left out of the comparison (`eraseHO`). -/
theorem shift_invariant_on_erased (L : ShiftLawsOn S k) (ls ls' : SecLines) (h : LinesShiftOn S k ls ls')
    (hobj : ∀ o ∈ (runLines ls (HitObjectsState.create : HitObjectsState F P)).core.hitObjects, ObjIn S o) :
    ((runLines ls' (HitObjectsState.create : HitObjectsState F P)).finish).map eraseHO =
      ((runLines ls (HitObjectsState.create : HitObjectsState F P)).finish).map
        (fun ho => eraseHO (shiftHitObjects k ho)) := by
  have hr := fold_shift_on L ls ls' h _ _ (stateRelOn_create (P := P))
  exact finish_rel_on_erased L _ _ hr.toRel (stateIn_of_relOn hr hobj)

/-! ### the `Beatmap` decoder -/

def BmRelOn (S : F → Prop) (k : F) (st st' : BeatmapState F P) : Prop :=
  st'.version = st.version ∧ st'.editor = st.editor ∧ st'.metadata = st.metadata ∧ st'.colors = st.colors ∧
  StateRelOn S k st.hitObjects st'.hitObjects

omit [Trig F] [Trig P] in
theorem beatmap_step_shift_on (L : ShiftLawsOn S k) (sec : Section) (st st' : BeatmapState F P) (h : BmRelOn S k st st')
    (line line' : Str) (hl : SecLineShiftOn S k sec line line') :
    BmRelOn S k (st.step sec line) (st'.step sec line') := by
  obtain ⟨hv, he, hm, hc, hh⟩ := h
  cases sec with
  | editor =>
    have : line' = line := hl
    subst this
    refine ⟨hv, ?_, hm, hc, hh⟩
    show (parseEditor st'.editor line').1 = (parseEditor st.editor line').1
    rw [he]
  | metadata =>
    have : line' = line := hl
    subst this
    refine ⟨hv, he, ?_, hc, hh⟩
    show (parseMetadata st'.metadata line').1 = (parseMetadata st.metadata line').1
    rw [hm]
  | colors =>
    have : line' = line := hl
    subst this
    refine ⟨hv, he, hm, ?_, hh⟩
    show (parseColors st'.colors line').1 = (parseColors st.colors line').1
    rw [hc]
  | general => exact ⟨hv, he, hm, hc, step_shift_on L _ _ _ hh _ _ hl⟩
  | difficulty => exact ⟨hv, he, hm, hc, step_shift_on L _ _ _ hh _ _ hl⟩
  | events => exact ⟨hv, he, hm, hc, step_shift_on L _ _ _ hh _ _ hl⟩
  | timingPoints => exact ⟨hv, he, hm, hc, step_shift_on L _ _ _ hh _ _ hl⟩
  | hitObjects => exact ⟨hv, he, hm, hc, step_shift_on L _ _ _ hh _ _ hl⟩
  | variables => exact ⟨hv, he, hm, hc, hh⟩
  | catchTheBeat => exact ⟨hv, he, hm, hc, hh⟩
  | mania => exact ⟨hv, he, hm, hc, hh⟩

omit [Trig F] [Trig P] in
theorem beatmap_fold_shift_on (L : ShiftLawsOn S k) (ls ls' : SecLines) (h : LinesShiftOn S k ls ls')
    (st st' : BeatmapState F P) (hst : BmRelOn S k st st') :
    BmRelOn S k (runBeatmapLines ls st) (runBeatmapLines ls' st') := by
  induction h generalizing st st' with
  | nil => exact hst
  | cons hab _ ih =>
    obtain ⟨hsec, hl⟩ := hab
    unfold runBeatmapLines
    simp only [List.foldl]
    rw [hsec]
    exact ih _ _ (beatmap_step_shift_on L _ st st' hst _ _ hl)

/-- **shift_invariant on a domain `S`** (`Beatmap` decoder, no sliders). -/
theorem beatmap_shift_invariant_on (L : ShiftLawsOn S k) (version : Int) (ls ls' : SecLines) (h : LinesShiftOn S k ls ls')
    (hobj : ∀ o ∈ (runBeatmapLines ls (BeatmapState.create version : BeatmapState F P)).hitObjects.core.hitObjects, ObjIn S o)
    (hns : ∀ o ∈ (runBeatmapLines ls (BeatmapState.create version : BeatmapState F P)).hitObjects.core.hitObjects,
      isSlider o = false) :
    (runBeatmapLines ls' (BeatmapState.create version : BeatmapState F P)).finish =
      ((runBeatmapLines ls (BeatmapState.create version : BeatmapState F P)).finish).map (shiftBeatmap k) := by
  obtain ⟨hv, he, hm, hc, hh⟩ := beatmap_fold_shift_on L ls ls' h
    (BeatmapState.create version : BeatmapState F P) (BeatmapState.create version)
    ⟨rfl, rfl, rfl, rfl, stateRelOn_create⟩
  have hf := finish_rel_on L _ _ hh.toRel (stateIn_of_relOn hh hobj) hns
  unfold BeatmapState.finish
  simp only [hf, hv, he, hm, hc, bind, Except.bind]
  cases (runBeatmapLines ls (BeatmapState.create version : BeatmapState F P)).hitObjects.finish with
  | error e => rfl
  | ok ho => rfl

end Rosu.C15
