/-
  Props/C13Exact.lean — C13 **as worded** ("strictly ordered by *time*, at most one point per *time*, a lookup returns the
  latest point not after the probe *time*, a redundant add is a no-op"), where Props/C13.lean speaks of `total_cmp` keys.

  The bridge is one hypothesis, `TimeKeyOn S`: on the set `S` of times that occur (in operations and probes) the key order
  *is* the time order — `key a < key b ↔ a < b`, `key a = key b ↔ a == b`, `key a ≤ key b ↔ a <= b`, with the scalar's own
  comparisons. Under it every theorem of Props/C13.lean is restated with times, about the same model functions
  (`ControlPoints.add*`, `*PointAt`).

  **Where IEEE violates the hypothesis.** For `f64` with `total_cmp`, `TimeKeyOn S` holds exactly for the sets `S` that contain
  no NaN and not both `+0.0` and `−0.0`: on non-NaN values `total_cmp` agrees with `<` / `==` except that it puts `−0.0` before
  `+0.0` while `−0.0 == +0.0`; a NaN is `==` to nothing, itself included, yet has a key. (A fact about IEEE that the kernel
  cannot check — `Float` is opaque; the toy scalar `ZZ` with two zeros, Lemmas/ToyZero.lean, exhibits both directions in the
  kernel.) So for histories without NaN times, finding F8 (`+0.0` / `−0.0`) is the ONLY way the worded property fails.

  **Why not simply "`ExactScalar`".** `ExactScalar φ` (Lemmas/ExactArith.lean) makes the comparisons those of an ordered field
  (`timeKeyOn_of_exact`: then only `key a < key b ↔ φ a < φ b` on `S` is left to assume), but it cannot be combined with a key
  that is monotone on *all* values: the values contain a copy of ℚ and ℚ does not embed into ℤ in order (`no_global_time_key`).
  Hence the set `S`: e.g. the integers inside `Rat` (`timeKeyOn_rat_integers`), all of the toy `Z`.
-/
import RosuModel.Props.C13
import RosuModel.Lemmas.ToyZero
import RosuModel.Lemmas.ExactArith
set_option linter.unusedSectionVars false
namespace Rosu.C13
open Rosu

variable {F : Type} [Scalar F]

/-- on the times in `S` the `total_cmp` key realises the time order and time equality (one zero, no NaN). -/
structure TimeKeyOn (S : F → Prop) : Prop where
  lt_iff : ∀ a b : F, S a → S b → (Scalar.totalKey a < Scalar.totalKey b ↔ Scalar.lt a b = true)
  eq_iff : ∀ a b : F, S a → S b → (Scalar.totalKey a = Scalar.totalKey b ↔ Scalar.eq a b = true)
  le_iff : ∀ a b : F, S a → S b → (Scalar.totalKey a ≤ Scalar.totalKey b ↔ Scalar.le a b = true)

/-! ## generic part: a list with an `Int` key that is the key of a time -/

section GenericTime
variable {α : Type} {key : α → Int} {tm : α → F} {S : F → Prop}

/-- strictly increasing times (`<` of the scalar). -/
def SortedByTime (tm : α → F) (l : List α) : Prop := l.Pairwise (fun a b => Scalar.lt (tm a) (tm b) = true)

/-- the declarative reading of a lookup, in times: the last stored point whose time is `<=` the probe time. -/
def lastLeTime (tm : α → F) (t : F) (l : List α) : Option α :=
  (l.filter (fun p => Scalar.le (tm p) t)).getLast?

theorem sortedByTime_of_key (T : TimeKeyOn S) (hk : ∀ x, key x = Scalar.totalKey (tm x)) {l : List α}
    (hS : ∀ x ∈ l, S (tm x)) (h : SortedBy key l) : SortedByTime tm l := by
  refine List.Pairwise.imp_of_mem ?_ h
  intro a b ha hb hab
  rw [hk a, hk b] at hab
  exact (T.lt_iff _ _ (hS a ha) (hS b hb)).mp hab

theorem unique_time (T : TimeKeyOn S) (hk : ∀ x, key x = Scalar.totalKey (tm x)) {l : List α}
    (hS : ∀ x ∈ l, S (tm x)) (h : SortedBy key l) {i j : Nat} {a b : α}
    (ha : l[i]? = some a) (hb : l[j]? = some b) (he : Scalar.eq (tm a) (tm b) = true) : i = j := by
  apply sorted_unique h ha hb
  rw [hk a, hk b]
  exact (T.eq_iff _ _ (hS a (List.mem_of_getElem? ha)) (hS b (List.mem_of_getElem? hb))).mpr he

theorem lastLE_eq_time (T : TimeKeyOn S) (hk : ∀ x, key x = Scalar.totalKey (tm x)) {l : List α}
    (hS : ∀ x ∈ l, S (tm x)) {t : F} (ht : S t) :
    lastLE key (Scalar.totalKey t) l = lastLeTime tm t l := by
  unfold lastLE lastLeTime
  congr 1
  apply List.filter_congr
  intro x hx
  rw [hk x]
  have := T.le_iff (tm x) t (hS x hx) ht
  by_cases h : Scalar.totalKey (tm x) ≤ Scalar.totalKey t
  · rw [this.mp h]; simp [h]
  · have : Scalar.le (tm x) t = false := by
      cases hle : Scalar.le (tm x) t
      · rfl
      · exact absurd (this.mpr hle) h
    rw [this]; simp [h]

theorem replace_pred_eq (T : TimeKeyOn S) (hk : ∀ x, key x = Scalar.totalKey (tm x)) {l : List α}
    (hS : ∀ x ∈ l, S (tm x)) {p : α} (hp : S (tm p)) :
    l.map (fun x => if key x = key p then p else x) =
      l.map (fun x => if Scalar.eq (tm x) (tm p) = true then p else x) := by
  apply List.map_congr_left
  intro x hx
  have := T.eq_iff (tm x) (tm p) (hS x hx) hp
  rw [hk x, hk p]
  by_cases h : Scalar.totalKey (tm x) = Scalar.totalKey (tm p)
  · simp [h, this.mp h]
  · have hne : ¬ Scalar.eq (tm x) (tm p) = true := fun he => h (this.mpr he)
    simp [h, hne]

end GenericTime

/-! ## the collection, in times -/

section Collection

def Op.time : Op F → F
  | .timing p => p.time
  | .difficulty p => p.time
  | .effect p => p.time
  | .sample p => p.time

/-- every stored time lies in `S`. -/
structure TimesIn (S : F → Prop) (cp : ControlPoints F) : Prop where
  t : ∀ p ∈ cp.timingPoints, S p.time
  d : ∀ p ∈ cp.difficultyPoints, S p.time
  e : ∀ p ∈ cp.effectPoints, S p.time
  s : ∀ p ∈ cp.samplePoints, S p.time

theorem timesIn_empty (S : F → Prop) : TimesIn S (ControlPoints.empty : ControlPoints F) :=
  ⟨fun _ h => (by cases h), fun _ h => (by cases h), fun _ h => (by cases h), fun _ h => (by cases h)⟩

theorem timesIn_apply {S : F → Prop} {cp : ControlPoints F} (h : TimesIn S cp) (op : Op F) (hop : S op.time) :
    TimesIn S (apply cp op) := by
  cases op with
  | timing p =>
    refine ⟨?_, h.d, h.e, h.s⟩
    intro q hq
    rcases mem_insertOrReplace hq with rfl | hq
    · exact hop
    · exact h.t q hq
  | difficulty p =>
    show TimesIn S (cp.addDifficulty p)
    unfold ControlPoints.addDifficulty
    split
    · exact h
    · refine ⟨h.t, ?_, h.e, h.s⟩
      intro q hq
      rcases mem_insertOrReplace hq with rfl | hq
      · exact hop
      · exact h.d q hq
  | effect p =>
    show TimesIn S (cp.addEffect p)
    unfold ControlPoints.addEffect
    split
    · exact h
    · refine ⟨h.t, h.d, ?_, h.s⟩
      intro q hq
      rcases mem_insertOrReplace hq with rfl | hq
      · exact hop
      · exact h.e q hq
  | sample p =>
    show TimesIn S (cp.addSample p)
    unfold ControlPoints.addSample
    split
    · exact h
    · refine ⟨h.t, h.d, h.e, ?_⟩
      intro q hq
      rcases mem_insertOrReplace hq with rfl | hq
      · exact hop
      · exact h.s q hq

theorem timesIn_applyOps {S : F → Prop} {cp : ControlPoints F} (h : TimesIn S cp) (ops : List (Op F))
    (hops : ∀ op ∈ ops, S op.time) : TimesIn S (applyOps cp ops) := by
  induction ops generalizing cp with
  | nil => exact h
  | cons op rest ih =>
    exact ih (timesIn_apply h op (hops op (List.mem_cons_self ..)))
      (fun o ho => hops o (List.mem_cons_of_mem _ ho))

/-- all four lists strictly increasing in time. -/
structure TimeSorted (cp : ControlPoints F) : Prop where
  timing : SortedByTime TimingPoint.time cp.timingPoints
  difficulty : SortedByTime DifficultyPoint.time cp.difficultyPoints
  effect : SortedByTime EffectPoint.time cp.effectPoints
  sample : SortedByTime SamplePoint.time cp.samplePoints

variable {S : F → Prop}

/-- a collection reachable by `add`s whose times lie in `S`: sorted by key (always) and all stored times in `S`. -/
structure Reach (S : F → Prop) (cp : ControlPoints F) : Prop where
  sorted : Sorted cp
  times : TimesIn S cp

theorem reach_empty (S : F → Prop) : Reach S (ControlPoints.empty : ControlPoints F) := ⟨empty_sorted, timesIn_empty S⟩

theorem reach_apply {cp : ControlPoints F} (h : Reach S cp) (op : Op F) (hop : S op.time) : Reach S (apply cp op) :=
  ⟨add_sorted h.sorted op, timesIn_apply h.times op hop⟩

/-- every history of `add`s with times in `S`, from the empty collection. -/
theorem reach_adds (ops : List (Op F)) (hops : ∀ op ∈ ops, S op.time) :
    Reach S (applyOps (ControlPoints.empty : ControlPoints F) ops) :=
  ⟨adds_sorted ops, timesIn_applyOps (timesIn_empty S) ops hops⟩

/-- **times_strictly_sorted** (the property as worded): after any sequence of `add`s, in any order, every list is strictly
increasing in TIME. -/
theorem times_strictly_sorted (T : TimeKeyOn S) {cp : ControlPoints F} (h : Reach S cp) : TimeSorted cp :=
  ⟨sortedByTime_of_key T (fun _ => rfl) h.times.t h.sorted.timing,
   sortedByTime_of_key T (fun _ => rfl) h.times.d h.sorted.difficulty,
   sortedByTime_of_key T (fun _ => rfl) h.times.e h.sorted.effect,
   sortedByTime_of_key T (fun _ => rfl) h.times.s h.sorted.sample⟩

theorem adds_time_sorted (T : TimeKeyOn S) (ops : List (Op F)) (hops : ∀ op ∈ ops, S op.time) :
    TimeSorted (applyOps (ControlPoints.empty : ControlPoints F) ops) :=
  times_strictly_sorted T (reach_adds ops hops)

/-- no list holds two points whose times are `==`. -/
def OnePerTime (cp : ControlPoints F) : Prop :=
  (∀ (i j : Nat) (a b : TimingPoint F),
    cp.timingPoints[i]? = some a → cp.timingPoints[j]? = some b → Scalar.eq a.time b.time = true → i = j) ∧
  (∀ (i j : Nat) (a b : DifficultyPoint F),
    cp.difficultyPoints[i]? = some a → cp.difficultyPoints[j]? = some b → Scalar.eq a.time b.time = true → i = j) ∧
  (∀ (i j : Nat) (a b : EffectPoint F),
    cp.effectPoints[i]? = some a → cp.effectPoints[j]? = some b → Scalar.eq a.time b.time = true → i = j) ∧
  (∀ (i j : Nat) (a b : SamplePoint F),
    cp.samplePoints[i]? = some a → cp.samplePoints[j]? = some b → Scalar.eq a.time b.time = true → i = j)

/-- **one_point_per_time** (as worded): at most one point per time in each list. -/
theorem one_point_per_time (T : TimeKeyOn S) {cp : ControlPoints F} (h : Reach S cp) : OnePerTime cp :=
  ⟨fun _ _ _ _ ha hb he => unique_time T (fun _ => rfl) h.times.t h.sorted.timing ha hb he,
   fun _ _ _ _ ha hb he => unique_time T (fun _ => rfl) h.times.d h.sorted.difficulty ha hb he,
   fun _ _ _ _ ha hb he => unique_time T (fun _ => rfl) h.times.e h.sorted.effect ha hb he,
   fun _ _ _ _ ha hb he => unique_time T (fun _ => rfl) h.times.s h.sorted.sample ha hb he⟩

/-- **lookup_time_spec** (as worded): each lookup returns the latest stored point whose time is not after the probe time
(`p.time <= t`); where there is none, timing and sample lookups return the first stored point and difficulty and effect
lookups return nothing. -/
theorem lookup_time_spec (T : TimeKeyOn S) {cp : ControlPoints F} (h : Reach S cp) {t : F} (ht : S t) :
    cp.difficultyPointAt t = lastLeTime DifficultyPoint.time t cp.difficultyPoints ∧
    cp.effectPointAt t = lastLeTime EffectPoint.time t cp.effectPoints ∧
    cp.timingPointAt t = orHead (lastLeTime TimingPoint.time t cp.timingPoints) cp.timingPoints ∧
    cp.samplePointAt t = orHead (lastLeTime SamplePoint.time t cp.samplePoints) cp.samplePoints := by
  obtain ⟨h1, h2, h3, h4⟩ := lookup_spec h.sorted t
  rw [h1, h2, h3, h4]
  rw [lastLE_eq_time T (key := DifficultyPoint.key) (tm := DifficultyPoint.time) (fun _ => rfl) h.times.d ht,
    lastLE_eq_time T (key := EffectPoint.key) (tm := EffectPoint.time) (fun _ => rfl) h.times.e ht,
    lastLE_eq_time T (key := TimingPoint.key) (tm := TimingPoint.time) (fun _ => rfl) h.times.t ht,
    lastLE_eq_time T (key := SamplePoint.key) (tm := SamplePoint.time) (fun _ => rfl) h.times.s ht]
  exact ⟨rfl, rfl, rfl, rfl⟩

/-- **before the first point** (as worded): a probe time strictly before every stored time. -/
theorem before_first_time (T : TimeKeyOn S) {cp : ControlPoints F} (h : Reach S cp) {t : F} (ht : S t)
    (hT : ∀ p ∈ cp.timingPoints, Scalar.lt t p.time = true)
    (hD : ∀ p ∈ cp.difficultyPoints, Scalar.lt t p.time = true)
    (hE : ∀ p ∈ cp.effectPoints, Scalar.lt t p.time = true)
    (hSa : ∀ p ∈ cp.samplePoints, Scalar.lt t p.time = true) :
    cp.timingPointAt t = cp.timingPoints.head? ∧ cp.samplePointAt t = cp.samplePoints.head? ∧
    cp.difficultyPointAt t = none ∧ cp.effectPointAt t = none := by
  have a := before_first_timing_sample cp t
    (fun p hp => (T.lt_iff _ _ ht (h.times.t p hp)).mpr (hT p hp))
    (fun p hp => (T.lt_iff _ _ ht (h.times.s p hp)).mpr (hSa p hp))
  have b := before_first_difficulty_effect cp t
    (fun p hp => (T.lt_iff _ _ ht (h.times.d p hp)).mpr (hD p hp))
    (fun p hp => (T.lt_iff _ _ ht (h.times.e p hp)).mpr (hE p hp))
  exact ⟨a.1, a.2, b.1, b.2⟩

/-! ### redundancy and replacement, in times -/

/-- the difficulty point active at the *time* of `p` (the default when there is none). -/
def activeDifficultyT (cp : ControlPoints F) (p : DifficultyPoint F) : DifficultyPoint F :=
  (lastLeTime DifficultyPoint.time p.time cp.difficultyPoints).getD DifficultyPoint.default

def activeEffectT (cp : ControlPoints F) (p : EffectPoint F) : EffectPoint F :=
  (lastLeTime EffectPoint.time p.time cp.effectPoints).getD EffectPoint.default

def sampleRedundantT (cp : ControlPoints F) (p : SamplePoint F) : Bool :=
  match lastLeTime SamplePoint.time p.time cp.samplePoints with
  | some e => p.isRedundant e
  | none => false

/-- **a redundant add is a no-op** (as worded), difficulty points: the collection is unchanged when the point repeats the point
active at its time (the default when none is), and otherwise the point is inserted at / overwrites its time. -/
theorem add_difficulty_time (T : TimeKeyOn S) {cp : ControlPoints F} (h : Reach S cp) (p : DifficultyPoint F)
    (hp : S p.time) :
    cp.addDifficulty p =
      if p.isRedundant (activeDifficultyT cp p) then cp
      else { cp with difficultyPoints := insertOrReplace DifficultyPoint.key p cp.difficultyPoints } := by
  rw [add_difficulty_eq h.sorted]
  unfold activeDifficulty activeDifficultyT
  rw [show p.key = Scalar.totalKey p.time from rfl,
    lastLE_eq_time T (key := DifficultyPoint.key) (tm := DifficultyPoint.time) (fun _ => rfl) h.times.d hp]

theorem add_effect_time (T : TimeKeyOn S) {cp : ControlPoints F} (h : Reach S cp) (p : EffectPoint F)
    (hp : S p.time) :
    cp.addEffect p =
      if p.isRedundant (activeEffectT cp p) then cp
      else { cp with effectPoints := insertOrReplace EffectPoint.key p cp.effectPoints } := by
  rw [add_effect_eq h.sorted]
  unfold activeEffect activeEffectT
  rw [show p.key = Scalar.totalKey p.time from rfl,
    lastLE_eq_time T (key := EffectPoint.key) (tm := EffectPoint.time) (fun _ => rfl) h.times.e hp]

/-- sample points: compared with the active point only; always stored when none is active. -/
theorem add_sample_time (T : TimeKeyOn S) {cp : ControlPoints F} (h : Reach S cp) (p : SamplePoint F)
    (hp : S p.time) :
    cp.addSample p =
      if sampleRedundantT cp p then cp
      else { cp with samplePoints := insertOrReplace SamplePoint.key p cp.samplePoints } := by
  rw [add_sample_eq h.sorted]
  unfold sampleRedundant sampleRedundantT
  rw [show p.key = Scalar.totalKey p.time from rfl,
    lastLE_eq_time T (key := SamplePoint.key) (tm := SamplePoint.time) (fun _ => rfl) h.times.s hp]
  rfl

/-- the no-op clause on its own. -/
theorem add_redundant_noop (T : TimeKeyOn S) {cp : ControlPoints F} (h : Reach S cp) :
    (∀ p : DifficultyPoint F, S p.time → p.isRedundant (activeDifficultyT cp p) = true → cp.addDifficulty p = cp) ∧
    (∀ p : EffectPoint F, S p.time → p.isRedundant (activeEffectT cp p) = true → cp.addEffect p = cp) ∧
    (∀ p : SamplePoint F, S p.time → sampleRedundantT cp p = true → cp.addSample p = cp) := by
  refine ⟨fun p hp hr => ?_, fun p hp hr => ?_, fun p hp hr => ?_⟩
  · rw [add_difficulty_time T h p hp, hr]; rfl
  · rw [add_effect_time T h p hp, hr]; rfl
  · rw [add_sample_time T h p hp, hr]; rfl

/-- **replace at an equal time** (as worded): a point added at a time that is `==` to a stored time overwrites exactly that
point (when the redundancy test lets it through; timing points always). -/
theorem replace_at_equal_time_T (T : TimeKeyOn S) {cp : ControlPoints F} (h : Reach S cp) :
    (∀ p : TimingPoint F, S p.time → (∃ q ∈ cp.timingPoints, Scalar.eq q.time p.time = true) →
      (cp.addTiming p).timingPoints =
        cp.timingPoints.map (fun x => if Scalar.eq x.time p.time = true then p else x)) ∧
    (∀ p : DifficultyPoint F, S p.time → (∃ q ∈ cp.difficultyPoints, Scalar.eq q.time p.time = true) →
      p.isRedundant (activeDifficultyT cp p) = false →
      (cp.addDifficulty p).difficultyPoints =
        cp.difficultyPoints.map (fun x => if Scalar.eq x.time p.time = true then p else x)) ∧
    (∀ p : EffectPoint F, S p.time → (∃ q ∈ cp.effectPoints, Scalar.eq q.time p.time = true) →
      p.isRedundant (activeEffectT cp p) = false →
      (cp.addEffect p).effectPoints =
        cp.effectPoints.map (fun x => if Scalar.eq x.time p.time = true then p else x)) ∧
    (∀ p : SamplePoint F, S p.time → (∃ q ∈ cp.samplePoints, Scalar.eq q.time p.time = true) →
      sampleRedundantT cp p = false →
      (cp.addSample p).samplePoints =
        cp.samplePoints.map (fun x => if Scalar.eq x.time p.time = true then p else x)) := by
  refine ⟨fun p hp hex => ?_, fun p hp hex hr => ?_, fun p hp hex hr => ?_, fun p hp hex hr => ?_⟩
  · obtain ⟨q, hq, he⟩ := hex
    rw [replace_at_equal_time h.sorted p ⟨q, hq, (T.eq_iff _ _ (h.times.t q hq) hp).mpr he⟩]
    exact replace_pred_eq T (key := TimingPoint.key) (tm := TimingPoint.time) (fun _ => rfl) h.times.t hp
  · obtain ⟨q, hq, he⟩ := hex
    rw [add_difficulty_time T h p hp, hr]
    simp only [Bool.false_eq_true, if_false]
    rw [insertOrReplace_replace h.sorted.difficulty ⟨q, hq, (T.eq_iff _ _ (h.times.d q hq) hp).mpr he⟩]
    exact replace_pred_eq T (key := DifficultyPoint.key) (tm := DifficultyPoint.time) (fun _ => rfl) h.times.d hp
  · obtain ⟨q, hq, he⟩ := hex
    rw [add_effect_time T h p hp, hr]
    simp only [Bool.false_eq_true, if_false]
    rw [insertOrReplace_replace h.sorted.effect ⟨q, hq, (T.eq_iff _ _ (h.times.e q hq) hp).mpr he⟩]
    exact replace_pred_eq T (key := EffectPoint.key) (tm := EffectPoint.time) (fun _ => rfl) h.times.e hp
  · obtain ⟨q, hq, he⟩ := hex
    rw [add_sample_time T h p hp, hr]
    simp only [Bool.false_eq_true, if_false]
    rw [insertOrReplace_replace h.sorted.sample ⟨q, hq, (T.eq_iff _ _ (h.times.s q hq) hp).mpr he⟩]
    exact replace_pred_eq T (key := SamplePoint.key) (tm := SamplePoint.time) (fun _ => rfl) h.times.s hp

/-- **the worded property, whole**: for every history of `add`s whose times lie in `S` and every probe time in `S` —
strictly increasing times, one point per time, lookups by time with their fallbacks, redundant adds are no-ops. -/
theorem worded_property (T : TimeKeyOn S) (ops : List (Op F)) (hops : ∀ op ∈ ops, S op.time) :
    let cp := applyOps (ControlPoints.empty : ControlPoints F) ops
    TimeSorted cp ∧ OnePerTime cp ∧
    (∀ t : F, S t →
      cp.difficultyPointAt t = lastLeTime DifficultyPoint.time t cp.difficultyPoints ∧
      cp.effectPointAt t = lastLeTime EffectPoint.time t cp.effectPoints ∧
      cp.timingPointAt t = orHead (lastLeTime TimingPoint.time t cp.timingPoints) cp.timingPoints ∧
      cp.samplePointAt t = orHead (lastLeTime SamplePoint.time t cp.samplePoints) cp.samplePoints) ∧
    (∀ p : DifficultyPoint F, S p.time → p.isRedundant (activeDifficultyT cp p) = true → cp.addDifficulty p = cp) ∧
    (∀ p : EffectPoint F, S p.time → p.isRedundant (activeEffectT cp p) = true → cp.addEffect p = cp) ∧
    (∀ p : SamplePoint F, S p.time → sampleRedundantT cp p = true → cp.addSample p = cp) := by
  have h := reach_adds (S := S) ops hops
  obtain ⟨r1, r2, r3⟩ := add_redundant_noop T h
  exact ⟨times_strictly_sorted T h, one_point_per_time T h, fun t ht => lookup_time_spec T h ht, r1, r2, r3⟩

end Collection

/-! ## from `ExactScalar`; why the set `S` is needed -/

section Exact
variable {K : Type} [Field K] [LinearOrder K] [IsStrictOrderedRing K] {φ : F → K} {S : F → Prop}

/-- under `ExactScalar` the comparisons are those of the field, so the only thing left to assume is that the key is strictly
monotone on `S`. -/
theorem timeKeyOn_of_exact (E : ExactScalar φ)
    (hk : ∀ a b : F, S a → S b → (Scalar.totalKey a < Scalar.totalKey b ↔ φ a < φ b)) : TimeKeyOn S where
  lt_iff a b ha hb := by rw [hk a b ha hb, E.lt_iff]
  eq_iff a b ha hb := by
    rw [E.eq_iff]
    constructor
    · intro h
      apply E.inj
      have h1 : ¬ φ a < φ b := fun hc => by have := (hk a b ha hb).mpr hc; omega
      have h2 : ¬ φ b < φ a := fun hc => by have := (hk b a hb ha).mpr hc; omega
      exact le_antisymm (not_lt.mp h2) (not_lt.mp h1)
    · intro h; rw [h]
  le_iff a b ha hb := by
    rw [E.le_iff]
    constructor
    · intro h
      exact not_lt.mp (fun hc => by have := (hk b a hb ha).mpr hc; omega)
    · intro h
      exact Int.not_lt.mp (fun hc => absurd ((hk b a hb ha).mp hc) (not_lt.mpr h))

/-- … and that cannot be assumed for *all* values: an exact scalar contains the rationals, and no `Int`-valued key is strictly
monotone on them (between `key 0` and `key 1` there is room for finitely many keys only). -/
theorem no_global_time_key (E : ExactScalar φ) :
    ¬ ∀ a b : F, (Scalar.totalKey a < Scalar.totalKey b ↔ φ a < φ b) := by
  intro hk
  -- the `M + 1` values `k / M`, `k = 0 … M`, have strictly increasing keys
  have step : ∀ (M : Nat), 0 < M → ∀ k : Nat, k ≤ M →
      Scalar.totalKey (0 : F) + k ≤ Scalar.totalKey ((Scalar.ofNat k : F) / (Scalar.ofNat M : F)) := by
    intro M hM k
    induction k with
    | zero =>
      intro _
      have : (Scalar.ofNat 0 : F) / (Scalar.ofNat M : F) = (0 : F) := by
        apply E.inj; rw [E.div, E.ofNat, E.ofNat, E.zero]; simp
      rw [this]; simp
    | succ k ih =>
      intro hk1
      have hlt : Scalar.totalKey ((Scalar.ofNat k : F) / (Scalar.ofNat M : F)) <
          Scalar.totalKey ((Scalar.ofNat (k + 1) : F) / (Scalar.ofNat M : F)) := by
        rw [hk, E.div, E.div, E.ofNat, E.ofNat, E.ofNat]
        have hM' : (0 : K) < (M : K) := by exact_mod_cast hM
        apply div_lt_div_of_pos_right _ hM'
        push_cast; linarith
      have := ih (by omega)
      push_cast at this ⊢
      omega
  have hone : ∀ M : Nat, 0 < M → (Scalar.ofNat M : F) / (Scalar.ofNat M : F) = (Scalar.ofNat 1 : F) := by
    intro M hM
    apply E.inj
    rw [E.div, E.ofNat, E.ofNat]
    have hM' : (M : K) ≠ 0 := by exact_mod_cast (Nat.pos_iff_ne_zero.mp hM)
    rw [div_self hM']; simp
  let M := (Scalar.totalKey (Scalar.ofNat 1 : F) - Scalar.totalKey (0 : F)).toNat + 1
  have := step M (by omega) M (Nat.le_refl _)
  rw [hone M (by omega)] at this
  omega

end Exact

/-! ## the hypothesis is satisfiable; F8 is its exact boundary on a scalar with two zeros -/

section Examples

/-- the toy `Z` (Lemmas/ToyScalar.lean: key = value): every set of times. -/
theorem timeKeyOn_z : TimeKeyOn (fun _ : Z => True) where
  lt_iff a b _ _ := by show a.v < b.v ↔ decide (a.v < b.v) = true; simp
  eq_iff a b _ _ := by show a.v = b.v ↔ decide (a.v = b.v) = true; simp
  le_iff a b _ _ := by show a.v ≤ b.v ↔ decide (a.v ≤ b.v) = true; simp

/-- the worded property on the example collection of Props/C13.lean (times 5, 3, 1, 2, 4, 2 added in this order). -/
example : TimeSorted exCp := adds_time_sorted timeKeyOn_z _ (fun _ _ => trivial)
example : exCp.timingPoints.map (·.time.v) = [2, 5] ∧ exCp.difficultyPoints.map (·.time.v) = [1, 3] := by decide

/-- a scalar with two zeros: on every set of values that does not contain `−0` the key order is the time order … -/
theorem timeKeyOn_zz_no_negzero : TimeKeyOn (fun a : ZZ => ¬ (a.v = 0 ∧ a.neg = true)) where
  lt_iff a b ha hb := by
    show ZZ.key a < ZZ.key b ↔ decide (a.v < b.v) = true
    obtain ⟨av, an⟩ := a
    obtain ⟨bv, bn⟩ := b
    simp only [ZZ.key, decide_eq_true_eq] at *
    cases an <;> cases bn <;> simp at ha hb ⊢ <;> (repeat' split) <;> omega
  eq_iff a b ha hb := by
    show ZZ.key a = ZZ.key b ↔ decide (a.v = b.v) = true
    obtain ⟨av, an⟩ := a
    obtain ⟨bv, bn⟩ := b
    simp only [ZZ.key, decide_eq_true_eq] at *
    cases an <;> cases bn <;> simp at ha hb ⊢ <;> (repeat' split) <;> omega
  le_iff a b ha hb := by
    show ZZ.key a ≤ ZZ.key b ↔ decide (a.v ≤ b.v) = true
    obtain ⟨av, an⟩ := a
    obtain ⟨bv, bn⟩ := b
    simp only [ZZ.key, decide_eq_true_eq] at *
    cases an <;> cases bn <;> simp at ha hb ⊢ <;> (repeat' split) <;> omega

/-- … while no set containing both zeros satisfies it: `−0 == +0` but the keys differ. -/
theorem timeKeyOn_zz_both_zeros_false (S : ZZ → Prop) (h1 : S ZZ.negZero) (h2 : S ZZ.posZero) : ¬ TimeKeyOn S := by
  intro T
  have := (T.eq_iff ZZ.negZero ZZ.posZero h1 h2).mpr (by decide)
  revert this; decide

/-- **F8 on the toy**: `add(+0); add(−0)` stores two timing points whose times are `==` — the worded property fails — … -/
example :
    let cp := applyOps (ControlPoints.empty : ControlPoints ZZ)
      [.timing ⟨ZZ.posZero, ZZ.num 500, false, ⟨4⟩⟩, .timing ⟨ZZ.negZero, ZZ.num 250, false, ⟨4⟩⟩]
    cp.timingPoints.length = 2 ∧
    cp.timingPoints.Pairwise (fun a b => Scalar.eq a.time b.time = true) := by decide

/-- … and the same history with one zero only stores one point (the second replaces the first), as worded. -/
example :
    let cp := applyOps (ControlPoints.empty : ControlPoints ZZ)
      [.timing ⟨ZZ.posZero, ZZ.num 500, false, ⟨4⟩⟩, .timing ⟨ZZ.posZero, ZZ.num 250, false, ⟨4⟩⟩]
    cp.timingPoints.map (·.beatLen.v) = [250] := by decide

end Examples

section RatExample
open Rosu.ToyRat

/-- `ExactScalar` on `Rat` (key = floor, Lemmas/ToyRat.lean) with `S` = the integers: `timeKeyOn_of_exact` applies. -/
theorem timeKeyOn_rat_integers : TimeKeyOn (fun a : Rat => ((a.floor : Int) : Rat) = a) :=
  timeKeyOn_of_exact (φ := (id : Rat → Rat)) exactScalar_rat (by
    intro a b ha hb
    show a.floor < b.floor ↔ a < b
    rw [← ha, ← hb]
    simp only [Rat.floor_intCast]
    exact Int.cast_lt.symm)

end RatExample

end Rosu.C13
