/-
  Props/C02.lean — decode → encode → decode returns the same map.
  First layer: the line-level inverses (value text survives `key: value` framing; integers survive
  `Display`/`FromStr`). The section- and map-level layers are in Lemmas/EncodeLines.lean as they are proved.
-/
import RosuModel.Model.Encode
import RosuModel.Props.C11
namespace Rosu.C02
open Rosu Encode

theorem trim_cons_space (v : Str) : trim (' ' :: v) = trim v := by
  simp [trim, trimStart, isWs]

/-- **kv_line_split**: what the decoder's `KeyValue::parse` sees in an encoded `key: value` line. -/
theorem kvSplit_kvLine (key v : Str) (hk : ':' ∉ key) :
    kvSplit (key ++ str ": " ++ v) = (trim key, trim v) := by
  have : key ++ str ": " ++ v = key ++ ':' :: (' ' :: v) := by simp [str]
  rw [this, C11.value_is_after_first_colon key _ hk, trim_cons_space]

example : kvSplit (str "Title: Re:Zero // x") = (str "Title", str "Re:Zero // x") := by decide

end Rosu.C02
