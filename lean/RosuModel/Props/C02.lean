/-
  Props/C02.lean — decode → encode → decode returns the same map.

  Proved here (helper lemmas in Lemmas/{Digits,EncodeLines,CodecLaws,Rt*}.lean):
  * layer 1, line level: `kvSplit_kvLine`, `kv_line_roundtrip` (a self-trimmed value, empty included, comes back
    from the end-trimmed `key: value` line), the integer codec (`int_display_parse`: the model's own
    `Display`/`FromStr` for `i32`, `u32`, `u8` — no hypothesis);
  * layer 2, section level, for each of the six record sections: the block the encoder writes, run through that
    section's parser from the decoder's initial state, gives the section back on the preserved view
    (`metadata_block_roundtrip`, `colours_block_roundtrip`: unconditional; `editor_…`, `difficulty_…`, `general_…`,
    `events_block_roundtrip`: for every lawful number codec);
  * file level for those sections: `records_roundtrip`.
  * layer 3 in part: `circle_rt`, `spinner_rt`, `hold_rt` (one line, any decoder state); layer 4 in part:
    `samples_bank_info_rt` (`get_sample_bank` against `read_custom_sample_banks`) and `samples_rt` (names and banks of a
    sample list in the decoder's shape come back through `convert_sound_type`).
  Sliders (path string, node samples, the whole line, and the `[HitObjects]` block of representable objects) are in
  Props/C02Slider.lean (`path_string_roundtrip`, `slider_rt`, `slider_rt_exact`, `node_samples_rt`, `hitobjects_block_rt`).
  Still only statements (evaluated by the `rt` oracle and the three-way `rt` correspondence): timing points (layer 5 of
  DESIGN 5.2), that every object of a decoded map is representable, the map-level processing, and hence the full
  `roundtrip_statement`.
-/
import RosuModel.Model.Encode
import RosuModel.Props.C11
import RosuModel.Lemmas.RtFile
import RosuModel.Lemmas.RtObjects
namespace Rosu.C02
open Rosu Encode EncodeLines C11

theorem trim_cons_space (v : Str) : trim (' ' :: v) = trim v := by
  simp [trim, trimStart, isWs]

/-- **kv_line_split**: what the decoder's `KeyValue::parse` sees in an encoded `key: value` line. -/
theorem kvSplit_kvLine (key v : Str) (hk : ':' ∉ key) :
    kvSplit (key ++ str ": " ++ v) = (trim key, trim v) := by
  have : key ++ str ": " ++ v = key ++ ':' :: (' ' :: v) := by simp [str]
  rw [this, C11.value_is_after_first_colon key _ hk, trim_cons_space]

example : kvSplit (str "Title: Re:Zero // x") = (str "Title", str "Re:Zero // x") := by decide

/-- **kv_line_roundtrip** (layer 1): the line as the reader delivers it (end-trimmed) splits into exactly the key
and the value, for every self-trimmed value — an empty one included (`Title: ` arrives as `Title:`). -/
theorem kv_line_roundtrip (key v : Str) (hk : ':' ∉ key) (hkt : trim key = key) (hv : trim v = v) :
    kvSplit (trimEnd (key ++ str ": " ++ v)) = (key, v) := by
  have : key ++ str ": " ++ v = kvl key v := by simp [kvl, str]
  rw [this]
  exact kvSplit_trimEnd_kvl key v hk hkt hv

example : kvSplit (trimEnd (str "Title" ++ str ": " ++ [])) = (str "Title", []) :=
  kv_line_roundtrip _ _ (by decide) (by decide) (by decide)

/-- **integers survive `Display` / `FromStr`** — the model's own integer codec, no hypothesis. -/
theorem int_display_parse :
    (∀ n : Nat, parseDigits (decDigits n) = some n) ∧
    (∀ v : Int, i32Min ≤ v → v ≤ i32Max → i32FromStr (intDigits v) = some v) ∧
    (∀ v : Int, -i32Max ≤ v → v ≤ i32Max → i32Parse (intDigits v) = some v) ∧
    (∀ n : Nat, n ≤ 255 → u8FromStr (decDigits n) = some n) :=
  ⟨parseDigits_decDigits, i32FromStr_intDigits, i32Parse_intDigits, u8FromStr_decDigits⟩

/-- printed integers contain only digits and a leading `-`: no separator, no white space, equal to their own trim. -/
theorem int_display_clean (v : Int) :
    (∀ c ∈ intDigits v, isDig c = true ∨ c = '-') ∧ trim (intDigits v) = intDigits v ∧
    ',' ∉ intDigits v ∧ ':' ∉ intDigits v ∧ '|' ∉ intDigits v ∧ '\n' ∉ intDigits v ∧ ' ' ∉ intDigits v ∧ '/' ∉ intDigits v :=
  ⟨intDigits_chars v, trim_intDigits v, intDigits_not_mem v _ (by decide), intDigits_not_mem v _ (by decide),
   intDigits_not_mem v _ (by decide), intDigits_not_mem v _ (by decide), intDigits_not_mem v _ (by decide),
   intDigits_not_mem v _ (by decide)⟩

/-! ### layer 2: the record sections -/

/-- **[Metadata]**: all ten fields; non-positive ids (not written) come back as −1 / 0. -/
theorem metadata_block_roundtrip (d : Metadata) (h : RtMetadata.RepMetadata d) :
    Accepts parseMetadata Metadata.default (RtMetadata.decodedLines d) ∧
    runSection parseMetadata Metadata.default (RtMetadata.decodedLines d) = RtMetadata.preservedMetadata d :=
  ⟨(RtMetadata.metadata_block_roundtrip d h).2.1, (RtMetadata.metadata_block_roundtrip d h).2.2⟩

example : runSection parseMetadata Metadata.default (RtMetadata.decodedLines RtMetadata.sample) = RtMetadata.sample := by decide

/-- **[Colours]**: combo colours in order, custom colours by name; alpha is not carried (255 is stored). -/
theorem colours_block_roundtrip (c : Colors) (h : RtColours.RepColors c) :
    Accepts parseColors Colors.default (RtColours.decodedLines c) ∧
    runSection parseColors Colors.default (RtColours.decodedLines c) = RtColours.preservedColors c :=
  ⟨(RtColours.colours_block_roundtrip c h).2.1, (RtColours.colours_block_roundtrip c h).2.2⟩

/-- on decoded maps (alpha 255 everywhere) the colours come back unchanged. -/
theorem colours_block_roundtrip_decoded (c : Colors) (h : RtColours.RepColors c)
    (h1 : ∀ x ∈ c.customComboColors, x.a = 255) (h2 : ∀ x ∈ c.customColors, x.color.a = 255) :
    runSection parseColors Colors.default (RtColours.decodedLines c) = c := by
  rw [(colours_block_roundtrip c h).2, RtColours.preservedColors_of_opaque c h1 h2]

example : runSection parseColors Colors.default (RtColours.decodedLines RtColours.sample) = RtColours.sample := by decide

section
variable {F P : Type} [Scalar F] [Scalar P] {RF : F → Prop} {RP : P → Prop}

/-- **[Editor]**, for every lawful codec: all five fields. -/
theorem editor_block_roundtrip (LF : CodecLaws F RF) (e : Editor F) (h : RtEditor.RepEditor RF e) :
    Accepts parseEditor (Editor.default : Editor F) (RtEditor.decodedLines e) ∧
    runSection parseEditor Editor.default (RtEditor.decodedLines e) = e :=
  ⟨(RtEditor.editor_block_roundtrip LF e h).2.1, (RtEditor.editor_block_roundtrip LF e h).2.2⟩

/-- **[Difficulty]**, for every lawful pair of codecs: all six values (slider multiplier / tick rate inside their clamps). -/
theorem difficulty_block_roundtrip (LF : CodecLaws F RF) (LP : CodecLaws P RP) (d : Difficulty F P)
    (h : RtDifficulty.RepDifficulty RF RP d) :
    Accepts parseDifficulty (DifficultyState.create : DifficultyState F P) (RtDifficulty.decodedLines d) ∧
    (runSection parseDifficulty (DifficultyState.create : DifficultyState F P) (RtDifficulty.decodedLines d)).difficulty = d :=
  ⟨(RtDifficulty.difficulty_block_roundtrip LF LP d h).2.1, (RtDifficulty.difficulty_block_roundtrip LF LP d h).2.2⟩

/-- **[General]**, under the codec laws: everything except `default_sample_bank` / `default_sample_volume`, with
`special_style` outside mania and a non-positive `countdown_offset` excluded (`preservedGeneral`). -/
theorem general_block_roundtrip (LI : IntPrintLaw F) (LP : CodecLaws P RP) (g : GeneralState F P) (ss : SampleBank)
    (h : RtGeneral.RepGeneral RP g) :
    Accepts RtGeneral.generalStep (GeneralState.default : GeneralState F P) (RtGeneral.decodedLines g ss) ∧
    runSection RtGeneral.generalStep (GeneralState.default : GeneralState F P) (RtGeneral.decodedLines g ss) =
      RtGeneral.preservedGeneral g ss :=
  ⟨(RtGeneral.general_block_roundtrip LI LP g ss h).2.1, (RtGeneral.general_block_roundtrip LI LP g ss h).2.2⟩

/-- **[Events]**, for every lawful codec: background file and breaks (with `start ≤ end` as `f64::max` sees it). -/
theorem events_block_roundtrip (LF : CodecLaws F RF) (e : Events F) (h : RtEvents.RepEvents RF e) :
    Accepts parseEvents (Events.default : Events F) (RtEvents.decodedLines e) ∧
    runSection parseEvents (Events.default : Events F) (RtEvents.decodedLines e) = e :=
  ⟨(RtEvents.events_block_roundtrip LF e h).2.1, (RtEvents.events_block_roundtrip LF e h).2.2⟩

/-- the laws are satisfiable: the toy codec (`print` = `Display for i32`, `parse` = `FromStr for i32`). -/
theorem laws_satisfiable : CodecLaws ZC ZC.Rep ∧ IntPrintLaw ZC := ⟨ZC.laws, ZC.intPrintLaw⟩

example : runSection parseEditor Editor.default (RtEditor.decodedLines RtEditor.sample) = RtEditor.sample :=
  (editor_block_roundtrip ZC.laws _ RtEditor.sample_rep).2
example : (runSection parseDifficulty DifficultyState.create (RtDifficulty.decodedLines RtDifficulty.sample)).difficulty = RtDifficulty.sample :=
  (difficulty_block_roundtrip ZC.laws ZC.laws _ RtDifficulty.sample_rep).2
example : runSection parseEvents Events.default (RtEvents.decodedLines RtEvents.sample) = RtEvents.sample :=
  (events_block_roundtrip ZC.laws _ RtEvents.sample_rep).2
example := general_block_roundtrip ZC.intPrintLaw ZC.laws RtGeneral.sample SampleBank.soft RtGeneral.sample_rep

variable [Cvt P F] [Trig F] [Trig P]

/-- **records_roundtrip** — file level, the six record sections: encode a map whose record sections are
representable (under the codec laws; the two list blocks being LF-terminated record lines), read the UTF-8 bytes
back with the `Beatmap` decoder: reading succeeds, and whenever finalisation succeeds the re-decoded map has the
same format version, general (preserved view), editor, metadata (preserved view), difficulty, events and colours
(alpha 255). -/
theorem records_roundtrip (LF : CodecLaws F RF) (LP : CodecLaws P RP) (LI : IntPrintLaw F) (m : Beatmap F P)
    (hm : RtFile.RepRecords RF RP m) (t : Str) (T H : List Str) (h : encode m = .ok t)
    (hT : encodeTimingPoints m = .ok (unlines (str "[TimingPoints]" :: T)))
    (hH : encodeHitObjects m = .ok (unlines (str "[HitObjects]" :: H)))
    (sT : RtFile.ListBlockShape T) (sH : RtFile.ListBlockShape H) :
    ∃ st : BeatmapState F P, decodeBytes beatmapDecoder (utf8Encode t) = .ok st ∧
      ∀ m2 : Beatmap F P, st.finish = .ok m2 →
        m2.formatVersion = m.formatVersion ∧
        m2.general = RtGeneral.preservedGeneral m.general (RtGeneral.sampleSetOf m.controlPoints) ∧
        m2.editor = m.editor ∧ m2.metadata = RtMetadata.preservedMetadata m.metadata ∧ m2.difficulty = m.difficulty ∧
        m2.events = m.events ∧ m2.colors = RtColours.preservedColors m.colors :=
  RtFile.decoded_records_roundtrip LF LP LI m hm t T H h hT hH sT sH

end

/-! ### layer 3 (part): circle, spinner and hold lines -/

section
variable {F P : Type} [Scalar F] [Scalar P] [Cvt P F] [Trig F] [Trig P] {RF : F → Prop} {RP : P → Prop}

/-- **circle_rt**: the line written for a circle decodes, in any state, to a circle at the same start time and position,
with the same combo offset when it starts a combo, `new_combo` or-ed with the decoder's forcing rule (first object /
after a spinner), and the samples derived from the same hit-sound byte and bank info (`samples_bank_info_rt`). -/
theorem circle_rt (LF : CodecLaws F RF) (LP : CodecLaws P RP) (mode : GameMode) (h : HitObject F P) (c : HitObjectCircle P)
    (hk : h.kind = .circle c) (hr : RtObjects.RepCircle RF RP mode h c) (st : HOCore F P) :
    encodeObject mode h = .ok (RtObjects.circleLine mode h c ++ EncodeLines.nl) ∧
    parseHitObjectLine mode st (trimEnd (RtObjects.circleLine mode h c)) =
      (RtObjects.pushed st 1 h.startTime
        (.circle ⟨c.pos, st.lastObject.isNone || lastWasSpinner st || c.newCombo, if c.newCombo then c.comboOffset else 0⟩)
        (RtObjects.decodedSamples h.samples mode), true) :=
  ⟨(RtObjects.circle_line_roundtrip LF LP mode h c hk hr st).1, (RtObjects.circle_line_roundtrip LF LP mode h c hk hr st).2.2.2⟩

/-- **spinner_rt**: same start time, duration (through `max(end − start, 0)`, a hypothesis on the two values) and
`new_combo`; the position is always the centre. -/
theorem spinner_rt (LF : CodecLaws F RF) (LP : CodecLaws P RP) (mode : GameMode) (h : HitObject F P) (sp : HitObjectSpinner F P)
    (hk : h.kind = .spinner sp) (hr : RtObjects.RepSpinner RF RP mode h sp) (st : HOCore F P) :
    encodeObject mode h = .ok (RtObjects.spinnerLine mode h sp ++ EncodeLines.nl) ∧
    parseHitObjectLine mode st (trimEnd (RtObjects.spinnerLine mode h sp)) =
      (RtObjects.pushed st 8 h.startTime (.spinner ⟨⟨(512 : P) / 2, (384 : P) / 2⟩, sp.duration, sp.newCombo⟩)
        (RtObjects.decodedSamples h.samples mode), true) :=
  ⟨(RtObjects.spinner_line_roundtrip LF LP mode h sp hk hr st).1, (RtObjects.spinner_line_roundtrip LF LP mode h sp hk hr st).2.2.2⟩

/-- **hold_rt**: same start time, column coordinate and duration (through `max(start, end) − start`). -/
theorem hold_rt (LF : CodecLaws F RF) (LP : CodecLaws P RP) (mode : GameMode) (h : HitObject F P) (ho : HitObjectHold F P)
    (hk : h.kind = .hold ho) (hr : RtObjects.RepHold RF RP mode h ho) (st : HOCore F P) :
    encodeObject mode h = .ok (RtObjects.holdLine mode h ho ++ EncodeLines.nl) ∧
    parseHitObjectLine mode st (trimEnd (RtObjects.holdLine mode h ho)) =
      (RtObjects.pushed st 128 h.startTime (.hold ⟨ho.posX, ho.duration⟩) (RtObjects.decodedSamples h.samples mode), true) :=
  ⟨(RtObjects.hold_line_roundtrip LF LP mode h ho hk hr st).1, (RtObjects.hold_line_roundtrip LF LP mode h ho hk hr st).2.2.2⟩

end

/-- **samples_bank_info_rt** (layer 4, the bank-info half): `read_custom_sample_banks` applied to what `get_sample_bank`
writes gives back the normal bank, the addition bank (falling back to the normal bank when `None`), the custom bank
index, the volume (negative read as 0) and the file name — no hypothesis on floats. -/
theorem samples_bank_info_rt (samples : List HitSampleInfo) (mode : GameMode) (hs : RtObjects.RepSamples samples mode) :
    ({} : SampleBankInfo).readCustomSampleBanks (splitOn ':' (getSampleBank samples false mode)) false =
      (RtObjects.bankInfoFor samples mode, true) := by
  rw [RtObjects.getSampleBank_eq]
  exact RtObjects.read_bankStr _ _ _ _ _ hs.file.noColon hs.custom hs.volume

example := samples_bank_info_rt RtObjects.sampleSamples GameMode.mania (RtObjects.sampleSamples_rep _)

/-- **samples_rt** (layer 4, the sample-list half): for a sample list in the decoder's own shape — a `Normal` sample with
a specified bank or a custom file, then any subset of finish / whistle / clap (in this order) sharing a specified
addition bank — the list the decoder rebuilds from the written hit-sound byte and bank string has the same names and
banks, in the same order. (Volume, custom-bank index, suffix and layering flag are outside the preserved view.) -/
theorem samples_rt (mode : GameMode) (first sF sW sC : HitSampleInfo) (fi wh cl : Bool) (ab : SampleBank) (hab : ab ≠ .none)
    (hfirst : (first.name = .default .normal ∧ first.bank ≠ .none) ∨
              (∃ f : Str, first.name = .file f ∧ f.isEmpty = false ∧ first.bank = SampleBank.normal))
    (hF : sF.name = .default .finish) (hFb : sF.bank = ab) (hW : sW.name = .default .whistle) (hWb : sW.bank = ab)
    (hC : sC.name = .default .clap) (hCb : sC.bank = ab) :
    (RtObjects.decodedSamples (first :: (RtObjects.optS fi sF ++ RtObjects.optS wh sW ++ RtObjects.optS cl sC)) mode).map RtObjects.nameBank =
      (first :: (RtObjects.optS fi sF ++ RtObjects.optS wh sW ++ RtObjects.optS cl sC)).map RtObjects.nameBank := by
  rcases hfirst with ⟨h1, h2⟩ | ⟨f, h1, h2, h3⟩
  · exact RtObjects.decoded_names_banks_default mode first sF sW sC fi wh cl first.bank ab h1 rfl h2 hab hF hFb hW hWb hC hCb
  · exact RtObjects.decoded_names_banks_file mode first sF sW sC fi wh cl f ab h1 h2 h3 hab hF hFb hW hWb hC hCb

example : (RtObjects.decodedSamples RtObjects.sampleSamples GameMode.osu).map RtObjects.nameBank =
    RtObjects.sampleSamples.map RtObjects.nameBank := by decide

/-- the full property, not yet a theorem: for a decoded map with chronological lines, the re-decoded map agrees
on the whole preserved view — here stated for the parts not covered by `records_roundtrip`: the hit objects (kinds,
times, positions, combo data, paths, repeat counts, node counts, sample names and banks) and the timing points. -/
def roundtrip_statement : Prop :=
  ∀ (F P : Type) [Scalar F] [Scalar P] [Cvt P F] [Trig F] [Trig P] (RF : F → Prop) (RP : P → Prop),
    CodecLaws F RF → CodecLaws P RP →
    ∀ (x : List Str) (m : Beatmap F P) (t : Str) (st2 : BeatmapState F P) (m2 : Beatmap F P),
      (frame beatmapDecoder x : BeatmapState F P).finish = .ok m → encode m = .ok t →
      decodeBytes beatmapDecoder (utf8Encode t) = .ok st2 → st2.finish = .ok m2 →
      m2.hitObjects.length = m.hitObjects.length ∧
      m2.controlPoints.timingPoints.length = m.controlPoints.timingPoints.length ∧
      (List.zip m2.hitObjects m.hitObjects).all (fun p => Scalar.eq p.1.startTime p.2.startTime) = true

end Rosu.C02
