/-
  Props/C07Finish.lean — C07 at the level of the *returned values*: the eight specialised decoders'
  finalised results against the finalised `Beatmap` (`BeatmapState.finish`), for every delivery schedule
  (hence every byte input), I/O errors and finaliser outcomes included.

  Finalisers (Model/Finalize.lean, Model/TimingDecode.lean, Model/Sections.lean):
    General, Editor, Metadata, Events, Colours — the state is the value;
    Difficulty — `DifficultyState.difficulty`;  TimingPoints — `TimingPointsState.finish` (flush, project);
    HitObjects — `HitObjectsState.finish : Outcome …` (sort, breaks, velocity, sample defaults; in the model it can
    end in `panic` / `fuel`, which depends on the mode and the curves);  Beatmap — `BeatmapState.finish`.
-/
import RosuModel.Props.C07
import RosuModel.Model.Finalize
import RosuModel.Lemmas.ToyInt
namespace Rosu.C07
open Rosu

variable {F P : Type} [Scalar F] [Scalar P] [Cvt P F] [Trig F] [Trig P]

/-! ### what each `from_bytes::<T>` returns (finaliser applied) -/

def beatmapValue (s : Sched) : Except IoKind (Outcome (Beatmap F P)) :=
  (decodeSched beatmapDecoder s).map BeatmapState.finish
def hitObjectsValue (s : Sched) : Except IoKind (Outcome (HitObjects F P)) :=
  (decodeSched hitObjectsDecoder s).map HitObjectsState.finish
def timingPointsValue (s : Sched) : Except IoKind (GeneralState F P × ControlPoints F) :=
  (decodeSched (timingPointsDecoder (F := F) (P := P)) s).map TimingPointsState.finish
def generalValue (s : Sched) : Except IoKind (GeneralState F P) := decodeSched generalDecoder s
def editorValue (s : Sched) : Except IoKind (Editor F) := decodeSched editorDecoder s
def metadataValue (s : Sched) : Except IoKind Metadata := decodeSched metadataDecoder s
def difficultyValue (s : Sched) : Except IoKind (Difficulty F P) :=
  (decodeSched (difficultyDecoder (F := F) (P := P)) s).map (·.difficulty)
def eventsValue (s : Sched) : Except IoKind (Events F) := decodeSched eventsDecoder s
def colorsValue (s : Sched) : Except IoKind Colors := decodeSched colorsDecoder s

/-- the `HitObjects` part of a finished `Beatmap`. -/
def _root_.Rosu.Beatmap.toHitObjects (m : Beatmap F P) : HitObjects F P :=
  { general := m.general, difficulty := m.difficulty, events := m.events, controlPoints := m.controlPoints,
    hitObjects := m.hitObjects }

/-! ### state projections over schedules (instances of `decoders_agree_bytes`) -/

theorem except_map_map {ε α β γ : Type} (x : Except ε α) (f : α → β) (g : β → γ) :
    (x.map f).map g = x.map (fun a => g (f a)) := by
  cases x <;> rfl

omit [Trig F] [Trig P] in
theorem sched_hitObjects (s : Sched) :
    (decodeSched (beatmapDecoder (F := F) (P := P)) s).map (·.hitObjects) = decodeSched hitObjectsDecoder s :=
  decoders_agree_bytes beatmapDecoder hitObjectsDecoder (·.hitObjects) (fun _ => rfl)
    (by intro sec st l; cases sec <;> rfl) s

omit [Trig F] [Trig P] in
theorem sched_editor (s : Sched) :
    (decodeSched (beatmapDecoder (F := F) (P := P)) s).map (·.editor) = decodeSched editorDecoder s :=
  decoders_agree_bytes beatmapDecoder editorDecoder (·.editor) (fun _ => rfl)
    (by intro sec st l; cases sec <;> rfl) s

omit [Trig F] [Trig P] in
theorem sched_metadata (s : Sched) :
    (decodeSched (beatmapDecoder (F := F) (P := P)) s).map (·.metadata) = decodeSched metadataDecoder s :=
  decoders_agree_bytes beatmapDecoder metadataDecoder (·.metadata) (fun _ => rfl)
    (by intro sec st l; cases sec <;> rfl) s

omit [Trig F] [Trig P] in
theorem sched_colors (s : Sched) :
    (decodeSched (beatmapDecoder (F := F) (P := P)) s).map (·.colors) = decodeSched colorsDecoder s :=
  decoders_agree_bytes beatmapDecoder colorsDecoder (·.colors) (fun _ => rfl)
    (by intro sec st l; cases sec <;> rfl) s

omit [Trig F] [Trig P] in
theorem sched_timingPoints (s : Sched) :
    (decodeSched (hitObjectsDecoder (F := F) (P := P)) s).map (·.timingPoints) = decodeSched timingPointsDecoder s :=
  decoders_agree_bytes hitObjectsDecoder timingPointsDecoder (·.timingPoints) (fun _ => rfl)
    (by intro sec st l; cases sec <;> rfl) s

omit [Trig F] [Trig P] in
theorem sched_difficulty (s : Sched) :
    (decodeSched (hitObjectsDecoder (F := F) (P := P)) s).map (·.difficulty) = decodeSched difficultyDecoder s :=
  decoders_agree_bytes hitObjectsDecoder difficultyDecoder (·.difficulty) (fun _ => rfl)
    (by intro sec st l; cases sec <;> rfl) s

omit [Trig F] [Trig P] in
theorem sched_events (s : Sched) :
    (decodeSched (hitObjectsDecoder (F := F) (P := P)) s).map (·.events) = decodeSched eventsDecoder s :=
  decoders_agree_bytes hitObjectsDecoder eventsDecoder (·.events) (fun _ => rfl)
    (by intro sec st l; cases sec <;> rfl) s

omit [Trig F] [Trig P] in
theorem sched_general (s : Sched) :
    (decodeSched (timingPointsDecoder (F := F) (P := P)) s).map (·.general) = decodeSched generalDecoder s :=
  decoders_agree_bytes timingPointsDecoder generalDecoder (·.general) (fun _ => rfl)
    (by
      intro sec st l
      cases sec <;> try rfl
      · show (st.parseGeneral l).2.general = (parseGeneral st.general l).2
        unfold TimingPointsState.parseGeneral
        cases h : parseGeneral st.general l with
        | mk r g => cases r <;> rfl
      · show (parseTimingPoints st l).2.general = st.general
        unfold parseTimingPoints
        split
        · rfl
        · exact applyTpLine_general st _) s

/-! ### the finalisers, unfolded -/

/-- `From<BeatmapState>`: the HitObjects finaliser decides success, failure and the error. -/
theorem beatmap_finish_hitObjects (st : BeatmapState F P) :
    st.finish.map Beatmap.toHitObjects = st.hitObjects.finish := by
  unfold BeatmapState.finish
  cases st.hitObjects.finish <;> rfl

/-- the fields `From<BeatmapState>` copies from the three plain sections and the version. -/
theorem beatmap_finish_fields (st : BeatmapState F P) (m : Beatmap F P) (h : st.finish = .ok m) :
    m.formatVersion = st.version ∧ m.editor = st.editor ∧ m.metadata = st.metadata ∧ m.colors = st.colors ∧
    st.hitObjects.finish = .ok m.toHitObjects := by
  unfold BeatmapState.finish at h
  cases hh : st.hitObjects.finish with
  | error e => rw [hh] at h; cases h
  | ok ho => rw [hh] at h; cases h; exact ⟨rfl, rfl, rfl, rfl, rfl⟩

/-- the fields `From<HitObjectsState>` takes from the timing-points, difficulty and events states. -/
theorem hitObjects_finish_fields (st : HitObjectsState F P) (ho : HitObjects F P) (h : st.finish = .ok ho) :
    (ho.general, ho.controlPoints) = st.timingPoints.finish ∧ ho.difficulty = st.difficulty.difficulty ∧
    ho.events = st.events := by
  unfold HitObjectsState.finish at h
  simp only [bind, Except.bind, pure, Except.pure] at h
  split at h
  · cases h
  · cases h; exact ⟨rfl, rfl, rfl⟩

omit [Trig F] [Trig P] [Scalar P] [Cvt P F] in
/-- `From<TimingPointsState>` flushes the pending group; the general section is not touched by that. -/
theorem timingPoints_finish_general (st : TimingPointsState F P) : st.finish.1 = st.general := rfl

/-! ### finished values -/

/-- **HitObjects vs Beatmap, finaliser outcome included**: for every delivery schedule `from_bytes::<HitObjects>`
returns exactly the HitObjects part of what `from_bytes::<Beatmap>` returns — the same I/O error, or the same
finaliser error (`panic` / `fuel` in the model), or the same general / difficulty / events / control points /
finalised hit objects. -/
theorem hitObjects_value_agrees (s : Sched) :
    hitObjectsValue (F := F) (P := P) s = (beatmapValue s).map (·.map Beatmap.toHitObjects) := by
  unfold hitObjectsValue beatmapValue
  rw [← sched_hitObjects, except_map_map, except_map_map]
  congr 1
  funext st
  exact (beatmap_finish_hitObjects st).symm

omit [Trig F] [Trig P] in
/-- the seven decoders with error-free finalisers, as finalisers of the full decoder's state. -/
theorem finished_values_state (s : Sched) :
    timingPointsValue (F := F) (P := P) s = (decodeSched (beatmapDecoder (F := F) (P := P)) s).map (fun st => st.hitObjects.timingPoints.finish) ∧
    generalValue (F := F) (P := P) s = (decodeSched (beatmapDecoder (F := F) (P := P)) s).map (fun st => st.hitObjects.timingPoints.finish.1) ∧
    editorValue (F := F) s = (decodeSched (beatmapDecoder (F := F) (P := P)) s).map (·.editor) ∧
    metadataValue s = (decodeSched (beatmapDecoder (F := F) (P := P)) s).map (·.metadata) ∧
    difficultyValue (F := F) (P := P) s = (decodeSched (beatmapDecoder (F := F) (P := P)) s).map (fun st => st.hitObjects.difficulty.difficulty) ∧
    eventsValue (F := F) s = (decodeSched (beatmapDecoder (F := F) (P := P)) s).map (fun st => st.hitObjects.events) ∧
    colorsValue s = (decodeSched (beatmapDecoder (F := F) (P := P)) s).map (·.colors) := by
  unfold timingPointsValue generalValue editorValue metadataValue difficultyValue eventsValue colorsValue
  refine ⟨?_, ?_, (sched_editor s).symm, (sched_metadata s).symm, ?_, ?_, (sched_colors s).symm⟩
  · rw [← sched_timingPoints, ← sched_hitObjects]; simp only [except_map_map]
  · rw [← sched_general, ← sched_timingPoints, ← sched_hitObjects]; simp only [except_map_map]; rfl
  · rw [← sched_difficulty, ← sched_hitObjects]; simp only [except_map_map]
  · rw [← sched_events (F := F) (P := P), ← sched_hitObjects]; simp only [except_map_map]

/-- **finished_values_agree**: for every delivery schedule (every byte input, however it is delivered)

1. `HitObjects` returns the HitObjects part of the finished `Beatmap`, errors of the finaliser included;
2. an I/O error of the full decoder is the result of all eight specialised decoders;
3. whenever the full decoder returns a `Beatmap` `m`, each specialised decoder returns the corresponding
   projection of `m`: TimingPoints its general section and control points, General / Editor / Metadata /
   Difficulty / Events / Colours their sections;
4. whenever the full decoder's finaliser fails with `e`, so does the `HitObjects` finaliser (and only it). -/
theorem finished_values_agree (s : Sched) :
    hitObjectsValue (F := F) (P := P) s = (beatmapValue s).map (·.map Beatmap.toHitObjects) ∧
    (∀ k, beatmapValue (F := F) (P := P) s = .error k →
      hitObjectsValue (F := F) (P := P) s = .error k ∧ timingPointsValue (F := F) (P := P) s = .error k ∧
      generalValue (F := F) (P := P) s = .error k ∧ editorValue (F := F) s = .error k ∧ metadataValue s = .error k ∧
      difficultyValue (F := F) (P := P) s = .error k ∧ eventsValue (F := F) s = .error k ∧ colorsValue s = .error k) ∧
    (∀ m : Beatmap F P, beatmapValue s = .ok (.ok m) →
      hitObjectsValue s = .ok (.ok m.toHitObjects) ∧
      timingPointsValue (F := F) (P := P) s = .ok (m.general, m.controlPoints) ∧
      generalValue s = .ok m.general ∧ editorValue s = .ok m.editor ∧ metadataValue s = .ok m.metadata ∧
      difficultyValue s = .ok m.difficulty ∧ eventsValue s = .ok m.events ∧ colorsValue s = .ok m.colors) ∧
    (∀ e, beatmapValue (F := F) (P := P) s = .ok (.error e) → hitObjectsValue (F := F) (P := P) s = .ok (.error e)) := by
  have hH := hitObjects_value_agrees (F := F) (P := P) s
  obtain ⟨hT, hG, hE, hM, hD, hV, hC⟩ := finished_values_state (F := F) (P := P) s
  refine ⟨hH, ?_, ?_, ?_⟩
  · intro k hk
    rw [hH, hT, hG, hE, hM, hD, hV, hC]
    unfold beatmapValue at hk ⊢
    cases hd : decodeSched (beatmapDecoder (F := F) (P := P)) s with
    | ok st => rw [hd] at hk; cases hk
    | error k' =>
      rw [hd] at hk; cases hk
      exact ⟨rfl, rfl, rfl, rfl, rfl, rfl, rfl, rfl⟩
  · intro m hm
    rw [hH, hT, hG, hE, hM, hD, hV, hC]
    unfold beatmapValue at hm ⊢
    cases hd : decodeSched (beatmapDecoder (F := F) (P := P)) s with
    | error k => rw [hd] at hm; cases hm
    | ok st =>
      rw [hd] at hm
      have hfin : st.finish = .ok m := by simpa [Except.map] using hm
      obtain ⟨-, he, hmeta, hc, hho⟩ := beatmap_finish_fields st m hfin
      obtain ⟨htp, hdiff, hev⟩ := hitObjects_finish_fields st.hitObjects m.toHitObjects hho
      refine ⟨?_, ?_, ?_, ?_, ?_, ?_, ?_, ?_⟩ <;> simp only [Except.map]
      · rw [hfin]
      · rw [← htp]; rfl
      · rw [← htp]; rfl
      · rw [he]
      · rw [hmeta]
      · rw [← hdiff]; rfl
      · rw [← hev]; rfl
      · rw [hc]
  · intro e he
    rw [hH, he]; rfl

/-- the same for `from_bytes`. -/
theorem finished_values_agree_bytes (bs : List UInt8) (m : Beatmap F P)
    (h : (decodeBytes beatmapDecoder bs).map BeatmapState.finish = .ok (.ok m)) :
    (decodeBytes hitObjectsDecoder bs).map HitObjectsState.finish = .ok (.ok m.toHitObjects) ∧
    (decodeBytes (timingPointsDecoder (F := F) (P := P)) bs).map TimingPointsState.finish = .ok (m.general, m.controlPoints) ∧
    decodeBytes generalDecoder bs = .ok m.general ∧ decodeBytes editorDecoder bs = .ok m.editor ∧
    decodeBytes metadataDecoder bs = .ok m.metadata ∧
    (decodeBytes (difficultyDecoder (F := F) (P := P)) bs).map (·.difficulty) = .ok m.difficulty ∧
    decodeBytes eventsDecoder bs = .ok m.events ∧ decodeBytes colorsDecoder bs = .ok m.colors :=
  (finished_values_agree (F := F) (P := P) (Sched.ofBytes bs)).2.2.1 m h

-- the hypothesis of part 3 is satisfiable on a non-default value (toy scalar `Int`): a two-line file decodes, the
-- finaliser succeeds, and the title comes back from the Metadata decoder as well
section Example
open Rosu.Toy

def exBytes : List UInt8 := utf8Encode (str "[Metadata]\nTitle:x\n")

def exState : BeatmapState Int Int :=
  { BeatmapState.create latestVersion with metadata := { Metadata.default with title := str "x" } }

example : decodeSched (beatmapDecoder (F := Int) (P := Int)) (Sched.ofBytes exBytes) = .ok exState := by rfl

example : ∃ m : Beatmap Int Int, exState.finish = .ok m ∧ m.metadata.title = str "x" := by
  cases h : exState.finish with
  | ok m => exact ⟨m, rfl, by rw [(beatmap_finish_fields _ m h).2.2.1]; rfl⟩
  | error e =>
    exfalso
    simp [BeatmapState.finish, HitObjectsState.finish, exState, BeatmapState.create, HitObjectsState.create,
      sortByStartTime, postProcessBreaks, finalizeObjects, bind, Except.bind, pure, Except.pure] at h

example : (metadataValue (Sched.ofBytes exBytes)).toOption.map (·.title) = some (str "x") := by decide

end Example

end Rosu.C07
