/-
  Props/C17BezierQuartic.lean — C17, Bezier segments of FIVE control points (quartic; exact arithmetic, DESIGN.md 5.17).

  For a flat quartic piece `[a, b, c, d, e]` the merged subdivided polygon has 9 points `l₀ … l₄ = r₀ … r₄` and
  `bezier_approximate` pushes `a` and three smoothed vertices (`flatPiece_quartic`)
      w₁ = ¼(l₁ + 2l₂ + l₃) = (9a + 15b + 7c + d)/32           (the cubic's `w₁` of `a b c d`),
      w₂ = ¼(l₃ + 2l₄ + r₁) = (a + 4b + 6c + 4d + e)/16 = B(1/2)   (ON the curve, `quarticW2_sub_curve`),
      w₃ = ¼(r₁ + 2r₂ + r₃) = (b + 7c + 15d + 9e)/32           (the cubic's `w₂` of `b c d e`).
  With `Δ₁ = a − 2b + c`, `Δ₂ = b − 2c + d`, `Δ₃ = c − 2d + e` the only parameters with linear precision are `sᵢ = i/4`:
      w₁ − B(1/4) = −(9Δ₁ + 6Δ₂ + Δ₃)/256,   w₂ − B(1/2) = 0,   w₃ − B(3/4) = −(Δ₁ + 6Δ₂ + 9Δ₃)/256.
  `bezier_is_flat_enough` gives `|Δⱼ|² ≤ 1/4 = (2·tol)²`, hence (`comb3_sq_le`)
      |wᵢ − B(sᵢ)|² ≤ (16/256)²·(1/4) = 1/1024 = (tol/8)²                  (`flat_piece_quartic_within`),
  i.e. `K = 2·Σ|αⱼ| = 1/8 ≤ 1`. Through `bezier_reduction`: `bezier_within_tolerance_quartic` — the tolerance statement
  for control polygons of at most FIVE points, for every `tol` with `tol² ≥ 1/1024`, in particular `0.25`.
-/
import RosuModel.Props.C17BezierCubic
set_option linter.unusedSectionVars false
namespace Rosu.C17
open Rosu Rosu.Curve Rosu.Bez

/-! ### 1. what `bezier_approximate` pushes for a quartic -/

section Structural
variable {P : Type} [Scalar P]

/-- `l₄ = r₀`, the split point of the quartic (de Casteljau apex at `1/2`). -/
def quarticApex (a b c d e : Pos P) : Pos P := midP (cubicApex a b c d) (cubicApex b c d e)

/-- middle smoothed vertex: `0.25·(l₃ + 2 l₄ + r₁)`. -/
def quarticW2 (a b c d e : Pos P) : Pos P :=
  (cubicApex a b c d + (quarticApex a b c d e).smul (2 : P) + cubicApex b c d e).smul (0.25 : P)

/-- **a quartic piece pushes exactly four vertices** (every arithmetic): `a`, then the smoothing rule on the triples
`(l₁, l₂, l₃)`, `(l₃, l₄, r₁)`, `(r₁, r₂, r₃)` of the 9-point merged polygon. The outer two are the cubic vertices of
`a b c d` and of `b c d e`. -/
theorem flatPiece_quartic (a b c d e : Pos P) :
    flatPiece [a, b, c, d, e] = [a, cubicW1 a b c d, quarticW2 a b c d e, cubicW2 b c d e] := rfl

/-- `bezier_is_flat_enough` peels one second difference at a time. -/
theorem flat_cons (a b c : Pos P) (rest : List (Pos P)) (h : bezierIsFlatEnough (a :: b :: c :: rest) = true) :
    bezierIsFlatEnough [a, b, c] = true ∧ bezierIsFlatEnough (b :: c :: rest) = true := by
  simp only [bezierIsFlatEnough] at h ⊢
  split at h
  · cases h
  · rename_i h1
    rw [if_neg h1]
    exact ⟨rfl, h⟩

end Structural

/-! ### 2. exact arithmetic -/

section Exact
variable {P K : Type} [Scalar P] [Field K] [LinearOrder K] [IsStrictOrderedRing K] {φ : P → K}

theorem phi_four (E : ExactScalar φ) : φ (4 : P) = 4 := by rw [E.lit]; norm_num

theorem phi_one_quarter (E : ExactScalar φ) : φ ((1 : P) / (4 : P)) = 1 / 4 := by rw [E.div, E.one, phi_four E]

theorem phi_three_quarters (E : ExactScalar φ) : φ ((3 : P) / (4 : P)) = 3 / 4 := by
  rw [E.div, phi_three E, phi_four E]

/-- the second difference of a flat triple has squared length at most `1/4 = (2·BEZIER_TOLERANCE)²`. -/
theorem flat_triple_second_difference (E : ExactScalar φ) (a b c : Pos P) (h : bezierIsFlatEnough [a, b, c] = true) :
    (φ a.x - 2 * φ b.x + φ c.x) * (φ a.x - 2 * φ b.x + φ c.x)
        + (φ a.y - 2 * φ b.y + φ c.y) * (φ a.y - 2 * φ b.y + φ c.y) ≤ 1 / 4 := by
  simp only [bezierIsFlatEnough] at h
  split at h
  · cases h
  · rename_i h1
    rw [Bool.not_eq_true, E.lt_false_iff] at h1
    simp only [Pos.lengthSquared, Pos.dot, Pos.add_x, Pos.add_y, Pos.sub_x, Pos.sub_y, Pos.smul_x, Pos.smul_y,
      E.add, E.mul, E.sub, E.two, phi_four E, phi_quarter E] at h1
    calc _ = (φ a.x - φ b.x * 2 + φ c.x) * (φ a.x - φ b.x * 2 + φ c.x)
            + (φ a.y - φ b.y * 2 + φ c.y) * (φ a.y - φ b.y * 2 + φ c.y) := by ring
        _ ≤ 1 / 4 * (1 / 4) * 4 := h1
        _ = 1 / 4 := by norm_num

/-- `w₂ = (a + 4b + 6c + 4d + e)/16`. -/
theorem quarticW2_x (E : ExactScalar φ) (a b c d e : Pos P) :
    φ (quarticW2 a b c d e).x = (φ a.x + 4 * φ b.x + 6 * φ c.x + 4 * φ d.x + φ e.x) / 16 := by
  simp only [quarticW2, quarticApex, cubicApex, Pos.smul_x, Pos.add_x, E.mul, E.add, E.two, phi_quarter E, midP_x E,
    lerp]; ring

theorem quarticW2_y (E : ExactScalar φ) (a b c d e : Pos P) :
    φ (quarticW2 a b c d e).y = (φ a.y + 4 * φ b.y + 6 * φ c.y + 4 * φ d.y + φ e.y) / 16 := by
  simp only [quarticW2, quarticApex, cubicApex, Pos.smul_y, Pos.add_y, E.mul, E.add, E.two, phi_quarter E, midP_y E,
    lerp]; ring

/-- the exact quartic in Bernstein form. -/
theorem bez_quartic (a b c d e s : K) :
    bez [a, b, c, d, e] s = (1 - s) ^ 4 * a + 4 * (1 - s) ^ 3 * s * b + 6 * (1 - s) ^ 2 * s ^ 2 * c
      + 4 * (1 - s) * s ^ 3 * d + s ^ 4 * e := by
  simp only [bez, List.length, evalBez, dcStep, stepWith, lerp, List.headD]; ring

/-- **`bezierEval` on a quartic** (exact arithmetic): total, and equal to the Bernstein form coordinate-wise. -/
theorem bezierEval_quartic (E : ExactScalar φ) (s : P) (a b c d e : Pos P) :
    ∃ q, bezierEval s 5 [a, b, c, d, e] = some q ∧
      φ q.x = (1 - φ s) ^ 4 * φ a.x + 4 * (1 - φ s) ^ 3 * φ s * φ b.x + 6 * (1 - φ s) ^ 2 * φ s ^ 2 * φ c.x
        + 4 * (1 - φ s) * φ s ^ 3 * φ d.x + φ s ^ 4 * φ e.x ∧
      φ q.y = (1 - φ s) ^ 4 * φ a.y + 4 * (1 - φ s) ^ 3 * φ s * φ b.y + 6 * (1 - φ s) ^ 2 * φ s ^ 2 * φ c.y
        + 4 * (1 - φ s) * φ s ^ 3 * φ d.y + φ s ^ 4 * φ e.y := by
  obtain ⟨q, hq, hx, hy⟩ := bezierEval_exact E s [a, b, c, d, e] (by simp)
  refine ⟨q, hq, ?_, ?_⟩
  · rw [hx]; exact bez_quartic _ _ _ _ _ _
  · rw [hy]; exact bez_quartic _ _ _ _ _ _

/-- **vector identity for `w₁`**: `w₁ − B(1/4) = −(9/256)·Δ₁ − (3/128)·Δ₂ − (1/256)·Δ₃`. -/
theorem quarticW1_sub_curve (E : ExactScalar φ) (a b c d e q : Pos P)
    (hq : bezierEval ((1 : P) / (4 : P)) 5 [a, b, c, d, e] = some q) :
    φ (cubicW1 a b c d).x - φ q.x
      = -(9 / 256) * (φ a.x - 2 * φ b.x + φ c.x) + -(3 / 128) * (φ b.x - 2 * φ c.x + φ d.x)
        + -(1 / 256) * (φ c.x - 2 * φ d.x + φ e.x) ∧
    φ (cubicW1 a b c d).y - φ q.y
      = -(9 / 256) * (φ a.y - 2 * φ b.y + φ c.y) + -(3 / 128) * (φ b.y - 2 * φ c.y + φ d.y)
        + -(1 / 256) * (φ c.y - 2 * φ d.y + φ e.y) := by
  obtain ⟨q', hq', hx, hy⟩ := bezierEval_quartic E ((1 : P) / (4 : P)) a b c d e
  rw [hq] at hq'; cases hq'
  rw [phi_one_quarter E] at hx hy
  rw [hx, hy, cubicW1_x E, cubicW1_y E]
  constructor <;> ring

/-- **`w₂` lies ON the curve**: `w₂ = B(1/2)` (`l₃ + r₁ = 2 l₄`). -/
theorem quarticW2_sub_curve (E : ExactScalar φ) (a b c d e q : Pos P)
    (hq : bezierEval ((1 : P) / (2 : P)) 5 [a, b, c, d, e] = some q) :
    φ (quarticW2 a b c d e).x - φ q.x = 0 ∧ φ (quarticW2 a b c d e).y - φ q.y = 0 := by
  obtain ⟨q', hq', hx, hy⟩ := bezierEval_quartic E ((1 : P) / (2 : P)) a b c d e
  rw [hq] at hq'; cases hq'
  rw [phi_half E] at hx hy
  rw [hx, hy, quarticW2_x E, quarticW2_y E]
  constructor <;> ring

/-- **vector identity for `w₃`**: `w₃ − B(3/4) = −(1/256)·Δ₁ − (3/128)·Δ₂ − (9/256)·Δ₃`. -/
theorem quarticW3_sub_curve (E : ExactScalar φ) (a b c d e q : Pos P)
    (hq : bezierEval ((3 : P) / (4 : P)) 5 [a, b, c, d, e] = some q) :
    φ (cubicW2 b c d e).x - φ q.x
      = -(1 / 256) * (φ a.x - 2 * φ b.x + φ c.x) + -(3 / 128) * (φ b.x - 2 * φ c.x + φ d.x)
        + -(9 / 256) * (φ c.x - 2 * φ d.x + φ e.x) ∧
    φ (cubicW2 b c d e).y - φ q.y
      = -(1 / 256) * (φ a.y - 2 * φ b.y + φ c.y) + -(3 / 128) * (φ b.y - 2 * φ c.y + φ d.y)
        + -(9 / 256) * (φ c.y - 2 * φ d.y + φ e.y) := by
  obtain ⟨q', hq', hx, hy⟩ := bezierEval_quartic E ((3 : P) / (4 : P)) a b c d e
  rw [hq] at hq'; cases hq'
  rw [phi_three_quarters E] at hx hy
  rw [hx, hy, cubicW2_x E, cubicW2_y E]
  constructor <;> ring

/-! ### 3. the distance bound -/

/-- the cross term of `comb_sq_le`: `αβ·2(u·v) ≤ |α||β|·2M` whenever `|u|², |v|² ≤ M`. -/
theorem cross_le (α β x₁ y₁ x₂ y₂ M : K) (h₁ : x₁ * x₁ + y₁ * y₁ ≤ M) (h₂ : x₂ * x₂ + y₂ * y₂ ≤ M) :
    α * β * (2 * (x₁ * x₂ + y₁ * y₂)) ≤ |α| * |β| * (M + M) := by
  have hS : 2 * (x₁ * x₂ + y₁ * y₂) ≤ (x₁ * x₁ + y₁ * y₁) + (x₂ * x₂ + y₂ * y₂) := by
    nlinarith [sq_nonneg (x₁ - x₂), sq_nonneg (y₁ - y₂)]
  have hS' : -(2 * (x₁ * x₂ + y₁ * y₂)) ≤ (x₁ * x₁ + y₁ * y₁) + (x₂ * x₂ + y₂ * y₂) := by
    nlinarith [sq_nonneg (x₁ + x₂), sq_nonneg (y₁ + y₂)]
  have hab : 0 ≤ |α| * |β| := mul_nonneg (abs_nonneg α) (abs_nonneg β)
  have k₃ := mul_le_mul_of_nonneg_left (add_le_add h₁ h₂) hab
  refine le_trans ?_ k₃
  rw [← abs_mul]
  rcases le_total 0 (α * β) with h | h
  · rw [abs_of_nonneg h]; exact mul_le_mul_of_nonneg_left hS h
  · rw [abs_of_nonpos h]
    have := mul_le_mul_of_nonneg_left hS' (neg_nonneg.mpr h)
    linarith

/-- squared-norm triangle inequality for a combination of THREE plane vectors:
`|αu + βv + γw|² ≤ (|α| + |β| + |γ|)²·M` whenever `|u|², |v|², |w|² ≤ M`. -/
theorem comb3_sq_le (α β γ x₁ y₁ x₂ y₂ x₃ y₃ M : K) (h₁ : x₁ * x₁ + y₁ * y₁ ≤ M) (h₂ : x₂ * x₂ + y₂ * y₂ ≤ M)
    (h₃ : x₃ * x₃ + y₃ * y₃ ≤ M) :
    (α * x₁ + β * x₂ + γ * x₃) * (α * x₁ + β * x₂ + γ * x₃) + (α * y₁ + β * y₂ + γ * y₃) * (α * y₁ + β * y₂ + γ * y₃)
      ≤ (|α| + |β| + |γ|) * (|α| + |β| + |γ|) * M := by
  have c₁₂ := cross_le α β x₁ y₁ x₂ y₂ M h₁ h₂
  have c₁₃ := cross_le α γ x₁ y₁ x₃ y₃ M h₁ h₃
  have c₂₃ := cross_le β γ x₂ y₂ x₃ y₃ M h₂ h₃
  have k₁ := mul_le_mul_of_nonneg_left h₁ (mul_self_nonneg α)
  have k₂ := mul_le_mul_of_nonneg_left h₂ (mul_self_nonneg β)
  have k₃ := mul_le_mul_of_nonneg_left h₃ (mul_self_nonneg γ)
  have e₁ := abs_mul_abs_self α
  have e₂ := abs_mul_abs_self β
  have e₃ := abs_mul_abs_self γ
  have e : (α * x₁ + β * x₂ + γ * x₃) * (α * x₁ + β * x₂ + γ * x₃)
        + (α * y₁ + β * y₂ + γ * y₃) * (α * y₁ + β * y₂ + γ * y₃)
      = α * α * (x₁ * x₁ + y₁ * y₁) + β * β * (x₂ * x₂ + y₂ * y₂) + γ * γ * (x₃ * x₃ + y₃ * y₃)
        + α * β * (2 * (x₁ * x₂ + y₁ * y₂)) + α * γ * (2 * (x₁ * x₃ + y₁ * y₃))
        + β * γ * (2 * (x₂ * x₃ + y₂ * y₃)) := by ring
  have e' : (|α| + |β| + |γ|) * (|α| + |β| + |γ|) * M
      = |α| * |α| * M + |β| * |β| * M + |γ| * |γ| * M + |α| * |β| * (M + M) + |α| * |γ| * (M + M)
        + |β| * |γ| * (M + M) := by ring
  rw [e, e', e₁, e₂, e₃]
  linarith

/-- **what `bezier_is_flat_enough` says of a quartic** (exact arithmetic): the three second differences have squared
length at most `1/4 = (2·BEZIER_TOLERANCE)²`. -/
theorem flat_quartic_second_differences (E : ExactScalar φ) (a b c d e : Pos P)
    (h : bezierIsFlatEnough [a, b, c, d, e] = true) :
    (φ a.x - 2 * φ b.x + φ c.x) * (φ a.x - 2 * φ b.x + φ c.x)
        + (φ a.y - 2 * φ b.y + φ c.y) * (φ a.y - 2 * φ b.y + φ c.y) ≤ 1 / 4 ∧
    (φ b.x - 2 * φ c.x + φ d.x) * (φ b.x - 2 * φ c.x + φ d.x)
        + (φ b.y - 2 * φ c.y + φ d.y) * (φ b.y - 2 * φ c.y + φ d.y) ≤ 1 / 4 ∧
    (φ c.x - 2 * φ d.x + φ e.x) * (φ c.x - 2 * φ d.x + φ e.x)
        + (φ c.y - 2 * φ d.y + φ e.y) * (φ c.y - 2 * φ d.y + φ e.y) ≤ 1 / 4 := by
  obtain ⟨f1, h⟩ := flat_cons _ _ _ _ h
  obtain ⟨f2, h⟩ := flat_cons _ _ _ _ h
  exact ⟨flat_triple_second_difference E _ _ _ f1, flat_triple_second_difference E _ _ _ f2,
    flat_triple_second_difference E _ _ _ h⟩

/-- **the quartic estimate, sharpest form** (exact arithmetic): every vertex `bezier_approximate` pushes for a quartic
that passes `bezier_is_flat_enough` has a point `q = B(s)`, `s ∈ {0, 1/4, 1/2, 3/4}`, of the piece's own curve with
`|v − q|² ≤ 1/1024 = (BEZIER_TOLERANCE / 8)²`. The constant is `K = 2·Σ|αⱼ| = 2·(9 + 6 + 1)/256 = 1/8`. -/
theorem flat_piece_quartic_within (E : ExactScalar φ) (a b c d e : Pos P)
    (hflat : bezierIsFlatEnough [a, b, c, d, e] = true) : ∀ v ∈ flatPiece [a, b, c, d, e],
    ∃ s q, Scalar.le (0 : P) s = true ∧ Scalar.le s (1 : P) = true ∧ bezierEval s 5 [a, b, c, d, e] = some q ∧
      φ (Pos.lengthSquared (v - q)) ≤ 1 / 1024 := by
  obtain ⟨hd1, hd2, hd3⟩ := flat_quartic_second_differences E a b c d e hflat
  have hK : (|(-(9 / 256) : K)| + |(-(3 / 128) : K)| + |(-(1 / 256) : K)|)
      * (|(-(9 / 256) : K)| + |(-(3 / 128) : K)| + |(-(1 / 256) : K)|) * (1 / 4) = 1 / 1024 := by
    rw [abs_neg, abs_neg, abs_neg, abs_of_pos (by norm_num : (0 : K) < 9 / 256),
      abs_of_pos (by norm_num : (0 : K) < 3 / 128), abs_of_pos (by norm_num : (0 : K) < 1 / 256)]
    norm_num
  have hK' : (|(-(1 / 256) : K)| + |(-(3 / 128) : K)| + |(-(9 / 256) : K)|)
      * (|(-(1 / 256) : K)| + |(-(3 / 128) : K)| + |(-(9 / 256) : K)|) * (1 / 4) = 1 / 1024 := by
    rw [← hK]; ring
  intro v hv
  rw [flatPiece_quartic] at hv
  simp only [List.mem_cons, List.not_mem_nil, or_false] at hv
  rcases hv with e0 | e0 | e0 | e0
  · subst e0
    refine ⟨0, v, ?_, ?_, flatPiece_head_exact E v [b, c, d, e], ?_⟩
    · rw [E.le_iff]
    · rw [E.le_iff, E.zero, E.one]; exact zero_le_one
    · rw [phi_lengthSquared_sub E]; simp only [sub_self, mul_zero, add_zero]; norm_num
  · subst e0
    obtain ⟨q, hq, _, _⟩ := bezierEval_quartic E ((1 : P) / (4 : P)) a b c d e
    obtain ⟨ex, ey⟩ := quarticW1_sub_curve E a b c d e q hq
    refine ⟨(1 : P) / (4 : P), q, ?_, ?_, hq, ?_⟩
    · rw [E.le_iff, E.zero, phi_one_quarter E]; norm_num
    · rw [E.le_iff, E.one, phi_one_quarter E]; norm_num
    · rw [phi_lengthSquared_sub E, ex, ey, ← hK]
      exact comb3_sq_le _ _ _ _ _ _ _ _ _ _ hd1 hd2 hd3
  · subst e0
    obtain ⟨q, hq, _, _⟩ := bezierEval_quartic E ((1 : P) / (2 : P)) a b c d e
    obtain ⟨ex, ey⟩ := quarticW2_sub_curve E a b c d e q hq
    refine ⟨(1 : P) / (2 : P), q, ?_, ?_, hq, ?_⟩
    · rw [E.le_iff, E.zero, phi_half E]; norm_num
    · rw [E.le_iff, E.one, phi_half E]; norm_num
    · rw [phi_lengthSquared_sub E, ex, ey]; norm_num
  · subst e0
    obtain ⟨q, hq, _, _⟩ := bezierEval_quartic E ((3 : P) / (4 : P)) a b c d e
    obtain ⟨ex, ey⟩ := quarticW3_sub_curve E a b c d e q hq
    refine ⟨(3 : P) / (4 : P), q, ?_, ?_, hq, ?_⟩
    · rw [E.le_iff, E.zero, phi_three_quarters E]; norm_num
    · rw [E.le_iff, E.one, phi_three_quarters E]; norm_num
    · rw [phi_lengthSquared_sub E, ex, ey, ← hK']
      exact comb3_sq_le _ _ _ _ _ _ _ _ _ _ hd1 hd2 hd3

/-- **`flat_piece_within_tolerance_statement` holds for polygons of at most five points** (exact arithmetic), for every
tolerance with `tol² ≥ 1/1024` (`|tol| ≥ 1/32`), in particular `tol = BEZIER_TOLERANCE = 0.25`. -/
theorem flat_piece_within_tolerance_quartic (E : ExactScalar φ) (tol : P) (htol : 1 / 1024 ≤ φ tol * φ tol) :
    flat_piece_within_tolerance_upto P 5 tol := by
  intro Q hQ hne hflat w hw
  by_cases h4 : Q.length ≤ 4
  · exact flat_piece_within_tolerance_cubic E tol (le_trans (by norm_num) htol) Q h4 hne hflat w hw
  · match Q, hQ, h4 with
    | [a, b, c, d, e], _, _ =>
      obtain ⟨s, q, hs0, hs1, hq, hd⟩ := flat_piece_quartic_within E a b c d e hflat w hw
      exact ⟨s, q, hs0, hs1, hq, by rw [E.le_iff, E.mul]; exact le_trans hd htol⟩
    | [], _, h4 => simp at h4
    | [_], _, h4 => simp at h4
    | [_, _], _, h4 => simp at h4
    | [_, _, _], _, h4 => simp at h4
    | [_, _, _, _], _, h4 => simp at h4
    | _ :: _ :: _ :: _ :: _ :: _ :: _, hQ, _ => simp only [List.length_cons] at hQ; omega

/-- the Rust constant `BEZIER_TOLERANCE = 0.25` is an admissible tolerance for quartics. -/
theorem quarter_admissible_quartic (E : ExactScalar φ) : (1 : K) / 1024 ≤ φ (0.25 : P) * φ (0.25 : P) := by
  rw [phi_quarter E]; norm_num

/-! ### 4. the whole segment -/

/-- **C17 for Bezier segments of at most five control points, sharpest form** (exact arithmetic): every vertex
`approximate_bezier` pushes has a point `q = B(t)`, `0 ≤ t ≤ 1`, of the EXACT curve of the segment with
`|v − q|² ≤ 1/1024 = (0.25/8)²` — any fuel on which the flattening succeeds, any scratch contents. -/
theorem bezier_quartic_within (E : ExactScalar φ) (fuel : Nat) (pts out : List (Pos P)) (b b' : BezierBuffers P)
    (h5 : pts.length ≤ 5) (hap : approximateBezier fuel pts b = .ok (out, b')) :
    ∀ v ∈ out, ∃ t q, Scalar.le (0 : P) t = true ∧ Scalar.le t (1 : P) = true ∧
      bezierEval t pts.length pts = some q ∧ φ (Pos.lengthSquared (v - q)) ≤ 1 / 1024 := by
  refine bezier_reduction E (fun v q => φ (Pos.lengthSquared (v - q)) ≤ 1 / 1024) (fun v => ?_) pts.length
    (fun Q hQ hne hflat w hw => ?_) fuel pts out b b' rfl hap
  · rw [phi_lengthSquared_sub E]; simp only [sub_self, mul_zero, add_zero]; norm_num
  · have h32 : φ ((1 : P) / (32 : P)) * φ ((1 : P) / (32 : P)) = 1 / 1024 := by
      rw [E.div, E.one, E.lit]; norm_num
    obtain ⟨s, q, hs0, hs1, hq, hd⟩ :=
      flat_piece_within_tolerance_quartic E ((1 : P) / (32 : P)) (le_of_eq h32.symm) Q (by omega) hne hflat w hw
    rw [E.le_iff, E.mul, h32] at hd
    exact ⟨s, q, hs0, hs1, hq, hd⟩

/-- **`bezier_within_tolerance_statement` holds for control polygons of at most five points** (exact arithmetic), for
every tolerance with `tol² ≥ 1/1024`, in particular `tol = BEZIER_TOLERANCE = 0.25`
(`bezier_within_tolerance_quarter_quartic`); the actual distance is at most `0.25/8`. -/
theorem bezier_within_tolerance_quartic (E : ExactScalar φ) (tol : P) (htol : 1 / 1024 ≤ φ tol * φ tol) :
    bezier_within_tolerance_upto P 5 tol := by
  intro fuel pts out b b' h5 hap v hv
  obtain ⟨t, q, h0, h1, hq, hd⟩ := bezier_quartic_within E fuel pts out b b' h5 hap v hv
  exact ⟨t, q, h0, h1, hq, by rw [E.le_iff, E.mul]; exact le_trans hd htol⟩

theorem bezier_within_tolerance_quarter_quartic (E : ExactScalar φ) : bezier_within_tolerance_upto P 5 (0.25 : P) :=
  bezier_within_tolerance_quartic E _ (quarter_admissible_quartic E)

end Exact

/-! ### non-vacuity: the rational instance (`exactScalar_rat`), evaluated by the kernel -/

section NonVacuity
open Rosu.ToyRat

/-- a quartic that passes `bezier_is_flat_enough` (second differences `(0,−1/8)`, `(0,0)`, `(0,−1/8)`), and one that
does not (second difference `(0,−2)`). -/
def flatQuartic : List (Pos Rat) := [⟨0, 0⟩, ⟨1 / 4, 1 / 8⟩, ⟨1 / 2, 1 / 8⟩, ⟨3 / 4, 1 / 8⟩, ⟨1, 0⟩]
def bentQuartic : List (Pos Rat) := [⟨0, 0⟩, ⟨1, 1⟩, ⟨2, 0⟩, ⟨3, 1⟩, ⟨4, 0⟩]

example : bezierIsFlatEnough flatQuartic = true ∧ bezierIsFlatEnough bentQuartic = false := by decide +kernel

/-- the four vertices pushed for the flat quartic; the curve at `1/4`; `w₂ = B(1/2)`; the offset of `w₁` is
`(23/256 − 87/1024)² = (5/1024)² ≤ 1/1024`. -/
example : flatPiece flatQuartic = [⟨0, 0⟩, ⟨1 / 4, 23 / 256⟩, ⟨1 / 2, 7 / 64⟩, ⟨3 / 4, 23 / 256⟩] := by decide +kernel
example : bezierEval (1 / 4 : Rat) 5 flatQuartic = some ⟨1 / 4, 87 / 1024⟩ := by decide +kernel
example : bezierEval (1 / 2 : Rat) 5 flatQuartic = some ⟨1 / 2, 7 / 64⟩ := by decide +kernel

/-- the hypothesis of `flat_piece_quartic_within` is satisfiable, and the conclusion is not trivial (`v ≠ q`). -/
example : ∀ v ∈ flatPiece flatQuartic, ∃ s q, Scalar.le (0 : Rat) s = true ∧ Scalar.le s (1 : Rat) = true ∧
    bezierEval s 5 flatQuartic = some q ∧ Pos.lengthSquared (v - q) ≤ 1 / 1024 :=
  flat_piece_quartic_within exactScalar_rat _ _ _ _ _ (by decide +kernel)

/-- the bound is attained up to the choice of the curve point: parallel second differences of length `1/2` put `w₁` at
distance exactly `1/32` from `B(1/4)`. -/
def extremalQuartic : List (Pos Rat) := [⟨0, 0⟩, ⟨1, -3 / 4⟩, ⟨2, -1⟩, ⟨3, -3 / 4⟩, ⟨4, 0⟩]
example : bezierIsFlatEnough extremalQuartic = true := by decide +kernel
example : ∃ q, bezierEval (1 / 4 : Rat) 5 extremalQuartic = some q ∧
    Pos.lengthSquared (cubicW1 (⟨0, 0⟩ : Pos Rat) ⟨1, -3 / 4⟩ ⟨2, -1⟩ ⟨3, -3 / 4⟩ - q) = 1 / 1024 := by
  decide +kernel

/-- `bezier_within_tolerance_quartic` applies to a run that succeeds on the non-flat quartic. -/
example : ∃ out b', approximateBezier 80 bentQuartic {} = .ok (out, b') ∧ 4 < out.length ∧
    ∀ v ∈ out, ∃ t q, Scalar.le (0 : Rat) t = true ∧ Scalar.le t (1 : Rat) = true ∧
      bezierEval t 5 bentQuartic = some q ∧
      Scalar.le (Pos.lengthSquared (v - q)) ((1 / 4 : Rat) * (1 / 4 : Rat)) = true := by
  have hok : (match approximateBezier 80 bentQuartic ({} : BezierBuffers Rat) with
      | .ok r => decide (4 < r.1.length)
      | .error _ => false) = true := by decide +kernel
  cases hr : approximateBezier 80 bentQuartic ({} : BezierBuffers Rat) with
  | error e => rw [hr] at hok; cases hok
  | ok r =>
    obtain ⟨out, b'⟩ := r
    rw [hr] at hok
    exact ⟨out, b', rfl, by simpa using hok,
      bezier_within_tolerance_quartic exactScalar_rat (1 / 4 : Rat) (by decide +kernel) 80 bentQuartic out {} b'
        (by decide) hr⟩

/-- the statements for the Rust constant `0.25` (the literal of the `Scalar` class), on the rational instance. -/
example : bezier_within_tolerance_upto Rat 5 quarterRat := bezier_within_tolerance_quarter_quartic exactScalar_rat
example : flat_piece_within_tolerance_upto Rat 5 quarterRat :=
  flat_piece_within_tolerance_quartic exactScalar_rat _ (quarter_admissible_quartic exactScalar_rat)

end NonVacuity

end Rosu.C17
