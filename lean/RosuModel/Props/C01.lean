/-
  Props/C01.lean — decoding and re-encoding are total.

  Termination is Lean's own acceptance of the model's definitions (structural recursion, or an
  explicit fuel whose exhaustion is a distinct outcome). What is proved here: decoding an in-memory
  buffer never returns an error; the integer facts behind the `unsafe` blocks and the node-count
  bound; the curve computation, the finaliser and `From<…State>` never reach `CErr.panic` (index safety,
  Lemmas/CurveTotal.lean) — `decode_total_modulo_fuel`; the encoder panics only through the `f64::clamp`
  assertion of `SliderEventsIter::new` (Lemmas/EncodeTotal.lean) — `encode_no_panic_of_nonneg_dist`;
  the structural fuel bound of the Bezier flattening. Not proved: fuel sufficiency in IEEE, and
  non-negativity of decoded slider distances (`decoded_dist_nonneg_statement`).
-/
import RosuModel.Model.Encode
import RosuModel.Props.C09
import RosuModel.Props.C14
import RosuModel.Props.C16
import RosuModel.Props.C19
import RosuModel.Lemmas.CurveTotal
import RosuModel.Lemmas.EncodeTotal
namespace Rosu.C01
open Rosu

variable {F P : Type} [Scalar F] [Scalar P] [Cvt P F] [Trig F] [Trig P]

theorem ofBytes_no_fault (bs : List UInt8) : Sched.firstFail (Sched.ofBytes bs) = none := by
  unfold Sched.ofBytes
  split <;> rfl

/-- **decode_total (reader and line parsers)**: for every decoder and every byte string, decoding
an in-memory buffer yields a state — never an error. (An `Err` can only come from a reader fault:
`C09.decode_err_only_from_reader`.) -/
theorem decode_bytes_never_errs {σ : Type} (D : LineDecoder σ) (bs : List UInt8) :
    ∃ st, decodeBytes D bs = .ok st := by
  unfold decodeBytes
  cases h : decodeSched D (Sched.ofBytes bs) with
  | ok st => exact ⟨st, rfl⟩
  | error k =>
    have := C09.decode_err_only_from_reader D _ k h
    rw [ofBytes_no_fault] at this
    cases this

/-- an error from `decode` is the reader's own first fault. -/
theorem decode_err_only_from_reader {σ : Type} (D : LineDecoder σ) (s : Sched) (k : IoKind)
    (h : decodeSched D s = .error k) : Sched.firstFail s = some k :=
  C09.decode_err_only_from_reader D s k h

/-- **nodes_bounded**: a decoded slider has at most 9001 node sample sets (repeat cap 9000). -/
theorem nodes_bounded (mode : GameMode) (st st' : HOCore F P) (hd : Header F P) (k : HitObjectKind F P)
    (b : SampleBankInfo) (h : buildSlider mode st hd = (st', some (k, b))) :
    ∃ s : HitObjectSlider F P, k = .slider s ∧ s.nodeSamples.length ≤ 9001 := by
  obtain ⟨s, hk, _, _, _, h0, h1, hn, _⟩ := C14.slider_fields mode st st' hd k b h
  refine ⟨s, hk, ?_⟩
  rw [hn]
  omega

/-- **unsafe_guard_nonzero**: the `NonZeroU32::new_unchecked(x as u32)` calls are guarded by `x >= 2`
on an `i32`, and such a value is non-zero as a `u32`. -/
theorem unsafe_guard_nonzero (n : Int) (h2 : 2 ≤ n) (hmax : n ≤ 2147483647) : n % 4294967296 ≠ 0 := by
  omega

/-- the suffix stored by `HitSampleInfo::new` is present exactly under that guard. -/
theorem suffix_guarded (name : HitSampleInfoName) (bank : Option SampleBank) (c v : Int) :
    (HitSampleInfo.new name bank c v).suffix = (if c ≥ 2 then some c else none) := rfl

/-- the finaliser can only fail inside a curve computation: without sliders it always succeeds. -/
theorem finalize_total_without_sliders (mode : GameMode) (sm : F) (cp : ControlPoints F)
    (hs : List (HitObject F P)) (bufs : CurveBuffers P F)
    (hno : ∀ h ∈ hs, ∀ s, h.kind ≠ .slider s) :
    ∃ r, finalizeObjects mode sm cp hs bufs = .ok r := by
  induction hs generalizing bufs with
  | nil => exact ⟨[], rfl⟩
  | cons x rest ih =>
    have hx : ∃ x', finalizeObject mode sm cp x bufs = .ok (x', bufs) := by
      unfold finalizeObject
      cases hk : x.kind with
      | slider s => exact absurd hk (hno x (by simp) s)
      | circle c => exact ⟨_, rfl⟩
      | spinner c => exact ⟨_, rfl⟩
      | hold c => exact ⟨_, rfl⟩
    obtain ⟨x', hx'⟩ := hx
    obtain ⟨r, hr⟩ := ih bufs (fun h hh s => hno h (by simp [hh]) s)
    exact ⟨x' :: r, by simp [finalizeObjects, hx', hr, bind, Except.bind, pure, Except.pure]⟩

/-! ### the curve computation cannot panic

`Safe Q r` (Lemmas/CurveTotal.lean): `r` is `.ok a` with `Q a`, or `.error .fuel` — never `.error .panic`.
Everything below holds for every arithmetic (`Scalar`/`Cvt`/`Trig` instances without any law, hence for the
IEEE instance), every mode, control-point list, requested length and fuel. The only hypothesis is that the four
Bezier scratch vectors have equal lengths (`BezierBuffers.WF`), which is true of `CurveBuffers::default()` and
preserved by every computation. -/

section Curve
open Rosu.Curve

/-- **`calculate_path` never panics**: `points[i]`, `vertices[start..=i]`, `points[start]`, the empty-slice
`unreachable`, `points.len() - 1` / `points[0]` in the Catmull code, `sub_points - 1` in the arc code, every
index / slice / `copy_from_slice` of the Bezier flattening, and `path[path_len - 1]` of the joint
de-duplication are all in range. The outcome is a value or fuel exhaustion. -/
theorem calculatePath_no_panic (fuel : Nat) (mode : GameMode) (points : List (PathControlPoint P))
    (bufs : CurveBuffers P F) (hw : bufs.bezier.WF) :
    calculatePath fuel mode points bufs ≠ .error .panic :=
  (calculatePath_safe fuel mode points bufs hw).no_panic

/-- the same as a disjunction, with the well-formedness of the buffers left behind. -/
theorem calculatePath_ok_or_fuel (fuel : Nat) (mode : GameMode) (points : List (PathControlPoint P))
    (bufs : CurveBuffers P F) (hw : bufs.bezier.WF) :
    (∃ r, calculatePath fuel mode points bufs = .ok r ∧ r.1.bezier.WF) ∨
      calculatePath fuel mode points bufs = .error .fuel :=
  (calculatePath_safe fuel mode points bufs hw).cases

theorem compute_safe (fuel : Nat) (mode : GameMode) (points : List (PathControlPoint P)) (e : Option F)
    (bufs : CurveBuffers P F) (hw : bufs.bezier.WF) :
    Safe (fun b => b.bezier.WF) (compute fuel mode points e bufs) := by
  unfold compute
  refine Safe.bind (calculatePath_safe fuel mode points bufs hw) ?_
  rintro ⟨b1, opt⟩ hb1
  obtain ⟨r, hr⟩ := C16.calculateLength_total b1.path e opt
  simp only [hr, Outcome.ok_bind]
  exact hb1

/-- **`calculate_path` + `calculate_length` never panic** (with C16 `calculateLength_total`). -/
theorem compute_no_panic (fuel : Nat) (mode : GameMode) (points : List (PathControlPoint P)) (e : Option F)
    (bufs : CurveBuffers P F) (hw : bufs.bezier.WF) : compute fuel mode points e bufs ≠ .error .panic :=
  (compute_safe fuel mode points e bufs hw).no_panic

theorem new_safe (fuel : Nat) (mode : GameMode) (points : List (PathControlPoint P)) (e : Option F)
    (bufs : CurveBuffers P F) (hw : bufs.bezier.WF) :
    Safe (fun r => r.2.bezier.WF) (Curve.new fuel mode points e bufs) := by
  unfold Curve.new
  exact Safe.bind (compute_safe fuel mode points e bufs hw) (fun b hb => hb)

theorem newBorrowed_safe (fuel : Nat) (mode : GameMode) (points : List (PathControlPoint P)) (e : Option F)
    (bufs : CurveBuffers P F) (hw : bufs.bezier.WF) :
    Safe (fun r => r.2.bezier.WF) (Curve.newBorrowed fuel mode points e bufs) := by
  unfold Curve.newBorrowed
  exact Safe.bind (compute_safe fuel mode points e bufs hw) (fun b hb => hb)

/-- **`Curve::new` never panics.** -/
theorem new_no_panic (fuel : Nat) (mode : GameMode) (points : List (PathControlPoint P)) (e : Option F)
    (bufs : CurveBuffers P F) (hw : bufs.bezier.WF) : Curve.new fuel mode points e bufs ≠ .error .panic :=
  (new_safe fuel mode points e bufs hw).no_panic

/-- **`BorrowedCurve::new` never panics.** -/
theorem newBorrowed_no_panic (fuel : Nat) (mode : GameMode) (points : List (PathControlPoint P)) (e : Option F)
    (bufs : CurveBuffers P F) (hw : bufs.bezier.WF) :
    Curve.newBorrowed fuel mode points e bufs ≠ .error .panic :=
  (newBorrowed_safe fuel mode points e bufs hw).no_panic

omit [Scalar F] [Scalar P] [Cvt P F] [Trig F] [Trig P] in
/-- `CurveBuffers::default()` is well-formed (both spellings used by the model). -/
theorem default_wf : (({} : CurveBuffers P F)).bezier.WF := ⟨rfl, rfl, rfl⟩
omit [Scalar F] [Scalar P] [Cvt P F] [Trig F] [Trig P] in
theorem emptyBuffers_wf : (emptyBuffers : CurveBuffers P F).bezier.WF := ⟨rfl, rfl, rfl⟩

/-- buffers reachable from `CurveBuffers::default()` by any history of successful constructor calls. -/
inductive Reachable : CurveBuffers P F → Prop
  | default : Reachable {}
  | owned {fuel mode pts e b c b'} : Reachable b → Curve.new fuel mode pts e b = .ok (c, b') → Reachable b'
  | borrowed {fuel mode pts e b c b'} : Reachable b → Curve.newBorrowed fuel mode pts e b = .ok (c, b') →
      Reachable b'

theorem Reachable.wf {b : CurveBuffers P F} (h : Reachable b) : b.bezier.WF := by
  induction h with
  | default => exact default_wf
  | owned _ hn ih => exact (new_safe _ _ _ _ _ ih).elim_ok hn
  | borrowed _ hn ih => exact (newBorrowed_safe _ _ _ _ _ ih).elim_ok hn

/-- **no history of curve computations on one buffer set can panic.** -/
theorem new_no_panic_of_reachable (fuel : Nat) (mode : GameMode) (points : List (PathControlPoint P))
    (e : Option F) (bufs : CurveBuffers P F) (h : Reachable bufs) :
    Curve.new fuel mode points e bufs ≠ .error .panic ∧ Curve.newBorrowed fuel mode points e bufs ≠ .error .panic :=
  ⟨new_no_panic fuel mode points e bufs h.wf, newBorrowed_no_panic fuel mode points e bufs h.wf⟩

omit [Trig F] [Trig P] in
/-- `calculate_length` leaves at least as many lengths as path points (all five outcomes of
C16 `calculateLength_some`). -/
theorem calculateLength_path_le (path : List (Pos P)) (e : Option F) (opt : F) (p' : List (Pos P)) (ls : List F)
    (h : calculateLength path e opt = .ok (p', ls)) : p'.length ≤ ls.length := by
  have hnl : path.length ≤ (C16.natLens opt path).length := by
    simp only [C16.natLens, List.length_cons, C16.cumLens_length]; omega
  cases e with
  | none => cases h; exact hnl
  | some L =>
    rw [C16.calculateLength_some] at h
    split at h
    · cases h; exact hnl
    split at h
    · cases h; simp only [List.length_append, List.length_cons, List.length_nil]; omega
    split at h
    · cases h; exact hnl
    split at h
    · cases h; simp only [List.length_take, List.length_cons, List.length_nil]; omega
    · cases h
      have hle := C16.lastValid_le (C16.natLens opt path).dropLast L
      have : C16.cutIdx opt path L ≤ (C16.natLens opt path).dropLast.length := hle
      simp only [List.length_append, List.length_take, List.length_cons, List.length_nil]
      omega

/-- every constructed curve has `lengths` at least as long as `path`, so `position_at` on it never panics either
(C19 `positionAt_total`). -/
theorem positionAt_total_on_curve (fuel : Nat) (mode : GameMode) (points : List (PathControlPoint P))
    (e : Option F) (bufs bufs' : CurveBuffers P F) (c : Curve P F)
    (h : Curve.new fuel mode points e bufs = .ok (c, bufs')) (q : F) :
    ∃ p, positionAt c.path c.lengths q = .ok p := by
  obtain ⟨b1, opt, _, h2⟩ := C16.new_is_calculateLength fuel mode points e bufs bufs' c h
  exact C19.positionAt_total c.path c.lengths q (calculateLength_path_le _ _ _ _ _ h2)

/-- `SliderPath::curve_with_bufs` / `borrowed_curve` / `curve` never panic. -/
theorem curveWithBufs_no_panic (fuel : Nat) (sp : SliderPath P F) (bufs : CurveBuffers P F) (hw : bufs.bezier.WF) :
    sp.curveWithBufs fuel bufs ≠ .error .panic ∧ sp.borrowedCurve fuel bufs ≠ .error .panic ∧
      sp.getCurve fuel ≠ .error .panic := by
  have h1 : ∀ b : CurveBuffers P F, b.bezier.WF → Safe (fun _ => True) (sp.curveWithBufs fuel b) := by
    intro b hb
    unfold SliderPath.curveWithBufs
    cases sp.curve with
    | some c => exact True.intro
    | none =>
      simp only []
      exact Safe.bind (new_safe fuel sp.mode sp.controlPoints sp.expectedDist b hb) (fun _ _ => True.intro)
  refine ⟨(h1 bufs hw).no_panic, ?_, ?_⟩
  · unfold SliderPath.borrowedCurve
    cases sp.curve with
    | some c => intro h; cases h
    | none => exact newBorrowed_no_panic _ _ _ _ _ hw
  · unfold SliderPath.getCurve
    have : Safe (fun _ => True) (sp.curveWithBufs fuel {} >>= fun x => match x with | (c, sp, _) => pure (c, sp)) := by
      refine Safe.bind (h1 {} default_wf) ?_
      rintro ⟨c, sp', b⟩ _
      exact True.intro
    exact this.no_panic

end Curve

/-! ### the finaliser cannot panic -/

theorem finalizeObject_safe (mode : GameMode) (sm : F) (cp : ControlPoints F) (h : HitObject F P)
    (bufs : CurveBuffers P F) (hw : bufs.bezier.WF) :
    Safe (fun r => r.2.bezier.WF) (finalizeObject mode sm cp h bufs) := by
  unfold finalizeObject
  cases h.kind with
  | slider s =>
    simp only []
    refine Safe.bind (new_safe curveFuel s.path.mode s.path.controlPoints s.path.expectedDist bufs hw) ?_
    rintro ⟨c, b⟩ hb
    exact hb
  | circle c => exact hw
  | spinner c => exact hw
  | hold c => exact hw

theorem finalizeObjects_safe (mode : GameMode) (sm : F) (cp : ControlPoints F) (hs : List (HitObject F P)) :
    ∀ (bufs : CurveBuffers P F), bufs.bezier.WF → Safe (fun _ => True) (finalizeObjects mode sm cp hs bufs) := by
  induction hs with
  | nil => intro _ _; exact True.intro
  | cons x rest ih =>
    intro bufs hw
    unfold finalizeObjects
    refine Safe.bind (finalizeObject_safe mode sm cp x bufs hw) ?_
    rintro ⟨x', b'⟩ hb'
    simp only []
    exact Safe.bind (ih b' hb') (fun _ _ => True.intro)

/-- **the finalising loop never panics**: one buffer set is threaded through all sliders of the map; it starts
well-formed and every `Curve::new` keeps it so. -/
theorem finalizeObjects_no_panic (mode : GameMode) (sm : F) (cp : ControlPoints F) (hs : List (HitObject F P))
    (bufs : CurveBuffers P F) (hw : bufs.bezier.WF) : finalizeObjects mode sm cp hs bufs ≠ .error .panic :=
  (finalizeObjects_safe mode sm cp hs bufs hw).no_panic

theorem HitObjectsState.finish_safe (st : HitObjectsState F P) : Safe (fun _ => True) st.finish := by
  unfold HitObjectsState.finish
  simp only []
  exact Safe.bind (finalizeObjects_safe _ _ _ _ emptyBuffers emptyBuffers_wf) (fun _ _ => True.intro)

/-- **`From<HitObjectsState> for HitObjects` never panics.** -/
theorem HitObjectsState.finish_no_panic (st : HitObjectsState F P) : st.finish ≠ .error .panic :=
  (HitObjectsState.finish_safe st).no_panic

theorem BeatmapState.finish_safe (st : BeatmapState F P) : Safe (fun _ => True) st.finish := by
  unfold BeatmapState.finish
  exact Safe.bind (HitObjectsState.finish_safe st.hitObjects) (fun _ _ => True.intro)

/-- **`From<BeatmapState> for Beatmap` never panics.** -/
theorem BeatmapState.finish_no_panic (st : BeatmapState F P) : st.finish ≠ .error .panic :=
  (BeatmapState.finish_safe st).no_panic

/-- **decode_total, modulo fuel**: for every byte string, decoding a `Beatmap` from an in-memory buffer reads and
parses without error and the finaliser yields a map — or the model's fuel for one of the two arithmetic loops of
the curve code (Bezier flattening, `theta_end` adjustment; 2·10⁶ rounds) ran out. It never panics. The same for
the `HitObjects` decoder; the other seven decoders have no fallible finaliser (`decode_bytes_never_errs`). -/
theorem decode_total_modulo_fuel (bs : List UInt8) :
    ∃ st : BeatmapState F P, decodeBytes beatmapDecoder bs = .ok st ∧
      ((∃ m, st.finish = .ok m) ∨ st.finish = .error .fuel) := by
  obtain ⟨st, hst⟩ := decode_bytes_never_errs (beatmapDecoder (F := F) (P := P)) bs
  refine ⟨st, hst, ?_⟩
  rcases (BeatmapState.finish_safe st).cases with ⟨m, hm, _⟩ | hf
  · exact Or.inl ⟨m, hm⟩
  · exact Or.inr hf

theorem decode_hitobjects_total_modulo_fuel (bs : List UInt8) :
    ∃ st : HitObjectsState F P, decodeBytes hitObjectsDecoder bs = .ok st ∧
      ((∃ m, st.finish = .ok m) ∨ st.finish = .error .fuel) := by
  obtain ⟨st, hst⟩ := decode_bytes_never_errs (hitObjectsDecoder (F := F) (P := P)) bs
  refine ⟨st, hst, ?_⟩
  rcases (HitObjectsState.finish_safe st).cases with ⟨m, hm, _⟩ | hf
  · exact Or.inl ⟨m, hm⟩
  · exact Or.inr hf


/-! ### the encoder

`Encode.encode` can fail through `Curve::new` (never a panic, above) and through the slider-event iterator:
`SliderEventsIter::new` evaluates `tick_dist.clamp(0.0, len)` with `len = min(100000, dist)`, and `f64::clamp`
asserts `min <= max` (`Lemmas/EncodeTotal.lean`: `runUse_panicked_iff`). -/

section Encoder
open Rosu.Encode

theorem curveDist_safe (s : HitObjectSlider F P) : Safe (fun _ => True) (curveDist s) := by
  unfold curveDist
  refine Safe.bind (new_safe curveFuel s.path.mode s.path.controlPoints s.path.expectedDist emptyBuffers
    emptyBuffers_wf) ?_
  rintro ⟨c, b⟩ _
  exact True.intro

theorem addPathData_safe (s : HitObjectSlider F P) (pos : Pos P) (mode : GameMode) :
    Safe (fun _ => True) (addPathData s pos mode) := by
  unfold addPathData
  simp only []
  split
  · exact True.intro
  · refine Safe.bind (curveDist_safe s) ?_
    intro _ _
    exact True.intro

theorem encodeObject_safe (mode : GameMode) (h : HitObject F P) : Safe (fun _ => True) (encodeObject mode h) := by
  unfold encodeObject
  cases h.kind with
  | circle c => exact True.intro
  | spinner c => exact True.intro
  | hold c => exact True.intro
  | slider s =>
    refine Safe.bind (addPathData_safe s _ mode) ?_
    intro _ _
    exact True.intro

theorem encodeObjects_safe (mode : GameMode) (hs : List (HitObject F P)) :
    Safe (fun _ => True) (encodeObjects mode hs) := by
  induction hs with
  | nil => exact True.intro
  | cons x rest ih =>
    unfold encodeObjects
    refine Safe.bind (encodeObject_safe mode x) ?_
    intro a _
    exact Safe.bind ih (fun _ _ => True.intro)

/-- **the `[HitObjects]` part of the encoder never panics**, for any map (`add_path_data` computes a curve only
for a slider without expected distance, on fresh buffers). -/
theorem encodeHitObjects_no_panic (m : Beatmap F P) : encodeHitObjects m ≠ .error .panic := by
  have : Safe (fun _ => True) (encodeHitObjects m) := by
    unfold encodeHitObjects
    exact Safe.bind (encodeObjects_safe _ _) (fun _ _ => True.intro)
  exact this.no_panic

/-- the `clamp` assertion holds for the natural distance of every slider of the object list: whenever the curve
of a slider is computed (no fuel exhaustion) its distance `d` satisfies `0 <= min(100000, d)`. -/
def DistOk (hs : List (HitObject F P)) : Prop :=
  ∀ h ∈ hs, ∀ s, h.kind = .slider s → ∀ d : F, curveDist s = .ok d →
    Scalar.le (0 : F) (Scalar.min (100000 : F) d) = true

theorem collectObject_safe (m : Beatmap F P) (h : HitObject F P) (buf : List (SliderEvents.SliderEvent F))
    (hd : ∀ s, h.kind = .slider s → ∀ d : F, curveDist s = .ok d →
      Scalar.le (0 : F) (Scalar.min (100000 : F) d) = true) :
    Safe (fun _ => True) (collectObject m h buf) := by
  unfold collectObject
  cases hk : h.kind with
  | circle c => exact True.intro
  | spinner c => exact True.intro
  | hold c => exact True.intro
  | slider s =>
    simp only []
    refine Safe.bind' (curveDist_safe s) ?_
    intro d hdist _
    have hle := hd s hk d hdist
    cases m.general.mode with
    | taiko => exact True.intro
    | mania => exact True.intro
    | osu =>
      simp only []
      have : Safe (fun _ => True) (osuSliderSamples m h s d
          ((Scalar.ofInt (s.repeatCount + 1) : F) * d / s.velocity) buf) := by
        unfold osuSliderSamples
        simp only []
        refine Safe.bind (sliderEventList_safe _ _ _ d _ _ buf hle) ?_
        rintro ⟨evs, b⟩ _
        exact True.intro
      refine Safe.bind this ?_
      rintro ⟨pts, b⟩ _
      exact True.intro
    | «catch» =>
      simp only []
      have : Safe (fun _ => True) (catchSliderSamples m h s d
          ((Scalar.ofInt (s.repeatCount + 1) : F) * d / s.velocity) buf) := by
        unfold catchSliderSamples
        simp only []
        refine Safe.bind (sliderEventList_safe _ _ _ d _ _ buf hle) ?_
        rintro ⟨evs, b⟩ _
        exact True.intro
      refine Safe.bind this ?_
      rintro ⟨pts, b⟩ _
      exact True.intro

theorem collectAll_safe (m : Beatmap F P) (hs : List (HitObject F P)) (hd : DistOk hs) :
    ∀ buf, Safe (fun _ => True) (collectAll m hs buf) := by
  induction hs with
  | nil => intro _; exact True.intro
  | cons x rest ih =>
    intro buf
    unfold collectAll
    refine Safe.bind (collectObject_safe m x buf (fun s hk d hc => hd x (by simp) s hk d hc)) ?_
    rintro ⟨a, b⟩ _
    simp only []
    exact Safe.bind (ih (fun h hh => hd h (by simp [hh])) b) (fun _ _ => True.intro)

theorem encode_safe_of_nonneg_dist (m : Beatmap F P) (hd : DistOk m.hitObjects) :
    Safe (fun _ => True) (encode m) := by
  unfold encode
  have ht : Safe (fun _ => True) (encodeTimingPoints m) := by
    unfold encodeTimingPoints
    have hc : Safe (fun _ => True) (collectSamples m) := by
      unfold collectSamples
      exact Safe.bind (collectAll_safe m m.hitObjects hd []) (fun _ _ => True.intro)
    exact Safe.bind hc (fun _ _ => True.intro)
  refine Safe.bind ht ?_
  intro t _
  exact Safe.bind (Safe.of_no_panic (encodeHitObjects_no_panic m)) (fun _ _ => True.intro)

/-- **`Beatmap::encode` never panics when the `clamp` assertion of the slider-event iterator holds**: if for every
slider of the map the curve distance `d` satisfies `0 <= min(100000, d)`, then the encoder yields the text or runs
out of model fuel (curve loops, tick loop) — it does not panic. Any map: decoded or hand-built. -/
theorem encode_no_panic_of_nonneg_dist (m : Beatmap F P) (hd : DistOk m.hitObjects) :
    encode m ≠ .error .panic :=
  (encode_safe_of_nonneg_dist m hd).no_panic

/-- maps without sliders: the encoder always succeeds with a text. -/
theorem encode_no_panic_without_sliders (m : Beatmap F P) (hno : ∀ h ∈ m.hitObjects, ∀ s, h.kind ≠ .slider s) :
    encode m ≠ .error .panic :=
  encode_no_panic_of_nonneg_dist m (fun h hh s hk => absurd hk (hno h hh s))

/-- **the hypothesis is necessary**: the per-object collection step of an osu!-mode map panics as soon as one
computed slider distance violates the assertion (`f64::clamp`'s `assert!(min <= max)`). -/
theorem collectObject_panics (m : Beatmap F P) (h : HitObject F P) (s : HitObjectSlider F P) (d : F)
    (buf : List (SliderEvents.SliderEvent F)) (hm : m.general.mode = .osu) (hk : h.kind = .slider s)
    (hdist : curveDist s = .ok d) (hbad : Scalar.le (0 : F) (Scalar.min (100000 : F) d) = false) :
    collectObject m h buf = .error .panic := by
  unfold collectObject
  simp only [hk, hdist, Outcome.ok_bind, hm]
  unfold osuSliderSamples
  simp only []
  rw [sliderEventList_panics _ _ _ d _ _ buf hbad]
  rfl

/-- **what remains for `encode_total` on decoded maps** (not proved): every slider of a map that was obtained by
decoding has a curve distance `d` with `0 <= min(100000, d)`.

`d` is the last cumulative length. The decoder stores `expected_dist = Some(L)` only for `L = max(parsed, 0) ≥ ε`
(C14), so by C16 `calculateLength_some` the distance is one of: `L` itself (> 0: fine), `0.0` (fine), or the natural
length `optimized_len + Σ |pᵢ₊₁ − pᵢ|` (near / equal-tail / no expected distance). A NaN natural length (F11, F13)
is harmless: `f64::min(100000, NaN) = 100000` (`min_maxLen_nan`). What is needed is therefore *non-negativity of
the natural length*: `Σ |pᵢ₊₁ − pᵢ| ≥ 0` is an order law of `+`/`sqrt`, and `optimized_len`
(`Σ (removed − chord)` of the osu! Catmull simplification) must not outweigh it — the triangle inequality up to
rounding. Both are arithmetic (law-dependent) facts; the control flow proved here does not give them. -/
def decoded_dist_nonneg_statement (F P : Type) [Scalar F] [Scalar P] [Cvt P F] [Trig F] [Trig P] : Prop :=
  ∀ (bs : List UInt8) (st : BeatmapState F P) (m : Beatmap F P),
    decodeBytes beatmapDecoder bs = .ok st → st.finish = .ok m → DistOk m.hitObjects

/-- `encode_total` modulo fuel, for decoded maps. -/
def encode_decoded_no_panic_statement (F P : Type) [Scalar F] [Scalar P] [Cvt P F] [Trig F] [Trig P] : Prop :=
  ∀ (bs : List UInt8) (st : BeatmapState F P) (m : Beatmap F P),
    decodeBytes beatmapDecoder bs = .ok st → st.finish = .ok m → encode m ≠ .error .panic

/-- the arithmetic statement is all that is missing. -/
theorem encode_decoded_no_panic_of_dist_nonneg (h : decoded_dist_nonneg_statement F P) :
    encode_decoded_no_panic_statement F P :=
  fun bs st m h1 h2 => encode_no_panic_of_nonneg_dist m (h bs st m h1 h2)

end Encoder

/-! ### which distances a slider can have (structural), and what is left of the `clamp` hypothesis -/

section Dist
open Rosu.Curve Rosu.Encode

omit [Trig F] [Trig P] in
theorem dist_natLens (opt : F) (path : List (Pos P)) :
    dist (C16.natLens opt path) = (0 : F) ∨ dist (C16.natLens opt path) = C16.natTotal opt path := by
  by_cases h2 : 2 ≤ path.length
  · exact Or.inr (C16.natural_dist path opt h2)
  · left
    have h1 := (C16.natLens_len_eq_one opt path).mpr (by omega)
    unfold C16.natLens at h1 ⊢
    cases hl : (cumLens opt path).1 with
    | nil => simp [dist]
    | cons a t => rw [hl] at h1; simp at h1

omit [Trig F] [Trig P] in
/-- **the distance of a curve is `0.0`, the natural length, or the requested length** (the five outcomes of
`calculate_length`, C16 `calculateLength_some`). -/
theorem dist_cases (path : List (Pos P)) (e : Option F) (opt : F) (p' : List (Pos P)) (ls : List F)
    (h : calculateLength path e opt = .ok (p', ls)) :
    dist ls = (0 : F) ∨ dist ls = C16.natTotal opt path ∨ e = some (dist ls) := by
  have hnat := dist_natLens opt path
  have hn : dist (C16.natLens opt path) = (0 : F) ∨ dist (C16.natLens opt path) = C16.natTotal opt path ∨
      e = some (dist (C16.natLens opt path)) := by
    rcases hnat with h0 | h0
    · exact Or.inl h0
    · exact Or.inr (Or.inl h0)
  cases e with
  | none => cases h; exact hn
  | some L =>
    rw [C16.calculateLength_some] at h
    split at h
    · cases h; exact hn
    split at h
    · cases h; exact Or.inr (Or.inl (C19.dist_concat _ _))
    split at h
    · cases h; exact hn
    split at h
    · cases h; left; simp [dist]
    · cases h; right; right; rw [C19.dist_concat]

/-- the natural length of a slider's path: `calculated_len` after `calculate_path` on fresh buffers. -/
def naturalDist (s : HitObjectSlider F P) : Outcome F := do
  let (b, opt) ← calculatePath curveFuel s.path.mode s.path.controlPoints (emptyBuffers : CurveBuffers P F)
  pure (C16.natTotal opt b.path)

/-- a slider's distance is `0.0`, its natural length, or its stored expected distance. -/
theorem curveDist_cases (s : HitObjectSlider F P) (d : F) (h : curveDist s = .ok d) :
    d = (0 : F) ∨ naturalDist s = .ok d ∨ s.path.expectedDist = some d := by
  unfold curveDist at h
  cases hn : Curve.new curveFuel s.path.mode s.path.controlPoints s.path.expectedDist
      (emptyBuffers : CurveBuffers P F) with
  | error e => rw [hn] at h; cases h
  | ok r =>
    obtain ⟨c, b'⟩ := r
    rw [hn] at h
    simp only [Outcome.ok_bind, Outcome.pure_eq_ok] at h
    cases h
    obtain ⟨b1, opt, hp, hl⟩ := C16.new_is_calculateLength _ _ _ _ _ _ _ hn
    rcases dist_cases _ _ _ _ _ hl with h0 | h0 | h0
    · exact Or.inl h0
    · right; left
      unfold naturalDist
      rw [hp]
      simp only [Outcome.ok_bind, Outcome.pure_eq_ok, h0]
    · exact Or.inr (Or.inr h0)

/-- **the `clamp` hypothesis reduced to three scalar facts**: `0 <= min(100000, 0)` (any sane arithmetic),
`0 <= min(100000, L)` for the stored expected distances (the decoder stores `max(parsed, 0) ≥ ε` only), and
`0 <= min(100000, natural)` for the natural lengths — the one genuinely arithmetic obligation
(non-negativity of `optimized_len + Σ |pᵢ₊₁ − pᵢ|`, or NaN). -/
theorem distOk_of_three (hs : List (HitObject F P))
    (hzero : Scalar.le (0 : F) (Scalar.min (100000 : F) (0 : F)) = true)
    (hexp : ∀ h ∈ hs, ∀ s, h.kind = .slider s → ∀ L, s.path.expectedDist = some L →
      Scalar.le (0 : F) (Scalar.min (100000 : F) L) = true)
    (hnat : ∀ h ∈ hs, ∀ s, h.kind = .slider s → ∀ d, naturalDist s = .ok d →
      Scalar.le (0 : F) (Scalar.min (100000 : F) d) = true) : DistOk hs := by
  intro h hh s hk d hd
  rcases curveDist_cases s d hd with h0 | h0 | h0
  · rw [h0]; exact hzero
  · exact hnat h hh s hk d h0
  · exact hexp h hh s hk d h0

end Dist

/-! ### fuel (structural part) and non-vacuity -/

section Examples
open Rosu.Toy Rosu.Curve

omit [Scalar F] [Cvt P F] [Trig F] [Trig P] in
/-- **`bezier_fuel_suffices`** restated here: if every piece of the control polygon is flat enough after at most `k`
halvings (`FlatAfter`, an arithmetic hypothesis), `approximate_bezier` with fuel `≥ 2^(k+1) − 1` returns a value on all
well-formed buffers. (`C17.thetaLoop_fuel`: one round of the angle loop suffices when `theta_end + 2π ≥ theta_start`.) -/
theorem bezier_fuel_suffices (fuel k : Nat) (pts : List (Pos P)) (h1 : 1 ≤ pts.length) (hk : FlatAfter k pts)
    (hf : 2 ^ (k + 1) - 1 ≤ fuel) (b : BezierBuffers P) (hb : b.WF) :
    ∃ r, approximateBezier fuel pts b = .ok r :=
  Rosu.bezier_fuel_suffices fuel k pts h1 hk hf b hb

/-- what is not proved: that the IEEE (or any lawful) arithmetic makes every decoded control polygon flat after a
bounded number of halvings, so that the model fuel 2·10⁶ is never exhausted on decoded maps. -/
def bezier_flat_after_statement (P : Type) [Scalar P] (bound : Nat) : Prop :=
  ∀ pts : List (Pos P), 2 ≤ pts.length → ∃ k, 2 ^ (k + 1) - 1 ≤ bound ∧ FlatAfter k pts

/-- the hypothesis of `bezier_fuel_suffices` is satisfiable (toy arithmetic, an evenly spaced straight polygon). -/
example : FlatAfter 0 [pt 0 0, pt 2 2, pt 4 4] := by rfl
example : SubdivTree [pt 0 0, pt 2 2, pt 4 4] 1 := SubdivTree.leaf (by rfl)

/-- the three outcomes are all live in the model. A value on default buffers: -/
example : (match calculatePath 10 .osu [cp 0 0 (some PathType.bezier), cp 2 2, cp 4 4]
    ({} : CurveBuffers Int Int) with | .ok r => r.1.path | .error _ => []) = [pt 0 0, pt 0 0, pt 4 4] := by rfl

/-- fuel exhaustion: -/
example : calculatePath 0 .osu [cp 0 0 (some PathType.bezier), cp 2 2, cp 4 4] ({} : CurveBuffers Int Int) =
    .error .fuel := by rfl

/-- and the well-formedness hypothesis of `calculatePath_no_panic` cannot be dropped: on scratch vectors of unequal
lengths (which no computation produces) the model does reach the index panic. -/
example : calculatePath 10 .osu [cp 0 0 (some PathType.bezier), cp 2 2, cp 4 4]
    ({ bezier := { left := [pt 0 0, pt 0 0, pt 0 0] } } : CurveBuffers Int Int) = .error .panic := by rfl

/-- the hypothesis of `encode_no_panic_of_nonneg_dist` holds for a non-negative distance … -/
example : Scalar.le (0 : Int) (Scalar.min (100000 : Int) 25) = true := by decide
example : DistOk ([] : List (HitObject Int Int)) := fun _ h => by cases h

/-- … and fails for a negative one, where the slider-event constructor panics (`f64::clamp` assertion). -/
example : Encode.sliderEventList (F := Int) 0 1 1 (-5) 1 1 [] = .error .panic :=
  sliderEventList_panics _ _ _ _ _ _ _ (by decide)

end Examples

end Rosu.C01
