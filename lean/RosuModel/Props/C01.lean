/-
  Props/C01.lean — decoding and re-encoding are total.

  Termination is Lean's own acceptance of the model's definitions (structural recursion, or an
  explicit fuel whose exhaustion is a distinct outcome). What is proved here: decoding an in-memory
  buffer never returns an error; the integer facts behind the `unsafe` blocks and the node-count
  bound; where the finaliser and the encoder can fail at all (only inside the curve / slider-event
  code: `CErr.panic` or `CErr.fuel`).
-/
import RosuModel.Model.Encode
import RosuModel.Props.C09
import RosuModel.Props.C14
namespace Rosu.C01
open Rosu

variable {F P : Type} [Scalar F] [Scalar P] [Cvt P F] [Trig F] [Trig P]

theorem ofBytes_no_fault (bs : List UInt8) : Sched.firstFail (Sched.ofBytes bs) = none := by
  unfold Sched.ofBytes
  split <;> rfl

/-- **decode_total (reader and line parsers)**: for every decoder and every byte string, decoding
an in-memory buffer yields a state — never an error. (An `Err` can only come from a reader fault:
`C09.decode_err_only_from_reader`.) -/
theorem decode_bytes_never_errs {σ : Type} (D : LineDecoder σ) (bs : List UInt8) :
    ∃ st, decodeBytes D bs = .ok st := by
  unfold decodeBytes
  cases h : decodeSched D (Sched.ofBytes bs) with
  | ok st => exact ⟨st, rfl⟩
  | error k =>
    have := C09.decode_err_only_from_reader D _ k h
    rw [ofBytes_no_fault] at this
    cases this

/-- an error from `decode` is the reader's own first fault. -/
theorem decode_err_only_from_reader {σ : Type} (D : LineDecoder σ) (s : Sched) (k : IoKind)
    (h : decodeSched D s = .error k) : Sched.firstFail s = some k :=
  C09.decode_err_only_from_reader D s k h

/-- **nodes_bounded**: a decoded slider has at most 9001 node sample sets (repeat cap 9000). -/
theorem nodes_bounded (mode : GameMode) (st st' : HOCore F P) (hd : Header F P) (k : HitObjectKind F P)
    (b : SampleBankInfo) (h : buildSlider mode st hd = (st', some (k, b))) :
    ∃ s : HitObjectSlider F P, k = .slider s ∧ s.nodeSamples.length ≤ 9001 := by
  obtain ⟨s, hk, _, _, _, h0, h1, hn, _⟩ := C14.slider_fields mode st st' hd k b h
  refine ⟨s, hk, ?_⟩
  rw [hn]
  omega

/-- **unsafe_guard_nonzero**: the `NonZeroU32::new_unchecked(x as u32)` calls are guarded by `x >= 2`
on an `i32`, and such a value is non-zero as a `u32`. -/
theorem unsafe_guard_nonzero (n : Int) (h2 : 2 ≤ n) (hmax : n ≤ 2147483647) : n % 4294967296 ≠ 0 := by
  omega

/-- the suffix stored by `HitSampleInfo::new` is present exactly under that guard. -/
theorem suffix_guarded (name : HitSampleInfoName) (bank : Option SampleBank) (c v : Int) :
    (HitSampleInfo.new name bank c v).suffix = (if c ≥ 2 then some c else none) := rfl

/-- the finaliser can only fail inside a curve computation: without sliders it always succeeds. -/
theorem finalize_total_without_sliders (mode : GameMode) (sm : F) (cp : ControlPoints F)
    (hs : List (HitObject F P)) (bufs : CurveBuffers P F)
    (hno : ∀ h ∈ hs, ∀ s, h.kind ≠ .slider s) :
    ∃ r, finalizeObjects mode sm cp hs bufs = .ok r := by
  induction hs generalizing bufs with
  | nil => exact ⟨[], rfl⟩
  | cons x rest ih =>
    have hx : ∃ x', finalizeObject mode sm cp x bufs = .ok (x', bufs) := by
      unfold finalizeObject
      cases hk : x.kind with
      | slider s => exact absurd hk (hno x (by simp) s)
      | circle c => exact ⟨_, rfl⟩
      | spinner c => exact ⟨_, rfl⟩
      | hold c => exact ⟨_, rfl⟩
    obtain ⟨x', hx'⟩ := hx
    obtain ⟨r, hr⟩ := ih bufs (fun h hh s => hno h (by simp [hh]) s)
    exact ⟨x' :: r, by simp [finalizeObjects, hx', hr, bind, Except.bind, pure, Except.pure]⟩

end Rosu.C01
