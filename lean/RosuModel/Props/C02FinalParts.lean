/-
  Props/C02FinalParts.lean — C02, the map-level processing seen from the round trip (step "(a)" of the list in
  Props/C02File.lean), the three ingredients; all for every `Scalar`, no arithmetic law:

  * `sort_chronological_id` — the finaliser's stable sort (`sortByStartTime`, `total_cmp` on start times) is the identity on
    a list that already is in non-decreasing `total_cmp` order.
  * `postProcessBreaks_eq_zip` — `post_process_breaks` reads the objects only through their start times: the flag it ors
    into object `i` is `breakForces breaks (start times) cur`; `postProcessBreaks_congr` (two lists with the same start times
    get the same flags), `postProcessBreaks_startTimes`, `postProcessBreaks_idempotent` (a second application with the same
    breaks from the same pointer changes nothing).
  * `finalizeObjects_view` / `finalize_reads_timeline_only` — of an object, `finalizeObjects` changes only a slider's
    velocity and node sample lists (keeping their number) and the sample list; the velocity is `velocityAt`, which reads the
    control points only through `timing_point_at(start).beat_len` and `difficulty_point_at(start).slider_velocity` (in ALL
    four modes — the mode enters only through the clamp bound of `get_precision_adjusted_beat_len`); so two collections that
    agree on these two lookups at every slider start time give the same objects up to sample lists.
-/
import RosuModel.Props.C15
set_option linter.unusedSectionVars false
namespace Rosu.C02
open Rosu Scalar

section
variable {F P : Type} [Scalar F] [Scalar P] [Cvt P F] [Trig F] [Trig P]

/-! ### 1. the stable sort of an already chronological list -/

/-- "in chronological order" w.r.t. the comparison the sort uses (`f64::total_cmp` on start times, as `totalKey`). -/
def Chronological (hs : List (HitObject F P)) : Prop :=
  hs.Pairwise (fun a b => totalKey a.startTime ≤ totalKey b.startTime)

/-- **sort_chronological_id** — `hit_objects.sort_by(|a, b| a.start_time.total_cmp(&b.start_time))` does not move anything
when the list is already in non-decreasing `total_cmp` order. -/
theorem sort_chronological_id (hs : List (HitObject F P)) (h : Chronological hs) : sortByStartTime hs = hs := by
  unfold sortByStartTime
  apply List.mergeSort_of_pairwise
  exact List.Pairwise.imp (fun {a b} hab => by simpa using hab) h

/-- chronological order only depends on the start times. -/
theorem chronological_of_times (hs hs' : List (HitObject F P)) (e : hs'.map (·.startTime) = hs.map (·.startTime))
    (h : Chronological hs) : Chronological hs' := by
  unfold Chronological at *
  have h1 : (hs.map (·.startTime)).Pairwise (fun a b => totalKey a ≤ totalKey b) := List.pairwise_map.mpr h
  rw [← e] at h1
  exact (List.pairwise_map (R := fun a b : F => totalKey a ≤ totalKey b)).mp h1

/-! ### 2. forced new combos after breaks -/

/-- the flags `post_process_breaks` computes: a function of the breaks, the start times and the break pointer only. -/
def breakForces (breaks : List (BreakPeriod F)) : List F → Nat → List Bool
  | [], _ => []
  | t :: ts, cur =>
    (skipBreaks breaks t (breaks.length + 1) cur false).2 ::
      breakForces breaks ts (skipBreaks breaks t (breaks.length + 1) cur false).1

/-- or-ing a flag into an object. -/
def withForce (h : HitObject F P) (f : Bool) : HitObject F P := { h with kind := h.kind.orNewCombo f }

/-- **post_process_breaks reads only start times**: object `i` gets the flag `breakForces breaks (start times) cur` or-ed
into its `new_combo` (holds: nothing); start time, samples and everything else of the kind stay. -/
theorem postProcessBreaks_eq_zip (breaks : List (BreakPeriod F)) (hs : List (HitObject F P)) (cur : Nat) :
    postProcessBreaks breaks hs cur = List.zipWith withForce hs (breakForces breaks (hs.map (·.startTime)) cur) := by
  induction hs generalizing cur with
  | nil => rfl
  | cons h rest ih =>
    rw [postProcessBreaks]
    simp only [List.map_cons, breakForces, List.zipWith_cons_cons]
    rw [ih]
    rfl

/-- two lists with the same start times get the same forced flags. -/
theorem postProcessBreaks_congr (breaks : List (BreakPeriod F)) (hs hs' : List (HitObject F P)) (cur : Nat)
    (e : hs'.map (·.startTime) = hs.map (·.startTime)) :
    postProcessBreaks breaks hs' cur = List.zipWith withForce hs' (breakForces breaks (hs.map (·.startTime)) cur) := by
  rw [postProcessBreaks_eq_zip, e]

theorem postProcessBreaks_startTimes (breaks : List (BreakPeriod F)) (hs : List (HitObject F P)) (cur : Nat) :
    (postProcessBreaks breaks hs cur).map (·.startTime) = hs.map (·.startTime) := by
  induction hs generalizing cur with
  | nil => rfl
  | cons h rest ih =>
    rw [postProcessBreaks]
    simp only [List.map_cons, ih]

theorem postProcessBreaks_samples (breaks : List (BreakPeriod F)) (hs : List (HitObject F P)) (cur : Nat) :
    (postProcessBreaks breaks hs cur).map (·.samples) = hs.map (·.samples) := by
  induction hs generalizing cur with
  | nil => rfl
  | cons h rest ih =>
    rw [postProcessBreaks]
    simp only [List.map_cons, ih]

omit [Scalar F] [Scalar P] [Cvt P F] [Trig F] [Trig P] in
theorem orNewCombo_idem (k : HitObjectKind F P) (f : Bool) : (k.orNewCombo f).orNewCombo f = k.orNewCombo f := by
  cases k <;> cases f <;> simp [HitObjectKind.orNewCombo]

/-- **postProcessBreaks_idempotent** — objects that already carry the forced flags of a break list (they are the output of
`post_process_breaks` for it) are not changed by a second application (same breaks, same starting pointer). -/
theorem postProcessBreaks_idempotent (breaks : List (BreakPeriod F)) (hs : List (HitObject F P)) (cur : Nat) :
    postProcessBreaks breaks (postProcessBreaks breaks hs cur) cur = postProcessBreaks breaks hs cur := by
  induction hs generalizing cur with
  | nil => rfl
  | cons h rest ih =>
    rw [postProcessBreaks]
    simp only []
    rw [postProcessBreaks]
    simp only [orNewCombo_idem, ih]

/-! ### 3. what `finalizeObjects` reads of the control points for the velocity -/

/-- the velocity `From<HitObjectsState> for HitObjects` stores in a slider starting at `t`:
`BASE_SCORING_DIST * slider_multiplier / get_precision_adjusted_beat_len(sv, beat_len, mode)` with
`beat_len = timing_point_at(t).beat_len` (default 1000) and `sv = difficulty_point_at(t).slider_velocity` (default 1). -/
def velocityAt (P : Type) [Scalar P] [Cvt P F] (mode : GameMode) (sm : F) (cp : ControlPoints F) (t : F) : F :=
  (Cvt.up (100 : P) : F) * sm /
    precisionAdjustedBeatLen (((cp.difficultyPointAt t).map (·.sliderVelocity)).getD (1 : F))
      (((cp.timingPointAt t).map (·.beatLen)).getD (1000 : F)) mode

/-- the two lookups the velocity is computed from. -/
def SameVelocityLookups (cp cp' : ControlPoints F) (t : F) : Prop :=
  ((cp'.timingPointAt t).map (·.beatLen)).getD (1000 : F) = ((cp.timingPointAt t).map (·.beatLen)).getD (1000 : F) ∧
  ((cp'.difficultyPointAt t).map (·.sliderVelocity)).getD (1 : F) =
    ((cp.difficultyPointAt t).map (·.sliderVelocity)).getD (1 : F)

theorem velocityAt_congr (mode : GameMode) (sm : F) (cp cp' : ControlPoints F) (t : F) (h : SameVelocityLookups cp cp' t) :
    velocityAt P mode sm cp' t = velocityAt P mode sm cp t := by
  unfold velocityAt
  rw [h.1, h.2]

/-- an object without its sample data: start time and kind, a slider's node sample lists emptied (their number kept). -/
def stripKind (k : HitObjectKind F P) : HitObjectKind F P :=
  match k with
  | .slider s => .slider { s with nodeSamples := s.nodeSamples.map (fun _ => []) }
  | k => k

def objView (h : HitObject F P) : F × HitObjectKind F P := (h.startTime, stripKind h.kind)

/-- … and with the velocity the finaliser will store. -/
def velView (mode : GameMode) (sm : F) (cp : ControlPoints F) (h : HitObject F P) : F × HitObjectKind F P :=
  (h.startTime,
    match h.kind with
    | .slider s => .slider { s with velocity := velocityAt P mode sm cp h.startTime,
                                    nodeSamples := s.nodeSamples.map (fun _ => []) }
    | k => k)

theorem map_const_nil_of_length {α β : Type} (a b : List α) (h : a.length = b.length) :
    a.map (fun _ => ([] : List β)) = b.map (fun _ => []) := by
  induction a generalizing b with
  | nil => cases b with
    | nil => rfl
    | cons _ _ => cases h
  | cons x a ih => cases b with
    | nil => cases h
    | cons y b => simp only [List.map_cons]; rw [ih b (by simpa using h)]

/-- one object through the finaliser: only the velocity (`velocityAt`), the node sample lists (number kept) and the samples
change. -/
theorem finalizeObject_view (mode : GameMode) (sm : F) (cp : ControlPoints F) (h h' : HitObject F P)
    (bufs bufs' : CurveBuffers P F) (hf : finalizeObject mode sm cp h bufs = .ok (h', bufs')) :
    objView h' = velView mode sm cp h := by
  cases hk : h.kind with
  | slider s =>
    obtain ⟨curve, b2, _, h1, h2, _⟩ := C15.slider_finalized mode sm cp h s bufs hk h' bufs' hf
    unfold objView velView
    rw [h1, h2, hk]
    simp only [stripKind]
    rw [map_const_nil_of_length _ s.nodeSamples (C15.applyNodeSamples_length ..)]
    rfl
  | circle c =>
    unfold finalizeObject at hf
    simp only [hk, pure, Except.pure] at hf
    injection hf with hf
    injection hf with e1 e2
    subst e1
    unfold objView velView
    simp only [hk, stripKind]
  | spinner c =>
    unfold finalizeObject at hf
    simp only [hk, pure, Except.pure] at hf
    injection hf with hf
    injection hf with e1 e2
    subst e1
    unfold objView velView
    simp only [hk, stripKind]
  | hold c =>
    unfold finalizeObject at hf
    simp only [hk, pure, Except.pure] at hf
    injection hf with hf
    injection hf with e1 e2
    subst e1
    unfold objView velView
    simp only [hk, stripKind]

/-- **finalizeObjects_view** — the finalised list, object by object, without sample data: the input objects with every
slider's velocity replaced by `velocityAt` at its start time. -/
theorem finalizeObjects_view (mode : GameMode) (sm : F) (cp : ControlPoints F) (hs hs' : List (HitObject F P))
    (bufs : CurveBuffers P F) (h : finalizeObjects mode sm cp hs bufs = .ok hs') :
    hs'.map objView = hs.map (velView mode sm cp) := by
  induction hs generalizing hs' bufs with
  | nil => simp [finalizeObjects, pure, Except.pure] at h; subst h; rfl
  | cons x rest ih =>
    simp only [finalizeObjects, bind, Except.bind] at h
    cases hx : finalizeObject mode sm cp x bufs with
    | error e => simp [hx] at h
    | ok r =>
      obtain ⟨x', b'⟩ := r
      simp only [hx] at h
      cases hr : finalizeObjects mode sm cp rest b' with
      | error e => simp [hr] at h
      | ok rest' =>
        simp only [hr, pure, Except.pure] at h
        cases h
        simp only [List.map_cons, ih rest' b' hr, finalizeObject_view mode sm cp x x' bufs b' hx]

/-- is this object a slider. -/
def isSlider (h : HitObject F P) : Bool := match h.kind with | .slider _ => true | _ => false

theorem velView_congr (mode : GameMode) (sm : F) (cp cp' : ControlPoints F) (h : HitObject F P)
    (hl : isSlider h = true → SameVelocityLookups cp cp' h.startTime) :
    velView mode sm cp' h = velView mode sm cp h := by
  unfold velView
  cases hk : h.kind with
  | slider s =>
    simp only []
    rw [velocityAt_congr mode sm cp cp' h.startTime (hl (by simp [isSlider, hk]))]
  | circle c => rfl
  | spinner c => rfl
  | hold c => rfl

/-- **finalize_reads_timeline_only** — the slider-velocity part of `finalizeObjects` depends on the control points only
through `timing_point_at(start).beat_len` and `difficulty_point_at(start).slider_velocity` at the slider start times: two
collections that agree on these two lookups at the start time of every slider of the list yield, whenever both runs
succeed, the same objects up to sample data (same start times, kinds, positions, combo data, paths, repeat counts,
VELOCITIES, durations, number of node sample lists). -/
theorem finalize_reads_timeline_only (mode : GameMode) (sm : F) (cp cp' : ControlPoints F) (hs r r' : List (HitObject F P))
    (bufs bufs' : CurveBuffers P F)
    (hl : ∀ h ∈ hs, isSlider h = true → SameVelocityLookups cp cp' h.startTime)
    (h1 : finalizeObjects mode sm cp hs bufs = .ok r) (h2 : finalizeObjects mode sm cp' hs bufs' = .ok r') :
    r'.map objView = r.map objView := by
  rw [finalizeObjects_view mode sm cp hs r bufs h1, finalizeObjects_view mode sm cp' hs r' bufs' h2]
  apply List.map_congr_left
  intro h hh
  exact velView_congr mode sm cp cp' h (hl h hh)

end

end Rosu.C02
