/-
  Props/C19Full.lean — the module audited for C19: Props/C19Curve.lean (and what it imports) together with
  Props/C19Ieee.lean (the IEEE / real-analysis instantiations), Props/C19IeeePos.lean, Props/C19IeeeBound.lean and
  Props/C19IeeeErr.lean (rounding-error bounds of the positions and of the booked lengths) and Props/C19IeeeSearch.lean
  (what `idx_of_dist` establishes on IEEE doubles, composed with the interpolation bound) and Props/C19IeeeFinite.lean (the
  no-overflow conditions of the interpolation, derived; `segFinite_statement` refuted as recorded) and Props/C19IeeeLipschitz.lean
  (the arc-length clause across segments on IEEE floats: `position_lipschitz_float32`). All in namespace Rosu.C19.
  no-overflow conditions of the interpolation, derived; `segFinite_statement` refuted as recorded) and
  Props/C19DecodedLinear.lean (end to end for linear sliders: the hypotheses derived for the curve `Curve::new` computes) and
  Props/C19IeeeFinal.lean (no overflow of the natural lengths: `linear_curve_position_err_float32` = the recorded full statement;
  `position_lipschitz_float32_uncond`: no non-degeneracy hypothesis) and
  Props/C19DecodedLinearLen.lean (linear sliders WITH a requested length: `linear_curve_len_shape`,
  `linear_curve_len_position_err_float32_partial`, witness `linear_len_length_mismatch`) and
  Props/C19DecodedLinearLen2.lean (`cutPoint_lenAdjOk_of_c16`, `linear_curve_len_position_err_float32_of_c16`: `hcut` replaced by
  the side conditions of the C16 end-point theorems + finiteness of the cut point). All in namespace Rosu.C19.
-/
import RosuModel.Props.C19Curve
import RosuModel.Props.C19Ieee
import RosuModel.Props.C19IeeePos
import RosuModel.Props.C19IeeeBound
import RosuModel.Props.C19IeeeErr
import RosuModel.Props.C19IeeeSearch
import RosuModel.Props.C19IeeeFinite
import RosuModel.Props.C19IeeeLipschitz
import RosuModel.Props.C19DecodedLinear
import RosuModel.Props.C19IeeeFinal
import RosuModel.Props.C19DecodedLinearLen
import RosuModel.Props.C19DecodedLinearLen2
