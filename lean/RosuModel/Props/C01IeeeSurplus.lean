/-
  Props/C01IeeeSurplus.lean — C01 `encode_total` on decoded maps: the osu!-path-mode Catmull hypothesis `CatmullSurplusOk`
  of Props/C01Ieee.lean, weakened to a statement about `optimized_len` and ONE segment of the path, and the reason why
  order/monotonicity laws alone cannot remove it.

  The natural length is `((opt + l₁) + l₂) + … + lₙ` (`C16.natTotal`), `opt = ((0 + t₁) + t₂) + … + tₘ` (`simplifyLoop_optLen`, Props/C01IeeeSurplusLoop.lean) with
  `tₖ = fl(Lₖ − Dₖ)` (`Lₖ ≥ 0` the removed length, `Dₖ` the kept chord); by the code every chord `Dₖ` is one of the `lᵢ` (read off
  curve.rs; that link through `dedupJoint` is NOT formalised).

  * **`natTotal_notNeg_of_debt`** — if `opt` is a NaN, `≥ 0`, or `≥ −D` for ONE segment length `D` of the path, the natural
    length is a NaN or `≥ 0` (every `f32` path, NaN / infinite coordinates included). Proof: adding lengths never
    increases the debt (`fl(p + x) ≥ p` for `x ≥ 0`), adding `D` itself clears it (`fl(p + D) ≥ fl(−D + D) = 0`), and
    from there on the sum stays `≥ 0`. Monotonicity of the rounded addition only — no error bound.
  * `natOk_of_debt_covered`, `CatmullDebtCovered`, **`decoded_dist_nonneg_float_debt_partial`**,
    **`encode_decoded_no_panic_float_debt_partial`** — the partial theorems of Props/C01Ieee.lean with `CatmullSurplusOk`
    replaced by `CatmullDebtCovered` (implied by `0 ≤ opt`; true of the negative-`optimized_len` witness of
    Props/C01IeeeWitness.lean: `debtCovered_witness`, where `opt ≈ −2.4e-8 ≥ −2.236`). A single surplus term always
    satisfies it against its own chord: `sub_geNeg_float` (Lemmas/FloatDebt.lean), `single_term_covered`.
  * **`two_debts_counterexample`** — with TWO negative terms the argument is not available, and no argument from order
    laws is: for `L₁ = L₂ = 0`, `D₁ = 1`, `D₂ = 1.5·2⁻⁵³` (both `f32` values) binary64 gives
    `opt = fl(−1 − 1.5·2⁻⁵³) = −(1 + 2⁻⁵²)` and `((opt + D₁) + D₂) = −2⁻⁵⁴ < 0`. So `decoded_dist_nonneg_float` for
    Catmull paths with two or more spans needs the `f32` triangle inequality up to rounding (`Lₖ ≥ Dₖ·(1 − ε)`, which
    excludes `Lₖ = 0 < Dₖ`) and a summation error bound; neither is proved. No decoded file with a negative natural
    length was found; the statement `decoded_dist_nonneg_statement Float Float32` stays open (`_statement` in Props/C01.lean).
-/
import RosuModel.Props.C01IeeeWitness
import RosuModel.Lemmas.FloatDebt
namespace Rosu.C01
open Rosu Rosu.Curve Rosu.Encode Rosu.FDL Rosu.DecodedSliders Rosu.FDebt
set_option linter.unusedSectionVars false

/-! ### one covered debt -/

/-- **the natural length is a NaN or `≥ 0` as soon as `optimized_len ≥ −D` for one segment length `D` of the path.** -/
theorem natTotal_notNeg_of_debt (D : Float) (hD : Scalar.le (0 : Float) D = true) :
    ∀ (path : List (Pos Float32)) (opt : Float), D ∈ C16.segLens Float path → GeNeg D opt →
      NotNeg (C16.natTotal opt path) := by
  intro path
  induction path with
  | nil => intro opt hm _; cases hm
  | cons a t ih =>
    intro opt hm hg
    cases t with
    | nil => cases hm
    | cons b t' =>
      rw [C16.natTotal_cons2]
      have hm' : D = Cvt.up (Pos.length Float (b - a)) ∨ D ∈ C16.segLens Float (b :: t') := by
        simpa [C16.segLens] using hm
      rcases hm' with h | h
      · exact natTotal_notNeg_float _ _ (by rw [← h]; exact cancel_geNeg_float D opt hg hD)
      · exact ih _ h (add_geNeg_float D opt _ hg (len_notNeg_float (b - a)))

/-- `optimized_len` is a NaN, `≥ 0`, or at least minus one segment length of the path. -/
def DebtCovered (opt : Float) (path : List (Pos Float32)) : Prop :=
  NotNeg opt ∨ ∃ D ∈ C16.segLens Float path, Scalar.le (0 : Float) D = true ∧ GeNeg D opt

theorem natTotal_notNeg_of_covered (opt : Float) (path : List (Pos Float32)) (h : DebtCovered opt path) :
    NotNeg (C16.natTotal opt path) := by
  rcases h with h | ⟨D, hm, hD, hg⟩
  · exact natTotal_notNeg_float opt path h
  · exact natTotal_notNeg_of_debt D hD path opt hm hg

/-- a single booked surplus term `L − D` (`0 ≤ L`) is covered by its own chord `D` when `D` is a segment of the path. -/
theorem single_term_covered (L D : Float) (path : List (Pos Float32)) (hL : Scalar.le (0 : Float) L = true)
    (hD : Scalar.le (0 : Float) D = true) (hm : D ∈ C16.segLens Float path) : DebtCovered (L - D) path :=
  Or.inr ⟨D, hm, hD, sub_geNeg_float L D hL (FMO.not_nan_of_le hD).2⟩

section Float64
variable [Trig Float32]

/-- `NatOk` from a covered debt — generalises `natOk_of_optLen_notNeg`. -/
theorem natOk_of_debt_covered (s : HitObjectSlider Float Float32)
    (h : ∀ (b : CurveBuffers Float32 Float) (opt : Float),
      calculatePath curveFuel s.path.mode s.path.controlPoints (emptyBuffers : CurveBuffers Float32 Float) = .ok (b, opt) →
        DebtCovered opt b.path) : NatOk s := by
  intro d hd
  unfold naturalDist at hd
  cases hc : calculatePath curveFuel s.path.mode s.path.controlPoints (emptyBuffers : CurveBuffers Float32 Float) with
  | error e => rw [hc] at hd; cases hd
  | ok r =>
    obtain ⟨b, opt⟩ := r
    rw [hc] at hd
    simp only [Outcome.ok_bind, Outcome.pure_eq_ok, Except.ok.injEq] at hd
    subst hd
    exact natTotal_notNeg_of_covered opt b.path (h b opt hc)

/-- **what replaces `CatmullSurplusOk`**: for the osu!-path-mode Catmull sliders of the map, `optimized_len` is a NaN,
`≥ 0`, or `≥ −D` for one segment length `D` of the simplified path. -/
def CatmullDebtCovered (m : Beatmap Float Float32) : Prop :=
  ∀ h ∈ m.hitObjects, ∀ s, h.kind = .slider s → s.path.mode = GameMode.osu → ¬ NoCatmull s.path.controlPoints →
    ∀ (b : CurveBuffers Float32 Float) (opt : Float),
      calculatePath curveFuel s.path.mode s.path.controlPoints (emptyBuffers : CurveBuffers Float32 Float) = .ok (b, opt) →
        DebtCovered opt b.path

theorem catmullSurplusOk_of_debtCovered (m : Beatmap Float Float32) (h : CatmullDebtCovered m) : CatmullSurplusOk m :=
  fun x hx s hk hm hc => natOk_of_debt_covered s (h x hx s hk hm hc)

/-- **`decoded_dist_nonneg_statement Float Float32`, partial**: every decoded map satisfies `DistOk` under
`CatmullDebtCovered`. Missing for the full statement: `CatmullDebtCovered` (or `CatmullSurplusOk`) for osu!-path-mode
Catmull sliders that book two or more negative surplus terms — see `two_debts_counterexample`. -/
theorem decoded_dist_nonneg_float_debt_partial (bs : List UInt8) (st : BeatmapState Float Float32)
    (m : Beatmap Float Float32) (h1 : decodeBytes beatmapDecoder bs = .ok st) (h2 : st.finish = .ok m)
    (hc : CatmullDebtCovered m) : DistOk m.hitObjects :=
  decoded_dist_nonneg_float_partial bs st m h1 h2 (catmullSurplusOk_of_debtCovered m hc)

/-- **`encode_total` modulo fuel on decoded maps, partial**: re-encoding a decoded map does not panic, provided — in
osu! and catch mode — the osu!-path-mode Catmull sliders satisfy `CatmullDebtCovered`. -/
theorem encode_decoded_no_panic_float_debt_partial (bs : List UInt8) (st : BeatmapState Float Float32)
    (m : Beatmap Float Float32) (h1 : decodeBytes beatmapDecoder bs = .ok st) (h2 : st.finish = .ok m)
    (hc : UsesSliderEvents m.general.mode → CatmullDebtCovered m) : encode m ≠ .error .panic :=
  encode_decoded_no_panic_float_partial bs st m h1 h2 (fun hu => catmullSurplusOk_of_debtCovered m (hc hu))

/-- the full statements (open). -/
def decoded_dist_nonneg_float_statement : Prop :=
  ∀ (bs : List UInt8) (st : BeatmapState Float Float32) (m : Beatmap Float Float32),
    decodeBytes beatmapDecoder bs = .ok st → st.finish = .ok m → DistOk m.hitObjects

def encode_decoded_no_panic_float_statement : Prop :=
  ∀ (bs : List UInt8) (st : BeatmapState Float Float32) (m : Beatmap Float Float32),
    decodeBytes beatmapDecoder bs = .ok st → st.finish = .ok m → encode m ≠ .error .panic

/-- both follow from `CatmullDebtCovered` on decoded maps. -/
theorem statements_of_debtCovered
    (h : ∀ (bs : List UInt8) (st : BeatmapState Float Float32) (m : Beatmap Float Float32),
      decodeBytes beatmapDecoder bs = .ok st → st.finish = .ok m → CatmullDebtCovered m) :
    decoded_dist_nonneg_float_statement ∧ encode_decoded_no_panic_float_statement :=
  ⟨fun bs st m h1 h2 => decoded_dist_nonneg_float_debt_partial bs st m h1 h2 (h bs st m h1 h2),
   fun bs st m h1 h2 => encode_decoded_no_panic_float_debt_partial bs st m h1 h2 (fun _ => h bs st m h1 h2)⟩

/-! ### the check, and the witness with a negative `optimized_len` -/

/-- `DebtCovered` of a path's `calculate_path` result, as a check (fuel exhaustion counts as covered: no distance). -/
def debtCoveredB (p : SliderPathData Float Float32) : Bool :=
  match calculatePath (F := Float) curveFuel p.mode p.controlPoints emptyBuffers with
  | .ok (b, opt) => Scalar.isNaN opt || Scalar.le (0 : Float) opt ||
      (C16.segLens Float b.path).any (fun D => Scalar.le (0 : Float) D && Scalar.le (-D) opt)
  | .error _ => true

theorem debtCoveredB_spec (p : SliderPathData Float Float32) (h : debtCoveredB p = true)
    (b : CurveBuffers Float32 Float) (opt : Float)
    (hc : calculatePath curveFuel p.mode p.controlPoints (emptyBuffers : CurveBuffers Float32 Float) = .ok (b, opt)) :
    DebtCovered opt b.path := by
  unfold debtCoveredB at h
  rw [hc] at h
  simp only [Bool.or_eq_true, List.any_eq_true, Bool.and_eq_true] at h
  rcases h with (h | h) | ⟨D, hm, hD, hg⟩
  · exact Or.inl (Or.inl h)
  · exact Or.inl (Or.inr h)
  · exact Or.inr ⟨D, hm, hD, Or.inr hg⟩

theorem catmullDebtCovered_of_check (m : Beatmap Float Float32)
    (h : (sliderPaths m).all (fun p => pathPlainB p || debtCoveredB p) = true) : CatmullDebtCovered m := by
  intro x hx s hk hm hc b opt hcp
  have := (List.all_eq_true.mp h) s.path (mem_sliderPaths m x hx s hk)
  rw [Bool.or_eq_true] at this
  rcases this with h' | h'
  · rcases pathPlainB_spec _ h' with h'' | h''
    · exact absurd hm h''
    · exact absurd h'' hc
  · exact debtCoveredB_spec s.path h' b opt hcp

end Float64

/-- the Catmull slider `(0,0) → (1,2)` of Props/C01IeeeWitness.lean (`optimized_len ≈ −2.4e-8 < 0`) has its debt covered by
its chord. -/
theorem debtCovered_witness : debtCoveredB pathCatmull = true := by decide +kernel

/-- **non-vacuity of `encode_decoded_no_panic_float_debt_partial`**: all hypotheses on the decoded file
`0,0,0,2,0,C|1:2,1`, whose `optimized_len` is negative, and the conclusions. -/
theorem encode_decoded_no_panic_float_debt_partial_nonvacuous :
    ∃ (st : BeatmapState Float Float32) (m : Beatmap Float Float32),
      decodeBytes beatmapDecoder fileCatmull = .ok st ∧ st.finish = .ok m ∧ sliderPaths m = [pathCatmull] ∧
      CatmullDebtCovered m ∧ DistOk m.hitObjects ∧ encode m ≠ .error .panic := by
  have hp := catmull_file_paths
  cases hm : decodeMap fileCatmull with
  | none => rw [hm] at hp; cases hp
  | some m =>
    rw [hm] at hp
    simp only [Option.map_some, Option.some.injEq] at hp
    obtain ⟨st, h1, h2⟩ := decodeMap_spec _ m hm
    have hok : CatmullDebtCovered m := by
      refine catmullDebtCovered_of_check m ?_
      rw [hp]
      simp only [List.all_cons, List.all_nil, Bool.and_true, debtCovered_witness, Bool.or_true]
    exact ⟨st, m, h1, h2, hp, hok, decoded_dist_nonneg_float_debt_partial _ st m h1 h2 hok,
      encode_decoded_no_panic_float_debt_partial _ st m h1 h2 (fun _ => hok)⟩

/-! ### two debts: order laws do not suffice -/

/-- `1.5 · 2⁻⁵³` (an `f32` value). -/
def dSmall : Float := Float.ofBits 0x3CA8000000000000

/-- the left-to-right sum `calculate_length` forms for two spans whose removed lengths are `L₁ = L₂ = 0` and whose chords
are `D₁ = 1`, `D₂ = 1.5·2⁻⁵³`: `optimized_len = (0 + (L₁ − D₁)) + (L₂ − D₂)`, then `+ D₁ + D₂`. -/
def twoDebtsTotal : Float := (((0 + ((0 : Float) - 1)) + ((0 : Float) - dSmall)) + 1) + dSmall

/-- **with two negative surplus terms the total can be negative although every term owes at most its own chord and every
chord is added back**: `twoDebtsTotal = −2⁻⁵⁴`. (Not reachable from `f32` points: there `Lₖ = 0 < Dₖ` needs an underflow
of every squared piece, which confines the chords to `[2⁻⁷⁵, 2⁻⁶⁸]` where the binary64 sums are exact.) -/
theorem two_debts_counterexample :
    Scalar.lt twoDebtsTotal (0 : Float) = true ∧ twoDebtsTotal.toBits = 0xBC90000000000000 ∧
    GeNeg 1 ((0 : Float) - 1) ∧ GeNeg dSmall ((0 : Float) - dSmall) ∧
    Scalar.le (0 : Float) dSmall = true ∧ (Cvt.up (Cvt.down dSmall : Float32) : Float) = dSmall := by
  refine ⟨by decide +kernel, by decide +kernel, Or.inr (by decide +kernel), Or.inr (by decide +kernel),
    by decide +kernel, by decide +kernel⟩

end Rosu.C01
