/-
  Props/C12IeeeSorted.lean — C12, the clause "every list is strictly increasing in time", for the driver's IEEE instance
  (`F = Float`, `P = Float32`), on DECODED lines, with the parser facts discharged.

  `C12.lists_strictly_sorted_time` (Props/C12Exact.lean §4b) takes `C13.TimeKeyOn S` and "the accepted times are in `S`";
  `C13.lists_strictly_sorted_time_float` (Props/C13Ieee.lean) discharged `TimeKeyOn` for `S = NoNegZero` but kept "accepted
  times are in `S`" as a hypothesis. Here `S` := the set of times of the accepted lines themselves; that they are not NaN is
  the parser's own range check (`accepted_time_inRange`), so what is left is exactly finding F8:

  * `lists_strictly_sorted_time_float_decoded`: for EVERY sequence of timing-point line strings decoded from the fresh state,
    the four control-point lists are strictly increasing in TIME (IEEE `<` on the times) and hold at most one point per time
    (IEEE `==`), provided NOT BOTH `−0.0` and `+0.0` occur among the times of the accepted lines.
  * `…_no_negzero`, `…_no_poszero`: the two usual ways to meet the hypothesis (no accepted time is `−0.0`, resp. `+0.0`),
    stated on bit patterns.
  * `accepted_time_finite_float`: every accepted time is a finite number within ±(2³¹−1).
  * `f8_decoded_float`, `f8_decoded_not_timeSorted`, `f8_decoded_not_onePerTime`: the hypothesis is necessary — the lines
    `0,500,…`, `5,300,…`, `-0,250,…` are all accepted, their times are `+0.0`, `5`, `−0.0`, and the decoder stores three
    timing points `−0.0, +0.0, 5` of which the first two have `==` times — evaluated by the kernel on the real parser.
    (`0` and `-0` on ADJACENT lines fall into one pending group and only the first is kept: `f8_adjacent_zeros_one_point`.)
-/
import RosuModel.Props.C12Ieee
import RosuModel.Props.C13Ieee
set_option linter.unusedSectionVars false
namespace Rosu.C12
open Rosu

/-- the fresh decoder state the driver starts from. -/
abbrev freshF : TimingPointsState Float Float32 := TimingPointsState.create

/-- the set of times of the accepted lines of `strs`. -/
def AcceptedTime (strs : List Str) : Float → Prop :=
  fun x => ∃ l ∈ acceptedLines freshF.general strs, l.time = x

/-- **every accepted time is a finite number** (within ±(2³¹−1)): the parser's range check, for IEEE doubles. -/
theorem accepted_time_finite_float {g : GeneralState Float Float32} {strs : List Str} {l : TpLine Float}
    (h : l ∈ acceptedLines g strs) :
    Scalar.isNaN l.time = false ∧ l.time.toModel.unpack.isFinite = true :=
  ⟨(accepted_time_inRange h).2.2, inRange_finite_float (accepted_time_inRange h)⟩

/-- the key order is the time order on the accepted times, unless both zeros are among them. -/
theorem timeKeyOn_accepted (strs : List Str)
    (hz : ¬ (AcceptedTime strs C13.negZero ∧ AcceptedTime strs C13.posZero)) : C13.TimeKeyOn (AcceptedTime strs) :=
  C13.timeKeyOn_float_of _ (fun _ ⟨_, hl, hx⟩ => hx ▸ (accepted_time_inRange hl).2.2) hz

/-- **lists_strictly_sorted_time, decoded, IEEE** — for every sequence of timing-point line strings decoded in
`Float` / `Float32` from the fresh state: each of the four control-point lists is strictly increasing in TIME (IEEE `<`) and
holds at most one point per time (IEEE `==`), under the single hypothesis that not both `−0.0` and `+0.0` occur among the
times of the accepted lines (finding F8: `f8_decoded_float`). Nothing is assumed about the arithmetic or the lines. -/
theorem lists_strictly_sorted_time_float_decoded (strs : List Str)
    (hz : ¬ ((∃ l ∈ acceptedLines freshF.general strs, l.time = C13.negZero) ∧
             (∃ l ∈ acceptedLines freshF.general strs, l.time = C13.posZero))) :
    C13.TimeSorted (runStrs freshF strs).finish.2 ∧ C13.OnePerTime (runStrs freshF strs).finish.2 :=
  lists_strictly_sorted_time (timeKeyOn_accepted strs hz) strs (fun l hl => ⟨l, hl, rfl⟩)

/-- … in particular when no accepted time is `−0.0` (bit pattern `0x8000000000000000`) … -/
theorem lists_strictly_sorted_time_float_decoded_no_negzero (strs : List Str)
    (hz : ∀ l ∈ acceptedLines freshF.general strs, l.time.toBits ≠ 0x8000000000000000) :
    C13.TimeSorted (runStrs freshF strs).finish.2 ∧ C13.OnePerTime (runStrs freshF strs).finish.2 :=
  lists_strictly_sorted_time_float_decoded strs
    (fun ⟨⟨l, hl, e⟩, _⟩ => hz l hl (by rw [e]; exact C13.negZero_toBits))

/-- … or when no accepted time is `+0.0` (bit pattern `0`). -/
theorem lists_strictly_sorted_time_float_decoded_no_poszero (strs : List Str)
    (hz : ∀ l ∈ acceptedLines freshF.general strs, l.time.toBits ≠ 0) :
    C13.TimeSorted (runStrs freshF strs).finish.2 ∧ C13.OnePerTime (runStrs freshF strs).finish.2 :=
  lists_strictly_sorted_time_float_decoded strs
    (fun ⟨_, ⟨l, hl, e⟩⟩ => hz l hl (by rw [e]; exact C13.posZero_toBits))

/-- the same through `C13.NoNegZero` (the statement of `C13.lists_strictly_sorted_time_float` with "not NaN" discharged). -/
theorem accepted_noNegZero (strs : List Str)
    (hz : ∀ l ∈ acceptedLines freshF.general strs, l.time.toBits ≠ 0x8000000000000000) :
    ∀ l ∈ acceptedLines freshF.general strs, C13.NoNegZero l.time :=
  fun l hl => ⟨(accepted_time_inRange hl).2.2, hz l hl⟩

/-! ## non-vacuity and F8 on the real parser (kernel evaluation) -/

/-- three lines: a timing change at `0`, an inherited line at `1000.5`, a timing change at `-250`. -/
def sortedLines : List Str :=
  [str "0,500,4,1,0,100,1,0", str "1000.5,-50,4,1,0,80,0,0", str "-250,300,4,2,0,60,1,0"]

/-- all three are accepted and their times are `+0.0`, `1000.5`, `−250`: no `−0.0`. -/
theorem sortedLines_times :
    (acceptedLines freshF.general sortedLines).map (fun l => l.time.toBits) =
      [0, 0x408F440000000000, 0xC06F400000000000] := by decide +kernel

/-- non-vacuity: the hypothesis of `…_no_negzero` holds of `sortedLines`, so the lists decoded from them are strictly
increasing in time. -/
example : C13.TimeSorted (runStrs freshF sortedLines).finish.2 ∧ C13.OnePerTime (runStrs freshF sortedLines).finish.2 :=
  lists_strictly_sorted_time_float_decoded_no_negzero sortedLines (by
    intro l hl
    have h := sortedLines_times
    have : l.time.toBits ∈ (acceptedLines freshF.general sortedLines).map (fun l => l.time.toBits) :=
      List.mem_map_of_mem hl
    rw [h] at this
    simp only [List.mem_cons, List.not_mem_nil, or_false] at this
    rcases this with e | e | e <;> rw [e] <;> decide)

/-- the lines of finding F8: time `0`, time `5`, time `-0`. (The line in between matters: `0` and `-0` on ADJACENT lines
fall into one pending group — `|0 − (−0)| < ε` — and only the first timing change of a group is kept:
`f8_adjacent_zeros_one_point`.) -/
def f8Lines : List Str := [str "0,500,4,1,0,100,1,0", str "5,300,4,1,0,100,1,0", str "-0,250,4,1,0,100,1,0"]

/-- **F8 on decoded lines** (the hypothesis of `lists_strictly_sorted_time_float_decoded` is necessary): the three lines
are accepted, with times `+0.0`, `5`, `−0.0`; the decoder stores THREE timing points, in the order `−0.0` (beat length 250),
`+0.0` (500), `5` (300) — bit patterns, evaluated by the kernel on the real parser and the real insertion. -/
theorem f8_decoded_float :
    (acceptedLines freshF.general f8Lines).map (fun l => l.time.toBits) = [0, (5 : Float).toBits, 0x8000000000000000] ∧
    (runStrs freshF f8Lines).finish.2.timingPoints.map (fun p => (p.time.toBits, p.beatLen.toBits)) =
      [(0x8000000000000000, (250 : Float).toBits), (0, (500 : Float).toBits), ((5 : Float).toBits, (300 : Float).toBits)] :=
  ⟨by decide +kernel, by decide +kernel⟩

/-- both zeros are among the accepted times of `f8Lines`: exactly the excluded case. -/
theorem f8_decoded_both_zeros :
    (∃ l ∈ acceptedLines freshF.general f8Lines, l.time = C13.negZero) ∧
    (∃ l ∈ acceptedLines freshF.general f8Lines, l.time = C13.posZero) := by
  have h : ((acceptedLines freshF.general f8Lines).any (fun l => l.time.toBits == 0x8000000000000000) &&
      (acceptedLines freshF.general f8Lines).any (fun l => l.time.toBits == 0)) = true := by decide +kernel
  rw [Bool.and_eq_true, List.any_eq_true, List.any_eq_true] at h
  obtain ⟨⟨a, ha, ea⟩, ⟨b, hb, eb⟩⟩ := h
  exact ⟨⟨a, ha, C13.eq_negZero _ (by simpa using ea)⟩, ⟨b, hb, C13.eq_posZero _ (by simpa using eb)⟩⟩

/-- the first two stored timing points of `f8Lines` have IEEE-equal times, and the first is not `<` the second. -/
theorem f8_decoded_eq_times :
    (match (runStrs freshF f8Lines).finish.2.timingPoints with
      | a :: b :: _ => Scalar.eq a.time b.time && !Scalar.lt a.time b.time
      | _ => false) = true := by decide +kernel

/-- … hence the lists decoded from `f8Lines` are NOT strictly increasing in time … -/
theorem f8_decoded_not_timeSorted : ¬ C13.TimeSorted (runStrs freshF f8Lines).finish.2 := by
  intro h
  have h1 : (runStrs freshF f8Lines).finish.2.timingPoints.Pairwise
      (fun a b => Scalar.lt a.time b.time = true) := h.timing
  have h2 := f8_decoded_eq_times
  revert h1 h2
  generalize (runStrs freshF f8Lines).finish.2.timingPoints = l
  intro h1 h2
  match l, h1, h2 with
  | a :: b :: rest, h1, h2 =>
    have hlt := (List.pairwise_cons.mp h1).1 b (by simp)
    simp only [Bool.and_eq_true, Bool.not_eq_true'] at h2
    rw [hlt] at h2
    exact absurd h2.2 (by decide)

/-- … and hold two timing points at one time. -/
theorem f8_decoded_not_onePerTime : ¬ C13.OnePerTime (runStrs freshF f8Lines).finish.2 := by
  intro h
  have h1 := h.1
  have h2 := f8_decoded_eq_times
  revert h1 h2
  generalize (runStrs freshF f8Lines).finish.2.timingPoints = l
  intro h1 h2
  match l, h1, h2 with
  | a :: b :: rest, h1, h2 =>
    simp only [Bool.and_eq_true] at h2
    exact absurd (h1 0 1 a b rfl rfl h2.1) (by decide)

/-- `0` and `-0` on ADJACENT lines are one pending group (`|0 − (−0)| = 0 < ε`), of which only the first timing change is
kept: one stored point, time `+0.0`, beat length 500 — no violation, the second line is silently dropped. -/
theorem f8_adjacent_zeros_one_point :
    (runStrs freshF [str "0,500,4,1,0,100,1,0", str "-0,250,4,1,0,100,1,0"]).finish.2.timingPoints.map
      (fun p => (p.time.toBits, p.beatLen.toBits)) = [(0, (500 : Float).toBits)] := by decide +kernel

/-- the lines of `f8Lines` with `0` in place of `-0`: the third line REPLACES the first (one point per time, as worded). -/
theorem f8_decoded_one_zero :
    (runStrs freshF [str "0,500,4,1,0,100,1,0", str "5,300,4,1,0,100,1,0", str "0,250,4,1,0,100,1,0"]).finish.2.timingPoints.map
      (fun p => (p.time.toBits, p.beatLen.toBits)) =
      [(0, (250 : Float).toBits), ((5 : Float).toBits, (300 : Float).toBits)] := by decide +kernel

end Rosu.C12
