/-
  Props/C16Full.lean — the module audited for C16: Props/C16Surplus.lean (and what it imports) together with
  Props/C16Ieee.lean (the IEEE / real-analysis instantiations) and Props/C16IeeeBezierDiverge.lean (F23: the Bezier
  flattening loop diverges in f32 on a finite input) and Props/C16IeeeCut.lean (where the re-projected end point lies in
  f32: rounding-error bounds for the cut and the extension) and Props/C16IeeeCut2.lean (the range of the cut parameter with
  the f32 <-> f64 conversions proved exact / correctly rounded, Lemmas/FloatErrCvt.lean) and Props/C16LinearRef.lean (the harness's
  reference for all-linear control points, `ref_linear_natural`, is what the model's `calculate_path` computes). All in
  namespace Rosu.C16.
-/
import RosuModel.Props.C16Surplus
import RosuModel.Props.C16Ieee
import RosuModel.Props.C16IeeeLen
import RosuModel.Props.C16IeeeAdj
import RosuModel.Props.C16IeeeAdjWitness
import RosuModel.Props.C16IeeeBezierDiverge
import RosuModel.Props.C16IeeeCut
import RosuModel.Props.C16IeeeCut2
import RosuModel.Props.C16LinearRef
