/-
  Props/C12Full.lean — the module audited for C12: Props/C12Exact.lean (and what it imports) together with
  Props/C12Ieee.lean (the IEEE / real-analysis instantiations). All in namespace Rosu.C12.
-/
import RosuModel.Props.C12Exact
import RosuModel.Props.C12Ieee
import RosuModel.Props.C12IeeeSorted
