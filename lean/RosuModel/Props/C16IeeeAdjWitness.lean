/-
  Props/C16IeeeAdjWitness.lean — the kernel-checked witness behind `C16.surplus_negative_decreases`
  (Props/C16IeeeAdj.lean): **a curve built by `Curve::new` whose cumulative lengths decrease** in IEEE arithmetic.

  osu! mode, control points `(0,0)` Linear, `(0,0)` Catmull, `(3,1)`, no requested length. The Catmull segment
  `(0,0) → (3,1)` is approximated by 100 points, the osu!-mode simplification keeps its two end points and books the
  surplus `optimized_len = (Σ |pᵢ₊₁ − pᵢ|) − |p₉₉ − p₀| = −0x1.6p-25 ≈ −4.1e-8` (every distance is rounded to `f32`;
  in exact arithmetic the surplus is `≥ 0`, Props/C16Surplus.lean). `calculate_length` seeds the running sum with that
  surplus, and the first segment `(0,0) → (0,0)` (the Linear one) has length `0`: the lengths are
  `0, −4.1e-8, 3.1622…`. So "cumulative lengths never decrease" holds for osu!-mode Catmull sliders only up to a
  tolerance, as the property text says; the exact statement needs `0 ≤ optimized_len`
  (`calculateLength_lengths_monotone_float`) and holds unconditionally when no osu!-mode Catmull segment is present
  (`new_lengths_monotone_float`).

  The single `decide +kernel` below evaluates 100 Catmull points and 200 distances in the kernel's `Float32`/`Float`
  model (about 20 s), which is why it lives in its own file.
-/
import RosuModel.Props.C16IeeeAdj
namespace Rosu.C16
open Rosu Rosu.Curve

section Witness
attribute [local instance] trigStub32

/-- `(0,0)` Linear, `(0,0)` Catmull, `(3,1)`. -/
def decreasingCps : List (PathControlPoint Float32) :=
  [⟨⟨0, 0⟩, some PathType.linear⟩, ⟨⟨0, 0⟩, some PathType.catmull⟩, ⟨⟨3, 1⟩, none⟩]

/-- the lengths of the curve as bit patterns, and the comparison of the first two. -/
theorem decreasing_eval :
    (Curve.new 100 GameMode.osu decreasingCps none ({} : CurveBuffers Float32 Float)).toOption.map
      (fun r => (r.1.lengths.map Float.toBits,
                 match r.1.lengths with | a :: b :: _ => Scalar.le a b | _ => true)) =
    some ([0, 0xBE66000000000000, 0x40094C583A800000], false) := by decide +kernel

/-- **`Curve::new` can return decreasing cumulative lengths** (osu! mode, a Catmull segment, finite — small integer —
coordinates): strict monotonicity is false for IEEE doubles. -/
theorem new_lengths_not_monotone_float :
    (∀ pt ∈ decreasingCps, FinitePos pt.pos) ∧
    ∃ c b', Curve.new 100 GameMode.osu decreasingCps none ({} : CurveBuffers Float32 Float) = .ok (c, b') ∧
      c.lengths.map Float.toBits = [0, 0xBE66000000000000, 0x40094C583A800000] ∧ ¬ Mono c.lengths := by
  refine ⟨by decide +kernel, ?_⟩
  have key := decreasing_eval
  cases hr : Curve.new 100 GameMode.osu decreasingCps none ({} : CurveBuffers Float32 Float) with
  | error err => rw [hr] at key; cases key
  | ok r =>
    obtain ⟨c, b'⟩ := r
    rw [hr] at key
    simp only [Except.toOption, Option.map_some, Option.some.injEq, Prod.mk.injEq] at key
    refine ⟨c, b', rfl, key.1, ?_⟩
    intro hm
    match hl : c.lengths, hm, key.2 with
    | [], _, h2 => cases h2
    | [_], _, h2 => cases h2
    | a :: b :: t, hm, h2 =>
      have h2' : Scalar.le a b = false := h2
      rw [hm.1] at h2'; cases h2'

end Witness

end Rosu.C16
