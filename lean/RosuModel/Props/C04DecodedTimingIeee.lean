/-
  Props/C04DecodedTimingIeee.lean — Props/C04DecodedTiming.lean at the driver's instances `F = Float` (`f64`), `P = Float32`
  (`f32`), with every hypothesis that is a theorem of those instances DISCHARGED:
    * `C12.NanLaws Float`, `C12.TpClampLaws Float`  — `C12.nanLaws_float`, `C12.tpClampLaws_float` (Props/C12Ieee.lean);
    * `TimingConsts Float`                           — HERE (`timingConsts_float`, kernel evaluation of the constants);
    * `LimitRep IeeeRep64`                           — `limitRep_float` (Props/C04DecodedIeee.lean);
    * `CodecLaws Float IeeeRep64`                    — `C02.codecLaws_float_ieee`.
    * `SvLaws Float IeeeRep64`                       — HERE (`svLaws_float`): `−100 / v` is a number within ±(2³¹−1) for `v` in
      `[0.1, 10]` resp. `[0.01, 10]`, because IEEE division of a negative number is monotone in a positive denominator
      (`FAM.div_le_div_left_neg_float`, Lemmas/FloatDivAnti.lean) and the end points are kernel-evaluated.
  What REMAINS is only the residual `CollectedTimesInLimit` (`decoded_repTimingMap_partial_ieee`,
  `timing_lines_accepted_decoded_ieee`). The `_float` versions keep `SvLaws` as a hypothesis.
  With no hypothesis at all: `decoded_stored_points_inv_float` — the stored control points of every decoded
  `Beatmap<f64/f32>` are strictly sorted, within the parse limit, and inside their clamp ranges in any mode.
-/
import RosuModel.Props.C04DecodedTiming
import RosuModel.Props.C04DecodedIeee
import RosuModel.Props.C12Ieee
import RosuModel.Lemmas.FloatDivAnti
import RosuModel.Model.Cmds.Curve
set_option linter.unusedSectionVars false
namespace Rosu.C04
open Rosu Scalar Encode EncodeLines RtTiming DecodedObj

theorem timingConsts_float : TimingConsts Float where
  negMax := by decide +kernel
  six := ⟨by decide +kernel, by decide +kernel, by decide +kernel⟩
  sixty := ⟨by decide +kernel, by decide +kernel, by decide +kernel⟩

/-! ### the arithmetic law `SvLaws` for IEEE doubles -/

theorem negHundred_finite_float : FMO.isFiniteNonzero (-100 : Float).toModel.unpack = true := by decide +kernel

/-- **`−100 / v` for `lo ≤ v ≤ 10`** (`lo > 0`, with `−100 / lo` and `−100 / 10` inside the beat-length limits — closed facts
about `lo`): IEEE division of a negative number is monotone in a positive denominator (`FAM.div_le_div_left_neg_float`), so
`−100/lo ≤ −100/v ≤ −100/10`; hence a number within ±(2³¹−1). -/
theorem svOk_between_float (lo : Float) (hlo0 : Scalar.lt (0 : Float) lo = true)
    (hA : Scalar.le (Scalar.ofInt (-i32Max) : Float) ((-100 : Float) / lo) = true)
    (hB : Scalar.le ((-100 : Float) / (10 : Float)) (Scalar.ofInt i32Max : Float) = true)
    (v : Float) (h : C12.Between lo (10 : Float) v) : SvOk IeeeRep64 v := by
  obtain ⟨_, h1, h2⟩ := h
  have hneg : Scalar.lt (-100 : Float) (0 : Float) = true := by decide +kernel
  have hv0 : Scalar.lt (0 : Float) v = true := FMO.lt_of_lt_of_le _ _ _ hlo0 h1
  have l1 := FAM.div_le_div_left_neg_float (-100) lo v negHundred_finite_float hneg hlo0 h1
  have l2 := FAM.div_le_div_left_neg_float (-100) v 10 negHundred_finite_float hneg hv0 h2
  have hn : Scalar.isNaN ((-100 : Float) / v) = false := ((FMO.le_iff _ _).mp l1).2.1
  exact ⟨hn, FMO.not_lt_of_le _ _ (FMO.le_trans _ _ _ hA l1), FMO.not_lt_of_le _ _ (FMO.le_trans _ _ _ l2 hB)⟩

/-- **`SvLaws` is a theorem for IEEE doubles** and the IEEE codec. -/
theorem svLaws_float : SvLaws Float IeeeRep64 where
  one := ⟨by decide +kernel, by decide +kernel, by decide +kernel⟩
  sv := svOk_between_float (0.1 : Float) (by decide +kernel) (by decide +kernel) (by decide +kernel)
  scroll := svOk_between_float (0.01 : Float) (by decide +kernel) (by decide +kernel) (by decide +kernel)

/-- all laws about the timing block hold of the driver's instance. -/
theorem timingLaws_float : TimingLaws Float IeeeRep64 :=
  ⟨C12.nanLaws_float, C12.tpClampLaws_float, timingConsts_float, svLaws_float⟩

section
variable [Trig Float32]

/-- **decoded_stored_points_inv** for `f64` / `f32`, NO hypothesis: whatever bytes are decoded, the control points of the
map are strictly sorted by `total_cmp` key and satisfy `storedPred` — times within ±(2³¹−1), numerators `1 … 2³¹−1`, beat
lengths within the limit and in `[6, 60000]`, velocities in `[0.1, 10]`, scroll speeds `1` or in `[0.01, 10]`, custom banks
within ±(2³¹−1), volumes `0 … 100`. -/
theorem decoded_stored_points_inv_float (bs : List UInt8) (st : BeatmapState Float Float32) (m : Beatmap Float Float32)
    (h1 : decodeBytes beatmapDecoder bs = .ok st) (h2 : st.finish = .ok m) :
    C13.Sorted m.controlPoints ∧ C12.CpAll storedPred m.controlPoints := by
  obtain ⟨ls, hst, _⟩ := DecodedInv.decodeBytes_lines _ bs st h1
  exact decoded_stored_points_inv C12.nanLaws_float C12.tpClampLaws_float timingConsts_float ls m (by rw [← hst]; exact h2)

/-- **decoded_stored_points_rep** for `f64` / `f32`: only the arithmetic law `SvLaws` is left. -/
theorem decoded_stored_points_rep_float (SV : SvLaws Float IeeeRep64) (bs : List UInt8) (st : BeatmapState Float Float32)
    (m : Beatmap Float Float32) (h1 : decodeBytes beatmapDecoder bs = .ok st) (h2 : st.finish = .ok m) :
    StoredPointsRep IeeeRep64 m :=
  decoded_stored_points_rep C12.nanLaws_float C12.tpClampLaws_float timingConsts_float limitRep_float SV bs st m h1 h2

/-- **decoded_repTimingMap_partial** for `f64` / `f32`: `SvLaws` and the residual `CollectedTimesInLimit` are left. -/
theorem decoded_repTimingMap_partial_float (SV : SvLaws Float IeeeRep64) (bs : List UInt8) (st : BeatmapState Float Float32)
    (m : Beatmap Float Float32) (h1 : decodeBytes beatmapDecoder bs = .ok st) (h2 : st.finish = .ok m)
    (hct : CollectedTimesInLimit m) : RepTimingMap IeeeRep64 m :=
  decoded_repTimingMap_partial C12.nanLaws_float C12.tpClampLaws_float timingConsts_float limitRep_float SV bs st m h1 h2 hct

/-- **timing_lines_accepted_decoded** for `f64` / `f32`. -/
theorem timing_lines_accepted_decoded_float (SV : SvLaws Float IeeeRep64) (bs : List UInt8)
    (st : BeatmapState Float Float32) (m : Beatmap Float Float32) (h1 : decodeBytes beatmapDecoder bs = .ok st)
    (h2 : st.finish = .ok m) (hct : CollectedTimesInLimit m) (t : Str) (h : encodeTimingPoints m = .ok t) :
    ∃ cp, collectSamples m = .ok cp ∧ t = unlines (str "[TimingPoints]" :: (mapEntries m cp).map Entry.line) ∧
      (∀ e ∈ mapEntries m cp, ∀ st : TimingPointsState Float Float32,
        parseTimingPoints st (trimEnd e.line) = (.ok (), applyTpLine st (e.read st.general.defaultSampleBank))) ∧
      ∀ st : TimingPointsState Float Float32,
        Accepts (fun s l => ((parseTimingPoints s l).2, (parseTimingPoints s l).1.isOk)) st
          (((mapEntries m cp).map Entry.line).map trimEnd) :=
  timing_lines_accepted_decoded C02.codecLaws_float_ieee C12.nanLaws_float C12.tpClampLaws_float timingConsts_float
    limitRep_float SV bs st m h1 h2 hct t h

/-- the custom banks and the order of the collected control points, `f64` / `f32`, no hypothesis. -/
theorem decoded_collected_float (bs : List UInt8) (st : BeatmapState Float Float32) (m : Beatmap Float Float32)
    (h1 : decodeBytes beatmapDecoder bs = .ok st) (h2 : st.finish = .ok m) (cp : ControlPoints Float)
    (hc : collectSamples m = .ok cp) : C13.Sorted cp ∧ ∀ s ∈ cp.samplePoints, s.customSampleBank ≤ i32Max :=
  ⟨decoded_collected_sorted bs st m h1 h2 cp hc, decoded_collected_custom bs st m h1 h2 cp hc⟩

/-- **decoded_stored_points_rep for `f64` / `f32`, NO hypothesis**: every control point stored in a decoded
`Beatmap<f64/f32>` satisfies the per-point clauses of `RepTimingMap IeeeRep64`. -/
theorem decoded_stored_points_rep_ieee (bs : List UInt8) (st : BeatmapState Float Float32)
    (m : Beatmap Float Float32) (h1 : decodeBytes beatmapDecoder bs = .ok st) (h2 : st.finish = .ok m) :
    StoredPointsRep IeeeRep64 m := decoded_stored_points_rep_float svLaws_float bs st m h1 h2

/-- **decoded_repTimingMap_partial for `f64` / `f32`: ONLY the residual is left** — a decoded `Beatmap<f64/f32>` whose
collected times are finite and within the parse limit is `RepTimingMap`. -/
theorem decoded_repTimingMap_partial_ieee (bs : List UInt8) (st : BeatmapState Float Float32)
    (m : Beatmap Float Float32) (h1 : decodeBytes beatmapDecoder bs = .ok st) (h2 : st.finish = .ok m)
    (hct : CollectedTimesInLimit m) : RepTimingMap IeeeRep64 m :=
  decoded_repTimingMap_partial_float svLaws_float bs st m h1 h2 hct

/-- **timing_lines_accepted_decoded for `f64` / `f32`: only the residual is left.** -/
theorem timing_lines_accepted_decoded_ieee (bs : List UInt8)
    (st : BeatmapState Float Float32) (m : Beatmap Float Float32) (h1 : decodeBytes beatmapDecoder bs = .ok st)
    (h2 : st.finish = .ok m) (hct : CollectedTimesInLimit m) (t : Str) (h : encodeTimingPoints m = .ok t) :
    ∃ cp, collectSamples m = .ok cp ∧ t = unlines (str "[TimingPoints]" :: (mapEntries m cp).map Entry.line) ∧
      (∀ e ∈ mapEntries m cp, ∀ st : TimingPointsState Float Float32,
        parseTimingPoints st (trimEnd e.line) = (.ok (), applyTpLine st (e.read st.general.defaultSampleBank))) ∧
      ∀ st : TimingPointsState Float Float32,
        Accepts (fun s l => ((parseTimingPoints s l).2, (parseTimingPoints s l).1.isOk)) st
          (((mapEntries m cp).map Entry.line).map trimEnd) :=
  timing_lines_accepted_decoded_float svLaws_float bs st m h1 h2 hct t h

end

/-! ### non-vacuity on the REAL instances (the driver's `Trig Float32` of Model/Cmds/Curve.lean): a decoded file, evaluated
by the kernel with IEEE arithmetic and the model of Rust's `FromStr` / `Display` -/

set_option maxRecDepth 100000

/-- an osu! file: a timing line at a negative fractional time, an inherited line with velocity `100 / 33.3`, kiai and a
custom bank, an inherited line with a NaN beat length (accepted: velocity `1`, ticks off), and a circle. -/
def ieeeLines : List Str :=
  [str "osu file format v14", str "", str "[General]", str "Mode: 0", str "[TimingPoints]", str "-28.5,333.33,4,2,0,100,1,0",
   str "1000.25,-33.3,4,1,3,70,0,1", str "2000,nan,4,1,0,50,0,0", str "[HitObjects]",
   str "256,192,1500.5,1,0,0:0:0:0:"]

def ieeeState : BeatmapState Float Float32 := frame beatmapDecoder ieeeLines
def ieeeMap : Beatmap Float Float32 :=
  match ieeeState.finish with | .ok m => m | .error _ => noObjectsMap ieeeState

theorem ieee_decodes : decodeBytes (beatmapDecoder : LineDecoder (BeatmapState Float Float32))
    (utf8Encode (unlines ieeeLines)) = .ok ieeeState := by
  rw [RtFile.decodeBytes_utf8_text _ _ (by decide), lines_of_unlines _ (by decide)]
  rfl

theorem ieee_finishes : ieeeState.finish = .ok ieeeMap := by
  have hok : ieeeState.finish.toOption.isSome = true := by decide +kernel
  unfold ieeeMap
  cases h : ieeeState.finish with
  | error e => rw [h] at hok; cases hok
  | ok m => rfl

/-- the residual holds of the sample (kernel evaluation of the object loop of `collect_samples` on doubles). -/
theorem ieee_collectedTimes : CollectedTimesInLimit ieeeMap := by
  have key : (match collectAll ieeeMap ieeeMap.hitObjects [] with
      | .ok pts => pts.all (fun p => Scalar.lt p.time (-(maxParseValue : Float)) == false &&
          Scalar.lt (maxParseValue : Float) p.time == false && Scalar.isNaN p.time == false) | .error _ => true) = true := by
    decide +kernel
  intro pts hp p hpm
  rw [hp] at key
  have := List.all_eq_true.mp key p hpm
  simp only [Bool.and_eq_true, beq_iff_eq] at this
  exact ⟨this.1.1, this.1.2, this.2⟩

/-- the block the encoder writes for it (kernel evaluation, Rust's `Display` for `f64` included): the velocity
`100 / 33.3 = 3.003003003003003` is written as `−100 / v = −33.3`, the NaN line as `−100`. -/
theorem ieee_timing_text :
    (match encodeTimingPoints ieeeMap with
      | .ok t => decide (t = unlines [str "[TimingPoints]", str "-28.5,333.33,4,2,0,100,1,0", str "1000.25,-33.3,4,2,3,70,0,1",
          str "2000,-100,4,2,0,50,0,0"])
      | .error _ => false) = true := by decide +kernel

/-- **the theorems apply**, no hypothesis left open: the decoded `f64` map is `RepTimingMap` and every line of its block is
accepted by `parse_timing_points` in any state. -/
theorem ieee_repTimingMap : RepTimingMap IeeeRep64 ieeeMap :=
  decoded_repTimingMap_partial_ieee _ _ _ ieee_decodes ieee_finishes ieee_collectedTimes

example (t : Str) (h : encodeTimingPoints ieeeMap = .ok t) :=
  timing_lines_accepted_decoded_ieee _ _ _ ieee_decodes ieee_finishes ieee_collectedTimes t h

end Rosu.C04
