/-
  Props/C04DecodedTimingIeee.lean — Props/C04DecodedTiming.lean at the driver's instances `F = Float` (`f64`), `P = Float32`
  (`f32`), with every hypothesis that is a theorem of those instances DISCHARGED:
    * `C12.NanLaws Float`, `C12.TpClampLaws Float`  — `C12.nanLaws_float`, `C12.tpClampLaws_float` (Props/C12Ieee.lean);
    * `TimingConsts Float`                           — HERE (`timingConsts_float`, kernel evaluation of the constants);
    * `LimitRep IeeeRep64`                           — `limitRep_float` (Props/C04DecodedIeee.lean);
    * `CodecLaws Float IeeeRep64`                    — `C02.codecLaws_float_ieee`.
  What REMAINS: the arithmetic law `SvLaws Float IeeeRep64` (`−100 / v` is a number within ±(2³¹−1) for `v` in `[0.1, 10]`
  resp. `[0.01, 10]` — true of IEEE division, which is monotone in the denominator, but Lemmas/FloatArithMono.lean only has
  monotonicity in the NUMERATOR, so it is not proved here) and the residual `CollectedTimesInLimit`.
  With no hypothesis at all: `decoded_stored_points_inv_float` — the stored control points of every decoded
  `Beatmap<f64/f32>` are strictly sorted, within the parse limit, and inside their clamp ranges in any mode.
-/
import RosuModel.Props.C04DecodedTiming
import RosuModel.Props.C04DecodedIeee
import RosuModel.Props.C12Ieee
set_option linter.unusedSectionVars false
namespace Rosu.C04
open Rosu Scalar Encode EncodeLines RtTiming DecodedObj

theorem timingConsts_float : TimingConsts Float where
  negMax := by decide +kernel
  six := ⟨by decide +kernel, by decide +kernel, by decide +kernel⟩
  sixty := ⟨by decide +kernel, by decide +kernel, by decide +kernel⟩

section
variable [Trig Float32]

/-- **decoded_stored_points_inv** for `f64` / `f32`, NO hypothesis: whatever bytes are decoded, the control points of the
map are strictly sorted by `total_cmp` key and satisfy `storedPred` — times within ±(2³¹−1), numerators `1 … 2³¹−1`, beat
lengths within the limit and in `[6, 60000]`, velocities in `[0.1, 10]`, scroll speeds `1` or in `[0.01, 10]`, custom banks
within ±(2³¹−1), volumes `0 … 100`. -/
theorem decoded_stored_points_inv_float (bs : List UInt8) (st : BeatmapState Float Float32) (m : Beatmap Float Float32)
    (h1 : decodeBytes beatmapDecoder bs = .ok st) (h2 : st.finish = .ok m) :
    C13.Sorted m.controlPoints ∧ C12.CpAll storedPred m.controlPoints := by
  obtain ⟨ls, hst, _⟩ := DecodedInv.decodeBytes_lines _ bs st h1
  exact decoded_stored_points_inv C12.nanLaws_float C12.tpClampLaws_float timingConsts_float ls m (by rw [← hst]; exact h2)

/-- **decoded_stored_points_rep** for `f64` / `f32`: only the arithmetic law `SvLaws` is left. -/
theorem decoded_stored_points_rep_float (SV : SvLaws Float IeeeRep64) (bs : List UInt8) (st : BeatmapState Float Float32)
    (m : Beatmap Float Float32) (h1 : decodeBytes beatmapDecoder bs = .ok st) (h2 : st.finish = .ok m) :
    StoredPointsRep IeeeRep64 m :=
  decoded_stored_points_rep C12.nanLaws_float C12.tpClampLaws_float timingConsts_float limitRep_float SV bs st m h1 h2

/-- **decoded_repTimingMap_partial** for `f64` / `f32`: `SvLaws` and the residual `CollectedTimesInLimit` are left. -/
theorem decoded_repTimingMap_partial_float (SV : SvLaws Float IeeeRep64) (bs : List UInt8) (st : BeatmapState Float Float32)
    (m : Beatmap Float Float32) (h1 : decodeBytes beatmapDecoder bs = .ok st) (h2 : st.finish = .ok m)
    (hct : CollectedTimesInLimit m) : RepTimingMap IeeeRep64 m :=
  decoded_repTimingMap_partial C12.nanLaws_float C12.tpClampLaws_float timingConsts_float limitRep_float SV bs st m h1 h2 hct

/-- **timing_lines_accepted_decoded** for `f64` / `f32`. -/
theorem timing_lines_accepted_decoded_float (SV : SvLaws Float IeeeRep64) (bs : List UInt8)
    (st : BeatmapState Float Float32) (m : Beatmap Float Float32) (h1 : decodeBytes beatmapDecoder bs = .ok st)
    (h2 : st.finish = .ok m) (hct : CollectedTimesInLimit m) (t : Str) (h : encodeTimingPoints m = .ok t) :
    ∃ cp, collectSamples m = .ok cp ∧ t = unlines (str "[TimingPoints]" :: (mapEntries m cp).map Entry.line) ∧
      (∀ e ∈ mapEntries m cp, ∀ st : TimingPointsState Float Float32,
        parseTimingPoints st (trimEnd e.line) = (.ok (), applyTpLine st (e.read st.general.defaultSampleBank))) ∧
      ∀ st : TimingPointsState Float Float32,
        Accepts (fun s l => ((parseTimingPoints s l).2, (parseTimingPoints s l).1.isOk)) st
          (((mapEntries m cp).map Entry.line).map trimEnd) :=
  timing_lines_accepted_decoded C02.codecLaws_float_ieee C12.nanLaws_float C12.tpClampLaws_float timingConsts_float
    limitRep_float SV bs st m h1 h2 hct t h

/-- the custom banks and the order of the collected control points, `f64` / `f32`, no hypothesis. -/
theorem decoded_collected_float (bs : List UInt8) (st : BeatmapState Float Float32) (m : Beatmap Float Float32)
    (h1 : decodeBytes beatmapDecoder bs = .ok st) (h2 : st.finish = .ok m) (cp : ControlPoints Float)
    (hc : collectSamples m = .ok cp) : C13.Sorted cp ∧ ∀ s ∈ cp.samplePoints, s.customSampleBank ≤ i32Max :=
  ⟨decoded_collected_sorted bs st m h1 h2 cp hc, decoded_collected_custom bs st m h1 h2 cp hc⟩

end

end Rosu.C04
