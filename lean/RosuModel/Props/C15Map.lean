/-
  Props/C15Map.lean — C15, the user-level clauses on top of Props/C15.lean:

  * `first_after_break_new_combo`: when the breaks are listed in non-decreasing end-time order, the first
    object after EACH break starts a new combo (holds excepted); `first_after_break_unconditional_false`:
    without the order hypothesis the clause is false (finding F14), witnessed on a toy scalar.
  * `apply_idempotent`: `SamplePoint::apply` is idempotent (exact condition inside).
  * `finalize_perm`: the finalised object list is the sorted parsed list, object by object, up to
    new-combo flags, slider velocity / node samples and sample lists.
-/
import RosuModel.Props.C15
import RosuModel.Lemmas.ToyScalar
namespace Rosu.C15
open Rosu Scalar

variable {F P : Type} [Scalar F] [Scalar P]

/-! ### the first object after each break starts a new combo -/

/-- the `new_combo` flag of an object (`false` for holds, which have none). -/
def kindNewCombo : HitObjectKind F P → Bool
  | .circle c => c.newCombo | .slider s => s.newCombo | .spinner s => s.newCombo | .hold _ => false

def isHold : HitObjectKind F P → Bool
  | .hold _ => true | _ => false

omit [Scalar F] [Scalar P] in
theorem orNewCombo_true (k : HitObjectKind F P) (h : isHold k = false) : kindNewCombo (k.orNewCombo true) = true := by
  cases k <;> simp_all [HitObjectKind.orNewCombo, kindNewCombo, isHold]

omit [Scalar F] [Scalar P] in
theorem orNewCombo_isHold (k : HitObjectKind F P) (f : Bool) : isHold (k.orNewCombo f) = isHold k := by
  cases k <;> rfl

omit [Scalar F] [Scalar P] in
/-- break processing only ever raises the flag. -/
theorem orNewCombo_mono (k : HitObjectKind F P) (f : Bool) (h : kindNewCombo k = true) :
    kindNewCombo (k.orNewCombo f) = true := by
  cases k <;> simp_all [HitObjectKind.orNewCombo, kindNewCombo]

omit [Scalar P] in
theorem postProcessBreaks_cons (breaks : List (BreakPeriod F)) (h : HitObject F P) (rest : List (HitObject F P))
    (cur : Nat) :
    postProcessBreaks breaks (h :: rest) cur =
      { h with kind := h.kind.orNewCombo (skipBreaks breaks h.startTime (breaks.length + 1) cur false).2 } ::
        postProcessBreaks breaks rest (skipBreaks breaks h.startTime (breaks.length + 1) cur false).1 := rfl

omit [Scalar P] in
/-- the pointer walk under the order hypothesis, for an arbitrary starting pointer `cur ≤ j`.

`N` is the set of values on which `<` behaves like a strict total order (for IEEE: the non-NaN values —
parsed break and object times are never NaN, `C11.floatParse_not_nan`); the only order fact used is
`x ≤ y < z → x < z` on such values. -/
theorem first_after_break_aux (N : F → Prop)
    (hle_lt : ∀ x y z : F, N x → N y → N z → lt y x = false → lt y z = true → lt x z = true)
    (breaks : List (BreakPeriod F))
    (hNb : ∀ b ∈ breaks, N b.endTime)
    (hsorted : breaks.Pairwise (fun b₁ b₂ => lt b₂.endTime b₁.endTime = false))
    (j : Nat) (b : BreakPeriod F) (hb : breaks[j]? = some b) :
    ∀ (hs : List (HitObject F P)) (cur i : Nat) (h : HitObject F P),
      (∀ x ∈ hs, N x.startTime) → cur ≤ j → hs[i]? = some h →
      lt b.endTime h.startTime = true →
      (∀ k h', k < i → hs[k]? = some h' → lt b.endTime h'.startTime = false) →
      isHold h.kind = false →
      ∃ h', (postProcessBreaks breaks hs cur)[i]? = some h' ∧ kindNewCombo h'.kind = true ∧
        h'.startTime = h.startTime ∧ h'.samples = h.samples := by
  have hjlen : j < breaks.length := (List.getElem?_eq_some_iff.mp hb).1
  have hbj : breaks[j] = b := (List.getElem?_eq_some_iff.mp hb).2
  intro hs
  induction hs with
  | nil => intro cur i h _ _ hi; simp at hi
  | cons x rest ih =>
    intro cur i h hNh hcur hi hafter hfirst hnh
    rw [postProcessBreaks_cons]
    obtain ⟨s1, s2, s3⟩ := skipBreaks_spec breaks x.startTime (breaks.length + 1) cur false
    have hstop := skipBreaks_stops breaks x.startTime (breaks.length + 1) cur false (by omega)
    cases i with
    | zero =>
      simp only [List.getElem?_cons_zero, Option.some.injEq] at hi
      subst hi
      -- the walk passes `j`
      have hpass : j < (skipBreaks breaks x.startTime (breaks.length + 1) cur false).1 := by
        apply Nat.lt_of_not_le
        intro hle
        have hc : (skipBreaks breaks x.startTime (breaks.length + 1) cur false).1 < breaks.length := by omega
        have hst := hstop _ (List.getElem?_eq_getElem hc)
        by_cases hcj : (skipBreaks breaks x.startTime (breaks.length + 1) cur false).1 = j
        · simp only [hcj, hbj] at hst
          rw [hst] at hafter; cases hafter
        · have hlt : (skipBreaks breaks x.startTime (breaks.length + 1) cur false).1 < j := by omega
          have hpw := (List.pairwise_iff_getElem.mp hsorted) _ _ hc hjlen hlt
          rw [hbj] at hpw
          have := hle_lt _ _ _ (hNb _ (List.getElem_mem hc)) (hNb _ (hbj ▸ List.getElem_mem hjlen))
            (hNh x (by simp)) hpw hafter
          rw [this] at hst; cases hst
      have hforce : (skipBreaks breaks x.startTime (breaks.length + 1) cur false).2 = true :=
        s2.mpr (Or.inr (by omega))
      refine ⟨{ x with kind := x.kind.orNewCombo true }, ?_, orNewCombo_true _ hnh, rfl, rfl⟩
      simp only [hforce, List.getElem?_cons_zero]
    | succ i' =>
      simp only [List.getElem?_cons_succ] at hi ⊢
      -- `x` comes before the first object after the break, so the walk does not pass `j`
      have hx : lt b.endTime x.startTime = false := hfirst 0 x (by omega) (by simp)
      have hcur' : (skipBreaks breaks x.startTime (breaks.length + 1) cur false).1 ≤ j := by
        apply Nat.le_of_not_lt
        intro hlt
        obtain ⟨b', hb', hlt'⟩ := s3 j hcur hlt
        rw [hb] at hb'; cases hb'
        rw [hx] at hlt'; cases hlt'
      exact ih _ i' h (fun y hy => hNh y (by simp [hy])) hcur' hi hafter
        (fun k h' hk hk' => hfirst (k + 1) h' (by omega) (by simpa using hk')) hnh

/-- **first_after_break_new_combo**. If the breaks are listed in non-decreasing end-time order
(pairwise: a later-listed break does not end before an earlier-listed one), then for EVERY break `b`
the first object `h` (in list order) with `b.endTime < h.startTime`, unless it is a hold, has
`new_combo = true` after `post_process_breaks`; its start time and samples are untouched.
(No hypothesis on the order of the objects is needed; in the finaliser they are sorted.) -/
theorem first_after_break_new_combo (N : F → Prop)
    (hle_lt : ∀ x y z : F, N x → N y → N z → lt y x = false → lt y z = true → lt x z = true)
    (breaks : List (BreakPeriod F)) (hs : List (HitObject F P))
    (hNb : ∀ b ∈ breaks, N b.endTime) (hNh : ∀ x ∈ hs, N x.startTime)
    (hsorted : breaks.Pairwise (fun b₁ b₂ => lt b₂.endTime b₁.endTime = false))
    (b : BreakPeriod F) (hb : b ∈ breaks) (i : Nat) (h : HitObject F P) (hi : hs[i]? = some h)
    (hafter : lt b.endTime h.startTime = true)
    (hfirst : ∀ k h', k < i → hs[k]? = some h' → lt b.endTime h'.startTime = false)
    (hnh : isHold h.kind = false) :
    ∃ h', (postProcessBreaks breaks hs 0)[i]? = some h' ∧ kindNewCombo h'.kind = true ∧
      h'.startTime = h.startTime ∧ h'.samples = h.samples := by
  obtain ⟨j, hj, hbj⟩ := List.getElem_of_mem hb
  exact first_after_break_aux N hle_lt breaks hNb hsorted j b (by rw [List.getElem?_eq_getElem hj, hbj])
    hs 0 i h hNh (Nat.zero_le _) hi hafter hfirst hnh

/-- "listed in non-decreasing end-time order" stated for *consecutive* breaks implies the pairwise
form when `≤` (= `¬ >`) is transitive on the values involved. -/
theorem pairwise_of_consecutive (N : F → Prop)
    (hle_trans : ∀ x y z : F, N x → N y → N z → lt y x = false → lt z y = false → lt z x = false)
    (breaks : List (BreakPeriod F)) (hNb : ∀ b ∈ breaks, N b.endTime)
    (hcons : ∀ i b₁ b₂, breaks[i]? = some b₁ → breaks[i + 1]? = some b₂ → lt b₂.endTime b₁.endTime = false) :
    breaks.Pairwise (fun b₁ b₂ => lt b₂.endTime b₁.endTime = false) := by
  induction breaks with
  | nil => exact List.Pairwise.nil
  | cons a rest ih =>
    have hrest := ih (fun b hb => hNb b (by simp [hb]))
      (fun i b₁ b₂ h1 h2 => hcons (i + 1) b₁ b₂ (by simpa using h1) (by simpa using h2))
    refine List.Pairwise.cons ?_ hrest
    -- `a ≤ rest[0] ≤ rest[m]`
    intro c hc
    obtain ⟨m, hm, hcm⟩ := List.getElem_of_mem hc
    cases rest with
    | nil => simp at hm
    | cons r0 rest' =>
      have h0 : lt r0.endTime a.endTime = false := hcons 0 a r0 (by simp) (by simp)
      cases m with
      | zero => simp at hcm; subst hcm; exact h0
      | succ m' =>
        have hr := (List.pairwise_iff_getElem.mp hrest) 0 (m' + 1) (by simp) hm (by omega)
        simp only [List.getElem_cons_zero] at hr
        rw [hcm] at hr
        exact hle_trans _ _ _ (hNb a (by simp)) (hNb r0 (by simp)) (hNb c (by simp [hc])) h0 hr

/-! non-vacuity on the toy scalar `Z` (integers), and the counterexample without the order hypothesis -/

/-- a circle at time `t` without the new-combo flag. -/
def zCircle (t : Int) : HitObject Z Z :=
  { startTime := ⟨t⟩, kind := .circle { pos := ⟨⟨0⟩, ⟨0⟩⟩, newCombo := false, comboOffset := 0 }, samples := [] }
def zHold (t : Int) : HitObject Z Z :=
  { startTime := ⟨t⟩, kind := .hold { posX := ⟨0⟩, duration := ⟨10⟩ }, samples := [] }
def zBreak (s e : Int) : BreakPeriod Z := { startTime := ⟨s⟩, endTime := ⟨e⟩ }

theorem z_le_lt (x y z : Z) (_ : True) (_ : True) (_ : True) (h1 : lt y x = false) (h2 : lt y z = true) : lt x z = true := by
  simp only [Scalar.lt, decide_eq_false_iff_not, decide_eq_true_eq] at *
  omega

theorem z_le_trans (x y z : Z) (_ : True) (_ : True) (_ : True) (h1 : lt y x = false) (h2 : lt z y = false) :
    lt z x = false := by
  simp only [Scalar.lt, decide_eq_false_iff_not] at *
  omega

-- the hypotheses are satisfiable on a non-trivial map: two breaks in order, objects before / between / after
example : ∃ h', (postProcessBreaks [zBreak 100 200, zBreak 300 400] [zCircle 50, zCircle 250, zCircle 260, zHold 450, zCircle 460] 0)[1]?
      = some h' ∧ kindNewCombo h'.kind = true ∧ h'.startTime = (zCircle 250).startTime ∧ h'.samples = (zCircle 250).samples :=
  first_after_break_new_combo (fun _ => True) z_le_lt _ _ (fun _ _ => trivial) (fun _ _ => trivial)
    (pairwise_of_consecutive (fun _ => True) z_le_trans _ (fun _ _ => trivial)
      (by intro i b₁ b₂ h1 h2
          cases i with
          | zero => simp at h1 h2; subst h1 h2; rfl
          | succ i => cases i <;> simp at h1 h2))
    (zBreak 100 200) (by simp) 1 (zCircle 250) rfl rfl
    (by intro k h' hk hk'
        have : k = 0 := by omega
        subst this; simp at hk'; subst hk'; rfl)
    rfl

/-- the clause of the property text, without any hypothesis on the order of the breaks. -/
def first_after_break_statement (F P : Type) [Scalar F] [Scalar P] : Prop :=
  ∀ (breaks : List (BreakPeriod F)) (hs : List (HitObject F P)) (b : BreakPeriod F), b ∈ breaks →
    ∀ (i : Nat) (h : HitObject F P), hs[i]? = some h → lt b.endTime h.startTime = true →
      (∀ k h', k < i → hs[k]? = some h' → lt b.endTime h'.startTime = false) → isHold h.kind = false →
      ∃ h', (postProcessBreaks breaks hs 0)[i]? = some h' ∧ kindNewCombo h'.kind = true

/-- **finding F14**: the unconditional clause is false of `post_process_breaks`. Breaks listed as
`(7464,8164), (16954,17054), (3902,3902)` and one circle at 4601: the circle is the first object after
the third break, but the pointer walk never looks past the first-listed break (8164 ≮ 4601). -/
theorem first_after_break_unconditional_false : ¬ first_after_break_statement Z Z := by
  intro hst
  obtain ⟨h', h1, h2⟩ := hst [zBreak 7464 8164, zBreak 16954 17054, zBreak 3902 3902] [zCircle 4601] (zBreak 3902 3902)
    (by simp) 0 (zCircle 4601) rfl rfl (by intro k h' hk; omega) rfl
  have hrun : (postProcessBreaks [zBreak 7464 8164, zBreak 16954 17054, zBreak 3902 3902] [zCircle 4601] 0)[0]?
      = some (zCircle 4601) := rfl
  rw [hrun] at h1
  cases h1
  cases h2

-- with the same breaks listed in end-time order the circle does get its new combo
example : ((postProcessBreaks [zBreak 3902 3902, zBreak 7464 8164, zBreak 16954 17054] [zCircle 4601] 0).map
    (fun h => kindNewCombo h.kind)) = [true] := rfl

/-! ### `SamplePoint::apply` is idempotent; resolved samples are fixed points of every sample point -/

omit [Scalar F] in
/-- **apply_idempotent**: applying the same sample point twice is the same as applying it once —
unconditionally (the "exact condition" is `True`): every default that `apply` fills in is either a value
that no longer triggers the rule (`bank_specified := true`, a non-zero volume / custom index) or the
value the rule would store again (volume 0 from a point with volume ≤ 0, custom index 0 from a point
with custom index 0). -/
theorem apply_idempotent (sp : SamplePoint F) (s : HitSampleInfo) : sp.apply (sp.apply s) = sp.apply s := by
  cases hn : s.name with
  | file f =>
    unfold SamplePoint.apply
    simp only [hn]
    by_cases h2 : s.volume = 0 <;> by_cases h6 : clampVolume sp.sampleVolume = 0 <;> simp [h2, h6]
  | default n =>
    unfold SamplePoint.apply
    simp only [hn]
    by_cases h1 : s.customSampleBank = 0 <;> by_cases h2 : s.volume = 0 <;> by_cases h3 : s.bankSpecified = true <;>
      by_cases h4 : sp.customSampleBank ≥ 2 <;> by_cases h5 : sp.customSampleBank = 0 <;>
      by_cases h6 : clampVolume sp.sampleVolume = 0 <;> simp [h1, h2, h3, h4, h5, h6, hn]

theorem clampVolume_ne_zero (v : Int) : clampVolume v ≠ 0 ↔ 0 < v := by
  unfold clampVolume; split <;> (try split) <;> omega

omit [Scalar F] in
/-- the exact set of fixed points of `sp.apply`. -/
theorem apply_fixed_iff (sp : SamplePoint F) (s : HitSampleInfo) :
    sp.apply s = s ↔
      match s.name with
      | .default _ => (s.customSampleBank = 0 → sp.customSampleBank = 0) ∧
          (s.volume = 0 → clampVolume sp.sampleVolume = 0) ∧ s.bankSpecified = true
      | .file _ => s.bank = SampleBank.normal ∧ s.suffix = none ∧ (s.volume = 0 → clampVolume sp.sampleVolume = 0) ∧
          s.customSampleBank = 1 ∧ s.bankSpecified = false ∧ s.isLayered = false := by
  obtain ⟨name, bank, suffix, volume, csb, bs, il⟩ := s
  cases name with
  | file f =>
    unfold SamplePoint.apply
    by_cases h2 : volume = 0 <;> simp [h2] <;> (try constructor) <;> (try intro h) <;> simp_all <;> omega
  | default n =>
    unfold SamplePoint.apply
    by_cases h1 : csb = 0 <;> by_cases h2 : volume = 0 <;> by_cases h3 : bs = true <;>
      by_cases h4 : sp.customSampleBank ≥ 2 <;> simp [h1, h2, h3, h4] <;> omega

/-- a sample that no sample point can change any more: custom index, volume and bank are all explicit
(this is what the encoder writes out, hence what the second decode of decode∘encode∘decode reads). -/
def Resolved (s : HitSampleInfo) : Prop :=
  match s.name with
  | .default _ => s.customSampleBank ≠ 0 ∧ s.volume ≠ 0 ∧ s.bankSpecified = true
  | .file _ => s.bank = SampleBank.normal ∧ s.suffix = none ∧ s.volume ≠ 0 ∧ s.customSampleBank = 1 ∧
      s.bankSpecified = false ∧ s.isLayered = false

omit [Scalar F] in
/-- a resolved sample is a fixed point of EVERY sample point. -/
theorem apply_fixed_of_resolved (sp : SamplePoint F) (s : HitSampleInfo) (h : Resolved s) : sp.apply s = s := by
  rw [apply_fixed_iff]
  unfold Resolved at h
  cases hn : s.name with
  | file f => rw [hn] at h; obtain ⟨a, b, c, d, e, f'⟩ := h; exact ⟨a, b, fun h0 => absurd h0 c, d, e, f'⟩
  | default n => rw [hn] at h; obtain ⟨a, b, c⟩ := h; exact ⟨fun h0 => absurd h0 a, fun h0 => absurd h0 b, c⟩

omit [Scalar F] in
/-- applying a sample point with a positive volume (and, for named samples, a non-zero custom index)
resolves the sample — whatever it specified itself. -/
theorem apply_resolves (sp : SamplePoint F) (s : HitSampleInfo)
    (hc : ∀ n, s.name = .default n → s.customSampleBank ≠ 0 ∨ sp.customSampleBank ≠ 0)
    (hv : s.volume ≠ 0 ∨ 0 < sp.sampleVolume) : Resolved (sp.apply s) := by
  have hv' : s.volume ≠ 0 ∨ clampVolume sp.sampleVolume ≠ 0 := hv.imp id (clampVolume_ne_zero _).mpr
  obtain ⟨name, bank, suffix, volume, csb, bs, il⟩ := s
  cases name with
  | file f =>
    unfold SamplePoint.apply Resolved
    by_cases h2 : volume = 0 <;> simp_all
  | default n =>
    have hc' := hc n rfl
    unfold SamplePoint.apply Resolved
    by_cases h1 : csb = 0 <;> by_cases h2 : volume = 0 <;> by_cases h3 : bs = true <;>
      by_cases h4 : sp.customSampleBank ≥ 2 <;> simp [h1, h2, h3, h4] <;>
      first | omega | (simp_all; done) | (simp_all; omega)

omit [Scalar F] in
/-- **why decode∘encode∘decode is stable on samples**: once a sample has been resolved against one
sample point, applying ANY sample point (the same one or the one found on the second decode) changes
nothing. -/
theorem apply_absorbs (sp₁ sp₂ : SamplePoint F) (s : HitSampleInfo)
    (hc : ∀ n, s.name = .default n → s.customSampleBank ≠ 0 ∨ sp₁.customSampleBank ≠ 0)
    (hv : s.volume ≠ 0 ∨ 0 < sp₁.sampleVolume) : sp₂.apply (sp₁.apply s) = sp₁.apply s :=
  apply_fixed_of_resolved sp₂ _ (apply_resolves sp₁ s hc hv)

-- non-vacuity: an unspecified sample against a sample point with volume 70 and custom index 2
example : (∀ n, (HitSampleInfo.new (.default .normal) none 0 0).name = .default n →
      (HitSampleInfo.new (.default .normal) none 0 0).customSampleBank ≠ 0 ∨ (⟨⟨0⟩, .normal, 70, 2⟩ : SamplePoint Z).customSampleBank ≠ 0)
    ∧ ((HitSampleInfo.new (.default .normal) none 0 0).volume ≠ 0 ∨ 0 < (⟨⟨0⟩, .normal, 70, 2⟩ : SamplePoint Z).sampleVolume) :=
  ⟨fun _ _ => Or.inr (by decide), Or.inr (by decide)⟩
-- … and the hypothesis of `apply_absorbs` is needed: volume 0 resolved against a silent point stays 0 and is
-- picked up by the next point
example : (⟨⟨0⟩, .normal, 50, 1⟩ : SamplePoint Z).apply ((⟨⟨0⟩, .normal, 0, 1⟩ : SamplePoint Z).apply
      (HitSampleInfo.new (.default .normal) none 0 0))
    ≠ (⟨⟨0⟩, .normal, 0, 1⟩ : SamplePoint Z).apply (HitSampleInfo.new (.default .normal) none 0 0) := by decide

/-! ### the finalised list is the sorted parsed list, object by object -/

variable [Cvt P F] [Trig F] [Trig P]

/-- element-wise relation between two lists of the same length. -/
inductive Pointwise {α β : Type} (R : α → β → Prop) : List α → List β → Prop
  | nil : Pointwise R [] []
  | cons {a b as bs} : R a b → Pointwise R as bs → Pointwise R (a :: as) (b :: bs)

theorem Pointwise.length_eq {α β : Type} {R : α → β → Prop} {as : List α} {bs : List β} (h : Pointwise R as bs) :
    as.length = bs.length := by
  induction h with
  | nil => rfl
  | cons _ _ ih => simp [ih]

theorem Pointwise.get {α β : Type} {R : α → β → Prop} {as : List α} {bs : List β} (h : Pointwise R as bs) :
    ∀ (i : Nat) (a : α), as[i]? = some a → ∃ b, bs[i]? = some b ∧ R a b := by
  induction h with
  | nil => intro i a hi; simp at hi
  | cons hab _ ih =>
    intro i a hi
    cases i with
    | zero => simp at hi; subst hi; exact ⟨_, by simp, hab⟩
    | succ i' => simpa using ih i' a (by simpa using hi)

theorem Pointwise.comp {α β γ : Type} {R : α → β → Prop} {S : β → γ → Prop} {T : α → γ → Prop}
    (hT : ∀ a b c, R a b → S b c → T a c) {as : List α} {bs : List β} {cs : List γ}
    (h1 : Pointwise R as bs) (h2 : Pointwise S bs cs) : Pointwise T as cs := by
  induction h1 generalizing cs with
  | nil => cases h2; exact .nil
  | cons hab _ ih => cases h2 with | cons hbc h2' => exact .cons (hT _ _ _ hab hbc) (ih h2')

/-- two kinds describe the same object up to what map-level processing may change: the new-combo flag
(only ever raised), and for sliders the velocity and the node sample lists (same number of nodes). -/
def KindSim : HitObjectKind F P → HitObjectKind F P → Prop
  | .circle c, .circle c' => c' = { c with newCombo := c'.newCombo } ∧ (c.newCombo = true → c'.newCombo = true)
  | .slider s, .slider s' =>
      s' = { s with newCombo := s'.newCombo, velocity := s'.velocity, nodeSamples := s'.nodeSamples } ∧
      (s.newCombo = true → s'.newCombo = true) ∧ s'.nodeSamples.length = s.nodeSamples.length
  | .spinner s, .spinner s' => s' = { s with newCombo := s'.newCombo } ∧ (s.newCombo = true → s'.newCombo = true)
  | .hold h, .hold h' => h' = h
  | _, _ => False

/-- same object up to map-level processing: same start time, `KindSim` kinds, and the sample list is the
parsed one with one sample point applied to every sample (so same length, same names). -/
def ObjSim (a b : HitObject F P) : Prop :=
  b.startTime = a.startTime ∧ KindSim a.kind b.kind ∧ ∃ sp : SamplePoint F, b.samples = a.samples.map sp.apply

omit [Scalar F] [Scalar P] [Cvt P F] [Trig F] [Trig P] in
theorem kindSim_orNewCombo (k : HitObjectKind F P) (f : Bool) : KindSim k (k.orNewCombo f) := by
  cases k <;> simp [KindSim, HitObjectKind.orNewCombo] <;> exact Or.inl

omit [Scalar P] [Cvt P F] [Trig F] [Trig P] in
/-- break processing, object by object: nothing but the new-combo flag changes. -/
theorem postProcessBreaks_pointwise (breaks : List (BreakPeriod F)) (hs : List (HitObject F P)) (cur : Nat) :
    Pointwise (fun a b => b.startTime = a.startTime ∧ b.samples = a.samples ∧ KindSim a.kind b.kind)
      hs (postProcessBreaks breaks hs cur) := by
  induction hs generalizing cur with
  | nil => exact .nil
  | cons h rest ih =>
    rw [postProcessBreaks_cons]
    exact .cons ⟨rfl, rfl, kindSim_orNewCombo _ _⟩ (ih _)

/-- what one pass of the finaliser loop may change in a kind: for sliders the velocity and the node
sample lists (same number of nodes); nothing for the other kinds. -/
def FinSim : HitObjectKind F P → HitObjectKind F P → Prop
  | .slider s, .slider s' =>
      s' = { s with velocity := s'.velocity, nodeSamples := s'.nodeSamples } ∧ s'.nodeSamples.length = s.nodeSamples.length
  | k, k' => k' = k

/-- one object through the finaliser loop. -/
theorem finalizeObject_sim (mode : GameMode) (sm : F) (cp : ControlPoints F) (h h' : HitObject F P)
    (bufs bufs' : CurveBuffers P F) (hfin : finalizeObject mode sm cp h bufs = .ok (h', bufs')) :
    h'.startTime = h.startTime ∧ FinSim h.kind h'.kind ∧
    ∃ sp : SamplePoint F, h'.samples = h.samples.map sp.apply := by
  unfold finalizeObject at hfin
  cases hk : h.kind with
  | circle c =>
    simp only [hk, pure, Except.pure, Except.ok.injEq, Prod.mk.injEq] at hfin
    obtain ⟨e, _⟩ := hfin; subst e
    exact ⟨rfl, by simp [FinSim], _, rfl⟩
  | spinner c =>
    simp only [hk, pure, Except.pure, Except.ok.injEq, Prod.mk.injEq] at hfin
    obtain ⟨e, _⟩ := hfin; subst e
    exact ⟨rfl, by simp [FinSim], _, rfl⟩
  | hold c =>
    simp only [hk, pure, Except.pure, Except.ok.injEq, Prod.mk.injEq] at hfin
    obtain ⟨e, _⟩ := hfin; subst e
    exact ⟨rfl, by simp [FinSim], _, rfl⟩
  | slider s =>
    simp only [hk] at hfin
    cases hc : Curve.new curveFuel s.path.mode s.path.controlPoints s.path.expectedDist bufs with
    | error e => simp [hc, bind, Except.bind] at hfin
    | ok r =>
      simp only [hc, bind, Except.bind, pure, Except.pure, Except.ok.injEq, Prod.mk.injEq] at hfin
      obtain ⟨e, _⟩ := hfin; subst e
      exact ⟨rfl, ⟨rfl, applyNodeSamples_length _ _ _ _ _ _⟩, _, rfl⟩

theorem finalizeObjects_pointwise (mode : GameMode) (sm : F) (cp : ControlPoints F) (hs hs' : List (HitObject F P))
    (bufs : CurveBuffers P F) (h : finalizeObjects mode sm cp hs bufs = .ok hs') :
    Pointwise (fun a b => b.startTime = a.startTime ∧ FinSim a.kind b.kind ∧
      ∃ sp : SamplePoint F, b.samples = a.samples.map sp.apply) hs hs' := by
  induction hs generalizing hs' bufs with
  | nil => simp [finalizeObjects, pure, Except.pure] at h; subst h; exact .nil
  | cons x rest ih =>
    simp only [finalizeObjects, bind, Except.bind] at h
    cases hx : finalizeObject mode sm cp x bufs with
    | error e => simp [hx] at h
    | ok r =>
      obtain ⟨x', b'⟩ := r
      simp only [hx] at h
      cases hr : finalizeObjects mode sm cp rest b' with
      | error e => simp [hr] at h
      | ok rest' =>
        simp only [hr, pure, Except.pure] at h
        cases h
        exact .cons (finalizeObject_sim mode sm cp x x' bufs b' hx) (ih rest' b' hr)

omit [Scalar F] [Scalar P] [Cvt P F] [Trig F] [Trig P] in
theorem kindSim_finSim (a b c : HitObjectKind F P) (h1 : KindSim a b) (h2 : FinSim b c) : KindSim a c := by
  cases a <;> cases b <;> simp only [KindSim] at h1 <;> try exact h1.elim
  · simp only [FinSim] at h2; subst h2; simpa only [KindSim] using h1
  · rename_i s s'
    cases c with
    | slider s'' =>
      simp only [FinSim] at h2
      simp only [KindSim]
      obtain ⟨e1, m1, l1⟩ := h1
      obtain ⟨e2, l2⟩ := h2
      refine ⟨?_, ?_, by omega⟩
      · rw [e2, e1]
      · intro hn; rw [e2]; exact m1 hn
    | circle _ => simp only [FinSim] at h2; cases h2
    | spinner _ => simp only [FinSim] at h2; cases h2
    | hold _ => simp only [FinSim] at h2; cases h2
  · simp only [FinSim] at h2; subst h2; simpa only [KindSim] using h1
  · simp only [FinSim] at h2; subst h2; simpa only [KindSim] using h1

/-- **finalize_perm**: the decoded object list is, object by object, the parsed list stably sorted by
start time (a permutation of the parsed objects): same length, same start times in the same order,
the same kind with the same line-level fields — only new-combo flags (raised, never cleared), slider
velocity / node sample defaults and the per-sample defaults differ. -/
theorem finalize_perm (st : HitObjectsState F P) (ho : HitObjects F P) (h : st.finish = .ok ho) :
    (sortByStartTime st.core.hitObjects).Perm st.core.hitObjects ∧
    Pointwise ObjSim (sortByStartTime st.core.hitObjects) ho.hitObjects := by
  refine ⟨sorted_perm _, ?_⟩
  unfold HitObjectsState.finish at h
  simp only [bind, Except.bind, pure, Except.pure] at h
  split at h
  · cases h
  · rename_i objs hobjs
    cases h
    have h1 := postProcessBreaks_pointwise (P := P) st.events.breaks (sortByStartTime st.core.hitObjects) 0
    have h2 := finalizeObjects_pointwise _ _ _ _ _ _ hobjs
    refine Pointwise.comp ?_ h1 h2
    intro a b c ⟨t1, s1, k1⟩ ⟨t2, k2, sp, s2⟩
    exact ⟨by rw [t2, t1], kindSim_finSim _ _ _ k1 k2, sp, by rw [s2, s1]⟩

/-- corollaries in plain terms: nothing is dropped or duplicated, start times are those of the sorted
parsed list, and position `i` of the result is position `i` of the sorted list up to `ObjSim`. -/
theorem finalize_length_times (st : HitObjectsState F P) (ho : HitObjects F P) (h : st.finish = .ok ho) :
    ho.hitObjects.length = st.core.hitObjects.length ∧
    (∀ (i : Nat) (a : HitObject F P), (sortByStartTime st.core.hitObjects)[i]? = some a →
      ∃ b, ho.hitObjects[i]? = some b ∧ ObjSim a b) := by
  obtain ⟨hp, hpw⟩ := finalize_perm st ho h
  exact ⟨by rw [← hpw.length_eq, hp.length_eq], hpw.get⟩

omit [Scalar F] [Scalar P] [Cvt P F] [Trig F] [Trig P] in
theorem finSim_newCombo (b c : HitObjectKind F P) (h : FinSim b c) : kindNewCombo c = kindNewCombo b := by
  cases b with
  | slider s =>
    cases c with
    | slider s' => simp only [FinSim] at h; rw [h.1]; rfl
    | circle _ => simp only [FinSim] at h; cases h
    | spinner _ => simp only [FinSim] at h; cases h
    | hold _ => simp only [FinSim] at h; cases h
  | circle _ => simp only [FinSim] at h; subst h; rfl
  | spinner _ => simp only [FinSim] at h; subst h; rfl
  | hold _ => simp only [FinSim] at h; subst h; rfl

/-- **first_after_break_new_combo, on the decoded map**: if the `[Events]` breaks are listed in
non-decreasing end-time order, then in the decoded `HitObjects` the first object (in the sorted order)
that starts after a break's end carries `new_combo = true`, unless it is a hold. -/
theorem first_after_break_new_combo_decoded (N : F → Prop)
    (hle_lt : ∀ x y z : F, N x → N y → N z → lt y x = false → lt y z = true → lt x z = true)
    (st : HitObjectsState F P) (ho : HitObjects F P) (hfin : st.finish = .ok ho)
    (hNb : ∀ b ∈ st.events.breaks, N b.endTime) (hNh : ∀ x ∈ st.core.hitObjects, N x.startTime)
    (hsorted : st.events.breaks.Pairwise (fun b₁ b₂ => lt b₂.endTime b₁.endTime = false))
    (b : BreakPeriod F) (hb : b ∈ st.events.breaks) (i : Nat) (h : HitObject F P)
    (hi : (sortByStartTime st.core.hitObjects)[i]? = some h)
    (hafter : lt b.endTime h.startTime = true)
    (hfirst : ∀ k h', k < i → (sortByStartTime st.core.hitObjects)[k]? = some h' → lt b.endTime h'.startTime = false)
    (hnh : isHold h.kind = false) :
    ∃ h', ho.hitObjects[i]? = some h' ∧ kindNewCombo h'.kind = true ∧ h'.startTime = h.startTime := by
  have hNs : ∀ x ∈ sortByStartTime st.core.hitObjects, N x.startTime :=
    fun x hx => hNh x ((sorted_perm _).mem_iff.mp hx)
  obtain ⟨m, hm, hmc, hmt, _⟩ := first_after_break_new_combo N hle_lt st.events.breaks _ hNb hNs hsorted b hb i h hi
    hafter hfirst hnh
  unfold HitObjectsState.finish at hfin
  simp only [bind, Except.bind, pure, Except.pure] at hfin
  split at hfin
  · cases hfin
  · rename_i objs hobjs
    cases hfin
    obtain ⟨c, hc, ht, hk, _⟩ := (finalizeObjects_pointwise _ _ _ _ _ _ hobjs).get i m hm
    exact ⟨c, hc, by rw [finSim_newCombo _ _ hk, hmc], by rw [ht, hmt]⟩

end Rosu.C15
