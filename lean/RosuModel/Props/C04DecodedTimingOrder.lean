/-
  Props/C04DecodedTimingOrder.lean — does the `spans` field of `SliderTailOk` (Props/C04DecodedTimingEvents.lean: every span
  end `(A + k·D) + D` with a repeat is finite and `≤ limit`) follow from the `tail` field (`A + n·D` finite and `≤ limit`)?

  * NOT in general — `sliderTail_spans_not_of_tail`: start `2147483582.9999995` (within the limit), duration
    `64.00000059604645`, `n = 2²⁹ + 1` spans (`D = 2⁻²³·(1 + 2⁻²⁷)`): end within the limit, `D ≥ 0`, tail `= 2147483647`
    (the limit, finite) — but the span end of `k = n − 2` is `2147483647 + 2⁻²²`, ABOVE the limit. (The witness of
    `C20.repeat_le_tail_nonneg_statement_false`, Props/C20IeeeOrder2.lean.)
  * YES when the span duration is at least `2⁻¹⁶` ms — **`sliderTailOk_of_tail`**: start within the limit, `1 ≤ n < 2³¹`, end
    within the limit, `0 ≤ D`, tail finite and `≤ limit`, `2⁻¹⁶ ≤ D` ⟹ `SliderTailOk` (the finiteness of the span ends is
    derived, not assumed). Uses `C20.repeat_le_tail_of_span_ge_limit`.
-/
import RosuModel.Props.C04DecodedTimingEvents
import RosuModel.Props.C20IeeeOrder2
namespace Rosu.C04
open Rosu Scalar SliderEvents Rosu.FErr
open Float.Model Float.Model.UnpackedFloat

/-! ## 1. the witness -/

section Witness

def wA : Float := Float.ofBits 0x41DFFFFFEFBFFFFE
def wDur : Float := Float.ofBits 0x4050000002800000
def wN : Int := 536870913

/-- every clause of `SliderTailOk` except `spans` holds on the witness, the start is within the limit, and the span end of
`k = n − 2` exceeds the limit. -/
theorem sliderTail_witness :
    InLimit wA ∧ InLimit (wA + wDur) ∧ Scalar.le (0 : Float) (wDur / (Scalar.ofInt wN : Float)) = true ∧
    wDur / (Scalar.ofInt wN : Float) = Float.ofBits 0x3E80000002000000 ∧
    UpTo (wA + (Scalar.ofInt wN : Float) * (wDur / (Scalar.ofInt wN : Float))) ∧
    wA + (Scalar.ofInt wN : Float) * (wDur / (Scalar.ofInt wN : Float)) = (maxParseValue : Float) ∧
    Scalar.le ((wA + (Scalar.ofInt (536870911 : Int) : Float) * (wDur / (Scalar.ofInt wN : Float))) +
      wDur / (Scalar.ofInt wN : Float)) (maxParseValue : Float) = false := by
  refine ⟨inLimit_of_check ?_, inLimit_of_check ?_, ?_, ?_, upTo_of_check ?_, ?_, ?_⟩ <;> decide +kernel

/-- **`spans` does not follow from `tail`**: the implication "start within the limit, `1 ≤ n < 2³¹`, end within the limit,
`0 ≤ D`, tail finite and `≤ limit` ⟹ `SliderTailOk`" is false. -/
theorem sliderTail_spans_not_of_tail :
    ¬ ∀ (A dur : Float) (n : Int), InLimit A → 1 ≤ n → n < 2 ^ 31 → InLimit (A + dur) →
      Scalar.le (0 : Float) (dur / (Scalar.ofInt n : Float)) = true →
      UpTo (A + (Scalar.ofInt n : Float) * (dur / (Scalar.ofInt n : Float))) → SliderTailOk A dur n := by
  intro h
  obtain ⟨h1, h2, h3, _, h5, _, h7⟩ := sliderTail_witness
  have ok := h wA wDur wN h1 (by decide) (by decide) h2 h3 h5
  have := (ok.spans 536870911 (by decide) (by decide)).2
  rw [this] at h7
  cases h7

end Witness

/-! ## 2. helpers: finiteness from the order -/

theorem add_zero_finite_float (a : Float) (fa : a.isFinite = true) :
    (a + 0).isFinite = true := by
  by_cases h : a = FX.nzero64
  · rw [h]; decide +kernel
  · rw [FX.add_zero_float a h]; exact fa

/-- `x + d` is finite when `0 ≤ d`, `x ≤ X`, `d ≤ C` and `X + C` is finite. -/
theorem finite_add_of_bounds (x d X C : Float) (fx : x.isFinite = true) (fd : d.isFinite = true)
    (h0 : Scalar.le (0 : Float) d = true) (hx : Scalar.le x X = true) (hd : Scalar.le d C = true)
    (fX : X.isFinite = true) (fXC : (X + C).isFinite = true) : (x + d).isFinite = true := by
  have nd := not_nan_of_finite _ fd
  have nxd : Scalar.isNaN (x + d) = false := C20.add_not_nan_of_finite_float _ _ fx nd
  have nXd : Scalar.isNaN (X + d) = false := C20.add_not_nan_of_finite_float _ _ fX nd
  have f0 := add_zero_finite_float x fx
  have lo : Scalar.le (x + 0) (x + d) = true :=
    FTL.add_le_add_left_float x 0 d h0 (not_nan_of_finite _ f0) nxd
  have hi : Scalar.le (x + d) (X + C) = true :=
    FMO.le_trans _ _ _ (C20.add_le_add_right_float x X d hx nxd nXd)
      (FTL.add_le_add_left_float X d C hd nXd (not_nan_of_finite _ fXC))
  exact finite_of_between _ _ _ f0 fXC lo hi

theorem mul_not_nan_of_finite_float' (a c : Float) (ha : a.isFinite = true) (hc : c.isFinite = true) :
    Scalar.isNaN (a * c) = false := by
  show (a * c).toModel.unpack.isNaN = false
  rw [FAM.float_mul_unpack, FAM.repack_isNaN _ (by decide) _
    (FAM.mul_canon Format.binary64 _ _ (FAM.float_canon a) (FAM.float_canon c))]
  have ha' : a.toModel.unpack.isFinite = true := ha
  have hc' : c.toModel.unpack.isFinite = true := hc
  generalize a.toModel.unpack = u at ha'
  generalize c.toModel.unpack = v at hc'
  rcases u with s|_|s|⟨s,m,e,hm⟩ <;> rcases v with s'|_|s'|⟨s',m',e',hm'⟩ <;>
    first
    | (cases ha'; done)
    | (cases hc'; done)
    | rfl
    | exact FMO.roundWithAccuracy_not_nan _ _ _ _ _

theorem zero64_finite (s : Sign) : (FX.zero64 s).isFinite = true := by cases s <;> decide +kernel

theorem toRat_maxParse : toRat (maxParseValue : Float) = 2147483647 := by
  have : (maxParseValue : Float) = Float.ofInt 2147483647 := rfl
  rw [this, C20.toRat_ofInt _ (by decide)]; norm_num

theorem maxParse_finite : (maxParseValue : Float).isFinite = true := by decide +kernel

/-! ## 3. the positive result -/

/-- **sliderTailOk_of_tail** — with a span duration of at least `2⁻¹⁶` ms the `spans` clause of `SliderTailOk` follows from
the `tail` clause: start within the limit, `1 ≤ n < 2³¹`, end within the limit, `0 ≤ D`, tail finite and `≤ limit`,
`2⁻¹⁶ ≤ D` (as a value) ⟹ `SliderTailOk A dur n`. Without the last hypothesis: `sliderTail_spans_not_of_tail`. -/
theorem sliderTailOk_of_tail (A dur : Float) (n : Int) (hA : InLimit A) (hn1 : 1 ≤ n) (hn : n < 2 ^ 31)
    (hend : InLimit (A + dur)) (hspan : Scalar.le (0 : Float) (dur / (Scalar.ofInt n : Float)) = true)
    (htail : UpTo (A + (Scalar.ofInt n : Float) * (dur / (Scalar.ofInt n : Float))))
    (hD : (2 : ℚ) ^ (-16 : Int) ≤ toRat (dur / (Scalar.ofInt n : Float))) : SliderTailOk A dur n := by
  refine ⟨hend, hspan, htail, fun k hk0 hk2 => ?_⟩
  let p : Params Float := ⟨A, dur / (Scalar.ofInt n : Float), 0, 0, 0, n⟩
  generalize hDd : dur / (Scalar.ofInt n : Float) = D at *
  have hp : p = ⟨A, D, 0, 0, 0, n⟩ := by simp only [p, hDd]
  obtain ⟨fT, hTL⟩ := htail
  change (A + Float.ofInt n * D).isFinite = true at fT
  change Scalar.le (A + Float.ofInt n * D) (maxParseValue : Float) = true at hTL
  show UpTo ((A + Float.ofInt k * D) + D)
  obtain ⟨fA, fmn⟩ := finite_of_add_finite _ _ fT
  obtain ⟨fn, fD⟩ := finite_of_mul_finite _ _ fmn
  have nD := not_nan_of_finite _ fD
  -- f64::from(k) is finite, between 0 and f64::from(n)
  have hk_n : Scalar.le (Float.ofInt k) (Float.ofInt n) = true := by
    rw [FIE.le_ofInt k n (C20.natAbs_lt_of_range k hk0 (by omega)) (C20.natAbs_lt_of_range n (by omega) hn)]
    exact decide_eq_true (by omega)
  have h0_k := C20.ofInt_nonneg_float k hk0 (by omega)
  have fk : (Float.ofInt k).isFinite = true := finite_of_between 0 _ _ rfl fn h0_k hk_n
  -- the product k·D
  have nmk : Scalar.isNaN (Float.ofInt k * D) = false := mul_not_nan_of_finite_float' _ _ fk fD
  have hmk_mn : Scalar.le (Float.ofInt k * D) (Float.ofInt n * D) = true :=
    FTL.mul_le_mul_right_float _ _ D hk_n hspan nmk (not_nan_of_finite _ fmn)
  have hz : (0 : Float) * D = FX.zero64 (FX.sign64 D) := FX.zero_mul_float D fD
  have hz_mk : Scalar.le ((0 : Float) * D) (Float.ofInt k * D) = true :=
    FTL.mul_le_mul_right_float 0 _ D h0_k hspan (by rw [hz]; exact C20.zero64_not_nan _) nmk
  have fmk : (Float.ofInt k * D).isFinite = true :=
    finite_of_between _ _ _ (by rw [hz]; exact zero64_finite _) fmn hz_mk hmk_mn
  have h0_mk : Scalar.le (0 : Float) (Float.ofInt k * D) = true := by
    rw [hz, C20.le_zero64_iff] at hz_mk; exact hz_mk
  -- the span start x_k = A + k·D
  have nxk : Scalar.isNaN (A + Float.ofInt k * D) = false := C20.add_not_nan_of_finite_float _ _ fA nmk
  have fA0 := add_zero_finite_float A fA
  have hxk_lo : Scalar.le (A + 0) (A + Float.ofInt k * D) = true :=
    FTL.add_le_add_left_float A 0 _ h0_mk (not_nan_of_finite _ fA0) nxk
  have hxk_T : Scalar.le (A + Float.ofInt k * D) (A + Float.ofInt n * D) = true :=
    FTL.add_le_add_left_float A _ _ hmk_mn nxk (not_nan_of_finite _ fT)
  have fxk : (A + Float.ofInt k * D).isFinite = true := finite_of_between _ _ _ fA0 fT hxk_lo hxk_T
  have hxk_L : Scalar.le (A + Float.ofInt k * D) (maxParseValue : Float) = true := FMO.le_trans _ _ _ hxk_T hTL
  -- D ≤ n·D ≤ 4·limit
  have h1n : Scalar.le (Float.ofInt 1) (Float.ofInt n) = true := by
    rw [FIE.le_ofInt 1 n (by decide) (C20.natAbs_lt_of_range _ (by omega) hn)]
    exact decide_eq_true hn1
  have hD_mn : Scalar.le D (Float.ofInt n * D) = true := by
    have := FTL.mul_le_mul_right_float _ _ D h1n hspan
      (by rw [C20.ofInt_one, FX.one_mul_float]; exact nD) (not_nan_of_finite _ fmn)
    rwa [C20.ofInt_one, FX.one_mul_float] at this
  have nL : Scalar.isNaN (-(maxParseValue : Float)) = false := by decide +kernel
  have fnL : (-(maxParseValue : Float)).isFinite = true := by decide +kernel
  have low : Scalar.le (-(maxParseValue : Float)) A = true := FMO.le_of_not_lt A _ hA.2.2 nL hA.1
  have hmn_C : Scalar.le (Float.ofInt n * D) (8589934588 : Float) = true := by
    rcases FMO.le_total (Float.ofInt n * D) (8589934588 : Float) (not_nan_of_finite _ fmn) (by decide +kernel) with h | h
    · exact h
    · exfalso
      have n1 : Scalar.isNaN (-(maxParseValue : Float) + Float.ofInt n * D) = false :=
        C20.add_not_nan_of_finite_float _ _ fnL (not_nan_of_finite _ fmn)
      have a1 : Scalar.le (-(maxParseValue : Float) + (8589934588 : Float)) (-(maxParseValue : Float) + Float.ofInt n * D)
          = true := FTL.add_le_add_left_float _ _ _ h (by decide +kernel) n1
      have a2 : Scalar.le (-(maxParseValue : Float) + Float.ofInt n * D) (A + Float.ofInt n * D) = true :=
        C20.add_le_add_right_float _ _ _ low n1 (not_nan_of_finite _ fT)
      have a3 := FMO.le_trans _ _ _ (FMO.le_trans _ _ _ a1 a2) hTL
      have : Scalar.le (-(maxParseValue : Float) + (8589934588 : Float)) (maxParseValue : Float) = false := by
        decide +kernel
      rw [a3] at this
      cases this
  -- finiteness of the span end
  have frk : ((A + Float.ofInt k * D) + D).isFinite = true :=
    finite_add_of_bounds _ D (maxParseValue : Float) (8589934588 : Float) fxk fD hspan hxk_L
      (FMO.le_trans _ _ _ hD_mn hmn_C) maxParse_finite (by decide +kernel)
  refine ⟨frk, ?_⟩
  -- magnitudes, as values
  have vD := toRat_nonneg _ hspan fD
  have vA_hi : toRat A ≤ 2147483647 := by
    have := toRat_le_of_le A _ fA maxParse_finite (FMO.le_of_not_lt _ A (by decide +kernel) hA.2.2 hA.2.1)
    rwa [toRat_maxParse] at this
  have vA_lo : -2147483647 ≤ toRat A := by
    have := toRat_le_of_le _ A fnL fA low
    rwa [toRat_neg, toRat_maxParse] at this
  have vT : toRat (A + Float.ofInt n * D) ≤ 2147483647 := by
    have := toRat_le_of_le _ _ fT maxParse_finite hTL
    rwa [toRat_maxParse] at this
  have hAabs : |toRat A| ≤ 2147483647 := abs_le.mpr ⟨vA_lo, vA_hi⟩
  have hfT' : (tailEvent (⟨A, D, 0, 0, 0, n⟩ : Params Float)).time.isFinite = true := fT
  have herr := (abs_le.mp (C20.tail_time_err_float (⟨A, D, 0, 0, 0, n⟩ : Params Float) (by show 0 ≤ n; omega) hn
    hfT' hspan)).1
  have herr' : -(3 * (2 : ℚ) ^ (-53 : Int) * (|toRat A| + (n : ℚ) * toRat D) + (2 : ℚ) ^ (-1074 : Int)) ≤
      toRat (A + Float.ofInt n * D) - (toRat A + (n : ℚ) * toRat D) := herr
  have hnD0 : 0 ≤ (n : ℚ) * toRat D := mul_nonneg (by exact_mod_cast (by omega : 0 ≤ n)) vD
  have h74 : (2 : ℚ) ^ (-1074 : Int) ≤ 1 := by
    have : (2 : ℚ) ^ (-1074 : Int) ≤ (2 : ℚ) ^ (0 : Int) := zpow_le_zpow_right₀ (by norm_num) (by norm_num)
    simpa using this
  have hX0 : 0 ≤ |toRat A| + (n : ℚ) * toRat D := by positivity
  have hu : 3 * (2 : ℚ) ^ (-53 : Int) * (|toRat A| + (n : ℚ) * toRat D) ≤
      (1 / 100) * (|toRat A| + (n : ℚ) * toRat D) :=
    mul_le_mul_of_nonneg_right (by norm_num) hX0
  have hM : |toRat A| + (n : ℚ) * toRat D ≤ (2 : ℚ) ^ (33 : Int) := by
    have e : (2 : ℚ) ^ (33 : Int) = 8589934592 := by norm_num
    rw [e]
    generalize 3 * (2 : ℚ) ^ (-53 : Int) * (|toRat A| + (n : ℚ) * toRat D) = t at herr' hu
    generalize (2 : ℚ) ^ (-1074 : Int) = tiny at herr' h74
    generalize toRat (A + Float.ofInt n * D) = T at herr' vT
    linarith
  have hfr' : (repeatEvent (⟨A, D, 0, 0, 0, n⟩ : Params Float) k).time.isFinite = true := frk
  have := C20.repeat_le_tail_of_span_ge_limit (⟨A, D, 0, 0, 0, n⟩ : Params Float) k hk0 hk2 hn hspan hfr' hfT' hM hD
  exact FMO.le_trans _ _ _ this hTL

/-- non-vacuity: start `1000`, duration `714.2857142857142`, two spans (`D = 357.1428571428571`). -/
example : SliderTailOk (1000 : Float) (Float.ofBits 0x4086524924924924) 2 := by
  refine sliderTailOk_of_tail _ _ 2 (inLimit_of_check (by decide +kernel)) (by decide) (by decide)
    (inLimit_of_check (by decide +kernel)) (by decide +kernel) (upTo_of_check (by decide +kernel)) ?_
  have hd : Float.ofBits 0x4086524924924924 / (Scalar.ofInt (2 : Int) : Float) = Float.ofBits 0x4076524924924924 := by
    decide +kernel
  have c : (Float.ofBits 0x4076524924924924).toModel.unpack = .finite .positive 6282923587291428 (-44) (by decide) := by
    rw [FM.float_unpack_ofBits _ (by decide)]; rfl
  rw [hd, toRat_of_unpack c]
  norm_num [sgnQ]

end Rosu.C04
