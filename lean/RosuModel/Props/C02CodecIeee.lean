/-
  Props/C02CodecIeee.lean — C02, the number codec for the IEEE instances WITHOUT runtime hypotheses.
  Props/C02Codec.lean derives the codec laws for the driver's `Float` / `Float32` from `FloatBitsLaw` / `Float32BitsLaw`
  ("`ofBits (toBits x) = x` and `toBits x` is not a NaN pattern, for non-NaN `x`"), stated as hypotheses because the design
  assumed Lean's floats to be opaque. In Lean 4.33 they are not: `Float` is a structure over the logical model
  `Float.Model` and `ofBits` / `toBits` / `isNaN` unfold. Lemmas/FloatModelBits.lean proves the pack / unpack theory of that
  model; here the hypotheses are discharged:
  * `floatBitsLaw : FloatBitsLaw`, `float32BitsLaw : Float32BitsLaw`;
  * `codecLaws_float_ieee`, `codecLaws_float32_ieee`: `CodecLaws` for the driver's instances, unconditionally;
  * `editor_/difficulty_/events_block_roundtrip_ieee'`: the section round trips without the bit-cast hypotheses;
  * `floatOfIntLaw : FloatOfIntLaw` (Lemmas/FloatModelOfInt.lean: `Float.ofInt z` = `z.toUInt64.toFloat * 1.0` is exact in
    the model for `|z| < 2^53` and has the pattern `roundRat fmt64 |z| 1` that `parseBits` assigns to the digits of `z`),
    hence `intPrintLaw_float_ieee : IntPrintLaw Float` and `general_block_roundtrip_ieee'`, unconditionally.
-/
import RosuModel.Props.C02Codec
import RosuModel.Lemmas.FloatModelBits
import RosuModel.Lemmas.FloatModelOfInt
namespace Rosu.C02
open Rosu Encode EncodeLines C11 FCL

/-- **the bit-cast law of `Float` is a theorem** of Lean's logical float model. -/
theorem floatBitsLaw : FloatBitsLaw :=
  fun x hx => ⟨FM.float_ofBits_toBits x, FM.float_not_nan_pattern x hx⟩

/-- **the bit-cast law of `Float32` is a theorem.** -/
theorem float32BitsLaw : Float32BitsLaw :=
  fun x hx => ⟨FM.float32_ofBits_toBits x, FM.float32_not_nan_pattern x hx⟩

/-- **the codec laws for the driver's `Float`** on the non-NaN values — no hypothesis. -/
theorem codecLaws_float_ieee : CodecLaws Float (fun x => x.isNaN = false) := codecLaws_float floatBitsLaw

/-- **the codec laws for the driver's `Float32`** on the non-NaN values — no hypothesis. -/
theorem codecLaws_float32_ieee : CodecLaws Float32 (fun x => x.isNaN = false) := codecLaws_float32 float32BitsLaw

/-- `parse (print x) = some x` for every non-NaN `Float`, spelled out. -/
theorem float_parse_print (x : Float) (hx : x.isNaN = false) : Scalar.parse (Scalar.print x) = some x :=
  codecLaws_float_ieee.parse_print x hx

theorem float32_parse_print (x : Float32) (hx : x.isNaN = false) : Scalar.parse (Scalar.print x) = some x :=
  codecLaws_float32_ieee.parse_print x hx

/-! ### the section round trips for the IEEE instances, without the bit-cast hypotheses -/

theorem editor_block_roundtrip_ieee' (e : Editor Float)
    (he : RtEditor.RepEditor (fun x : Float => x.isNaN = false) e) :
    Accepts parseEditor (Editor.default : Editor Float) (RtEditor.decodedLines e) ∧
    runSection parseEditor Editor.default (RtEditor.decodedLines e) = e :=
  editor_block_roundtrip_ieee floatBitsLaw e he

theorem difficulty_block_roundtrip_ieee' (d : Difficulty Float Float32)
    (hd : RtDifficulty.RepDifficulty (fun x : Float => x.isNaN = false) (fun x : Float32 => x.isNaN = false) d) :
    Accepts parseDifficulty (DifficultyState.create : DifficultyState Float Float32) (RtDifficulty.decodedLines d) ∧
    (runSection parseDifficulty (DifficultyState.create : DifficultyState Float Float32)
      (RtDifficulty.decodedLines d)).difficulty = d :=
  difficulty_block_roundtrip_ieee floatBitsLaw float32BitsLaw d hd

theorem events_block_roundtrip_ieee' (e : Events Float)
    (he : RtEvents.RepEvents (fun x : Float => x.isNaN = false) e) :
    Accepts parseEvents (Events.default : Events Float) (RtEvents.decodedLines e) ∧
    runSection parseEvents (Events.default : Events Float) (RtEvents.decodedLines e) = e :=
  events_block_roundtrip_ieee floatBitsLaw e he

/-! ### `Float.ofInt` -/

/-- **`Float.ofInt z` has the bit pattern `intBits fmt64 z`** for every `|z| < 2^53` (model-level theorem). -/
theorem float_ofInt_bits (z : Int) (hz : z.natAbs < 2 ^ 53) : (Float.ofInt z).toBits.toNat = intBits fmt64 z :=
  FM.float_ofInt_bits z hz

/-- **the `ofInt` law of `Float` is a theorem.** -/
theorem floatOfIntLaw : FloatOfIntLaw := by
  intro z h1 h2
  apply FM.float_ofInt_bits
  unfold i32Max at *
  omega

/-- **`IntPrintLaw` for the driver's `Float`** (integral values in the `i32` range print like integers) — no hypothesis. -/
theorem intPrintLaw_float_ieee : IntPrintLaw Float := intPrintLaw_float floatOfIntLaw

/-- every integer below `2^53` in absolute value prints as its digits through `Float.ofInt`. -/
theorem float_print_ofInt (z : Int) (hz : z.natAbs < 2 ^ 53) : Scalar.print (Float.ofInt z) = intDigits z := by
  show printBits fmt64 (Float.ofInt z).toBits.toNat = intDigits z
  rw [FM.float_ofInt_bits z hz]
  exact printBits_intBits_f64 z hz

theorem general_block_roundtrip_ieee' (g : GeneralState Float Float32)
    (ss : SampleBank) (hg : RtGeneral.RepGeneral (fun x : Float32 => x.isNaN = false) g) :
    Accepts RtGeneral.generalStep (GeneralState.default : GeneralState Float Float32) (RtGeneral.decodedLines g ss) ∧
    runSection RtGeneral.generalStep (GeneralState.default : GeneralState Float Float32) (RtGeneral.decodedLines g ss) =
      RtGeneral.preservedGeneral g ss :=
  general_block_roundtrip_ieee floatOfIntLaw float32BitsLaw g ss hg

end Rosu.C02
