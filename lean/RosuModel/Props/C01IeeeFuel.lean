/-
  Props/C01IeeeFuel.lean — C01 `encode_total` on decoded maps, the **tick-loop fuel** in IEEE binary64: the tick distance
  `Beatmap::encode` hands to `SliderEventsIter::new` for a slider of a DECODED map is `+∞` (ticks off) or a number
  `≥ 4.9e-7 > 2⁻³⁶`, so by `C20.tick_loop_terminates_float` the `while` loop of `generate_ticks` terminates: the
  `.error .fuel` of the model's tick loop is an artefact of the fixed model fuel, not a hang of the Rust code.
  (Curve flattening fuel — Bézier subdivision, `thetaLoop` — is not treated here.)

  1. ranges of the factors on decoded maps (every byte string):
     `decoded_control_points_range_float` (beat length `[6, 60000]`, slider velocity `[0.1, 10]`, from C12's
     `line_ordinary` through the framing invariant), `decoded_difficulty_range_float` (slider multiplier `[0.4, 3.6]`,
     tick rate `[0.5, 8]`, from the `Decoded` invariant), `decoded_velocity_range_float` (every slider's stored
     velocity in `[6.67e-6, 600]`, through the finaliser; any mode);
  2. **`decoded_tick_dist_bounds_float`**: for every slider of a decoded map, `osuTickDist` (= the `tick_dist` of
     `slider_events`) is `+∞` or in `[osuLo, osuHi] ≈ [5e-7, 7.2e8]`, `catchTickDist` (`juicestream_events`) in `[0.5, 7200]`;
     no hypothesis is left (the lookups of the encoder need not even be the ones the finaliser did);
  3. `tick_loop_terminates_of_ge_float`: after `Params.new` with `2⁻³⁶ ≤ tick_dist` (un-clamped, `+∞` included) and a
     velocity in range, some fuel suffices — the clamp `tick_dist.clamp(0, len)` can lower the distance below `2⁻³⁶`
     only to `len` itself, and then the first loop test `d >= len − min_dist` stops the loop;
  4. `decoded_repeat_nonneg`: `repeat_count ≥ 0` for every decoded slider (span count `≥ 1`, the domain of `C20.stream_shape`);
  5. **`encode_decoded_tick_fuel_float`**: for every slider of a decoded map and every curve distance, whenever
     `SliderEventsIter::new` accepts the parameters `encode` builds (osu!: `osuTickDist`, catch: `catchTickDist`; it
     rejects them only by the `clamp` panic of C01Ieee) some fuel suffices for the tick loop;
     **`encode_decoded_slider_events_fuel_float`**: `sliderEventListWith` (the model's `sliderEventList` with its two
     fuels as parameters, `sliderEventList_eq_with`) does not end in `.error .fuel` for suitable fuels;
     `collectObject_fuel_cases`: a `.error .fuel` of `collect_samples` comes from the curve code or from exactly these
     `sliderEventList` calls (`osuSliderSamples_fuel_iff`, `catchSliderSamples_fuel_iff`).
  What the theorems do NOT say: that the model's fixed `eventsFuel = 10⁷` suffices (the proven lower bound `osuLo ≈ 5e-7`
  with `len ≤ 10⁵` still allows `2·10¹¹` turns per span — the Rust loop terminates, possibly after a long time).
-/
import RosuModel.Props.C01Ieee
import RosuModel.Props.C04Ieee
import RosuModel.Props.C12Ieee
import RosuModel.Props.C20IeeeTicks
import RosuModel.Lemmas.TickDistBound
import RosuModel.Lemmas.RtTimingDecoded
import RosuModel.Props.C14Grammar
namespace Rosu.C01
open Rosu Rosu.Encode Rosu.TDB Rosu.DecodedInv
set_option linter.unusedSectionVars false

/-! ## 1. ranges on decoded maps -/

/-- beat length in `[6, 60000]`, slider velocity in `[0.1, 10]`, both numbers (no condition on effect / sample
points, so the predicate does not depend on the mode in force). -/
def rangePred : C12.PointPred Float :=
  { t := fun p => C12.Between (6 : Float) 60000 p.beatLen,
    d := fun p => C12.Between (0.1 : Float) 10 p.sliderVelocity,
    e := fun _ => True,
    s := fun _ => True }

/-- an accepted `[TimingPoints]` line stores values inside the clamps, whatever the mode. -/
theorem accepted_line_range (g : GeneralState Float Float32) (mode : GameMode) (s : Str) (l : TpLine Float)
    (h : parseTpFields g s = .ok l) : C12.LineAll rangePred mode l := by
  obtain ⟨ht, hb, _, _, hs⟩ := C12.accepted_line_numbers h
  have := C12.line_ordinary C12.nanLaws_float C12.tpClampLaws_float mode l ht.2.2 hb hs
  exact ⟨fun htc => (this.t htc).2, this.d.2, trivial, trivial⟩

theorem range_inv_parseTimingPoints {st : TimingPointsState Float Float32} (h : C12.Inv rangePred st) (line : Str) :
    C12.Inv rangePred (parseTimingPoints st line).2 := by
  unfold parseTimingPoints
  cases hp : parseTpFields st.general line with
  | error e => exact h
  | ok l => exact C12.inv_applyTpLine h l (accepted_line_range st.general _ line l hp)

theorem range_inv_beatmap_step (s : Section) (st : BeatmapState Float Float32) (l : Str)
    (h : C12.Inv rangePred st.hitObjects.timingPoints) :
    C12.Inv rangePred (BeatmapState.step s st l).hitObjects.timingPoints := by
  cases s
  case general => exact C12.inv_parseGeneral h l
  case timingPoints => exact range_inv_parseTimingPoints h l
  all_goals exact h

section Finish
variable [Trig Float32]

/-- the pieces of the finished map the finaliser loop works with. -/
theorem finish_objects (st : BeatmapState Float Float32) (m : Beatmap Float Float32) (h : st.finish = .ok m) :
    m.controlPoints = st.hitObjects.timingPoints.finish.2 ∧
    m.difficulty = st.hitObjects.difficulty.difficulty ∧
    ∃ pre : List (HitObject Float Float32),
      finalizeObjects m.general.mode m.difficulty.sliderMultiplier m.controlPoints pre emptyBuffers = .ok m.hitObjects := by
  unfold BeatmapState.finish at h
  cases hho : st.hitObjects.finish with
  | error e => simp [hho, bind, Except.bind] at h
  | ok ho =>
    simp only [hho, bind, Except.bind, pure, Except.pure] at h
    injection h with h
    subst h
    unfold HitObjectsState.finish at hho
    simp only [bind, Except.bind, pure, Except.pure] at hho
    split at hho
    · cases hho
    · rename_i objs hobjs
      injection hho with hho
      subst hho
      exact ⟨rfl, rfl, _, hobjs⟩

/-- **the control points of a decoded map are inside the clamps** (every byte string): beat lengths in `[6, 60000]`,
slider velocities in `[0.1, 10]`, none a NaN. -/
theorem decoded_control_points_range_float (bs : List UInt8) (st : BeatmapState Float Float32)
    (m : Beatmap Float Float32) (h1 : decodeBytes beatmapDecoder bs = .ok st) (h2 : st.finish = .ok m) :
    C12.CpAll rangePred m.controlPoints := by
  obtain ⟨ls, rfl, _⟩ := decodeBytes_lines _ bs st h1
  have hinv := RtTiming.frame_invariant (beatmapDecoder : LineDecoder (BeatmapState Float Float32))
    (fun st => C12.Inv rangePred st.hitObjects.timingPoints) (fun _ => C12.inv_create rangePred)
    (fun s st l hI => range_inv_beatmap_step s st l hI) ls
  rw [(finish_objects _ m h2).1]
  exact (C12.inv_finish hinv).2

/-- a value within the parse limit that `f64::clamp` left inside `[lo, hi]` is in `[lo, hi]` in the ordinary sense. -/
theorem btw_of_inLimit (lo hi x : Float) (hx : InLimit x) (h1 : Scalar.lt x lo = false) (h2 : Scalar.lt hi x = false)
    (hok : okB lo hi = true) : Btw lo hi x :=
  Btw.of_le
    (FMO.le_of_not_lt x lo hx.2.2 (FMO.not_nan_of_lt (okB_spec hok).1).2 h1)
    (FMO.le_of_not_lt hi x (okB_spec hok).2.not_nan hx.2.2 h2) hok

/-- **the difficulty of a decoded map**: slider multiplier in `[0.4, 3.6]`, slider tick rate in `[0.5, 8]`. -/
theorem decoded_difficulty_range_float (bs : List UInt8) (st : BeatmapState Float Float32)
    (m : Beatmap Float Float32) (h1 : decodeBytes beatmapDecoder bs = .ok st) (h2 : st.finish = .ok m) :
    Btw 0.4 3.6 m.difficulty.sliderMultiplier ∧ Btw 0.5 8 m.difficulty.sliderTickRate := by
  have hd := (C04.decoded_map_inv_float bs st m h1 h2).difficulty
  exact ⟨btw_of_inLimit _ _ _ hd.sm hd.smIn.1 hd.smIn.2 (by decide +kernel),
    btw_of_inLimit _ _ _ hd.tr hd.trIn.1 hd.trIn.2 (by decide +kernel)⟩

end Finish

/-! ### the lookups of the finaliser and of the encoder -/

theorem btw_of_between {lo hi x : Float} (h : C12.Between lo hi x) (hok : okB lo hi = true) : Btw lo hi x :=
  Btw.of_le h.2.1 h.2.2 hok

theorem lookupSaturating_mem {α : Type} (key : α → Int) (t : Int) (l : List α) (p : α)
    (h : lookupSaturating key t l = some p) : p ∈ l := by
  unfold lookupSaturating at h
  split at h <;> exact List.mem_of_getElem? h

theorem lookupChecked_mem {α : Type} (key : α → Int) (t : Int) (l : List α) (p : α)
    (h : lookupChecked key t l = some p) : p ∈ l := by
  unfold lookupChecked at h
  split at h
  · exact List.mem_of_getElem? h
  · split at h
    · cases h
    · exact List.mem_of_getElem? h

/-- the beat length in force at any time (default `1000`) is in `[6, 60000]`. -/
theorem beatLen_lookup_btw (cp : ControlPoints Float) (hcp : C12.CpAll rangePred cp) (t : Float) :
    Btw 6 60000 (((cp.timingPointAt t).map (·.beatLen)).getD (1000 : Float)) := by
  cases h : cp.timingPointAt t with
  | none =>
    exact Btw.weaken (lo' := 6) (hi' := 60000) (Btw.const (1000 : Float) (by decide +kernel)) (by decide +kernel)
      (by decide +kernel) (by decide +kernel)
  | some p => exact btw_of_between (hcp.t p (lookupSaturating_mem _ _ _ p h)) (by decide +kernel)

/-- the slider velocity in force at any time (default `1`) is in `[0.1, 10]`. -/
theorem sv_lookup_btw (cp : ControlPoints Float) (hcp : C12.CpAll rangePred cp) (t : Float) :
    Btw 0.1 10 (((cp.difficultyPointAt t).map (·.sliderVelocity)).getD (1 : Float)) := by
  cases h : cp.difficultyPointAt t with
  | none =>
    exact Btw.weaken (lo' := 0.1) (hi' := 10) (Btw.const (1 : Float) (by decide +kernel)) (by decide +kernel)
      (by decide +kernel) (by decide +kernel)
  | some p => exact btw_of_between (hcp.d p (lookupChecked_mem _ _ _ p h)) (by decide +kernel)

/-! ### through the finaliser: the stored velocity -/

section Velocity
variable [Trig Float32]

/-- one pass of the finaliser loop stores a velocity in `[velLo, velHi]` in every slider. -/
theorem finalizeObjects_velocity (mode : GameMode) (sm : Float) (cp : ControlPoints Float)
    (hsm : Btw 0.4 3.6 sm) (hcp : C12.CpAll rangePred cp) :
    ∀ (hs hs' : List (HitObject Float Float32)) (bufs : CurveBuffers Float32 Float),
      finalizeObjects mode sm cp hs bufs = .ok hs' →
      ∀ h' ∈ hs', ∀ s', h'.kind = .slider s' → Btw velLo velHi s'.velocity := by
  intro hs
  induction hs with
  | nil =>
    intro hs' bufs h
    simp [finalizeObjects, pure, Except.pure] at h
    subst h
    intro h' hh'; cases hh'
  | cons x rest ih =>
    intro hs' bufs h
    simp only [finalizeObjects, bind, Except.bind] at h
    cases hx : finalizeObject mode sm cp x bufs with
    | error e => simp [hx] at h
    | ok r =>
      obtain ⟨x', b'⟩ := r
      simp only [hx] at h
      cases hr : finalizeObjects mode sm cp rest b' with
      | error e => simp [hr] at h
      | ok rest' =>
        simp only [hr, pure, Except.pure] at h
        cases h
        intro h' hh' s' hk'
        rcases List.mem_cons.mp hh' with rfl | hh'
        · cases hk : x.kind with
          | slider s =>
            obtain ⟨_, _, _, _, hkind, _⟩ := C15.slider_finalized mode sm cp x s bufs hk h' b' hx
            rw [hkind] at hk'
            have hs' := HitObjectKind.slider.inj hk'
            rw [← hs']
            exact velocity_btw sm _ _ mode hsm (beatLen_lookup_btw cp hcp x.startTime)
          | circle c =>
            have := (C15.finalizeObject_sim mode sm cp x h' bufs b' hx).2.1
            rw [hk, hk'] at this; cases this
          | spinner c =>
            have := (C15.finalizeObject_sim mode sm cp x h' bufs b' hx).2.1
            rw [hk, hk'] at this; cases this
          | hold c =>
            have := (C15.finalizeObject_sim mode sm cp x h' bufs b' hx).2.1
            rw [hk, hk'] at this; cases this
        · exact ih rest' b' hr h' hh' s' hk'

/-- **the velocity of every slider of a decoded map** is in `[velLo, velHi] = [100·0.4/(60000·100), 100·3.6/(6·0.1)]`
`≈ [6.67e-6, 600]` — every byte string, every mode (the `bpm_multiplier` is in `[0.1, 100]` whatever is stored). -/
theorem decoded_velocity_range_float (bs : List UInt8) (st : BeatmapState Float Float32)
    (m : Beatmap Float Float32) (h1 : decodeBytes beatmapDecoder bs = .ok st) (h2 : st.finish = .ok m) :
    ∀ h ∈ m.hitObjects, ∀ s, h.kind = .slider s → Btw velLo velHi s.velocity := by
  obtain ⟨_, _, pre, hpre⟩ := finish_objects st m h2
  exact finalizeObjects_velocity _ _ _ (decoded_difficulty_range_float bs st m h1 h2).1
    (decoded_control_points_range_float bs st m h1 h2) pre _ _ hpre

end Velocity

/-! ## 2. the tick distance the encoder computes -/

section Defs
variable {F P : Type} [Scalar F] [Scalar P] [Cvt P F] [Trig F] [Trig P]

/-- the `tick_dist` of `slider_events` (osu! mode), as `osuSliderSamples` computes it. -/
def osuTickDist (m : Beatmap F P) (h : HitObject F P) (s : HitObjectSlider F P) : F :=
  let cp := m.controlPoints
  let beatLen := ((cp.timingPointAt h.startTime).map (·.beatLen)).getD (1000 : F)
  let (sv, genTicks) : F × Bool := match cp.difficultyPointAt h.startTime with
    | some p => (p.sliderVelocity, p.generateTicks) | none => ((1 : F), true)
  let mult : F := if m.formatVersion < 8 then Scalar.recip sv else 1
  let scoringDist := s.velocity * beatLen
  if genTicks then scoringDist / m.difficulty.sliderTickRate * mult else infinity

/-- the `tick_dist` of `juicestream_events` (catch mode), as `catchSliderSamples` computes it. -/
def catchTickDist (m : Beatmap F P) (h : HitObject F P) : F :=
  let cp := m.controlPoints
  let sv : F := ((cp.difficultyPointAt h.startTime).map (·.sliderVelocity)).getD (1 : F)
  let mult : F := if m.formatVersion < 8 then Scalar.recip sv else 1
  (Cvt.up (100 : P) : F) * m.difficulty.sliderMultiplier / m.difficulty.sliderTickRate * mult

/-- `osuSliderSamples` runs out of fuel exactly when its `sliderEventList` call does, and that call receives
`osuTickDist`. -/
theorem osuSliderSamples_fuel_iff (m : Beatmap F P) (h : HitObject F P) (s : HitObjectSlider F P) (dist duration : F)
    (buf : List (SliderEvents.SliderEvent F)) :
    osuSliderSamples m h s dist duration buf = .error .fuel ↔
      sliderEventList h.startTime s.velocity (osuTickDist m h s) dist duration (s.repeatCount + 1) buf = .error .fuel := by
  unfold osuSliderSamples osuTickDist
  simp only []
  cases m.controlPoints.difficultyPointAt h.startTime <;> simp only [] <;>
    (generalize sliderEventList (F := F) _ _ _ _ _ _ _ = r
     cases r with
     | error e => simp [bind, Except.bind]
     | ok v => simp [bind, Except.bind, pure, Except.pure])

theorem catchSliderSamples_fuel_iff (m : Beatmap F P) (h : HitObject F P) (s : HitObjectSlider F P) (dist duration : F)
    (buf : List (SliderEvents.SliderEvent F)) :
    catchSliderSamples m h s dist duration buf = .error .fuel ↔
      sliderEventList h.startTime s.velocity (catchTickDist m h) dist duration (s.repeatCount + 1) buf = .error .fuel := by
  unfold catchSliderSamples catchTickDist
  simp only []
  generalize sliderEventList (F := F) _ _ _ _ _ _ _ = r
  cases r with
  | error e => simp [bind, Except.bind]
  | ok v => simp [bind, Except.bind, pure, Except.pure]

/-- **where `.error .fuel` of `collect_samples` can come from**, object by object: the curve code (`curveDist`, not
treated here) or the `sliderEventList` call of `slider_events` (osu! mode, tick distance `osuTickDist`) /
`juicestream_events` (catch mode, `catchTickDist`), with `duration = spans · dist / velocity`. -/
theorem collectObject_fuel_cases (m : Beatmap F P) (h : HitObject F P) (buf : List (SliderEvents.SliderEvent F))
    (hf : collectObject m h buf = .error .fuel) :
    ∃ s, h.kind = .slider s ∧
      (curveDist s = .error .fuel ∨
       ∃ d, curveDist s = .ok d ∧
         ((m.general.mode = GameMode.osu ∧
            sliderEventList h.startTime s.velocity (osuTickDist m h s) d
              ((Scalar.ofInt (s.repeatCount + 1) : F) * d / s.velocity) (s.repeatCount + 1) buf = .error .fuel) ∨
          (m.general.mode = GameMode.catch ∧
            sliderEventList h.startTime s.velocity (catchTickDist m h) d
              ((Scalar.ofInt (s.repeatCount + 1) : F) * d / s.velocity) (s.repeatCount + 1) buf = .error .fuel))) := by
  unfold collectObject at hf
  cases hk : h.kind with
  | circle c => rw [hk] at hf; cases hf
  | spinner c => rw [hk] at hf; cases hf
  | hold c => rw [hk] at hf; cases hf
  | slider s =>
    rw [hk] at hf
    simp only [] at hf
    refine ⟨s, rfl, ?_⟩
    cases hc : curveDist s with
    | error e =>
      rw [hc] at hf
      simp only [bind, Except.bind] at hf
      cases hf
      exact Or.inl rfl
    | ok d =>
      rw [hc] at hf
      simp only [bind, Except.bind] at hf
      refine Or.inr ⟨d, rfl, ?_⟩
      cases hm : m.general.mode with
      | taiko => rw [hm] at hf; cases hf
      | mania => rw [hm] at hf; cases hf
      | osu =>
        rw [hm] at hf
        simp only [] at hf
        cases hr : osuSliderSamples m h s d ((Scalar.ofInt (s.repeatCount + 1) : F) * d / s.velocity) buf with
        | ok v => rw [hr] at hf; cases hf
        | error e =>
          rw [hr] at hf
          cases hf
          exact Or.inl ⟨rfl, (osuSliderSamples_fuel_iff m h s d _ buf).mp hr⟩
      | «catch» =>
        rw [hm] at hf
        simp only [] at hf
        cases hr : catchSliderSamples m h s d ((Scalar.ofInt (s.repeatCount + 1) : F) * d / s.velocity) buf with
        | ok v => rw [hr] at hf; cases hf
        | error e =>
          rw [hr] at hf
          cases hf
          exact Or.inr ⟨rfl, (catchSliderSamples_fuel_iff m h s d _ buf).mp hr⟩

end Defs

/-- `+∞` as the encoder writes it (`f64::INFINITY`, here `1.0 / 0.0`). -/
theorem infinity_unpack_float : (infinity : Float).toModel.unpack = .infinity .positive := by
  have : (infinity : Float) = Float.ofBits 0x7FF0000000000000 := by decide +kernel
  rw [this, FM.float_unpack_ofBits _ (by decide)]
  rfl

theorem infinity_ge_float (x : Float) (hx : Scalar.isNaN x = false) : Scalar.le x (infinity : Float) = true := by
  rw [FMO.le_float, infinity_unpack_float]
  exact FMR.le_pos_infinity _ hx

section Bounds
variable [Trig Float32]

/-- the tick distance of `slider_events` from factors in range: `+∞` (ticks off) or in `[osuLo, osuHi]`. -/
theorem osuTickDist_cases (m : Beatmap Float Float32) (h : HitObject Float Float32) (s : HitObjectSlider Float Float32)
    (hcp : C12.CpAll rangePred m.controlPoints) (htr : Btw 0.5 8 m.difficulty.sliderTickRate)
    (hv : Btw velLo velHi s.velocity) :
    osuTickDist m h s = infinity ∨ Btw osuLo osuHi (osuTickDist m h s) := by
  have hb := beatLen_lookup_btw m.controlPoints hcp h.startTime
  unfold osuTickDist
  simp only []
  cases hdp : m.controlPoints.difficultyPointAt h.startTime with
  | none =>
    simp only []
    right
    exact osu_tickDist_btw _ _ _ _ hv hb htr
      (mult_btw _ 1 ((Btw.const (1 : Float) (by decide +kernel)).weaken (by decide +kernel) (by decide +kernel)
        (by decide +kernel)))
  | some p =>
    simp only []
    cases p.generateTicks
    · left; rfl
    · right
      exact osu_tickDist_btw _ _ _ _ hv hb htr
        (mult_btw _ _ (btw_of_between (hcp.d p (lookupChecked_mem _ _ _ p hdp)) (by decide +kernel)))

/-- the tick distance of `juicestream_events` from factors in range. -/
theorem catchTickDist_btw (m : Beatmap Float Float32) (h : HitObject Float Float32)
    (hcp : C12.CpAll rangePred m.controlPoints) (hsm : Btw 0.4 3.6 m.difficulty.sliderMultiplier)
    (htr : Btw 0.5 8 m.difficulty.sliderTickRate) : Btw catchLo catchHi (catchTickDist m h) := by
  unfold catchTickDist
  exact catch_tickDist_btw _ _ _ hsm htr (mult_btw _ _ (sv_lookup_btw m.controlPoints hcp h.startTime))

/-- **`decoded_tick_dist_bounds_float`** — for every byte string decoded to a map, every hit object `h` of the map and
every slider `s` in it: the tick distance `slider_events` computes is `+∞` (`generate_ticks = false`) or a number in
`[osuLo, osuHi]` (`4.9e-7 ≤ osuLo`, `osuHi ≤ 7.3e8`), and the one `juicestream_events` computes is in
`[catchLo, catchHi] = [0.5, 7200]`. Both are `≥ 2⁻³⁶`. No hypothesis on the map. -/
theorem decoded_tick_dist_bounds_float (bs : List UInt8) (st : BeatmapState Float Float32)
    (m : Beatmap Float Float32) (h1 : decodeBytes beatmapDecoder bs = .ok st) (h2 : st.finish = .ok m)
    (h : HitObject Float Float32) (hh : h ∈ m.hitObjects) (s : HitObjectSlider Float Float32) (hk : h.kind = .slider s) :
    (osuTickDist m h s = infinity ∨ Btw osuLo osuHi (osuTickDist m h s)) ∧
    Btw catchLo catchHi (catchTickDist m h) ∧
    Scalar.le C20.ulp17 (osuTickDist m h s) = true ∧ Scalar.le C20.ulp17 (catchTickDist m h) = true := by
  have hcp := decoded_control_points_range_float bs st m h1 h2
  obtain ⟨hsm, htr⟩ := decoded_difficulty_range_float bs st m h1 h2
  have hv := decoded_velocity_range_float bs st m h1 h2 h hh s hk
  have ho := osuTickDist_cases m h s hcp htr hv
  have hc := catchTickDist_btw m h hcp hsm htr
  refine ⟨ho, hc, ?_, FMO.le_trans _ _ _ (by decide +kernel : Scalar.le C20.ulp17 catchLo = true) hc.lo_le⟩
  rcases ho with ho | ho
  · rw [ho]; exact infinity_ge_float _ (by decide +kernel)
  · exact FMO.le_trans _ _ _ (by decide +kernel : Scalar.le C20.ulp17 osuLo = true) ho.lo_le

end Bounds

/-! ## 3. the tick loop terminates for a tick distance `≥ 2⁻³⁶` handed to `new` -/

section Terminate
open SliderEvents

theorem new_tickDist {start dur vel td total : Float} {n : Int} {p : Params Float}
    (hnew : Params.new start dur vel td total n = some p) : p.tickDist = Scalar.clamp td 0 p.len := by
  simp only [Params.new] at hnew
  split at hnew
  · cases hnew; rfl
  · cases hnew

/-- **termination from the un-clamped tick distance.** `SliderEventsIter::new` replaces `tick_dist` by
`tick_dist.clamp(0, len)`. If `2⁻³⁶ ≤ tick_dist` (`+∞` included) and the velocity is in `[velLo, velHi]`, then either the
clamp keeps the distance (`C20.tick_loop_terminates_float`), or it lowers it to `len`: then `len ≤ 0` gives no tick at
all, and for `len > 0` the first loop value `d = len` fails `d < len − 10·velocity` and the loop stops at once. -/
theorem tick_loop_terminates_of_ge_float {start dur vel td total : Float} {n : Int} {p : Params Float}
    (hnew : Params.new start dur vel td total n = some p) (hv : Btw velLo velHi vel)
    (htd : Scalar.le C20.ulp17 td = true) : ∃ fuel ds, spanTickDists p fuel = some ds := by
  obtain ⟨h0len, hlen, hmin, _⟩ := C20.new_clamps_float hnew
  have htdp := new_tickDist hnew
  have h0td : Scalar.lt (0 : Float) td = true :=
    FMO.lt_of_lt_of_le _ _ _ (by decide +kernel : Scalar.lt (0 : Float) C20.ulp17 = true) htd
  have hnlt : Scalar.lt td (0 : Float) = false := FMO.lt_asymm _ _ h0td
  cases hlt : Scalar.lt p.len td with
  | false =>
    have : p.tickDist = td := by rw [htdp]; unfold Scalar.clamp; simp [hnlt, hlt]
    exact C20.tick_loop_terminates_float hnew (by rw [this]; exact htd)
  | true =>
    have hpl : p.tickDist = p.len := by rw [htdp]; unfold Scalar.clamp; simp [hnlt, hlt]
    cases hpos : Scalar.lt (0 : Float) p.len with
    | false => exact ⟨0, [], C20.spanTickDists_of_not_pos p 0 (by rw [hpl]; exact hpos)⟩
    | true =>
      refine ⟨1, [], ?_⟩
      have hnn := (FMO.not_nan_of_lt hpos).2
      have hfin : p.len.toModel.unpack.isFinite = true :=
        FMO.finite_of_bounds_float (0 : Float) (100000 : Float) p.len (by decide +kernel) (by decide +kernel) hnn
          (FMO.lt_asymm _ _ hpos) (FMO.not_lt_of_le _ _ hlen)
      have hfnz : FMO.isFiniteNonzero p.len.toModel.unpack = true := by
        rw [FMO.lt_float, FAM.float_zero_unpack] at hpos
        rcases FAM.pos_cases _ hpos with ⟨m, e, hm, he⟩ | he
        · rw [he]; rfl
        · rw [he] at hfin; cases hfin
      obtain ⟨hm0, hmf⟩ := minDist_finite vel hv
      have hge : Scalar.ge p.len (p.len - p.minDistFromEnd) = true := by
        rw [hmin]; exact sub_le_self_float p.len (vel * 10) hfnz hm0 hmf
      unfold spanTickDists
      rw [if_pos (show Scalar.gt p.tickDist (0 : Float) = true by rw [hpl]; exact hpos), hpl, tickDists,
        if_pos (FMO.le_refl _ hnn), if_pos hge]

end Terminate

/-! ## 4. the span count of a decoded slider is positive (structural, every scalar) -/

section Repeat
open DecodedSliders
variable {F P : Type} [Scalar F] [Scalar P] [Cvt P F]

/-- `0 ≤ repeat_count` (the decoder stores `max(0, repeats − 1)`). -/
def RepeatInv (st : BeatmapState F P) : Prop :=
  SliderInv (fun s => 0 ≤ s.repeatCount) st.hitObjects.core.hitObjects

theorem parseHitObjectLine_repeatInv (mode : GameMode) (st : HOCore F P) (line : Str)
    (h : SliderInv (fun s => 0 ≤ s.repeatCount) st.hitObjects) :
    SliderInv (fun s => 0 ≤ s.repeatCount) (parseHitObjectLine mode st line).1.hitObjects := by
  cases hacc : (parseHitObjectLine mode st line).2 with
  | false => rw [(C14.rejected_keeps_objects mode st line hacc).1]; exact h
  | true =>
    obtain ⟨o, ho, hq⟩ := C14.line_node_count mode st line hacc
    rw [ho]
    exact sliderInv_snoc _ _ _ h (fun s hs => (hq s hs).1)

theorem repeatInv_step (sec : Section) (st : BeatmapState F P) (l : Str) (h : RepeatInv st) :
    RepeatInv (BeatmapState.step sec st l) := by
  unfold RepeatInv at h ⊢
  have key : SliderInv (fun s => 0 ≤ s.repeatCount) (st.hitObjects.step sec l).core.hitObjects := by
    rcases hoStep_core_objects sec st.hitObjects l with e | ⟨_, e⟩
    · rw [e]; exact h
    · rw [e]; exact parseHitObjectLine_repeatInv _ _ _ h
  cases sec <;> exact key

theorem repeatInv_decoded (bs : List UInt8) (st : BeatmapState F P)
    (h : decodeBytes beatmapDecoder bs = .ok st) : RepeatInv st := by
  obtain ⟨ls, rfl, _⟩ := decodeBytes_lines _ bs st h
  exact frame_invariant_lines (beatmapDecoder : LineDecoder (BeatmapState F P)) RepeatInv (fun _ => True)
    (fun _ _ => sliderInv_nil _) (fun s st l _ hst => repeatInv_step s st l hst) ls (fun _ _ => True.intro)

variable [Trig F] [Trig P]

/-- **every slider of a decoded map has `repeat_count ≥ 0`**, i.e. a span count `repeat_count + 1 ≥ 1`. -/
theorem decoded_repeat_nonneg (bs : List UInt8) (st : BeatmapState F P) (m : Beatmap F P)
    (h1 : decodeBytes beatmapDecoder bs = .ok st) (h2 : st.finish = .ok m) :
    ∀ h ∈ m.hitObjects, ∀ s, h.kind = .slider s → 0 ≤ s.repeatCount := by
  intro h hh s hk
  have hinv := repeatInv_decoded bs st h1
  unfold BeatmapState.finish at h2
  cases hho : st.hitObjects.finish with
  | error e => simp [hho, bind, Except.bind] at h2
  | ok ho =>
    simp only [hho, bind, Except.bind, pure, Except.pure] at h2
    injection h2 with h2
    subst h2
    obtain ⟨hp, hpw⟩ := C15.finalize_perm st.hitObjects ho hho
    obtain ⟨a, ha, _, hsim, _⟩ := pointwise_mem hpw h hh
    rw [hk] at hsim
    cases hak : a.kind with
    | slider s0 =>
      rw [hak] at hsim
      simp only [C15.KindSim] at hsim
      rw [hsim.1]
      exact hinv a (hp.mem_iff.mp ha) s0 hak
    | circle c => rw [hak] at hsim; exact hsim.elim
    | spinner c => rw [hak] at hsim; exact hsim.elim
    | hold c => rw [hak] at hsim; exact hsim.elim

end Repeat

/-! ## 5. the headline: no tick-loop fuel exhaustion on decoded maps -/

section Headline
open SliderEvents

/-- `sliderEventList` (Model/Encode.lean) with its two model fuels — `fuel` for the tick loop of `generate_ticks`, `N` for
the number of `next` calls — as parameters; the model fixes `eventsFuel`, `collectBound`. -/
def sliderEventListWith {F : Type} [Scalar F] (fuel N : Nat) (startTime velocity tickDist dist duration : F)
    (spanCount : Int) (buf : List (SliderEvent F)) : Rosu.Outcome (List (SliderEvent F) × List (SliderEvent F)) :=
  match Iter.new startTime (duration / (Scalar.ofInt spanCount : F)) velocity tickDist dist spanCount buf with
  | none => .error .panic
  | some it =>
    match collectAcc fuel N it [] with
    | none => .error .fuel
    | some (evs, it') => .ok (evs, it'.ticks)

theorem sliderEventList_eq_with {F : Type} [Scalar F] (startTime velocity tickDist dist duration : F)
    (spanCount : Int) (buf : List (SliderEvent F)) :
    sliderEventList startTime velocity tickDist dist duration spanCount buf =
      sliderEventListWith eventsFuel collectBound startTime velocity tickDist dist duration spanCount buf := by
  unfold sliderEventList sliderEventListWith runUse
  simp only []
  cases Iter.new startTime (duration / (Scalar.ofInt spanCount : F)) velocity tickDist dist spanCount buf with
  | none => rfl
  | some it =>
    simp only []
    cases collectAcc eventsFuel collectBound it [] with
    | none => rfl
    | some r => rfl

/-- once the tick loop terminates for the parameters `new` builds and the span count is not negative, some pair of fuels
lets `sliderEventListWith` finish: the outcome is the event list or the `clamp` panic, never `.error .fuel`. -/
theorem sliderEventListWith_of_terminates (startTime velocity tickDist dist duration : Float) (spanCount : Int)
    (buf : List (SliderEvent Float)) (hn : 0 ≤ spanCount)
    (hterm : ∀ p, Params.new startTime (duration / (Scalar.ofInt spanCount : Float)) velocity tickDist dist spanCount = some p →
      ∃ fuel ds, spanTickDists p fuel = some ds) :
    ∃ fuel N, sliderEventListWith fuel N startTime velocity tickDist dist duration spanCount buf ≠ .error .fuel := by
  unfold sliderEventListWith
  cases hit : Iter.new startTime (duration / (Scalar.ofInt spanCount : Float)) velocity tickDist dist spanCount buf with
  | none => exact ⟨0, 0, fun h => by cases h⟩
  | some it =>
    have hp : Params.new startTime (duration / (Scalar.ofInt spanCount : Float)) velocity tickDist dist spanCount =
        some it.toParams := by
      unfold Iter.new at hit
      cases hp : Params.new startTime (duration / (Scalar.ofInt spanCount : Float)) velocity tickDist dist spanCount with
      | none => simp [hp] at hit
      | some p =>
        simp only [hp, Option.map_some, Option.some.injEq] at hit
        subst hit; rfl
    obtain ⟨fuel, ds, hds⟩ := hterm _ hp
    refine ⟨fuel, (eventsOf it.toParams ds).length + 1, ?_⟩
    have hc := C20.stream_shape _ _ _ _ _ _ buf fuel ((eventsOf it.toParams ds).length + 1) it ds hit hn hds
      (Nat.lt_succ_self _)
    have hacc := C20.collectAcc_eq_collect fuel ((eventsOf it.toParams ds).length + 1) it []
    rw [hc] at hacc
    simp only []
    cases hr : collectAcc fuel ((eventsOf it.toParams ds).length + 1) it [] with
    | none => rw [hr] at hacc; cases hacc
    | some r => intro h; cases h

variable [Trig Float32]

/-- **`encode_decoded_tick_fuel_float`** — for every byte string decoded to a map `m`, every slider `s` of `m` (hit
object `h`), every curve distance `dist` and duration: for the parameters `Beatmap::encode` hands to
`SliderEventsIter::new` in osu! mode (`slider_events`, tick distance `osuTickDist m h s`) and in catch mode
(`juicestream_events`, `catchTickDist m h`), whenever `new` accepts them some fuel suffices for the tick loop of
`generate_ticks` — in IEEE binary64 the Rust loop terminates. (In taiko / mania mode no iterator is built.) -/
theorem encode_decoded_tick_fuel_float (bs : List UInt8) (st : BeatmapState Float Float32)
    (m : Beatmap Float Float32) (h1 : decodeBytes beatmapDecoder bs = .ok st) (h2 : st.finish = .ok m)
    (h : HitObject Float Float32) (hh : h ∈ m.hitObjects) (s : HitObjectSlider Float Float32) (hk : h.kind = .slider s)
    (dist duration : Float) :
    (∀ p, Params.new h.startTime (duration / (Scalar.ofInt (s.repeatCount + 1) : Float)) s.velocity (osuTickDist m h s) dist
        (s.repeatCount + 1) = some p → ∃ fuel ds, spanTickDists p fuel = some ds) ∧
    (∀ p, Params.new h.startTime (duration / (Scalar.ofInt (s.repeatCount + 1) : Float)) s.velocity (catchTickDist m h) dist
        (s.repeatCount + 1) = some p → ∃ fuel ds, spanTickDists p fuel = some ds) := by
  obtain ⟨_, _, ho, hc⟩ := decoded_tick_dist_bounds_float bs st m h1 h2 h hh s hk
  have hv := decoded_velocity_range_float bs st m h1 h2 h hh s hk
  exact ⟨fun p hp => tick_loop_terminates_of_ge_float hp hv ho,
    fun p hp => tick_loop_terminates_of_ge_float hp hv hc⟩

/-- **… at the level of the encoder's calls**: the `sliderEventList` call of `osuSliderSamples` / `catchSliderSamples`
for a slider of a decoded map, with the model's two fuels as parameters, does not end in `.error .fuel` for suitable
fuels — whatever distance the curve code returned. (`sliderEventList = sliderEventListWith eventsFuel collectBound`,
`sliderEventList_eq_with`; `osuSliderSamples_fuel_iff`, `catchSliderSamples_fuel_iff`.) -/
theorem encode_decoded_slider_events_fuel_float (bs : List UInt8) (st : BeatmapState Float Float32)
    (m : Beatmap Float Float32) (h1 : decodeBytes beatmapDecoder bs = .ok st) (h2 : st.finish = .ok m)
    (h : HitObject Float Float32) (hh : h ∈ m.hitObjects) (s : HitObjectSlider Float Float32) (hk : h.kind = .slider s)
    (dist duration : Float) (buf : List (SliderEvent Float)) :
    (∃ fuel N, sliderEventListWith fuel N h.startTime s.velocity (osuTickDist m h s) dist duration (s.repeatCount + 1) buf
      ≠ .error .fuel) ∧
    (∃ fuel N, sliderEventListWith fuel N h.startTime s.velocity (catchTickDist m h) dist duration (s.repeatCount + 1) buf
      ≠ .error .fuel) := by
  have hn : 0 ≤ s.repeatCount + 1 := by
    have := decoded_repeat_nonneg bs st m h1 h2 h hh s hk
    omega
  obtain ⟨ho, hc⟩ := encode_decoded_tick_fuel_float bs st m h1 h2 h hh s hk dist duration
  exact ⟨sliderEventListWith_of_terminates _ _ _ _ _ _ buf hn ho, sliderEventListWith_of_terminates _ _ _ _ _ _ buf hn hc⟩

end Headline

/-! ## 6. non-vacuity (closed instances; `Trig Float32` of Model/Cmds/Curve.lean; files decoded by the kernel) -/

section Examples
open SliderEvents

/-- the interval lemmas on closed doubles: `0.4 ≤ 1.4 ≤ 3.6`, `0.5 ≤ 1 ≤ 8`, and the rounded quotient. -/
example : Btw ((0.4 : Float) / 8) (3.6 / 0.5) ((1.4 : Float) / 1) :=
  Btw.div (Btw.of_le (by decide +kernel) (by decide +kernel) (by decide +kernel) : Btw 0.4 3.6 (1.4 : Float))
    (Btw.of_le (by decide +kernel) (by decide +kernel) (by decide +kernel) : Btw 0.5 8 (1 : Float)) (by decide +kernel)

/-- the rounded quotient is antitone in the denominator on a pair where rounding matters: `1/3 ≥ 1/3.0000000000000004`. -/
example : Scalar.le ((1 : Float) / Float.ofBits 0x4008000000000001) ((1 : Float) / 3) = true :=
  div_le_div_left_float 1 3 (Float.ofBits 0x4008000000000001) (by decide +kernel) (by decide +kernel) (by decide +kernel)
    (by decide +kernel) (by decide +kernel)

/-- a catch map of format version 7 (so `mult = 1 / sv`) with values at the ends of their clamps: slider multiplier `0.4`,
tick rate `8`, beat length `60000`, an inherited point with `sv = 100/1000 = 0.1`. -/
def fileTicks : List UInt8 := asciiBytes
  "osu file format v7\n[General]\nMode: 2\n[Difficulty]\nSliderMultiplier:0.4\nSliderTickRate:8\n[TimingPoints]\n0,60000,4,1,0,100,1,0\n0,-1000,4,1,0,100,0,0\n[HitObjects]\n0,0,0,2,0,L|100:0,1,100\n"

/-- per slider: stored velocity, `osuTickDist`, `catchTickDist` (bit patterns). -/
def tickInfo (m : Beatmap Float Float32) : List (UInt64 × UInt64 × UInt64) :=
  m.hitObjects.filterMap fun h => match h.kind with
    | .slider s => some (s.velocity.toBits, (osuTickDist m h s).toBits, (catchTickDist m h).toBits)
    | _ => none

/-- the decoded values: velocity `100·0.4/(60000·10) = 6.67e-5`, tick distances `5` (osu! formula) and `50` (catch). -/
example : (decodeMap fileTicks).map (fun m => (m.general.mode, m.formatVersion, tickInfo m)) =
    some (GameMode.catch, 7, [(0x3F1179EC9CBD821E, (5 : Float).toBits, (50 : Float).toBits)]) := by decide +kernel

/-- the default map of C01Ieee (`fileLinear`: no timing point, default difficulty): velocity `0.14`, tick distance `140`. -/
example : (decodeMap fileLinear).map (fun m => (m.general.mode, tickInfo m)) =
    some (GameMode.osu, [((0.14 : Float).toBits, (140 : Float).toBits, (140 : Float).toBits)]) := by decide +kernel

/-- all hypotheses of the headline theorems on a decoded file, and their conclusions for each of its sliders. -/
example : ∃ m, decodeMap fileTicks = some m ∧ UsesSliderEvents m.general.mode ∧ (sliderPaths m).length = 1 ∧
    ∀ h ∈ m.hitObjects, ∀ s, h.kind = .slider s → ∀ dist duration : Float, ∀ buf,
      Btw velLo velHi s.velocity ∧ Btw catchLo catchHi (catchTickDist m h) ∧
      (∃ fuel N, sliderEventListWith fuel N h.startTime s.velocity (catchTickDist m h) dist duration
        (s.repeatCount + 1) buf ≠ .error .fuel) := by
  have hchk : (decodeMap fileTicks).map (fun m => (decide (m.general.mode = GameMode.catch), (sliderPaths m).length)) =
      some (true, 1) := by decide +kernel
  cases hm : decodeMap fileTicks with
  | none => rw [hm] at hchk; cases hchk
  | some m =>
    rw [hm] at hchk
    simp only [Option.map_some, Option.some.injEq, Prod.mk.injEq, decide_eq_true_eq] at hchk
    obtain ⟨st, h1, h2⟩ := decodeMap_spec _ m hm
    refine ⟨m, rfl, Or.inr hchk.1, hchk.2, fun h hh s hk dist duration buf => ?_⟩
    exact ⟨decoded_velocity_range_float _ st m h1 h2 h hh s hk,
      (decoded_tick_dist_bounds_float _ st m h1 h2 h hh s hk).2.1,
      (encode_decoded_slider_events_fuel_float _ st m h1 h2 h hh s hk dist duration buf).2⟩

/-- `Params.new` accepts the parameters of that slider (`dist = 100`), so the termination statement is not vacuous, and
the tick loop indeed needs only a handful of turns (`tick_dist = 50`, `len = 100`). -/
example : (Params.new (0 : Float) 1500000 (Float.ofBits 0x3F1179EC9CBD821E) 50 100 1).map
    (fun p => (p.tickDist.toBits, spanTickDists p 5)) = some ((50 : Float).toBits, some [50]) := by decide +kernel

/-- the threshold of `tick_loop_terminates_of_ge_float` is met by both lower endpoints, with five orders of magnitude to
spare for osu! (`osuLo ≈ 5e-7`, `2⁻³⁶ ≈ 1.46e-11`). -/
example : Scalar.le C20.ulp17 osuLo = true ∧ Scalar.le C20.ulp17 catchLo = true ∧
    Scalar.le (C20.ulp17 * 32768) osuLo = true := by decide +kernel

end Examples

end Rosu.C01
