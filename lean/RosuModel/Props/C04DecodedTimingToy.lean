/-
  Props/C04DecodedTimingToy.lean — Props/C04DecodedTiming.lean on the toy codec `ZC` (Lemmas/ToyCodec.lean):

  * every law hypothesis is satisfiable together (`ZC.timingConsts`, `ZC.nanLaws`, `ZC.tpClampLaws`, `ZC.svLaws`,
    `ZC.endTimeLaws`, `ZC.timingLaws`; `decoded_timing_hypotheses_satisfiable`);
  * non-vacuity: `goodLines` — a taiko file with a timing line, two inherited lines and a slider — is decoded, finalised and
    its collected times checked IN THE KERNEL (`good_collectedTimes`); `decoded_repTimingMap_partial`,
    `timing_lines_accepted_decoded` and `encoded_file_accepted_decoded` apply to it with every hypothesis discharged;
  * the residual is needed: `overLines` — the same slider at time 2147483647 — decodes to a map whose collected end time
    `2147483653` is beyond the parse limit (`over_not_collectedTimes`), so the map is NOT `RepTimingMap`
    (`over_not_repTimingMap`) and the unconditional statement is false (`decoded_repTimingMap_statement_false`). This is the
    recorded behaviour "sample points collected at … computed times beyond the limit" (DESIGN 5.4), replayed on a decoded
    file of the model.
-/
import RosuModel.Props.C04DecodedTiming
import RosuModel.Props.C04DecodedObjectsToy
set_option linter.unusedSectionVars false
namespace Rosu.C04
open Rosu Scalar Encode EncodeLines RtTiming DecodedObj

/-! ### the laws on the toy scalar -/

theorem ZC.timingConsts : TimingConsts ZC := ⟨rfl, by decide, by decide⟩

theorem ZC.nanLaws : C12.NanLaws ZC where
  nan_lt_zero := fun _ h => by cases h
  lit6 := rfl
  lit60000 := rfl
  lit01 := rfl
  lit10 := rfl
  lit001 := rfl
  lit1 := rfl
  div_neg := fun _ _ => rfl
  total := fun a b _ _ h => by
    have h' : ¬ a.v < b.v := by simpa [Scalar.lt] using h
    show decide (b.v ≤ a.v) = true
    exact decide_eq_true (by omega)
  one_ge_01 := by decide
  one_le_10 := by decide
  one_ge_001 := by decide

theorem ZC.tpClampLaws : C12.TpClampLaws ZC :=
  ⟨⟨by decide, by decide, by decide⟩, ⟨by decide, by decide, by decide⟩, ⟨by decide, by decide, by decide⟩⟩

instance (lo hi y : ZC) : Decidable (C12.Between lo hi y) := by unfold C12.Between; infer_instance

/-- `−100 / v` for an integer `v` in `0 … 10` (toy literals: `0.1 = 0.01 = 0`; `x / 0 = 0`). -/
theorem ZC.svOk_range (v : ZC) (h0 : 0 ≤ v.v) (h1 : v.v ≤ 10) : SvOk ZC.Rep v := by
  obtain ⟨n⟩ := v
  simp only at h0 h1
  have : n = 0 ∨ n = 1 ∨ n = 2 ∨ n = 3 ∨ n = 4 ∨ n = 5 ∨ n = 6 ∨ n = 7 ∨ n = 8 ∨ n = 9 ∨ n = 10 := by omega
  rcases this with rfl | rfl | rfl | rfl | rfl | rfl | rfl | rfl | rfl | rfl | rfl <;> decide

theorem ZC.svLaws : SvLaws ZC ZC.Rep where
  one := by decide
  sv := fun v h => by
    have h1 : (0.1 : ZC).v ≤ v.v := of_decide_eq_true h.2.1
    have h2 : v.v ≤ (10 : ZC).v := of_decide_eq_true h.2.2
    exact ZC.svOk_range v h1 h2
  scroll := fun v h => by
    have h1 : (0.01 : ZC).v ≤ v.v := of_decide_eq_true h.2.1
    have h2 : v.v ≤ (10 : ZC).v := of_decide_eq_true h.2.2
    exact ZC.svOk_range v h1 h2

theorem ZC.endTimeLaws : EndTimeLaws ZC := endTimeLaws_of_durLaws ZC.durLaws

theorem ZC.timingLaws : TimingLaws ZC ZC.Rep := ⟨ZC.nanLaws, ZC.tpClampLaws, ZC.timingConsts, ZC.svLaws⟩

/-- all law hypotheses of `encoded_file_accepted_decoded` are satisfiable together. -/
theorem decoded_timing_hypotheses_satisfiable :
    MapLaws ZC ZC ZC.Rep ZC.Rep ∧ DecodedInv.ConstFacts ZC ZC ∧ DecodedInv.LimitRep ZC.Rep ∧ ObjLaws ZC ZC ZC.Rep ZC.Rep ∧
      DurLaws ZC ZC.Rep ∧ CtrlLaws ZC ZC ZC.Rep ∧ TimingLaws ZC ZC.Rep ∧ EndTimeLaws ZC :=
  ⟨ZC.mapLaws, DecodedInv.ZC.constFacts, DecodedInv.ZC.limitRep, ZC.objLaws, ZC.durLaws, ZC.ctrlLaws, ZC.timingLaws,
    ZC.endTimeLaws⟩

/-! ### a decoded file inside the residual -/

set_option maxRecDepth 100000

/-- a taiko file: a timing line (beat length 6, bank soft), an inherited line with scroll speed `100 / 50 = 2` and kiai, an
inherited line in the same group as the timing line, a rejected line, and a linear slider of length 100 at time 1000. -/
def goodLines : List Str :=
  [str "osu file format v14", str "", str "[General]", str "Mode: 1", str "[TimingPoints]", str "0,6,4,2,0,100,1,0",
   str "0,-100,4,2,0,100,0,0", str "500,-50,4,1,3,70,0,1", str "x,y", str "[HitObjects]",
   str "0,0,1000,2,0,L|100:0,1,100"]

def goodState : BeatmapState ZC ZC := frame beatmapDecoder goodLines
def goodMap : Beatmap ZC ZC :=
  match goodState.finish with | .ok m => m | .error _ => noObjectsMap goodState

theorem good_decodes : decodeBytes (beatmapDecoder : LineDecoder (BeatmapState ZC ZC))
    (utf8Encode (unlines goodLines)) = .ok goodState := by
  rw [RtFile.decodeBytes_utf8_text _ _ (by decide), lines_of_unlines _ (by decide)]
  rfl

theorem good_finishes : goodState.finish = .ok goodMap := by
  have hok : goodState.finish.toOption.isSome = true := by decide +kernel
  unfold goodMap
  cases h : goodState.finish with
  | error e => rw [h] at hok; cases hok
  | ok m => rfl

/-- what was decoded: one timing point, an effect point with scroll speed 2, two sample points, one slider. -/
theorem good_content :
    goodMap.controlPoints.timingPoints.map (fun p => (p.time, p.beatLen)) = [(⟨0⟩, ⟨6⟩)] ∧
    goodMap.controlPoints.effectPoints.map (fun p => (p.time, p.scrollSpeed, p.kiai)) = [(⟨500⟩, ⟨2⟩, true)] ∧
    goodMap.controlPoints.samplePoints.map (fun p => (p.time, p.sampleVolume, p.customSampleBank)) =
      [(⟨0⟩, 100, 0), (⟨500⟩, 70, 3)] ∧
    goodMap.hitObjects.map (fun h => (h.startTime, SliderRt.kindTag h.kind)) = [(⟨1000⟩, ObjClass.slider)] := by
  decide +kernel

/-- the collected times of the sample are within the limit (kernel evaluation of `collect_samples`' object loop: the curve
of the slider, its duration `100 / 16 = 6`, end time `1006`). -/
theorem good_collectedTimes : CollectedTimesInLimit goodMap := by
  have key : (match collectAll goodMap goodMap.hitObjects [] with
      | .ok pts => pts.all (fun p => decide (InLimit p.time)) | .error _ => true) = true := by decide +kernel
  intro pts hp p hpm
  rw [hp] at key
  exact of_decide_eq_true (List.all_eq_true.mp key p hpm)

theorem good_residuals : ∀ h ∈ goodMap.hitObjects, ObjResidual ZC.Rep h := by
  have key : goodMap.hitObjects.all objResidualB = true := by decide +kernel
  exact fun h hh => objResidual_of_check h (List.all_eq_true.mp key h hh)

theorem good_noDoubleSlash : DecodedInv.NoDoubleSlash goodMap := ⟨by decide +kernel, by decide +kernel⟩

/-- **the theorems apply.** `RepTimingMap` of the decoded sample … -/
theorem good_repTimingMap : RepTimingMap ZC.Rep goodMap :=
  decoded_repTimingMap_partial ZC.nanLaws ZC.tpClampLaws ZC.timingConsts DecodedInv.ZC.limitRep ZC.svLaws _ _ _
    good_decodes good_finishes good_collectedTimes

example : StoredPointsRep ZC.Rep goodMap :=
  decoded_stored_points_rep ZC.nanLaws ZC.tpClampLaws ZC.timingConsts DecodedInv.ZC.limitRep ZC.svLaws _ _ _
    good_decodes good_finishes

theorem good_encodes : ∃ t, encode goodMap = .ok t := by
  have hok : (encode goodMap).toOption.isSome = true := by decide +kernel
  cases h : encode goodMap with
  | error e => rw [h] at hok; cases hok
  | ok t => exact ⟨t, rfl⟩

/-- … every line of its `[TimingPoints]` block is accepted in any state … -/
example (t : Str) (h : encodeTimingPoints goodMap = .ok t) :=
  timing_lines_accepted_decoded ZC.laws ZC.nanLaws ZC.tpClampLaws ZC.timingConsts DecodedInv.ZC.limitRep ZC.svLaws _ _ _
    good_decodes good_finishes good_collectedTimes t h

/-- … and the file-level statement holds of it with every hypothesis discharged. -/
example (t : Str) (h : encode goodMap = .ok t) :=
  encoded_file_accepted_decoded ZC.mapLaws DecodedInv.ZC.constFacts DecodedInv.ZC.limitRep ZC.objLaws ZC.durLaws ZC.ctrlLaws
    ZC.timingLaws _ _ _ good_decodes good_finishes good_noDoubleSlash good_residuals good_collectedTimes t h

/-- the sortedness statement on the sample. -/
example (cp : ControlPoints ZC) (hc : collectSamples goodMap = .ok cp) : C13.Sorted cp :=
  decoded_collected_sorted _ _ _ good_decodes good_finishes cp hc

/-- the taiko / mania form of the residual on the sample (kernel evaluation of the slider's curve and end time). -/
theorem good_sliderEnd : SliderEndInLimit goodMap := by
  have key : goodMap.hitObjects.all (fun h => match h.kind with
      | .slider s => (match curveDist s with
        | .ok d => decide (InLimit (h.startTime + (Scalar.ofInt (s.repeatCount + 1) : ZC) * d / s.velocity))
        | .error _ => true)
      | _ => true) = true := by decide +kernel
  intro h hh s hk dist hd
  have := List.all_eq_true.mp key h hh
  simp only [hk, hd] at this
  exact of_decide_eq_true this

example : RepTimingMap ZC.Rep goodMap :=
  decoded_repTimingMap_taiko_mania ZC.nanLaws ZC.tpClampLaws ZC.timingConsts DecodedInv.ZC.limitRep ZC.svLaws ZC.endTimeLaws
    _ _ _ good_decodes good_finishes (Or.inl (by decide +kernel)) good_sliderEnd

/-! ### the residual is needed: a collected time beyond the parse limit -/

/-- the same slider at the last representable time: its end time `2147483647 + 6` is collected as a sample point. -/
def overLines : List Str :=
  [str "osu file format v14", str "", str "[General]", str "Mode: 1", str "[TimingPoints]", str "0,6,4,2,0,100,1,0",
   str "[HitObjects]", str "0,0,2147483647,2,0,L|100:0,1,100"]

def overState : BeatmapState ZC ZC := frame beatmapDecoder overLines
def overMap : Beatmap ZC ZC :=
  match overState.finish with | .ok m => m | .error _ => noObjectsMap overState

theorem over_decodes : decodeBytes (beatmapDecoder : LineDecoder (BeatmapState ZC ZC))
    (utf8Encode (unlines overLines)) = .ok overState := by
  rw [RtFile.decodeBytes_utf8_text _ _ (by decide), lines_of_unlines _ (by decide)]
  rfl

theorem over_finishes : overState.finish = .ok overMap := by
  have hok : overState.finish.toOption.isSome = true := by decide +kernel
  unfold overMap
  cases h : overState.finish with
  | error e => rw [h] at hok; cases hok
  | ok m => rfl

/-- the object loop of `collect_samples` succeeds and collects exactly one point, at `2147483653`. -/
theorem over_collectAll :
    ∃ pts, collectAll overMap overMap.hitObjects [] = .ok pts ∧ pts.map (fun p => p.time) = [⟨2147483653⟩] := by
  have key : (match collectAll overMap overMap.hitObjects [] with
      | .ok pts => decide (pts.map (fun p => p.time) = [(⟨2147483653⟩ : ZC)]) | .error _ => false) = true := by
    decide +kernel
  cases h : collectAll overMap overMap.hitObjects [] with
  | error e => rw [h] at key; cases key
  | ok pts => rw [h] at key; exact ⟨pts, rfl, of_decide_eq_true key⟩

/-- **the residual fails on a decoded map.** -/
theorem over_not_collectedTimes : ¬ CollectedTimesInLimit overMap := by
  intro hct
  obtain ⟨pts, hp, ht⟩ := over_collectAll
  cases pts with
  | nil => cases ht
  | cons p rest =>
    have h1 := hct _ hp p (by simp)
    simp only [List.map_cons, List.cons.injEq] at ht
    rw [ht.1] at h1
    exact absurd h1 (by decide)

/-- … and with it `RepTimingMap`: the collected point is stored (its bank differs from the stored point's), and its line
`2147483653,-100,…` is beyond the decoder's limit. -/
theorem over_not_repTimingMap : ¬ RepTimingMap ZC.Rep overMap := by
  intro hm
  have key : (match collectSamples overMap with
      | .ok cp => cp.samplePoints.any (fun s => decide (¬ InLimit s.time)) | .error _ => false) = true := by
    decide +kernel
  cases h : collectSamples overMap with
  | error e => rw [h] at key; cases key
  | ok cp =>
    rw [h] at key
    obtain ⟨s, hs, hns⟩ := List.any_eq_true.mp key
    exact (of_decide_eq_true hns) (hm.samples cp h s hs).2.1

/-- **the unconditional statement is false** (toy codec): not every decoded map is `RepTimingMap`. -/
theorem decoded_repTimingMap_statement_false : ¬ decoded_repTimingMap_statement ZC ZC ZC.Rep :=
  fun h => over_not_repTimingMap (h _ _ _ over_decodes over_finishes)

end Rosu.C04
