/-
  Props/C09Full.lean — the module audited for C09: Props/C09.lean (reader faults; writer faults for an arbitrary list of
  write_all calls) together with Props/C09Encode.lean (the same for the modelled encoder's output). All in namespace Rosu.C09.
-/
import RosuModel.Props.C09
import RosuModel.Props.C09Encode
