/-
  Props/C20IeeeTicks.lean — what is TRUE of the tick distances of C20 in the arithmetic the driver runs (`Float` = IEEE
  binary64, kernel-transparent since Lean 4.33), where the `k`-th tick distance is the `k`-fold *rounded* sum
  `((t + t) + t) + …` and `ExactNum`/`OrderedFieldLaws` (Props/C20.lean, Props/C20Exact.lean) are false.

  Part 1 (`span_tick_dists_increasing_float`). The loop `let mut d = tick_dist; while d <= len { if d >= len - min_dist
  {break}; …; d += tick_dist }` of `generate_ticks`, for `tick_dist > 0`:
    * `d ↦ d + tick_dist` never decreases (`C16.le_add_float`), every value is a number `> 0`;
    * if `d + tick_dist == d` for a `d` that passes both guards, the loop never leaves `d`: the model answers
      `none` (= fuel-exhausted) for **every** fuel (`tick_loop_stuck_float`), the Rust loop does not terminate;
    * hence whenever the model yields a list (`spanTickDists p fuel = some ds`), the list is **strictly** increasing in
      IEEE `<`: `tick_dist = d₁ < d₂ < … < len − min_dist`, `d_{i+1} = d_i + tick_dist`;
    * `tick_loop_diverges_float`/`stream_diverges_float`: `SliderEventsIter::new(0, 1000, 1, 5e-324, 1e9, 1)` is accepted
      (`len = 100000` by the clamp, the clamp `[0, len]` keeps the tick distance) and its tick loop never terminates;
    * `tick_loop_terminates_float`: thanks to the clamp `len ≤ 100000 < 2¹⁷`, a tick distance `≥ 2⁻³⁶` is never absorbed
      and the loop terminates — non-termination needs `tick_dist < 2⁻³⁶ ≈ 1.46e-11`.
  Part 2 (`ticks_chronological_float`). Division by a positive number, multiplication by a non-negative number, addition
  of a fixed number and `1 − ·` are monotone *after rounding* (Lemmas/FloatRoundMono.lean, Lemmas/FloatArithMono.lean), so
  the tick times `span_start + (d / len) · span_duration` (forward) and `span_start + (1 − d / len) · span_duration`
  (reversed) are non-decreasing in stream order within every span, as long as they are numbers. Strictness is lost (ticks
  can share a time), and **across spans the IEEE stream need not be chronological**: the repeat that ends span `s` is at
  `(start + s·dur) + dur`, the next span starts at `start + (s+1)·dur`, and these two roundings can differ by an ulp in the
  wrong direction (`stream_not_chronological_float_witness`).
  Part 3: positivity, the clamps of `SliderEventsIter::new` (`len ≤ 100000`, `tick_dist ≤ len`), no ticks for a zero /
  negative / NaN tick distance, identical placement on every span.
-/
import RosuModel.Props.C20Ieee
import RosuModel.Props.C16Ieee
import RosuModel.Lemmas.FloatTickLaws
import RosuModel.Lemmas.FloatModelOrder
namespace Rosu.C20
open Rosu Rosu.SliderEvents

/-! ## the loop on a fixpoint of `d ↦ d + tick_dist` (every scalar) -/

section Generic
variable {F : Type} [Scalar F]

/-- **a fixpoint that passes both guards is never left** (every `Scalar`): if `d + tick_dist = d`, `d <= len` and not
`d >= len − min_dist`, the `while` loop started at `d` exhausts every fuel — the Rust loop does not terminate
(and pushes a tick per turn). -/
theorem tickDists_stuck (p : Params F) (d : F) (hfix : d + p.tickDist = d)
    (h1 : Scalar.le d p.len = true) (h2 : Scalar.ge d (p.len - p.minDistFromEnd) = false) :
    ∀ fuel, tickDists p fuel d = none
  | 0 => rfl
  | fuel + 1 => by
    rw [tickDists, if_pos h1, if_neg (by simp [h2]), hfix, tickDists_stuck p d hfix h1 h2 fuel]
    rfl

/-- structural: consecutive tick distances differ by one (rounded) addition of `tick_dist`, the first is `tick_dist`. -/
theorem spanTickDists_step (p : Params F) (fuel : Nat) (ds : List F) (h : spanTickDists p fuel = some ds) :
    (∀ h0 : 0 < ds.length, ds[0] = p.tickDist) ∧
    ∀ (i : Nat) (hi : i + 1 < ds.length), ds[i + 1] = ds[i] + p.tickDist := by
  unfold spanTickDists at h
  split at h
  · have hg := tickDists_getElem p fuel _ ds h
    have hit : ∀ (i : Nat) (d : F), iterAdd p.tickDist (i + 1) d = iterAdd p.tickDist i d + p.tickDist := by
      intro i
      induction i with
      | zero => intro d; rfl
      | succ i ih => intro d; rw [iterAdd, ih (d + p.tickDist)]; rfl
    refine ⟨fun h0 => hg 0 h0, fun i hi => ?_⟩
    rw [hg (i + 1) hi, hg i (by omega), hit]
  · cases h
    exact ⟨fun h0 => absurd h0 (by simp), fun i hi => absurd hi (by simp)⟩

end Generic

/-! ## IEEE scalars -/

/-- the IEEE facts the tick loop needs; theorems of `Float` (`tickLawsIeee_float`). -/
structure TickLawsIeee (F : Type) [Scalar F] : Prop where
  mono : C16.MonoLawsIeee F
  /-- `==` on a positive number is equality (it identifies only `±0`). -/
  eq_pos : ∀ x y : F, Scalar.eq x y = true → Scalar.lt (0 : F) x = true → x = y

theorem tickLawsIeee_float : TickLawsIeee Float :=
  ⟨C16.monoLawsIeee_float, FTL.float_eq_of_eq_pos⟩

section Ieee
variable {F : Type} [Scalar F] [FMO.IeeeOrd F]

/-- one turn of the loop from a positive `d` with a positive `tick_dist`: `d ≤ d + tick_dist`, the sum is positive
(in particular a number, possibly `+∞`), and the step is strict unless `d + tick_dist == d`. -/
theorem tick_step_ieee (L : TickLawsIeee F) (t d : F) (ht : Scalar.lt (0 : F) t = true)
    (hd : Scalar.lt (0 : F) d = true) :
    Scalar.le d (d + t) = true ∧ Scalar.lt (0 : F) (d + t) = true ∧
    (Scalar.lt d (d + t) = true ∨ d + t = d) := by
  have h0t := FMO.le_of_lt _ _ ht
  have h0d := FMO.le_of_lt _ _ hd
  have hnn := L.mono.add_nonneg d t h0d h0t
  have hle : Scalar.le d (d + t) = true :=
    L.mono.le_add d t (FMO.not_nan_of_lt hd).2 h0t (L.mono.nonneg_not_nan _ hnn)
  refine ⟨hle, FMO.lt_of_lt_of_le _ _ _ hd hle, ?_⟩
  rw [FMO.le_eq_lt_or_eq] at hle
  cases hlt : Scalar.lt d (d + t) with
  | true => exact Or.inl rfl
  | false =>
    rw [hlt, Bool.false_or] at hle
    exact Or.inr (L.eq_pos d (d + t) hle hd).symm

/-- the loop from a positive start: whenever it yields a list, the list is strictly increasing and bounded below by
the start. -/
theorem tickDists_increasing_ieee (L : TickLawsIeee F) (p : Params F) (ht : Scalar.lt (0 : F) p.tickDist = true) :
    ∀ (fuel : Nat) (d : F) (ds : List F), Scalar.lt (0 : F) d = true → tickDists p fuel d = some ds →
      (∀ x ∈ ds, Scalar.le d x = true) ∧ ds.Pairwise (fun a b => Scalar.lt a b = true)
  | 0, _, _, _, h => by simp [tickDists] at h
  | fuel + 1, d, ds, hd, h => by
    rw [tickDists] at h
    split at h
    · rename_i hle
      split at h
      · cases h; exact ⟨by simp, List.Pairwise.nil⟩
      · rename_i hge
        cases hrec : tickDists p fuel (d + p.tickDist) with
        | none => simp [hrec] at h
        | some ds' =>
          simp only [hrec, Option.map_some, Option.some.injEq] at h
          subst h
          obtain ⟨hstep, hpos, hstrict⟩ := tick_step_ieee L p.tickDist d ht hd
          obtain ⟨ih1, ih2⟩ := tickDists_increasing_ieee L p ht fuel _ ds' hpos hrec
          have hlt : Scalar.lt d (d + p.tickDist) = true := by
            rcases hstrict with hlt | hfix
            · exact hlt
            · have := tickDists_stuck p d hfix hle (by simpa using hge) fuel
              rw [hfix] at hrec
              rw [this] at hrec
              cases hrec
          refine ⟨?_, List.Pairwise.cons ?_ ih2⟩
          · intro x hx
            rcases List.mem_cons.mp hx with rfl | hx
            · exact FMO.le_refl _ (FMO.not_nan_of_lt hd).2
            · exact FMO.le_trans _ _ _ hstep (ih1 x hx)
          · intro x hx
            exact FMO.lt_of_lt_of_le _ _ _ hlt (ih1 x hx)
    · cases h; exact ⟨by simp, List.Pairwise.nil⟩

/-- **span_tick_dists_increasing** for an IEEE scalar: whenever the loop of `generate_ticks` terminates within the fuel,
the tick distances of a span are strictly increasing, each a number with `0 < tick_dist ≤ d`, `d ≤ len`, not
`d ≥ len − min_dist`; the first is `tick_dist` and each next one is the previous plus `tick_dist`, rounded. -/
theorem span_tick_dists_increasing_ieee (L : TickLawsIeee F) (p : Params F) (fuel : Nat) (ds : List F)
    (h : spanTickDists p fuel = some ds) :
    ds.Pairwise (fun a b => Scalar.lt a b = true) ∧
    (∀ d ∈ ds, Scalar.isNaN d = false ∧ Scalar.lt (0 : F) d = true ∧ Scalar.le p.tickDist d = true ∧
      Scalar.le d p.len = true ∧ Scalar.ge d (p.len - p.minDistFromEnd) = false) ∧
    (∀ h0 : 0 < ds.length, ds[0] = p.tickDist) ∧
    (∀ (i : Nat) (hi : i + 1 < ds.length), ds[i + 1] = ds[i] + p.tickDist) := by
  have hguard := ticks_respect_min_distance p fuel ds h
  obtain ⟨hs0, hs1⟩ := spanTickDists_step p fuel ds h
  refine ⟨?_, ?_, hs0, hs1⟩
  · unfold spanTickDists at h
    split at h
    · rename_i hg
      exact (tickDists_increasing_ieee L p hg fuel _ ds hg h).2
    · cases h; exact List.Pairwise.nil
  · intro d hd
    have hg2 := hguard d hd
    unfold spanTickDists at h
    split at h
    · rename_i hg
      have hle := (tickDists_increasing_ieee L p hg fuel _ ds hg h).1 d hd
      exact ⟨(FMO.not_nan_of_le hle).2, FMO.lt_of_lt_of_le _ _ _ hg hle, hle, hg2.1, hg2.2⟩
    · cases h; cases hd

/-- the outcome of the fuel, IEEE: a loop value `d > 0` that passes both guards and is *not* strictly increased by
`tick_dist` (`¬ d < d + tick_dist`; for positive operands this is `d + tick_dist == d`, rounding absorbed the
increment) makes the model answer `none` for every fuel. -/
theorem tickDists_stuck_ieee (L : TickLawsIeee F) (p : Params F) (d : F)
    (ht : Scalar.lt (0 : F) p.tickDist = true) (hd : Scalar.lt (0 : F) d = true)
    (hfix : Scalar.lt d (d + p.tickDist) = false)
    (h1 : Scalar.le d p.len = true) (h2 : Scalar.ge d (p.len - p.minDistFromEnd) = false) :
    ∀ fuel, tickDists p fuel d = none := by
  rcases (tick_step_ieee L p.tickDist d ht hd).2.2 with hlt | hfix'
  · rw [hlt] at hfix; cases hfix
  · exact tickDists_stuck p d hfix' h1 h2

end Ieee

/-! ## `Float` -/

/-- **span_tick_dists_increasing_float**: in IEEE binary64, whenever `generate_ticks`' loop terminates within the
fuel, the tick distances `d₁, d₂, …` of a span satisfy `d₁ = tick_dist`, `d_{i+1} = d_i + tick_dist` (one rounded
addition each), are **strictly** increasing in IEEE `<`, and each is a number with
`0 < tick_dist ≤ d ≤ len` and not `d ≥ len − min_dist`. -/
theorem span_tick_dists_increasing_float (p : Params Float) (fuel : Nat) (ds : List Float)
    (h : spanTickDists p fuel = some ds) :
    ds.Pairwise (fun a b => Scalar.lt a b = true) ∧
    (∀ d ∈ ds, Scalar.isNaN d = false ∧ Scalar.lt (0 : Float) d = true ∧ Scalar.le p.tickDist d = true ∧
      Scalar.le d p.len = true ∧ Scalar.ge d (p.len - p.minDistFromEnd) = false) ∧
    (∀ h0 : 0 < ds.length, ds[0] = p.tickDist) ∧
    (∀ (i : Nat) (hi : i + 1 < ds.length), ds[i + 1] = ds[i] + p.tickDist) :=
  span_tick_dists_increasing_ieee tickLawsIeee_float p fuel ds h

/-- one turn of the loop in binary64: never decreasing, and strict unless the increment is absorbed by rounding. -/
theorem tick_step_float (t d : Float) (ht : Scalar.lt (0 : Float) t = true) (hd : Scalar.lt (0 : Float) d = true) :
    Scalar.le d (d + t) = true ∧ Scalar.lt (0 : Float) (d + t) = true ∧
    (Scalar.lt d (d + t) = true ∨ d + t = d) :=
  tick_step_ieee tickLawsIeee_float t d ht hd

/-- **the fuel outcome in binary64**: if a loop value `0 < d` passes both guards (`d <= len`, not
`d >= len − min_dist`) and `d + tick_dist` is not `> d` (i.e. `d + tick_dist == d`), then the model answers
`none` = fuel-exhausted for every fuel: the Rust loop `while d <= len { … d += tick_dist }` does not terminate. -/
theorem tick_loop_stuck_float (p : Params Float) (d : Float)
    (ht : Scalar.lt (0 : Float) p.tickDist = true) (hd : Scalar.lt (0 : Float) d = true)
    (hfix : Scalar.lt d (d + p.tickDist) = false)
    (h1 : Scalar.le d p.len = true) (h2 : Scalar.ge d (p.len - p.minDistFromEnd) = false) :
    ∀ fuel, tickDists p fuel d = none :=
  tickDists_stuck_ieee tickLawsIeee_float p d ht hd hfix h1 h2

/-! ## Part 2 — tick times within a span -/

/-- the time of the tick at distance `d` in span `s`. -/
theorem tickEvent_time (p : Params Float) (s : Int) (d : Float) :
    (tickEvent p s d).time =
      spanStart p s + (if isReversed s then (1 : Float) - d / p.len else d / p.len) * p.spanDuration := by
  unfold tickEvent mkTick
  by_cases hr : isReversed s = true <;> simp [hr]

/-- **tick times are monotone in the tick distance**, binary64: for `0 < len`, `0 ≤ span_duration` and tick distances
`a ≤ b` whose tick times are numbers, the tick of `a` is not later than the tick of `b` on a forward span and not
earlier on a reversed span — each of the three roundings (`/ len`, `· span_duration`, `span_start + ·`, and
`1 − ·` on reversed spans) is monotone. -/
theorem tickEvent_time_mono_float (p : Params Float) (s : Int) (a b : Float)
    (hlen : Scalar.lt (0 : Float) p.len = true) (hdur : Scalar.le (0 : Float) p.spanDuration = true)
    (hab : Scalar.le a b = true)
    (hna : Scalar.isNaN (tickEvent p s a).time = false) (hnb : Scalar.isNaN (tickEvent p s b).time = false) :
    if isReversed s then Scalar.le (tickEvent p s b).time (tickEvent p s a).time = true
    else Scalar.le (tickEvent p s a).time (tickEvent p s b).time = true := by
  rw [tickEvent_time] at hna hnb ⊢
  rw [tickEvent_time]
  by_cases hr : isReversed s = true
  · simp only [hr, if_true] at hna hnb ⊢
    have ma := (FAM.not_nan_of_add_float _ _ hna).2
    have mb := (FAM.not_nan_of_add_float _ _ hnb).2
    have sa := (FAM.not_nan_of_mul_float _ _ ma).1
    have sb := (FAM.not_nan_of_mul_float _ _ mb).1
    have da := (FAM.not_nan_of_sub_float _ _ sa).2
    have db := (FAM.not_nan_of_sub_float _ _ sb).2
    have h1 := FAM.div_le_div_right_float a b p.len hab hlen da db
    have h2 := FAM.sub_le_sub_left_float (1 : Float) _ _ (by decide +kernel) h1 sa sb
    have h3 := FAM.mul_le_mul_right_float _ _ p.spanDuration h2 hdur mb ma
    exact FAM.add_le_add_left_float (spanStart p s) _ _ h3 hnb hna
  · simp only [hr, Bool.false_eq_true, if_false] at hna hnb ⊢
    have ma := (FAM.not_nan_of_add_float _ _ hna).2
    have mb := (FAM.not_nan_of_add_float _ _ hnb).2
    have da := (FAM.not_nan_of_mul_float _ _ ma).1
    have db := (FAM.not_nan_of_mul_float _ _ mb).1
    have h1 := FAM.div_le_div_right_float a b p.len hab hlen da db
    have h3 := FAM.mul_le_mul_right_float _ _ p.spanDuration h1 hdur ma mb
    exact FAM.add_le_add_left_float (spanStart p s) _ _ h3 hna hnb

/-- **ticks_chronological_float**: in IEEE binary64, for `0 ≤ span_duration`, the ticks of every span — forward or
reversed — come in non-decreasing time, provided their times are numbers (no `∞ − ∞`, `0 · ∞` in
`span_start + progress · span_duration`). Strictness is lost to rounding: two ticks may get the same time. -/
theorem ticks_chronological_float (p : Params Float) (fuel : Nat) (ds : List Float)
    (h : spanTickDists p fuel = some ds) (hdur : Scalar.le (0 : Float) p.spanDuration = true) (s : Int)
    (hn : ∀ d ∈ ds, Scalar.isNaN (tickEvent p s d).time = false) :
    (spanTicks p ds s).Pairwise (fun a b => Scalar.le a.time b.time = true) := by
  obtain ⟨hinc, hall, _, _⟩ := span_tick_dists_increasing_float p fuel ds h
  have hlen : ∀ d ∈ ds, Scalar.lt (0 : Float) p.len = true := fun d hd =>
    FMO.lt_of_lt_of_le _ _ _ (hall d hd).2.1 (hall d hd).2.2.2.1
  have hle : ds.Pairwise (fun a b => Scalar.le a b = true) := hinc.imp (fun h => FMO.le_of_lt _ _ h)
  rw [spanTicks_eq]
  by_cases hr : isReversed s = true
  · simp only [hr, if_true]
    rw [List.pairwise_map]
    have hrev : ds.reverse.Pairwise (fun a b => Scalar.le b a = true) := List.pairwise_reverse.mpr hle
    refine List.Pairwise.imp_of_mem ?_ hrev
    intro a b ha hb hba
    have ha' := List.mem_reverse.mp ha
    have hb' := List.mem_reverse.mp hb
    have := tickEvent_time_mono_float p s b a (hlen a ha') hdur hba (hn b hb') (hn a ha')
    rw [hr] at this
    exact this
  · simp only [hr, Bool.false_eq_true, if_false]
    rw [List.pairwise_map]
    refine List.Pairwise.imp_of_mem ?_ hle
    intro a b ha hb hab
    have := tickEvent_time_mono_float p s a b (hlen a ha) hdur hab (hn a ha) (hn b hb)
    simp only [hr, Bool.false_eq_true, if_false] at this
    exact this

/-! ## Part 3 — the clamps of `SliderEventsIter::new`, positivity, zero tick distance, every span alike -/

section Clamps
variable {F : Type} [Scalar F] [FMO.IeeeOrd F]

/-- **the clamps of `SliderEventsIter::new`** in IEEE arithmetic (`MAX_LEN = 100000` a number): a successful `new`
leaves `0 ≤ len ≤ 100000` (so `len` is finite), `min_dist_from_end = 10·velocity`, and a tick distance that, when it
passes the `> 0.0` test of `generate_ticks`, is `≤ len`. Nothing bounds a positive tick distance from *below*. -/
theorem new_clamps_ieee {start dur vel td total : F} {n : Int} {p : Params F}
    (hmax : Scalar.isNaN (maxLen : F) = false)
    (h : Params.new start dur vel td total n = some p) :
    Scalar.le (0 : F) p.len = true ∧ Scalar.le p.len (maxLen : F) = true ∧
    p.minDistFromEnd = vel * (10 : F) ∧
    (Scalar.lt (0 : F) p.tickDist = true → Scalar.le p.tickDist p.len = true) := by
  simp only [Params.new] at h
  split at h
  · rename_i h0
    simp only [Option.some.injEq] at h
    subst h
    simp only []
    have hlen : Scalar.le (Scalar.min (maxLen : F) total) (maxLen : F) = true := by
      unfold Scalar.min
      cases hlt : Scalar.lt total (maxLen : F)
      · simp only [Bool.false_eq_true, if_false, hmax]
        exact FMO.le_refl _ hmax
      · simp only [if_true]
        exact FMO.le_of_lt _ _ hlt
    refine ⟨h0, hlen, trivial, fun ht => ?_⟩
    have hnl := (FMO.not_nan_of_le h0).2
    have hw := (FMO.clamp_within td (0 : F) (Scalar.min (maxLen : F) total) (FMO.not_lt_of_le _ _ h0)).2
    exact FMO.le_of_not_lt _ _ hnl (FMO.not_nan_of_lt ht).2 hw
  · cases h

/-- **no ticks without a positive tick distance** (fuel-free): a tick distance that is `== 0` (`+0` or `−0`, what the
clamp leaves of a non-positive one), negative, or NaN fails `tick_dist > 0.0`. -/
theorem zero_tick_distance_no_ticks_ieee (p : Params F) (fuel : Nat)
    (h : Scalar.eq p.tickDist (0 : F) = true ∨ Scalar.isNaN p.tickDist = true ∨ Scalar.lt p.tickDist (0 : F) = true) :
    spanTickDists p fuel = some [] := by
  apply spanTickDists_of_not_pos
  rcases h with h | h | h
  · rw [FMO.lt_congr_right _ _ _ h]; exact FMO.lt_irrefl _
  · exact FMO.lt_nan_right _ _ h
  · exact FMO.lt_asymm _ _ h

end Clamps

/-- the clamps for binary64. -/
theorem new_clamps_float {start dur vel td total : Float} {n : Int} {p : Params Float}
    (h : Params.new start dur vel td total n = some p) :
    Scalar.le (0 : Float) p.len = true ∧ Scalar.le p.len (100000 : Float) = true ∧
    p.minDistFromEnd = vel * (10 : Float) ∧
    (Scalar.lt (0 : Float) p.tickDist = true → Scalar.le p.tickDist p.len = true) :=
  new_clamps_ieee (by decide +kernel) h

/-- **every emitted tick distance after `new`, binary64**: `0 < tick_dist ≤ d`, `d ≤ len ≤ 100000` (hence finite) and
`d` is not `≥ len − 10·velocity`; the list is strictly increasing. -/
theorem ticks_after_new_float {start dur vel td total : Float} {n : Int} {p : Params Float}
    (hnew : Params.new start dur vel td total n = some p) (fuel : Nat) (ds : List Float)
    (h : spanTickDists p fuel = some ds) :
    ds.Pairwise (fun a b => Scalar.lt a b = true) ∧
    ∀ d ∈ ds, Scalar.lt (0 : Float) d = true ∧ Scalar.le p.tickDist d = true ∧ Scalar.le d (100000 : Float) = true ∧
      d.toModel.unpack.isFinite = true ∧ Scalar.ge d (p.len - vel * (10 : Float)) = false := by
  obtain ⟨hinc, hall, _, _⟩ := span_tick_dists_increasing_float p fuel ds h
  obtain ⟨_, hlen, hmin, _⟩ := new_clamps_float hnew
  refine ⟨hinc, fun d hd => ?_⟩
  obtain ⟨_, hpos, hle, hdl, hge⟩ := hall d hd
  have h100 := FMO.le_trans _ _ _ hdl hlen
  refine ⟨hpos, hle, h100, ?_, by rw [← hmin]; exact hge⟩
  exact FMO.finite_of_bounds_float (0 : Float) (100000 : Float) d (by decide +kernel) (by decide +kernel)
    (FMO.not_nan_of_lt hpos).2 (FMO.lt_asymm _ _ hpos) (FMO.not_lt_of_le _ _ h100)

/-- **zero tick distance ⇒ no ticks**, binary64 (`±0`, negative, NaN), for every fuel. -/
theorem zero_tick_distance_no_ticks_float (p : Params Float) (fuel : Nat)
    (h : Scalar.eq p.tickDist (0 : Float) = true ∨ Scalar.isNaN p.tickDist = true ∨
      Scalar.lt p.tickDist (0 : Float) = true) :
    spanTickDists p fuel = some [] :=
  zero_tick_distance_no_ticks_ieee p fuel h

/-- **identical placement on every span**, binary64 (an instance of the structural `same_ticks_every_span`): read along
the path, the tick progress values of span `s` are `ds.map (· / len)` whatever `s`; in time they are mirrored on odd
spans (`ticks_mirrored_on_odd_spans`). -/
theorem same_ticks_every_span_float (p : Params Float) (ds : List Float) (s : Int) :
    pathOrder s ((spanTicks p ds s).map (·.pathProgress)) = ds.map (· / p.len) :=
  same_ticks_every_span p ds s

/-- **the stream in binary64**: for `span_count ≥ 0`, once the fuel suffices for the tick loop, the iterator yields
`head :: spans ++ [lastTick, tail]` built from one list `ds` of tick distances with the properties of
`ticks_after_new_float`; and with a tick distance that fails `> 0.0` the stream has no tick at all. -/
theorem stream_ticks_float (start dur vel td total : Float) (n : Int) (buf : List (SliderEvent Float))
    (fuel N : Nat) (it : Iter Float) (ds : List Float)
    (hnew : Iter.new start dur vel td total n buf = some it) (hn : 0 ≤ n)
    (hfuel : spanTickDists it.toParams fuel = some ds)
    (hN : (eventsOf it.toParams ds).length < N) :
    collect fuel N it = some (eventsOf it.toParams ds) ∧
    ds.Pairwise (fun a b => Scalar.lt a b = true) ∧
    (∀ d ∈ ds, Scalar.lt (0 : Float) d = true ∧ Scalar.le it.tickDist d = true ∧
      Scalar.le d (100000 : Float) = true ∧ Scalar.ge d (it.len - vel * (10 : Float)) = false) ∧
    (Scalar.lt (0 : Float) it.tickDist = false → ds = []) := by
  have hp : Params.new start dur vel td total n = some it.toParams := by
    unfold Iter.new at hnew
    cases hp : Params.new start dur vel td total n with
    | none => simp [hp] at hnew
    | some p =>
      simp only [hp, Option.map_some, Option.some.injEq] at hnew
      subst hnew; rfl
  obtain ⟨h1, h2⟩ := ticks_after_new_float hp fuel ds hfuel
  refine ⟨stream_shape start dur vel td total n buf fuel N it ds hnew hn hfuel hN, h1, ?_, ?_⟩
  · intro d hd
    obtain ⟨a, b, c, _, e⟩ := h2 d hd
    exact ⟨a, b, c, e⟩
  · intro h0
    have := spanTickDists_of_not_pos it.toParams fuel h0
    rw [this] at hfuel
    cases hfuel; rfl

/-! ## non-vacuity (closed binary64 instances, evaluated by the kernel) -/

section Examples

/-- the `non_even_ticks` unit test of event.rs in binary64. -/
def exF : Params Float :=
  { startTime := 0, spanDuration := 1000, minDistFromEnd := 10, tickDist := 300, len := 1000, spanCount := 2 }

example : Params.new (0 : Float) 1000 1 300 1000 2 = some exF := by decide +kernel
example : spanTickDists exF 5 = some [300, 600, 900] := by decide +kernel

/-- a tick distance that is not a dyadic rational: the rounded sums `0.1, 0.1+0.1, (0.1+0.1)+0.1, …` up to
`len − min_dist = 0.75`; the hypothesis of `span_tick_dists_increasing_float` holds with seven ticks, and the sixth
one (`0.6 = 0x3FE3333333333333`) is **not** `6 · 0.1` rounded (`0.6000000000000001 = 0x3FE3333333333334`):
`ticks_at_multiples` is false of the running code. -/
def exG : Params Float :=
  { startTime := 0, spanDuration := 1000, minDistFromEnd := 0.25, tickDist := 0.1, len := 1, spanCount := 1 }

example : (spanTickDists exG 20).map (·.map Float.toBits) =
    some [0x3FB999999999999A, 0x3FC999999999999A, 0x3FD3333333333334, 0x3FD999999999999A, 0x3FE0000000000000,
          0x3FE3333333333333, 0x3FE6666666666666] := by decide +kernel
example : ((6 : Float) * exG.tickDist).toBits = 0x3FE3333333333334 := by decide +kernel

/-- hypotheses of `tick_loop_stuck_float` on a closed instance that `SliderEventsIter::new` produces: `len = 100000`
(the clamp), `tick_dist = 5e-324` (the smallest positive double; the clamp `[0, len]` keeps it), velocity 1.
At `d = 2⁵³ · 5e-324 = 2⁻¹⁰²¹` the sum `d + tick_dist` rounds back to `d`, far below `len − 10`. -/
def exStuck : Params Float :=
  { startTime := 0, spanDuration := 1000, minDistFromEnd := 10, tickDist := Float.ofBits 1, len := 100000,
    spanCount := 1 }

example : Params.new (0 : Float) 1000 1 (Float.ofBits 1) 1e9 1 = some exStuck := by decide +kernel

example : Scalar.lt (0 : Float) exStuck.tickDist = true ∧
    Scalar.lt (0 : Float) (Float.ofBits 0x0020000000000000) = true ∧
    Scalar.lt (Float.ofBits 0x0020000000000000) (Float.ofBits 0x0020000000000000 + exStuck.tickDist) = false ∧
    Scalar.le (Float.ofBits 0x0020000000000000) exStuck.len = true ∧
    Scalar.ge (Float.ofBits 0x0020000000000000) (exStuck.len - exStuck.minDistFromEnd) = false := by decide +kernel

/-- … so from that `d` on the model is out of fuel for every fuel. -/
example : ∀ fuel, tickDists exStuck fuel (Float.ofBits 0x0020000000000000) = none :=
  tick_loop_stuck_float exStuck _ (by decide +kernel) (by decide +kernel) (by decide +kernel) (by decide +kernel)
    (by decide +kernel)

/-- the same absorption with everyday magnitudes: `d = 65536`, `tick_dist = 7e-12 < ulp(d)/2 = 2⁻³⁷`. -/
example : Scalar.lt (65536 : Float) ((65536 : Float) + 7e-12) = false ∧
    Scalar.eq ((65536 : Float) + 7e-12) 65536 = true := by decide +kernel

/-- `zero_tick_distance_no_ticks_float`: `−0.0` is `== 0`. -/
example : Scalar.eq (Float.ofBits 0x8000000000000000) (0 : Float) = true := by decide +kernel

/-- `stream_ticks_float` on the unit test: ten events. -/
example : (collect 5 11 (⟨exF, [], .head⟩ : Iter Float)).map (·.map fun e => (e.kind, e.spanIdx, e.time.toBits)) =
    some [(.head, 0, (0 : Float).toBits), (.tick, 0, (300 : Float).toBits), (.tick, 0, (600 : Float).toBits),
          (.tick, 0, (900 : Float).toBits), (.repeatPt, 0, (1000 : Float).toBits), (.tick, 1, (1100 : Float).toBits),
          (.tick, 1, (1400 : Float).toBits), (.tick, 1, (1700 : Float).toBits), (.lastTick, 1, (1964 : Float).toBits),
          (.tail, 1, (2000 : Float).toBits)] := by decide +kernel

/-- hypotheses of `ticks_chronological_float` on the unit test (forward span 0, reversed span 1). -/
example : Scalar.le (0 : Float) exF.spanDuration = true ∧
    (∀ d ∈ [(300 : Float), 600, 900], Scalar.isNaN (tickEvent exF 0 d).time = false) ∧
    (∀ d ∈ [(300 : Float), 600, 900], Scalar.isNaN (tickEvent exF 1 d).time = false) := by decide +kernel

/-- strictness is lost in binary64: at `start_time = 1e20` (ulp 16384) all three ticks of a 1000 ms span share one time —
the strict `ticks_chronological` of Props/C20.lean (exact arithmetic) is false of the running code. -/
example : (spanTicks { exF with startTime := 1e20 } [300, 600, 900] 0).map (·.time.toBits) =
    [(1e20 : Float).toBits, (1e20 : Float).toBits, (1e20 : Float).toBits] := by decide +kernel

/-- **across spans the binary64 stream need not be chronological.** `new(0.3, 333.3, velocity, 1e-14, 100, 3 spans)`:
the repeat ending span 1 is at `(0.3 + 1·333.3) + 333.3 = 666.9000000000001`, span 2 starts at
`0.3 + 2·333.3 = 666.9`, one ulp earlier, and its first tick (progress `1e-16`) is absorbed into that start time: the
event after the repeat is earlier than the repeat. (Inside each span the order holds, `ticks_chronological_float`.) -/
theorem stream_not_chronological_float_witness :
    ((Iter.new (0.3 : Float) 333.3 9.999999999999998 1e-14 100 3 []).bind (collect 10 30)).map
      (fun evs => (evs.map (·.kind), decide (evs.Pairwise (fun a b => Scalar.le a.time b.time = true)))) =
    some ([.head, .tick, .repeatPt, .tick, .repeatPt, .tick, .lastTick, .tail], false) := by decide +kernel

end Examples

/-! ## an input on which the Rust loop does not terminate

`tick_loop_stuck_float` needs a loop value at which the increment is absorbed. For `tick_dist = 5e-324` (bit pattern 1)
it is *reached*: the loop values are the doubles with bit patterns `1, 2, 3, …` (`k · 2⁻¹⁰⁷⁴`, every addition exact) up to
`2⁵³`, where `2⁵³ + 1` is a tie that rounds to even, i.e. back to `2⁵³`. Proved for every fuel, without running the
`2⁵³` turns. -/

section Diverge
open Float.Model Float.Model.UnpackedFloat

/-- the double with bit pattern `k`: for `k < 2⁵³` this is `k · 2⁻¹⁰⁷⁴` (subnormals and the first normal binade). -/
def tb (k : Nat) : Float := Float.ofBits (UInt64.ofNat k)

theorem tb_unpack (k : Nat) (h0 : 0 < k) (hk : k < 2 ^ 53) :
    FMR.IsFin (tb k).toModel.unpack .positive k (-1074) := by
  have hn : (UInt64.ofNat k).toNat = k := by
    rw [UInt64.toNat_ofNat']; exact Nat.mod_eq_of_lt (by omega)
  unfold tb
  rw [FM.float_unpack_ofBits _ (by rw [hn]; omega), hn]
  unfold FM.unpackNat
  by_cases hs : k < 2 ^ 52
  · have h1 : k / 2 ^ 52 = 0 := Nat.div_eq_of_lt hs
    have h2 : k % 2 ^ 52 = k := Nat.mod_eq_of_lt hs
    have h3 : k / 2 ^ (52 + 11) = 0 := Nat.div_eq_of_lt (by omega)
    simp only [h1, h2, h3]
    rw [if_neg (by decide), if_pos (by decide), dif_neg (by omega)]
    exact ⟨_, rfl⟩
  · have h1 : k / 2 ^ 52 = 1 := by omega
    have h2 : 2 ^ 52 + k % 2 ^ 52 = k := by omega
    have h3 : k / 2 ^ (52 + 11) = 0 := Nat.div_eq_of_lt (by omega)
    simp only [h1, h2, h3]
    rw [if_neg (by decide), if_neg (by decide)]
    exact ⟨_, rfl⟩

/-- below `2⁵³ · 5e-324` adding the smallest double is exact. -/
theorem tb_add_one (k : Nat) (h0 : 0 < k) (hk : k + 1 < 2 ^ 53) : tb k + tb 1 = tb (k + 1) := by
  apply FTL.float_ext
  obtain ⟨p1, e1⟩ := tb_unpack k h0 (by omega)
  obtain ⟨p2, e2⟩ := tb_unpack 1 (by omega) (by omega)
  obtain ⟨p3, e3⟩ := tb_unpack (k + 1) (by omega) hk
  rw [FAM.float_add_unpack, e1, e2, e3, FMR.add_fin]
  have hc : FMR.CanonFin Format.binary64 (k + 1) (-1074) := ⟨hk, by decide, Or.inr (by decide)⟩
  have hsum : Sign.positive.apply ((k * 2 ^ ((-1074 : Int) - min (-1074) (-1074)).toNat : Nat) : Int) +
      Sign.positive.apply ((1 * 2 ^ ((-1074 : Int) - min (-1074) (-1074)).toNat : Nat) : Int) = ((k + 1 : Nat) : Int) := by
    simp [Sign.apply]
  rw [hsum, Int.min_self, FMR.normalize_pos _ _ _ _ (by omega), Int.toNat_natCast,
    FAM.round_canon_id _ _ _ _ p3 hc]
  rcases FMR.repack_canon Format.binary64 (by decide) (.finite .positive (k + 1) (-1074) p3) hc with h | ⟨_, _, _, _, _, hnr, _⟩
  · exact h
  · exfalso; apply hnr
    show (-1074 : Int) + ((Format.binary64.exponentBias : Nat) : Int) +
      ((Format.binary64.mantissaBitsWithoutImplicit : Nat) : Int) + 1 < ((2 ^ Format.binary64.exponentBits : Nat) : Int)
    decide

theorem tb_le_top (k : Nat) (h0 : 0 < k) (hk : k < 2 ^ 53) : Scalar.le (tb k) (tb (2 ^ 53 - 1)) = true := by
  rw [FMO.le_float]
  obtain ⟨p1, e1⟩ := tb_unpack k h0 hk
  obtain ⟨p2, e2⟩ := tb_unpack (2 ^ 53 - 1) (by decide) (by decide)
  rw [e1, e2]
  exact FMR.le_fin_pos (Or.inr ⟨rfl, by omega⟩) p1 p2

/-- the parameters `SliderEventsIter::new(0, 1000, 1, 5e-324, 1e9, 1)` produces (`exStuck`): every loop value
`k · 5e-324`, `k ≤ 2⁵³`, passes both guards, the additions are exact up to `2⁵³ · 5e-324` and absorbed there. -/
theorem exStuck_loop : ∀ (j k : Nat), k + j = 2 ^ 53 → 0 < k → ∀ fuel, tickDists exStuck fuel (tb k) = none
  | 0, k, hk, _ => by
    have : k = 2 ^ 53 := by omega
    subst this
    exact tick_loop_stuck_float exStuck _ (by decide +kernel) (by decide +kernel) (by decide +kernel)
      (by decide +kernel) (by decide +kernel)
  | j + 1, k, hk, h0 => by
    intro fuel
    cases fuel with
    | zero => rfl
    | succ fuel =>
      have hlt : k < 2 ^ 53 := by omega
      have htop := tb_le_top k h0 hlt
      have h1 : Scalar.le (tb k) exStuck.len = true :=
        FMO.le_trans _ _ _ htop (by decide +kernel)
      have h2 : Scalar.ge (tb k) (exStuck.len - exStuck.minDistFromEnd) = false := by
        cases hc : Scalar.ge (tb k) (exStuck.len - exStuck.minDistFromEnd) with
        | false => rfl
        | true =>
          have : Scalar.le (exStuck.len - exStuck.minDistFromEnd) (tb (2 ^ 53 - 1)) = true :=
            FMO.le_trans _ _ _ hc htop
          revert this
          decide +kernel
      have hstep : tb k + exStuck.tickDist = tb (k + 1) := by
        by_cases hk1 : k + 1 < 2 ^ 53
        · exact tb_add_one k h0 hk1
        · have : k = 2 ^ 53 - 1 := by omega
          subst this
          decide +kernel
      rw [tickDists, if_pos h1, if_neg (by simp [h2]), hstep, exStuck_loop j (k + 1) (by omega) (by omega) fuel]
      rfl

/-- **an input on which the Rust loop of `generate_ticks` does not terminate**: `SliderEventsIter::new(start = 0,
span_duration = 1000, velocity = 1, tick_dist = 5e-324, total_dist = 1e9, span_count = 1)` succeeds with `len = 100000`,
`tick_dist = 5e-324` (`exStuck`), and the tick loop exhausts **every** fuel: `d` climbs exactly through
`k · 5e-324` up to `2⁵³ · 5e-324 = 2⁻¹⁰²¹` and stays there (`d + tick_dist == d`, `d < len − 10`). -/
theorem tick_loop_diverges_float : ∀ fuel, spanTickDists exStuck fuel = none := by
  intro fuel
  unfold spanTickDists
  rw [if_pos (by decide +kernel)]
  exact exStuck_loop (2 ^ 53 - 1) 1 (by decide) (by decide) fuel

/-- … hence the model of the iterator reports fuel exhaustion for every fuel and every number of `next` calls ≥ 2. -/
theorem stream_diverges_float (fuel N : Nat) :
    ∀ it, Iter.new (0 : Float) 1000 1 (Float.ofBits 1) 1e9 1 [] = some it → collect fuel N it = none := by
  intro it hnew
  refine stream_fuel_exhausted (0 : Float) 1000 1 (Float.ofBits 1) 1e9 1 [] fuel N it hnew (by omega) ?_
  have hp : Params.new (0 : Float) 1000 1 (Float.ofBits 1) 1e9 1 = some exStuck := by decide +kernel
  have : it.toParams = exStuck := by
    unfold Iter.new at hnew
    rw [hp] at hnew
    simp only [Option.map_some, Option.some.injEq] at hnew
    subst hnew; rfl
  rw [this]
  exact tick_loop_diverges_float fuel

end Diverge

/-! ## termination when the tick distance is not tiny: what the clamp `len ≤ 100000` buys

Every loop value that reaches the body satisfies `0 < d ≤ len ≤ 100000 < 2¹⁷`, so its ulp is at most `2⁻³⁶`. A tick
distance `≥ 2⁻³⁶` is therefore never absorbed (`no_absorption_after_new_float`), each turn moves `d` to a strictly
larger double, and the loop terminates (`tick_loop_terminates_float`). Without the clamp (`len` up to `1.8e308`) every
tick distance can be absorbed; with it, non-termination (`tick_loop_diverges_float`) is confined to tick distances below
`2⁻³⁶ ≈ 1.46e-11` — which `new` does not exclude (it clamps to `[0, len]` only), and which encode.rs reaches with a
large `slider_tick_rate` (`tick_dist = scoring_dist / slider_tick_rate · …`). -/

section Terminate
open Float.Model Float.Model.UnpackedFloat

/-- `2⁻³⁶`, the ulp of the doubles in `[65536, 131072)`. -/
def ulp17 : Float := Float.ofBits 0x3DB0000000000000

theorem ulp17_unpack : ulp17.toModel.unpack = .finite .positive (2 ^ 52) (-88) (by decide) := by
  unfold ulp17
  rw [FM.float_unpack_ofBits _ (by decide)]
  rfl

theorem two17_unpack : (131072 : Float).toModel.unpack = .finite .positive (2 ^ 52) (-35) (by decide) := by
  have : (131072 : Float) = Float.ofBits 0x4100000000000000 := by decide +kernel
  rw [this, FM.float_unpack_ofBits _ (by decide)]
  rfl

theorem ult_fin_pos_iff {m m' : Nat} {e e' : Int} (h h') :
    (UnpackedFloat.finite .positive m e h).lt (.finite .positive m' e' h') = true ↔ (e < e' ∨ (e = e' ∧ m < m')) := by
  rw [FMO.ult_iff]
  simp only [UnpackedFloat.isNaN, FMO.key, FMO.KLt, true_and]
  omega

/-- a positive double below `2¹⁷`, unpacked: its exponent is at most `−36` (its ulp at most `2⁻³⁶`). -/
theorem small_pos_unpack (d : Float) (hd : Scalar.lt (0 : Float) d = true) (hd2 : Scalar.lt d (131072 : Float) = true) :
    ∃ m e h, d.toModel.unpack = .finite .positive m e h ∧ FMR.CanonFin Format.binary64 m e ∧ e ≤ -36 := by
  rw [FMO.lt_float] at hd hd2
  rw [FAM.float_zero_unpack] at hd
  rw [two17_unpack] at hd2
  have hc := FAM.float_canon d
  rcases FAM.pos_cases _ hd with ⟨m, e, h, he⟩ | he
  · rw [he] at hd2 hc
    refine ⟨m, e, h, he, hc, ?_⟩
    have := (ult_fin_pos_iff h (by decide)).mp hd2
    have hc' : FMR.CanonFin Format.binary64 m e := hc
    rcases hc'.norm with hn | hn
    · have : (2 : Nat) ^ (Format.binary64.mantissaBits - 1) = 2 ^ 52 := rfl
      omega
    · have : Format.binary64.minExponent = -1074 := by decide
      omega
  · rw [he] at hd2; cases hd2

/-- adding `2⁻³⁶` to a positive double below `2¹⁷` strictly increases it (it is at least one ulp). -/
theorem lt_add_ulp17 (d : Float) (hd : Scalar.lt (0 : Float) d = true) (hd2 : Scalar.lt d (131072 : Float) = true) :
    Scalar.lt d (d + ulp17) = true := by
  obtain ⟨m, e, hm, hun, hc, he⟩ := small_pos_unpack d hd hd2
  rw [FMO.lt_float, FAM.float_add_unpack, hun, ulp17_unpack, FMR.add_fin]
  generalize hmn : min e (-88 : Int) = mn
  obtain ⟨j, hj⟩ : ∃ j : Nat, (e - mn).toNat = j := ⟨_, rfl⟩
  obtain ⟨i, hi⟩ : ∃ i : Nat, ((-88 : Int) - mn).toNat = i := ⟨_, rfl⟩
  rw [hj, hi]
  have hsum : Sign.positive.apply ((m * 2 ^ j : Nat) : Int) + Sign.positive.apply ((2 ^ 52 * 2 ^ i : Nat) : Int) =
      ((m * 2 ^ j + 2 ^ 52 * 2 ^ i : Nat) : Int) := by simp [Sign.apply]
  have hpj := Nat.two_pow_pos j
  rw [hsum, FMR.normalize_pos _ _ _ _ (by have := Nat.mul_pos hm hpj; omega), Int.toNat_natCast]
  -- the successor of `d` is a canonical number not above the exact sum
  have hstep : 2 ^ j ≤ 2 ^ 52 * 2 ^ i := by
    rw [← Nat.pow_add]; exact Nat.pow_le_pow_right (by omega) (by omega)
  have hMB : (2 : Nat) ^ Format.binary64.mantissaBits = 2 ^ 53 := rfl
  have hMB1 : (2 : Nat) ^ (Format.binary64.mantissaBits - 1) = 2 ^ 52 := rfl
  have hmin : Format.binary64.minExponent = -1074 := by decide
  have hlt := hc.lt
  have hge := hc.ge
  have key : ∃ ma ea, FMR.CanonFin Format.binary64 ma ea ∧ 0 < ma ∧ (e < ea ∨ (e = ea ∧ m < ma)) ∧
      ∃ j' : Nat, ea = mn + j' ∧ ma * 2 ^ j' ≤ m * 2 ^ j + 2 ^ 52 * 2 ^ i := by
    by_cases hcarry : m + 1 < 2 ^ 53
    · refine ⟨m + 1, e, ⟨by rw [hMB]; exact hcarry, hge, ?_⟩, by omega, Or.inr ⟨rfl, by omega⟩, j, by omega, ?_⟩
      · rcases hc.norm with hn | hn
        · left; omega
        · exact Or.inr hn
      · rw [Nat.add_mul, Nat.one_mul]; omega
    · refine ⟨2 ^ 52, e + 1, ⟨by rw [hMB]; decide, by omega, Or.inl (by rw [hMB1]; exact Nat.le_refl _)⟩, by decide,
        Or.inl (by omega), j + 1, by omega, ?_⟩
      have : m + 1 = 2 ^ 53 := by omega
      have h2 : 2 ^ 52 * 2 ^ (j + 1) = (m + 1) * 2 ^ j := by
        rw [this, ← Nat.pow_add, ← Nat.pow_add]; congr 1; omega
      rw [h2, Nat.add_mul, Nat.one_mul]; omega
  obtain ⟨ma, ea, hca, hma, hlex, j', hj', hle⟩ := key
  obtain ⟨mr, er, ⟨pr, hfin⟩, hcr, hl⟩ := FMR.round_ge Format.binary64 .positive _ mn ma ea hca hma j' hj' hle
  rw [hfin]
  have hlt' : (UnpackedFloat.finite .positive m e hm).lt (.finite .positive mr er pr) = true := by
    rw [ult_fin_pos_iff]
    rcases hl with hl | ⟨hl, hl'⟩ <;> rcases hlex with hx | ⟨hx, hx'⟩ <;> omega
  rcases FAM.repack_cases Format.binary64 (by decide) (.finite .positive mr er pr) hcr with ⟨h1, _⟩ | ⟨s, _, _, _, hs, _, h1⟩
  · rw [h1]; exact hlt'
  · rw [h1]
    cases hs
    rfl

/-- **no absorption for `tick_dist ≥ 2⁻³⁶` below `2¹⁷`**: the step of the tick loop is strict. -/
theorem tick_step_strict_float (t d : Float) (ht : Scalar.le ulp17 t = true) (hd : Scalar.lt (0 : Float) d = true)
    (hd2 : Scalar.lt d (131072 : Float) = true) : Scalar.lt d (d + t) = true := by
  have h0d := FMO.le_of_lt _ _ hd
  have h0u : Scalar.le (0 : Float) ulp17 = true := by decide +kernel
  have h0t := FMO.le_trans _ _ _ h0u ht
  have n1 := C16.nonneg_not_nan_float _ (C16.add_nonneg_float d ulp17 h0d h0u)
  have n2 := C16.nonneg_not_nan_float _ (C16.add_nonneg_float d t h0d h0t)
  exact FMO.lt_of_lt_of_le _ _ _ (lt_add_ulp17 d hd hd2) (FAM.add_le_add_left_float d ulp17 t ht n1 n2)

/-- **what the clamp `len ≤ 100000` buys**: after `SliderEventsIter::new`, a tick distance `≥ 2⁻³⁶ ≈ 1.46e-11` is never
absorbed — every loop value `0 < d ≤ len` is strictly increased. (Absorption needs `tick_dist ≤ ulp(d)/2 ≤ 2⁻³⁷`.) -/
theorem no_absorption_after_new_float {start dur vel td total : Float} {n : Int} {p : Params Float}
    (hnew : Params.new start dur vel td total n = some p) (ht : Scalar.le ulp17 p.tickDist = true)
    (d : Float) (hd : Scalar.lt (0 : Float) d = true) (h1 : Scalar.le d p.len = true) :
    Scalar.lt d (d + p.tickDist) = true := by
  obtain ⟨_, hlen, _, _⟩ := new_clamps_float hnew
  exact tick_step_strict_float _ d ht hd
    (FMO.lt_of_le_of_lt _ _ _ (FMO.le_trans _ _ _ h1 hlen) (by decide +kernel))

theorem fval_lt_of_lt {x y : Float} (h : Scalar.lt x y = true) : FM.fval x < FM.fval y :=
  (FM.float_lt_iff x y (FMO.not_nan_of_lt h).1 (FMO.not_nan_of_lt h).2).mp (of_decide_eq_true h)

theorem fval_le_of_le {x y : Float} (h : Scalar.le x y = true) : FM.fval x ≤ FM.fval y :=
  (FM.float_le_iff x y (FMO.not_nan_of_le h).1 (FMO.not_nan_of_le h).2).mp (of_decide_eq_true h)

/-- the loop from a positive `d` terminates within `fval(100000) + 2 − fval(d)` turns (`fval` = the bit pattern of a
positive double read as an integer): each turn moves `d` to a strictly larger double. -/
theorem tickDists_terminates_float {start dur vel td total : Float} {n : Int} {p : Params Float}
    (hnew : Params.new start dur vel td total n = some p) (ht : Scalar.le ulp17 p.tickDist = true) :
    ∀ (k : Nat) (d : Float), Scalar.lt (0 : Float) d = true →
      FM.fval (100000 : Float) + 1 - FM.fval d ≤ (k : Int) → ∃ ds, tickDists p (k + 1) d = some ds := by
  obtain ⟨_, hlen, _, _⟩ := new_clamps_float hnew
  intro k
  induction k with
  | zero =>
    intro d hd hk
    rw [tickDists]
    split
    · rename_i hle
      have := fval_le_of_le (FMO.le_trans _ _ _ hle hlen)
      omega
    · exact ⟨[], rfl⟩
  | succ k ih =>
    intro d hd hk
    rw [tickDists]
    split
    · rename_i hle
      split
      · exact ⟨[], rfl⟩
      · have hlt := no_absorption_after_new_float hnew ht d hd hle
        have hv := fval_lt_of_lt hlt
        obtain ⟨ds, hds⟩ := ih (d + p.tickDist) (FMO.lt_trans _ _ _ hd hlt) (by omega)
        exact ⟨d :: ds, by rw [hds]; rfl⟩
    · exact ⟨[], rfl⟩

/-- **termination for `tick_dist ≥ 2⁻³⁶`**: for every input accepted by `SliderEventsIter::new` whose (clamped) tick
distance is at least `2⁻³⁶`, some fuel suffices for the tick loop — the Rust loop terminates (the bound, the number of
doubles between `tick_dist` and `100000`, is astronomically generous; in exact arithmetic `len / tick_dist` turns suffice). -/
theorem tick_loop_terminates_float {start dur vel td total : Float} {n : Int} {p : Params Float}
    (hnew : Params.new start dur vel td total n = some p) (ht : Scalar.le ulp17 p.tickDist = true) :
    ∃ fuel ds, spanTickDists p fuel = some ds := by
  have h0 : Scalar.lt (0 : Float) p.tickDist = true :=
    FMO.lt_of_lt_of_le _ _ _ (by decide +kernel : Scalar.lt (0 : Float) ulp17 = true) ht
  obtain ⟨ds, hds⟩ := tickDists_terminates_float hnew ht
    (FM.fval (100000 : Float) + 1 - FM.fval p.tickDist).toNat p.tickDist h0 (by omega)
  refine ⟨(FM.fval (100000 : Float) + 1 - FM.fval p.tickDist).toNat + 1, ds, ?_⟩
  unfold spanTickDists
  rw [if_pos (show Scalar.gt p.tickDist (0 : Float) = true from h0)]
  exact hds

/-- hypotheses of `tick_loop_terminates_float` on the unit test: `300 ≥ 2⁻³⁶`. -/
example : Params.new (0 : Float) 1000 1 300 1000 2 = some exF ∧ Scalar.le ulp17 exF.tickDist = true := by decide +kernel
/-- `ulp17` is `2⁻³⁶`: `ulp17 · 2³⁶ = 1`. -/
example : ulp17 * 68719476736 = (1 : Float) := by decide +kernel
/-- sharpness at the top binade below the clamp: `2⁻³⁷` (half an ulp of `65536`) is absorbed by the tie-to-even rule, so
the threshold `2⁻³⁶` cannot be lowered to `2⁻³⁷`. -/
example : Scalar.lt (65536 : Float) ((65536 : Float) + Float.ofBits 0x3DA0000000000000) = false ∧
    Float.ofBits 0x3DA0000000000000 * 2 = ulp17 := by decide +kernel

end Terminate

end Rosu.C20
