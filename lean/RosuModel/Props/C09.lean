/-
  Props/C09.lean — I/O faults are surfaced, never swallowed or turned into partial results.
  Read side: Model/Reader.lean + Model/Framing.lean (via Lemmas/ReaderSpec, Lemmas/LinesSpec);
  write side: Model/Writer.lean.
-/
import RosuModel.Lemmas.LinesSpec
import RosuModel.Model.Writer
namespace Rosu.C09
open Rosu

variable {σ : Type}

/-! ## Read side -/

/-- `read_bom` fails only with the schedule's first fatal error, and otherwise leaves it ahead. -/
theorem readBom_fault (s : Sched) :
    (∃ k, (readBomPush s).1 = .error k ∧ Sched.firstFail s = some k) ∨
    (rdIsOk (readBomPush s).1 = true ∧ Sched.firstFail (readBomPush s).2 = Sched.firstFail s) := by
  obtain ⟨h1, h2⟩ := readBomPush_spec s
  cases hb : (readBomPush s).1 with
  | ok enc =>
    right
    rw [hb] at h2
    exact ⟨rfl, (h2 rfl).2⟩
  | error k =>
    left
    refine ⟨k, rfl, ?_⟩
    rw [hb] at h1
    unfold bomSpec at h1
    split at h1
    · cases hf : Sched.firstFail s with
      | none => rw [hf] at h1; simp at h1
      | some k' => rw [hf] at h1; simp at h1; rw [h1]
    · simp at h1

/-- with a fatal error ahead the `read_line` loop either fails with it or returns a non-empty line. -/
theorem rawLoop_fault (enc : Encoding) (k : IoKind) (f : Nat) (bs buf : List UInt8)
    (h : buf ≠ [] ∨ 0 < f) :
    (rawLoop enc (some k) f bs buf).1 = .error k ∨
    ∃ b, (rawLoop enc (some k) f bs buf).1 = .ok b ∧ b ≠ [] := by
  induction f generalizing bs buf with
  | zero =>
    cases h with
    | inl hb => right; exact ⟨buf, rfl, hb⟩
    | inr h0 => omega
  | succ n ih =>
    simp only [rawLoop, untilSpec]
    cases hs : splitAtLF bs with
    | mk p o =>
      cases o with
      | none => left; rfl
      | some rest =>
        have hne : buf ++ p ≠ [] := by
          have := splitAtLF_some_ne_nil hs
          simp [this]
        have fin : ∀ r : List UInt8,
            ((Except.ok (buf ++ p) : Except IoKind (List UInt8)), r).1 = .error k ∨
            ∃ b, ((Except.ok (buf ++ p) : Except IoKind (List UInt8)), r).1 = .ok b ∧ b ≠ [] :=
          fun r => Or.inr ⟨buf ++ p, rfl, hne⟩
        simp only []
        split
        · exact fin _
        · split
          · exact fin _
          · cases enc with
            | utf8 => exact fin _
            | utf16be =>
              simp only []
              split
              · exact fin _
              · exact ih rest (buf ++ p) (Or.inl hne)
            | utf16le =>
              simp only []
              split
              · cases rest with
                | nil => left; rfl
                | cons c r =>
                  simp only [nextByteSpec]
                  split
                  · right; exact ⟨buf ++ p ++ [c], rfl, by simp⟩
                  · exact ih r (buf ++ p ++ [c]) (Or.inl (by simp))
              · exact ih rest (buf ++ p) (Or.inl hne)

/-- with a fatal error ahead, reading lines ends in exactly that error: `read_line` never reports
end of input before reaching it. -/
theorem linesSpec_fault (enc : Encoding) (k : IoKind) (bs : List UInt8) :
    (linesSpec enc (some k) bs).2 = some k := by
  suffices h : ∀ n, ∀ bs : List UInt8, bs.length ≤ n → (linesSpec enc (some k) bs).2 = some k from
    h _ bs (Nat.le_refl _)
  intro n
  induction n with
  | zero =>
    intro bs hl
    have : bs = [] := List.eq_nil_of_length_eq_zero (by omega)
    subst this
    rw [linesSpec_unfold]; simp [rawSpec, rawLoop, untilSpec, splitAtLF]
  | succ n ih =>
    intro bs hl
    rw [linesSpec_unfold]
    have hlp := rawLoop_fault enc k (bs.length + 1) bs [] (Or.inr (Nat.succ_pos _))
    cases hq : rawSpec enc bs (some k) with
    | mk r rest =>
      have hlt : ∀ buf, r = .ok (some buf) → rest.length < bs.length := fun buf e => rawSpec_some_lt (e ▸ hq)
      unfold rawSpec at hq
      cases hv : rawLoop enc (some k) (bs.length + 1) bs [] with
      | mk r0 rest0 =>
        rw [hv] at hq hlp
        cases hlp with
        | inl he =>
          simp only at he
          subst he
          simp at hq
          rw [← hq.1]
        | inr ho =>
          obtain ⟨b, hb, hne⟩ := ho
          simp only at hb
          subst hb
          have : b.isEmpty = false := by cases b <;> simp_all
          simp [this] at hq
          obtain ⟨q1, q2⟩ := hq
          subst q1
          simp only []
          exact ih rest (by have := hlt b rfl; omega)

/-- **A fatal reader error is surfaced.** Whatever the schedule — chunking, interruptions, position
of the fault, even after the last byte — `decode` returns the schedule's first fatal error, never
`Ok` with a partially filled map. (`decode` always reads to end of input, so the fault is always
reached.) -/
theorem read_fault_surfaces (D : LineDecoder σ) (s : Sched) (k : IoKind)
    (h : Sched.firstFail s = some k) : decodeSched D s = .error k := by
  rw [decodeSched_eq]
  cases readBom_fault s with
  | inl hl =>
    obtain ⟨k', h1, h2⟩ := hl
    rw [h] at h2
    cases hb : readBomPush s with
    | mk r s1 =>
      rw [hb] at h1
      simp only at h1
      subst h1
      simp_all
  | inr hr =>
    obtain ⟨h1, h2⟩ := hr
    cases hb : readBomPush s with
    | mk r s1 =>
      rw [hb] at h1 h2
      simp only at h1 h2
      cases r with
      | error k' => simp [rdIsOk] at h1
      | ok enc =>
        simp only []
        rw [h2, h]
        have := linesSpec_fault enc k (Sched.pre s1)
        cases hl : linesSpec enc (some k) (Sched.pre s1) with
        | mk ls e => rw [hl] at this; simp only at this; subst this; rfl

example : Sched.firstFail [.chunk [0x5B, 0x47, 0x5D, 0x0A], .intr, .fail .timedOut, .chunk [0x41]] = some .timedOut := rfl

/-- a fault of kind `UnexpectedEof` right after the 0x0A byte of a UTF-16LE line feed is surfaced
like any other (the extra byte is taken with `next_byte`, not `read_exact`). -/
example (D : LineDecoder σ) :
    decodeSched D [.chunk [0xFF, 0xFE, 0x41, 0x00, 0x0A], .fail .unexpectedEof, .chunk [0x00]] = .error .unexpectedEof :=
  read_fault_surfaces D _ _ rfl

/-- no partial result: success means the reader never failed. -/
theorem ok_means_no_fault (D : LineDecoder σ) (s : Sched) (st : σ)
    (h : decodeSched D s = .ok st) : Sched.firstFail s = none := by
  cases hf : Sched.firstFail s with
  | none => rfl
  | some k => rw [read_fault_surfaces D s k hf] at h; cases h

/-- `Interrupted` results do not count as faults and do not change which fault is surfaced. -/
theorem interrupted_not_a_fault (D : LineDecoder σ) (s : Sched) :
    decodeSched D (dropIntr s) = decodeSched D s := by
  rw [decodeSched_spec, decodeSched_spec, pre_dropIntr, firstFail_dropIntr]

/-- without a fault `read_line` does not fail, in any encoding, on any bytes. -/
theorem rawSpec_nofault (enc : Encoding) (bs : List UInt8) : rdIsOk (rawSpec enc bs none).1 = true := by
  cases enc with
  | utf8 =>
    rw [rawSpec_utf8]
    cases hs : splitAtLF bs with
    | mk p o => cases o <;> simp only [] <;> (try split) <;> rfl
  | utf16be =>
    have := rawSpec_utf16 false bs
    simp only [Bool.false_eq_true, if_false] at this
    rw [this]; split <;> rfl
  | utf16le =>
    have := rawSpec_utf16 true bs
    simp only [if_true] at this
    rw [this]; split <;> rfl

theorem linesSpec_nofault (enc : Encoding) (bs : List UInt8) : (linesSpec enc none bs).2 = none := by
  suffices h : ∀ n, ∀ bs : List UInt8, bs.length ≤ n → (linesSpec enc none bs).2 = none from
    h _ bs (Nat.le_refl _)
  intro n
  induction n with
  | zero =>
    intro bs hl
    have : bs = [] := List.eq_nil_of_length_eq_zero (by omega)
    subst this
    rw [linesSpec_nil]
  | succ n ih =>
    intro bs hl
    rw [linesSpec_unfold]
    have hok := rawSpec_nofault enc bs
    cases hq : rawSpec enc bs none with
    | mk r rest =>
      rw [hq] at hok
      cases r with
      | error k => simp [rdIsOk] at hok
      | ok o =>
        cases o with
        | none => rfl
        | some buf =>
          simp only []
          exact ih rest (by have := rawSpec_some_lt hq; omega)

/-- **Every error of `decode` is an error the reader reported**: if `decode` fails, the schedule
contains a fatal error and the result is the first one. (Before the repair of `read_line` the bytes
`FF FE 0A` failed with `UnexpectedEof` from a reader that never failed — former finding F6.) -/
theorem decode_err_only_from_reader (D : LineDecoder σ) (s : Sched) (k : IoKind)
    (h : decodeSched D s = .error k) : Sched.firstFail s = some k := by
  cases hf : Sched.firstFail s with
  | some k0 =>
    rw [read_fault_surfaces D s k0 hf] at h
    cases h; rfl
  | none =>
    exfalso
    have hbom : bomSpec s.pre none = (.ok (Encoding.fromBom s.pre).1, s.pre.drop (Encoding.fromBom s.pre).2) := by
      unfold bomSpec; split <;> rfl
    rw [decodeSched_spec, hf] at h
    unfold decodeSpec at h
    rw [hbom] at h
    have hn : ∀ enc rest, (match linesSpec enc none rest with
        | (_, some k) => (Except.error k : Except IoKind σ)
        | (ls, none) => .ok (frame D ls)) ≠ .error k := by
      intro enc rest
      have := linesSpec_nofault enc rest
      cases hl : linesSpec enc none rest with
      | mk ls e => rw [hl] at this; simp only at this; subst this; simp
    exact hn _ _ h

/-- together: `decode` fails if and only if the reader does, and with the same error. -/
theorem decode_fails_iff_reader_fails (D : LineDecoder σ) (s : Sched) (k : IoKind) :
    decodeSched D s = .error k ↔ Sched.firstFail s = some k :=
  ⟨decode_err_only_from_reader D s k, read_fault_surfaces D s k⟩

/-- the input that used to fail: a UTF-16LE file cut after the low byte of its last line feed. -/
example : (decodeSched recorder [.chunk [0xFF, 0xFE, 0x0A]]).toOption.map (·.calls.length) = some 0 := by
  decide

/-! ## Write side -/

/-- the budget in front of the writer's first fatal event (`Ok(0)` or an error), and the error
`write_all` turns it into. -/
def fatal : WSched → Option (Nat × IoKind)
  | [] => none
  | .accept m :: w => (fatal w).map (fun p => (p.1 + m, p.2))
  | .intr :: w => fatal w
  | .zero :: _ => some (0, .writeZero)
  | .fail k :: _ => some (0, k)

theorem fatal_pushBudget (n : Nat) (w : WSched) :
    fatal (pushBudget n w) = (fatal w).map (fun p => (p.1 + n, p.2)) := by
  unfold pushBudget
  by_cases h : n = 0
  · subst h; simp only [if_true]; cases fatal w <;> simp
  · simp [h, fatal]

theorem writeAll_none (w : WSched) (buf : List UInt8) (h : fatal w = none) :
    (writeAll w buf).1 = .ok () ∧ (writeAll w buf).2.2 = buf ∧ fatal (writeAll w buf).2.1 = none := by
  induction w generalizing buf with
  | nil => simp [writeAll, fatal]
  | cons e w ih =>
    unfold writeAll
    by_cases hb : buf.isEmpty = true
    · have : buf = [] := by cases buf <;> simp_all
      subst this; simp [h]
    · simp only [hb, Bool.false_eq_true, if_false]
      cases e with
      | accept m =>
        have hw : fatal w = none := by
          simp only [fatal] at h
          cases hf : fatal w <;> simp_all
        by_cases hl : buf.length ≤ m
        · simp [hl, fatal_pushBudget, hw]
        · obtain ⟨i1, i2, i3⟩ := ih (buf.drop m) hw
          simp [hl, i1, i2, i3]
      | intr => exact ih buf (by simpa [fatal] using h)
      | zero => simp [fatal] at h
      | fail k => simp [fatal] at h

theorem writeAll_fits (w : WSched) (buf : List UInt8) (c : Nat) (k : IoKind)
    (h : fatal w = some (c, k)) (hl : buf.length ≤ c) :
    (writeAll w buf).1 = .ok () ∧ (writeAll w buf).2.2 = buf ∧
    fatal (writeAll w buf).2.1 = some (c - buf.length, k) := by
  induction w generalizing buf c with
  | nil => simp [fatal] at h
  | cons e w ih =>
    unfold writeAll
    by_cases hb : buf.isEmpty = true
    · have : buf = [] := by cases buf <;> simp_all
      subst this; simp [h]
    · have hpos : 0 < buf.length := by cases buf <;> simp_all
      simp only [hb, Bool.false_eq_true, if_false]
      cases e with
      | accept m =>
        simp only [fatal] at h
        cases hf : fatal w with
        | none => simp [hf] at h
        | some p =>
          obtain ⟨c', k'⟩ := p
          simp [hf] at h
          obtain ⟨h1, h2⟩ := h
          subst h1; subst h2
          by_cases hm : buf.length ≤ m
          · simp only [hm, if_true, fatal_pushBudget, hf, Option.map_some, true_and]
            congr 2; omega
          · obtain ⟨i1, i2, i3⟩ := ih (buf.drop m) c' hf (by simp; omega)
            simp only [hm, if_false, i1, i2, i3, List.take_append_drop, true_and]
            congr 2; simp; omega
      | intr => exact ih buf c (by simpa [fatal] using h) hl
      | zero => simp [fatal] at h; omega
      | fail k0 => simp [fatal] at h; omega

theorem writeAll_overflow (w : WSched) (buf : List UInt8) (c : Nat) (k : IoKind)
    (h : fatal w = some (c, k)) (hl : c < buf.length) :
    (writeAll w buf).1 = .error k ∧ (writeAll w buf).2.2 = buf.take c := by
  induction w generalizing buf c with
  | nil => simp [fatal] at h
  | cons e w ih =>
    unfold writeAll
    have hb : buf.isEmpty = false := by cases buf <;> simp_all
    simp only [hb, Bool.false_eq_true, if_false]
    cases e with
    | accept m =>
      simp only [fatal] at h
      cases hf : fatal w with
      | none => simp [hf] at h
      | some p =>
        obtain ⟨c', k'⟩ := p
        simp [hf] at h
        obtain ⟨h1, h2⟩ := h
        subst h1; subst h2
        have hm : ¬ buf.length ≤ m := by omega
        obtain ⟨i1, i2⟩ := ih (buf.drop m) c' hf (by simp; omega)
        simp only [hm, if_false, i1, i2, true_and]
        rw [Nat.add_comm, List.take_add]
    | intr => exact ih buf c (by simpa [fatal] using h) hl
    | zero =>
      simp [fatal] at h
      obtain ⟨h1, h2⟩ := h
      subst h1; subst h2; simp
    | fail k0 =>
      simp [fatal] at h
      obtain ⟨h1, h2⟩ := h
      subst h1; subst h2; simp

def total (calls : List (List UInt8)) : Nat := calls.flatten.length

theorem writeCalls_none (w : WSched) (calls : List (List UInt8)) (h : fatal w = none) :
    (writeCalls w calls).1 = .ok () ∧ (writeCalls w calls).2.2 = calls.flatten := by
  induction calls generalizing w with
  | nil => simp [writeCalls]
  | cons c cs ih =>
    obtain ⟨a1, a2, a3⟩ := writeAll_none w c h
    unfold writeCalls
    cases hw : writeAll w c with
    | mk r rest =>
      obtain ⟨w', acc⟩ := rest
      rw [hw] at a1 a2 a3
      simp only at a1 a2 a3
      subst a1; subst a2
      obtain ⟨i1, i2⟩ := ih w' a3
      simp [i1, i2]

theorem writeCalls_fits (w : WSched) (calls : List (List UInt8)) (c : Nat) (k : IoKind)
    (h : fatal w = some (c, k)) (hl : total calls ≤ c) :
    (writeCalls w calls).1 = .ok () ∧ (writeCalls w calls).2.2 = calls.flatten := by
  induction calls generalizing w c with
  | nil => simp [writeCalls]
  | cons c0 cs ih =>
    simp only [total, List.flatten_cons, List.length_append] at hl
    obtain ⟨a1, a2, a3⟩ := writeAll_fits w c0 c k h (by omega)
    unfold writeCalls
    cases hw : writeAll w c0 with
    | mk r rest =>
      obtain ⟨w', acc⟩ := rest
      rw [hw] at a1 a2 a3
      simp only at a1 a2 a3
      subst a1; subst a2
      obtain ⟨i1, i2⟩ := ih w' (c - acc.length) a3 (by simp only [total]; omega)
      simp [i1, i2]

theorem writeCalls_overflow (w : WSched) (calls : List (List UInt8)) (c : Nat) (k : IoKind)
    (h : fatal w = some (c, k)) (hl : c < total calls) :
    (writeCalls w calls).1 = .error k ∧ (writeCalls w calls).2.2 = calls.flatten.take c := by
  induction calls generalizing w c with
  | nil => simp [total] at hl
  | cons c0 cs ih =>
    simp only [total, List.flatten_cons, List.length_append] at hl
    unfold writeCalls
    by_cases hc : c0.length ≤ c
    · obtain ⟨a1, a2, a3⟩ := writeAll_fits w c0 c k h hc
      cases hw : writeAll w c0 with
      | mk r rest =>
        obtain ⟨w', acc⟩ := rest
        rw [hw] at a1 a2 a3
        simp only at a1 a2 a3
        subst a1; subst a2
        obtain ⟨i1, i2⟩ := ih w' (c - acc.length) a3 (by simp only [total]; omega)
        simp only [i1, i2, List.flatten_cons, true_and]
        rw [List.take_append, List.take_of_length_le hc]
    · obtain ⟨a1, a2⟩ := writeAll_overflow w c0 c k h (by omega)
      cases hw : writeAll w c0 with
      | mk r rest =>
        obtain ⟨w', acc⟩ := rest
        rw [hw] at a1 a2
        simp only at a1 a2
        subst a1; subst a2
        simp only [List.flatten_cons, true_and]
        rw [List.take_append_of_le_length (by omega)]

/-- **A fatal writer event is surfaced.** If the writer's first fatal event — an error, or a
zero-length write — sits behind a budget of `c` bytes and the encoder has more than `c` bytes to
write (that is what *reached* means: short writes and interruptions before it do not matter, nor
how the output is cut into `write_all` calls), `encode` returns that error (`WriteZero` for
`Ok(0)`), exactly the first `c` bytes were accepted, and `flush` is not attempted. -/
theorem write_fault_surfaces (w : WSched) (fl : Except IoKind Unit) (calls : List (List UInt8))
    (c : Nat) (k : IoKind) (h : fatal w = some (c, k)) (hl : c < total calls) :
    (encodeTo w fl calls).result = .error k ∧
    (encodeTo w fl calls).written = calls.flatten.take c ∧
    (encodeTo w fl calls).flushed = false := by
  obtain ⟨a1, a2⟩ := writeCalls_overflow w calls c k h hl
  unfold encodeTo
  cases hw : writeCalls w calls with
  | mk r rest =>
    obtain ⟨w', acc⟩ := rest
    rw [hw] at a1 a2
    simp only at a1 a2
    subst a1; subst a2
    exact ⟨rfl, rfl, rfl⟩

example : fatal [.accept 3, .intr, .accept 2, .zero, .accept 9] = some (5, .writeZero) ∧
    5 < total [[1, 2], [], [3, 4, 5, 6]] := by decide

/-- the fatal event is not reached: the output fits into the budget in front of it, or there is none. -/
def notReached (w : WSched) (calls : List (List UInt8)) : Prop :=
  fatal w = none ∨ ∃ c k, fatal w = some (c, k) ∧ total calls ≤ c

/-- **Short writes and interruptions are transparent.** Whatever sizes the writer accepts and
however often it reports `Interrupted`, as long as no fatal event is reached every byte is
written, in order, and the result is the result of `flush`. -/
theorem short_writes_transparent (w : WSched) (fl : Except IoKind Unit) (calls : List (List UInt8))
    (h : notReached w calls) :
    (encodeTo w fl calls).result = fl ∧
    (encodeTo w fl calls).written = calls.flatten ∧
    (encodeTo w fl calls).flushed = true := by
  have key : (writeCalls w calls).1 = .ok () ∧ (writeCalls w calls).2.2 = calls.flatten := by
    cases h with
    | inl h0 => exact writeCalls_none w calls h0
    | inr h1 =>
      obtain ⟨c, k, hf, hl⟩ := h1
      exact writeCalls_fits w calls c k hf hl
  obtain ⟨a1, a2⟩ := key
  unfold encodeTo
  cases hw : writeCalls w calls with
  | mk r rest =>
    obtain ⟨w', acc⟩ := rest
    rw [hw] at a1 a2
    simp only at a1 a2
    subst a1; subst a2
    exact ⟨rfl, rfl, rfl⟩

example : notReached [.accept 1, .intr, .intr, .accept 2, .accept 100, .fail .other] [[1, 2], [3, 4, 5]] :=
  Or.inr ⟨103, .other, by decide, by decide⟩

/-- **The final `flush` is checked**: when all writes succeed, a failing `flush` is the result. -/
theorem flush_checked (w : WSched) (k : IoKind) (calls : List (List UInt8)) (h : notReached w calls) :
    (encodeTo w (.error k) calls).result = .error k :=
  (short_writes_transparent w (.error k) calls h).1

/-- **What the writer accepted is always a prefix of the output**, fault or not. -/
theorem written_prefix (w : WSched) (fl : Except IoKind Unit) (calls : List (List UInt8)) :
    (encodeTo w fl calls).written <+: calls.flatten := by
  cases hf : fatal w with
  | none =>
    rw [(short_writes_transparent w fl calls (Or.inl hf)).2.1]
    exact List.prefix_refl _
  | some p =>
    obtain ⟨c, k⟩ := p
    by_cases hl : c < total calls
    · rw [(write_fault_surfaces w fl calls c k hf hl).2.1]
      exact List.take_prefix _ _
    · rw [(short_writes_transparent w fl calls (Or.inr ⟨c, k, hf, by omega⟩)).2.1]
      exact List.prefix_refl _

/-- the outcome depends on the bytes written, not on how `encode` cuts them into `write_all` calls. -/
theorem call_boundaries_irrelevant (w : WSched) (fl : Except IoKind Unit) (calls : List (List UInt8)) :
    (encodeTo w fl calls).result = (encodeTo w fl [calls.flatten]).result ∧
    (encodeTo w fl calls).written = (encodeTo w fl [calls.flatten]).written := by
  have ht : total [calls.flatten] = total calls := by simp [total]
  cases hf : fatal w with
  | none =>
    obtain ⟨a1, a2, _⟩ := short_writes_transparent w fl calls (Or.inl hf)
    obtain ⟨b1, b2, _⟩ := short_writes_transparent w fl [calls.flatten] (Or.inl hf)
    rw [a1, a2, b1, b2]; simp
  | some p =>
    obtain ⟨c, k⟩ := p
    by_cases hl : c < total calls
    · obtain ⟨a1, a2, _⟩ := write_fault_surfaces w fl calls c k hf hl
      obtain ⟨b1, b2, _⟩ := write_fault_surfaces w fl [calls.flatten] c k hf (by omega)
      rw [a1, a2, b1, b2]; simp
    · obtain ⟨a1, a2, _⟩ := short_writes_transparent w fl calls (Or.inr ⟨c, k, hf, by omega⟩)
      obtain ⟨b1, b2, _⟩ := short_writes_transparent w fl [calls.flatten] (Or.inr ⟨c, k, hf, by omega⟩)
      rw [a1, a2, b1, b2]; simp

end Rosu.C09
