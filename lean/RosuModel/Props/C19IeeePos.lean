/-
  Props/C19IeeePos.lean — property C19 on the driver's IEEE instances (`F = Float`, `P = Float32`): what is TRUE of
  `progress_to_dist` / `position_at` at the two ends of the progress range. `PosLaws` (Props/C19.lean) is false for IEEE
  (Props/IeeeFalse.lean), so the exact-arithmetic `position_at_zero_first` / `position_at_one_last` say nothing about
  the real code; the theorems here do (Lean 4.33's `Float` is a structure over the logical model, Lemmas/FloatExactOps.lean).

  * `progress_clamped_float`: every case of the progress — `q < 0` or `q = ±0`: the distance is a ZERO (`0 * dist`, of
    either sign) when `dist` is finite; `q ≥ 1`: the distance is exactly `dist` (`1 * dist = dist` for every double);
    NaN: the distance is NaN; otherwise it is the product `q * dist` the code computes.
  * `position_at_zero_first_float`: lengths `0 :: rest` with every later length `> 0` and a finite total: for EVERY
    progress `q ≤ 0` (`−0`, `−∞` included) the position is exactly `path[0]` — no arithmetic touches it, the search lands on
    index 0 (`idxOfDist_zero_float`). Two hypotheses are necessary: with repeated leading zeros `[0, 0, 0, 9]` std's
    binary search lands on index 2 and the code answers `path[1]` (`position_at_zero_repeated_zeros_example`), and with an
    infinite total `0 * ∞` is NaN and so is the position (`position_at_zero_infinite_example`).
  * `position_at_one_last_float`: strictly increasing lengths, non-degenerate finite last segment: for every `q ≥ 1`
    (`+∞` included) the position is exactly `p0 + (p1 − p0)` (f32 arithmetic, coordinate-wise) where `p0, p1` are the last two
    path points: the weight `(d1 − d0)/(d1 − d0)` is exactly `1`, `as f32` keeps it, `·1` is exact — the only rounding left
    is that of `p1 − p0` and of the final sum. So "at progress 1 the last point" holds **only up to that rounding**:
    `position_at_one_last_float_false_example` — path `[(76.8, 0), (399.6, 0)]`: progress 1 yields `x = 399.59998`
    (`0x43c7cccc`), not `399.6` (`0x43c7cccd`); smallest one-decimal witness `0.3 → 0.1` gives `0.099999994`.
    `position_at_one_last_float_exact`: it is the last point whenever `p0 + (p1 − p0) = p1` coordinate-wise.
    `position_at_vertex_float`: the same at every inner vertex whose cumulative length the progress hits exactly.
  * `position_at_nan_float`: a NaN progress gives a NaN distance, the search answers the last index
    (`idxOfDist_nan_float`) and both coordinates are NaN.
  Not proved here: `0 ≤ progress_to_dist ≤ dist` for `0 ≤ q ≤ 1` (needs monotonicity of the rounded product).
-/
import RosuModel.Props.C19Ieee
import RosuModel.Lemmas.FloatExactOps
namespace Rosu.C19
open Rosu Rosu.Curve
open Float.Model Float.Model.UnpackedFloat

/-! ## 0. the binary search from comparison facts alone (no law, every scalar) -/

section Generic
variable {F : Type} [Scalar F]

/-- if every probe right of `t` compares Greater than `d` and no probe at or left of `t` does, the loop of
`binary_search_by` ends with `base = t`. -/
theorem bsLoop_of_cmp (lengths : List F) (d : F) (t : Nat)
    (hgt : ∀ j, t < j → j < lengths.length → cmpLen (lengths.getD j 0) d = .gt)
    (hle : ∀ j, j ≤ t → (cmpLen (lengths.getD j 0) d == .gt) = false) :
    ∀ fuel base size, size ≤ fuel → base ≤ t → t < base + size → base + size ≤ lengths.length →
      bsLoop lengths d fuel base size = t := by
  intro fuel
  induction fuel with
  | zero => intro base size h1 h2 h3 _; omega
  | succ n ih =>
    intro base size h1 h2 h3 h4
    simp only [bsLoop]
    split
    · rename_i hsz
      rcases Nat.lt_or_ge t (base + size / 2) with hlt | hge
      · rw [hgt _ hlt (by omega)]
        simp only [beq_self_eq_true, if_true]
        exact ih base (size - size / 2) (by omega) h2 (by omega) (by omega)
      · rw [hle _ hge]
        simp only [Bool.false_eq_true, if_false]
        exact ih (base + size / 2) (size - size / 2) (by omega) hge (by omega) (by omega)
    · omega

/-- … and if moreover the probe at `t` compares Equal, `idx_of_dist` answers `t`. -/
theorem idxOfDist_of_cmp (lengths : List F) (d : F) (t : Nat) (ht : t < lengths.length)
    (hgt : ∀ j, t < j → j < lengths.length → cmpLen (lengths.getD j 0) d = .gt)
    (hle : ∀ j, j ≤ t → (cmpLen (lengths.getD j 0) d == .gt) = false)
    (heq : cmpLen (lengths.getD t 0) d = .eq) : idxOfDist lengths d = t := by
  unfold idxOfDist
  simp only []
  rw [if_neg (by omega)]
  rw [bsLoop_of_cmp lengths d t hgt hle lengths.length 0 lengths.length (Nat.le_refl _) (Nat.zero_le _)
    (by omega) (by omega), heq]
  rfl

end Generic

/-! ## 1. `progress_to_dist` on doubles -/

/-- a double that is `== 0` is one of the two zeros. -/
theorem eq_zero_float (q : Float) (h : Scalar.eq q (0 : Float) = true) : q = FX.zero64 (FX.sign64 q) := by
  rw [FMO.eq_float, FX.unpack_zero_float] at h
  have hq := FX.pack_unpack_float q
  unfold FX.sign64
  generalize q.toModel.unpack = u at h hq
  rcases u with s|_|s|⟨s,m,e,hm⟩
  · cases s <;> cases h
  · cases h
  · exact hq.symm
  · cases s <;> cases h

/-- a double that is `== 1` is `1`. -/
theorem eq_one_float (q : Float) (h : Scalar.eq q (1 : Float) = true) : q = 1 := by
  rw [FMO.eq_float, FX.unpack_one_float] at h
  have hq := FX.pack_unpack_float q
  rw [← FX.pack_unpack_float 1, FX.unpack_one_float, ← hq]
  generalize q.toModel.unpack = u at h
  rcases u with s|_|s|⟨s,m,e,hm⟩
  · cases s <;> cases h
  · cases h
  · cases s <;> cases h
  · cases s
    · cases h
    · have h' : ((compare e (-(Format.binary64.mantissaBitsWithoutImplicit : Int))).then
          (compare m (2 ^ Format.binary64.mantissaBitsWithoutImplicit)) == Ordering.eq) = true := by
        simpa [UnpackedFloat.beq, UnpackedFloat.compare, FX.uone] using h
      have h2 : (compare e (-(Format.binary64.mantissaBitsWithoutImplicit : Int))).then
          (compare m (2 ^ Format.binary64.mantissaBitsWithoutImplicit)) = .eq := by simpa using h'
      rw [Ordering.then_eq_eq] at h2
      obtain ⟨he, hm'⟩ := h2
      have he' := Int.compare_eq_eq.mp he
      have hm'' := Nat.compare_eq_eq.mp hm'
      subst he' hm''
      rfl

/-- `clamp(q, 0, 1)` for `q ≤ 0` (`q < 0` or `q = ±0`) is a zero: `+0` for `q < 0`, `q` itself for `q = ±0`. -/
theorem clamp_nonpos_float (q : Float) (h : Scalar.le q (0 : Float) = true) :
    ∃ s, Scalar.clamp q (0 : Float) 1 = FX.zero64 s := by
  unfold Scalar.clamp
  rw [FMO.le_eq_lt_or_eq] at h
  cases hlt : Scalar.lt q (0 : Float)
  · rw [hlt] at h
    have heq : Scalar.eq q (0 : Float) = true := by simpa using h
    have hz := eq_zero_float q heq
    have h1 : Scalar.lt (1 : Float) q = false := by
      rw [hz, FX.lt_zero64_right]; decide +kernel
    simp only [Bool.false_eq_true, if_false, h1]
    exact ⟨_, hz⟩
  · have h10 : Scalar.lt (1 : Float) (0 : Float) = false := by decide +kernel
    simp only [if_true, h10, Bool.false_eq_true, if_false]
    exact ⟨.positive, FX.zero_eq_pzero64⟩

/-- `clamp(q, 0, 1) = 1` for every `q ≥ 1` (`+∞` included). -/
theorem clamp_ge_one_float (q : Float) (h : Scalar.le (1 : Float) q = true) : Scalar.clamp q (0 : Float) 1 = 1 := by
  unfold Scalar.clamp
  have h0 : Scalar.lt q (0 : Float) = false := by
    cases hq : Scalar.lt q (0 : Float)
    · rfl
    · have := FMO.lt_of_le_of_lt _ _ _ h hq
      rw [show Scalar.lt (1 : Float) (0 : Float) = false by decide +kernel] at this
      cases this
  rw [FMO.le_eq_lt_or_eq] at h
  simp only [h0, Bool.false_eq_true, if_false]
  cases hlt : Scalar.lt (1 : Float) q
  · rw [hlt] at h
    have heq : Scalar.eq q (1 : Float) = true := by rw [FMO.eq_symm]; simpa using h
    simp only [Bool.false_eq_true, if_false]
    exact eq_one_float q heq
  · simp

/-- a NaN goes through `clamp` unchanged. -/
theorem clamp_nan_float (q : Float) (h : Scalar.isNaN q = true) : Scalar.clamp q (0 : Float) 1 = q := by
  unfold Scalar.clamp
  simp [FMO.lt_nan_left _ _ h, FMO.lt_nan_right _ _ h]

/-- `±0 * x` for finite `x` is a zero. -/
theorem zero64_mul_float (s : Sign) (x : Float) (h : FX.Finite64 x) : FX.zero64 s * x = FX.zero64 (s * FX.sign64 x) := by
  rw [FX.mul_float, FX.unpack_zero64, FX.uzero_mul _ _ _ h]; rfl

/-- NaN `* x` is the NaN. -/
theorem nan_mul_float (q x : Float) (h : Scalar.isNaN q = true) : q * x = FMO.nan64 := by
  rw [FX.mul_float, FMR.eq_nan_of_isNaN q.toModel.unpack (by rw [← FMO.isNaN_float]; exact h)]; rfl

/-- **`progress_clamped_float`** — the four cases of `progress_to_dist` on doubles:
1. `q ≤ 0` (negative, `−∞`, `+0`, `−0`) and a finite total distance: the result is a zero (`+0` or `−0`);
2. `q ≥ 1` (`+∞` included): the result is the total distance, bit for bit, whatever it is (NaN and `∞` included);
3. NaN `q`: the result is NaN;
4. otherwise (`!(q < 0)`, `!(1 < q)`) it is the product `q * dist`. -/
theorem progress_clamped_float (lengths : List Float) (q : Float) :
    (Scalar.le q (0 : Float) = true → FX.Finite64 (dist lengths) → ∃ s, progressToDist lengths q = FX.zero64 s) ∧
    (Scalar.le (1 : Float) q = true → progressToDist lengths q = dist lengths) ∧
    (Scalar.isNaN q = true → progressToDist lengths q = FMO.nan64) ∧
    (Scalar.lt q (0 : Float) = false → Scalar.lt (1 : Float) q = false →
      progressToDist lengths q = q * dist lengths) := by
  refine ⟨?_, ?_, ?_, progress_to_dist_linear lengths q⟩
  · intro h hf
    obtain ⟨s, hs⟩ := clamp_nonpos_float q h
    exact ⟨_, by unfold progressToDist; rw [hs, zero64_mul_float s _ hf]⟩
  · intro h
    unfold progressToDist
    rw [clamp_ge_one_float q h, FX.one_mul_float]
  · intro h
    unfold progressToDist
    rw [clamp_nan_float q h, nan_mul_float q _ h]

/-- non-vacuity: `q = −2`, `−0`, `1`, `+∞`, NaN on `[0, 5, 9]`. -/
example : progressToDist [(0 : Float), 5, 9] (-2) = FMO.pzero64 := by decide +kernel
example : progressToDist [(0 : Float), 5, 9] FX.nzero64 = FX.nzero64 := by decide +kernel
example : progressToDist [(0 : Float), 5, 9] (1 / 0) = 9 :=
  (progress_clamped_float _ _).2.1 (by decide +kernel)
example : Float.isNaN (progressToDist [(0 : Float), 5, 9] (0 / 0)) = true := by decide +kernel
example : ∃ s, progressToDist [(0 : Float), 5, 9] (-2) = FX.zero64 s :=
  (progress_clamped_float _ _).1 (by decide +kernel) (by decide +kernel)

/-! ## 2. progress `≤ 0`: the first path point, exactly -/

/-- observation of a position as two bit patterns (for closed examples: `Pos` has no `DecidableEq`). -/
def posBits : Outcome (Pos Float32) → Option (Nat × Nat)
  | .ok p => some (p.x.toBits.toNat, p.y.toBits.toNat)
  | .error _ => none

/-- **the search for a zero distance** on lengths `0 :: rest` whose later entries are all `> 0` lands on index 0 —
for `+0` and for `−0` (IEEE comparisons do not see the sign of a zero). -/
theorem idxOfDist_zero_float (rest : List Float) (s : Sign)
    (hpos : ∀ x ∈ rest, Scalar.lt (0 : Float) x = true) : idxOfDist ((0 : Float) :: rest) (FX.zero64 s) = 0 := by
  have h00 : Scalar.lt (0 : Float) (0 : Float) = false := FMO.lt_irrefl _
  have hc0 : cmpLen (0 : Float) (FX.zero64 s) = .eq := by
    unfold cmpLen
    rw [FX.lt_zero64_right, FX.lt_zero64_left, h00]; rfl
  apply idxOfDist_of_cmp _ _ 0 (by simp)
  · intro j hj hjl
    obtain ⟨k, rfl⟩ : ∃ k, j = k + 1 := ⟨j - 1, by omega⟩
    have hk : k < rest.length := by simpa using hjl
    have hx : ((0 : Float) :: rest).getD (k + 1) 0 = rest[k] := by
      rw [List.getD_eq_getElem?_getD, List.getElem?_cons_succ, List.getElem?_eq_getElem hk]; rfl
    have hp := hpos rest[k] (List.getElem_mem hk)
    rw [hx]
    unfold cmpLen
    rw [FX.lt_zero64_right, FX.lt_zero64_left, FMO.lt_asymm _ _ hp, hp]; rfl
  · intro j hj
    have : j = 0 := by omega
    subst this
    show (cmpLen (0 : Float) (FX.zero64 s) == .gt) = false
    rw [hc0]; rfl
  · exact hc0

/-- **`position_at_zero_first_float`** — IEEE doubles / singles, the driver's instances: on cumulative lengths
`0 :: rest` whose later entries are all `> 0` (no repeated leading zero) and whose total is finite, the position at EVERY
progress `q ≤ 0` (negative, `−∞`, `+0`, `−0`) is the first path point, bit for bit. Nothing is assumed of the path
(NaN / `−0` coordinates included): the search lands on index 0 and `interpolate_vertices` returns `path[0]` untouched. -/
theorem position_at_zero_first_float (p : Pos Float32) (path : List (Pos Float32)) (rest : List Float) (q : Float)
    (hq : Scalar.le q (0 : Float) = true) (hpos : ∀ x ∈ rest, Scalar.lt (0 : Float) x = true)
    (hfin : FX.Finite64 (dist ((0 : Float) :: rest))) :
    positionAt (p :: path) ((0 : Float) :: rest) q = .ok p := by
  apply position_first_of_idx_zero
  obtain ⟨s, hs⟩ := (progress_clamped_float ((0 : Float) :: rest) q).1 hq hfin
  rw [hs]
  exact idxOfDist_zero_float rest s hpos

/-- non-vacuity: a three-point curve, progress `−0`, `−3`, `0`; the first point has a `−0` coordinate and it survives. -/
example : positionAt [⟨FX.nzero32, 3⟩, ⟨10, 20⟩, ⟨20, 5⟩] [(0 : Float), 5, 9] FX.nzero64 = .ok ⟨FX.nzero32, 3⟩ :=
  position_at_zero_first_float _ _ _ _ (by decide +kernel)
    (by intro x hx; simp at hx; rcases hx with rfl | rfl <;> decide +kernel) (by decide +kernel)

example : posBits (positionAt [⟨FX.nzero32, 3⟩, ⟨10, 20⟩, ⟨20, 5⟩] [(0 : Float), 5, 9] (-3)) =
    some (0x80000000, 0x40400000) := by decide +kernel

/-- **the hypothesis "no repeated leading zero" is necessary**: on lengths `[0, 0, 0, 9]` (two zero-length segments)
std's probing sequence finds the zero at index 2, the segment `1 → 2` is degenerate, and the position at progress 0 is
`path[1] = (10, 20)`, not `path[0] = (1, 3)`. (When the lengths are the cumulative distances of the path, `path[1]` is
at distance `0.0` from `path[0]` — equal, or closer than f32 arithmetic resolves.) -/
theorem position_at_zero_repeated_zeros_example :
    idxOfDist [(0 : Float), 0, 0, 9] 0 = 2 ∧
    posBits (positionAt [⟨1, 3⟩, ⟨10, 20⟩, ⟨20, 5⟩, ⟨7, 7⟩] [(0 : Float), 0, 0, 9] 0) =
      some ((10 : Float32).toBits.toNat, (20 : Float32).toBits.toNat) ∧
    posBits (positionAt [⟨1, 3⟩, ⟨10, 20⟩, ⟨20, 5⟩, ⟨7, 7⟩] [(0 : Float), 0, 0, 9] 0) ≠
      some ((1 : Float32).toBits.toNat, (3 : Float32).toBits.toNat) := by decide +kernel

/-- **the hypothesis "finite total" is necessary**: with an infinite last length `0 * ∞` is NaN, the search (every
comparison with NaN is `Equal`) lands on the last index and both coordinates of the position at progress 0 are NaN. -/
theorem position_at_zero_infinite_example :
    (match positionAt (P := Float32) [⟨1, 3⟩, ⟨10, 20⟩] [(0 : Float), 1 / 0] 0 with
      | .ok p => p.x.isNaN && p.y.isNaN
      | .error _ => false) = true := by decide +kernel

/-! ## 3. progress `≥ 1`: the last path point **up to the rounding of `p0 + (p1 − p0)`** -/

/-- the interpolation weight at the far end of a segment with a finite non-zero length is exactly `1.0f32`. -/
theorem weight_at_end_float (d0 d1 : Float) (h : FX.FiniteNonzero64 (d1 - d0)) :
    (Cvt.down ((d1 - d0) / (d1 - d0)) : Float32) = 1 := by
  rw [FX.div_self_float _ h, FX.down_one]

/-- interpolating at the far end of a non-degenerate finite segment: `p0 + (p1 − p0)`, f32 arithmetic. -/
theorem interpolate_at_vertex_float (path : List (Pos Float32)) (lengths : List Float) (t : Nat)
    (p0 p1 : Pos Float32) (d0 d1 : Float) (ht : t ≠ 0) (hp1 : path[t]? = some p1) (hp0 : path[t - 1]? = some p0)
    (hd0 : lengths[t - 1]? = some d0) (hd1 : lengths[t]? = some d1)
    (hdeg : Scalar.le (Scalar.abs (d0 - d1)) (Scalar.eps : Float) = false) (hden : FX.FiniteNonzero64 (d1 - d0)) :
    interpolateVertices path lengths t d1 = .ok (p0 + (p1 - p0)) := by
  rw [interpolate_formula path lengths t d1 p0 p1 d0 d1 ht hp1 hp0 hd0 hd1 hdeg, weight_at_end_float d0 d1 hden]
  congr 2
  show Pos.smul (p1 - p0) 1 = p1 - p0
  simp only [Pos.smul, FX.mul_one_float32]

/-- **`position_at_vertex_float`** — IEEE: on strictly increasing lengths, if the progress maps to the cumulative length of
vertex `t + 1` exactly and the segment `t → t + 1` is non-degenerate with a finite non-zero length, the position is
`path[t] + (path[t+1] − path[t])` computed in f32 — equal to `path[t+1]` up to the rounding of that difference and sum. -/
theorem position_at_vertex_float (path : List (Pos Float32)) (lengths : List Float) (hs : StrictSorted lengths)
    (q : Float) (t : Nat) (p0 p1 : Pos Float32) (d0 : Float) (hp0 : path[t]? = some p0) (hp1 : path[t + 1]? = some p1)
    (hd0 : lengths[t]? = some d0) (hq : lengths[t + 1]? = some (progressToDist lengths q))
    (hdeg : Scalar.le (Scalar.abs (d0 - progressToDist lengths q)) (Scalar.eps : Float) = false)
    (hden : FX.FiniteNonzero64 (progressToDist lengths q - d0)) :
    positionAt path lengths q = .ok (p0 + (p1 - p0)) := by
  unfold positionAt
  simp only []
  rw [idxOfDist_hit_float lengths hs (t + 1) _ hq]
  exact interpolate_at_vertex_float path lengths (t + 1) p0 p1 d0 _ (by omega) hp1 hp0 hd0 hq hdeg hden

/-- `dist` is the last entry. -/
theorem dist_of_last (lengths : List Float) (n : Nat) (d1 : Float) (hlen : lengths.length = n + 1)
    (hd1 : lengths[n]? = some d1) : dist lengths = d1 := by
  unfold dist
  rw [List.getLast?_eq_getElem?, hlen, Nat.add_sub_cancel, hd1]

/-- **`position_at_one_last_float`** — IEEE doubles / singles, the driver's instances: on strictly increasing cumulative
lengths whose last segment `d0 → d1` is non-degenerate (`|d0 − d1| > ε`) with a finite non-zero `d1 − d0`, the position at
EVERY progress `q ≥ 1` (`+∞` included) is `p0 + (p1 − p0)` in f32 arithmetic, `p0`, `p1` the last two path points:
`1 * d1 = d1`, the search finds the last index, the weight is exactly `1` and `· 1` is exact. What is left is the rounding
of `p1 − p0` and of the sum. -/
theorem position_at_one_last_float (path : List (Pos Float32)) (lengths : List Float) (q : Float)
    (hq : Scalar.le (1 : Float) q = true) (hs : StrictSorted lengths) (n : Nat)
    (hlen : lengths.length = n + 2) (p0 p1 : Pos Float32) (d0 d1 : Float)
    (hp0 : path[n]? = some p0) (hp1 : path[n + 1]? = some p1)
    (hd0 : lengths[n]? = some d0) (hd1 : lengths[n + 1]? = some d1)
    (hdeg : Scalar.le (Scalar.abs (d0 - d1)) (Scalar.eps : Float) = false)
    (hden : FX.FiniteNonzero64 (d1 - d0)) :
    positionAt path lengths q = .ok (p0 + (p1 - p0)) := by
  have hd : progressToDist lengths q = d1 := by
    rw [(progress_clamped_float lengths q).2.1 hq]; exact dist_of_last lengths (n + 1) d1 hlen hd1
  exact position_at_vertex_float path lengths hs q n p0 p1 d0 hp0 hp1 hd0 (by rw [hd]; exact hd1)
    (by rw [hd]; exact hdeg) (by rw [hd]; exact hden)

/-- … hence it IS the last point whenever `p0 + (p1 − p0) = p1` holds for both coordinates in f32 (e.g. when the
difference is exactly representable). -/
theorem position_at_one_last_float_exact (path : List (Pos Float32)) (lengths : List Float) (q : Float)
    (hq : Scalar.le (1 : Float) q = true) (hs : StrictSorted lengths) (n : Nat)
    (hlen : lengths.length = n + 2) (p0 p1 : Pos Float32) (d0 d1 : Float)
    (hp0 : path[n]? = some p0) (hp1 : path[n + 1]? = some p1)
    (hd0 : lengths[n]? = some d0) (hd1 : lengths[n + 1]? = some d1)
    (hdeg : Scalar.le (Scalar.abs (d0 - d1)) (Scalar.eps : Float) = false)
    (hden : FX.FiniteNonzero64 (d1 - d0))
    (hx : p0.x + (p1.x - p0.x) = p1.x) (hy : p0.y + (p1.y - p0.y) = p1.y) :
    positionAt path lengths q = .ok p1 := by
  rw [position_at_one_last_float path lengths q hq hs n hlen p0 p1 d0 d1 hp0 hp1 hd0 hd1 hdeg hden]
  congr 1
  show Pos.add p0 (Pos.sub p1 p0) = p1
  cases p1
  simp only [Pos.add, Pos.sub] at *
  rw [hx, hy]

/-- `[0, 100]` is strictly increasing. -/
theorem strictSorted_two (a b : Float) (h : Scalar.lt a b = true) : StrictSorted [a, b] := by
  intro i j x y hij hi hj
  have hj' : j < 2 := by
    rcases Nat.lt_or_ge j 2 with h | h
    · exact h
    · rw [List.getElem?_eq_none (by simpa using h)] at hj; cases hj
  have : i = 0 ∧ j = 1 := by omega
  obtain ⟨rfl, rfl⟩ := this
  simp at hi hj; subst hi hj; exact h

/-- non-vacuity of the exact form: integer coordinates, progress `2.5`. -/
example : positionAt (P := Float32) [⟨76, 0⟩, ⟨399, 5⟩] [(0 : Float), 100] 2.5 = .ok ⟨399, 5⟩ :=
  position_at_one_last_float_exact _ _ _ (by decide +kernel) (strictSorted_two _ _ (by decide +kernel)) 0 rfl
    ⟨76, 0⟩ ⟨399, 5⟩ 0 100 rfl rfl rfl rfl (by decide +kernel) (by decide +kernel) (by decide +kernel) (by decide +kernel)

/-- **`position_at_one_last` is FALSE for the real arithmetic.** The two-point curve `(76.8, 0) → (399.6, 0)` with lengths
`[0, 100]` satisfies every hypothesis of the exact theorem (strictly increasing by more than `ε`, as many lengths as
points), and at progress 1 `position_at` returns `x = 0x43c7cccc = 399.59998`, one ulp below the last point's
`x = 0x43c7cccd = 399.6f32`: `399.6 − 76.8` rounds to `322.80002` and `76.8 + 322.80002` rounds down. (Second conjunct: the
value is the `p0 + (p1 − p0)` of `position_at_one_last_float`. Third: the smallest one-decimal witness, `0.3 → 0.1` gives
`0.099999994`.) -/
theorem position_at_one_last_float_false_example :
    posBits (positionAt [⟨76.8, 0⟩, ⟨399.6, 0⟩] [(0 : Float), 100] 1) = some (0x43c7cccc, 0) ∧
    (399.6 : Float32).toBits.toNat = 0x43c7cccd ∧
    ((76.8 : Float32) + ((399.6 : Float32) - 76.8)).toBits.toNat = 0x43c7cccc ∧
    posBits (positionAt [⟨0.3, 0⟩, ⟨0.1, 0⟩] [(0 : Float), 1] 1) = some (0x3dcccccc, 0) ∧
    (0.1 : Float32).toBits.toNat = 0x3dcccccd := by decide +kernel

/-- the witness satisfies the hypotheses of `position_at_one_last_float` (so that theorem is not vacuous, and its
conclusion is the rounded value, not the last point). -/
example : positionAt [⟨76.8, 0⟩, ⟨399.6, 0⟩] [(0 : Float), 100] 1 =
    .ok ((⟨76.8, 0⟩ : Pos Float32) + ((⟨399.6, 0⟩ : Pos Float32) - ⟨76.8, 0⟩)) :=
  position_at_one_last_float _ _ _ (by decide +kernel) (strictSorted_two _ _ (by decide +kernel)) 0 rfl
    _ _ 0 100 rfl rfl rfl rfl (by decide +kernel) (by decide +kernel)

/-- the statement of the exact theorem `position_at_one_last`, read on the driver's instances, is refuted by the witness. -/
theorem position_at_one_last_statement_false_float :
    ¬ (∀ (path : List (Pos Float32)) (lengths : List Float), StrictSorted lengths →
        (∀ i x y, lengths[i]? = some x → lengths[i + 1]? = some y →
          Scalar.le (Scalar.abs (x - y)) (Scalar.eps : Float) = false) →
        path.length = lengths.length → ∀ hne : path ≠ [],
        posBits (positionAt path lengths 1) = posBits (.ok (path.getLast hne))) := by
  intro h
  have h1 := h [⟨76.8, 0⟩, ⟨399.6, 0⟩] [(0 : Float), 100] (strictSorted_two _ _ (by decide +kernel))
    (by
      intro i x y hx hy
      have hi : i = 0 := by
        rcases Nat.lt_or_ge (i + 1) 2 with h | h
        · omega
        · rw [List.getElem?_eq_none (by simpa using h)] at hy; cases hy
      subst hi
      simp at hx hy; subst hx hy; decide +kernel)
    rfl (by simp)
  revert h1
  decide +kernel

/-! ## 4. a NaN progress -/

/-- every comparison with a NaN distance is `Equal` (`partial_cmp(..).unwrap_or(Equal)`), so std's loop moves `base` to
every probe and `idx_of_dist` answers the LAST index. -/
theorem idxOfDist_nan_float (lengths : List Float) (d : Float) (hd : Scalar.isNaN d = true) (hne : lengths ≠ []) :
    idxOfDist lengths d = lengths.length - 1 := by
  have hpos : 0 < lengths.length := List.length_pos_iff.mpr hne
  have hc : ∀ x : Float, cmpLen x d = .eq := by
    intro x; unfold cmpLen; rw [FMO.lt_nan_right _ _ hd, FMO.lt_nan_left _ _ hd]; rfl
  apply idxOfDist_of_cmp _ _ _ (by omega)
  · intro j h1 h2; omega
  · intro j _; rw [hc]; rfl
  · exact hc _

/-- **position at a NaN progress**: on a curve whose last segment is non-degenerate both coordinates are NaN — the NaN
distance selects the last segment and poisons the weight. (`progress` is never NaN in rosu-map's own callers; this is what
the public `position_at` does.) -/
theorem position_at_nan_float (path : List (Pos Float32)) (lengths : List Float) (q : Float)
    (hq : Scalar.isNaN q = true) (n : Nat) (hlen : lengths.length = n + 2) (p0 p1 : Pos Float32) (d0 d1 : Float)
    (hp0 : path[n]? = some p0) (hp1 : path[n + 1]? = some p1)
    (hd0 : lengths[n]? = some d0) (hd1 : lengths[n + 1]? = some d1)
    (hdeg : Scalar.le (Scalar.abs (d0 - d1)) (Scalar.eps : Float) = false) :
    positionAt path lengths q = .ok ⟨FMO.nan32, FMO.nan32⟩ := by
  have hd : progressToDist lengths q = FMO.nan64 := (progress_clamped_float lengths q).2.2.1 hq
  have hne : lengths ≠ [] := by intro h; rw [h] at hlen; cases hlen
  unfold positionAt
  simp only []
  rw [hd, idxOfDist_nan_float lengths _ (by decide +kernel) hne, hlen, show n + 2 - 1 = n + 1 by omega,
    interpolate_formula path lengths (n + 1) _ p0 p1 d0 d1 (by omega) hp1 hp0 hd0 hd1 hdeg,
    FX.nan_sub_float, FX.nan_div_float, FX.down_nan]
  congr 1
  show Pos.add p0 (Pos.smul (Pos.sub p1 p0) FMO.nan32) = _
  simp only [Pos.add, Pos.smul, FX.mul_nan_float32, FX.add_nan_float32]

example : positionAt [⟨1, 3⟩, ⟨10, 20⟩, ⟨20, 5⟩] [(0 : Float), 5, 9] (0 / 0) = .ok ⟨FMO.nan32, FMO.nan32⟩ :=
  position_at_nan_float _ _ _ (by decide +kernel) 1 rfl ⟨10, 20⟩ ⟨20, 5⟩ 5 9 rfl rfl rfl rfl (by decide +kernel)

end Rosu.C19
