/-
  Props/C19IeeePos.lean — property C19 on the driver's IEEE instances (`F = Float`, `P = Float32`): what is TRUE of
  `progress_to_dist` / `position_at` at the two ends of the progress range. `PosLaws` (Props/C19.lean) is false for IEEE
  (Props/IeeeFalse.lean), so the exact-arithmetic `position_at_zero_first` / `position_at_one_last` say nothing about
  the real code; the theorems here do (Lean 4.33's `Float` is a structure over the logical model, Lemmas/FloatExactOps.lean).

  * `progress_clamped_float`: every case of the progress — `q < 0` or `q = ±0`: the distance is a ZERO (`0 * dist`, of
    either sign) when `dist` is finite; `q ≥ 1`: the distance is exactly `dist` (`1 * dist = dist` for every double);
    NaN: the distance is NaN; otherwise it is the product `q * dist` the code computes.
  * `position_at_zero_first_float`: lengths `0 :: rest` with every later length `> 0` and a finite total: for EVERY
    progress `q ≤ 0` (`−0`, `−∞` included) the position is exactly `path[0]` — no arithmetic touches it, the search lands on
    index 0 (`idxOfDist_zero_float`). Two hypotheses are necessary: with repeated leading zeros `[0, 0, 0, 9]` std's
    binary search lands on index 2 and the code answers `path[1]` (`position_at_zero_repeated_zeros_example`), and with an
    infinite total `0 * ∞` is NaN and so is the position (`position_at_zero_infinite_example`).
  * `position_at_one_last_float`: strictly increasing lengths, non-degenerate finite last segment: for every `q ≥ 1`
    (`+∞` included) the position is exactly `p0 + (p1 − p0)` (f32 arithmetic, coordinate-wise) where `p0, p1` are the last two
    path points: the weight `(d1 − d0)/(d1 − d0)` is exactly `1`, `as f32` keeps it, `·1` is exact — the only rounding left
    is that of `p1 − p0` and of the final sum. So "at progress 1 the last point" holds **only up to that rounding**:
    `position_at_one_last_float_false_example` — path `[(76.8, 0), (399.6, 0)]`: progress 1 yields `x = 399.59998`
    (`0x43c7cccc`), not `399.6` (`0x43c7cccd`); smallest one-decimal witness `0.3 → 0.1` gives `0.099999994`.
    `position_at_one_last_float_exact`: it is the last point whenever `p0 + (p1 − p0) = p1` coordinate-wise.
-/
import RosuModel.Props.C19Ieee
import RosuModel.Lemmas.FloatExactOps
namespace Rosu.C19
open Rosu Rosu.Curve
open Float.Model Float.Model.UnpackedFloat

/-! ## 0. the binary search from comparison facts alone (no law, every scalar) -/

section Generic
variable {F : Type} [Scalar F]

/-- if every probe right of `t` compares Greater than `d` and no probe at or left of `t` does, the loop of
`binary_search_by` ends with `base = t`. -/
theorem bsLoop_of_cmp (lengths : List F) (d : F) (t : Nat)
    (hgt : ∀ j, t < j → j < lengths.length → cmpLen (lengths.getD j 0) d = .gt)
    (hle : ∀ j, j ≤ t → (cmpLen (lengths.getD j 0) d == .gt) = false) :
    ∀ fuel base size, size ≤ fuel → base ≤ t → t < base + size → base + size ≤ lengths.length →
      bsLoop lengths d fuel base size = t := by
  intro fuel
  induction fuel with
  | zero => intro base size h1 h2 h3 _; omega
  | succ n ih =>
    intro base size h1 h2 h3 h4
    simp only [bsLoop]
    split
    · rename_i hsz
      rcases Nat.lt_or_ge t (base + size / 2) with hlt | hge
      · rw [hgt _ hlt (by omega)]
        simp only [beq_self_eq_true, if_true]
        exact ih base (size - size / 2) (by omega) h2 (by omega) (by omega)
      · rw [hle _ hge]
        simp only [Bool.false_eq_true, if_false]
        exact ih (base + size / 2) (size - size / 2) (by omega) hge (by omega) (by omega)
    · omega

/-- … and if moreover the probe at `t` compares Equal, `idx_of_dist` answers `t`. -/
theorem idxOfDist_of_cmp (lengths : List F) (d : F) (t : Nat) (ht : t < lengths.length)
    (hgt : ∀ j, t < j → j < lengths.length → cmpLen (lengths.getD j 0) d = .gt)
    (hle : ∀ j, j ≤ t → (cmpLen (lengths.getD j 0) d == .gt) = false)
    (heq : cmpLen (lengths.getD t 0) d = .eq) : idxOfDist lengths d = t := by
  unfold idxOfDist
  simp only []
  rw [if_neg (by omega)]
  rw [bsLoop_of_cmp lengths d t hgt hle lengths.length 0 lengths.length (Nat.le_refl _) (Nat.zero_le _)
    (by omega) (by omega), heq]
  rfl

end Generic

/-! ## 1. `progress_to_dist` on doubles -/

/-- a double that is `== 0` is one of the two zeros. -/
theorem eq_zero_float (q : Float) (h : Scalar.eq q (0 : Float) = true) : q = FX.zero64 (FX.sign64 q) := by
  rw [FMO.eq_float, FX.unpack_zero_float] at h
  have hq := FX.pack_unpack_float q
  unfold FX.sign64
  generalize q.toModel.unpack = u at h hq
  rcases u with s|_|s|⟨s,m,e,hm⟩
  · cases s <;> cases h
  · cases h
  · exact hq.symm
  · cases s <;> cases h

/-- a double that is `== 1` is `1`. -/
theorem eq_one_float (q : Float) (h : Scalar.eq q (1 : Float) = true) : q = 1 := by
  rw [FMO.eq_float, FX.unpack_one_float] at h
  have hq := FX.pack_unpack_float q
  rw [← FX.pack_unpack_float 1, FX.unpack_one_float, ← hq]
  generalize q.toModel.unpack = u at h
  rcases u with s|_|s|⟨s,m,e,hm⟩
  · cases s <;> cases h
  · cases h
  · cases s <;> cases h
  · cases s
    · cases h
    · have h' : ((compare e (-(Format.binary64.mantissaBitsWithoutImplicit : Int))).then
          (compare m (2 ^ Format.binary64.mantissaBitsWithoutImplicit)) == Ordering.eq) = true := by
        simpa [UnpackedFloat.beq, UnpackedFloat.compare, FX.uone] using h
      have h2 : (compare e (-(Format.binary64.mantissaBitsWithoutImplicit : Int))).then
          (compare m (2 ^ Format.binary64.mantissaBitsWithoutImplicit)) = .eq := by simpa using h'
      rw [Ordering.then_eq_eq] at h2
      obtain ⟨he, hm'⟩ := h2
      have he' := Int.compare_eq_eq.mp he
      have hm'' := Nat.compare_eq_eq.mp hm'
      subst he' hm''
      rfl

/-- `clamp(q, 0, 1)` for `q ≤ 0` (`q < 0` or `q = ±0`) is a zero: `+0` for `q < 0`, `q` itself for `q = ±0`. -/
theorem clamp_nonpos_float (q : Float) (h : Scalar.le q (0 : Float) = true) :
    ∃ s, Scalar.clamp q (0 : Float) 1 = FX.zero64 s := by
  unfold Scalar.clamp
  rw [FMO.le_eq_lt_or_eq] at h
  cases hlt : Scalar.lt q (0 : Float)
  · rw [hlt] at h
    have heq : Scalar.eq q (0 : Float) = true := by simpa using h
    have hz := eq_zero_float q heq
    have h1 : Scalar.lt (1 : Float) q = false := by
      rw [hz, FX.lt_zero64_right]; decide +kernel
    simp only [Bool.false_eq_true, if_false, h1]
    exact ⟨_, hz⟩
  · have h10 : Scalar.lt (1 : Float) (0 : Float) = false := by decide +kernel
    simp only [if_true, h10, Bool.false_eq_true, if_false]
    exact ⟨.positive, FX.zero_eq_pzero64⟩

/-- `clamp(q, 0, 1) = 1` for every `q ≥ 1` (`+∞` included). -/
theorem clamp_ge_one_float (q : Float) (h : Scalar.le (1 : Float) q = true) : Scalar.clamp q (0 : Float) 1 = 1 := by
  unfold Scalar.clamp
  have h0 : Scalar.lt q (0 : Float) = false := by
    cases hq : Scalar.lt q (0 : Float)
    · rfl
    · have := FMO.lt_of_le_of_lt _ _ _ h hq
      rw [show Scalar.lt (1 : Float) (0 : Float) = false by decide +kernel] at this
      cases this
  rw [FMO.le_eq_lt_or_eq] at h
  simp only [h0, Bool.false_eq_true, if_false]
  cases hlt : Scalar.lt (1 : Float) q
  · rw [hlt] at h
    have heq : Scalar.eq q (1 : Float) = true := by rw [FMO.eq_symm]; simpa using h
    simp only [Bool.false_eq_true, if_false]
    exact eq_one_float q heq
  · simp

/-- a NaN goes through `clamp` unchanged. -/
theorem clamp_nan_float (q : Float) (h : Scalar.isNaN q = true) : Scalar.clamp q (0 : Float) 1 = q := by
  unfold Scalar.clamp
  simp [FMO.lt_nan_left _ _ h, FMO.lt_nan_right _ _ h]

/-- `±0 * x` for finite `x` is a zero. -/
theorem zero64_mul_float (s : Sign) (x : Float) (h : FX.Finite64 x) : FX.zero64 s * x = FX.zero64 (s * FX.sign64 x) := by
  rw [FX.mul_float, FX.unpack_zero64, FX.uzero_mul _ _ _ h]; rfl

/-- NaN `* x` is the NaN. -/
theorem nan_mul_float (q x : Float) (h : Scalar.isNaN q = true) : q * x = FMO.nan64 := by
  rw [FX.mul_float, FMR.eq_nan_of_isNaN q.toModel.unpack (by rw [← FMO.isNaN_float]; exact h)]; rfl

/-- **`progress_clamped_float`** — the four cases of `progress_to_dist` on doubles:
1. `q ≤ 0` (negative, `−∞`, `+0`, `−0`) and a finite total distance: the result is a zero (`+0` or `−0`);
2. `q ≥ 1` (`+∞` included): the result is the total distance, bit for bit, whatever it is (NaN and `∞` included);
3. NaN `q`: the result is NaN;
4. otherwise (`!(q < 0)`, `!(1 < q)`) it is the product `q * dist`. -/
theorem progress_clamped_float (lengths : List Float) (q : Float) :
    (Scalar.le q (0 : Float) = true → FX.Finite64 (dist lengths) → ∃ s, progressToDist lengths q = FX.zero64 s) ∧
    (Scalar.le (1 : Float) q = true → progressToDist lengths q = dist lengths) ∧
    (Scalar.isNaN q = true → progressToDist lengths q = FMO.nan64) ∧
    (Scalar.lt q (0 : Float) = false → Scalar.lt (1 : Float) q = false →
      progressToDist lengths q = q * dist lengths) := by
  refine ⟨?_, ?_, ?_, progress_to_dist_linear lengths q⟩
  · intro h hf
    obtain ⟨s, hs⟩ := clamp_nonpos_float q h
    exact ⟨_, by unfold progressToDist; rw [hs, zero64_mul_float s _ hf]⟩
  · intro h
    unfold progressToDist
    rw [clamp_ge_one_float q h, FX.one_mul_float]
  · intro h
    unfold progressToDist
    rw [clamp_nan_float q h, nan_mul_float q _ h]

/-- non-vacuity: `q = −2`, `−0`, `1`, `+∞`, NaN on `[0, 5, 9]`. -/
example : progressToDist [(0 : Float), 5, 9] (-2) = FMO.pzero64 := by decide +kernel
example : progressToDist [(0 : Float), 5, 9] FX.nzero64 = FX.nzero64 := by decide +kernel
example : progressToDist [(0 : Float), 5, 9] (1 / 0) = 9 :=
  (progress_clamped_float _ _).2.1 (by decide +kernel)
example : Float.isNaN (progressToDist [(0 : Float), 5, 9] (0 / 0)) = true := by decide +kernel
example : ∃ s, progressToDist [(0 : Float), 5, 9] (-2) = FX.zero64 s :=
  (progress_clamped_float _ _).1 (by decide +kernel) (by decide +kernel)

/-! ## 2. progress `≤ 0`: the first path point, exactly -/

/-- observation of a position as two bit patterns (for closed examples: `Pos` has no `DecidableEq`). -/
def posBits : Outcome (Pos Float32) → Option (Nat × Nat)
  | .ok p => some (p.x.toBits.toNat, p.y.toBits.toNat)
  | .error _ => none

/-- **the search for a zero distance** on lengths `0 :: rest` whose later entries are all `> 0` lands on index 0 —
for `+0` and for `−0` (IEEE comparisons do not see the sign of a zero). -/
theorem idxOfDist_zero_float (rest : List Float) (s : Sign)
    (hpos : ∀ x ∈ rest, Scalar.lt (0 : Float) x = true) : idxOfDist ((0 : Float) :: rest) (FX.zero64 s) = 0 := by
  have h00 : Scalar.lt (0 : Float) (0 : Float) = false := FMO.lt_irrefl _
  have hc0 : cmpLen (0 : Float) (FX.zero64 s) = .eq := by
    unfold cmpLen
    rw [FX.lt_zero64_right, FX.lt_zero64_left, h00]; rfl
  apply idxOfDist_of_cmp _ _ 0 (by simp)
  · intro j hj hjl
    obtain ⟨k, rfl⟩ : ∃ k, j = k + 1 := ⟨j - 1, by omega⟩
    have hk : k < rest.length := by simpa using hjl
    have hx : ((0 : Float) :: rest).getD (k + 1) 0 = rest[k] := by
      rw [List.getD_eq_getElem?_getD, List.getElem?_cons_succ, List.getElem?_eq_getElem hk]; rfl
    have hp := hpos rest[k] (List.getElem_mem hk)
    rw [hx]
    unfold cmpLen
    rw [FX.lt_zero64_right, FX.lt_zero64_left, FMO.lt_asymm _ _ hp, hp]; rfl
  · intro j hj
    have : j = 0 := by omega
    subst this
    show (cmpLen (0 : Float) (FX.zero64 s) == .gt) = false
    rw [hc0]; rfl
  · exact hc0

/-- **`position_at_zero_first_float`** — IEEE doubles / singles, the driver's instances: on cumulative lengths
`0 :: rest` whose later entries are all `> 0` (no repeated leading zero) and whose total is finite, the position at EVERY
progress `q ≤ 0` (negative, `−∞`, `+0`, `−0`) is the first path point, bit for bit. Nothing is assumed of the path
(NaN / `−0` coordinates included): the search lands on index 0 and `interpolate_vertices` returns `path[0]` untouched. -/
theorem position_at_zero_first_float (p : Pos Float32) (path : List (Pos Float32)) (rest : List Float) (q : Float)
    (hq : Scalar.le q (0 : Float) = true) (hpos : ∀ x ∈ rest, Scalar.lt (0 : Float) x = true)
    (hfin : FX.Finite64 (dist ((0 : Float) :: rest))) :
    positionAt (p :: path) ((0 : Float) :: rest) q = .ok p := by
  apply position_first_of_idx_zero
  obtain ⟨s, hs⟩ := (progress_clamped_float ((0 : Float) :: rest) q).1 hq hfin
  rw [hs]
  exact idxOfDist_zero_float rest s hpos

/-- non-vacuity: a three-point curve, progress `−0`, `−3`, `0`; the first point has a `−0` coordinate and it survives. -/
example : positionAt [⟨FX.nzero32, 3⟩, ⟨10, 20⟩, ⟨20, 5⟩] [(0 : Float), 5, 9] FX.nzero64 = .ok ⟨FX.nzero32, 3⟩ :=
  position_at_zero_first_float _ _ _ _ (by decide +kernel)
    (by intro x hx; simp at hx; rcases hx with rfl | rfl <;> decide +kernel) (by decide +kernel)

example : posBits (positionAt [⟨FX.nzero32, 3⟩, ⟨10, 20⟩, ⟨20, 5⟩] [(0 : Float), 5, 9] (-3)) =
    some (0x80000000, 0x40400000) := by decide +kernel

/-- **the hypothesis "no repeated leading zero" is necessary**: on lengths `[0, 0, 0, 9]` (two zero-length segments)
std's probing sequence finds the zero at index 2, the segment `1 → 2` is degenerate, and the position at progress 0 is
`path[1] = (10, 20)`, not `path[0] = (1, 3)`. (When the lengths are the cumulative distances of the path, `path[1]` is
at distance `0.0` from `path[0]` — equal, or closer than f32 arithmetic resolves.) -/
theorem position_at_zero_repeated_zeros_example :
    idxOfDist [(0 : Float), 0, 0, 9] 0 = 2 ∧
    posBits (positionAt [⟨1, 3⟩, ⟨10, 20⟩, ⟨20, 5⟩, ⟨7, 7⟩] [(0 : Float), 0, 0, 9] 0) =
      some ((10 : Float32).toBits.toNat, (20 : Float32).toBits.toNat) ∧
    posBits (positionAt [⟨1, 3⟩, ⟨10, 20⟩, ⟨20, 5⟩, ⟨7, 7⟩] [(0 : Float), 0, 0, 9] 0) ≠
      some ((1 : Float32).toBits.toNat, (3 : Float32).toBits.toNat) := by decide +kernel

/-- **the hypothesis "finite total" is necessary**: with an infinite last length `0 * ∞` is NaN, the search (every
comparison with NaN is `Equal`) lands on the last index and both coordinates of the position at progress 0 are NaN. -/
theorem position_at_zero_infinite_example :
    (match positionAt (P := Float32) [⟨1, 3⟩, ⟨10, 20⟩] [(0 : Float), 1 / 0] 0 with
      | .ok p => p.x.isNaN && p.y.isNaN
      | .error _ => false) = true := by decide +kernel

end Rosu.C19
