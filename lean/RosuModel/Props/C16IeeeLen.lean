/-
  Props/C16IeeeLen.lean — C16 `lengths_monotone` for the driver's arithmetic with NO hypothesis on the segment lengths.

  Props/C16Ieee.lean proves that the natural cumulative lengths `cumLens c path` (computed in `Float` from `Float32`
  points) never decrease, *assuming* every segment length `Cvt.up (Pos.length Float v)` satisfies `0 ≤ ·`, because the
  conversions `f32 ↔ f64` were opaque. They are now the kernel-transparent `upBits`/`downBits` of Model/FloatBits.lean,
  and Lemmas/FloatBitsLaws.lean proves their sign / NaN behaviour. Here:

  * `len_nonneg_of_not_nan`, `len_nan_of_nan`, `len_isNaN_iff`, **`len_nonneg_float`**: the segment length
    `f64::from((f64::from(x*x + y*y)).sqrt() as f32)` is a NaN exactly when `x` or `y` is a NaN, and is `≥ 0` otherwise
    (it is `+∞` when `x*x + y*y` overflows in `f32`, or when a coordinate is infinite);
  * **`lengths_monotone_float_real`**: for `0 ≤ c`, if no entry of `(cumLens c path).1` is a NaN then
    `c :: (cumLens c path).1` never decreases and every entry is `≥ 0`; `lengths_monotone_float_anystart`: for any
    start `c`, no NaN among `c :: entries` suffices for monotonicity;
  * **`no_nan_of_finite`**, **`lengths_monotone_float_finite`**, `natLens_monotone_float_finite`: if all coordinates
    of the path are finite (not NaN, not `±∞`) and `0 ≤ c`, the cumulative lengths never decrease, are all `≥ 0` and
    hence never NaN. They *may* reach `+∞` (`x*x` overflows in `f32` for `|x| > 1.85e19`, `∞ + ∞ = ∞`, `sqrt ∞ = ∞`):
    see the last `example`. A NaN needs a NaN or infinite coordinate (`∞ − ∞`), or a start value `c = −∞`.
-/
import RosuModel.Props.C16Ieee
import RosuModel.Lemmas.FloatBitsLaws
namespace Rosu.C16
open Rosu Rosu.Curve

/-! ### one segment length -/

theorem len_unfold (v : Pos Float32) :
    Pos.length Float v = Cvt.down (Scalar.sqrt (Cvt.up (v.x * v.x + v.y * v.y) : Float)) := rfl

/-- `x*x + y*y ≥ 0` in `f32` for non-NaN `x`, `y` (possibly `+∞`). -/
theorem sumsq_nonneg (v : Pos Float32) (hx : Scalar.isNaN v.x = false) (hy : Scalar.isNaN v.y = false) :
    Scalar.le (0 : Float32) (v.x * v.x + v.y * v.y) = true :=
  add_nonneg_float32 _ _ (FB.mul_self_nonneg_of_not_nan_float32 _ hx) (FB.mul_self_nonneg_of_not_nan_float32 _ hy)

theorem sumsq_nan (v : Pos Float32) (h : Scalar.isNaN v.x = true ∨ Scalar.isNaN v.y = true) :
    Scalar.isNaN (v.x * v.x + v.y * v.y) = true := by
  rcases h with h | h
  · exact FB.add_isNaN_left_float32 _ _ (by rw [FB.mul_self_isNaN_float32]; exact h)
  · exact FB.add_isNaN_right_float32 _ _ (by rw [FB.mul_self_isNaN_float32]; exact h)

/-- the length of a vector without NaN coordinates is `≥ 0` (possibly `+∞`): the hypothesis `hseg` of
`lengths_monotone_float` holds. -/
theorem len_nonneg_of_not_nan (v : Pos Float32) (hx : Scalar.isNaN v.x = false) (hy : Scalar.isNaN v.y = false) :
    Scalar.le (0 : Float) (Cvt.up (Pos.length Float v)) = true :=
  FB.up_nonneg _ (FB.down_nonneg _ (FB.sqrt_nonneg_float _ (FB.up_nonneg _ (sumsq_nonneg v hx hy))))

/-- a NaN coordinate makes the length a NaN. -/
theorem len_nan_of_nan (v : Pos Float32) (h : Scalar.isNaN v.x = true ∨ Scalar.isNaN v.y = true) :
    Scalar.isNaN (Cvt.up (Pos.length Float v) : Float) = true := by
  rw [len_unfold, FB.up_isNaN, FB.down_isNaN]
  apply FB.sqrt_isNaN_float
  rw [FB.up_isNaN]
  exact sumsq_nan v h

/-- the length is a NaN exactly when a coordinate is. -/
theorem len_isNaN_iff (v : Pos Float32) :
    Scalar.isNaN (Cvt.up (Pos.length Float v) : Float) = (Scalar.isNaN v.x || Scalar.isNaN v.y) := by
  cases hx : Scalar.isNaN v.x
  · cases hy : Scalar.isNaN v.y
    · exact nonneg_not_nan_float _ (len_nonneg_of_not_nan v hx hy)
    · exact len_nan_of_nan v (Or.inr hy)
  · exact len_nan_of_nan v (Or.inl hx)

/-- **every segment length is `≥ 0` or a NaN** — for the real `Cvt Float32 Float` instance, all inputs. -/
theorem len_nonneg_float (v : Pos Float32) :
    Scalar.le (0 : Float) (Cvt.up (Pos.length Float v)) = true ∨
      Scalar.isNaN (Cvt.up (Pos.length Float v) : Float) = true := by
  cases hx : Scalar.isNaN v.x
  · cases hy : Scalar.isNaN v.y
    · exact Or.inl (len_nonneg_of_not_nan v hx hy)
    · exact Or.inr (len_nan_of_nan v (Or.inr hy))
  · exact Or.inr (len_nan_of_nan v (Or.inl hx))

/-! ### lists of segment lengths -/

section Generic
variable {P F : Type} [Scalar P] [Scalar F] [Cvt P F]

/-- every segment length is the length of a difference of two path points. -/
theorem mem_segLens {s : F} {path : List (Pos P)} (h : s ∈ segLens F path) :
    ∃ a b, a ∈ path ∧ b ∈ path ∧ s = Cvt.up (Pos.length F (b - a)) := by
  induction path with
  | nil => cases h
  | cons a t ih =>
    cases t with
    | nil => cases h
    | cons b t' =>
      have h' : s ∈ Cvt.up (Pos.length F (b - a)) :: segLens F (b :: t') := h
      rcases List.mem_cons.mp h' with rfl | h''
      · exact ⟨a, b, by simp, by simp, rfl⟩
      · obtain ⟨a', b', ha', hb', hs⟩ := ih h''
        exact ⟨a', b', List.mem_cons_of_mem _ ha', List.mem_cons_of_mem _ hb', hs⟩

/-- if a NaN summand makes the sum a NaN, running sums without a NaN have no NaN summand. -/
theorem runSums_segs_not_nan (hadd : ∀ a s : F, Scalar.isNaN s = true → Scalar.isNaN (a + s) = true)
    (c : F) (segs : List F) (hnan : ∀ v ∈ runSums c segs, Scalar.isNaN v = false) :
    ∀ s ∈ segs, Scalar.isNaN s = false := by
  induction segs generalizing c with
  | nil => intro s hs; cases hs
  | cons s t ih =>
    intro s' hs'
    have hnan' : ∀ v ∈ (c + s) :: runSums (c + s) t, Scalar.isNaN v = false := hnan
    rcases List.mem_cons.mp hs' with rfl | hs''
    · cases hc : Scalar.isNaN s'
      · rfl
      · have := hnan' (c + s') (by simp)
        rw [hadd c s' hc] at this; cases this
    · exact ih (c + s) (fun v hv => hnan' v (List.mem_cons_of_mem _ hv)) s' hs''

end Generic

/-- without a NaN among the cumulative lengths, every segment length is `≥ 0`. -/
theorem segLens_nonneg_of_no_nan (c : Float) (path : List (Pos Float32))
    (hnan : ∀ v ∈ (cumLens c path).1, Scalar.isNaN v = false) :
    ∀ s ∈ segLens Float path, Scalar.le (0 : Float) s = true := by
  intro s hs
  rw [cumLens_eq_runSums] at hnan
  have hs0 := runSums_segs_not_nan (F := Float) FB.add_isNaN_right_float c _ hnan s hs
  obtain ⟨a, b, _, _, rfl⟩ := mem_segLens hs
  rcases len_nonneg_float (b - a) with h | h
  · exact h
  · rw [h] at hs0; cases hs0

/-! ### `lengths_monotone` without a hypothesis on the segment lengths -/

/-- **`lengths_monotone` for the driver's arithmetic, unconditional in the segment lengths**: from a start value
`0 ≤ c` (`optimized_len`), if no cumulative length is a NaN then they never decrease — exactly — and are all `≥ 0`. -/
theorem lengths_monotone_float_real (c : Float) (path : List (Pos Float32)) (hc : Scalar.le (0 : Float) c = true)
    (hnan : ∀ v ∈ (cumLens c path).1, Scalar.isNaN v = false) :
    Mono (c :: (cumLens c path).1) ∧ ∀ v ∈ c :: (cumLens c path).1, Scalar.le (0 : Float) v = true :=
  lengths_monotone_float_nonneg c path hc (segLens_nonneg_of_no_nan c path hnan)

/-- any start value: no NaN among `c :: cumulative lengths` suffices. -/
theorem lengths_monotone_float_anystart (c : Float) (path : List (Pos Float32))
    (hnan : ∀ v ∈ c :: (cumLens c path).1, Scalar.isNaN v = false) : Mono (c :: (cumLens c path).1) :=
  lengths_monotone_float c path
    (segLens_nonneg_of_no_nan c path (fun v hv => hnan v (List.mem_cons_of_mem _ hv))) hnan

/-- the complete list `0.0 :: running sums` that `calculate_length` returns. -/
theorem natLens_monotone_float_real (opt : Float) (path : List (Pos Float32))
    (hopt : Scalar.le (0 : Float) opt = true) (hnan : ∀ v ∈ (cumLens opt path).1, Scalar.isNaN v = false) :
    Mono (natLens opt path) :=
  natLens_monotone_float opt path hopt (segLens_nonneg_of_no_nan opt path hnan)

/-! ### finite coordinates: no NaN can arise -/

/-- both coordinates are finite `f32` values (not NaN, not `±∞`). -/
abbrev FinitePos (p : Pos Float32) : Prop :=
  p.x.toModel.unpack.isFinite = true ∧ p.y.toModel.unpack.isFinite = true

/-- the distance of two points with finite coordinates is `≥ 0` (it is `+∞` if a difference or the sum of squares
overflows in `f32`). -/
theorem len_nonneg_of_finite (a b : Pos Float32) (ha : FinitePos a) (hb : FinitePos b) :
    Scalar.le (0 : Float) (Cvt.up (Pos.length Float (b - a))) = true :=
  len_nonneg_of_not_nan (b - a) (FB.sub_not_nan_float32 b.x a.x hb.1 ha.1) (FB.sub_not_nan_float32 b.y a.y hb.2 ha.2)

/-- **finite coordinates never give a NaN length.** -/
theorem no_nan_of_finite (a b : Pos Float32) (ha : FinitePos a) (hb : FinitePos b) :
    Scalar.isNaN (Cvt.up (Pos.length Float (b - a)) : Float) = false :=
  nonneg_not_nan_float _ (len_nonneg_of_finite a b ha hb)

theorem segLens_nonneg_of_finite (path : List (Pos Float32)) (hfin : ∀ p ∈ path, FinitePos p) :
    ∀ s ∈ segLens Float path, Scalar.le (0 : Float) s = true := by
  intro s hs
  obtain ⟨a, b, ha, hb, rfl⟩ := mem_segLens hs
  exact len_nonneg_of_finite a b (hfin a ha) (hfin b hb)

/-- **`lengths_monotone`, finite coordinates**: for a path whose coordinates are all finite and a start value
`0 ≤ c`, the natural cumulative lengths never decrease, are `≥ 0`, and are never NaN. (They can be `+∞`.) -/
theorem lengths_monotone_float_finite (c : Float) (path : List (Pos Float32)) (hc : Scalar.le (0 : Float) c = true)
    (hfin : ∀ p ∈ path, FinitePos p) :
    Mono (c :: (cumLens c path).1) ∧
      (∀ v ∈ c :: (cumLens c path).1, Scalar.le (0 : Float) v = true) ∧
      (∀ v ∈ c :: (cumLens c path).1, Scalar.isNaN v = false) := by
  obtain ⟨hm, hall⟩ := lengths_monotone_float_nonneg c path hc (segLens_nonneg_of_finite path hfin)
  exact ⟨hm, hall, fun v hv => nonneg_not_nan_float v (hall v hv)⟩

theorem natLens_monotone_float_finite (opt : Float) (path : List (Pos Float32))
    (hopt : Scalar.le (0 : Float) opt = true) (hfin : ∀ p ∈ path, FinitePos p) : Mono (natLens opt path) :=
  natLens_monotone_float opt path hopt (segLens_nonneg_of_finite path hfin)

/-! ### non-vacuity (closed instances of the real `Float32`/`Float` pipeline evaluated by the kernel) -/

section NonVacuity

/-- the path `(0,0), (3,4), (6,8)` in `f32`: cumulative lengths `[5, 10]` in `f64`. -/
example : (cumLens (0 : Float) [(⟨0, 0⟩ : Pos Float32), ⟨3, 4⟩, ⟨6, 8⟩]).1 = [5, 10] := by decide +kernel

/-- hypotheses of `lengths_monotone_float_real` / `_finite` on that path. -/
example : Scalar.le (0 : Float) (0 : Float) = true ∧
    (∀ v ∈ (cumLens (0 : Float) [(⟨0, 0⟩ : Pos Float32), ⟨3, 4⟩, ⟨6, 8⟩]).1, Scalar.isNaN v = false) ∧
    (∀ p ∈ [(⟨0, 0⟩ : Pos Float32), ⟨3, 4⟩, ⟨6, 8⟩], FinitePos p) := by decide +kernel

/-- an inexact instance: `(0.1, 0.2) → (1.5, −2.25) → (−7, 3e10)`, start `0.25`. -/
example : Scalar.le (0 : Float) (0.25 : Float) = true ∧
    (∀ v ∈ (cumLens (0.25 : Float) [(⟨0.1, 0.2⟩ : Pos Float32), ⟨1.5, -2.25⟩, ⟨-7, 3e10⟩]).1,
      Scalar.isNaN v = false) ∧
    (∀ p ∈ [(⟨0.1, 0.2⟩ : Pos Float32), ⟨1.5, -2.25⟩, ⟨-7, 3e10⟩], FinitePos p) := by decide +kernel

/-- **`+∞` is reached from finite coordinates**: `(0,0) → (f32::MAX, 0)`: `x*x` overflows in `f32`, so the length and
every later cumulative length is `+∞` (not a NaN; monotonicity still holds). -/
example : ((cumLens (0 : Float) [(⟨0, 0⟩ : Pos Float32), ⟨Float32.ofBits 0x7F7FFFFF, 0⟩, ⟨1, 1⟩]).1.map Float.toBits)
    = [0x7FF0000000000000, 0x7FF0000000000000] ∧
    FinitePos ⟨Float32.ofBits 0x7F7FFFFF, 0⟩ := by decide +kernel

/-- already `(0,0) → (2e19, 0)` overflows: the true length `2e19` is far below `f32::MAX ≈ 3.4e38`. -/
example : ((cumLens (0 : Float) [(⟨0, 0⟩ : Pos Float32), ⟨2e19, 0⟩]).1.map Float.toBits) = [0x7FF0000000000000] := by
  decide +kernel

/-- a NaN needs a non-finite coordinate: `(∞, 0) → (∞, 0)` gives `∞ − ∞`; the NaN hypothesis of
`lengths_monotone_float_real` is then false, and it is needed (`NaN ≤ NaN` is false). -/
example : (∀ v ∈ (cumLens (0 : Float) [(⟨Float32.ofBits 0x7F800000, 0⟩ : Pos Float32),
      ⟨Float32.ofBits 0x7F800000, 0⟩, ⟨1, 1⟩]).1, Scalar.isNaN v = true) ∧
    ¬ Mono ((0 : Float) :: (cumLens (0 : Float) [(⟨Float32.ofBits 0x7F800000, 0⟩ : Pos Float32),
      ⟨Float32.ofBits 0x7F800000, 0⟩, ⟨1, 1⟩]).1) := by
  constructor
  · decide +kernel
  · intro h
    exact absurd h.2.1 (by decide +kernel)

/-- `len_nonneg_float`, both disjuncts: `|(3,4)| = 5`; a NaN coordinate gives a NaN. -/
example : Scalar.le (0 : Float) (Cvt.up (Pos.length Float (⟨3, 4⟩ : Pos Float32))) = true ∧
    Scalar.isNaN (Cvt.up (Pos.length Float (⟨Float32.ofBits 0x7FC00000, 4⟩ : Pos Float32)) : Float) = true := by
  decide +kernel

end NonVacuity

end Rosu.C16
