/-
  Props/C02CapstoneToyRt.lean — second half of the non-vacuity of `roundtrip_decoded_capstone` on the toy file of
  Props/C02CapstoneToy.lean (split for build time): the decoded map `capMap` encodes, the text decodes and FINISHES again
  (kernel evaluation), and the theorem gives `PreservedEq capMap m2` for the re-decoded map (`cap_roundtrip_total`).
-/
import RosuModel.Props.C02CapstoneToy
set_option linter.unusedSectionVars false
set_option maxRecDepth 100000
namespace Rosu.C02
open Rosu Encode EncodeLines C11 RtTiming Scalar FileRt SliderRt DecodedObj RtObjects

/-- kernel evaluation of the SECOND half of the round trip on the toy file: the map encodes, the text has no BOM, and the
state the text's lines lead to finishes (curve of the re-decoded slider included). -/
theorem cap_redecode_check :
    (match encode capMap with
     | .ok t => decide (t.head? ≠ some (Char.ofNat 0xFEFF)) &&
         (frame (beatmapDecoder : LineDecoder (BeatmapState ZC ZC)) ((textLines t).map trimEnd)).finish.toOption.isSome
     | .error _ => false) = true := by decide +kernel

theorem cap_encodes : ∃ t, encode capMap = .ok t := by
  have key := cap_redecode_check
  cases h : encode capMap with
  | error e => rw [h] at key; cases key
  | ok t => exact ⟨t, rfl⟩

/-- **non-vacuity of the capstone**: the toy file decodes, lies in the domain, encodes, and the theorem gives the round
trip on the preserved view. -/
theorem cap_roundtrip :
    ∃ t, encode capMap = .ok t ∧
      ∃ st2 : BeatmapState ZC ZC, decodeBytes beatmapDecoder (utf8Encode t) = .ok st2 ∧
        ∀ m2 : Beatmap ZC ZC, st2.finish = .ok m2 → PreservedEq capMap m2 := by
  obtain ⟨t, ht⟩ := cap_encodes
  exact ⟨t, ht, roundtrip_decoded_capstone exactLaws_zc capBytes capState capMap cap_decodes cap_finishes cap_domain t ht⟩

/-- … and the conclusion is not vacuous either: the re-decoded state DOES finish, so there is a re-decoded map `m2`, and it
equals `capMap` on the preserved view. The whole chain bytes → `capMap` → text → `m2` on one concrete file. -/
theorem cap_roundtrip_total :
    ∃ (t : Str) (st2 : BeatmapState ZC ZC) (m2 : Beatmap ZC ZC), encode capMap = .ok t ∧
      decodeBytes beatmapDecoder (utf8Encode t) = .ok st2 ∧ st2.finish = .ok m2 ∧ PreservedEq capMap m2 := by
  obtain ⟨t, ht⟩ := cap_encodes
  have key := cap_redecode_check
  rw [ht] at key
  simp only [Bool.and_eq_true, decide_eq_true_eq] at key
  obtain ⟨hhead, hfin⟩ := key
  obtain ⟨st2, hd, hall⟩ :=
    roundtrip_decoded_capstone exactLaws_zc capBytes capState capMap cap_decodes cap_finishes cap_domain t ht
  have e := decode_unique hd (RtFile.decodeBytes_utf8_text beatmapDecoder t hhead)
  rw [← e] at hfin
  cases hf : st2.finish with
  | error err => rw [hf] at hfin; cases hfin
  | ok m2 => exact ⟨t, st2, m2, ht, hd, hf, hall m2 hf⟩

/-- what the preserved view says on the toy file, read off the theorem: the positive beatmap id, the break, the timing
point and the slider come back. -/
theorem cap_roundtrip_content (m2 : Beatmap ZC ZC) (h : PreservedEq capMap m2) :
    m2.events.breaks.length = 1 ∧ m2.controlPoints.timingPoints.map (fun p => (p.time, p.beatLen)) = [(⟨0⟩, ⟨6⟩)] ∧
    m2.hitObjects.length = 1 := by
  refine ⟨by rw [h.events]; exact cap_content.2.2.1, by rw [h.timingPoints]; exact cap_content.2.2.2.1, ?_⟩
  rw [h.count]
  have := congrArg List.length cap_content.2.2.2.2.2
  simpa using this

/-- the hypotheses of `roundtrip_decoded_capstone` are satisfiable on a concrete non-trivial value. -/
example (t : Str) (he : encode capMap = .ok t) :=
  roundtrip_decoded_capstone exactLaws_zc capBytes capState capMap cap_decodes cap_finishes cap_domain t he

end Rosu.C02
