/-
  Props/C09Encode.lean — the write side of C09 for the MODELLED encoder.

  `Props/C09.lean` proves the writer theorems for an arbitrary list of `write_all` calls. `Beatmap::encode`
  (`src/encode.rs`) is such a list followed by one `flush`; the bytes it writes are the UTF-8 encoding of the text
  `Model/Encode.lean` computes (`Encode.encode`, compared with the real encoder character for character on every run:
  request families `enc`, `rt`, `edit`). This file composes the two: whatever way the real encoder cuts its output into
  `write_all` calls (`calls.flatten = utf8Encode text` is all that is assumed of the cut), a writer fault that is
  reached is the result of encoding the map, what the writer received is the prefix in front of the fault, and without
  a reached fault every byte of the text is written and the result is the result of `flush`.
-/
import RosuModel.Props.C09
import RosuModel.Model.Encode
import RosuModel.Props.C04Toy
namespace Rosu.C09
open Rosu

variable {F P : Type} [Scalar F] [Scalar P] [Cvt P F] [Trig F] [Trig P]

/-- `Beatmap::encode(writer)` for a map: the encoder's text (or its panic / fuel outcome, which no writer sees), written
through `calls` — any cut of the text's UTF-8 bytes into `write_all` calls — and flushed. -/
def encodeMapTo (w : WSched) (fl : Except IoKind Unit) (m : Beatmap F P) (calls : List (List UInt8)) : Outcome WResult :=
  (Encode.encode m).map fun _ => encodeTo w fl calls

/-- **A writer fault that is reached is what encoding the map returns** — for every map the encoder finishes on, every
writer schedule and every cut of the output into `write_all` calls: the error of the first fatal event (`WriteZero` for
`Ok(0)`), exactly the bytes in front of it accepted, no `flush`. -/
theorem encode_map_fault_surfaces (w : WSched) (fl : Except IoKind Unit) (m : Beatmap F P) (text : Str)
    (calls : List (List UInt8)) (henc : Encode.encode m = .ok text) (hcut : calls.flatten = utf8Encode text)
    (c : Nat) (k : IoKind) (hf : fatal w = some (c, k)) (hl : c < (utf8Encode text).length) :
    ∃ r, encodeMapTo w fl m calls = .ok r ∧ r.result = .error k ∧ r.written = (utf8Encode text).take c ∧ r.flushed = false := by
  have ht : c < total calls := by unfold total; rw [hcut]; exact hl
  obtain ⟨a1, a2, a3⟩ := write_fault_surfaces w fl calls c k hf ht
  refine ⟨encodeTo w fl calls, ?_, a1, ?_, a3⟩
  · unfold encodeMapTo; rw [henc]; rfl
  · rw [a2, hcut]

/-- **Without a reached fault the whole text is written** (short writes and `Interrupted` results are transparent) and the
result of encoding is the result of the final `flush` — in particular a failing `flush` is an error. -/
theorem encode_map_complete (w : WSched) (fl : Except IoKind Unit) (m : Beatmap F P) (text : Str)
    (calls : List (List UInt8)) (henc : Encode.encode m = .ok text) (hcut : calls.flatten = utf8Encode text)
    (h : fatal w = none ∨ ∃ c k, fatal w = some (c, k) ∧ (utf8Encode text).length ≤ c) :
    ∃ r, encodeMapTo w fl m calls = .ok r ∧ r.result = fl ∧ r.written = utf8Encode text ∧ r.flushed = true := by
  have hn : notReached w calls := by
    cases h with
    | inl h0 => exact Or.inl h0
    | inr h1 =>
      obtain ⟨c, k, hf, hl⟩ := h1
      exact Or.inr ⟨c, k, hf, by unfold total; rw [hcut]; exact hl⟩
  obtain ⟨a1, a2, a3⟩ := short_writes_transparent w fl calls hn
  refine ⟨encodeTo w fl calls, ?_, a1, ?_, a3⟩
  · unfold encodeMapTo; rw [henc]; rfl
  · rw [a2, hcut]

/-- **Encoding a map succeeds exactly when no fault is reached and `flush` succeeds**: an `Ok` can never hide a fault
in front of the end of the output, and the bytes the writer holds after an `Ok` are the whole text. -/
theorem encode_map_ok_iff (w : WSched) (fl : Except IoKind Unit) (m : Beatmap F P) (text : Str)
    (calls : List (List UInt8)) (henc : Encode.encode m = .ok text) (hcut : calls.flatten = utf8Encode text) :
    (∃ r, encodeMapTo w fl m calls = .ok r ∧ r.result = .ok ()) ↔
      (fl = .ok () ∧ (fatal w = none ∨ ∃ c k, fatal w = some (c, k) ∧ (utf8Encode text).length ≤ c)) := by
  constructor
  · rintro ⟨r, hr, hok⟩
    cases hfa : fatal w with
    | none =>
      obtain ⟨r', hr', h1, _, _⟩ := encode_map_complete w fl m text calls henc hcut (Or.inl hfa)
      rw [hr] at hr'; cases hr'
      exact ⟨by rw [← h1]; exact hok, Or.inl rfl⟩
    | some p =>
      obtain ⟨c, k⟩ := p
      by_cases hl : c < (utf8Encode text).length
      · obtain ⟨r', hr', h1, _, _⟩ := encode_map_fault_surfaces w fl m text calls henc hcut c k hfa hl
        rw [hr] at hr'; cases hr'
        rw [h1] at hok; cases hok
      · have hh : fatal w = none ∨ ∃ c k, fatal w = some (c, k) ∧ (utf8Encode text).length ≤ c :=
          Or.inr ⟨c, k, hfa, by omega⟩
        obtain ⟨r', hr', h1, _, _⟩ := encode_map_complete w fl m text calls henc hcut hh
        rw [hr] at hr'; cases hr'
        exact ⟨by rw [← h1]; exact hok, Or.inr ⟨c, k, rfl, by omega⟩⟩
  · rintro ⟨hfl, h⟩
    obtain ⟨r, hr, h1, _, _⟩ := encode_map_complete w fl m text calls henc hcut h
    exact ⟨r, hr, by rw [h1, hfl]⟩

/-- what the writer holds is always a prefix of the map's text, fault or not. -/
theorem encode_map_written_prefix (w : WSched) (fl : Except IoKind Unit) (m : Beatmap F P) (text : Str)
    (calls : List (List UInt8)) (henc : Encode.encode m = .ok text) (hcut : calls.flatten = utf8Encode text) :
    ∃ r, encodeMapTo w fl m calls = .ok r ∧ r.written <+: utf8Encode text := by
  refine ⟨encodeTo w fl calls, by unfold encodeMapTo; rw [henc]; rfl, ?_⟩
  rw [← hcut]; exact written_prefix w fl calls

/-- the encoder's own failure (a panic outcome of the model: the `f64::clamp` assertion of `SliderEventsIter::new`, see
C01) is not an I/O result: no `WResult` exists then. -/
theorem encode_map_panic (w : WSched) (fl : Except IoKind Unit) (m : Beatmap F P) (e : CErr)
    (calls : List (List UInt8)) (henc : Encode.encode m = .error e) : encodeMapTo w fl m calls = .error e := by
  unfold encodeMapTo; rw [henc]; rfl

/-- non-vacuity: the toy map of `Props/C04Toy.lean` (mania, timing points, a slider, a spinner, a hold note) is a map the
encoder finishes on; its text written in two calls into a writer that takes 7 bytes, reports `Interrupted`, takes 5 more
and then fails: the fault is the result, 12 bytes were accepted. -/
example : ∃ text, Encode.encode C04.toyMap = .ok text ∧
    ∀ fl, ∃ r, encodeMapTo [.accept 7, .intr, .accept 5, .fail .other] fl C04.toyMap
        [(utf8Encode text).take 9, (utf8Encode text).drop 9] = .ok r ∧
      (12 < (utf8Encode text).length → r.result = .error .other ∧ r.written = (utf8Encode text).take 12 ∧ r.flushed = false) := by
  obtain ⟨text, ht⟩ := C04.toyMap_encodes
  refine ⟨text, ht, fun fl => ?_⟩
  have hcut : [(utf8Encode text).take 9, (utf8Encode text).drop 9].flatten = utf8Encode text := by simp
  by_cases hl : 12 < (utf8Encode text).length
  · obtain ⟨r, h1, h2, h3, h4⟩ := encode_map_fault_surfaces [.accept 7, .intr, .accept 5, .fail .other] fl C04.toyMap text _ ht hcut
      12 .other (by decide) hl
    exact ⟨r, h1, fun _ => ⟨h2, h3, h4⟩⟩
  · exact ⟨_, by unfold encodeMapTo; rw [ht]; rfl, fun h => absurd h hl⟩

end Rosu.C09
