/-
  Props/C13Full.lean — the module audited for C13: Props/C13Exact.lean (and what it imports) together with
  Props/C13Ieee.lean (the IEEE / real-analysis instantiations). All in namespace Rosu.C13.
-/
import RosuModel.Props.C13Exact
import RosuModel.Props.C13Ieee
