/-
  Props/C03Frame.lean — C03, the frame clause for the hit-object and timing-point views.

  * `encode_objects_depends_only_on`, `encode_timing_depends_only_on`: the `[HitObjects]` block is written from
    (hit objects, mode), the `[TimingPoints]` block from (control points, hit objects, mode, format version, slider
    multiplier, slider tick rate) — same inputs, same block, same failure.
  * `decode_block_independent`: for two files of the encoder's shape (version line, eight blocks in canonical order)
    with the same `[TimingPoints]` and `[HitObjects]` record lines, the hit-object / control-point part of the decoder
    state depends on the record blocks only through what `[General]` leaves as mode, default sample bank and default
    sample volume; after finalisation, the hit objects and control points depend in addition only on the slider
    multiplier `[Difficulty]` leaves and the breaks `[Events]` leaves. The version line and the slider tick rate are
    not read by the decoder model at all.
  * `edit_frame_objects`: an edit of metadata / editor / colours / general fields other than mode / difficulty fields
    other than slider multiplier and tick rate / the background file, to representable values: encoding the edited
    map succeeds whenever encoding the unedited map does, and both texts decode to the same hit objects and the same
    control points (or finalisation fails on both in the same way). For every lawful number codec; the two list
    blocks are assumed to consist of LF-free record lines (the open part of C04).

  Excluded edits, and why they are excluded (each changes what the decoder computes, by design of the format):
  mode (Catmull handling in `convert_points`, scroll speed of effect points, velocity clamp, custom sample fields);
  slider multiplier (slider velocity, hence durations and the sample points looked up); slider tick rate (the
  encoder's `collect_samples` places nested sample points by it); breaks (`post_process_breaks` forces new combos).
-/
import RosuModel.Props.C03
import RosuModel.Props.C04
import RosuModel.Lemmas.FrameEncode
import RosuModel.Lemmas.FrameDecode
namespace Rosu.C03
open Rosu Encode EncodeLines C11 RtFile FrameEnc FrameDec

set_option linter.unusedSectionVars false

section
variable {F P : Type} [Scalar F] [Scalar P] [Cvt P F] [Trig F] [Trig P]

/-! ### Task 1: what the encoder's list blocks are written from -/

/-- **encode_objects_depends_only_on**: two maps with the same hit objects and the same mode get the same
`[HitObjects]` block — the same text, or the same failure of the curve code. -/
theorem encode_objects_depends_only_on (m m' : Beatmap F P) (hmode : m'.general.mode = m.general.mode)
    (hobj : m'.hitObjects = m.hitObjects) : encodeHitObjects m' = encodeHitObjects m :=
  encodeHitObjects_congr m m' hmode hobj

/-- **encode_timing_depends_only_on**: two maps with the same control points, hit objects, mode, format version,
slider multiplier and slider tick rate get the same `[TimingPoints]` block — the same text, or the same failure. -/
theorem encode_timing_depends_only_on (m m' : Beatmap F P) (hs : SameListInputs m m') :
    encodeTimingPoints m' = encodeTimingPoints m :=
  encodeTimingPoints_congr m m' hs

/-- hence encoding the second map succeeds exactly when encoding the first does. -/
theorem encode_ok_of_same_list_inputs (m m' : Beatmap F P) (hs : SameListInputs m m') (t : Str) (h : encode m = .ok t) :
    ∃ t', encode m' = .ok t' := by
  obtain ⟨timing, objects, h1, h2, _⟩ := C04.encode_shape m t h
  unfold encode
  rw [encode_timing_depends_only_on m m' hs, encode_objects_depends_only_on m m' hs.mode hs.hitObjects, h1, h2]
  exact ⟨_, rfl⟩

/-! ### Task 2: what the decoder's hit objects and control points are read from -/

/-- **decode_block_independent (decoder state)**: two files of the encoder's shape with the same `[TimingPoints]`
lines `T` and the same `[HitObjects]` lines `H`. If the two `[General]` blocks leave the same mode, default sample
bank and default sample volume, then the hit-object and control-point part of the `Beatmap` decoder state is the
same — whatever the version lines, the rest of `[General]`, and the `[Editor]`, `[Metadata]`, `[Difficulty]`,
`[Events]`, `[Colours]` blocks are. -/
theorem decode_block_independent_state (v v' : Int) (hv : -i32Max ≤ v ∧ v ≤ i32Max) (hv' : -i32Max ≤ v' ∧ v' ≤ i32Max)
    (G E M D Ev C G' E' M' D' Ev' C' T H : List Str)
    (hG : ∀ r ∈ G, RecordLine r) (hE : ∀ r ∈ E, RecordLine r) (hM : ∀ r ∈ M, RecordLine r) (hD : ∀ r ∈ D, RecordLine r)
    (hEv : ∀ r ∈ Ev, RecordLine r) (hC : ∀ r ∈ C, RecordLine r)
    (hG' : ∀ r ∈ G', RecordLine r) (hE' : ∀ r ∈ E', RecordLine r) (hM' : ∀ r ∈ M', RecordLine r)
    (hD' : ∀ r ∈ D', RecordLine r) (hEv' : ∀ r ∈ Ev', RecordLine r) (hC' : ∀ r ∈ C', RecordLine r)
    (hT : ∀ r ∈ T, RecordLine r) (hH : ∀ r ∈ H, RecordLine r)
    (hkey : tpKey (runSection RtGeneral.generalStep (GeneralState.default : GeneralState F P) G') =
      tpKey (runSection RtGeneral.generalStep (GeneralState.default : GeneralState F P) G)) :
    SameObj (frame (beatmapDecoder : LineDecoder (BeatmapState F P)) (fileLines v' G' E' M' D' Ev' T C' H))
      (frame (beatmapDecoder : LineDecoder (BeatmapState F P)) (fileLines v G E M D Ev T C H)) := by
  rw [frame_fileLines _ _ hv.1 hv.2 _ _ _ _ _ _ _ _ hG hE hM hD hEv hT hC hH,
    frame_fileLines _ _ hv'.1 hv'.2 _ _ _ _ _ _ _ _ hG' hE' hM' hD' hEv' hT hC' hH]
  simp only [beatmapDecoder]
  refine sameObj_hitObjects H _ _ (sameObj_colors C' C _ _ (sameObj_timing T _ _ ?_))
  obtain ⟨a1, a2, _, _⟩ := after_records (F := F) (P := P) v G E M D Ev
  obtain ⟨b1, b2, _, _⟩ := after_records (F := F) (P := P) v' G' E' M' D' Ev'
  exact ⟨b1.trans a1.symm, by rw [a2, b2]; exact hkey⟩

/-- **decode_block_independent**: … and if moreover the two `[Difficulty]` blocks leave the same slider multiplier
and the two `[Events]` blocks the same breaks, then finalisation (`From<BeatmapState> for Beatmap`: sort, forced new
combos after breaks, slider velocities, sample defaults) yields the same hit objects and the same control points, or
fails in the same way. -/
theorem decode_block_independent (v v' : Int) (hv : -i32Max ≤ v ∧ v ≤ i32Max) (hv' : -i32Max ≤ v' ∧ v' ≤ i32Max)
    (G E M D Ev C G' E' M' D' Ev' C' T H : List Str)
    (hG : ∀ r ∈ G, RecordLine r) (hE : ∀ r ∈ E, RecordLine r) (hM : ∀ r ∈ M, RecordLine r) (hD : ∀ r ∈ D, RecordLine r)
    (hEv : ∀ r ∈ Ev, RecordLine r) (hC : ∀ r ∈ C, RecordLine r)
    (hG' : ∀ r ∈ G', RecordLine r) (hE' : ∀ r ∈ E', RecordLine r) (hM' : ∀ r ∈ M', RecordLine r)
    (hD' : ∀ r ∈ D', RecordLine r) (hEv' : ∀ r ∈ Ev', RecordLine r) (hC' : ∀ r ∈ C', RecordLine r)
    (hT : ∀ r ∈ T, RecordLine r) (hH : ∀ r ∈ H, RecordLine r)
    (hkey : tpKey (runSection RtGeneral.generalStep (GeneralState.default : GeneralState F P) G') =
      tpKey (runSection RtGeneral.generalStep (GeneralState.default : GeneralState F P) G))
    (hsm : (runSection parseDifficulty (DifficultyState.create : DifficultyState F P) D').difficulty.sliderMultiplier =
      (runSection parseDifficulty (DifficultyState.create : DifficultyState F P) D).difficulty.sliderMultiplier)
    (hbr : (runSection parseEvents (Events.default : Events F) Ev').breaks =
      (runSection parseEvents (Events.default : Events F) Ev).breaks) :
    (frame (beatmapDecoder : LineDecoder (BeatmapState F P)) (fileLines v' G' E' M' D' Ev' T C' H)).finish.map listView =
      (frame (beatmapDecoder : LineDecoder (BeatmapState F P)) (fileLines v G E M D Ev T C H)).finish.map listView := by
  have hso := decode_block_independent_state v v' hv hv' G E M D Ev C G' E' M' D' Ev' C' T H hG hE hM hD hEv hC
    hG' hE' hM' hD' hEv' hC' hT hH hkey
  refine finish_listView_congr _ _ hso.1 (congrArg TpKey.mode hso.2) ?_ ?_
  · rw [frame_fileLines _ _ hv.1 hv.2 _ _ _ _ _ _ _ _ hG hE hM hD hEv hT hC hH,
      frame_fileLines _ _ hv'.1 hv'.2 _ _ _ _ _ _ _ _ hG' hE' hM' hD' hEv' hT hC' hH]
    simp only [beatmapDecoder]
    rw [(after_lists T C H _).2.1, (after_lists T C' H _).2.1, (after_records v G E M D Ev).2.2.1,
      (after_records v' G' E' M' D' Ev').2.2.1]
    exact hsm
  · rw [frame_fileLines _ _ hv.1 hv.2 _ _ _ _ _ _ _ _ hG hE hM hD hEv hT hC hH,
      frame_fileLines _ _ hv'.1 hv'.2 _ _ _ _ _ _ _ _ hG' hE' hM' hD' hEv' hT hC' hH]
    simp only [beatmapDecoder]
    rw [(after_lists T C H _).2.2, (after_lists T C' H _).2.2, (after_records v G E M D Ev).2.2.2,
      (after_records v' G' E' M' D' Ev').2.2.2]
    exact hbr

/-! ### Task 3: the frame clause -/

/-- an edit that the frame clause covers: whatever it did to metadata, editor, colours, the background file, the
general fields other than mode and the difficulty fields other than slider multiplier and tick rate, it left the
format version, the mode, the slider multiplier, the slider tick rate, the breaks, the control points and the hit
objects as they were. -/
structure FrameEdit (m m' : Beatmap F P) : Prop where
  inputs : SameListInputs m m'
  breaks : m'.events.breaks = m.events.breaks

variable {RF : F → Prop} {RP : P → Prop}

/-- **edit_frame_objects** — the frame clause of C03 for the hit-object and timing-point views. `m` is a map whose
encoding succeeds, `m'` the map after any edits covered by `FrameEdit`, both with representable record sections.
Then encoding `m'` succeeds too, both texts are read back by the `Beatmap` decoder without I/O error, the two decoder
states agree on hit objects, pending group and control points, and finalisation yields the same hit objects and the
same control points for both (or fails for both in the same way). Hypotheses: the codec laws, and the list blocks
of `m` being LF-free record lines (`ListBlockShape`, the open part of C04; nothing is assumed of the blocks of `m'`). -/
theorem edit_frame_objects (LF : CodecLaws F RF) (LP : CodecLaws P RP) (LI : IntPrintLaw F) (m m' : Beatmap F P)
    (hm : RepRecords RF RP m) (hm' : RepRecords RF RP m') (he : FrameEdit m m')
    (t : Str) (T H : List Str) (h : encode m = .ok t)
    (hT : encodeTimingPoints m = .ok (unlines (str "[TimingPoints]" :: T)))
    (hH : encodeHitObjects m = .ok (unlines (str "[HitObjects]" :: H)))
    (sT : ListBlockShape T) (sH : ListBlockShape H) :
    ∃ (t' : Str) (st st' : BeatmapState F P), encode m' = .ok t' ∧
      decodeBytes beatmapDecoder (utf8Encode t) = .ok st ∧ decodeBytes beatmapDecoder (utf8Encode t') = .ok st' ∧
      objView st' = objView st ∧ st'.finish.map listView = st.finish.map listView := by
  obtain ⟨t', h'⟩ := encode_ok_of_same_list_inputs m m' he.inputs t h
  have hT' : encodeTimingPoints m' = .ok (unlines (str "[TimingPoints]" :: T)) := by
    rw [encode_timing_depends_only_on m m' he.inputs]; exact hT
  have hH' : encodeHitObjects m' = .ok (unlines (str "[HitObjects]" :: H)) := by
    rw [encode_objects_depends_only_on m m' he.inputs.mode he.inputs.hitObjects]; exact hH
  have d := decodeBytes_encoded (beatmapDecoder : LineDecoder (BeatmapState F P)) LF LP LI m hm t T H h hT hH sT sH
  have d' := decodeBytes_encoded (beatmapDecoder : LineDecoder (BeatmapState F P)) LF LP LI m' hm' t' T H h' hT' hH' sT sH
  have rT : ∀ r ∈ T.map trimEnd, RecordLine r := fun r hr => by
    obtain ⟨l, hl, rfl⟩ := List.mem_map.mp hr; exact (sT l hl).2
  have rH : ∀ r ∈ H.map trimEnd, RecordLine r := fun r hr => by
    obtain ⟨l, hl, rfl⟩ := List.mem_map.mp hr; exact (sH l hl).2
  have hkey : tpKey (runSection RtGeneral.generalStep (GeneralState.default : GeneralState F P)
        (RtGeneral.decodedLines m'.general (RtGeneral.sampleSetOf m'.controlPoints))) =
      tpKey (runSection RtGeneral.generalStep (GeneralState.default : GeneralState F P)
        (RtGeneral.decodedLines m.general (RtGeneral.sampleSetOf m.controlPoints))) := by
    rw [RtGeneral.general_block_result LI LP _ _ hm.general, RtGeneral.general_block_result LI LP _ _ hm'.general,
      he.inputs.controlPoints]
    simp only [tpKey, RtGeneral.preservedGeneral, he.inputs.mode]
  have hsm : (runSection parseDifficulty (DifficultyState.create : DifficultyState F P)
        (RtDifficulty.decodedLines m'.difficulty)).difficulty.sliderMultiplier =
      (runSection parseDifficulty (DifficultyState.create : DifficultyState F P)
        (RtDifficulty.decodedLines m.difficulty)).difficulty.sliderMultiplier := by
    rw [RtDifficulty.difficulty_block_result LF LP _ hm.difficulty, RtDifficulty.difficulty_block_result LF LP _ hm'.difficulty]
    exact he.inputs.sliderMultiplier
  have hbr : (runSection parseEvents (Events.default : Events F) (RtEvents.decodedLines m'.events)).breaks =
      (runSection parseEvents (Events.default : Events F) (RtEvents.decodedLines m.events)).breaks := by
    rw [RtEvents.events_block_result LF _ hm.events, RtEvents.events_block_result LF _ hm'.events]
    exact he.breaks
  have rG := (RtGeneral.general_block_roundtrip LI LP _ (RtGeneral.sampleSetOf m.controlPoints) hm.general).1
  have rE := (RtEditor.editor_block_roundtrip LF _ hm.editor).1
  have rM := (RtMetadata.metadata_block_roundtrip _ hm.metadata).1
  have rD := (RtDifficulty.difficulty_block_roundtrip LF LP _ hm.difficulty).1
  have rEv := (RtEvents.events_block_roundtrip LF _ hm.events).1
  have rC := (RtColours.colours_block_roundtrip _ hm.colors).1
  have rG' := (RtGeneral.general_block_roundtrip LI LP _ (RtGeneral.sampleSetOf m'.controlPoints) hm'.general).1
  have rE' := (RtEditor.editor_block_roundtrip LF _ hm'.editor).1
  have rM' := (RtMetadata.metadata_block_roundtrip _ hm'.metadata).1
  have rD' := (RtDifficulty.difficulty_block_roundtrip LF LP _ hm'.difficulty).1
  have rEv' := (RtEvents.events_block_roundtrip LF _ hm'.events).1
  have rC' := (RtColours.colours_block_roundtrip _ hm'.colors).1
  exact ⟨t', _, _, h', d, d',
    (decode_block_independent_state _ _ hm.version hm'.version _ _ _ _ _ _ _ _ _ _ _ _ _ _ rG rE rM rD rEv rC
      rG' rE' rM' rD' rEv' rC' rT rH hkey).1,
    decode_block_independent _ _ hm.version hm'.version _ _ _ _ _ _ _ _ _ _ _ _ _ _ rG rE rM rD rEv rC
      rG' rE' rM' rD' rEv' rC' rT rH hkey hsm hbr⟩

/-- the same, read on the decoded maps: whenever both re-decoded maps exist they have the same hit objects and the
same control points, and one exists exactly when the other does. -/
theorem edit_frame_objects_maps (LF : CodecLaws F RF) (LP : CodecLaws P RP) (LI : IntPrintLaw F) (m m' : Beatmap F P)
    (hm : RepRecords RF RP m) (hm' : RepRecords RF RP m') (he : FrameEdit m m')
    (t : Str) (T H : List Str) (h : encode m = .ok t)
    (hT : encodeTimingPoints m = .ok (unlines (str "[TimingPoints]" :: T)))
    (hH : encodeHitObjects m = .ok (unlines (str "[HitObjects]" :: H)))
    (sT : ListBlockShape T) (sH : ListBlockShape H) :
    ∃ (t' : Str) (st st' : BeatmapState F P), encode m' = .ok t' ∧
      decodeBytes beatmapDecoder (utf8Encode t) = .ok st ∧ decodeBytes beatmapDecoder (utf8Encode t') = .ok st' ∧
      (∀ m2 : Beatmap F P, st.finish = .ok m2 →
        ∃ m2' : Beatmap F P, st'.finish = .ok m2' ∧ m2'.hitObjects = m2.hitObjects ∧ m2'.controlPoints = m2.controlPoints) ∧
      (∀ e, st.finish = .error e → st'.finish = .error e) := by
  obtain ⟨t', st, st', h1, h2, h3, _, h5⟩ := edit_frame_objects LF LP LI m m' hm hm' he t T H h hT hH sT sH
  refine ⟨t', st, st', h1, h2, h3, fun m2 hf => ?_, fun e hf => ?_⟩
  · rw [hf] at h5
    cases hf' : st'.finish with
    | error e => rw [hf'] at h5; cases h5
    | ok m2' =>
      rw [hf'] at h5
      simp only [Except.map, listView] at h5
      injection h5 with h5
      injection h5 with ha hb
      exact ⟨m2', rfl, ha, hb⟩
  · rw [hf] at h5
    cases hf' : st'.finish with
    | error e' => rw [hf'] at h5; simp only [Except.map] at h5; injection h5 with h5; rw [h5]
    | ok m2' => rw [hf'] at h5; cases h5

/-! ### which edits are `FrameEdit`s -/

theorem frameEdit_metadata (m : Beatmap F P) (d : Metadata) : FrameEdit m { m with metadata := d } :=
  ⟨⟨rfl, rfl, rfl, rfl, rfl, rfl⟩, rfl⟩
theorem frameEdit_editor (m : Beatmap F P) (e : Editor F) : FrameEdit m { m with editor := e } :=
  ⟨⟨rfl, rfl, rfl, rfl, rfl, rfl⟩, rfl⟩
theorem frameEdit_colors (m : Beatmap F P) (c : Colors) : FrameEdit m { m with colors := c } :=
  ⟨⟨rfl, rfl, rfl, rfl, rfl, rfl⟩, rfl⟩
/-- any general record with the same mode. -/
theorem frameEdit_general (m : Beatmap F P) (g : GeneralState F P) (hg : g.mode = m.general.mode) :
    FrameEdit m { m with general := g } :=
  ⟨⟨rfl, hg, rfl, rfl, rfl, rfl⟩, rfl⟩
/-- any difficulty record with the same slider multiplier and tick rate. -/
theorem frameEdit_difficulty (m : Beatmap F P) (d : Difficulty F P) (h1 : d.sliderMultiplier = m.difficulty.sliderMultiplier)
    (h2 : d.sliderTickRate = m.difficulty.sliderTickRate) : FrameEdit m { m with difficulty := d } :=
  ⟨⟨rfl, rfl, h1, h2, rfl, rfl⟩, rfl⟩
theorem frameEdit_background (m : Beatmap F P) (f : Str) :
    FrameEdit m { m with events := { m.events with backgroundFile := f } } :=
  ⟨⟨rfl, rfl, rfl, rfl, rfl, rfl⟩, rfl⟩
/-- edits compose (multi-field edits). -/
theorem FrameEdit.trans {a b c : Beatmap F P} (h1 : FrameEdit a b) (h2 : FrameEdit b c) : FrameEdit a c :=
  ⟨⟨h2.inputs.version.trans h1.inputs.version, h2.inputs.mode.trans h1.inputs.mode,
    h2.inputs.sliderMultiplier.trans h1.inputs.sliderMultiplier, h2.inputs.sliderTickRate.trans h1.inputs.sliderTickRate,
    h2.inputs.controlPoints.trans h1.inputs.controlPoints, h2.inputs.hitObjects.trans h1.inputs.hitObjects⟩,
   h2.breaks.trans h1.breaks⟩

end

/-! ### non-vacuity (toy codec) -/


/-- a map over the toy codec: one timing point, one circle, the sample records of Lemmas/Rt*.lean (mania). -/
def frameSample_map : Beatmap ZC ZC :=
  { formatVersion := 14, general := RtGeneral.sample, editor := RtEditor.sample, metadata := RtMetadata.sample,
    difficulty := RtDifficulty.sample, events := RtEvents.sample,
    controlPoints := { timingPoints := [⟨⟨0⟩, ⟨500⟩, false, TimeSignature.simpleQuadruple⟩] },
    colors := RtColours.sample, hitObjects := [RtObjects.sampleCircleObj] }

/-- the edited map: new title, new preview time, new HP drain, new background file, no custom colours, no bookmarks. -/
def frameSample_edited : Beatmap ZC ZC :=
  { frameSample_map with
    metadata := { frameSample_map.metadata with title := str "Re:Zero" }
    general := { frameSample_map.general with previewTime := -5 }
    difficulty := { frameSample_map.difficulty with hpDrainRate := ⟨2⟩ }
    events := { frameSample_map.events with backgroundFile := str "bg 2.png" }
    colors := { frameSample_map.colors with customColors := [] }
    editor := { frameSample_map.editor with bookmarks := [] } }

theorem frameSample_edited_frameEdit : FrameEdit frameSample_map frameSample_edited := ⟨⟨rfl, rfl, rfl, rfl, rfl, rfl⟩, rfl⟩

theorem frameSample_metadata_rep : RtMetadata.RepMetadata RtMetadata.sample := by
  refine ⟨?_, ?_, ?_, ?_, ?_, ?_, ?_, ?_, ?_, ?_⟩ <;> first | decide | (constructor <;> decide)

theorem frameSample_colours_rep : RtColours.RepColors RtColours.sample := by
  refine ⟨by decide, ?_, by decide⟩
  intro x hx
  simp only [RtColours.sample, List.mem_cons, List.not_mem_nil, or_false] at hx
  rcases hx with rfl | rfl | rfl <;> exact ⟨by decide, by decide, by decide, by decide, by decide, by decide⟩

theorem frameSample_map_rep : RepRecords ZC.Rep ZC.Rep frameSample_map :=
  ⟨⟨by decide, by decide⟩, RtGeneral.sample_rep, RtEditor.sample_rep, frameSample_metadata_rep, RtDifficulty.sample_rep,
   RtEvents.sample_rep, frameSample_colours_rep⟩

theorem frameSample_edited_rep : RepRecords ZC.Rep ZC.Rep frameSample_edited := by
  refine ⟨⟨by decide, by decide⟩, ?_, ?_, ?_, ?_, ?_, ?_⟩
  · exact ⟨RtGeneral.sample_rep.audioFile, RtGeneral.sample_rep.audioLeadIn, by decide, RtGeneral.sample_rep.stackLeniency,
      by decide⟩
  · exact ⟨by decide, RtEditor.sample_rep.distanceSpacing, RtEditor.sample_rep.beatDivisor, RtEditor.sample_rep.gridSize,
      RtEditor.sample_rep.timelineZoom⟩
  · refine ⟨?_, ?_, ?_, ?_, ?_, ?_, ?_, ?_, ?_, ?_⟩ <;> first | decide | (constructor <;> decide)
  · exact ⟨⟨by decide, by decide⟩, RtDifficulty.sample_rep.cs, RtDifficulty.sample_rep.od, RtDifficulty.sample_rep.ar,
      RtDifficulty.sample_rep.sm, RtDifficulty.sample_rep.smIn, RtDifficulty.sample_rep.tr, RtDifficulty.sample_rep.trIn⟩
  · exact ⟨Or.inr ⟨by decide, by decide, by decide, by decide, by decide, by decide⟩, RtEvents.sample_rep.breaks⟩
  · exact ⟨frameSample_colours_rep.combos, (by intro x hx; cases hx), (by decide)⟩

def frameSample_timingLines : List Str := [str "0,500,4,1,0,0,1,0"]
def frameSample_objectLines : List Str := [str "256,-192,1000,53,2,2:3:0:0:"]

theorem frameSample_timing_block : encodeTimingPoints frameSample_map = .ok (unlines (str "[TimingPoints]" :: frameSample_timingLines)) := by
  have h : (encodeTimingPoints frameSample_map).toOption = some (unlines (str "[TimingPoints]" :: frameSample_timingLines)) := by decide +kernel
  cases h' : encodeTimingPoints frameSample_map with
  | error e => rw [h'] at h; cases h
  | ok x => rw [h'] at h; simp only [Except.toOption] at h; injection h with h; rw [h]

theorem frameSample_objects_block : encodeHitObjects frameSample_map = .ok (unlines (str "[HitObjects]" :: frameSample_objectLines)) := by rfl

theorem frameSample_timing_shape : ListBlockShape frameSample_timingLines := by
  intro l hl
  simp only [frameSample_timingLines, List.mem_cons, List.not_mem_nil, or_false] at hl
  subst hl
  exact ⟨by decide, by decide, by decide⟩

theorem frameSample_objects_shape : ListBlockShape frameSample_objectLines := by
  intro l hl
  simp only [frameSample_objectLines, List.mem_cons, List.not_mem_nil, or_false] at hl
  subst hl
  exact ⟨by decide, by decide, by decide⟩

theorem frameSample_map_encodes : ∃ t, encode frameSample_map = .ok t := by
  unfold encode
  rw [frameSample_timing_block, frameSample_objects_block]
  exact ⟨_, rfl⟩

/-- the hypotheses of `edit_frame_objects` hold of `frameSample_map` / `frameSample_edited`, so its conclusion does. -/
example : ∃ (t t' : Str) (st st' : BeatmapState ZC ZC), encode frameSample_map = .ok t ∧ encode frameSample_edited = .ok t' ∧
    decodeBytes beatmapDecoder (utf8Encode t) = .ok st ∧ decodeBytes beatmapDecoder (utf8Encode t') = .ok st' ∧
    objView st' = objView st ∧ st'.finish.map listView = st.finish.map listView := by
  obtain ⟨t, ht⟩ := frameSample_map_encodes
  obtain ⟨t', st, st', h1, h2, h3, h4, h5⟩ := edit_frame_objects ZC.laws ZC.laws ZC.intPrintLaw frameSample_map frameSample_edited frameSample_map_rep frameSample_edited_rep
    frameSample_edited_frameEdit t frameSample_timingLines frameSample_objectLines ht frameSample_timing_block frameSample_objects_block frameSample_timing_shape frameSample_objects_shape
  exact ⟨t, t', st, st', ht, h1, h2, h3, h4, h5⟩

/-- the edit is not the identity on the text: the two encodings differ. -/
example : (encode frameSample_map).toOption ≠ (encode frameSample_edited).toOption := by decide +kernel

/-! why breaks and mode are excluded, on the model's own functions -/

def frameSample_ncOf (h : HitObject ZC ZC) : Bool :=
  match h.kind with | .circle c => c.newCombo | .slider s => s.newCombo | .spinner s => s.newCombo | .hold _ => false

def frameSample_twoCircles : List (HitObject ZC ZC) :=
  [⟨⟨1000⟩, .circle ⟨⟨⟨0⟩, ⟨0⟩⟩, true, 0⟩, []⟩, ⟨⟨2000⟩, .circle ⟨⟨⟨0⟩, ⟨0⟩⟩, false, 0⟩, []⟩]

/-- a break between two objects forces a new combo on the second: a break edit changes the re-decoded hit objects. -/
example : (postProcessBreaks [⟨⟨1200⟩, ⟨1500⟩⟩] frameSample_twoCircles 0).map frameSample_ncOf = [true, true] ∧
    (postProcessBreaks [] frameSample_twoCircles 0).map frameSample_ncOf = [true, false] := by decide

def frameSample_fastLine : TpLine ZC :=
  { time := ⟨0⟩, beatLen := ⟨-20⟩, speedMultiplier := ⟨5⟩, timeSignature := TimeSignature.simpleQuadruple,
    sampleSet := SampleBank.normal, customSampleBank := 0, sampleVolume := 100, timingChange := false, kiai := false,
    omitFirstBarLine := false }

/-- the same timing line yields another effect point in taiko than in osu!: a mode edit changes the re-decoded control points. -/
example : (frameSample_fastLine.effectPoint GameMode.taiko).scrollSpeed = ⟨5⟩ ∧ (frameSample_fastLine.effectPoint GameMode.osu).scrollSpeed = ⟨1⟩ := by
  decide


end Rosu.C03
